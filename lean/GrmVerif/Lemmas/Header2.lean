import GrmVerif.Lemmas.Header
/-!
Specification lemmas (one per function of `Model/Header.lean`) in the Hoare style of
`Res.Sat`: from a sliceable position each function returns `ok` at a later sliceable position with
well-formed spans, or an error with well-formed spans; never `panic`, never `fuelOut`.
-/
namespace GrmVerif.Header

theorem slice_sat {ε : Type} {src : List Char} {i : Nat} {E : ε → Prop} (h : Valid src i) :
    (slice src i : Res ε _).Sat (fun rest => dropBytes src i = some rest) E := by
  obtain ⟨rest, hr⟩ := h
  simp [slice, hr, Res.Sat]

theorem parseWs_sat {ε : Type} {src : List Char} {i : Nat} {E : ε → Prop} (h : Valid src i) :
    (parseWs src i : Res ε _).Sat (fun j => i ≤ j ∧ Valid src j) E := by
  unfold parseWs
  refine Sat.bind (slice_sat h) ?_
  intro rest hr
  refine Sat.pure ⟨by omega, valid_advance hr (List.takeWhile_prefix _)⟩

theorem lookahead_sat {ε : Type} {src : List Char} (s : List Char) {i : Nat} {E : ε → Prop} (h : Valid src i) :
    (lookahead src s i : Res ε _).Sat
      (fun o => ∀ j, o = some j → j = i + byteLen s ∧ Valid src j) E := by
  unfold lookahead
  refine Sat.bind (slice_sat h) ?_
  intro rest hr
  refine Sat.pure ?_
  intro j hj
  split at hj
  · next hp =>
    simp at hj
    exact ⟨hj.symm, hj ▸ valid_advance hr (List.isPrefixOf_iff_prefix.1 hp)⟩
  · simp at hj



theorem byteLen_pos {m : List Char} (h : m ≠ []) : 0 < byteLen m := by
  cases m with
  | nil => exact absurd rfl h
  | cons c cs => have := Char.utf8Size_pos c; simp [byteLen]; omega

theorem reName_some {rest m : List Char} (h : reName rest = some m) : m <+: rest ∧ m ≠ [] := by
  cases rest with
  | nil => simp [reName] at h
  | cons c cs =>
    simp only [reName] at h
    split at h
    · simp at h; subst h
      exact ⟨by simpa using (List.takeWhile_prefix _), by simp⟩
    · simp at h

theorem reDigits_some {rest m : List Char} (h : reDigits rest = some m) : m <+: rest ∧ m ≠ [] := by
  cases rest with
  | nil => simp [reDigits] at h
  | cons c cs =>
    simp only [reDigits] at h
    split at h
    · simp at h; subst h
      exact ⟨by simpa using (List.takeWhile_prefix _), by simp⟩
    · simp at h

/-- the text matched after the opening quote is a prefix and ends with the closing quote -/
theorem reStringBody_some {rest m : List Char} (h : reStringBody rest = some m) :
    ∃ body q, m = body ++ [q] ∧ q.utf8Size = 1 ∧ m <+: rest := by
  fun_induction reStringBody rest generalizing m with
  | case1 => simp at h
  | case2 c cs hc =>
    simp at h; subst h
    refine ⟨[], c, by simp, ?_, by simp⟩
    have : c = Char.ofNat 34 := by
      apply Char.ext; apply UInt32.toNat_inj.1 <;> simpa using hc
    subst this; decide
  | case3 c hc1 hc2 => simp at h
  | case4 c hc1 hc2 d ds hd => simp at h
  | case5 c hc1 hc2 d ds hd ih =>
    simp only [Option.map_eq_some_iff] at h
    obtain ⟨m', hm', rfl⟩ := h
    obtain ⟨body, q, rfl, hq, hp⟩ := ih hm'
    exact ⟨c :: d :: body, q, by simp, hq, by simpa using hp⟩
  | case6 c cs hc1 hc2 ih =>
    simp only [Option.map_eq_some_iff] at h
    obtain ⟨m', hm', rfl⟩ := h
    obtain ⟨body, q, rfl, hq, hp⟩ := ih hm'
    exact ⟨c :: body, q, by simp, hq, by simpa using hp⟩



theorem err_at_sat {α : Type} {src : List Char} {k : ErrKind} {i : Nat} {P : α → Prop} (h : Valid src i) :
    (Res.err ⟨k, [(i, i)]⟩ : Res HErr α).Sat P (ErrOK src) := by
  refine ⟨by simp, ?_⟩
  intro sp hsp
  simp at hsp; subst hsp; exact spanOK_refl h

theorem parseName_sat {src : List Char} {i : Nat} (h : Valid src i) :
    (parseName src i).Sat (fun p => i < p.2 ∧ Valid src p.2) (ErrOK src) := by
  unfold parseName
  refine Sat.bind (slice_sat h) ?_
  intro rest hr
  split
  · next m hm =>
    obtain ⟨hp, hne⟩ := reName_some hm
    have := byteLen_pos hne
    refine Sat.bind (P := fun _ => True) ?_ ?_
    · rw [sliceRange_ok hr hp]; trivial
    · intro name _
      exact Sat.pure ⟨by simp; omega, valid_advance hr hp⟩
  · split
    · exact err_at_sat h
    · exact err_at_sat h

def NsOK (src : List Char) (n : Namespaced) : Prop := ∀ sp ∈ n.spans, SpanOK src sp

theorem parseNamespaced_sat {src : List Char} {i : Nat} (h : Valid src i) :
    (parseNamespaced src i).Sat (fun p => i < p.2 ∧ Valid src p.2 ∧ NsOK src p.1) (ErrOK src) := by
  unfold parseNamespaced
  refine Sat.bind (parseName_sat h) ?_
  rintro ⟨name, j⟩ ⟨hij, hj⟩
  simp only at hij hj
  refine Sat.bind (parseWs_sat hj) ?_
  intro i1 ⟨hji1, hi1⟩
  refine Sat.bind (lookahead_sat _ hi1) ?_
  intro o ho
  split
  · next j2 =>
    obtain ⟨hj2, hvj2⟩ := ho j2 rfl
    refine Sat.bind (parseWs_sat hvj2) ?_
    intro i2 ⟨h12, hi2⟩
    refine Sat.bind (parseName_sat hi2) ?_
    rintro ⟨member, j3⟩ ⟨hi2j3, hj3⟩
    simp only at hi2j3 hj3
    refine Sat.bind (parseWs_sat hj3) ?_
    intro i3 ⟨h3, hi3⟩
    refine Sat.pure ⟨by simp; omega, hi3, ?_⟩
    intro sp hsp
    simp [Namespaced.spans] at hsp
    rcases hsp with rfl | rfl
    · exact ⟨by simp; omega, h, hj⟩
    · exact ⟨by simp; omega, hi2, hj3⟩
  · refine Sat.pure ⟨by simp; omega, hi1, ?_⟩
    intro sp hsp
    simp [Namespaced.spans] at hsp
    subst hsp
    exact ⟨by simp; omega, h, hj⟩

theorem parseCtorOrUnitary_sat {src : List Char} {i : Nat} (h : Valid src i) :
    (parseCtorOrUnitary src i).Sat (fun p => i < p.2 ∧ Valid src p.2 ∧ SettingOK src p.1) (ErrOK src) := by
  unfold parseCtorOrUnitary
  refine Sat.bind (parseNamespaced_sat h) ?_
  rintro ⟨pathVal, j⟩ ⟨hij, hj, hpv⟩
  simp only at hij hj hpv
  refine Sat.bind (parseWs_sat hj) ?_
  intro i1 ⟨hji1, hi1⟩
  refine Sat.bind (lookahead_sat _ hi1) ?_
  intro o ho
  split
  · next j2 =>
    obtain ⟨hj2, hvj2⟩ := ho j2 rfl
    refine Sat.bind (parseNamespaced_sat hvj2) ?_
    rintro ⟨arg, j3⟩ ⟨h23, hj3, harg⟩
    simp only at h23 hj3 harg
    refine Sat.bind (parseWs_sat hj3) ?_
    intro i3 ⟨h3, hi3⟩
    refine Sat.bind (lookahead_sat _ hi3) ?_
    intro o2 ho2
    split
    · next j4 =>
      obtain ⟨hj4, hvj4⟩ := ho2 j4 rfl
      refine Sat.bind (parseWs_sat hvj4) ?_
      intro i4 ⟨h4, hi4⟩
      refine Sat.pure ⟨by simp; omega, hi4, ?_⟩
      intro sp hsp
      simp [Setting.spans] at hsp
      rcases hsp with hsp | hsp
      · exact hpv sp hsp
      · exact harg sp hsp
    · exact err_at_sat hi3
  · refine Sat.pure ⟨by simp; omega, hi1, ?_⟩
    intro sp hsp
    simp [Setting.spans] at hsp
    exact hpv sp hsp

def ListOK (src : List Char) (xs : List Setting) : Prop := ∀ sp ∈ Setting.spansList xs, SpanOK src sp

theorem listOK_snoc {src : List Char} {xs : List Setting} {x : Setting} (h : ListOK src xs) (hx : SettingOK src x) :
    ListOK src (xs ++ [x]) := by
  intro sp hsp
  simp [spansList_append, Setting.spansList] at hsp
  rcases hsp with hsp | hsp
  · exact h sp hsp
  · exact hx sp hsp

theorem byteLen_one (c : Char) (h : c.utf8Size = 1) : byteLen [c] = 1 := by simp [byteLen, h]

theorem arrayLoop_sat {src : List Char} {elem : Nat → Res HErr (Setting × Nat)} {i openPos : Nat}
    (hio : i < openPos) (hi : Valid src i) (ho : Valid src openPos)
    (helem : ∀ p, openPos ≤ p → Valid src p →
      (elem p).Sat (fun r => p < r.2 ∧ Valid src r.2 ∧ SettingOK src r.1) (ErrOK src))
    (f : Nat) : ∀ (j : Nat) (vals : List Setting), openPos ≤ j → Valid src j → byteLen src - j < f →
      ListOK src vals →
      (arrayLoop src elem i openPos f j vals).Sat (fun r => i < r.2 ∧ Valid src r.2 ∧ SettingOK src r.1) (ErrOK src) := by
  induction f with
  | zero => intro j vals _ _ hf; omega
  | succ f ih =>
    intro j vals hoj hj hf hvals
    unfold arrayLoop
    refine Sat.bind (parseWs_sat hj) ?_
    intro j1 ⟨hjj1, hj1⟩
    refine Sat.bind (lookahead_sat _ hj1) ?_
    intro o hoo
    split
    · next endPos =>
      obtain ⟨he, hve⟩ := hoo endPos rfl
      have : byteLen [']'] = 1 := by decide
      refine Sat.pure ⟨by simp; omega, hve, ?_⟩
      intro sp hsp
      simp [Setting.spans] at hsp
      rcases hsp with rfl | rfl | hsp
      · exact ⟨by simp; omega, hi, ho⟩
      · exact ⟨by simp; omega, hj1, hve⟩
      · exact hvals sp hsp
    · have hel := helem j1 (by omega) hj1
      have hle := hj1.le
      split
      · next val k heq =>
        rw [heq] at hel
        obtain ⟨hk, hvk, hval⟩ := hel
        simp only at hk hvk hval
        refine Sat.bind (parseWs_sat hvk) ?_
        intro j2 ⟨hkj2, hj2⟩
        have hle2 := hj2.le
        refine Sat.bind (lookahead_sat _ hj2) ?_
        intro o2 ho2
        split
        · next k2 =>
          obtain ⟨hk2, hvk2⟩ := ho2 k2 rfl
          have hle3 := hvk2.le
          exact ih k2 _ (by omega) hvk2 (by omega) (listOK_snoc hvals hval)
        · exact ih j2 _ (by omega) hj2 (by omega) (listOK_snoc hvals hval)
      · next e heq =>
        rw [heq] at hel
        refine Sat.bind (lookahead_sat _ hj1) ?_
        intro o2 ho2
        split
        · next k2 =>
          obtain ⟨hk2, hvk2⟩ := ho2 k2 rfl
          have hle3 := hvk2.le
          have : byteLen [','] = 1 := by decide
          exact ih k2 _ (by omega) hvk2 (by omega) hvals
        · exact hel
      · next heq => rw [heq] at hel; exact hel
      · next heq => rw [heq] at hel; exact hel



theorem reString_some {rest m : List Char} (h : reString rest = some m) :
    ∃ c cs body q, rest = c :: cs ∧ m = c :: (body ++ [q]) ∧ c.utf8Size = 1 ∧ q.utf8Size = 1 ∧
      (body ++ [q]) <+: cs := by
  cases rest with
  | nil => simp [reString] at h
  | cons c cs =>
    simp only [reString] at h
    split at h
    · next hc =>
      simp only [Option.map_eq_some_iff] at h
      obtain ⟨m', hm', rfl⟩ := h
      obtain ⟨body, q, rfl, hq, hp⟩ := reStringBody_some hm'
      refine ⟨c, cs, body, q, rfl, rfl, ?_, hq, hp⟩
      have : c = Char.ofNat 34 := by
        apply Char.ext; apply UInt32.toNat_inj.1 <;> simpa using hc
      subst this; decide
    · simp at h

theorem parseSetting_sat {src : List Char} (f : Nat) : ∀ i, Valid src i → byteLen src - i < f →
    (parseSetting src f i).Sat (fun r => i < r.2 ∧ Valid src r.2 ∧ SettingOK src r.1) (ErrOK src) := by
  induction f with
  | zero => intro i _ hf; omega
  | succ f ih =>
    intro i hi hf
    unfold parseSetting
    refine Sat.bind (parseWs_sat hi) ?_
    intro i1 ⟨hii1, hi1⟩
    refine Sat.bind (slice_sat hi1) ?_
    intro rest hr
    split
    · next m hm =>
      obtain ⟨hp, hne⟩ := reDigits_some hm
      have hpos := byteLen_pos hne
      have hv2 := valid_advance hr hp
      have hspan : SpanOK src (i1, i1 + byteLen m) := ⟨by simp, hi1, hv2⟩
      dsimp only
      refine Sat.bind (P := fun _ => True) (by rw [sliceRange_ok hr hp]; trivial) ?_
      intro numStr _
      split
      · refine Sat.bind (parseWs_sat hv2) ?_
        intro i2 ⟨h2, hi2⟩
        refine Sat.pure ⟨by simp; omega, hi2, ?_⟩
        intro sp hsp
        simp [Setting.spans] at hsp
        subst hsp; exact hspan
      · refine ⟨by simp, ?_⟩
        intro sp hsp
        simp at hsp
        subst hsp; exact hspan
    · split
      · next m hm =>
        obtain ⟨c, cs, body, q, rfl, rfl, hc, hq, hp⟩ := reString_some hm
        have hlen : byteLen (c :: (body ++ [q])) = 1 + byteLen body + 1 := by
          simp [byteLen, byteLen_append, hc, hq]; omega
        have hcs : dropBytes src (i1 + 1) = some cs := by
          have := dropBytes_advance hr (pre := [c]) (by simp)
          simpa [byteLen, hc] using this
        have hbody : body <+: cs := (List.prefix_append body [q]).trans hp
        have hm' : (c :: (body ++ [q])) <+: (c :: cs) := by simpa using hp
        have hvend := valid_advance hr hm'
        have hvb := valid_advance hcs hbody
        have e : i1 + byteLen (c :: (body ++ [q])) - 1 = (i1 + 1) + byteLen body := by omega
        dsimp only
        rw [e]
        refine Sat.bind (P := fun _ => True) (by rw [sliceRange_ok hcs hbody]; trivial) ?_
        intro _ _
        refine Sat.bind (parseWs_sat hvend) ?_
        intro i2 ⟨h2, hi2⟩
        refine Sat.pure ⟨by simp; omega, hi2, ?_⟩
        intro sp hsp
        simp [Setting.spans] at hsp
        subst hsp
        exact ⟨by simp, ⟨cs, hcs⟩, hvb⟩
      · refine Sat.bind (lookahead_sat _ hi1) ?_
        intro o ho
        split
        · next j =>
          obtain ⟨hj, hvj⟩ := ho j rfl
          have h1 : byteLen ['['] = 1 := by decide
          have hle := hvj.le
          refine Sat.mono (arrayLoop_sat (by omega) hi1 hvj ?_ f j [] (Nat.le_refl _) hvj (by omega) ?_) ?_ (fun _ h => h)
          · intro p hp hvp
            have := hvp.le
            exact ih p hvp (by omega)
          · intro sp hsp; simp [Setting.spansList] at hsp
          · intro r ⟨h1, h2, h3⟩; exact ⟨by omega, h2, h3⟩
        · refine Sat.mono (parseCtorOrUnitary_sat hi1) ?_ (fun _ h => h)
          intro r ⟨h1, h2, h3⟩; exact ⟨by omega, h2, h3⟩

def ValueOK (src : List Char) (v : Value) : Prop := ∀ sp ∈ v.spans, SpanOK src sp

theorem parseKeyValue_sat {src : List Char} {fuel i : Nat} (hi : Valid src i) (hf : byteLen src < fuel) :
    (parseKeyValue src fuel i).Sat
      (fun r => i < r.2.2.2 ∧ Valid src r.2.2.2 ∧ SpanOK src r.2.1 ∧ ValueOK src r.2.2.1) (ErrOK src) := by
  unfold parseKeyValue
  refine Sat.bind (lookahead_sat _ hi) ?_
  intro o ho
  split
  · next j =>
    obtain ⟨hj, hvj⟩ := ho j rfl
    refine Sat.bind (parseName_sat hvj) ?_
    rintro ⟨name, k⟩ ⟨hjk, hk⟩
    simp only at hjk hk
    refine Sat.bind (parseWs_sat hk) ?_
    intro e ⟨hke, he⟩
    refine Sat.pure ⟨by simp; omega, he, ⟨by simp; omega, hvj, hk⟩, ?_⟩
    intro sp hsp
    simp [Value.spans] at hsp
    subst hsp
    exact ⟨by simp; omega, hi, hk⟩
  · refine Sat.bind (parseName_sat hi) ?_
    rintro ⟨name, j⟩ ⟨hij, hj⟩
    simp only at hij hj
    refine Sat.bind (parseWs_sat hj) ?_
    intro i1 ⟨hji1, hi1⟩
    refine Sat.bind (lookahead_sat _ hi1) ?_
    intro o2 ho2
    have hks : SpanOK src (i, j) := ⟨by simp; omega, hi, hj⟩
    split
    · next j2 =>
      obtain ⟨hj2, hvj2⟩ := ho2 j2 rfl
      refine Sat.bind (parseSetting_sat fuel j2 hvj2 (by omega)) ?_
      rintro ⟨val, j3⟩ ⟨h23, hj3, hval⟩
      simp only at h23 hj3 hval
      refine Sat.pure ⟨by simp; omega, hj3, hks, ?_⟩
      intro sp hsp
      simp [Value.spans] at hsp
      exact hval sp hsp
    · refine Sat.pure ⟨by simp; omega, hi1, hks, ?_⟩
      intro sp hsp
      simp [Value.spans] at hsp
      subst hsp; exact hks



def EntryOK (src : List Char) (e : Entry) : Prop := ∀ sp ∈ e.spans, SpanOK src sp

/-- the error list of `parse`: non-empty, every error located and well-formed -/
def ErrsOK (src : List Char) (es : List HErr) : Prop := es ≠ [] ∧ ∀ e ∈ es, ErrOK src e

theorem addDup_ok {src : List Char} {orig dup : Span} (ho : SpanOK src orig) (hd : SpanOK src dup) :
    ∀ errs : List HErr, (∀ e ∈ errs, ErrOK src e) → ∀ e ∈ addDup orig dup errs, ErrOK src e := by
  intro errs
  induction errs with
  | nil =>
    intro _ e he
    simp [addDup] at he; subst he
    refine ⟨by simp, ?_⟩
    intro sp hsp; simp at hsp
    rcases hsp with rfl | rfl
    · exact ho
    · exact hd
  | cons x xs ih =>
    intro hall e he
    simp only [addDup] at he
    split at he
    · simp at he
      rcases he with rfl | he
      · refine ⟨by simp, ?_⟩
        intro sp hsp; simp at hsp
        rcases hsp with hsp | rfl
        · exact (hall x (by simp)).2 sp hsp
        · exact hd
      · exact hall e (by simp [he])
    · simp at he
      rcases he with rfl | he
      · exact hall _ (by simp)
      · exact ih (fun e he => hall e (by simp [he])) e he

theorem addDup_ne_nil (orig dup : Span) (errs : List HErr) : addDup orig dup errs ≠ [] := by
  cases errs with
  | nil => simp [addDup]
  | cons x xs => simp only [addDup]; split <;> simp

theorem insertEntry_ok {src : List Char} {ret : List Entry} {errs : List HErr} {key : List Char} {loc : Span}
    {val : Value} (hret : ∀ e ∈ ret, EntryOK src e) (herrs : ∀ e ∈ errs, ErrOK src e)
    (hloc : SpanOK src loc) (hval : ValueOK src val) :
    (∀ e ∈ (insertEntry ret errs key loc val).1, EntryOK src e) ∧
    (∀ e ∈ (insertEntry ret errs key loc val).2, ErrOK src e) := by
  unfold insertEntry
  split
  · next orig hfind =>
    have hmem := List.mem_of_find?_eq_some hfind
    have horig : SpanOK src orig.loc := hret orig hmem orig.loc (by simp [Entry.spans])
    exact ⟨hret, addDup_ok horig hloc errs herrs⟩
  · refine ⟨?_, herrs⟩
    intro e he
    simp at he
    rcases he with he | rfl
    · exact hret e he
    · intro sp hsp
      simp [Entry.spans] at hsp
      rcases hsp with rfl | hsp
      · exact hloc
      · exact hval sp hsp

theorem keyLoop_sat {src : List Char} {sfuel : Nat} (hsf : byteLen src < sfuel) (f : Nat) :
    ∀ (i : Nat) (ret : List Entry) (errs : List HErr), Valid src i → byteLen src - i < f →
      (∀ e ∈ ret, EntryOK src e) → (∀ e ∈ errs, ErrOK src e) →
      (keyLoop src sfuel f i ret errs).Sat
        (fun r => i ≤ r.1 ∧ Valid src r.1 ∧ (∀ e ∈ r.2.1, EntryOK src e) ∧ (∀ e ∈ r.2.2, ErrOK src e))
        (ErrsOK src) := by
  induction f with
  | zero => intro i _ _ _ hf; omega
  | succ f ih =>
    intro i ret errs hi hf hret herrs
    unfold keyLoop
    refine Sat.bind (lookahead_sat _ hi) ?_
    intro o _
    split
    · exact Sat.pure ⟨Nat.le_refl _, hi, hret, herrs⟩
    · split
      · refine Sat.bind (P := fun r => i < r.2.2.2 ∧ Valid src r.2.2.2 ∧ SpanOK src r.2.1 ∧ ValueOK src r.2.2.1)
          (Sat.mapErr (parseKeyValue_sat hi hsf) ?_) ?_
        · intro e he
          refine ⟨by simp, ?_⟩
          intro e' he'
          simp at he'
          rcases he' with he' | rfl
          · exact herrs e' he'
          · exact he
        · rintro ⟨key, keyLoc, val, j⟩ ⟨hij, hj, hloc, hval⟩
          simp only at hij hj hloc hval
          obtain ⟨h1, h2⟩ := insertEntry_ok (key := key) hret herrs hloc hval
          dsimp only
          refine Sat.bind (lookahead_sat _ hj) ?_
          intro o2 ho2
          split
          · next j2 =>
            obtain ⟨hj2, hvj2⟩ := ho2 j2 rfl
            refine Sat.bind (parseWs_sat hvj2) ?_
            intro i2 ⟨h22, hi2⟩
            have := hi2.le
            refine Sat.mono (ih i2 _ _ hi2 (by omega) h1 h2) ?_ (fun _ h => h)
            intro r ⟨hr1, hr2⟩
            exact ⟨by omega, hr2⟩
          · refine Sat.bind (parseWs_sat hj) ?_
            intro i2 ⟨h22, hi2⟩
            exact Sat.pure ⟨by simp; omega, hi2, h1, h2⟩
      · exact Sat.pure ⟨Nat.le_refl _, hi, hret, herrs⟩

/-- what `parse` may return: a value whose end position and spans are well-formed, or a non-empty
list of located, well-formed errors -/
theorem parseWith_sat {src : List Char} {required : Bool} {fuel : Nat} (hf : byteLen src < fuel) :
    (parseWith src required fuel).Sat
      (fun r => Valid src r.2 ∧ ∀ e ∈ r.1, EntryOK src e) (ErrsOK src) := by
  have single : ∀ {k : ErrKind} {sp : Span}, SpanOK src sp → ErrsOK src [⟨k, [sp]⟩] := by
    intro k sp h
    refine ⟨by simp, ?_⟩
    intro e he; simp at he; subst he
    exact ⟨by simp, by intro s hs; simp at hs; subst hs; exact h⟩
  have snoc : ∀ {errs : List HErr} {k : ErrKind} {sp : Span}, (∀ e ∈ errs, ErrOK src e) → SpanOK src sp →
      ErrsOK src (errs ++ [⟨k, [sp]⟩]) := by
    intro errs k sp hall h
    refine ⟨by simp, ?_⟩
    intro e he; simp at he
    rcases he with he | rfl
    · exact hall e he
    · exact ⟨by simp, by intro s hs; simp at hs; subst hs; exact h⟩
  unfold parseWith
  refine Sat.bind (parseWs_sat (valid_zero src)) ?_
  intro i0 ⟨_, hi0⟩
  refine Sat.bind (lookahead_sat _ hi0) ?_
  intro o ho
  split
  · next i1 =>
    obtain ⟨_, hi1⟩ := ho i1 rfl
    refine Sat.bind (parseWs_sat hi1) ?_
    intro i2 ⟨_, hi2⟩
    refine Sat.bind (lookahead_sat _ hi2) ?_
    intro o2 ho2
    dsimp only
    split
    · next j =>
      obtain ⟨hj, hvj⟩ := ho2 j rfl
      refine Sat.bind (parseWs_sat hvj) ?_
      intro i3 ⟨hji3, hi3⟩
      refine Sat.bind (keyLoop_sat hf fuel i3 [] [] hi3 (by omega) (by simp) (by simp)) ?_
      rintro ⟨i4, ret, errs⟩ ⟨h34, hi4, hret, herrs⟩
      simp only at h34 hi4 hret herrs
      refine Sat.bind (lookahead_sat _ hi4) ?_
      intro o3 ho3
      split
      · next j5 =>
        obtain ⟨hj5, hvj5⟩ := ho3 j5 rfl
        exact snoc herrs ⟨by simp; omega, hi4, hvj5⟩
      · refine Sat.bind (lookahead_sat _ hi4) ?_
        intro o4 ho4
        split
        · next i5 =>
          obtain ⟨_, hvi5⟩ := ho4 i5 rfl
          split
          · exact Sat.pure ⟨hvi5, hret⟩
          · next hne =>
            refine ⟨?_, herrs⟩
            intro h; simp at h; subst h; simp at hne
        · exact snoc herrs ⟨by simp; omega, hi2, hi4⟩
    · exact single (spanOK_refl hi2)
  · split
    · exact single (spanOK_refl (valid_zero src))
    · exact Sat.pure ⟨valid_zero src, by simp⟩

end GrmVerif.Header
