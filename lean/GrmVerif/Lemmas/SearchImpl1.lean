import GrmVerif.Lemmas.Search
import GrmVerif.Lemmas.RankImpl2
import GrmVerif.Lemmas.RankImplO
import GrmVerif.Model.SearchImpl
/-!
Specification-level relations for the proof that the modelled search (`Model/SearchImpl.lean`) is
correct.

`Step`/`IPath` describe the search graph as the IMPLEMENTATION walks it: like `Rec.Search`, except that
a node stops the walk when the implementation's `success` closure says so (`implSucc`: `N` trailing
shifts, or the action of the TOP state on the next token is Accept — no reductions are tried), whereas
`Rec.isSuccess` also accepts after reductions ("late accept"). `ISearch` = a walk that ends in a node
that is a success in the specification's sense. The two notions yield the same minimum cost and the
same sequences at that cost when every token costs at least 1 (`search_of_isearch`,
`isearch_of_search`).
-/
namespace GrmVerif.SearchImpl
open GrmVerif LR Rec RankImpl

/-- the `success` closure of `recover` on a specification node -/
def implSucc (G : Grammar) (A : Automaton) (w : List Nat) (N : Nat) (n : Node) : Bool :=
  decide (n.trail ≥ N) ||
  (match n.c.stack with
   | [] => false
   | st :: _ => A.action st (nextTok G w n.c.pos) == .accept)

/-- one edge of the search graph, with its cost -/
inductive Step (G : Grammar) (A : Automaton) (w : List Nat) (cost : Nat → Nat) (N : Nat) (a : Node) :
    Repair → Node → Nat → Prop
  | shift (c' : Pos) : implSucc G A w N a = false → applyRepair G A w a.c .shift = some c' →
      Step G A w cost N a .shift ⟨c', .shift :: a.rev, a.trail + 1⟩ 0
  | insert (t : Nat) (c' : Pos) : implSucc G A w N a = false → a.rev.head? ≠ some .delete →
      t < G.ntoks → t ≠ G.eof → applyRepair G A w a.c (.insert t) = some c' →
      Step G A w cost N a (.insert t) ⟨c', .insert t :: a.rev, 0⟩ (cost t)
  | delete (t : Nat) : implSucc G A w N a = false → w[a.c.pos]? = some t →
      Step G A w cost N a .delete ⟨⟨a.c.stack, a.c.pos + 1⟩, .delete :: a.rev, 0⟩ (cost t)

/-- a walk: the repairs made, the node reached, the cost -/
inductive IPath (G : Grammar) (A : Automaton) (w : List Nat) (cost : Nat → Nat) (N : Nat) :
    Node → List Repair → Node → Nat → Prop
  | nil (a : Node) : IPath G A w cost N a [] a 0
  | cons {a a' n : Node} {r : Repair} {suf : List Repair} {c0 k : Nat} :
      Step G A w cost N a r a' c0 → IPath G A w cost N a' suf n k →
      IPath G A w cost N a (r :: suf) n (c0 + k)

/-- `seq` is a complete repair sequence of cost `K` as the implementation's walk finds it -/
def ISearch (G : Grammar) (A : Automaton) (w : List Nat) (cost : Nat → Nat) (N : Nat) (start : Pos)
    (K : Nat) (seq : List Repair) : Prop :=
  ∃ n, IPath G A w cost N ⟨start, [], 0⟩ seq n K ∧ isSuccess G A w N n = true

variable {G : Grammar} {A : Automaton} {w : List Nat} {cost : Nat → Nat} {N : Nat}

theorem Step.det {a a₁ a₂ : Node} {r : Repair} {c₁ c₂ : Nat}
    (h₁ : Step G A w cost N a r a₁ c₁) (h₂ : Step G A w cost N a r a₂ c₂) : a₁ = a₂ ∧ c₁ = c₂ := by
  cases h₁ with
  | shift c' _ ha =>
    cases h₂ with
    | shift c'' _ ha' => rw [ha] at ha'; injection ha' with e; subst e; exact ⟨rfl, rfl⟩
  | insert t c' _ _ _ _ ha =>
    cases h₂ with
    | insert _ c'' _ _ _ _ ha' => rw [ha] at ha'; injection ha' with e; subst e; exact ⟨rfl, rfl⟩
  | delete t _ hw =>
    cases h₂ with
    | delete t' _ hw' => rw [hw] at hw'; injection hw' with e; subst e; exact ⟨rfl, rfl⟩

theorem IPath.det {a n₁ n₂ : Node} {s : List Repair} {k₁ k₂ : Nat}
    (h₁ : IPath G A w cost N a s n₁ k₁) (h₂ : IPath G A w cost N a s n₂ k₂) : n₁ = n₂ ∧ k₁ = k₂ := by
  induction h₁ generalizing n₂ k₂ with
  | nil a => cases h₂; exact ⟨rfl, rfl⟩
  | cons hs _ ih =>
    cases h₂ with
    | cons hs' hp' =>
      obtain ⟨e1, e2⟩ := Step.det hs hs'
      subst e1; subst e2
      obtain ⟨e3, e4⟩ := ih hp'
      exact ⟨e3, by rw [e4]⟩

theorem IPath.cons_inv {a n : Node} {r : Repair} {suf : List Repair} {K : Nat}
    (h : IPath G A w cost N a (r :: suf) n K) :
    ∃ a' c0 k, Step G A w cost N a r a' c0 ∧ IPath G A w cost N a' suf n k ∧ K = c0 + k := by
  generalize hl : r :: suf = l at h
  cases h with
  | nil => cases hl
  | cons hst hp =>
    injection hl with e1 e2
    subst e1; subst e2
    exact ⟨_, _, _, hst, hp, rfl⟩

theorem IPath.nil_inv {a n : Node} {K : Nat} (h : IPath G A w cost N a [] n K) : n = a ∧ K = 0 :=
  IPath.det h (IPath.nil a)

theorem IPath.snoc {a n n' : Node} {s : List Repair} {r : Repair} {k c0 : Nat}
    (h : IPath G A w cost N a s n k) (hs : Step G A w cost N n r n' c0) :
    IPath G A w cost N a (s ++ [r]) n' (k + c0) := by
  induction h with
  | nil a =>
    have := IPath.cons hs (IPath.nil (G := G) (A := A) (w := w) (cost := cost) (N := N) n')
    simpa using this
  | cons hst _ ih =>
    have := IPath.cons hst (ih hs)
    simpa [Nat.add_assoc] using this

/-- a walk can be split at any point -/
theorem IPath.split {a n : Node} {p q : List Repair} {k : Nat}
    (h : IPath G A w cost N a (p ++ q) n k) :
    ∃ m k₁ k₂, IPath G A w cost N a p m k₁ ∧ IPath G A w cost N m q n k₂ ∧ k = k₁ + k₂ := by
  induction p generalizing a k with
  | nil => exact ⟨a, 0, k, IPath.nil a, h, by simp⟩
  | cons r p ih =>
    cases h with
    | cons hs hp =>
      obtain ⟨m, k₁, k₂, h1, h2, e⟩ := ih hp
      exact ⟨m, _, k₂, IPath.cons hs h1, h2, by omega⟩

theorem IPath.append {a m n : Node} {p q : List Repair} {k₁ k₂ : Nat}
    (h₁ : IPath G A w cost N a p m k₁) (h₂ : IPath G A w cost N m q n k₂) :
    IPath G A w cost N a (p ++ q) n (k₁ + k₂) := by
  induction h₁ with
  | nil a => simpa using h₂
  | cons hs _ ih =>
    have := IPath.cons hs (ih h₂)
    simpa [Nat.add_assoc] using this

theorem Step.rev {a a' : Node} {r : Repair} {c0 : Nat} (h : Step G A w cost N a r a' c0) :
    a'.rev = r :: a.rev := by
  cases h <;> rfl

theorem IPath.rev {a n : Node} {s : List Repair} {k : Nat} (h : IPath G A w cost N a s n k) :
    n.rev = s.reverse ++ a.rev := by
  induction h with
  | nil a => simp
  | cons hs _ ih => rw [ih, hs.rev]; simp

theorem Step.not_succ {a a' : Node} {r : Repair} {c0 : Nat} (h : Step G A w cost N a r a' c0) :
    implSucc G A w N a = false := by
  cases h <;> assumption

/-! ### the two notions of success -/

theorem feed_succ_unfold (la : Nat) (f : Nat) (stack : List Nat) :
    feed G A la (f + 1) stack =
      (match stack with
       | [] => Fed.crash
       | st :: _ =>
         match A.action st la with
         | .shift s' => .shifted (s' :: stack)
         | .accept => .accept stack
         | .error => .error stack
         | .reduce p =>
           let n := (G.rhs p).length
           if stack.length ≤ n then .crash
           else
             match stack.drop n with
             | [] => .crash
             | prior :: rest =>
               match A.goto prior (G.lhs p) with
               | none => .crash
               | some s' => feed G A la f (s' :: prior :: rest)) := by
  cases stack <;> rfl

/-- the top state accepts: the feed accepts at once, with the stack unchanged -/
theorem feed_of_top_accept {la f st : Nat} {rest : List Nat} (h : A.action st la = .accept) :
    feed G A la (f + 1) (st :: rest) = .accept (st :: rest) := by
  rw [feed_succ_unfold]; simp only [h]

/-- a feed that accepts ends with a stack whose top state accepts -/
theorem feed_accept_top {la : Nat} : ∀ {f : Nat} {stack s : List Nat}, feed G A la f stack = .accept s →
    ∃ st rest, s = st :: rest ∧ A.action st la = .accept := by
  intro f
  induction f with
  | zero => intro stack s h; simp [feed] at h
  | succ f ih =>
    intro stack s h
    rw [feed_succ_unfold] at h
    cases stack with
    | nil => cases h
    | cons st rest =>
      simp only at h
      cases ha : A.action st la with
      | shift s' => rw [ha] at h; cases h
      | accept => rw [ha] at h; injection h with h; exact ⟨st, rest, h.symm, ha⟩
      | error => rw [ha] at h; cases h
      | reduce p =>
        rw [ha] at h
        simp only at h
        split at h
        · cases h
        · split at h
          · cases h
          · split at h
            · cases h
            · exact ih h

/-- an accepting feed that changed the stack started with a reduction -/
theorem feed_accept_same {la : Nat} {f : Nat} {st : Nat} {rest s : List Nat}
    (h : feed G A la (f + 1) (st :: rest) = .accept s) (hne : A.action st la ≠ .accept) :
    ∃ p, A.action st la = .reduce p := by
  rw [feed_succ_unfold] at h
  simp only at h
  cases ha : A.action st la with
  | shift s' => rw [ha] at h; cases h
  | accept => exact absurd ha hne
  | error => rw [ha] at h; cases h
  | reduce p => exact ⟨p, rfl⟩

theorem implSucc_imp_isSuccess {n : Node} (h : implSucc G A w N n = true) : isSuccess G A w N n = true := by
  simp only [implSucc, Bool.or_eq_true, decide_eq_true_eq] at h
  simp only [isSuccess, Bool.or_eq_true, decide_eq_true_eq]
  rcases h with h | h
  · exact Or.inl h
  · right
    cases hs : n.c.stack with
    | nil => rw [hs] at h; cases h
    | cons st rest =>
      rw [hs] at h
      simp only [beq_iff_eq] at h
      have : FUEL = 1999 + 1 := rfl
      rw [this, feed_of_top_accept h]

/-- a node from which a Shift is possible does not accept the next token, with or without reductions -/
theorem shift_not_accept {c c' : Pos} (h : applyRepair G A w c .shift = some c') :
    feed G A (nextTok G w c.pos) FUEL c.stack = .shifted c'.stack := by
  simp only [applyRepair] at h
  cases hw : w[c.pos]? with
  | none => rw [hw] at h; cases h
  | some t =>
    rw [hw] at h
    simp only at h
    have hn : nextTok G w c.pos = t := by simp [nextTok, hw]
    rw [hn]
    cases hf : feed G A t FUEL c.stack with
    | shifted s => rw [hf] at h; injection h with h; subst h; rfl
    | accept s => rw [hf] at h; cases h
    | error s => rw [hf] at h; cases h
    | crash => rw [hf] at h; cases h
    | fuelOut => rw [hf] at h; cases h

/-- a step out of a node that is a success for the specification but not for the implementation (a
late accept) is never a Shift: it costs at least one token -/
theorem Step.cost_pos_of_isSuccess (hcost : ∀ t, 1 ≤ cost t) {a a' : Node} {r : Repair} {c0 : Nat}
    (h : Step G A w cost N a r a' c0) (hs : isSuccess G A w N a = true) : 1 ≤ c0 := by
  cases h with
  | shift c' hns ha =>
    exfalso
    have hf := shift_not_accept ha
    simp only [isSuccess, Bool.or_eq_true, decide_eq_true_eq] at hs
    simp only [implSucc, Bool.or_eq_false_iff, decide_eq_false_iff_not] at hns
    rcases hs with hs | hs
    · exact hns.1 hs
    · rw [hf] at hs; cases hs
  | insert t c' _ _ _ _ _ => exact hcost t
  | delete t _ _ => exact hcost t

theorem IPath.cost_pos_of_isSuccess (hcost : ∀ t, 1 ≤ cost t) {a n : Node} {r : Repair} {s : List Repair}
    {k : Nat} (h : IPath G A w cost N a (r :: s) n k) (hs : isSuccess G A w N a = true) : 1 ≤ k := by
  cases h with
  | cons hst _ => have := hst.cost_pos_of_isSuccess hcost hs; omega

/-- a step of the walk out of a node the specification does not regard as a success is an edge of
`Rec.Search` -/
theorem search_step (hcost : ∀ t, 1 ≤ cost t) {a a' : Node} {r : Repair} {c0 k : Nat} {seq : List Repair}
    (h : Step G A w cost N a r a' c0) (hns : isSuccess G A w N a = false)
    (hs : Search G A w cost N a' k seq) : Search G A w cost N a (k + c0) seq := by
  cases h with
  | shift c' _ ha => exact .shift a c' k seq hns ha hs
  | insert t c' _ hnd ht hne ha =>
    exact .insert a t c' k seq hns hnd ht hne (by have := hcost t; omega) ha hs
  | delete t _ hw => exact .delete a t k seq hns hw (by have := hcost t; omega) hs

/-- **From the implementation's walk to the specification's search**: a walk of cost `k` that ends in
a success node contains a `Search` sequence of cost at most `k`; if none is cheaper, the walk itself
is that sequence. -/
theorem search_of_ipath (hcost : ∀ t, 1 ≤ cost t) {a n : Node} {s : List Repair} {k : Nat}
    (h : IPath G A w cost N a s n k) (hsucc : isSuccess G A w N n = true) :
    ∃ k' seq', Search G A w cost N a k' seq' ∧ k' ≤ k ∧ (k' = k → seq' = n.rev.reverse) := by
  induction h with
  | nil a => exact ⟨0, _, .done a hsucc, Nat.le_refl _, fun _ => rfl⟩
  | @cons a a' n r suf c0 k hst hp ih =>
    by_cases hsa : isSuccess G A w N a = true
    · refine ⟨0, _, .done a hsa, Nat.zero_le _, ?_⟩
      intro e
      have := hst.cost_pos_of_isSuccess hcost hsa
      omega
    · have hsa' : isSuccess G A w N a = false := by simpa using hsa
      obtain ⟨k', seq', h1, h2, h3⟩ := ih hsucc
      refine ⟨k' + c0, seq', search_step hcost hst hsa' h1, by omega, ?_⟩
      intro e
      exact h3 (by omega)

/-- **From the specification's search to the implementation's walk**: every `Search` sequence is a
walk that ends in a success node -/
theorem ipath_of_search {a : Node} {k : Nat} {seq : List Repair} (h : Search G A w cost N a k seq) :
    ∃ suf n, IPath G A w cost N a suf n k ∧ isSuccess G A w N n = true ∧ seq = n.rev.reverse := by
  have hni : ∀ m : Node, isSuccess G A w N m = false → implSucc G A w N m = false := by
    intro m hm
    cases hi : implSucc G A w N m with
    | false => rfl
    | true => rw [implSucc_imp_isSuccess hi] at hm; cases hm
  induction h with
  | done n hs => exact ⟨[], n, IPath.nil n, hs, rfl⟩
  | shift n c' k seq hns ha _ ih =>
    obtain ⟨suf, m, h1, h2, h3⟩ := ih
    refine ⟨.shift :: suf, m, ?_, h2, h3⟩
    have := IPath.cons (Step.shift (cost := cost) c' (hni n hns) ha) h1
    simpa using this
  | insert n t c' k seq hns hnd ht hne _ ha _ ih =>
    obtain ⟨suf, m, h1, h2, h3⟩ := ih
    refine ⟨.insert t :: suf, m, ?_, h2, h3⟩
    have := IPath.cons (Step.insert (cost := cost) t c' (hni n hns) hnd ht hne ha) h1
    rw [Nat.add_comm]; exact this
  | delete n t k seq hns hw _ _ ih =>
    obtain ⟨suf, m, h1, h2, h3⟩ := ih
    refine ⟨.delete :: suf, m, ?_, h2, h3⟩
    have := IPath.cons (Step.delete (cost := cost) (A := A) (G := G) (N := N) t (hni n hns) hw) h1
    rw [Nat.add_comm]; exact this

theorem isearch_of_search {start : Pos} {k : Nat} {seq : List Repair}
    (h : Search G A w cost N ⟨start, [], 0⟩ k seq) : ISearch G A w cost N start k seq := by
  obtain ⟨suf, n, h1, h2, h3⟩ := ipath_of_search h
  have := h1.rev
  simp only [List.append_nil] at this
  rw [this, List.reverse_reverse] at h3
  subst h3
  exact ⟨n, h1, h2⟩

/-- an `ISearch` sequence of cost `k` is a `Search` sequence unless `Search` has a cheaper one -/
theorem search_of_isearch (hcost : ∀ t, 1 ≤ cost t) {start : Pos} {k : Nat} {seq : List Repair}
    (h : ISearch G A w cost N start k seq) :
    Search G A w cost N ⟨start, [], 0⟩ k seq ∨
      ∃ k' seq', k' < k ∧ Search G A w cost N ⟨start, [], 0⟩ k' seq' := by
  obtain ⟨n, hp, hs⟩ := h
  obtain ⟨k', seq', h1, h2, h3⟩ := search_of_ipath hcost hp hs
  by_cases e : k' = k
  · left
    have := h3 e
    have hr := hp.rev
    simp only [List.append_nil] at hr
    rw [hr, List.reverse_reverse] at this
    subst this; subst e
    exact h1
  · right
    exact ⟨k', seq', by omega, h1⟩

end GrmVerif.SearchImpl
