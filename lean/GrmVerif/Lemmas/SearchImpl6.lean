import GrmVerif.Lemmas.SearchImpl5
/-!
From the invariant of the modelled search (`dijkstra_spec`) to statements about `traverse` (what
`collect_repairs` expands) and the specification's `Rec.Search` / `Rec.minCostRepairs`.
-/
namespace GrmVerif.SearchImpl
open GrmVerif LR Rec RankImpl

variable {E : Env} {start : Pos}

/-- the specification node behind a sequence of a success node is a success -/
theorem resOK_isSuccess {c : Nat} {m : PNode} (hm : ResOK E start c m) {s : List Repair}
    (hs : s ∈ seqs m.repairs) :
    ∃ n, IPath E.G E.A E.w E.cost E.N (root start) s n c ∧ isSuccess E.G E.A E.w E.N n = true ∧
      n.c.pos = m.laidx ∧ StackRel E n m := by
  obtain ⟨h1, h2, h3⟩ := hm
  obtain ⟨n, r1, r2, r3, _, r5, _⟩ := h2.1 s hs
  refine ⟨n, by rw [← h1]; exact r1, ?_, r2, r5⟩
  rcases r5 with r5 | ⟨r5, _⟩
  · exact implSucc_imp_isSuccess (success_of_stack_eq h3 r5 r2 r3)
  · simp only [isSuccess, r5, Bool.or_true]

/-- a returned node never carries the bare `Terminator`: `traverse` expands exactly `seqs` -/
theorem traverse_of_resOK (H : Hyps E start) {c : Nat} {m : PNode} (hm : ResOK E start c m) :
    traverse m.repairs = seqs m.repairs := by
  rw [traverse_eq _ hm.2.1.2]
  cases ht : isTerm m.repairs with
  | false => rfl
  | true =>
    exfalso
    cases hr : m.repairs with
    | term =>
      obtain ⟨n, h1, h2, _⟩ := resOK_isSuccess hm (s := []) (by rw [hr]; simp [seqs])
      obtain ⟨rfl, _⟩ := h1.nil_inv
      rw [H.nsucc] at h2
      cases h2
    | rep p r => rw [hr] at ht; cases ht
    | merge p r v => rw [hr] at ht; cases ht

/-- the result of the search in terms of `Rec.Search` and `traverse` -/
structure Found (E : Env) (start : Pos) (res : List PNode) (c : Nat) : Prop where
  cost : ∀ m ∈ res, m.cf = c
  bound : c ≤ U16MAX
  sound : ∀ m ∈ res, ∀ s ∈ traverse m.repairs, Search E.G E.A E.w E.cost E.N (root start) c s
  minimal : ∀ c', c' < c → ∀ seq, ¬ Search E.G E.A E.w E.cost E.N (root start) c' seq
  complete : ∀ seq, Search E.G E.A E.w E.cost E.N (root start) c seq → ∃ m ∈ res, seq ∈ traverse m.repairs
  nonempty : ∀ m ∈ res, traverse m.repairs ≠ []
  resOK : ∀ m ∈ res, ResOK E start c m

theorem found_of_dijkstra (H : Hyps E start) {fuel : Nat} {res : List PNode}
    (h : dijkstra E fuel start = .ok res) (hne : res ≠ []) : ∃ c, Found E start res c := by
  obtain ⟨c, hcu, h1, h2, h3⟩ := (dijkstra_spec H h).2 hne
  have hmin : ∀ c', c' < c → ∀ seq, ¬ Search E.G E.A E.w E.cost E.N (root start) c' seq := by
    intro c' hc' seq hs
    have := h2 seq c' ⟨isearch_of_search hs, by omega⟩
    omega
  refine ⟨c, fun m hm => (h1 m hm).1, hcu, ?_, hmin, ?_, ?_, h1⟩
  · intro m hm s hs
    rw [traverse_of_resOK H (h1 m hm)] at hs
    obtain ⟨n, p1, p2, _⟩ := resOK_isSuccess (h1 m hm) hs
    rcases search_of_isearch H.cost_pos ⟨n, p1, p2⟩ with hsr | ⟨k', seq', hk, hs'⟩
    · exact hsr
    · exact absurd hs' (hmin k' hk seq')
  · intro seq hs
    obtain ⟨m, hm, hseq⟩ := h3 seq ⟨isearch_of_search hs, hcu⟩
    exact ⟨m, hm, by rw [traverse_of_resOK H (h1 m hm)]; exact hseq⟩
  · intro m hm
    rw [traverse_of_resOK H (h1 m hm)]
    exact seqs_ne_nil _

theorem none_of_dijkstra (H : Hyps E start) {fuel : Nat} (h : dijkstra E fuel start = .ok []) :
    ∀ c, c ≤ U16MAX → ∀ seq, ¬ Search E.G E.A E.w E.cost E.N (root start) c seq := by
  intro c hc seq hs
  exact (dijkstra_spec H h).1 rfl seq c ⟨isearch_of_search hs, hc⟩

/-! ### the reference enumeration -/

theorem minCostFrom_none {G : Grammar} {A : Automaton} {w : List Nat} {cost : Nat → Nat} {N : Nat}
    {start : Pos} : ∀ (remaining c0 : Nat), minCostFrom G A w cost N start remaining c0 = none →
      ∀ c, c0 ≤ c → c < c0 + remaining → ∀ seq, ¬ Search G A w cost N ⟨start, [], 0⟩ c seq := by
  intro remaining
  induction remaining with
  | zero => intro c0 _ c h1 h2; omega
  | succ r ih =>
    intro c0 h c h1 h2 seq hs
    simp only [minCostFrom] at h
    by_cases he : (enumerate G A w cost N (2 * (c0 + w.length) + 6) c0 ⟨start, [], 0⟩).isEmpty = true
    · rw [if_pos he] at h
      by_cases hc : c = c0
      · subst hc
        have hmem : seq ∈ enumerate G A w cost N (2 * (c + w.length) + 6) c ⟨start, [], 0⟩ :=
          enumerate_complete G A w cost N _ c seq hs _ (by simp only; omega)
        rw [List.isEmpty_iff] at he
        rw [he] at hmem
        cases hmem
      · exact ih (c0 + 1) h c (by omega) (by omega) seq hs
    · rw [if_neg he] at h; cases h

/-- **The modelled search and the reference enumeration agree**: when the search returns nodes of cost
`c`, the reference (with any cap `≥ c`) answers cost `c` with exactly the sequences `collect_repairs`
expands -/
theorem reference_of_found {res : List PNode} {c : Nat} (hf : Found E start res c) (hne : res ≠ [])
    (cap : Nat) (hcap : c ≤ cap) :
    ∃ rs, minCostRepairs E.G E.A E.w E.cost E.N start cap = some (c, rs) ∧
      ∀ seq, seq ∈ rs ↔ ∃ m ∈ res, seq ∈ traverse m.repairs := by
  obtain ⟨m0, hm0⟩ := List.exists_mem_of_ne_nil _ hne
  obtain ⟨s0, hs0⟩ := List.exists_mem_of_ne_nil _ (hf.nonempty m0 hm0)
  have hex := hf.sound m0 hm0 s0 hs0
  cases hmc : minCostRepairs E.G E.A E.w E.cost E.N start cap with
  | none =>
    exfalso
    exact minCostFrom_none (cap + 1) 0 hmc c (Nat.zero_le _) (by omega) s0 hex
  | some v =>
    obtain ⟨c0, rs⟩ := v
    obtain ⟨hne', hiff, hmin⟩ : rs ≠ [] ∧ (∀ seq, seq ∈ rs ↔ Search E.G E.A E.w E.cost E.N ⟨start, [], 0⟩ c0 seq) ∧
        ∀ c', c' < c0 → ∀ seq, ¬ Search E.G E.A E.w E.cost E.N ⟨start, [], 0⟩ c' seq := by
      have hspec : ∀ (remaining c0' c : Nat) (rs : List (List Repair)),
          minCostFrom E.G E.A E.w E.cost E.N start remaining c0' = some (c, rs) →
          c0' ≤ c ∧ rs ≠ [] ∧ (∀ seq, seq ∈ rs ↔ Search E.G E.A E.w E.cost E.N ⟨start, [], 0⟩ c seq) ∧
          ∀ c', c0' ≤ c' → c' < c → ∀ seq, ¬ Search E.G E.A E.w E.cost E.N ⟨start, [], 0⟩ c' seq := by
        intro remaining
        induction remaining with
        | zero => intro c0' c rs h; simp [minCostFrom] at h
        | succ r ih =>
          intro c0' c rs h
          simp only [minCostFrom] at h
          by_cases he : (enumerate E.G E.A E.w E.cost E.N (2 * (c0' + E.w.length) + 6) c0' ⟨start, [], 0⟩).isEmpty = true
          · rw [if_pos he] at h
            obtain ⟨h1, h2, h3, h4⟩ := ih (c0' + 1) c rs h
            refine ⟨by omega, h2, h3, ?_⟩
            intro c' hc0 hc seq hs
            by_cases heq : c' = c0'
            · subst heq
              have hmem : seq ∈ enumerate E.G E.A E.w E.cost E.N (2 * (c' + E.w.length) + 6) c' ⟨start, [], 0⟩ :=
                enumerate_complete E.G E.A E.w E.cost E.N _ c' seq hs _ (by simp only; omega)
              rw [List.isEmpty_iff] at he
              rw [he] at hmem; cases hmem
            · exact h4 c' (by omega) hc seq hs
          · rw [if_neg he] at h
            simp only [Option.some.injEq, Prod.mk.injEq] at h
            obtain ⟨rfl, rfl⟩ := h
            refine ⟨Nat.le_refl _, ?_, ?_, ?_⟩
            · intro hnil; rw [hnil] at he; simp at he
            · intro seq
              constructor
              · exact enumerate_sound E.G E.A E.w E.cost E.N _ c0' _ seq
              · intro hs
                exact enumerate_complete E.G E.A E.w E.cost E.N _ c0' seq hs _ (by simp only; omega)
            · intro c' h1 h2; omega
      obtain ⟨_, h2, h3, h4⟩ := hspec _ 0 c0 rs hmc
      exact ⟨h2, h3, fun c' hc => h4 c' (Nat.zero_le _) hc⟩
    have hc0 : c0 = c := by
      obtain ⟨s1, hs1⟩ := List.exists_mem_of_ne_nil _ hne'
      have h1 : ¬ c0 < c := fun hlt => hf.minimal c0 hlt s1 ((hiff s1).mp hs1)
      have h2 : ¬ c < c0 := fun hlt => hmin c hlt s0 hex
      omega
    subst hc0
    refine ⟨rs, rfl, ?_⟩
    intro seq
    rw [hiff seq]
    constructor
    · exact hf.complete seq
    · rintro ⟨m, hm, hs⟩; exact hf.sound m hm seq hs

end GrmVerif.SearchImpl
