import GrmVerif.Lemmas.YaccDeclRender
/-!
C10, text → AST stage: rendering and image of a whole file `declarations %% rules [%% programs]`
(definitions only; evaluated by the driver).
-/
namespace GrmVerif.YaccRender
open GrmVerif.YaccParse
open GrmVerif.Header (Span byteLen)

def postPrograms : List Char → Option Nat
  | '%' :: '%' :: '\n' :: prog => some (byteLen prog)
  | _ => none

def renderFile (g : Bool) (ds : List RDecl) (rs : List RRule) (post : List Char) : List Char :=
  renderDecls ds ++ '%' :: '%' :: '\n' :: (renderRules g rs ++ post)

/-- the image of a whole file: the state after the three sections, started from the empty state -/
def runFile (g : Bool) (ds : List RDecl) (rs : List RRule) (post : List Char) : Option St :=
  (runDecls 0 0 ds {}).map (fun r =>
    let q := runRules g (r.1 + 3) rs (St.incNl 1 r.2.2)
    match postPrograms post with
    | some n => St.incNl 1 (St.mapAst (fun a => { a with programs := some n }) q.2)
    | none => q.2)

end GrmVerif.YaccRender
