import GrmVerif.Lemmas.YaccFile
/-!
C10, text → AST stage: after the declarations, `token_directives` is the list of the `%token` names in
order of first declaration and each of them is in the token set — the hypothesis `DirsOK` under which
the rules section classifies a bare name (`C10.image_productions`).
-/
namespace GrmVerif.YaccRender
open GrmVerif.YaccParse
open GrmVerif.Header (Res Span byteLen)

/-- the names a declaration puts into `token_directives` -/
def declDirs : RDecl → List Name
  | .token t ts => (t :: ts).map RTok.name
  | _ => []

def declsDirs : List RDecl → List Name
  | [] => []
  | d :: ds => declDirs d ++ declsDirs ds

theorem dirsOK_of_eq {D : List Name} {st st' : St} (h1 : st'.ast.tokens = st.ast.tokens)
    (h2 : st'.ast.tokenDirs = st.ast.tokenDirs) (h : DirsOK D st) : DirsOK D st' := by
  refine ⟨h2.trans h.1, fun n hn => ?_⟩
  have := h.2 n hn
  simp only [Ast.hasToken] at this ⊢
  rw [h1]; exact this

theorem dirsOK_insTok {D : List Name} {st : St} (i : Nat) (t : RTok) (h : DirsOK D st) :
    DirsOK D (insTok i t st) := (keeps_insert D st t.name (t.span i)).dirs h

theorem dirsOK_tokStep {D : List Name} {st : St} (i : Nat) (t : RTok) (h : DirsOK D st) :
    DirsOK (addName D t.name) (tokStep i t st) := by
  have h1 := dirsOK_insTok i t h
  have hin : (insTok i t st).ast.hasToken t.name = true := by
    simp only [insTok, St.mapAst, Ast.insertToken]
    split
    · assumption
    · simp [Ast.hasToken]
  have e : tokStep i t st = St.mapAst (fun a => a.addTokenDir t.name) (insTok i t st) := rfl
  rw [e]
  simp only [St.mapAst, Ast.addTokenDir, h1.1, addName]
  split
  · exact h1
  · refine ⟨rfl, fun n hn => ?_⟩
    simp only [List.contains_iff_mem, List.mem_append, List.mem_singleton] at hn
    rcases hn with hn | rfl
    · exact h1.2 n (by simpa using hn)
    · exact hin

theorem runTokens_dirs : ∀ (ts : List RTok) (t : RTok) (i : Nat) (st : St) (D : List Name), DirsOK D st →
    DirsOK (((t :: ts).map RTok.name).foldl addName D) (runTokens i t ts st).2 := by
  intro ts
  induction ts with
  | nil => intro t i st D h; exact dirsOK_tokStep i t h
  | cons u us ih => intro t i st D h; rw [runTokens]; exact ih u _ _ _ (dirsOK_tokStep i t h)

theorem runPrecToks_dirs {level : Nat} {kind : Assoc} : ∀ (ts : List RTok) (t : RTok) (i : Nat) (st : St)
    (r : Nat × St) (D : List Name), runPrecToks level kind i t ts st = some r → DirsOK D st → DirsOK D r.2 := by
  intro ts
  induction ts with
  | nil =>
    intro t i st r D h hd
    simp only [runPrecToks, Option.map_eq_some_iff] at h
    obtain ⟨s, hs, rfl⟩ := h
    unfold precStep at hs; split at hs
    · cases hs
    · simp only [Option.some.injEq] at hs; subst hs; exact dirsOK_of_eq rfl rfl hd
  | cons u us ih =>
    intro t i st r D h hd
    simp only [runPrecToks, Option.bind_eq_some_iff] at h
    obtain ⟨s, hs, h⟩ := h
    refine ih u _ s r D h ?_
    unfold precStep at hs; split at hs
    · cases hs
    · simp only [Option.some.injEq] at hs; subst hs; exact dirsOK_of_eq rfl rfl hd

theorem runAvoid_dirs : ∀ (ts : List RTok) (t : RTok) (i : Nat) (st : St)
    (r : Nat × St) (D : List Name), runAvoid i t ts st = some r → DirsOK D st → DirsOK D r.2 := by
  intro ts
  induction ts with
  | nil =>
    intro t i st r D h hd
    simp only [runAvoid, Option.map_eq_some_iff] at h
    obtain ⟨s, hs, rfl⟩ := h
    unfold avoidStep at hs; split at hs
    · cases hs
    · simp only [Option.some.injEq] at hs; subst hs; exact dirsOK_of_eq rfl rfl (dirsOK_insTok i t hd)
  | cons u us ih =>
    intro t i st r D h hd
    simp only [runAvoid, Option.bind_eq_some_iff] at h
    obtain ⟨s, hs, h⟩ := h
    refine ih u _ s r D h ?_
    unfold avoidStep at hs; split at hs
    · cases hs
    · simp only [Option.some.injEq] at hs; subst hs; exact dirsOK_of_eq rfl rfl (dirsOK_insTok i t hd)

theorem runImplicit_dirs : ∀ (ts : List RTok) (t : RTok) (i : Nat) (st : St)
    (r : Nat × St) (D : List Name), runImplicit i t ts st = some r → DirsOK D st → DirsOK D r.2 := by
  intro ts
  induction ts with
  | nil =>
    intro t i st r D h hd
    simp only [runImplicit, Option.map_eq_some_iff] at h
    obtain ⟨s, hs, rfl⟩ := h
    unfold implicitStep at hs; split at hs
    · cases hs
    · simp only [Option.some.injEq] at hs; subst hs; exact dirsOK_of_eq rfl rfl (dirsOK_insTok i t hd)
  | cons u us ih =>
    intro t i st r D h hd
    simp only [runImplicit, Option.bind_eq_some_iff] at h
    obtain ⟨s, hs, h⟩ := h
    refine ih u _ s r D h ?_
    unfold implicitStep at hs; split at hs
    · cases hs
    · simp only [Option.some.injEq] at hs; subst hs; exact dirsOK_of_eq rfl rfl (dirsOK_insTok i t hd)

theorem runDecl_dirs {i level : Nat} {d : RDecl} {st : St} {r : Nat × Nat × St} {D : List Name}
    (h : runDecl i level d st = some r) (hd : DirsOK D st) : DirsOK ((declDirs d).foldl addName D) r.2.2 := by
  cases d with
  | start n =>
    simp only [runDecl] at h; split at h
    · cases h
    · simp only [Option.some.injEq] at h; subst h; exact dirsOK_of_eq rfl rfl hd
  | token t ts =>
    simp only [runDecl, Option.some.injEq] at h; subst h
    exact runTokens_dirs ts t _ st D hd
  | prec a t ts =>
    simp only [runDecl, Option.map_eq_some_iff] at h
    obtain ⟨q, hq, rfl⟩ := h
    exact runPrecToks_dirs ts t _ st q D hq hd
  | avoidInsert t ts =>
    simp only [runDecl, Option.map_eq_some_iff] at h
    obtain ⟨q, hq, rfl⟩ := h
    exact runAvoid_dirs ts t _ _ q D hq (dirsOK_of_eq rfl rfl hd)
  | implicitTokens t ts =>
    simp only [runDecl, Option.map_eq_some_iff] at h
    obtain ⟨q, hq, rfl⟩ := h
    exact runImplicit_dirs ts t _ _ q D hq (dirsOK_of_eq rfl rfl hd)
  | expect ds =>
    simp only [runDecl] at h; split at h
    · cases h
    · simp only [Option.some.injEq] at h; subst h; exact dirsOK_of_eq rfl rfl hd
  | expectRR ds =>
    simp only [runDecl] at h; split at h
    · cases h
    · simp only [Option.some.injEq] at h; subst h; exact dirsOK_of_eq rfl rfl hd
  | actiontype ty =>
    simp only [runDecl] at h; split at h
    · cases h
    · simp only [Option.some.injEq] at h; subst h; exact dirsOK_of_eq rfl rfl hd
  | parseParam n ty =>
    simp only [runDecl, Option.some.injEq] at h; subst h; exact dirsOK_of_eq rfl rfl hd
  | epp t v =>
    simp only [runDecl] at h; split at h
    · cases h
    · simp only [Option.some.injEq] at h; subst h; exact dirsOK_of_eq rfl rfl hd

theorem runDecls_dirs : ∀ (ds : List RDecl) (i level : Nat) (st : St) (r : Nat × Nat × St) (D : List Name),
    runDecls i level ds st = some r → DirsOK D st → DirsOK ((declsDirs ds).foldl addName D) r.2.2 := by
  intro ds
  induction ds with
  | nil => intro i level st r D h hd; simp only [runDecls, Option.some.injEq] at h; subst h; exact hd
  | cons d ds ih =>
    intro i level st r D h hd
    simp only [runDecls, Option.bind_eq_some_iff] at h
    obtain ⟨q, hq, h⟩ := h
    rw [declsDirs, List.foldl_append]
    exact ih _ _ _ r _ h (runDecl_dirs hq hd)


theorem insTok_prods (i : Nat) (t : RTok) (st : St) : (insTok i t st).ast.prods = st.ast.prods := by
  simp only [insTok, St.mapAst, Ast.insertToken]; split <;> rfl

theorem tokStep_prods (i : Nat) (t : RTok) (st : St) : (tokStep i t st).ast.prods = st.ast.prods := by
  have e : tokStep i t st = St.mapAst (fun a => a.addTokenDir t.name) (insTok i t st) := rfl
  rw [e, ← insTok_prods i t st]
  simp only [St.mapAst, Ast.addTokenDir]; split <;> rfl

theorem runTokens_prods : ∀ (ts : List RTok) (t : RTok) (i : Nat) (st : St),
    (runTokens i t ts st).2.ast.prods = st.ast.prods := by
  intro ts
  induction ts with
  | nil => intro t i st; exact tokStep_prods i t st
  | cons u us ih => intro t i st; rw [runTokens, ih]; exact tokStep_prods i t st

theorem precStep_prods {level : Nat} {kind : Assoc} {i : Nat} {t : RTok} {st s : St}
    (h : precStep level kind i t st = some s) : s.ast.prods = st.ast.prods := by
  unfold precStep at h; split at h
  · cases h
  · simp only [Option.some.injEq] at h; subst h; rfl

theorem avoidStep_prods {i : Nat} {t : RTok} {st s : St} (h : avoidStep i t st = some s) :
    s.ast.prods = st.ast.prods := by
  unfold avoidStep at h; split at h
  · cases h
  · simp only [Option.some.injEq] at h; subst h; exact insTok_prods i t st

theorem implicitStep_prods {i : Nat} {t : RTok} {st s : St} (h : implicitStep i t st = some s) :
    s.ast.prods = st.ast.prods := by
  unfold implicitStep at h; split at h
  · cases h
  · simp only [Option.some.injEq] at h; subst h; exact insTok_prods i t st

theorem runPrecToks_prods {level : Nat} {kind : Assoc} : ∀ (ts : List RTok) (t : RTok) (i : Nat) (st : St) (r : Nat × St),
    runPrecToks level kind i t ts st = some r → r.2.ast.prods = st.ast.prods := by
  intro ts
  induction ts with
  | nil =>
    intro t i st r h
    simp only [runPrecToks, Option.map_eq_some_iff] at h
    obtain ⟨s, hs, rfl⟩ := h
    exact (precStep_prods hs : s.ast.prods = st.ast.prods)
  | cons u us ih =>
    intro t i st r h
    simp only [runPrecToks, Option.bind_eq_some_iff] at h
    obtain ⟨s, hs, h⟩ := h
    exact (ih u _ s r h).trans (precStep_prods hs)

theorem runAvoid_prods : ∀ (ts : List RTok) (t : RTok) (i : Nat) (st : St) (r : Nat × St),
    runAvoid i t ts st = some r → r.2.ast.prods = st.ast.prods := by
  intro ts
  induction ts with
  | nil =>
    intro t i st r h
    simp only [runAvoid, Option.map_eq_some_iff] at h
    obtain ⟨s, hs, rfl⟩ := h
    exact (avoidStep_prods hs : s.ast.prods = st.ast.prods)
  | cons u us ih =>
    intro t i st r h
    simp only [runAvoid, Option.bind_eq_some_iff] at h
    obtain ⟨s, hs, h⟩ := h
    exact (ih u _ s r h).trans (avoidStep_prods hs)

theorem runImplicit_prods : ∀ (ts : List RTok) (t : RTok) (i : Nat) (st : St) (r : Nat × St),
    runImplicit i t ts st = some r → r.2.ast.prods = st.ast.prods := by
  intro ts
  induction ts with
  | nil =>
    intro t i st r h
    simp only [runImplicit, Option.map_eq_some_iff] at h
    obtain ⟨s, hs, rfl⟩ := h
    exact (implicitStep_prods hs : s.ast.prods = st.ast.prods)
  | cons u us ih =>
    intro t i st r h
    simp only [runImplicit, Option.bind_eq_some_iff] at h
    obtain ⟨s, hs, h⟩ := h
    exact (ih u _ s r h).trans (implicitStep_prods hs)

theorem runDecl_prods {i level : Nat} {d : RDecl} {st : St} {r : Nat × Nat × St}
    (h : runDecl i level d st = some r) : r.2.2.ast.prods = st.ast.prods := by
  cases d with
  | start n =>
    simp only [runDecl] at h; split at h
    · cases h
    · simp only [Option.some.injEq] at h; subst h; rfl
  | token t ts => simp only [runDecl, Option.some.injEq] at h; subst h; exact runTokens_prods ts t _ st
  | prec a t ts =>
    simp only [runDecl, Option.map_eq_some_iff] at h
    obtain ⟨q, hq, rfl⟩ := h
    exact runPrecToks_prods ts t _ st q hq
  | avoidInsert t ts =>
    simp only [runDecl, Option.map_eq_some_iff] at h
    obtain ⟨q, hq, rfl⟩ := h
    exact (runAvoid_prods ts t _ _ q hq).trans rfl
  | implicitTokens t ts =>
    simp only [runDecl, Option.map_eq_some_iff] at h
    obtain ⟨q, hq, rfl⟩ := h
    exact (runImplicit_prods ts t _ _ q hq).trans rfl
  | expect ds =>
    simp only [runDecl] at h; split at h
    · cases h
    · simp only [Option.some.injEq] at h; subst h; rfl
  | expectRR ds =>
    simp only [runDecl] at h; split at h
    · cases h
    · simp only [Option.some.injEq] at h; subst h; rfl
  | actiontype ty =>
    simp only [runDecl] at h; split at h
    · cases h
    · simp only [Option.some.injEq] at h; subst h; rfl
  | parseParam n ty => simp only [runDecl, Option.some.injEq] at h; subst h; rfl
  | epp t v =>
    simp only [runDecl] at h; split at h
    · cases h
    · simp only [Option.some.injEq] at h; subst h; rfl

theorem runDecls_prods : ∀ (ds : List RDecl) (i level : Nat) (st : St) (r : Nat × Nat × St),
    runDecls i level ds st = some r → r.2.2.ast.prods = st.ast.prods := by
  intro ds
  induction ds with
  | nil => intro i level st r h; simp only [runDecls, Option.some.injEq] at h; subst h; rfl
  | cons d ds ih =>
    intro i level st r h
    simp only [runDecls, Option.bind_eq_some_iff] at h
    obtain ⟨q, hq, h⟩ := h
    exact (ih _ _ _ r h).trans (runDecl_prods hq)

/-- the rules of a whole file are classified with the `%token` names of its declarations -/
theorem runFile_productions {g : Bool} {ds : List RDecl} {rs : List RRule} {post : List Char} {st' : St}
    (h : runFile g ds rs post = some st') :
    st'.ast.prods.map prodView = descProds ((declsDirs ds).foldl addName []) rs := by
  simp only [runFile, Option.map_eq_some_iff] at h
  obtain ⟨r, hr, rfl⟩ := h
  have h0 : DirsOK [] ({} : St) := ⟨rfl, fun n hn => by simp at hn⟩
  have hd := runDecls_dirs ds 0 0 {} r [] hr h0
  have hd' : DirsOK ((declsDirs ds).foldl addName []) (St.incNl 1 r.2.2) := hd
  have hv := (runRules_view _ g rs (r.1 + 3) _ hd').2
  have hp : (St.incNl 1 r.2.2).ast.prods = [] := runDecls_prods ds 0 0 {} r hr
  rw [hp] at hv
  cases postPrograms post with
  | none => simpa using hv
  | some n => simpa [St.incNl, St.mapAst] using hv

end GrmVerif.YaccRender
