import GrmVerif.Lemmas.YaccParse2
/-!
Helper lemmas for the yacc part of C12, part 3: `parse_declarations`. Every update of the AST keeps
`AstOK`; every declaration body, started at the (sliceable) end of its keyword in a well-formed
state, returns a sliceable position that is not smaller, in a well-formed state, or a located
error; the loops finish within the fuel because every iteration consumes at least one byte.
-/
namespace GrmVerif.YaccParse
open GrmVerif.Header (Res Span byteLen dropBytes slice sliceRange lookahead Valid SpanOK byteLen_pos)

/-- the postcondition shared by the position-returning parser functions -/
def PosOK (src : List Char) (lo : Nat) : Nat → St → Prop :=
  fun j st' => lo ≤ j ∧ Valid src j ∧ StOK src st'

theorem StOK.withAst {src : List Char} {st : St} {a : Ast} (hst : StOK src st) (ha : AstOK src a) :
    StOK src { st with ast := a } := ⟨ha, hst.2.1, hst.2.2⟩

/-! ### updates of the AST -/

theorem AstOK.insertToken {src : List Char} {a : Ast} {sp : Span} (h : AstOK src a) (n : Name)
    (hsp : SpanOK src sp) : AstOK src (a.insertToken n sp) := by
  unfold Ast.insertToken
  split
  · exact h
  · refine { h with tokens := ?_ }
    intro x hx
    simp only [List.mem_append, List.mem_singleton] at hx
    rcases hx with hx | rfl
    · exact h.tokens x hx
    · exact hsp

theorem AstOK.addTokenDir {src : List Char} {a : Ast} (h : AstOK src a) (n : Name) :
    AstOK src (a.addTokenDir n) := by
  unfold Ast.addTokenDir
  split
  · exact h
  · exact { h with }

theorem AstOK.addRule {src : List Char} {a : Ast} {sp : Span} (h : AstOK src a) (n : Name)
    (hsp : SpanOK src sp) : AstOK src (a.addRule n sp) := by
  unfold Ast.addRule
  split
  · exact h
  · refine { h with rules := ?_ }
    intro x hx
    simp only [List.mem_append, List.mem_singleton] at hx
    rcases hx with hx | rfl
    · exact h.rules x hx
    · exact hsp

/-! ### the `record…`/`…Entry` helpers: insert, or report the duplicate -/

section Record
variable {src : List Char} {st : St} {E : YErr → St → Prop}

theorem recordActiontype_ok {span : Span} (hst : StOK src st) (hsp : SpanOK src span) :
    (recordActiontype span).Sat st (fun _ st' => StOK src st') E := by
  unfold recordActiontype
  refine M.Sat.bind getSt_ok ?_
  rintro s st' ⟨rfl, rfl⟩
  split
  · next orig heq =>
    exact M.Sat.mono (addDupM_ok hst (hst.2.1 _ heq) hsp) (fun _ _ h => h.1) (fun _ _ h => h)
  · refine M.Sat.mono modifySt_ok ?_ (fun _ _ h => h)
    rintro _ st' rfl
    exact ⟨hst.1, by intro sp h; simp only [Option.some.injEq] at h; subst h; exact hsp, hst.2.2⟩

theorem recordStart_ok {n : Name} {span : Span} (hst : StOK src st) (hsp : SpanOK src span) :
    (recordStart n span).Sat st (fun _ st' => StOK src st') E := by
  unfold recordStart
  refine M.Sat.bind getSt_ok ?_
  rintro s st' ⟨rfl, rfl⟩
  split
  · next n' orig heq =>
    exact M.Sat.mono (addDupM_ok hst (hst.1.start _ heq) hsp) (fun _ _ h => h.1) (fun _ _ h => h)
  · refine M.Sat.mono modifyAst_ok ?_ (fun _ _ h => h)
    rintro _ st' rfl
    refine hst.withAst { hst.1 with start := ?_ }
    intro x hx; simp only [Option.some.injEq] at hx; subst hx; exact hsp

theorem recordEpp_ok {n v : Name} {span vspan : Span} (hst : StOK src st) (hsp : SpanOK src span)
    (hvsp : SpanOK src vspan) : (recordEpp n span v vspan).Sat st (fun _ st' => StOK src st') E := by
  unfold recordEpp
  refine M.Sat.bind getSt_ok ?_
  rintro s st' ⟨rfl, rfl⟩
  split
  · next n' orig v' vsp' heq =>
    have hm := List.mem_of_find?_eq_some heq
    exact M.Sat.mono (addDupM_ok hst (hst.1.epp _ hm).1 hsp) (fun _ _ h => h.1) (fun _ _ h => h)
  · refine M.Sat.mono modifyAst_ok ?_ (fun _ _ h => h)
    rintro _ st' rfl
    refine hst.withAst { hst.1 with epp := ?_ }
    intro x hx
    simp only [List.mem_append, List.mem_singleton] at hx
    rcases hx with hx | rfl
    · exact hst.1.epp x hx
    · exact ⟨hsp, hvsp⟩

theorem recordExpectRR_ok {n : Nat} {span : Span} (hst : StOK src st) (hsp : SpanOK src span) :
    (recordExpectRR n span).Sat st (fun _ st' => StOK src st') E := by
  unfold recordExpectRR
  refine M.Sat.bind getSt_ok ?_
  rintro s st' ⟨rfl, rfl⟩
  split
  · next n' orig heq =>
    exact M.Sat.mono (addDupM_ok hst (hst.1.expectrr _ heq) hsp) (fun _ _ h => h.1) (fun _ _ h => h)
  · refine M.Sat.mono modifyAst_ok ?_ (fun _ _ h => h)
    rintro _ st' rfl
    refine hst.withAst { hst.1 with expectrr := ?_ }
    intro x hx; simp only [Option.some.injEq] at hx; subst hx; exact hsp

theorem recordExpect_ok {n : Nat} {span : Span} (hst : StOK src st) (hsp : SpanOK src span) :
    (recordExpect n span).Sat st (fun _ st' => StOK src st') E := by
  unfold recordExpect
  refine M.Sat.bind getSt_ok ?_
  rintro s st' ⟨rfl, rfl⟩
  split
  · next n' orig heq =>
    exact M.Sat.mono (addDupM_ok hst (hst.1.expect _ heq) hsp) (fun _ _ h => h.1) (fun _ _ h => h)
  · refine M.Sat.mono modifyAst_ok ?_ (fun _ _ h => h)
    rintro _ st' rfl
    refine hst.withAst { hst.1 with expect := ?_ }
    intro x hx; simp only [Option.some.injEq] at hx; subst hx; exact hsp

theorem avoidEntry_ok {n : Name} {span : Span} (hst : StOK src st) (hsp : SpanOK src span) :
    (avoidEntry n span).Sat st (fun _ st' => StOK src st') E := by
  unfold avoidEntry
  refine M.Sat.bind getSt_ok ?_
  rintro s st' ⟨rfl, rfl⟩
  split
  · next n' orig heq =>
    have hm := List.mem_of_find?_eq_some heq
    exact M.Sat.mono (addDupM_ok hst (hst.1.avoid _ hm) hsp) (fun _ _ h => h.1) (fun _ _ h => h)
  · refine M.Sat.mono modifyAst_ok ?_ (fun _ _ h => h)
    rintro _ st' rfl
    refine hst.withAst { hst.1 with avoid := ?_ }
    intro x hx
    simp only [Option.getD_some, List.mem_append, List.mem_singleton] at hx
    rcases hx with hx | rfl
    · exact hst.1.avoid x hx
    · exact hsp

theorem implicitEntry_ok {n : Name} {span : Span} (hst : StOK src st) (hsp : SpanOK src span) :
    (implicitEntry n span).Sat st (fun _ st' => StOK src st') E := by
  unfold implicitEntry
  refine M.Sat.bind getSt_ok ?_
  rintro s st' ⟨rfl, rfl⟩
  split
  · next n' orig heq =>
    have hm := List.mem_of_find?_eq_some heq
    exact M.Sat.mono (addDupM_ok hst (hst.1.implicit _ hm) hsp) (fun _ _ h => h.1) (fun _ _ h => h)
  · refine M.Sat.mono modifyAst_ok ?_ (fun _ _ h => h)
    rintro _ st' rfl
    refine hst.withAst { hst.1 with implicit := ?_ }
    intro x hx
    simp only [Option.getD_some, List.mem_append, List.mem_singleton] at hx
    rcases hx with hx | rfl
    · exact hst.1.implicit x hx
    · exact hsp

theorem precEntry_ok {n : Name} {span : Span} {level : Nat} {kind : Assoc} (hst : StOK src st)
    (hsp : SpanOK src span) : (precEntry n span level kind).Sat st (fun _ st' => StOK src st') E := by
  unfold precEntry
  refine M.Sat.bind getSt_ok ?_
  rintro s st' ⟨rfl, rfl⟩
  split
  · next n' l' k' orig heq =>
    have hm := List.mem_of_find?_eq_some heq
    exact M.Sat.mono (addDupM_ok hst (hst.1.precs _ hm) hsp) (fun _ _ h => h.1) (fun _ _ h => h)
  · refine M.Sat.mono modifyAst_ok ?_ (fun _ _ h => h)
    rintro _ st' rfl
    refine hst.withAst { hst.1 with precs := ?_ }
    intro x hx
    simp only [List.mem_append, List.mem_singleton] at hx
    rcases hx with hx | rfl
    · exact hst.1.precs x hx
    · exact hsp

end Record

/-! ### the declaration bodies -/

section Decl
variable {src : List Char} {fuel : Nat}

theorem tokenLoop_ok (f : Nat) : ∀ i st, Valid src i → StOK src st → byteLen src - i < f →
    (tokenLoop src f i).Sat st (PosOK src i) (EOK src) := by
  induction f with
  | zero => intro i st _ _ hf; omega
  | succ f ih =>
    intro i st hv hst hf
    unfold tokenLoop
    split
    · refine M.Sat.bind (la_ok "%" hv hst) ?_
      rintro o st' ⟨rfl, -, -⟩
      split
      · refine M.Sat.bind (liftR_ok (parseToken_sat hv) hst) ?_
        rintro ⟨j, n, span, q⟩ st' ⟨⟨hij, hj, hspan⟩, rfl⟩
        dsimp only at hij hj hspan ⊢
        refine M.Sat.bind modifyAst_ok ?_
        rintro _ st1 rfl
        have hst1 := hst.withAst ((hst.1.insertToken n hspan).addTokenDir n)
        refine M.Sat.bind (ws_ok hj hst1) ?_
        intro i2 st2 ⟨hji2, hi2, hnl⟩
        have := hi2.le
        refine M.Sat.mono (ih i2 st2 hi2 (hnl.stOK hst1) (by omega)) ?_ (fun _ _ h => h)
        intro i3 st3 ⟨h1, h2, h3⟩
        exact ⟨by omega, h2, h3⟩
      · exact M.Sat.pure ⟨Nat.le_refl _, hv, hst⟩
    · exact M.Sat.pure ⟨Nat.le_refl _, hv, hst⟩

theorem declToken_ok {j : Nat} {st : St} (h : Valid src j) (hst : StOK src st)
    (hf : byteLen src < fuel) : (declToken src fuel j).Sat st (PosOK src j) (EOK src) := by
  unfold declToken
  refine M.Sat.bind (ws_ok h hst) ?_
  intro i st1 ⟨hji, hi, hnl⟩
  refine M.Sat.mono (tokenLoop_ok fuel i st1 hi (hnl.stOK hst) (by omega)) ?_ (fun _ _ h => h)
  intro i3 st3 ⟨h1, h2, h3⟩
  exact ⟨by omega, h2, h3⟩

theorem declActiontype_ok {j : Nat} {st : St} (h : Valid src j) (hst : StOK src st)
    (hf : byteLen src < fuel) : (declActiontype src fuel j).Sat st (PosOK src j) (EOK src) := by
  unfold declActiontype
  refine M.Sat.bind (ws_ok h hst) ?_
  intro i st1 ⟨hji, hi, hnl⟩
  have hst1 := hnl.stOK hst
  refine M.Sat.bind (liftR_ok (parseToEol_sat hi hf) hst1) ?_
  rintro ⟨j2, n⟩ st2 ⟨⟨hij2, hj2⟩, rfl⟩
  dsimp only at hij2 hj2 ⊢
  refine M.Sat.bind (liftR_ok (mkSpan_sat hi hj2 hij2) hst1) ?_
  rintro span st2 ⟨⟨_, hspan⟩, rfl⟩
  refine M.Sat.bind (recordActiontype_ok hst1 hspan) ?_
  intro _ st3 hst3
  refine M.Sat.mono (ws_ok hj2 hst3) ?_ (fun _ _ h => h)
  intro i3 st4 ⟨h1, h2, h3⟩
  exact ⟨by omega, h2, h3.stOK hst3⟩

theorem declStart_ok {j : Nat} {st : St} (h : Valid src j) (hst : StOK src st) :
    (declStart src j).Sat st (PosOK src j) (EOK src) := by
  unfold declStart
  refine M.Sat.bind (ws_ok h hst) ?_
  intro i st1 ⟨hji, hi, hnl⟩
  have hst1 := hnl.stOK hst
  refine M.Sat.bind (liftR_ok (parseName_sat hi) hst1) ?_
  rintro ⟨j2, n⟩ st2 ⟨⟨hij2, hj2⟩, rfl⟩
  dsimp only at hij2 hj2 ⊢
  refine M.Sat.bind (liftR_ok (mkSpan_sat hi hj2 (by omega)) hst1) ?_
  rintro span st2 ⟨⟨_, hspan⟩, rfl⟩
  refine M.Sat.bind (recordStart_ok hst1 hspan) ?_
  intro _ st3 hst3
  refine M.Sat.mono (ws_ok hj2 hst3) ?_ (fun _ _ h => h)
  intro i3 st4 ⟨h1, h2, h3⟩
  exact ⟨by omega, h2, h3.stOK hst3⟩

theorem declEpp_ok {j : Nat} {st : St} (h : Valid src j) (hst : StOK src st)
    (hf : byteLen src < fuel) : (declEpp src fuel j).Sat st (PosOK src j) (EOK src) := by
  unfold declEpp
  refine M.Sat.bind (ws_ok h hst) ?_
  intro i st1 ⟨hji, hi, hnl⟩
  have hst1 := hnl.stOK hst
  refine M.Sat.bind (liftR_ok (parseToken_sat hi) hst1) ?_
  rintro ⟨j2, n, sp0, q⟩ st2 ⟨⟨hij2, hj2, _⟩, rfl⟩
  dsimp only at hij2 hj2 ⊢
  refine M.Sat.bind (liftR_ok (mkSpan_sat hi hj2 (by omega)) hst1) ?_
  rintro span st2 ⟨⟨_, hspan⟩, rfl⟩
  refine M.Sat.bind (ws_ok hj2 hst1) ?_
  intro i2 st2 ⟨hj2i2, hi2, hnl2⟩
  have hst2 := hnl2.stOK hst1
  refine M.Sat.bind (liftR_ok (parseString_sat hi2 hf) hst2) ?_
  rintro ⟨j3, v⟩ st3 ⟨⟨hi2j3, hj3⟩, rfl⟩
  dsimp only at hi2j3 hj3 ⊢
  refine M.Sat.bind (liftR_ok (mkSpan_sat hi2 hj3 (by omega)) hst2) ?_
  rintro vspan st3 ⟨⟨_, hvspan⟩, rfl⟩
  refine M.Sat.bind (recordEpp_ok hst2 hspan hvspan) ?_
  intro _ st3 hst3
  refine M.Sat.mono (ws_ok hj3 hst3) ?_ (fun _ _ h => h)
  intro i3 st4 ⟨h1, h2, h3⟩
  exact ⟨by omega, h2, h3.stOK hst3⟩

theorem declExpectRR_ok {j : Nat} {st : St} (h : Valid src j) (hst : StOK src st)
    (hf : byteLen src < fuel) : (declExpectRR src fuel j).Sat st (PosOK src j) (EOK src) := by
  unfold declExpectRR
  refine M.Sat.bind (ws_ok h hst) ?_
  intro i st1 ⟨hji, hi, hnl⟩
  have hst1 := hnl.stOK hst
  refine M.Sat.bind (liftR_ok (parseInt_sat hi hf) hst1) ?_
  rintro ⟨j2, n⟩ st2 ⟨⟨hij2, hj2⟩, rfl⟩
  dsimp only at hij2 hj2 ⊢
  refine M.Sat.bind (liftR_ok (mkSpan_sat hi hj2 hij2) hst1) ?_
  rintro span st2 ⟨⟨_, hspan⟩, rfl⟩
  refine M.Sat.bind (recordExpectRR_ok hst1 hspan) ?_
  intro _ st3 hst3
  refine M.Sat.mono (ws_ok hj2 hst3) ?_ (fun _ _ h => h)
  intro i3 st4 ⟨h1, h2, h3⟩
  exact ⟨by omega, h2, h3.stOK hst3⟩

theorem declExpect_ok {j : Nat} {st : St} (h : Valid src j) (hst : StOK src st)
    (hf : byteLen src < fuel) : (declExpect src fuel j).Sat st (PosOK src j) (EOK src) := by
  unfold declExpect
  refine M.Sat.bind (ws_ok h hst) ?_
  intro i st1 ⟨hji, hi, hnl⟩
  have hst1 := hnl.stOK hst
  refine M.Sat.bind (liftR_ok (parseInt_sat hi hf) hst1) ?_
  rintro ⟨j2, n⟩ st2 ⟨⟨hij2, hj2⟩, rfl⟩
  dsimp only at hij2 hj2 ⊢
  refine M.Sat.bind (liftR_ok (mkSpan_sat hi hj2 hij2) hst1) ?_
  rintro span st2 ⟨⟨_, hspan⟩, rfl⟩
  refine M.Sat.bind (recordExpect_ok hst1 hspan) ?_
  intro _ st3 hst3
  refine M.Sat.mono (ws_ok hj2 hst3) ?_ (fun _ _ h => h)
  intro i3 st4 ⟨h1, h2, h3⟩
  exact ⟨by omega, h2, h3.stOK hst3⟩

theorem unusedSym_ok {i : Nat} {st : St} (h : Valid src i) (hst : StOK src st) :
    (unusedSym src i).Sat st (fun j st' => i < j ∧ Valid src j ∧ StOK src st') (EOK src) := by
  unfold unusedSym
  have hn := parseName_sat h
  split
  · next j n heq =>
    rw [heq] at hn
    obtain ⟨hij, hj⟩ := hn
    dsimp only at hij hj
    refine M.Sat.bind (liftR_ok (mkSpan_sat h hj (by omega)) hst) ?_
    rintro span st2 ⟨⟨_, hspan⟩, rfl⟩
    refine M.Sat.bind modifyAst_ok ?_
    rintro _ st1 rfl
    refine M.Sat.pure ⟨hij, hj, hst.withAst { hst.1 with unused := ?_ }⟩
    intro x hx
    simp only [List.mem_append, List.mem_singleton] at hx
    rcases hx with hx | rfl
    · exact hst.1.unused x hx
    · exact hspan
  · have ht := parseToken_sat h
    split
    · next j n span q heq =>
      rw [heq] at ht
      obtain ⟨hij, hj, hspan⟩ := ht
      dsimp only at hij hj hspan
      refine M.Sat.bind modifyAst_ok ?_
      rintro _ st1 rfl
      refine M.Sat.pure ⟨hij, hj, hst.withAst { hst.1 with unused := ?_ }⟩
      intro x hx
      simp only [List.mem_append, List.mem_singleton] at hx
      rcases hx with hx | rfl
      · exact hst.1.unused x hx
      · exact hspan
    · exact throwAt_ok h hst
    · next heq => rw [heq] at ht; exact ht.elim
    · next heq => rw [heq] at ht; exact ht.elim
  · next heq => rw [heq] at hn; exact hn.elim
  · next heq => rw [heq] at hn; exact hn.elim

theorem unusedLoop_ok (f : Nat) : ∀ i st, Valid src i → StOK src st → byteLen src - i < f →
    (unusedLoop src f i).Sat st (PosOK src i) (EOK src) := by
  induction f with
  | zero => intro i st _ _ hf; omega
  | succ f ih =>
    intro i st hv hst hf
    unfold unusedLoop
    split
    · refine M.Sat.bind (la_ok "%" hv hst) ?_
      rintro o st' ⟨rfl, -, -⟩
      split
      · refine M.Sat.bind (unusedSym_ok hv hst) ?_
        intro j st1 ⟨hij, hj, hst1⟩
        refine M.Sat.bind (ws_ok hj hst1) ?_
        intro i2 st2 ⟨hji2, hi2, hnl⟩
        have := hi2.le
        refine M.Sat.mono (ih i2 st2 hi2 (hnl.stOK hst1) (by omega)) ?_ (fun _ _ h => h)
        intro i3 st3 ⟨h1, h2, h3⟩
        exact ⟨by omega, h2, h3⟩
      · exact M.Sat.pure ⟨Nat.le_refl _, hv, hst⟩
    · exact M.Sat.pure ⟨Nat.le_refl _, hv, hst⟩

theorem declExpectUnused_ok {j : Nat} {st : St} (h : Valid src j) (hst : StOK src st)
    (hf : byteLen src < fuel) : (declExpectUnused src fuel j).Sat st (PosOK src j) (EOK src) := by
  unfold declExpectUnused
  refine M.Sat.bind (ws_ok h hst) ?_
  intro i st1 ⟨hji, hi, hnl⟩
  refine M.Sat.mono (unusedLoop_ok fuel i st1 hi (hnl.stOK hst) (by omega)) ?_ (fun _ _ h => h)
  intro i3 st3 ⟨h1, h2, h3⟩
  exact ⟨by omega, h2, h3⟩

theorem avoidLoop_ok (j0 nl0 : Nat) (f : Nat) : ∀ i st, Valid src i → StOK src st →
    byteLen src - i < f → (avoidLoop src j0 nl0 f i).Sat st (PosOK src i) (EOK src) := by
  induction f with
  | zero => intro i st _ _ hf; omega
  | succ f ih =>
    intro i st hv hst hf
    unfold avoidLoop
    refine M.Sat.bind getSt_ok ?_
    rintro s st' ⟨rfl, rfl⟩
    split
    · refine M.Sat.bind (liftR_ok (parseToken_sat hv) hst) ?_
      rintro ⟨j, n, span, q⟩ st' ⟨⟨hij, hj, hspan⟩, rfl⟩
      dsimp only at hij hj hspan ⊢
      refine M.Sat.bind modifyAst_ok ?_
      rintro _ st1 rfl
      have hst1 := hst.withAst (hst.1.insertToken n hspan)
      refine M.Sat.bind (avoidEntry_ok hst1 hspan) ?_
      intro _ st2 hst2
      refine M.Sat.bind (ws_ok hj hst2) ?_
      intro i2 st3 ⟨hji2, hi2, hnl⟩
      have := hi2.le
      refine M.Sat.mono (ih i2 st3 hi2 (hnl.stOK hst2) (by omega)) ?_ (fun _ _ h => h)
      intro i3 st4 ⟨h1, h2, h3⟩
      exact ⟨by omega, h2, h3⟩
    · exact M.Sat.pure ⟨Nat.le_refl _, hv, hst⟩

theorem declAvoidInsert_ok {j : Nat} {st : St} (h : Valid src j) (hst : StOK src st)
    (hf : byteLen src < fuel) : (declAvoidInsert src fuel j).Sat st (PosOK src j) (EOK src) := by
  unfold declAvoidInsert
  refine M.Sat.bind (ws_ok h hst) ?_
  intro i st1 ⟨hji, hi, hnl⟩
  have hst1 := hnl.stOK hst
  refine M.Sat.bind getSt_ok ?_
  rintro s st' ⟨rfl, rfl⟩
  refine M.Sat.bind modifyAst_ok ?_
  rintro _ st2 rfl
  have hst2 := hst1.withAst (a := { st1.ast with avoidInsert := some (st1.ast.avoidInsert.getD []) })
    { hst1.1 with avoid := (by
    intro x hx; simp only [Option.getD_some] at hx; exact hst1.1.avoid x hx) }
  refine M.Sat.mono (avoidLoop_ok j _ fuel i _ hi hst2 (by omega)) ?_ (fun _ _ h => h)
  intro i3 st3 ⟨h1, h2, h3⟩
  exact ⟨by omega, h2, h3⟩

theorem implicitLoop_ok (j0 nl0 : Nat) (f : Nat) : ∀ i st, Valid src i → StOK src st →
    byteLen src - i < f → (implicitLoop src j0 nl0 f i).Sat st (PosOK src i) (EOK src) := by
  induction f with
  | zero => intro i st _ _ hf; omega
  | succ f ih =>
    intro i st hv hst hf
    unfold implicitLoop
    refine M.Sat.bind getSt_ok ?_
    rintro s st' ⟨rfl, rfl⟩
    split
    · refine M.Sat.bind (liftR_ok (parseToken_sat hv) hst) ?_
      rintro ⟨j, n, span, q⟩ st' ⟨⟨hij, hj, hspan⟩, rfl⟩
      dsimp only at hij hj hspan ⊢
      refine M.Sat.bind modifyAst_ok ?_
      rintro _ st1 rfl
      have hst1 := hst.withAst (hst.1.insertToken n hspan)
      refine M.Sat.bind (implicitEntry_ok hst1 hspan) ?_
      intro _ st2 hst2
      refine M.Sat.bind (ws_ok hj hst2) ?_
      intro i2 st3 ⟨hji2, hi2, hnl⟩
      have := hi2.le
      refine M.Sat.mono (ih i2 st3 hi2 (hnl.stOK hst2) (by omega)) ?_ (fun _ _ h => h)
      intro i3 st4 ⟨h1, h2, h3⟩
      exact ⟨by omega, h2, h3⟩
    · exact M.Sat.pure ⟨Nat.le_refl _, hv, hst⟩

theorem declImplicit_ok {j : Nat} {st : St} (h : Valid src j) (hst : StOK src st)
    (hf : byteLen src < fuel) : (declImplicit src fuel j).Sat st (PosOK src j) (EOK src) := by
  unfold declImplicit
  refine M.Sat.bind (ws_ok h hst) ?_
  intro i st1 ⟨hji, hi, hnl⟩
  have hst1 := hnl.stOK hst
  refine M.Sat.bind getSt_ok ?_
  rintro s st' ⟨rfl, rfl⟩
  refine M.Sat.bind modifyAst_ok ?_
  rintro _ st2 rfl
  have hst2 := hst1.withAst (a := { st1.ast with implicitTokens := some (st1.ast.implicitTokens.getD []) })
    { hst1.1 with implicit := (by
    intro x hx; simp only [Option.getD_some] at hx; exact hst1.1.implicit x hx) }
  refine M.Sat.mono (implicitLoop_ok j _ fuel i _ hi hst2 (by omega)) ?_ (fun _ _ h => h)
  intro i3 st3 ⟨h1, h2, h3⟩
  exact ⟨by omega, h2, h3⟩

theorem declParseParam_ok {j : Nat} {st : St} (h : Valid src j) (hst : StOK src st)
    (hf : byteLen src < fuel) : (declParseParam src fuel j).Sat st (PosOK src j) (EOK src) := by
  unfold declParseParam
  refine M.Sat.bind (ws_ok h hst) ?_
  intro i st1 ⟨hji, hi, hnl⟩
  have hst1 := hnl.stOK hst
  refine M.Sat.bind (parseToSingleColon_ok hi hst1 hf) ?_
  intro j2 st2 ⟨hij2, hj2, hnl2⟩
  have hst2 := hnl2.stOK hst1
  refine M.Sat.bind (la_ok ":" hj2 hst2) ?_
  rintro o st' ⟨rfl, -, ho⟩
  split
  · next j3 =>
    obtain ⟨hj3, hvj3⟩ := ho j3 rfl
    refine M.Sat.bind (ws_ok hvj3 hst2) ?_
    intro i4 st4 ⟨h34, hi4, hnl4⟩
    have hst4 := hnl4.stOK hst2
    refine M.Sat.bind (liftR_ok (parseToEol_sat hi4 hf) hst4) ?_
    rintro ⟨j5, ty⟩ st5 ⟨⟨h45, hj5⟩, rfl⟩
    dsimp only at h45 hj5 ⊢
    refine M.Sat.bind modifyAst_ok ?_
    rintro _ st5 rfl
    have hst5 := hst4.withAst (a := { st4.ast with parseParam := some ty }) { hst4.1 with }
    refine M.Sat.mono (ws_ok hj5 hst5) ?_ (fun _ _ h => h)
    intro i6 st6 ⟨h1, h2, h3⟩
    exact ⟨by omega, h2, h3.stOK hst5⟩
  · exact throwAt_ok hj2 hst2

theorem declParseGenerics_ok {j : Nat} {st : St} (h : Valid src j) (hst : StOK src st)
    (hf : byteLen src < fuel) : (declParseGenerics src fuel j).Sat st (PosOK src j) (EOK src) := by
  unfold declParseGenerics
  refine M.Sat.bind (ws_ok h hst) ?_
  intro i st1 ⟨hji, hi, hnl⟩
  have hst1 := hnl.stOK hst
  refine M.Sat.bind (liftR_ok (parseToEol_sat hi hf) hst1) ?_
  rintro ⟨j5, ty⟩ st5 ⟨⟨h45, hj5⟩, rfl⟩
  dsimp only at h45 hj5 ⊢
  refine M.Sat.bind modifyAst_ok ?_
  rintro _ st5 rfl
  have hst5 := hst1.withAst (a := { st1.ast with parseGenerics := some ty }) { hst1.1 with }
  refine M.Sat.mono (ws_ok hj5 hst5) ?_ (fun _ _ h => h)
  intro i6 st6 ⟨h1, h2, h3⟩
  exact ⟨by omega, h2, h3.stOK hst5⟩

theorem precLoop_ok (nl0 level : Nat) (kind : Assoc) (f : Nat) : ∀ i st, Valid src i → StOK src st →
    byteLen src - i < f → (precLoop src nl0 level kind f i).Sat st (PosOK src i) (EOK src) := by
  induction f with
  | zero => intro i st _ _ hf; omega
  | succ f ih =>
    intro i st hv hst hf
    unfold precLoop
    refine M.Sat.bind getSt_ok ?_
    rintro s st' ⟨rfl, rfl⟩
    split
    · refine M.Sat.bind (liftR_ok (parseToken_sat hv) hst) ?_
      rintro ⟨j, n, span, q⟩ st' ⟨⟨hij, hj, hspan⟩, rfl⟩
      dsimp only at hij hj hspan ⊢
      refine M.Sat.bind (precEntry_ok hst hspan) ?_
      intro _ st2 hst2
      refine M.Sat.bind (ws_ok hj hst2) ?_
      intro i2 st3 ⟨hji2, hi2, hnl⟩
      have := hi2.le
      refine M.Sat.mono (ih i2 st3 hi2 (hnl.stOK hst2) (by omega)) ?_ (fun _ _ h => h)
      intro i3 st4 ⟨h1, h2, h3⟩
      exact ⟨by omega, h2, h3⟩
    · exact M.Sat.pure ⟨Nat.le_refl _, hv, hst⟩

theorem declPrec_ok {k level : Nat} {kind : Assoc} {st : St} (h : Valid src k) (hst : StOK src st)
    (hf : byteLen src < fuel) : (declPrec src fuel k level kind).Sat st (PosOK src k) (EOK src) := by
  unfold declPrec
  refine M.Sat.bind (ws_ok h hst) ?_
  intro i st1 ⟨hji, hi, hnl⟩
  have hst1 := hnl.stOK hst
  refine M.Sat.bind getSt_ok ?_
  rintro s st' ⟨rfl, rfl⟩
  refine M.Sat.mono (precLoop_ok _ level kind fuel i _ hi hst1 (by omega)) ?_ (fun _ _ h => h)
  intro i3 st3 ⟨h1, h2, h3⟩
  exact ⟨by omega, h2, h3⟩

/-! ### the loop of `parse_declarations` -/

/-- what one iteration of the declarations loop guarantees: `done` only at a `%%` (so the `unwrap`
of `parse_rules` cannot fail) and without moving; `cont` strictly further on -/
def StepOK (src : List Char) (i : Nat) : Step → St → Prop
  | .done i', st' => i' = i ∧ Valid src i ∧ StOK src st' ∧
      ∃ j, (lookahead src "%%".toList i : Res YErr _) = .ok (some j)
  | .cont i' _, st' => i < i' ∧ Valid src i' ∧ StOK src st'

theorem cont_ok {m : M Nat} {i j level : Nat} {st : St} (hij : i < j)
    (h : m.Sat st (PosOK src j) (EOK src)) :
    (do let i' ← m; pure (Step.cont i' level) : M Step).Sat st (StepOK src i) (EOK src) := by
  refine M.Sat.bind h ?_
  intro i' st' ⟨h1, h2, h3⟩
  exact M.Sat.pure ⟨by omega, h2, h3⟩

theorem laWhen_ok (c : Bool) (s : String) {i : Nat} {st : St} (h : Valid src i) (hst : StOK src st) :
    (laWhen c src s i).Sat st
      (fun o st' => st = st' ∧ ∀ j, o = some j → j = i + byteLen s.toList ∧ Valid src j) (EOK src) := by
  unfold laWhen
  split
  · exact M.Sat.mono (la_ok s h hst) (fun _ _ h => ⟨h.1, h.2.2⟩) (fun _ _ h => h)
  · exact M.Sat.pure ⟨rfl, by intro j hj; simp at hj⟩

theorem declPrecOrUnknown_ok {i level : Nat} {st : St} (h : Valid src i) (hst : StOK src st)
    (hf : byteLen src < fuel) :
    (declPrecOrUnknown src fuel i level).Sat st (StepOK src i) (EOK src) := by
  unfold declPrecOrUnknown
  refine M.Sat.bind (la_ok "%left" h hst) ?_
  rintro o st' ⟨rfl, -, ho⟩
  split
  · next k =>
    obtain ⟨hk, hvk⟩ := ho k rfl
    exact cont_ok (by have := byteLen_pos (m := "%left".toList) (by decide); omega)
      (declPrec_ok hvk hst hf)
  refine M.Sat.bind (la_ok "%right" h hst) ?_
  rintro o st' ⟨rfl, -, ho⟩
  split
  · next k =>
    obtain ⟨hk, hvk⟩ := ho k rfl
    exact cont_ok (by have := byteLen_pos (m := "%right".toList) (by decide); omega)
      (declPrec_ok hvk hst hf)
  refine M.Sat.bind (la_ok "%nonassoc" h hst) ?_
  rintro o st' ⟨rfl, -, ho⟩
  split
  · next k =>
    obtain ⟨hk, hvk⟩ := ho k rfl
    exact cont_ok (by have := byteLen_pos (m := "%nonassoc".toList) (by decide); omega)
      (declPrec_ok hvk hst hf)
  exact throwAt_ok h hst

theorem declStep2_ok {kind : Kind} {i level : Nat} {st : St} (h : Valid src i) (hst : StOK src st)
    (hf : byteLen src < fuel) :
    (declStep2 src kind fuel i level).Sat st (StepOK src i) (EOK src) := by
  unfold declStep2
  refine M.Sat.bind (la_ok "%expect-unused" h hst) ?_
  rintro o st' ⟨rfl, -, ho⟩
  split
  · next j =>
    obtain ⟨hj, hvj⟩ := ho j rfl
    exact cont_ok (by have := byteLen_pos (m := "%expect-unused".toList) (by decide); omega)
      (declExpectUnused_ok hvj hst hf)
  refine M.Sat.bind (la_ok "%expect" h hst) ?_
  rintro o st' ⟨rfl, -, ho⟩
  split
  · next j =>
    obtain ⟨hj, hvj⟩ := ho j rfl
    exact cont_ok (by have := byteLen_pos (m := "%expect".toList) (by decide); omega)
      (declExpect_ok hvj hst hf)
  refine M.Sat.bind (la_ok "%avoid_insert" h hst) ?_
  rintro o st' ⟨rfl, -, ho⟩
  split
  · next j =>
    obtain ⟨hj, hvj⟩ := ho j rfl
    exact cont_ok (by have := byteLen_pos (m := "%avoid_insert".toList) (by decide); omega)
      (declAvoidInsert_ok hvj hst hf)
  refine M.Sat.bind (la_ok "%parse-param" h hst) ?_
  rintro o st' ⟨rfl, -, ho⟩
  split
  · next j =>
    obtain ⟨hj, hvj⟩ := ho j rfl
    exact cont_ok (by have := byteLen_pos (m := "%parse-param".toList) (by decide); omega)
      (declParseParam_ok hvj hst hf)
  refine M.Sat.bind (la_ok "%parse-generics" h hst) ?_
  rintro o st' ⟨rfl, -, ho⟩
  split
  · next j =>
    obtain ⟨hj, hvj⟩ := ho j rfl
    exact cont_ok (by have := byteLen_pos (m := "%parse-generics".toList) (by decide); omega)
      (declParseGenerics_ok hvj hst hf)
  refine M.Sat.bind (laWhen_ok _ "%implicit_tokens" h hst) ?_
  rintro o st' ⟨rfl, ho⟩
  split
  · next j =>
    obtain ⟨hj, hvj⟩ := ho j rfl
    exact cont_ok (by have := byteLen_pos (m := "%implicit_tokens".toList) (by decide); omega)
      (declImplicit_ok hvj hst hf)
  exact declPrecOrUnknown_ok h hst hf

theorem declStep_ok {kind : Kind} {i level : Nat} {st : St} (h : Valid src i) (hst : StOK src st)
    (hf : byteLen src < fuel) :
    (declStep src kind fuel i level).Sat st (StepOK src i) (EOK src) := by
  unfold declStep
  refine M.Sat.bind (la_ok "%%" h hst) ?_
  rintro o st' ⟨rfl, hl, ho⟩
  split
  · next j => exact M.Sat.pure ⟨rfl, h, hst, j, hl⟩
  refine M.Sat.bind (la_ok "%token" h hst) ?_
  rintro o st' ⟨rfl, -, ho⟩
  split
  · next j =>
    obtain ⟨hj, hvj⟩ := ho j rfl
    exact cont_ok (by have := byteLen_pos (m := "%token".toList) (by decide); omega)
      (declToken_ok hvj hst hf)
  refine M.Sat.bind (laWhen_ok _ "%actiontype" h hst) ?_
  rintro o st' ⟨rfl, ho⟩
  split
  · next j =>
    obtain ⟨hj, hvj⟩ := ho j rfl
    exact cont_ok (by have := byteLen_pos (m := "%actiontype".toList) (by decide); omega)
      (declActiontype_ok hvj hst hf)
  refine M.Sat.bind (la_ok "%start" h hst) ?_
  rintro o st' ⟨rfl, -, ho⟩
  split
  · next j =>
    obtain ⟨hj, hvj⟩ := ho j rfl
    exact cont_ok (by have := byteLen_pos (m := "%start".toList) (by decide); omega)
      (declStart_ok hvj hst)
  refine M.Sat.bind (la_ok "%epp" h hst) ?_
  rintro o st' ⟨rfl, -, ho⟩
  split
  · next j =>
    obtain ⟨hj, hvj⟩ := ho j rfl
    exact cont_ok (by have := byteLen_pos (m := "%epp".toList) (by decide); omega)
      (declEpp_ok hvj hst hf)
  refine M.Sat.bind (la_ok "%expect-rr" h hst) ?_
  rintro o st' ⟨rfl, -, ho⟩
  split
  · next j =>
    obtain ⟨hj, hvj⟩ := ho j rfl
    exact cont_ok (by have := byteLen_pos (m := "%expect-rr".toList) (by decide); omega)
      (declExpectRR_ok hvj hst hf)
  exact declStep2_ok h hst hf

/-- what `parse_declarations` guarantees on `Ok(i)`: `i` is sliceable and a `%%` stands there -/
def DeclOK (src : List Char) : Nat → St → Prop :=
  fun i st' => Valid src i ∧ StOK src st' ∧ ∃ j, (lookahead src "%%".toList i : Res YErr _) = .ok (some j)

theorem declLoop_ok {kind : Kind} (hf : byteLen src < fuel) (f : Nat) : ∀ i level st, Valid src i →
    StOK src st → byteLen src - i < f →
    (declLoop src kind fuel f i level).Sat st (DeclOK src) (EOK src) := by
  induction f with
  | zero => intro i level st _ _ hf; omega
  | succ f ih =>
    intro i level st hv hst hlt
    unfold declLoop
    split
    · refine M.Sat.bind (declStep_ok hv hst hf) ?_
      intro s st1 hs
      split
      · next i' =>
        obtain ⟨rfl, h1, h2, h3⟩ := hs
        exact M.Sat.pure ⟨h1, h2, h3⟩
      · next i' level' =>
        obtain ⟨h1, h2, h3⟩ := hs
        have := h2.le
        exact ih i' level' st1 h2 h3 (by omega)
    · have := hv.le
      split
      · exact throwAt_ok hv hst
      · omega

theorem parseDeclarations_ok {kind : Kind} {i : Nat} {st : St} (h : Valid src i) (hst : StOK src st)
    (hf : byteLen src < fuel) :
    (parseDeclarations src kind fuel i).Sat st (DeclOK src) (EOK src) := by
  unfold parseDeclarations
  refine M.Sat.bind (ws_ok h hst) ?_
  intro i1 st1 ⟨_, hi1, hnl⟩
  exact declLoop_ok hf fuel i1 0 st1 hi1 (hnl.stOK hst) (by omega)

end Decl

end GrmVerif.YaccParse
