import GrmVerif.Model.Dollar
/-!
Specification of the `$`-substitution (`dollarSpec`) and the lemmas that equate the byte-offset loop
of `Model/Dollar.lean` with it. Core Lean only (the driver evaluates `dollarSpec` for the `S` line).
-/
namespace GrmVerif.Dollar

/-- put `p` in front of a successful output; errors are unchanged -/
def Res.prepend (p : List Char) : Res → Res
  | .ok o => .ok (p ++ o)
  | r => r

/-- **Specification**: one left-to-right pass over the characters. `pos` is the byte offset of the
current character in the action text.
* a character other than `$` is copied;
* `$$` becomes one `$`; `$lexer` / `$span` become `<pfx>lexer` / `<pfx>span`;
* `$` followed by a numeric character becomes `<pfx>arg_` and the pass continues AT that character
  (so the digits follow the prefix verbatim: `$12` is `<pfx>arg_12`);
* any other `$` (also one that ends the text) is an error whose position is the offset just after
  that `$`; nothing is produced. -/
def specGo (num : Char → Bool) (pfx : List Char) : List Char → Nat → Res
  | [], _ => .ok []
  | c :: r, pos =>
    if c ≠ '$' then (specGo num pfx r (pos + c.utf8Size)).prepend [c]
    else if startsWith (c :: r) kwDollar then (specGo num pfx (r.drop 1) (pos + 2)).prepend ['$']
    else if startsWith (c :: r) kwLexer then (specGo num pfx (r.drop 5) (pos + 6)).prepend (pfx ++ idLexer)
    else if startsWith (c :: r) kwSpan then (specGo num pfx (r.drop 4) (pos + 5)).prepend (pfx ++ idSpan)
    else if firstIs num r then (specGo num pfx r (pos + 1)).prepend (pfx ++ idArg)
    else .err (pos + 1)
termination_by s => s.length
decreasing_by all_goals (simp only [List.length_cons, List.length_drop]; omega)

def dollarSpec (num : Char → Bool) (pfx s : List Char) : Res := specGo num pfx s 0

/-! ### bytes and slices -/

theorem byteLen_append (a b : List Char) : byteLen (a ++ b) = byteLen a + byteLen b := by
  induction a with
  | nil => simp [byteLen]
  | cons c a ih => simp [byteLen, ih]; omega

theorem utf8Size_pos' (c : Char) : 0 < c.utf8Size := Char.utf8Size_pos c

theorem byteLen_eq_zero (a : List Char) : byteLen a = 0 ↔ a = [] := by
  cases a with
  | nil => simp [byteLen]
  | cons c a => have := utf8Size_pos' c; simp [byteLen]; omega

theorem length_le_byteLen (a : List Char) : a.length ≤ byteLen a := by
  induction a with
  | nil => simp [byteLen]
  | cons c a ih => have := utf8Size_pos' c; simp [byteLen]; omega

theorem sliceFrom_zero (s : List Char) : sliceFrom s 0 = some s := by
  cases s <;> simp [sliceFrom]

theorem sliceFrom_append (a b : List Char) : sliceFrom (a ++ b) (byteLen a) = some b := by
  induction a with
  | nil => simp [byteLen, sliceFrom_zero]
  | cons c a ih =>
    have := utf8Size_pos' c
    have h1 : ¬ (c.utf8Size + byteLen a = 0) := by omega
    have h2 : c.utf8Size + byteLen a - c.utf8Size = byteLen a := by omega
    simp [byteLen, sliceFrom, h2, ih]
    intro h; omega

theorem takeBytes_zero (s : List Char) : takeBytes s 0 = some [] := by
  cases s <;> simp [takeBytes]

theorem takeBytes_append (a b : List Char) : takeBytes (a ++ b) (byteLen a) = some a := by
  induction a with
  | nil => simp [byteLen, takeBytes_zero]
  | cons c a ih =>
    have := utf8Size_pos' c
    have h1 : ¬ (c.utf8Size + byteLen a = 0) := by omega
    have h2 : c.utf8Size + byteLen a - c.utf8Size = byteLen a := by omega
    simp [byteLen, takeBytes, h2, ih]
    intro h; omega

/-- a slice whose ends are the byte lengths of a prefix decomposition is that piece; no panic -/
theorem sliceFrom_eq (s a b : List Char) (n : Nat) (hs : s = a ++ b) (hn : n = byteLen a) :
    sliceFrom s n = some b := by subst hs; subst hn; exact sliceFrom_append a b

theorem slice_eq (s a b c : List Char) (lo hi : Nat) (hs : s = a ++ (b ++ c)) (hlo : lo = byteLen a)
    (hhi : hi = byteLen a + byteLen b) : slice s lo hi = some b := by
  subst hs; subst hlo; subst hhi
  have h : ¬ (byteLen a + byteLen b < byteLen a) := by omega
  simp [slice, h, sliceFrom_append, takeBytes_append]

theorem findDollar_plain (p : List Char) (hp : '$' ∉ p) : findDollar p = none := by
  induction p with
  | nil => simp [findDollar]
  | cons c p ih =>
    have hc : c ≠ '$' := by intro h; apply hp; simp [h]
    have hp' : '$' ∉ p := by intro h; apply hp; simp [h]
    simp [findDollar, hc, ih hp']

theorem findDollar_at (p r : List Char) (hp : '$' ∉ p) :
    findDollar (p ++ '$' :: r) = some (byteLen p) := by
  induction p with
  | nil => simp [findDollar, byteLen]
  | cons c p ih =>
    have hc : c ≠ '$' := by intro h; apply hp; simp [h]
    have hp' : '$' ∉ p := by intro h; apply hp; simp [h]
    simp [findDollar, hc, ih hp', byteLen]; omega

theorem dollar_size : ('$' : Char).utf8Size = 1 := by decide
theorem kwLexer_len : byteLen kwLexer = 6 := by decide
theorem kwSpan_len : byteLen kwSpan = 5 := by decide

/-! ### the specification on a `$`-free prefix -/

theorem prepend_prepend (a b : List Char) (r : Res) : (r.prepend b).prepend a = r.prepend (a ++ b) := by
  cases r <;> simp [Res.prepend]

theorem prepend_nil (r : Res) : r.prepend [] = r := by
  cases r <;> simp [Res.prepend]

theorem specGo_plain (num : Char → Bool) (pfx p t : List Char) (pos : Nat) (hp : '$' ∉ p) :
    specGo num pfx (p ++ t) pos = (specGo num pfx t (pos + byteLen p)).prepend p := by
  induction p generalizing pos with
  | nil => simp [byteLen, prepend_nil]
  | cons c p ih =>
    have hc : c ≠ '$' := by intro h; apply hp; simp [h]
    have hp' : '$' ∉ p := by intro h; apply hp; simp [h]
    rw [List.cons_append, specGo]
    simp only [hc, ne_eq, not_false_eq_true, if_true]
    rw [ih _ hp', prepend_prepend]
    simp [byteLen, Nat.add_assoc]

/-- every text splits at its first `$` -/
theorem split_at_dollar (s : List Char) :
    ∃ p t, s = p ++ t ∧ '$' ∉ p ∧ (t = [] ∨ ∃ r, t = '$' :: r) := by
  induction s with
  | nil => exact ⟨[], [], rfl, by simp, Or.inl rfl⟩
  | cons c s ih =>
    by_cases hc : c = '$'
    · exact ⟨[], c :: s, rfl, by simp, Or.inr ⟨s, by rw [hc]⟩⟩
    · obtain ⟨p, t, hs, hp, ht⟩ := ih
      refine ⟨c :: p, t, by rw [hs]; rfl, ?_, ht⟩
      intro h
      rcases List.mem_cons.mp h with h | h
      · exact hc h.symm
      · exact hp h

/-! ### one iteration of the loop, case by case -/

section Step
variable (num : Char → Bool) (pfx : List Char)

theorem step_done (dn p outs : List Char) (hp : '$' ∉ p) :
    step num pfx (dn ++ p) (byteLen dn) outs = .done (outs ++ p) := by
  simp [step, sliceFrom_append, findDollar_plain p hp]

/-- the three slices every `$`-iteration starts with -/
theorem step_pre (dn p r : List Char) (hp : '$' ∉ p) :
    sliceFrom (dn ++ (p ++ '$' :: r)) (byteLen dn) = some (p ++ '$' :: r) ∧
    findDollar (p ++ '$' :: r) = some (byteLen p) ∧
    sliceFrom (dn ++ (p ++ '$' :: r)) (byteLen dn + byteLen p) = some ('$' :: r) ∧
    slice (dn ++ (p ++ '$' :: r)) (byteLen dn) (byteLen dn + byteLen p) = some p ∧
    slice (dn ++ (p ++ '$' :: r)) (byteLen dn) (byteLen dn + byteLen p + 1) = some (p ++ ['$']) ∧
    sliceFrom (dn ++ (p ++ '$' :: r)) (byteLen dn + byteLen p + 1) = some r ∧
    byteLen (dn ++ (p ++ '$' :: r)) = byteLen dn + byteLen p + 1 + byteLen r := by
  refine ⟨sliceFrom_append _ _, findDollar_at p r hp, ?_, ?_, ?_, ?_, ?_⟩
  · exact sliceFrom_eq _ (dn ++ p) _ _ (by simp) (by simp [byteLen_append])
  · exact slice_eq _ dn p ('$' :: r) _ _ rfl rfl rfl
  · exact slice_eq _ dn (p ++ ['$']) r _ _ (by simp) rfl
      (by simp [byteLen_append, byteLen, dollar_size]; omega)
  · exact sliceFrom_eq _ (dn ++ (p ++ ['$'])) _ _ (by simp)
      (by simp [byteLen_append, byteLen, dollar_size]; omega)
  · simp [byteLen_append, byteLen, dollar_size]; omega

theorem step_dollar (dn p r outs : List Char) (hp : '$' ∉ p)
    (h : startsWith ('$' :: r) kwDollar = true) :
    step num pfx (dn ++ (p ++ '$' :: r)) (byteLen dn) outs
      = .next (byteLen dn + byteLen p + 2) (outs ++ (p ++ ['$'])) := by
  obtain ⟨h1, h2, h3, _, h5, _, _⟩ := step_pre dn p r hp
  simp [step, h1, h2, h3, h, h5]

theorem step_lexer (dn p r outs : List Char) (hp : '$' ∉ p)
    (h0 : startsWith ('$' :: r) kwDollar = false) (h : startsWith ('$' :: r) kwLexer = true) :
    step num pfx (dn ++ (p ++ '$' :: r)) (byteLen dn) outs
      = .next (byteLen dn + byteLen p + 6) (outs ++ p ++ pfx ++ idLexer) := by
  obtain ⟨h1, h2, h3, h4, _, _, _⟩ := step_pre dn p r hp
  simp [step, h1, h2, h3, h0, h, h4]

theorem step_span (dn p r outs : List Char) (hp : '$' ∉ p)
    (h0 : startsWith ('$' :: r) kwDollar = false) (h1' : startsWith ('$' :: r) kwLexer = false)
    (h : startsWith ('$' :: r) kwSpan = true) :
    step num pfx (dn ++ (p ++ '$' :: r)) (byteLen dn) outs
      = .next (byteLen dn + byteLen p + 5) (outs ++ p ++ pfx ++ idSpan) := by
  obtain ⟨h1, h2, h3, h4, _, _, _⟩ := step_pre dn p r hp
  simp [step, h1, h2, h3, h0, h1', h, h4]

theorem step_arg (dn p r outs : List Char) (hp : '$' ∉ p)
    (h0 : startsWith ('$' :: r) kwDollar = false) (h1' : startsWith ('$' :: r) kwLexer = false)
    (h2' : startsWith ('$' :: r) kwSpan = false) (h : firstIs num r = true) :
    step num pfx (dn ++ (p ++ '$' :: r)) (byteLen dn) outs
      = .next (byteLen dn + byteLen p + 1) (outs ++ p ++ pfx ++ idArg) := by
  obtain ⟨h1, h2, h3, h4, _, h6, h7⟩ := step_pre dn p r hp
  have hr : r ≠ [] := by intro e; subst e; simp [firstIs] at h
  have hb : 0 < byteLen r := by
    have : byteLen r ≠ 0 := fun e => hr ((byteLen_eq_zero r).mp e)
    omega
  have hlt : byteLen dn + byteLen p + 1 < byteLen dn + byteLen p + 1 + byteLen r := by omega
  simp [step, h1, h2, h3, h0, h1', h2', h4, h6, h7, hlt, h]

theorem step_err (dn p r outs : List Char) (hp : '$' ∉ p)
    (h0 : startsWith ('$' :: r) kwDollar = false) (h1' : startsWith ('$' :: r) kwLexer = false)
    (h2' : startsWith ('$' :: r) kwSpan = false) (h : firstIs num r = false) :
    step num pfx (dn ++ (p ++ '$' :: r)) (byteLen dn) outs = .err (byteLen dn + byteLen p + 1) := by
  obtain ⟨h1, h2, h3, _, _, h6, h7⟩ := step_pre dn p r hp
  by_cases hlt : byteLen dn + byteLen p + 1 < byteLen dn + byteLen p + 1 + byteLen r
  · simp [step, h1, h2, h3, h0, h1', h2', h6, h7, hlt, h]
  · simp [step, h1, h2, h3, h0, h1', h2', h7, hlt]

end Step

/-! ### the loop equals the specification -/

theorem startsWith_drop (r k : List Char) (h : startsWith r k = true) : r = k ++ r.drop k.length := by
  unfold startsWith at h
  obtain ⟨t, ht⟩ := List.isPrefixOf_iff_prefix.mp h
  rw [← ht]; simp

theorem loop_eq_spec (num : Char → Bool) (pfx : List Char) (fuel : Nat) :
    ∀ (dn rest outs : List Char), rest.length < fuel →
      loop num pfx (dn ++ rest) fuel (byteLen dn) outs
        = (specGo num pfx rest (byteLen dn)).prepend outs := by
  induction fuel with
  | zero => intro dn rest outs h; omega
  | succ f ih =>
    intro dn rest outs hlen
    obtain ⟨p, t, hs, hp, ht⟩ := split_at_dollar rest
    subst hs
    rw [specGo_plain num pfx p t _ hp, prepend_prepend]
    rcases ht with ht | ⟨r, ht⟩
    · subst ht
      simp [loop, step_done num pfx dn p outs hp, specGo, Res.prepend]
    · subst ht
      simp only [List.length_append, List.length_cons] at hlen
      rw [specGo]
      simp only [ne_eq, not_true_eq_false, if_false]
      by_cases h0 : startsWith ('$' :: r) kwDollar = true
      · have hr := startsWith_drop _ _ h0
        simp only [kwDollar, List.length_cons, List.length_nil, List.drop_succ_cons] at hr
        have hrl : (r.drop 1).length < f := by simp; omega
        have e : dn ++ (p ++ '$' :: r) = (dn ++ (p ++ ['$', '$'])) ++ r.drop 1 := by
          have : '$' :: r = ['$', '$'] ++ r.drop 1 := by simpa using hr
          rw [this]; simp
        have eb : byteLen dn + byteLen p + 2 = byteLen (dn ++ (p ++ ['$', '$'])) := by
          simp [byteLen_append, byteLen, dollar_size]; omega
        simp only [loop, step_dollar num pfx dn p r outs hp h0, h0, if_true]
        rw [e, eb, ih _ _ _ hrl, ← eb, prepend_prepend]
        simp [Nat.add_assoc]
      · have h0 : startsWith ('$' :: r) kwDollar = false := by simpa using h0
        by_cases h1 : startsWith ('$' :: r) kwLexer = true
        · have hr := startsWith_drop _ _ h1
          simp only [kwLexer, List.length_cons, List.length_nil, List.drop_succ_cons] at hr
          have hrl : (r.drop 5).length < f := by simp; omega
          have e : dn ++ (p ++ '$' :: r) = (dn ++ (p ++ kwLexer)) ++ r.drop 5 := by
            have : '$' :: r = kwLexer ++ r.drop 5 := by simpa [kwLexer] using hr
            rw [this]; simp
          have eb : byteLen dn + byteLen p + 6 = byteLen (dn ++ (p ++ kwLexer)) := by
            simp [byteLen_append, kwLexer_len]; omega
          simp only [loop, step_lexer num pfx dn p r outs hp h0 h1, h0, h1, if_true]
          rw [e, eb, ih _ _ _ hrl, ← eb]
          simp [prepend_prepend, Nat.add_assoc]
        · have h1 : startsWith ('$' :: r) kwLexer = false := by simpa using h1
          by_cases h2 : startsWith ('$' :: r) kwSpan = true
          · have hr := startsWith_drop _ _ h2
            simp only [kwSpan, List.length_cons, List.length_nil, List.drop_succ_cons] at hr
            have hrl : (r.drop 4).length < f := by simp; omega
            have e : dn ++ (p ++ '$' :: r) = (dn ++ (p ++ kwSpan)) ++ r.drop 4 := by
              have : '$' :: r = kwSpan ++ r.drop 4 := by simpa [kwSpan] using hr
              rw [this]; simp
            have eb : byteLen dn + byteLen p + 5 = byteLen (dn ++ (p ++ kwSpan)) := by
              simp [byteLen_append, kwSpan_len]; omega
            simp only [loop, step_span num pfx dn p r outs hp h0 h1 h2, h0, h1, h2, if_true]
            rw [e, eb, ih _ _ _ hrl, ← eb]
            simp [prepend_prepend, Nat.add_assoc]
          · have h2 : startsWith ('$' :: r) kwSpan = false := by simpa using h2
            by_cases h3 : firstIs num r = true
            · have hrl : r.length < f := by omega
              have e : dn ++ (p ++ '$' :: r) = (dn ++ (p ++ ['$'])) ++ r := by simp
              have eb : byteLen dn + byteLen p + 1 = byteLen (dn ++ (p ++ ['$'])) := by
                simp [byteLen_append, byteLen, dollar_size]; omega
              simp only [loop, step_arg num pfx dn p r outs hp h0 h1 h2 h3, h0, h1, h2, h3, if_true]
              rw [e, eb, ih _ _ _ hrl, ← eb]
              simp [prepend_prepend, Nat.add_assoc]
            · have h3 : firstIs num r = false := by simpa using h3
              simp [loop, step_err num pfx dn p r outs hp h0 h1 h2 h3, h0, h1, h2, h3, Res.prepend,
                Nat.add_assoc]

end GrmVerif.Dollar
