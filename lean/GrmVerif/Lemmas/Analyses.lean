import GrmVerif.Model.AnalysesRef
/-! Textbook (inductive) definitions of nullable / FIRST / FOLLOW / reachability and the proofs that
the reference fixed-point computations are exact. -/
namespace GrmVerif.Spec
open GrmVerif Ref Fix

mutual
/-- rule `r` derives the empty string -/
inductive NullableR (G : Grammar) : Nat → Prop
  | mk (p : Nat) : p < G.nprods → NullableSeq G (G.rhs p) → NullableR G (G.lhs p)
/-- every symbol of the sequence derives the empty string -/
inductive NullableSeq (G : Grammar) : List Sym → Prop
  | nil : NullableSeq G []
  | cons (r : Nat) (rest : List Sym) : NullableR G r → NullableSeq G rest → NullableSeq G (.rule r :: rest)
end

/-- token `t` can begin a sentential form derived from rule `A` (`A ⇒* t β`) -/
inductive FirstP (G : Grammar) : Nat → Nat → Prop
  | tok (p : Nat) (α : List Sym) (t : Nat) (β : List Sym) :
      p < G.nprods → G.rhs p = α ++ .tok t :: β → NullableSeq G α → FirstP G (G.lhs p) t
  | rule (p : Nat) (α : List Sym) (q : Nat) (β : List Sym) (t : Nat) :
      p < G.nprods → G.rhs p = α ++ .rule q :: β → NullableSeq G α → FirstP G q t → FirstP G (G.lhs p) t

/-- `t` can begin a sentential form derived from the symbol sequence `l` -/
def FirstSeqP (G : Grammar) (l : List Sym) (t : Nat) : Prop :=
  ∃ α X β, l = α ++ X :: β ∧ NullableSeq G α ∧ (X = .tok t ∨ ∃ q, X = .rule q ∧ FirstP G q t)

/-- token `t` (or end of input, `G.eof`) can follow rule `A` in a sentential form derived from
`^ $` -/
inductive FollowP (G : Grammar) : Nat → Nat → Prop
  | start : FollowP G G.startRule G.eof
  | first (p : Nat) (α : List Sym) (A : Nat) (β : List Sym) (t : Nat) :
      p < G.nprods → G.rhs p = α ++ .rule A :: β → FirstSeqP G β t → FollowP G A t
  | inherit (p : Nat) (α : List Sym) (A : Nat) (β : List Sym) (t : Nat) :
      p < G.nprods → G.rhs p = α ++ .rule A :: β → NullableSeq G β → FollowP G (G.lhs p) t → FollowP G A t

/-- `B` occurs in a production of `A`, or of a rule reachable from `A` (transitive, not reflexive) -/
inductive Reach (G : Grammar) : Nat → Nat → Prop
  | edge (p : Nat) (B : Nat) : p < G.nprods → Sym.rule B ∈ G.rhs p → Reach G (G.lhs p) B
  | step (A : Nat) (p : Nat) (B : Nat) : Reach G A (G.lhs p) → p < G.nprods → Sym.rule B ∈ G.rhs p → Reach G A B

/-! ### basic facts about the grammar accessors -/

theorem mem_prodsOf {G : Grammar} {r p : Nat} : p ∈ G.prodsOf r ↔ p < G.nprods ∧ G.lhs p = r := by
  simp [Grammar.prodsOf]

theorem prods_getElem {G : Grammar} {p : Nat} (hp : p < G.nprods) :
    G.prods[p]? = some (G.lhs p, G.rhs p) := by
  have : p < G.prods.length := hp
  simp [Grammar.lhs, Grammar.rhs, List.getElem?_eq_getElem this]

theorem wf_lhs {G : Grammar} (h : G.wf = true) {p : Nat} (hp : p < G.nprods) : G.lhs p < G.nrules := by
  simp only [Grammar.wf, Bool.and_eq_true, List.all_eq_true, decide_eq_true_eq] at h
  have hm := List.mem_of_getElem? (prods_getElem hp)
  have := h.1.1 _ hm
  simpa using this.1

theorem wf_sym {G : Grammar} (h : G.wf = true) {p : Nat} (hp : p < G.nprods) {s : Sym} (hs : s ∈ G.rhs p) :
    G.symOk s = true := by
  simp only [Grammar.wf, Bool.and_eq_true, List.all_eq_true, decide_eq_true_eq] at h
  have hm := List.mem_of_getElem? (prods_getElem hp)
  have := h.1.1 _ hm
  simp only [Bool.and_eq_true, decide_eq_true_eq, List.all_eq_true] at this
  exact this.2 s hs

theorem wf_startRule {G : Grammar} (h : G.wf = true) : G.startRule < G.nrules := by
  have : G.startProd < G.nprods := by
    simp only [Grammar.wf, Bool.and_eq_true, decide_eq_true_eq] at h; exact h.1.2
  exact wf_lhs h this

theorem wf_eof {G : Grammar} (h : G.wf = true) : G.eof < G.ntoks := by
  simp only [Grammar.wf, Bool.and_eq_true, decide_eq_true_eq] at h; exact h.2

theorem mem_pairs {n m : Nat} {x : Nat × Nat} : x ∈ pairs n m ↔ x.1 < n ∧ x.2 < m := by
  obtain ⟨a, b⟩ := x
  simp only [pairs, List.mem_flatMap, List.mem_range, List.mem_map, Prod.mk.injEq]
  constructor
  · rintro ⟨r, hr, t, ht, rfl, rfl⟩; exact ⟨hr, ht⟩
  · rintro ⟨h1, h2⟩; exact ⟨a, h1, b, h2, rfl, rfl⟩

/-! ### nullable -/

theorem seqNullable_sound {G : Grammar} {N : Nat → Bool} (hN : ∀ r, N r = true → NullableR G r) :
    ∀ l : List Sym, seqNullable N l = true → NullableSeq G l := by
  intro l
  induction l with
  | nil => intro _; exact .nil
  | cons s rest ih =>
    intro h
    simp only [seqNullable, List.all_cons, Bool.and_eq_true] at h
    cases s with
    | tok t => simp [symNullable] at h
    | rule q => exact .cons q rest (hN q (by simpa [symNullable] using h.1)) (ih (by simpa [seqNullable] using h.2))

mutual
theorem nullableR_complete {G : Grammar} {N : Nat → Bool}
    (hc : ∀ p, p < G.nprods → seqNullable N (G.rhs p) = true → N (G.lhs p) = true) :
    ∀ {r : Nat}, NullableR G r → N r = true
  | _, .mk p hp hseq => hc p hp (nullableSeq_complete hc hseq)
theorem nullableSeq_complete {G : Grammar} {N : Nat → Bool}
    (hc : ∀ p, p < G.nprods → seqNullable N (G.rhs p) = true → N (G.lhs p) = true) :
    ∀ {l : List Sym}, NullableSeq G l → seqNullable N l = true
  | _, .nil => by simp [seqNullable]
  | _, .cons r rest hr hrest => by
    have h1 := nullableR_complete hc hr
    have h2 := nullableSeq_complete hc hrest
    simp only [seqNullable] at h2 ⊢
    simp [symNullable, h1, h2]
end

theorem nullables_exact (G : Grammar) (hwf : G.wf = true) (N : List Nat) (h : nullables G = some N) :
    ∀ r, r ∈ N ↔ NullableR G r := by
  intro r
  constructor
  · intro hr
    refine lfp_sound (List.range G.nrules) (nullableDerive G) (NullableR G) ?_ _ [] N (by simp) h r hr
    intro S hS x _ hd
    simp only [nullableDerive, List.any_eq_true] at hd
    obtain ⟨p, hp, hseq⟩ := hd
    obtain ⟨hp1, hp2⟩ := mem_prodsOf.mp hp
    rw [← hp2]
    exact .mk p hp1 (seqNullable_sound (fun r hr => hS r (by simpa using hr)) _ hseq)
  · intro hr
    have hcl := lfp_closed (List.range G.nrules) (nullableDerive G) _ [] N h
    have : (fun y => N.contains y) r = true := by
      apply nullableR_complete (N := fun y => N.contains y) _ hr
      intro p hp hseq
      have := hcl (G.lhs p) (by simpa using wf_lhs hwf hp) (by
        simp only [nullableDerive, List.any_eq_true]
        exact ⟨p, mem_prodsOf.mpr ⟨hp, rfl⟩, hseq⟩)
      simpa using this
    simpa using this

end GrmVerif.Spec
