import GrmVerif.Model.PagerImpl
import GrmVerif.Lemmas.CloseImpl
/-!
Specification of Pager's weak-compatibility test, of the merge and of `goto` on item sets seen as sets
of facts (`HasItem`, `HasLa`), and the lemmas relating the models of `Model/PagerImpl.lean` to them.
-/
namespace GrmVerif.PagerImpl
open GrmVerif CloseImpl

/-! ### declarative side -/

/-- the contexts of item `ka` of `a` and item `kb` of `b` share a token -/
def CtxInter (a : List Item) (ka : Nat × Nat) (b : List Item) (kb : Nat × Nat) : Prop :=
  ∃ t, HasLa a ka.1 ka.2 t ∧ HasLa b kb.1 kb.2 t

/-- Pager's condition on one pair of core items -/
def PairP (self other : List Item) (ki kj : Nat × Nat) : Prop :=
  (¬ CtxInter self ki other kj ∧ ¬ CtxInter self kj other ki) ∨ CtxInter self ki self kj ∨ CtxInter other ki other kj

/-- the two item sets have the same core items -/
def SameCores (self other : List Item) : Prop := ∀ p d, HasItem self p d ↔ HasItem other p d

/-- **Pager's weak compatibility** (p. 255 of the paper), declaratively: same cores, and for every pair
`i ≠ j` of core items: the contexts (self i, other j) and (self j, other i) are both disjoint, or
self i ∩ self j ≠ ∅, or other i ∩ other j ≠ ∅ -/
def WeaklyCompatibleSpec (self other : List Item) : Prop :=
  SameCores self other ∧
  ∀ ki kj : Nat × Nat, HasItem self ki.1 ki.2 → HasItem self kj.1 kj.2 → ki ≠ kj → PairP self other ki kj

theorem ctxInter_symm {a b : List Item} {ka kb : Nat × Nat} : CtxInter a ka b kb ↔ CtxInter b kb a ka := by
  constructor <;> (rintro ⟨t, h1, h2⟩; exact ⟨t, h2, h1⟩)

theorem pairP_symm {self other : List Item} {ki kj : Nat × Nat} : PairP self other ki kj ↔ PairP self other kj ki := by
  unfold PairP
  rw [@ctxInter_symm self self ki kj, @ctxInter_symm other other ki kj]
  constructor <;> (rintro (⟨h1, h2⟩ | h | h); exact Or.inl ⟨h2, h1⟩; exact Or.inr (Or.inl h); exact Or.inr (Or.inr h))

theorem pairP_swap {self other : List Item} {ki kj : Nat × Nat} : PairP self other ki kj ↔ PairP other self ki kj := by
  unfold PairP
  rw [@ctxInter_symm self other ki kj, @ctxInter_symm self other kj ki]
  constructor <;> (rintro (⟨h1, h2⟩ | h | h); exact Or.inl ⟨h2, h1⟩; exact Or.inr (Or.inr h); exact Or.inr (Or.inl h))

theorem weaklyCompatibleSpec_symm {self other : List Item} :
    WeaklyCompatibleSpec self other ↔ WeaklyCompatibleSpec other self := by
  constructor
  · rintro ⟨h1, h2⟩
    exact ⟨fun p d => (h1 p d).symm, fun ki kj hi hj hne =>
      pairP_swap.mp (h2 ki kj ((h1 _ _).mpr hi) ((h1 _ _).mpr hj) hne)⟩
  · rintro ⟨h1, h2⟩
    exact ⟨fun p d => (h1 p d).symm, fun ki kj hi hj hne =>
      pairP_swap.mp (h2 ki kj ((h1 _ _).mpr hi) ((h1 _ _).mpr hj) hne)⟩

/-! ### counting -/

theorem nodup_subset_length_le {α : Type} [DecidableEq α] : ∀ (A B : List α), A.Nodup → (∀ x ∈ A, x ∈ B) →
    A.length ≤ B.length := by
  intro A
  induction A with
  | nil => intro B _ _; simp
  | cons a A ih =>
    intro B hnd hsub
    obtain ⟨ha, hnd'⟩ := List.nodup_cons.mp hnd
    have haB : a ∈ B := hsub a (List.mem_cons_self ..)
    have h1 := ih (B.erase a) hnd' (fun x hx => by
      have hne : x ≠ a := fun e => ha (e ▸ hx)
      exact (List.mem_erase_of_ne hne).mpr (hsub x (List.mem_cons_of_mem _ hx)))
    rw [List.length_erase_of_mem haB] at h1
    have : 0 < B.length := List.length_pos_of_mem haB
    simp only [List.length_cons]
    omega

theorem subset_of_length_le {α : Type} [DecidableEq α] (A B : List α) (hnd : A.Nodup) (hsub : ∀ x ∈ A, x ∈ B)
    (hlen : B.length ≤ A.length) : ∀ x ∈ B, x ∈ A := by
  intro b hb
  apply Classical.byContradiction
  intro hnb
  have h1 := nodup_subset_length_le A (B.erase b) hnd (fun x hx => by
    have hne : x ≠ b := fun e => hnb (e ▸ hx)
    exact (List.mem_erase_of_ne hne).mpr (hsub x hx))
  rw [List.length_erase_of_mem hb] at h1
  have : 0 < B.length := List.length_pos_of_mem hb
  omega

theorem mem_keysOf {is : List Item} {k : Nat × Nat} : k ∈ keysOf is ↔ HasItem is k.1 k.2 := by
  simp only [keysOf, List.mem_map, HasItem]
  constructor
  · rintro ⟨i, hi, rfl⟩; exact ⟨i, hi, rfl, rfl⟩
  · rintro ⟨i, hi, h1, h2⟩; exact ⟨i, hi, Prod.ext h1 h2⟩

theorem hasKey_iff {is : List Item} {k : Nat × Nat} : hasKey is k = true ↔ HasItem is k.1 k.2 := by
  simp only [hasKey, List.any_eq_true, isKey_iff, HasItem]

theorem length_keysOf (is : List Item) : (keysOf is).length = is.length := by simp [keysOf]

/-- for hash maps: same number of entries and every key of `self` in `other` ⇔ same keys -/
theorem sameCores_iff {self other : List Item} (hs : KeysNodup self) (ho : KeysNodup other) :
    (self.length = other.length ∧ ∀ p d, HasItem self p d → HasItem other p d) ↔ SameCores self other := by
  constructor
  · rintro ⟨hlen, hsub⟩ p d
    refine ⟨hsub p d, fun h => ?_⟩
    have := subset_of_length_le (keysOf self) (keysOf other) hs
      (fun k hk => mem_keysOf.mpr (hsub _ _ (mem_keysOf.mp hk))) (by rw [length_keysOf, length_keysOf]; omega)
      (p, d) (mem_keysOf.mpr h)
    exact mem_keysOf.mp this
  · intro h
    refine ⟨?_, fun p d => (h p d).mp⟩
    have hp : (keysOf self).Perm (keysOf other) :=
      (List.perm_ext_iff_of_nodup hs ho).mpr (fun k => by rw [mem_keysOf, mem_keysOf]; exact h _ _)
    have := hp.length_eq
    rwa [length_keysOf, length_keysOf] at this

/-! ### the pair test -/

theorem vobIntersect_iff {a b : Ctx} : vobIntersect a b = true ↔ ∃ t, t ∈ a ∧ t ∈ b := by
  simp [vobIntersect, List.any_eq_true]

theorem inter_spec {a b : List Item} (ha : KeysNodup a) (hb : KeysNodup b) {ka kb : Nat × Nat}
    (hka : HasItem a ka.1 ka.2) (hkb : HasItem b kb.1 kb.2) :
    ∃ c, inter a b ka kb = some c ∧ (c = true ↔ CtxInter a ka b kb) := by
  obtain ⟨x, hx, hxm⟩ := lookup_spec ha hka
  obtain ⟨y, hy, hym⟩ := lookup_spec hb hkb
  refine ⟨vobIntersect x y, by simp [inter, hx, hy], ?_⟩
  rw [vobIntersect_iff]
  constructor
  · rintro ⟨t, h1, h2⟩; exact ⟨t, (hxm t).mp h1, (hym t).mp h2⟩
  · rintro ⟨t, h1, h2⟩; exact ⟨t, (hxm t).mpr h1, (hym t).mpr h2⟩

theorem pairOk_spec {self other : List Item} (hs : KeysNodup self) (ho : KeysNodup other) {ki kj : Nat × Nat}
    (hsi : HasItem self ki.1 ki.2) (hsj : HasItem self kj.1 kj.2)
    (hoi : HasItem other ki.1 ki.2) (hoj : HasItem other kj.1 kj.2) :
    ∃ c, pairOk self other ki kj = some c ∧ (c = true ↔ PairP self other ki kj) := by
  obtain ⟨c1, e1, p1⟩ := inter_spec hs ho hsi hoj
  obtain ⟨c2, e2, p2⟩ := inter_spec hs ho hsj hoi
  obtain ⟨c3, e3, p3⟩ := inter_spec hs hs hsi hsj
  obtain ⟨c4, e4, p4⟩ := inter_spec ho ho hoi hoj
  unfold PairP
  rw [← p1, ← p2, ← p3, ← p4]
  simp only [pairOk, cond1, cond23, e1, e2, e3, e4, Option.bind_some]
  cases c1 <;> cases c2 <;> cases c3 <;> cases c4 <;> simp

theorem innerLoop_spec {self other : List Item} (hs : KeysNodup self) (ho : KeysNodup other) {ki : Nat × Nat}
    (hsi : HasItem self ki.1 ki.2) (hoi : HasItem other ki.1 ki.2) (rest : List (Nat × Nat))
    (hrs : ∀ k ∈ rest, HasItem self k.1 k.2) (hro : ∀ k ∈ rest, HasItem other k.1 k.2) :
    ∃ c, innerLoop self other ki rest = some c ∧ (c = true ↔ ∀ kj ∈ rest, PairP self other ki kj) := by
  induction rest with
  | nil => exact ⟨true, rfl, by simp⟩
  | cons kj rest ih =>
    obtain ⟨c, hc, hp⟩ := pairOk_spec hs ho hsi (hrs kj (List.mem_cons_self ..)) hoi (hro kj (List.mem_cons_self ..))
    obtain ⟨c', hc', hp'⟩ := ih (fun k hk => hrs k (List.mem_cons_of_mem _ hk)) (fun k hk => hro k (List.mem_cons_of_mem _ hk))
    simp only [innerLoop, hc, Option.bind_some]
    cases c with
    | true =>
      refine ⟨c', by simpa using hc', ?_⟩
      rw [hp']
      constructor
      · intro h k hk
        rcases List.mem_cons.mp hk with rfl | hk
        · exact hp.mp rfl
        · exact h k hk
      · intro h k hk; exact h k (List.mem_cons_of_mem _ hk)
    | false =>
      refine ⟨false, by simp, ?_⟩
      constructor
      · intro h; cases h
      · intro h
        have := hp.mpr (h kj (List.mem_cons_self ..))
        cases this

theorem outerLoop_spec {self other : List Item} (hs : KeysNodup self) (ho : KeysNodup other) (keys : List (Nat × Nat))
    (hks : ∀ k ∈ keys, HasItem self k.1 k.2) (hko : ∀ k ∈ keys, HasItem other k.1 k.2) :
    ∃ c, outerLoop self other keys = some c ∧ (c = true ↔ keys.Pairwise (PairP self other)) := by
  induction keys with
  | nil => exact ⟨true, rfl, by simp⟩
  | cons ki rest ih =>
    obtain ⟨c, hc, hp⟩ := innerLoop_spec hs ho (hks ki (List.mem_cons_self ..)) (hko ki (List.mem_cons_self ..)) rest
      (fun k hk => hks k (List.mem_cons_of_mem _ hk)) (fun k hk => hko k (List.mem_cons_of_mem _ hk))
    obtain ⟨c', hc', hp'⟩ := ih (fun k hk => hks k (List.mem_cons_of_mem _ hk)) (fun k hk => hko k (List.mem_cons_of_mem _ hk))
    simp only [outerLoop, hc, Option.bind_some, List.pairwise_cons]
    cases c with
    | true =>
      refine ⟨c', by simpa using hc', ?_⟩
      rw [hp']
      exact ⟨fun h => ⟨hp.mp rfl, h⟩, fun h => h.2⟩
    | false =>
      refine ⟨false, by simp, ?_⟩
      constructor
      · intro h; cases h
      · intro h
        have := hp.mpr h.1
        cases this

/-- for a symmetric relation and a duplicate-free list: all ordered pairs ⇔ all pairs of distinct members -/
theorem pairwise_iff_of_symm {α : Type} (R : α → α → Prop) (hsym : ∀ a b, R a b → R b a) (l : List α) (hnd : l.Nodup) :
    l.Pairwise R ↔ ∀ a ∈ l, ∀ b ∈ l, a ≠ b → R a b := by
  induction l with
  | nil => simp
  | cons x rest ih =>
    obtain ⟨hx, hnd'⟩ := List.nodup_cons.mp hnd
    rw [List.pairwise_cons, ih hnd']
    constructor
    · rintro ⟨h1, h2⟩ a ha b hb hne
      rcases List.mem_cons.mp ha with ha' | ha' <;> rcases List.mem_cons.mp hb with hb' | hb'
      · exact absurd (ha'.trans hb'.symm) hne
      · rw [ha']; exact h1 b hb'
      · rw [hb']; exact hsym _ _ (h1 a ha')
      · exact h2 a ha' b hb' hne
    · intro h
      refine ⟨fun b hb => h x (List.mem_cons_self ..) b (List.mem_cons_of_mem _ hb) (fun e => hx (e ▸ hb)), ?_⟩
      intro a ha b hb hne
      exact h a (List.mem_cons_of_mem _ ha) b (List.mem_cons_of_mem _ hb) hne

/-- the model of `weakly_compatible` decides the declarative condition, whatever the key order -/
theorem weaklyCompatible_spec {self other : List Item} (hs : KeysNodup self) (ho : KeysNodup other)
    (keys : List (Nat × Nat)) (hknd : keys.Nodup) (hkeys : ∀ k, k ∈ keys ↔ HasItem self k.1 k.2) (hne : self ≠ []) :
    ∃ b, weaklyCompatible self other keys = some b ∧ (b = true ↔ WeaklyCompatibleSpec self other) := by
  unfold weaklyCompatible
  by_cases hlen : self.length = other.length
  case neg =>
    refine ⟨false, by simp [hlen], ?_⟩
    constructor
    · intro h; cases h
    · rintro ⟨h, _⟩; exact absurd ((sameCores_iff hs ho).mpr h).1 hlen
  have hl1 : (self.length != other.length) = false := by simp [hlen]
  rw [hl1]
  simp only [Bool.false_eq_true, if_false]
  by_cases hall : keys.all (hasKey other) = true
  case neg =>
    refine ⟨false, by simp [hall], ?_⟩
    constructor
    · intro h; cases h
    · rintro ⟨h, _⟩
      exfalso; apply hall
      rw [List.all_eq_true]
      intro k hk
      exact hasKey_iff.mpr ((h _ _).mp ((hkeys k).mp hk))
  have hsub : ∀ p d, HasItem self p d → HasItem other p d := by
    intro p d h
    have := (List.all_eq_true.mp hall) (p, d) ((hkeys (p, d)).mpr h)
    exact hasKey_iff.mp this
  have hsame : SameCores self other := (sameCores_iff hs ho).mp ⟨hlen, hsub⟩
  simp only [hall, Bool.not_true, Bool.false_eq_true, if_false]
  by_cases h1 : self.length = 1
  · refine ⟨true, by simp [h1], ?_⟩
    refine ⟨fun _ => ⟨hsame, ?_⟩, fun _ => rfl⟩
    intro ki kj hi hj hne'
    exfalso; apply hne'
    match self, h1 with
    | [x], _ =>
      obtain ⟨i, hi', e1, e2⟩ := hi
      obtain ⟨j, hj', f1, f2⟩ := hj
      rw [List.mem_singleton] at hi' hj'
      subst hi' hj'
      exact Prod.ext (by rw [← e1, ← f1]) (by rw [← e2, ← f2])
  · have h0 : ¬ self.length = 0 := fun h => hne (List.length_eq_zero_iff.mp h)
    have e1 : (self.length == 1) = false := by simp [h1]
    have e0 : (self.length == 0) = false := by simp [h0]
    simp only [e1, e0, Bool.false_eq_true, if_false]
    obtain ⟨c, hc, hp⟩ := outerLoop_spec hs ho keys (fun k hk => (hkeys k).mp hk)
      (fun k hk => hsub _ _ ((hkeys k).mp hk))
    refine ⟨c, hc, ?_⟩
    rw [hp, pairwise_iff_of_symm _ (fun a b h => pairP_symm.mp h) keys hknd]
    constructor
    · intro h
      exact ⟨hsame, fun ki kj hi hj hne' => h ki ((hkeys ki).mpr hi) kj ((hkeys kj).mpr hj) hne'⟩
    · rintro ⟨_, h⟩ a ha b hb hne'
      exact h a b ((hkeys a).mp ha) ((hkeys b).mp hb) hne'

/-! ### `weakly_merge` -/

theorem weaklyMerge_spec (self other : List Item) (hs : KeysNodup self) (ho : KeysNodup other)
    (hsub : ∀ p d, HasItem self p d → HasItem other p d) :
    ∃ R ch, weaklyMerge self other = some (R, ch) ∧ keysOf R = keysOf self ∧
      (∀ p d t, HasLa R p d t ↔ HasLa self p d t ∨ (HasItem self p d ∧ HasLa other p d t)) ∧
      (ch = true ↔ ∃ p d t, HasItem self p d ∧ HasLa other p d t ∧ ¬ HasLa self p d t) := by
  induction self with
  | nil =>
    refine ⟨[], false, rfl, rfl, ?_, ?_⟩
    · intro p d t; simp [HasLa, HasItem]
    · simp [HasItem]
  | cons i rest ih =>
    obtain ⟨hni, hs'⟩ := keysNodup_cons.mp hs
    obtain ⟨o, ho1, hom⟩ := lookup_spec ho (hsub i.p i.dot ⟨i, List.mem_cons_self .., rfl, rfl⟩)
    obtain ⟨R', ch', e, hk, hla, hch⟩ := ih hs' (fun p d h => hsub p d (hasItem_cons.mpr (Or.inr h)))
    refine ⟨⟨i.p, i.dot, (vobOr i.la o).1⟩ :: R', (vobOr i.la o).2 || ch', ?_, ?_, ?_, ?_⟩
    · simp [weaklyMerge, ho1, e]
    · simp only [keysOf, List.map_cons] at hk ⊢; rw [hk]
    · intro p d t
      rw [hasLa_cons, hla p d t, hasLa_cons, hasItem_cons]
      simp only [mem_vobOr, hom]
      constructor
      · rintro (⟨e1, e2, h | h⟩ | h | ⟨h1, h2⟩)
        · exact Or.inl (Or.inl ⟨e1, e2, h⟩)
        · exact Or.inr ⟨Or.inl ⟨e1, e2⟩, by rw [← e1, ← e2]; exact h⟩
        · exact Or.inl (Or.inr h)
        · exact Or.inr ⟨Or.inr h1, h2⟩
      · rintro ((⟨e1, e2, h⟩ | h) | ⟨⟨e1, e2⟩ | h1, h2⟩)
        · exact Or.inl ⟨e1, e2, Or.inl h⟩
        · exact Or.inr (Or.inl h)
        · exact Or.inl ⟨e1, e2, Or.inr (by rw [e1, e2]; exact h2)⟩
        · exact Or.inr (Or.inr ⟨h1, h2⟩)
    · rw [Bool.or_eq_true, hch]
      constructor
      · rintro (h | ⟨p, d, t, h1, h2, h3⟩)
        · obtain ⟨t, ht, hnt⟩ := vobOr_changed h
          refine ⟨i.p, i.dot, t, hasItem_cons.mpr (Or.inl ⟨rfl, rfl⟩), (hom t).mp ht, ?_⟩
          rw [hasLa_cons]
          rintro (⟨_, _, h⟩ | h)
          · exact hnt h
          · exact hni (hasLa_hasItem h)
        · refine ⟨p, d, t, hasItem_cons.mpr (Or.inr h1), h2, ?_⟩
          rw [hasLa_cons]
          rintro (⟨e1, e2, _⟩ | h)
          · exact hni (by rw [e1, e2]; exact h1)
          · exact h3 h
      · rintro ⟨p, d, t, h1, h2, h3⟩
        rw [hasLa_cons] at h3
        rcases hasItem_cons.mp h1 with ⟨e1, e2⟩ | h1
        · left
          cases hc : (vobOr i.la o).2 with
          | true => rfl
          | false =>
            exfalso
            have := (vobOr_unchanged hc).2 t ((hom t).mpr (by rw [e1, e2]; exact h2))
            exact h3 (Or.inl ⟨e1, e2, this⟩)
        · right
          exact ⟨p, d, t, h1, h2, fun h => h3 (Or.inr h)⟩

/-! ### `goto` -/

theorem gotoStep_spec (G : Grammar) (sym : Sym) (acc : List Item) (i : Item) (hp : i.p < G.nprods)
    (hd : i.dot ≤ (G.rhs i.p).length) :
    ∃ acc', gotoStep G sym acc i = some acc' ∧
      (∀ p d, HasItem acc' p d ↔ HasItem acc p d ∨ (p = i.p ∧ d = i.dot + 1 ∧ (G.rhs i.p)[i.dot]? = some sym)) ∧
      (∀ p d t, HasLa acc' p d t ↔
        HasLa acc p d t ∨ (p = i.p ∧ d = i.dot + 1 ∧ t ∈ i.la ∧ (G.rhs i.p)[i.dot]? = some sym)) ∧
      (KeysNodup acc → KeysNodup acc') := by
  unfold gotoStep
  rw [if_pos hp]
  by_cases hlen : i.dot = (G.rhs i.p).length
  · rw [if_pos hlen]
    have hn : (G.rhs i.p)[i.dot]? = none := by rw [hlen]; simp
    refine ⟨acc, rfl, ?_, ?_, id⟩
    · intro p d; rw [hn]; simp
    · intro p d t; rw [hn]; simp
  · rw [if_neg hlen]
    have hlt : i.dot < (G.rhs i.p).length := by omega
    have hsome : (G.rhs i.p)[i.dot]? = some ((G.rhs i.p)[i.dot]) := List.getElem?_eq_getElem hlt
    rw [hsome]
    simp only [gotoSym]
    by_cases hx : (G.rhs i.p)[i.dot] = sym
    · rw [if_pos hx]
      refine ⟨_, rfl, ?_, ?_, add_nodup acc _ _ _⟩
      · intro p d; rw [add_hasItem]; simp [hx]
      · intro p d t; rw [add_hasLa]; simp [hx]
    · rw [if_neg hx]
      refine ⟨acc, rfl, ?_, ?_, id⟩
      · intro p d; simp [hx]
      · intro p d t; simp [hx]

theorem gotoLoop_spec (G : Grammar) (sym : Sym) (l : List Item)
    (hok : ∀ i ∈ l, i.p < G.nprods ∧ i.dot ≤ (G.rhs i.p).length) :
    ∀ acc, ∃ R, gotoLoop G sym l acc = some R ∧
      (∀ p d, HasItem R p d ↔ HasItem acc p d ∨ ∃ d0, d = d0 + 1 ∧ HasItem l p d0 ∧ (G.rhs p)[d0]? = some sym) ∧
      (∀ p d t, HasLa R p d t ↔ HasLa acc p d t ∨ ∃ d0, d = d0 + 1 ∧ HasLa l p d0 t ∧ (G.rhs p)[d0]? = some sym) ∧
      (KeysNodup acc → KeysNodup R) := by
  induction l with
  | nil =>
    intro acc
    refine ⟨acc, rfl, ?_, ?_, id⟩
    · intro p d; simp [HasItem]
    · intro p d t; simp [HasLa]
  | cons i rest ih =>
    intro acc
    obtain ⟨hp, hd⟩ := hok i (List.mem_cons_self ..)
    obtain ⟨acc', e1, a1, a2, a3⟩ := gotoStep_spec G sym acc i hp hd
    obtain ⟨R, e2, b1, b2, b3⟩ := ih (fun x hx => hok x (List.mem_cons_of_mem _ hx)) acc'
    refine ⟨R, by simp [gotoLoop, e1, e2], ?_, ?_, fun h => b3 (a3 h)⟩
    · intro p d
      rw [b1, a1]
      constructor
      · rintro ((h | ⟨rfl, rfl, h⟩) | ⟨d0, rfl, h1, h2⟩)
        · exact Or.inl h
        · exact Or.inr ⟨i.dot, rfl, hasItem_cons.mpr (Or.inl ⟨rfl, rfl⟩), h⟩
        · exact Or.inr ⟨d0, rfl, hasItem_cons.mpr (Or.inr h1), h2⟩
      · rintro (h | ⟨d0, rfl, h1, h2⟩)
        · exact Or.inl (Or.inl h)
        · rcases hasItem_cons.mp h1 with ⟨e1, e2⟩ | h1
          · subst e1 e2; exact Or.inl (Or.inr ⟨rfl, rfl, h2⟩)
          · exact Or.inr ⟨d0, rfl, h1, h2⟩
    · intro p d t
      rw [b2, a2]
      constructor
      · rintro ((h | ⟨rfl, rfl, ht, h⟩) | ⟨d0, rfl, h1, h2⟩)
        · exact Or.inl h
        · exact Or.inr ⟨i.dot, rfl, hasLa_cons.mpr (Or.inl ⟨rfl, rfl, ht⟩), h⟩
        · exact Or.inr ⟨d0, rfl, hasLa_cons.mpr (Or.inr h1), h2⟩
      · rintro (h | ⟨d0, rfl, h1, h2⟩)
        · exact Or.inl (Or.inl h)
        · rcases hasLa_cons.mp h1 with ⟨e1, e2, ht⟩ | h1
          · subst e1 e2; exact Or.inl (Or.inr ⟨rfl, rfl, ht, h2⟩)
          · exact Or.inr ⟨d0, rfl, h1, h2⟩

end GrmVerif.PagerImpl
