import GrmVerif.Lemmas.SearchImpl3
/-!
Buckets (`IndexMap`) and the `todo` vector of the modelled search: inserting a neighbour — into an
empty slot or merged into a compatible entry — keeps the node invariant of every entry and loses no
sequence: every plain sequence represented before is represented afterwards, and so is every sequence
of the new node (`upsert_spec`, `pushAll_spec`, `upsertAll_spec`).
-/
namespace GrmVerif.SearchImpl
open GrmVerif LR Rec RankImpl

variable {E : Env} {start : Pos}

/-- an entry of bucket `k`: the value costs `k`, the key is compatible with the value (the merge
closure changes neither the last repair nor the number of trailing shifts), the value satisfies the
node invariant -/
def EntryOK (E : Env) (start : Pos) (k : Nat) (e : PNode × PNode) : Prop :=
  e.2.cf = k ∧ keyOf e.1 = keyOf e.2 ∧ NodeInv E start e.2

def BucketOK (E : Env) (start : Pos) (k : Nat) (b : Bucket) : Prop := ∀ e ∈ b, EntryOK E start k e

/-- the plain sequence `p` is represented in the bucket -/
def InBucket (b : Bucket) (p : List Repair) : Prop := ∃ e ∈ b, p ∈ seqs e.2.repairs

theorem reach_congr {m m' : PNode} {s : List Repair} (hcf : m.cf = m'.cf) (hk : keyOf m = keyOf m')
    (h : Reach E start s m) : Reach E start s m' := by
  simp only [keyOf, Prod.mk.injEq] at hk
  obtain ⟨k1, k2, k3, k4⟩ := hk
  obtain ⟨n, h1, h2, h3, h4, h5, h6⟩ := h
  refine ⟨n, by rw [← hcf]; exact h1, by rw [← k1]; exact h2, by rw [← k4]; exact h3,
    by rw [← k3]; exact h4, ?_, h6⟩
  unfold StackRel at h5 ⊢
  rw [← k2]; exact h5

/-- a node whose chain is the bare `Terminator` costs nothing -/
theorem cf_of_term {m : PNode} (hm : NodeInv E start m) (ht : isTerm m.repairs = true) : m.cf = 0 := by
  cases hr : m.repairs with
  | term =>
    obtain ⟨n, h1, _⟩ := hm.1 [] (by rw [hr]; simp [seqs])
    exact (IPath.det h1 (IPath.nil _)).2
  | rep p r => rw [hr] at ht; cases ht
  | merge p r v => rw [hr] at ht; cases ht

theorem ipath_snoc_insert_cost (hcost : ∀ t, 1 ≤ E.cost t) {a n : Node} {s : List Repair} {t k : Nat}
    (h : IPath E.G E.A E.w E.cost E.N a (s ++ [.insert t]) n k) : 1 ≤ k := by
  obtain ⟨m, k₁, k₂, _, h2, e⟩ := h.split
  cases h2 with
  | cons hst _ =>
    cases hst with
    | insert _ _ _ _ _ _ _ => have := hcost t; omega

/-- only the bare `Terminator` is compatible with the bare `Terminator` within one bucket -/
theorem term_of_compat (H : Hyps E start) {v nbr : PNode} (hv : NodeInv E start v)
    (hn : NodeInv E start nbr) (hcf : v.cf = nbr.cf) (hk : keyOf v = keyOf nbr)
    (ht : isTerm nbr.repairs = true) : isTerm v.repairs = true := by
  have h0 := cf_of_term hn ht
  simp only [keyOf, Prod.mk.injEq] at hk
  obtain ⟨_, _, k3, k4⟩ := hk
  cases hr : nbr.repairs with
  | rep p r => rw [hr] at ht; cases ht
  | merge p r v => rw [hr] at ht; cases ht
  | term =>
    rw [hr] at k3 k4
    simp only [lastRepair, isDelete, numShifts] at k3 k4
    have key : ∀ (p : RTree) (r : Repair), (∀ s ∈ seqs p, Reach E start (s ++ [r]) v) →
        numShifts (.rep p r) = 0 → isDelete (some r) = false → False := by
      intro p r hreach hsh hdel
      cases r with
      | shift => simp [numShifts] at hsh
      | delete => simp [isDelete] at hdel
      | insert t =>
        obtain ⟨s, hs⟩ := List.exists_mem_of_ne_nil _ (seqs_ne_nil p)
        obtain ⟨n, h1, _⟩ := hreach s hs
        have := ipath_snoc_insert_cost H.cost_pos h1
        omega
    cases hvr : v.repairs with
    | term => rfl
    | rep p r =>
      exfalso
      rw [hvr] at k3 k4
      refine key p r ?_ k4 k3
      intro s hs
      exact hv.1 _ (by rw [hvr]; exact mem_seqs_rep.mpr ⟨s, hs, rfl⟩)
    | merge p r alts =>
      exfalso
      rw [hvr] at k3 k4
      refine key p r ?_ (by cases r <;> simp [numShifts] at k4 ⊢) k3
      intro s hs
      exact hv.1 _ (by rw [hvr]; exact mem_seqs_merge.mpr (Or.inl ⟨s, hs, rfl⟩))

/-- **Inserting a node into a bucket** (`entry` + insert or merge): all entries stay well-formed,
nothing that was represented is lost, and everything the new node stands for is represented -/
theorem upsert_spec (H : Hyps E start) {k : Nat} {nbr : PNode} (hn : NodeInv E start nbr)
    (hcf : nbr.cf = k) : ∀ {b b' : Bucket}, BucketOK E start k b → upsert nbr b = some b' →
    BucketOK E start k b' ∧ (∀ p, InBucket b p → InBucket b' p) ∧
      (∀ p ∈ seqs nbr.repairs, InBucket b' p) := by
  intro b
  induction b with
  | nil =>
    intro b' _ h
    simp only [upsert, Option.some.injEq] at h
    subst h
    refine ⟨?_, ?_, ?_⟩
    · intro e he
      simp only [List.mem_singleton] at he
      subst he
      exact ⟨hcf, rfl, hn⟩
    · rintro p ⟨e, he, _⟩; cases he
    · intro p hp; exact ⟨(nbr, nbr), by simp, hp⟩
  | cons e rest ih =>
    intro b' hb h
    obtain ⟨k0, v⟩ := e
    simp only [upsert] at h
    have he : EntryOK E start k (k0, v) := hb _ List.mem_cons_self
    have hrest : BucketOK E start k rest := fun e he => hb e (List.mem_cons_of_mem _ he)
    by_cases hc : compat k0 nbr = true
    · rw [if_pos hc] at h
      cases hm : mergeRepairs v.repairs nbr.repairs with
      | none => rw [hm] at h; cases h
      | some r =>
        rw [hm] at h
        simp only [Option.map_some, Option.some.injEq] at h
        subst h
        obtain ⟨m1, m2, m3, m4, _⟩ := mergeRepairs_spec hm
        obtain ⟨e1, e2, e3⟩ := he
        simp only at e1 e2 e3
        have hkv : keyOf k0 = keyOf nbr := (compat_iff _ _).mp hc
        have hkey : keyOf ({ v with repairs := r } : PNode) = keyOf v := by
          simp only [keyOf, m1, m2]
        have hv' : EntryOK E start k (k0, { v with repairs := r }) := by
          refine ⟨e1, by rw [hkey]; exact e2, ?_, ?_⟩
          · intro s hs
            simp only at hs
            rcases (m3 s).mp hs with hs | hs
            · exact reach_congr (m := v) rfl hkey.symm (e3.1 s hs)
            · exact reach_congr (m := nbr) (by simp only; rw [hcf, e1]) (by rw [hkey, ← e2, hkv]) (hn.1 s hs)
          · simp only
            exact m4 e3.2 hn.2 (term_of_compat H e3 hn (by rw [e1, hcf]) (by rw [← e2, hkv]))
        refine ⟨?_, ?_, ?_⟩
        · intro e he
          rcases List.mem_cons.mp he with rfl | he
          · exact hv'
          · exact hrest e he
        · rintro p ⟨e, he, hp⟩
          rcases List.mem_cons.mp he with rfl | he
          · exact ⟨_, List.mem_cons_self, (m3 p).mpr (Or.inl hp)⟩
          · exact ⟨e, List.mem_cons_of_mem _ he, hp⟩
        · intro p hp
          exact ⟨_, List.mem_cons_self, (m3 p).mpr (Or.inr hp)⟩
    · rw [if_neg hc] at h
      cases hu : upsert nbr rest with
      | none => rw [hu] at h; cases h
      | some rest' =>
        rw [hu] at h
        simp only [Option.map_some, Option.some.injEq] at h
        subst h
        obtain ⟨i1, i2, i3⟩ := ih hrest hu
        refine ⟨?_, ?_, ?_⟩
        · intro e he'
          rcases List.mem_cons.mp he' with rfl | he'
          · exact he
          · exact i1 e he'
        · rintro p ⟨e, he', hp⟩
          rcases List.mem_cons.mp he' with rfl | he'
          · exact ⟨_, List.mem_cons_self, hp⟩
          · obtain ⟨e', h1, h2⟩ := i2 p ⟨e, he', hp⟩
            exact ⟨e', List.mem_cons_of_mem _ h1, h2⟩
        · intro p hp
          obtain ⟨e', h1, h2⟩ := i3 p hp
          exact ⟨e', List.mem_cons_of_mem _ h1, h2⟩

/-! ### the `todo` vector -/

/-- bucket `k` of the vector (empty beyond its end) -/
def bk (todo : Array Bucket) (k : Nat) : Bucket := (todo[k]?).getD []

def TodoOK (E : Env) (start : Pos) (todo : Array Bucket) : Prop := ∀ k, BucketOK E start k (bk todo k)

def InTodo (todo : Array Bucket) (p : List Repair) : Prop := ∃ k, InBucket (bk todo k) p

theorem pushNbr_spec {todo todo' : Array Bucket} {off : Nat} {nbr : PNode}
    (h : pushNbr todo off nbr = some todo') :
    ∃ b', upsert nbr (bk todo off) = some b' ∧ bk todo' off = b' ∧
      (∀ k, k ≠ off → bk todo' k = bk todo k) ∧ todo.size ≤ todo'.size := by
  unfold pushNbr at h
  simp only at h
  have hget : (todo ++ Array.replicate (off + 1) ([] : Bucket))[off]? = some (bk todo off) := by
    rw [Array.getElem?_append]
    by_cases hlt : off < todo.size
    · rw [if_pos hlt]
      simp only [bk]
      rw [Array.getElem?_eq_getElem hlt]
      rfl
    · rw [if_neg hlt, Array.getElem?_replicate, if_pos (by omega)]
      simp only [bk]
      rw [Array.getElem?_eq_none (by omega)]
      rfl
  rw [hget] at h
  simp only at h
  cases hu : upsert nbr (bk todo off) with
  | none => rw [hu] at h; cases h
  | some b' =>
    rw [hu] at h
    simp only [Option.map_some, Option.some.injEq] at h
    subst h
    refine ⟨b', rfl, ?_, ?_, ?_⟩
    · simp only [bk]
      rw [Array.getElem?_setIfInBounds, if_pos rfl, if_pos (by simp; omega)]
      rfl
    · intro k hk
      simp only [bk]
      rw [Array.getElem?_setIfInBounds, if_neg (fun e => hk e.symm), Array.getElem?_append]
      by_cases hlt : k < todo.size
      · rw [if_pos hlt]
      · rw [if_neg hlt, Array.getElem?_replicate, Array.getElem?_eq_none (by omega)]
        split <;> rfl
    · simp only [Array.size_setIfInBounds, Array.size_append, Array.size_replicate]
      omega

/-- **Pushing the neighbours of a node onto `todo`** -/
theorem pushAll_spec (H : Hyps E start) : ∀ {nbrs : List (Nat × PNode)} {todo todo' : Array Bucket},
    (∀ x ∈ nbrs, x.1 = x.2.cf ∧ NodeInv E start x.2) → TodoOK E start todo →
    pushAll todo nbrs = some todo' →
    TodoOK E start todo' ∧ (∀ p, InTodo todo p → InTodo todo' p) ∧
      (∀ x ∈ nbrs, ∀ p ∈ seqs x.2.repairs, InTodo todo' p) ∧
      (∀ k, (∀ x ∈ nbrs, x.1 ≠ k) → bk todo' k = bk todo k) ∧ todo.size ≤ todo'.size := by
  intro nbrs
  induction nbrs with
  | nil =>
    intro todo todo' _ hok h
    simp only [pushAll, Option.some.injEq] at h
    subst h
    exact ⟨hok, fun p hp => hp, fun x hx => (by cases hx), fun k _ => rfl, Nat.le_refl _⟩
  | cons x rest ih =>
    intro todo todo' hx hok h
    obtain ⟨off, nbr⟩ := x
    simp only [pushAll] at h
    cases hp : pushNbr todo off nbr with
    | none => rw [hp] at h; cases h
    | some todo1 =>
      rw [hp] at h
      simp only at h
      obtain ⟨b', hu, hb', hother, hsz⟩ := pushNbr_spec hp
      obtain ⟨hx1, hx2⟩ := hx (off, nbr) List.mem_cons_self
      simp only at hx1 hx2
      obtain ⟨u1, u2, u3⟩ := upsert_spec H hx2 hx1.symm (hok off) hu
      have hok1 : TodoOK E start todo1 := by
        intro k
        by_cases hk : k = off
        · subst hk; rw [hb']; exact u1
        · rw [hother k hk]; exact hok k
      have hin1 : ∀ p, InTodo todo p → InTodo todo1 p := by
        rintro p ⟨k, hk⟩
        by_cases hko : k = off
        · subst hko; exact ⟨k, by rw [hb']; exact u2 p hk⟩
        · exact ⟨k, by rw [hother k hko]; exact hk⟩
      obtain ⟨i1, i2, i3, i4, i5⟩ := ih (fun y hy => hx y (List.mem_cons_of_mem _ hy)) hok1 h
      refine ⟨i1, fun p hp => i2 p (hin1 p hp), ?_, ?_, Nat.le_trans hsz i5⟩
      · intro y hy p hp
        rcases List.mem_cons.mp hy with rfl | hy
        · exact i2 p ⟨off, by rw [hb']; exact u3 p hp⟩
        · exact i3 y hy p hp
      · intro k hk
        rw [i4 k (fun y hy => hk y (List.mem_cons_of_mem _ hy))]
        exact hother k (fun e => hk (off, nbr) List.mem_cons_self e.symm)

/-- **Inserting the cost-`c` neighbours of a node into the last bucket** (second loop) -/
theorem upsertAll_spec (H : Hyps E start) {c : Nat} : ∀ {nbrs : List (Nat × PNode)} {b b' : Bucket},
    (∀ x ∈ nbrs, x.1 = x.2.cf ∧ NodeInv E start x.2) → BucketOK E start c b →
    upsertAll c b nbrs = some b' →
    BucketOK E start c b' ∧ (∀ p, InBucket b p → InBucket b' p) ∧
      (∀ x ∈ nbrs, x.1 = c → ∀ p ∈ seqs x.2.repairs, InBucket b' p) := by
  intro nbrs
  induction nbrs with
  | nil =>
    intro b b' _ hok h
    simp only [upsertAll, Option.some.injEq] at h
    subst h
    exact ⟨hok, fun p hp => hp, fun x hx => (by cases hx)⟩
  | cons x rest ih =>
    intro b b' hx hok h
    obtain ⟨off, nbr⟩ := x
    simp only [upsertAll] at h
    by_cases hc : (off == c) = true
    · rw [if_pos hc] at h
      simp only [beq_iff_eq] at hc
      cases hu : upsert nbr b with
      | none => rw [hu] at h; cases h
      | some b1 =>
        rw [hu] at h
        simp only at h
        obtain ⟨hx1, hx2⟩ := hx (off, nbr) List.mem_cons_self
        simp only at hx1 hx2
        obtain ⟨u1, u2, u3⟩ := upsert_spec H hx2 (by rw [← hx1, hc]) hok hu
        obtain ⟨i1, i2, i3⟩ := ih (fun y hy => hx y (List.mem_cons_of_mem _ hy)) u1 h
        refine ⟨i1, fun p hp => i2 p (u2 p hp), ?_⟩
        intro y hy hyc p hp
        rcases List.mem_cons.mp hy with rfl | hy
        · exact i2 p (u3 p hp)
        · exact i3 y hy hyc p hp
    · rw [if_neg hc] at h
      obtain ⟨i1, i2, i3⟩ := ih (fun y hy => hx y (List.mem_cons_of_mem _ hy)) hok h
      refine ⟨i1, i2, ?_⟩
      intro y hy hyc p hp
      rcases List.mem_cons.mp hy with rfl | hy
      · simp only at hyc; subst hyc; simp at hc
      · exact i3 y hy hyc p hp

/-! ### `pop` -/

theorem popLast_none {b : Bucket} (h : popLast b = none) : b = [] := by
  unfold popLast at h
  cases hl : b.getLast? with
  | none => exact List.getLast?_eq_none_iff.mp hl
  | some e => rw [hl] at h; cases h

theorem popLast_some {b b' : Bucket} {n : PNode} (h : popLast b = some (b', n)) :
    ∃ k, b = b' ++ [(k, n)] := by
  unfold popLast at h
  cases hl : b.getLast? with
  | none => rw [hl] at h; cases h
  | some e =>
    rw [hl] at h
    simp only [Option.some.injEq, Prod.mk.injEq] at h
    obtain ⟨rfl, rfl⟩ := h
    refine ⟨e.1, ?_⟩
    obtain ⟨ys, rfl⟩ := List.getLast?_eq_some_iff.mp hl
    simp

end GrmVerif.SearchImpl
