import GrmVerif.Lemmas.LexSpecLoop
/-!
What the line specification (`specParse`) says about accepted and rejected specifications: the rule
lines and declaration lines of a text (`ruleLinesOf`, `declLinesOf`, `rulesSectionOf`: pure
classifications of lines, no state), rules in source order, declared states, duplicates.
-/
namespace GrmVerif.LexSpecParse
open GrmVerif.LexUnescape GrmVerif.LexParse

/-! ### The layout of a specification -/

/-- the declaration lines of a text (from their first non-blank character): the lines before the
first `%%` line that are neither blank nor comments -/
def declLinesOf (comments : Bool) : List Line → List Line
  | [] => []
  | (off, l) :: ls =>
    let t := l.dropWhile isPWS
    let o := off + byteLen (l.takeWhile isPWS)
    if t.isEmpty then declLinesOf comments ls
    else if comments && ['/', '/'].isPrefixOf t then declLinesOf comments ls
    else if ['%', '%'].isPrefixOf t then []
    else (o, t) :: declLinesOf comments ls

/-- the lines of the rules section: what follows `%%` and spaces/tabs on the first `%%` line, then
the remaining lines; `none` if there is no `%%` line -/
def rulesSectionOf (comments : Bool) : List Line → Option (List Line)
  | [] => none
  | (off, l) :: ls =>
    let t := l.dropWhile isPWS
    let o := off + byteLen (l.takeWhile isPWS)
    if t.isEmpty then rulesSectionOf comments ls
    else if comments && ['/', '/'].isPrefixOf t then rulesSectionOf comments ls
    else if ['%', '%'].isPrefixOf t then
      let a := t.drop 2
      some ((o + 2 + byteLen (a.takeWhile isSpaceSep), a.dropWhile isSpaceSep) :: ls)
    else rulesSectionOf comments ls

/-- the rule lines of a rules section: the lines up to the next `%%` line that are not empty, not
comments, and do not start with a blank -/
def ruleLinesOf (comments : Bool) : List Line → List Line
  | [] => []
  | (off, l) :: ls =>
    match l with
    | [] => ruleLinesOf comments ls
    | c :: _ =>
      if comments && ['/', '/'].isPrefixOf l then ruleLinesOf comments ls
      else if isPWS c then ruleLinesOf comments ls
      else if ['%', '%'].isPrefixOf l then []
      else (off, l) :: ruleLinesOf comments ls

/-- look the names of a parsed rule line up in the start states `sts`: the rule with token id `k`
of the line at offset `off` (`none` if a name is unknown) -/
def resolveRule (sts : List StartState) (off k : Nat) (rl : RuleLine) : Option Rule :=
  (resolveTarget sts rl.target).bind fun tgt =>
    (resolveAll sts rl.states).map fun ids =>
      ⟨k, rl.name, (off + rl.spanStart, off + rl.spanEnd), rl.re, ids, tgt⟩

/-- the rule a rule line denotes: parsed by the line-level specification, names looked up -/
def ruleOfLine (env : Env) (sts : List StartState) (ln : Line) (k : Nat) : Option Rule :=
  match ruleLineSpec env.cfg isPWS isSpaceSep ln.2 with
  | .ok rl => resolveRule sts ln.1 k rl
  | .error _ => none

/-- offset, within a rule line, of what follows its last space or tab (the `<` of a target state,
else the name) -/
def nameOffOf (raw : List Char) : Nat :=
  match lastSplit isSpaceSep (dropTrailing isPWS raw) with
  | some (pre, s, _) => byteLen pre + s.utf8Size
  | none => 0

/-- what the specification's step does with a line that the line-level specification accepts: an
unknown target state first; then a name that is already taken is one more occurrence of
`DuplicateName`; otherwise the restriction's names are looked up, the regex compiled, the rule pushed -/
def stepOfLine (env : Env) (off : Nat) (raw : List Char) (rl : RuleLine) (st : PState) :
    Except (List Err) PState :=
  match resolveTarget st.states rl.target with
  | none => .error (st.errs ++ [mkErr .unknownStartState (off + nameOffOf raw)])
  | some tgt =>
    match rl.name with
    | some n =>
      match findRule st.rules n with
      | some r =>
        .ok { st with errs := addDup st.errs .duplicateName r.span (off + rl.spanStart, off + rl.spanEnd) }
      | none =>
        pushParsed env off (some n) (off + rl.spanStart, off + rl.spanEnd) tgt st (.ok (rl.states, rl.re))
    | none =>
      pushParsed env off none (off + rl.spanStart, off + rl.spanEnd) tgt st (.ok (rl.states, rl.re))

theorem ruleStepSpec_of_line (env : Env) (off : Nat) (raw : List Char) (rl : RuleLine) (st : PState)
    (h : ruleLineSpec env.cfg isPWS isSpaceSep raw = .ok rl) :
    ruleStepSpec env off raw st = stepOfLine env off raw rl st := by
  unfold ruleLineSpec at h
  unfold ruleStepSpec stepOfLine nameOffOf
  cases hl : lastSplit isSpaceSep (dropTrailing isPWS raw) with
  | none => simp [hl] at h
  | some t =>
    obtain ⟨pre, s, post⟩ := t
    simp only [hl] at h ⊢
    cases hts : targetSpec post with
    | none => simp [hts] at h
    | some t2 =>
      obtain ⟨target, tlen, orig⟩ := t2
      simp only [hts] at h ⊢
      by_cases hskip : isSkipName orig = true
      · simp only [hskip, if_true] at h ⊢
        cases hre : reSpec env.cfg isPWS (trimEndUnescaped isPWS pre) with
        | error k => simp [hre] at h
        | ok v =>
          obtain ⟨x, y⟩ := v
          simp only [hre, Except.ok.injEq] at h
          subst h
          simp only [pushRuleSpec, hre, Nat.add_assoc]
          cases resolveTarget st.states target <;> rfl
      · simp only [hskip, Bool.false_eq_true, if_false] at h ⊢
        by_cases hq : quotedOk orig = true
        · simp only [hq, Bool.not_true, Bool.false_eq_true, if_false] at h ⊢
          cases hre : reSpec env.cfg isPWS (trimEndUnescaped isPWS pre) with
          | error k => simp [hre] at h
          | ok v =>
            obtain ⟨x, y⟩ := v
            simp only [hre, Except.ok.injEq] at h
            subst h
            simp only [pushRuleSpec, hre, Nat.add_assoc]
            cases resolveTarget st.states target with
            | none => rfl
            | some tgt =>
              simp only
              cases findRule st.rules ((orig.drop 1).dropLast) <;> rfl
        · simp [hq] at h

/-! ### Errors are only ever added -/

theorem addDup_ne_nil (es : List Err) (k : EKind) (o d : Nat × Nat) : addDup es k o d ≠ [] := by
  cases es with
  | nil => simp [addDup]
  | cons e es => simp only [addDup]; split <;> simp

/-- a step that returns is either one more duplicate occurrence or a line the line-level
specification accepts -/
theorem ruleStepSpec_ok_cases (env : Env) (off : Nat) (raw : List Char) (st st' : PState)
    (h : ruleStepSpec env off raw st = .ok st') :
    (∃ o d, st' = { st with errs := addDup st.errs .duplicateName o d }) ∨
    (∃ rl, ruleLineSpec env.cfg isPWS isSpaceSep raw = .ok rl) := by
  unfold ruleStepSpec at h
  unfold ruleLineSpec
  cases hl : lastSplit isSpaceSep (dropTrailing isPWS raw) with
  | none => simp [hl] at h
  | some t =>
    obtain ⟨pre, s, post⟩ := t
    simp only [hl] at h ⊢
    cases hts : targetSpec post with
    | none => simp [hts] at h
    | some t2 =>
      obtain ⟨target, tlen, orig⟩ := t2
      simp only [hts] at h ⊢
      cases hrt : resolveTarget st.states target with
      | none => simp [hrt] at h
      | some tgt =>
        simp only [hrt] at h
        by_cases hskip : isSkipName orig = true
        · simp only [hskip, if_true] at h ⊢
          right
          cases hre : reSpec env.cfg isPWS (trimEndUnescaped isPWS pre) with
          | error k => simp [pushRuleSpec, pushParsed, hre] at h
          | ok v => obtain ⟨x, y⟩ := v; exact ⟨_, rfl⟩
        · simp only [hskip, Bool.false_eq_true, if_false] at h ⊢
          by_cases hq : quotedOk orig = true
          · simp only [hq, Bool.not_true, Bool.false_eq_true, if_false] at h ⊢
            cases hf : findRule st.rules ((orig.drop 1).dropLast) with
            | some r =>
              left
              simp only [hf, Except.ok.injEq] at h
              exact ⟨_, _, h.symm⟩
            | none =>
              right
              simp only [hf] at h
              cases hre : reSpec env.cfg isPWS (trimEndUnescaped isPWS pre) with
              | error k => simp [pushRuleSpec, pushParsed, hre] at h
              | ok v => obtain ⟨x, y⟩ := v; exact ⟨_, rfl⟩
          · simp [hq] at h

/-- a step that leaves no error behind pushed the rule its line denotes, numbered with the number
of rules so far -/
theorem ruleStepSpec_clean (env : Env) (off : Nat) (raw : List Char) (st st' : PState)
    (h : ruleStepSpec env off raw st = .ok st') (he : st'.errs = []) :
    st.errs = [] ∧ st'.states = st.states ∧
      ∃ r, ruleOfLine env st.states (off, raw) st.rules.length = some r ∧ st'.rules = st.rules ++ [r] := by
  rcases ruleStepSpec_ok_cases env off raw st st' h with ⟨o, d, hd⟩ | ⟨rl, hrl⟩
  · rw [hd] at he; exact absurd he (addDup_ne_nil _ _ _ _)
  · rw [ruleStepSpec_of_line env off raw rl st hrl] at h
    unfold stepOfLine at h
    unfold ruleOfLine resolveRule
    simp only [hrl]
    cases hrt : resolveTarget st.states rl.target with
    | none => simp [hrt] at h
    | some tgt =>
      simp only [hrt, Option.bind_some] at h ⊢
      have key : ∀ name, pushParsed env off name (off + rl.spanStart, off + rl.spanEnd) tgt st
            (.ok (rl.states, rl.re)) = .ok st' →
          st.errs = [] ∧ st'.states = st.states ∧
            ∃ r, (resolveAll st.states rl.states).map (fun ids =>
                (⟨st.rules.length, name, (off + rl.spanStart, off + rl.spanEnd), rl.re, ids, tgt⟩ : Rule))
                  = some r ∧ st'.rules = st.rules ++ [r] := by
        intro name hp
        unfold pushParsed at hp
        simp only at hp
        cases hra : resolveAll st.states rl.states with
        | none => simp [hra] at hp
        | some ids =>
          simp only [hra, Option.map_some] at hp ⊢
          by_cases hc : env.compiles rl.re = true
          · simp only [hc, if_true, Except.ok.injEq] at hp
            subst hp
            exact ⟨he, rfl, _, rfl, rfl⟩
          · simp [hc] at hp
      cases hn : rl.name with
      | none =>
        simp only [hn] at h ⊢
        exact key none h
      | some n =>
        simp only [hn] at h
        cases hf : findRule st.rules n with
        | some r =>
          simp only [hf, Except.ok.injEq] at h
          rw [← h] at he; exact absurd he (addDup_ne_nil _ _ _ _)
        | none =>
          simp only [hf] at h
          rw [← hn]; rw [← hn] at h
          exact key rl.name h

/-! ### Accepted specifications -/

theorem ruleSpec_clean (env : Env) : ∀ (ls : List Line) (st st2 : PState),
    ruleSpec env ls st = .ok st2 → st2.errs = [] →
    st.errs = [] ∧ st2.states = st.states ∧ ∃ new, st2.rules = st.rules ++ new ∧
      ((ruleLinesOf env.comments ls).zipIdx st.rules.length).map (fun p => ruleOfLine env st.states p.1 p.2)
        = new.map some := by
  intro ls
  induction ls with
  | nil =>
    intro st st2 h he
    simp only [ruleSpec, Except.ok.injEq] at h
    subst h
    exact ⟨he, rfl, [], by simp, by simp [ruleLinesOf]⟩
  | cons ln ls ih =>
    intro st st2 h he
    obtain ⟨off, l⟩ := ln
    cases l with
    | nil =>
      rw [ruleSpec] at h
      rw [ruleLinesOf]
      exact ih st st2 h he
    | cons c l' =>
      rw [ruleSpec] at h
      rw [ruleLinesOf]
      skip
      by_cases hcm : (env.comments && ['/', '/'].isPrefixOf (c :: l')) = true
      · simp only [hcm, if_true] at h ⊢
        exact ih st st2 h he
      · simp only [hcm, Bool.false_eq_true, if_false] at h ⊢
        by_cases hw : isPWS c = true
        · simp only [hw, if_true] at h ⊢
          obtain ⟨h1, _⟩ := ih _ st2 h he
          simp at h1
        · simp only [hw, Bool.false_eq_true, if_false] at h ⊢
          by_cases hp : ['%', '%'].isPrefixOf (c :: l') = true
          · simp only [hp, if_true] at h ⊢
            split at h
            · simp only [Except.ok.injEq] at h
              subst h
              exact ⟨he, rfl, [], by simp, by simp⟩
            · simp at h
          · simp only [hp, Bool.false_eq_true, if_false] at h ⊢
            cases hstep : ruleStepSpec env off (c :: l') st with
            | error es => simp [hstep] at h
            | ok st' =>
              simp only [hstep] at h
              obtain ⟨he', hs2, new, hnew, hmap⟩ := ih st' st2 h he
              obtain ⟨he0, hs1, r, hr, hrules⟩ := ruleStepSpec_clean env off (c :: l') st st' hstep he'
              refine ⟨he0, by rw [hs2, hs1], r :: new, by rw [hnew, hrules]; simp, ?_⟩
              simp only [List.zipIdx_cons, List.map_cons, hr, List.cons.injEq, true_and]
              rw [hrules, hs1] at hmap
              simpa using hmap

/-- the names a declaration line declares: name, span in the text, exclusive? -/
def declaredOn (ln : Line) : List (List Char × (Nat × Nat) × Bool) :=
  match parseDeclLine isPWS ln.2 with
  | .ok (excl, names) => names.map (fun t => (t.1, (ln.1 + t.2.1, ln.1 + t.2.2), excl))
  | .error _ => []

/-- start states numbered consecutively from `k` -/
def numberFrom (k : Nat) (l : List (List Char × (Nat × Nat) × Bool)) : List StartState :=
  (l.zipIdx k).map (fun p => ⟨p.2, p.1.1, p.1.2.1, p.1.2.2⟩)

theorem numberFrom_append (k : Nat) (a b : List (List Char × (Nat × Nat) × Bool)) :
    numberFrom k (a ++ b) = numberFrom k a ++ numberFrom (k + a.length) b := by
  simp [numberFrom, List.zipIdx_append]

theorem numberFrom_length (k : Nat) (a : List (List Char × (Nat × Nat) × Bool)) :
    (numberFrom k a).length = a.length := by simp [numberFrom]

theorem declareStates_clean (excl : Bool) (base : Nat) : ∀ (names : List (List Char × Nat × Nat))
    (st st' : PState), declareStates excl base names st = .ok st' → st'.errs = [] →
    st.errs = [] ∧ st'.rules = st.rules ∧ firstInvalid names = none ∧
      st'.states = st.states ++ numberFrom st.states.length
        (names.map (fun t => (t.1, (base + t.2.1, base + t.2.2), excl))) := by
  intro names
  induction names with
  | nil =>
    intro st st' h he
    simp only [declareStates, Except.ok.injEq] at h
    subst h
    exact ⟨he, rfl, rfl, by simp [numberFrom]⟩
  | cons nm rest ih =>
    intro st st' h he
    obtain ⟨n, a, b⟩ := nm
    rw [declareStates] at h
    by_cases hv : validStateName n = true
    · simp only [hv, Bool.not_true, Bool.false_eq_true, if_false] at h
      cases hf : findState st.states n with
      | some s =>
        simp only [hf] at h
        obtain ⟨h1, _⟩ := ih _ st' h he
        exact absurd h1 (addDup_ne_nil _ _ _ _)
      | none =>
        simp only [hf] at h
        obtain ⟨h1, h2, h3, h4⟩ := ih _ st' h he
        refine ⟨h1, h2, by simp [firstInvalid, hv, h3], ?_⟩
        rw [h4]
        simp only [List.map_cons, List.length_append, List.length_cons, List.length_nil, Nat.zero_add,
          List.append_assoc]
        congr 1
    · simp [hv] at h


theorem declLineStep_clean (o : Nat) (t : List Char) (st st' : PState) (e : Nat)
    (h : declLineStep o t st = .ok (e, st')) (he : st'.errs = []) :
    st.errs = [] ∧ st'.rules = st.rules ∧ (∃ d, parseDeclLine isPWS t = .ok d) ∧
      st'.states = st.states ++ numberFrom st.states.length (declaredOn (o, t)) := by
  unfold declLineStep at h
  cases hparts : declLineParts isPWS t with
  | none => simp [hparts] at h
  | some pn =>
    obtain ⟨excl, names⟩ := pn
    simp only [hparts] at h
    cases hds : declareStates excl o names st with
    | error es => simp [hds] at h
    | ok st2 =>
      simp only [hds, Except.ok.injEq, Prod.mk.injEq] at h
      obtain ⟨_, rfl⟩ := h
      obtain ⟨h1, h2, h3, h4⟩ := declareStates_clean excl o names st st2 hds he
      have hpd : parseDeclLine isPWS t = .ok (excl, names) := by
        rw [parseDeclLine_parts, hparts]; simp only [h3]
      refine ⟨h1, h2, ⟨_, hpd⟩, ?_⟩
      rw [h4]; simp only [declaredOn, hpd]

theorem declSpec_clean (env : Env) (len : Nat) : ∀ (ls : List Line) (st st1 : PState) (sec : List Line),
    declSpec env len ls st = .ok (sec, st1) → st1.errs = [] →
    st.errs = [] ∧ st1.rules = st.rules ∧ rulesSectionOf env.comments ls = some sec ∧
      (∀ ln ∈ declLinesOf env.comments ls, ∃ d, parseDeclLine isPWS ln.2 = .ok d) ∧
      st1.states = st.states ++ numberFrom st.states.length ((declLinesOf env.comments ls).flatMap declaredOn) := by
  intro ls
  induction ls with
  | nil => intro st st1 sec h; simp [declSpec] at h
  | cons ln ls ih =>
    intro st st1 sec h he
    obtain ⟨off, l⟩ := ln
    rw [declSpec] at h
    rw [rulesSectionOf, declLinesOf]
    simp only at h ⊢
    by_cases h1 : (l.dropWhile isPWS).isEmpty = true
    · simp only [h1, if_true] at h ⊢
      exact ih st st1 sec h he
    · simp only [h1, Bool.false_eq_true, if_false] at h ⊢
      by_cases hcm : (env.comments && ['/', '/'].isPrefixOf (l.dropWhile isPWS)) = true
      · simp only [hcm, if_true] at h ⊢
        exact ih st st1 sec h he
      · simp only [hcm, Bool.false_eq_true, if_false] at h ⊢
        by_cases hp : ['%', '%'].isPrefixOf (l.dropWhile isPWS) = true
        · simp only [hp, if_true, Except.ok.injEq, Prod.mk.injEq] at h ⊢
          obtain ⟨h2, h3⟩ := h
          subst h3
          exact ⟨he, rfl, by rw [h2], by simp, by simp [numberFrom]⟩
        · simp only [hp, Bool.false_eq_true, if_false] at h ⊢
          cases hstep : declLineStep (off + byteLen (l.takeWhile isPWS)) (l.dropWhile isPWS) st with
          | error es => simp [hstep] at h
          | ok v =>
            obtain ⟨e, st'⟩ := v
            simp only [hstep] at h
            obtain ⟨he', hr, hsec, hall, hst⟩ := ih st' st1 sec h he
            obtain ⟨he0, hr0, hd0, hst0⟩ := declLineStep_clean _ _ st st' e hstep he'
            refine ⟨he0, by rw [hr, hr0], hsec, ?_, ?_⟩
            · intro ln hln
              rcases List.mem_cons.mp hln with rfl | hln
              · exact hd0
              · exact hall ln hln
            · rw [hst, hst0, List.flatMap_cons, numberFrom_append, List.length_append, numberFrom_length,
                List.append_assoc]


/-- **an accepted specification**: there is a `%%` line; every declaration line is accepted by the
line-level model; the start states are INITIAL and the declared names in order, numbered from 0; the
rules are the rule lines in order, each the line-level reading of its line with names looked up in
these states, numbered from 0 -/
theorem specParse_ok (env : Env) (pre body : List Char) (sts : List StartState) (rules : List Rule)
    (h : specParse env pre body = .ok (sts, rules)) :
    ∃ sec, rulesSectionOf env.comments (splitLinesAt body (byteLen pre)) = some sec ∧
      (∀ ln ∈ declLinesOf env.comments (splitLinesAt body (byteLen pre)),
        ∃ d, parseDeclLine isPWS ln.2 = .ok d) ∧
      sts = numberFrom 0 ((initialName, (0, 0), false) ::
        (declLinesOf env.comments (splitLinesAt body (byteLen pre))).flatMap declaredOn) ∧
      ((ruleLinesOf env.comments sec).zipIdx).map (fun p => ruleOfLine env sts p.1 p.2)
        = rules.map some := by
  unfold specParse specRules at h
  cases hd : declSpec env (byteLen pre + byteLen body) (splitLinesAt body (byteLen pre)) initState with
  | error es => simp [hd] at h
  | ok v =>
    obtain ⟨sec, st1⟩ := v
    simp only [hd, specEnd] at h
    cases hr : ruleSpec env sec st1 with
    | error es => simp [hr] at h
    | ok st2 =>
      simp only [hr, finish] at h
      by_cases he : st2.errs.isEmpty = true
      · simp only [he, if_true, Except.ok.injEq, Prod.mk.injEq] at h
        obtain ⟨hs, hrl⟩ := h
        have he2 : st2.errs = [] := by simpa using he
        obtain ⟨he1, hs2, new, hnew, hmap⟩ := ruleSpec_clean env sec st1 st2 hr he2
        obtain ⟨_, hr1, hsec, hall, hst1⟩ := declSpec_clean env _ _ initState st1 sec hd he1
        refine ⟨sec, hsec, hall, ?_, ?_⟩
        · rw [← hs, hs2, hst1]
          simp only [initState, List.length_cons, List.length_nil, Nat.zero_add]
          rw [show ((initialName, ((0 : Nat), (0 : Nat)), false) ::
              (declLinesOf env.comments (splitLinesAt body (byteLen pre))).flatMap declaredOn)
            = [(initialName, ((0 : Nat), (0 : Nat)), false)] ++
              (declLinesOf env.comments (splitLinesAt body (byteLen pre))).flatMap declaredOn from rfl,
            numberFrom_append]
          rfl
        · rw [hr1] at hnew hmap
          simp only [initState, List.length_nil, List.nil_append] at hnew hmap
          rw [← hrl, hnew, ← hs, hs2]
          exact hmap
      · simp [he] at h

end GrmVerif.LexSpecParse
