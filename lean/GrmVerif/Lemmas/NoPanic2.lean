import GrmVerif.Lemmas.NoPanic1
import GrmVerif.Lemmas.CpctRun
/-!
Panic-freedom of the POST-PROCESSING of the modelled `CPCTPlus::recover` (`recoverTail`: `collect_repairs`,
`rank_cnds`, `simplify_repairs`, `apply_repairs` of the first reported sequence), hence of the whole
`recoverImpl` / `cpctOutcome`, and of every call of the recoverer in a run of the recovering driver.

* `rpr_seqs[0]` exists: the group of a returned node is non-empty (`Found.nonempty`);
* `apply_repairs` of `rpr_seqs[0]` replays a sequence that applies with plain LR semantics
  (`Found.resOK`, `ipath_applySeq`), where it agrees with `applySeq` (`applyRepairs_of_applySeq`) and
  leaves a path stack inside the input (`C07.applySeq_isPath`);
* `lr_upto` from there feeds real lexemes to a path stack: no crash (`C07.feed_path`), and the
  `|w| + 2` iterations the model gives its loop are enough (`lrUptoO_cases`);
* `rnk_rprs[0]` exists: `rank_cnds` keeps a group, `simplify_repairs` of a non-empty list is non-empty
  (`HashSetLike`); the final `apply_repairs` replays a stripped minimum-cost sequence, which applies
  (`search_stripped_valid`).

What is left besides a proper answer is `.fuelOut`, and for the post-processing it is characterised
exactly: some run of reductions under one lookahead, on a stack that is a path of the automaton, needs
more than the model's constant `FUEL` steps (`FeedStuck`).
-/
namespace GrmVerif.Cpct
open GrmVerif LR Rec RankImpl SearchImpl Cert Term

/-- some run of reductions under one lookahead (a token of the grammar), started on a stack that is a
path of the automaton, is not over after the model's `FUEL` (= 2000) steps -/
def FeedStuck (G : Grammar) (A : Automaton) : Prop :=
  ∃ la stack, la < G.ntoks ∧ IsPath A stack ∧ feed G A la FUEL stack = .fuelOut

section
variable {G : Grammar} {A : Automaton} {w : List Nat}

/-- **`lr_upto` on a path stack**: with more iterations than lexemes left it answers, unless a `feed`
runs out of the model's `FUEL`; it never panics -/
theorem lrUptoO_cases (P : Props G A) (hw : InputOk G w) (endIdx : Nat) :
    ∀ (fuel : Nat) (c : Pos), IsPath A c.stack → w.length - c.pos < fuel →
      (∃ c', lrUptoO G A w endIdx fuel c = .ok c') ∨
      (lrUptoO G A w endIdx fuel c = .fuelOut ∧ FeedStuck G A) := by
  intro fuel
  induction fuel with
  | zero => intro c _ h; omega
  | succ f ih =>
    intro c hp hf
    simp only [lrUptoO]
    split
    · exact Or.inl ⟨c, rfl⟩
    · have hla : nextTok G w c.pos < G.ntoks := nextTok_lt hw P.wf c.pos
      have hfp := C07.feed_path P _ hla FUEL c.stack hp
      cases hfd : feed G A (nextTok G w c.pos) FUEL c.stack with
      | shifted s =>
        have hlt : c.pos < w.length := C07.shifted_pos_lt P hw hp hfd
        exact ih ⟨s, c.pos + 1⟩ (hfp.2.1 s hfd).1 (by simp only; omega)
      | accept s => exact Or.inl ⟨_, rfl⟩
      | error s => exact Or.inl ⟨_, rfl⟩
      | crash => exact absurd hfd hfp.1
      | fuelOut => exact Or.inr ⟨rfl, _, _, hla, hp, hfd⟩

/-- **what `rank_cnds` does with one sequence that applies**: replaying a sequence that applies with
plain LR semantics from a path stack inside the input and parsing on never panics -/
theorem reachO_cases (P : Props G A) (hw : InputOk G w) {start c' : Pos} {q : List Repair}
    (hpos : start.pos ≤ w.length) (hp : IsPath A start.stack) (hins : C07.InsertsOk G q)
    (happ : applySeq G A w start q = some c') (win la : Nat) :
    (∃ d, reachO G A w win start (attach la q) = .ok d) ∨
    (reachO G A w win start (attach la q) = .fuelOut ∧ FeedStuck G A) := by
  have h1 := (applyRepairs_of_applySeq (G := G) (A := A) (w := w) (attach la q) start c' hpos
    (by rw [erase_map_attach]; exact happ)).1
  have h2 := applyRepairsO_of_some h1
  have hp' : IsPath A c'.stack := C07.applySeq_isPath P hw q start c' hins hp happ
  simp only [reachO, h2]
  rcases lrUptoO_cases P hw (start.pos + win) (w.length + 2) c' hp' (by omega) with ⟨c'', h⟩ | ⟨h, hst⟩
  · rw [h]; exact Or.inl ⟨_, rfl⟩
  · rw [h]; exact Or.inr ⟨rfl, hst⟩

/-- a group `rank_cnds` can handle: it is non-empty and its first sequence applies -/
def GroupOk (G : Grammar) (A : Automaton) (w : List Nat) (start : Pos) (g : List Seq) : Prop :=
  ∃ q rest la c', g = attach la q :: rest ∧ C07.InsertsOk G q ∧ applySeq G A w start q = some c'

theorem scoreCndsO_cases (P : Props G A) (hw : InputOk G w) {start : Pos} (hpos : start.pos ≤ w.length)
    (hp : IsPath A start.stack) (win : Nat) : ∀ gs : List (List Seq), (∀ g ∈ gs, GroupOk G A w start g) →
    (∃ sc, scoreCndsO G A w win start gs = .ok sc) ∨
    (scoreCndsO G A w win start gs = .fuelOut ∧ FeedStuck G A) := by
  intro gs
  induction gs with
  | nil => intro _; exact Or.inl ⟨[], rfl⟩
  | cons g gs ih =>
    intro hall
    obtain ⟨q, rest, la, c', rfl, hins, happ⟩ := hall g List.mem_cons_self
    simp only [scoreCndsO, groupReachO]
    rcases reachO_cases P hw hpos hp hins happ win la with ⟨d, h⟩ | ⟨h, hst⟩
    · rw [h]
      simp only
      rcases ih (fun g hg => hall g (List.mem_cons_of_mem _ hg)) with ⟨sc, h'⟩ | ⟨h', hst⟩
      · rw [h']; exact Or.inl ⟨_, rfl⟩
      · rw [h']; exact Or.inr ⟨rfl, hst⟩
    · rw [h]; exact Or.inr ⟨rfl, hst⟩

theorem rankCndsO_cases (P : Props G A) (hw : InputOk G w) {start : Pos} (hpos : start.pos ≤ w.length)
    (hp : IsPath A start.stack) (win : Nat) (gs : List (List Seq)) (hall : ∀ g ∈ gs, GroupOk G A w start g) :
    (∃ kept, rankCndsO G A w win start gs = .ok kept) ∨
    (rankCndsO G A w win start gs = .fuelOut ∧ FeedStuck G A) := by
  unfold rankCndsO
  rcases scoreCndsO_cases P hw hpos hp win gs hall with ⟨sc, h⟩ | ⟨h, hst⟩
  · rw [h]; exact Or.inl ⟨_, rfl⟩
  · rw [h]; exact Or.inr ⟨rfl, hst⟩

end

section
variable {E : Env} {hs : List Seq → List Seq} {avoid : Nat → Bool} {lexStart : Nat → Nat} {win fuel : Nat}

/-- the group `collect_repairs` makes of a returned node is one `rank_cnds` can handle -/
theorem groupOk_of_found {start : Pos} (H : Hyps E start) {res : List PNode} {k : Nat}
    (hf : Found E start res k) {m : PNode} (hm : m ∈ res) :
    GroupOk E.G E.A E.w start (groupOf start m) := by
  have hro := hf.resOK m hm
  have htr := traverse_of_resOK H hro
  cases hts : traverse m.repairs with
  | nil => exact absurd hts (hf.nonempty m hm)
  | cons q rest =>
    have hq : q ∈ seqs m.repairs := by rw [← htr, hts]; simp
    obtain ⟨n, h1, _⟩ := resOK_isSuccess hro hq
    refine ⟨q, rest.map (attach start.pos), start.pos, n.c, by simp [groupOf, hts],
      ipath_insertsOk h1, ?_⟩
    have := ipath_applySeq h1
    simpa [root] using this

/-- **The post-processing of `recover` never panics** on the nodes a properly ended search returned:
it answers, or the model's constant `FUEL` of `feed` is exhausted by some run of reductions on a path
stack (`FeedStuck`) — which the model reports as `.fuelOut`, not as a panic. -/
theorem recoverTail_cases {start : Pos} (H : Hyps E start) (P : Props E.G E.A) (hw : InputOk E.G E.w)
    (hp : IsPath E.A start.stack) (hhs : HashSetLike hs) {res : List PNode}
    (hd : dijkstra E fuel start = .ok res) :
    (∃ r, recoverTail E hs avoid lexStart win start res = .ok r) ∨
    (recoverTail E hs avoid lexStart win start res = .fuelOut ∧ FeedStuck E.G E.A) := by
  cases res with
  | nil => exact Or.inl ⟨_, rfl⟩
  | cons cnd cnds =>
    obtain ⟨k, hf⟩ := found_of_dijkstra H hd (by simp)
    have hgroups : ∀ g ∈ collectRepairs start.pos (cnd :: cnds), GroupOk E.G E.A E.w start g := by
      intro g hg
      rw [collectRepairs_eq] at hg
      obtain ⟨m, hm, rfl⟩ := List.mem_map.mp hg
      exact groupOk_of_found H hf hm
    simp only [recoverTail]
    rcases rankCndsO_cases P hw H.pos hp win _ hgroups with ⟨kept, hrkO⟩ | ⟨hrkO, hst⟩
    · rw [hrkO]
      simp only
      have hrk := rankCnds_of_O hrkO
      by_cases hke : kept.isEmpty = true
      · rw [if_pos hke]; exact Or.inl ⟨_, rfl⟩
      · rw [if_neg hke]
        have hkne : kept ≠ [] := by intro e; subst e; simp at hke
        cases hsim : simplify hs avoid lexStart kept with
        | nil =>
          exfalso
          obtain ⟨x, hx⟩ := List.exists_mem_of_ne_nil _ hkne
          have : stripTrailing x ∈ simplify hs avoid lexStart kept :=
            (mem_simplify hhs avoid lexStart kept _).mpr ⟨x, hx, rfl⟩
          rw [hsim] at this; cases this
        | cons s0 rest =>
          simp only
          have hs0 : s0 ∈ simplify hs avoid lexStart kept := by rw [hsim]; simp
          obtain ⟨s1, hs1, hs10⟩ := (mem_simplify hhs avoid lexStart kept s0).mp hs0
          obtain ⟨g, hg, hsg⟩ := rankCnds_mem hrk hs1
          rw [collectRepairs_eq] at hg
          obtain ⟨m, hm, rfl⟩ := List.mem_map.mp hg
          obtain ⟨seq, hseq, rfl⟩ := List.mem_map.mp hsg
          have hsr := hf.sound m hm seq hseq
          obtain ⟨_, ⟨c1, hc1⟩, _⟩ := search_stripped_valid hsr
          have he : s0.map PRepair.erase = stripShifts seq := by
            rw [← hs10, map_erase_stripTrailing, erase_map_attach]
          have hap := (applyRepairs_of_applySeq (G := E.G) (A := E.A) (w := E.w) s0 start c1 H.pos
            (by rw [he]; exact hc1)).1
          rw [applyRepairsO_of_some hap]
          exact Or.inl ⟨_, rfl⟩
    · rw [hrkO]; exact Or.inr ⟨rfl, hst⟩

/-- **The model of `CPCTPlus::recover` never panics** at a configuration that satisfies the hypotheses of
the search theorems and whose stack is a path of a certified automaton: it answers, or it runs out of
model fuel — the search's loop fuel / a `feed`'s `FUEL` inside the search (`dijkstra … = .fuelOut`), or a
`feed`'s `FUEL` in the post-processing (`FeedStuck`). -/
theorem recoverImpl_cases {start : Pos} (H : Hyps E start) (P : Props E.G E.A) (hw : InputOk E.G E.w)
    (hp : IsPath E.A start.stack) (hhs : HashSetLike hs) :
    (∃ r, recoverImpl E hs avoid lexStart win fuel start = .ok r) ∨
    (recoverImpl E hs avoid lexStart win fuel start = .fuelOut ∧
      (dijkstra E fuel start = .fuelOut ∨ FeedStuck E.G E.A)) := by
  unfold recoverImpl
  cases hd : dijkstra E fuel start with
  | panic => exact absurd hd (dijkstra_ne_panic H P hw hp fuel)
  | fuelOut => exact Or.inr ⟨rfl, Or.inl rfl⟩
  | ok res =>
    simp only
    rcases recoverTail_cases (avoid := avoid) (lexStart := lexStart) (win := win) H P hw hp hhs hd with
      ⟨r, h⟩ | ⟨h, hst⟩
    · exact Or.inl ⟨r, h⟩
    · exact Or.inr ⟨h, Or.inr hst⟩

theorem recoverImpl_ne_panic {start : Pos} (H : Hyps E start) (P : Props E.G E.A) (hw : InputOk E.G E.w)
    (hp : IsPath E.A start.stack) (hhs : HashSetLike hs) :
    recoverImpl E hs avoid lexStart win fuel start ≠ .panic := by
  rcases recoverImpl_cases (avoid := avoid) (lexStart := lexStart) (win := win) (fuel := fuel) H P hw hp hhs
    with ⟨r, h⟩ | ⟨h, _⟩ <;> (rw [h]; intro e; cases e)

theorem cpctOutcome_ne_panicked {start : Pos} (H : Hyps E start) (P : Props E.G E.A) (hw : InputOk E.G E.w)
    (hp : IsPath E.A start.stack) (hhs : HashSetLike hs) :
    cpctOutcome E hs avoid lexStart win fuel start ≠ .panicked := by
  have := recoverImpl_ne_panic (avoid := avoid) (lexStart := lexStart) (win := win) (fuel := fuel) H P hw hp hhs
  unfold cpctOutcome
  cases hr : recoverImpl E hs avoid lexStart win fuel start with
  | panic => exact absurd hr this
  | fuelOut => intro e; cases e
  | ok x => obtain ⟨c', out⟩ := x; simp only; split <;> (intro e; cases e)

/-- the outcome `outOfBudget` is the model's fuel, and nothing else -/
theorem cpctOutcome_outOfBudget {start : Pos} (H : Hyps E start) (P : Props E.G E.A) (hw : InputOk E.G E.w)
    (hp : IsPath E.A start.stack) (hhs : HashSetLike hs)
    (h : cpctOutcome E hs avoid lexStart win fuel start = .outOfBudget) :
    cpctRecover E hs avoid lexStart win fuel start = none ∧
    (dijkstra E fuel start = .fuelOut ∨ FeedStuck E.G E.A) := by
  unfold cpctOutcome at h
  unfold cpctRecover
  rcases recoverImpl_cases (avoid := avoid) (lexStart := lexStart) (win := win) (fuel := fuel) H P hw hp hhs
    with ⟨r, hr⟩ | ⟨hr, hwhy⟩
  · obtain ⟨c', out⟩ := r
    rw [hr] at h
    simp only at h
    split at h <;> cases h
  · rw [hr]; exact ⟨rfl, hwhy⟩

/-! ### every call of the recoverer in a run -/

/-- every configuration the recovering driver hands to the recoverer is an error configuration whose
stack is a path, when the run starts on a path stack inside the input and the recoverer hands back path
stacks inside the input -/
theorem recCalls_isPath {G : Grammar} {A : Automaton} {w : List Nat} (P : Props G A) (hw : InputOk G w)
    {recover : Recoverer}
    (hback : ∀ c c' rs, errCfg G A w c = true → IsPath A c.stack → recover c = some (c', rs) → rs ≠ [] →
      IsPath A c'.stack ∧ c'.pos ≤ w.length) :
    ∀ (fuel : Nat) (c : Pos), IsPath A c.stack → c.pos ≤ w.length →
      ∀ x ∈ recCalls G A w recover fuel c, errCfg G A w x = true ∧ IsPath A x.stack := by
  intro fuel
  induction fuel with
  | zero => intro c _ _ x hx; simp [recCalls] at hx
  | succ n ih =>
    intro c hp hc x hx
    simp only [recCalls] at hx
    have hfp := C07.feed_path P _ (nextTok_lt hw P.wf c.pos) FUEL c.stack hp
    cases hf : feed G A (nextTok G w c.pos) FUEL c.stack with
    | shifted s =>
      rw [hf] at hx
      exact ih ⟨s, c.pos + 1⟩ (hfp.2.1 s hf).1 (C07.shifted_pos_lt P hw hp hf) x hx
    | accept s => rw [hf] at hx; cases hx
    | crash => rw [hf] at hx; cases hx
    | fuelOut => rw [hf] at hx; cases hx
    | error s =>
      rw [hf] at hx
      have he := errCfg_of_feed_error hf hc
      have hps : IsPath A s := hfp.2.2.1 s hf
      simp only [List.mem_cons] at hx
      rcases hx with rfl | hx
      · exact ⟨he, hps⟩
      · cases hr : recover ⟨s, c.pos⟩ with
        | none => rw [hr] at hx; cases hx
        | some y =>
          obtain ⟨c', rs⟩ := y
          rw [hr] at hx
          simp only [] at hx
          by_cases hemp : rs.isEmpty = true
          · rw [if_pos hemp] at hx; cases hx
          · rw [if_neg hemp] at hx
            obtain ⟨h1, h2⟩ := hback _ c' rs he hps hr (by intro e; subst e; simp at hemp)
            exact ih c' h1 h2 x hx

/-- the modelled recoverer hands back a path stack inside the input -/
theorem cpct_hands_back_path (T : TableOK E) (P : Props E.G E.A) (hw : InputOk E.G E.w)
    (hhs : HashSetLike hs) {c c' : Pos} {rs : List (List Repair)} (he : errCfg E.G E.A E.w c = true)
    (hp : IsPath E.A c.stack) (h : cpctRecover E hs avoid lexStart win fuel c = some (c', rs)) :
    IsPath E.A c'.stack ∧ c'.pos ≤ E.w.length := by
  obtain ⟨⟨s0, rest, hrs, happ⟩, _, _, hall⟩ := cpct_report T hhs he h
  have hpos : c.pos ≤ E.w.length := by
    simp only [errCfg, Bool.and_eq_true, decide_eq_true_eq] at he
    exact he.1
  have hins : C07.InsertsOk E.G s0 := fun t ht => ((hall s0 (by rw [hrs]; simp)).2.1 t ht).1
  exact ⟨C07.applySeq_isPath P hw s0 c c' hins hp happ, applySeq_pos_le s0 c c' hpos happ⟩

/-- **In a run of the modelled recovering parser no call of the recoverer panics**: every configuration
at which the driver consults `cpctRecover` is an error configuration whose stack is a path, and there
the model of `recover` does not panic. -/
theorem cpct_calls_never_panic (T : TableOK E) (P : Props E.G E.A) (hw : InputOk E.G E.w)
    (hhs : HashSetLike hs) (n : Nat) (c0 : Pos) (hp0 : IsPath E.A c0.stack) (hc0 : c0.pos ≤ E.w.length) :
    ∀ x ∈ recCalls E.G E.A E.w (cpctRecover E hs avoid lexStart win fuel) n c0,
      errCfg E.G E.A E.w x = true ∧ IsPath E.A x.stack ∧
      cpctOutcome E hs avoid lexStart win fuel x ≠ .panicked := by
  intro x hx
  obtain ⟨he, hp⟩ := recCalls_isPath P hw
    (fun c c' rs he hp h _ => cpct_hands_back_path (avoid := avoid) (lexStart := lexStart) (win := win)
      (fuel := fuel) T P hw hhs he hp h) n c0 hp0 hc0 x hx
  exact ⟨he, hp, cpctOutcome_ne_panicked (hyps_of_errCfg T he) P hw hp hhs⟩

end

/-! ### the decidable form of "the stack is a path" -/

theorem isPathB_iff (A : Automaton) : ∀ xs : List Nat, isPathB A xs = true ↔ IsPath A xs := by
  intro xs
  induction xs with
  | nil =>
    simp only [isPathB]
    constructor
    · intro h; cases h
    · intro h; obtain ⟨st, rest, e⟩ := isPath_cons h; cases e
  | cons t tl ih =>
    cases tl with
    | nil =>
      simp only [isPathB, beq_iff_eq]
      constructor
      · intro h; subst h; exact IsPath.start A
      · intro h; exact h.single
    | cons s rest =>
      simp only [isPathB, Bool.and_eq_true, adj_iff]
      constructor
      · rintro ⟨⟨X, hX⟩, h⟩
        exact (ih.mp h).push hX
      · intro h
        exact ⟨h.tail.2, ih.mpr h.tail.1⟩

theorem inputOk_of_B {G : Grammar} {w : List Nat} (h : inputOkB G w = true) : InputOk G w := by
  intro t ht
  simp only [inputOkB, List.all_eq_true, Bool.and_eq_true, decide_eq_true_eq, bne_iff_ne, ne_eq] at h
  exact h t ht

/-! ### `repair_to_parse_repair` calls `next_lexeme` inside the input -/

/-- every lexeme a sequence names (the argument of `next_lexeme` in `repair_to_parse_repair`) is a
lexeme of the input -/
def LexemesIn (n : Nat) (s : Seq) : Prop :=
  ∀ r ∈ s, match r with
    | .insert _ => True
    | .delete l => l < n
    | .shift l => l < n

theorem attach_lexemesIn {G : Grammar} {A : Automaton} {w : List Nat} :
    ∀ (q : List Repair) (c c' : Pos), applySeq G A w c q = some c' → LexemesIn w.length (attach c.pos q) := by
  intro q
  induction q with
  | nil => intro c c' _ r hr; cases hr
  | cons r rs ih =>
    intro c c' h
    simp only [applySeq] at h
    cases h1 : applyRepair G A w c r with
    | none => rw [h1] at h; cases h
    | some c1 =>
      rw [h1] at h
      simp only at h
      have ih' := ih c1 c' h
      cases r with
      | insert t =>
        have hpos : c1.pos = c.pos := by
          simp only [applyRepair] at h1
          cases hf : feed G A t FUEL c.stack with
          | shifted s => rw [hf] at h1; injection h1 with h1; rw [← h1]
          | accept s => rw [hf] at h1; cases h1
          | error s => rw [hf] at h1; cases h1
          | crash => rw [hf] at h1; cases h1
          | fuelOut => rw [hf] at h1; cases h1
        intro x hx
        simp only [attach, List.mem_cons] at hx
        rcases hx with rfl | hx
        · trivial
        · rw [← hpos] at hx; exact ih' x hx
      | delete =>
        simp only [applyRepair] at h1
        by_cases hlt : c.pos < w.length
        · rw [if_pos hlt] at h1
          injection h1 with h1
          have hpos : c1.pos = c.pos + 1 := by rw [← h1]
          intro x hx
          simp only [attach, List.mem_cons] at hx
          rcases hx with rfl | hx
          · exact hlt
          · rw [← hpos] at hx; exact ih' x hx
        · rw [if_neg hlt] at h1; cases h1
      | shift =>
        simp only [applyRepair] at h1
        cases hw : w[c.pos]? with
        | none => rw [hw] at h1; cases h1
        | some t =>
          rw [hw] at h1
          simp only at h1
          have hlt : c.pos < w.length := (List.getElem?_eq_some_iff.mp hw).1
          have hpos : c1.pos = c.pos + 1 := by
            cases hf : feed G A t FUEL c.stack with
            | shifted s => rw [hf] at h1; injection h1 with h1; rw [← h1]
            | accept s => rw [hf] at h1; cases h1
            | error s => rw [hf] at h1; cases h1
            | crash => rw [hf] at h1; cases h1
            | fuelOut => rw [hf] at h1; cases h1
          intro x hx
          simp only [attach, List.mem_cons] at hx
          rcases hx with rfl | hx
          · exact hlt
          · rw [← hpos] at hx; exact ih' x hx

/-- every sequence `collect_repairs` makes of the nodes a properly ended search returned names lexemes
of the input only -/
theorem collectRepairs_lexemesIn {E : Env} {start : Pos} (H : Hyps E start) {fuel : Nat} {res : List PNode}
    (hd : dijkstra E fuel start = .ok res) :
    ∀ g ∈ collectRepairs start.pos res, ∀ s ∈ g, LexemesIn E.w.length s := by
  intro g hg s hs
  have hne : res ≠ [] := by
    intro e; subst e; simp [collectRepairs] at hg
  obtain ⟨k, hf⟩ := found_of_dijkstra H hd hne
  rw [collectRepairs_eq] at hg
  obtain ⟨m, hm, rfl⟩ := List.mem_map.mp hg
  obtain ⟨q, hq, rfl⟩ := List.mem_map.mp hs
  have hro := hf.resOK m hm
  rw [traverse_of_resOK H hro] at hq
  obtain ⟨n, h1, _⟩ := resOK_isSuccess hro hq
  have := ipath_applySeq h1
  exact attach_lexemesIn q (root start).c n.c this

end GrmVerif.Cpct
