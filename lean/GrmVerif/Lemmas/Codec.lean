import GrmVerif.Model.Codec
/-! Round-trip laws of the codec combinators of `Model/Codec.lean` (helper lemmas for `Props/C14.lean`). -/
namespace GrmVerif.C14

theorem decLE_encLE (k : Nat) : ∀ (n : Nat) (rest : Bytes), n < 256 ^ k →
    decLE k (encLE k n ++ rest) = some (n, rest) := by
  induction k with
  | zero =>
    intro n rest h
    have : n = 0 := by simpa using h
    subst this
    simp [encLE, decLE]
  | succ k ih =>
    intro n rest h
    have h' : n / 256 < 256 ^ k := by
      apply Nat.div_lt_of_lt_mul
      rw [Nat.pow_succ] at h
      omega
    simp only [encLE, List.cons_append, decLE, ih (n / 256) rest h']
    congr 2
    omega

theorem decVar_encVar (w : Nat) (n : Nat) (rest : Bytes) (hw : w = 2 ∨ w = 4 ∨ w = 8) (h : n < 256 ^ w) :
    decVar w (encVar n ++ rest) = some (n, rest) := by
  unfold encVar
  by_cases h1 : n ≤ 250
  · simp [h1, decVar]
  · simp only [h1, if_false]
    by_cases h2 : n < 65536
    · simp only [h2, if_true, List.cons_append, decVar]
      simp
      exact decLE_encLE 2 n rest (by simpa using h2)
    · simp only [h2, if_false]
      have hw4 : 4 ≤ w := by
        rcases hw with rfl | rfl | rfl
        · exact absurd h (by simpa using h2)
        · omega
        · omega
      by_cases h3 : n < 4294967296
      · simp only [h3, if_true, List.cons_append, decVar]
        simp [hw4]
        exact decLE_encLE 4 n rest (by simpa using h3)
      · simp only [h3, if_false, List.cons_append, decVar]
        have hw8 : w = 8 := by
          rcases hw with rfl | rfl | rfl
          · omega
          · exact absurd h (by simpa using h3)
          · rfl
        subst hw8
        simp
        exact decLE_encLE 8 n rest h

theorem int_law (cfg : IntEnc) (i : IntTy) : (Codec.int cfg i).Law := by
  intro n rest h
  simp only [Codec.int] at h ⊢
  cases i <;> cases cfg <;> simp only [encInt, decInt, IntTy.bytes] at h ⊢
  all_goals first
    | exact decLE_encLE _ n rest h
    | exact decVar_encVar _ n rest (by simp) h

theorem decInt_encInt (cfg : IntEnc) (i : IntTy) (n : Nat) (rest : Bytes) (h : n < 256 ^ i.bytes) :
    decInt cfg i (encInt cfg i n ++ rest) = some (n, rest) :=
  int_law cfg i n rest h

theorem bool_law : Codec.bool.Law := by
  intro b rest _
  cases b <;> simp [Codec.bool, decBool]

theorem string_law (cfg : IntEnc) : (Codec.string cfg).Law := by
  intro s rest h
  simp only [Codec.string] at h ⊢
  obtain ⟨hl, hv⟩ := h
  simp only [decString, List.append_assoc, decInt_encInt cfg .u64 s.length (s ++ rest) hl]
  simp [hv]

theorem option_law {α : Type} (c : Codec α) (hc : c.Law) : c.option.Law := by
  intro o rest h
  cases o with
  | none => simp [Codec.option, encOption, decOption]
  | some x =>
    simp only [Codec.option, wfOption] at h
    simp [Codec.option, encOption, decOption, hc x rest h]

theorem decN_encList {α : Type} (c : Codec α) (hc : c.Law) : ∀ (xs : List α) (rest : Bytes),
    (∀ x ∈ xs, c.wf x) → decN c xs.length (encList c xs ++ rest) = some (xs, rest) := by
  intro xs
  induction xs with
  | nil => intro rest _; simp [decN, encList]
  | cons x xs ih =>
    intro rest h
    have hx : c.wf x := h x (by simp)
    have hxs : ∀ y ∈ xs, c.wf y := fun y hy => h y (by simp [hy])
    simp only [List.length_cons, encList, List.append_assoc, decN, hc x (encList c xs ++ rest) hx,
      ih rest hxs]

theorem seq_law {α : Type} (cfg : IntEnc) (c : Codec α) (hc : c.Law) : (c.seq cfg).Law := by
  intro xs rest h
  simp only [Codec.seq] at h ⊢
  obtain ⟨hl, hall⟩ := h
  simp only [decSeq, List.append_assoc, decInt_encInt cfg .u64 xs.length (encList c xs ++ rest) hl,
    decN_encList c hc xs rest hall]

theorem pair_law {α β : Type} (name : String) (a : Codec α) (b : Codec β) (ha : a.Law) (hb : b.Law) :
    (Codec.pair name a b).Law := by
  intro p rest h
  obtain ⟨x, y⟩ := p
  simp only [Codec.pair] at h ⊢
  simp only [decPair, List.append_assoc, ha x (b.enc y ++ rest) h.1, hb y rest h.2]

theorem unit_law : Codec.unit.Law := by
  intro x rest _
  simp [Codec.unit]

theorem empty_law : Codec.empty.Law := by
  intro x
  exact nomatch x

theorem empty_tagsFrom (cfg : IntEnc) (k : Nat) : Codec.empty.TagsFrom cfg k := by
  intro x
  exact nomatch x

theorem sum_law {α β : Type} (cfg : IntEnc) (k : Nat) (name : String) (a : Codec α) (b : Codec β)
    (ha : a.Law) (hb : b.Law) (hbt : b.TagsFrom cfg (k + 1)) : (Codec.sum cfg k name a b).Law := by
  intro s rest h
  cases s with
  | inl x =>
    simp only [Codec.sum, wfSum] at h
    simp only [Codec.sum, encSum, decSum, List.append_assoc,
      decInt_encInt cfg .u32 k (a.enc x ++ rest) (by simpa [IntTy.bytes] using h.1), if_true,
      ha x rest h.2]
  | inr y =>
    simp only [Codec.sum, wfSum] at h
    obtain ⟨t, body, hk, ht, he⟩ := hbt y h
    have hne : ¬ t = k := by omega
    have hd : decInt cfg .u32 (b.enc y ++ rest) = some (t, body ++ rest) := by
      rw [he, List.append_assoc]
      exact decInt_encInt cfg .u32 t (body ++ rest) (by simpa [IntTy.bytes] using ht)
    simp only [Codec.sum, encSum, decSum, hd, hne, if_false, hb y rest h]

theorem sum_tagsFrom {α β : Type} (cfg : IntEnc) (k : Nat) (name : String) (a : Codec α) (b : Codec β)
    (hbt : b.TagsFrom cfg (k + 1)) : (Codec.sum cfg k name a b).TagsFrom cfg k := by
  intro s h
  cases s with
  | inl x =>
    simp only [Codec.sum, wfSum] at h
    exact ⟨k, a.enc x, Nat.le_refl k, h.1, rfl⟩
  | inr y =>
    simp only [Codec.sum, wfSum] at h
    obtain ⟨t, body, hk, ht, he⟩ := hbt y h
    exact ⟨t, body, by omega, ht, he⟩

mutual
  theorem codec_law (cfg : IntEnc) : (t : Ty) → (codec cfg t).Law
    | .int i => by rw [codec]; exact int_law cfg i
    | .bool => by rw [codec]; exact bool_law
    | .string => by rw [codec]; exact string_law cfg
    | .option t => by rw [codec]; exact option_law _ (codec_law cfg t)
    | .seq t => by rw [codec]; exact seq_law cfg _ (codec_law cfg t)
    | .struct fs => by rw [codec]; exact codecProd_law cfg fs
    | .enum vs => by rw [codec]; exact (codecSum_law cfg 0 vs).1
  theorem codecProd_law (cfg : IntEnc) : (ts : Tys) → (codecProd cfg ts).Law
    | .nil => by rw [codecProd]; exact unit_law
    | .cons n t ts => by rw [codecProd]; exact pair_law n _ _ (codec_law cfg t) (codecProd_law cfg ts)
  theorem codecSum_law (cfg : IntEnc) (k : Nat) : (ts : Tys) →
      (codecSum cfg k ts).Law ∧ (codecSum cfg k ts).TagsFrom cfg k
    | .nil => by rw [codecSum]; exact ⟨empty_law, empty_tagsFrom cfg k⟩
    | .cons n t ts => by
      rw [codecSum]
      have ih := codecSum_law cfg (k + 1) ts
      exact ⟨sum_law cfg k n _ _ (codec_law cfg t) ih.1 ih.2, sum_tagsFrom cfg k n _ _ ih.2⟩
end

end GrmVerif.C14
