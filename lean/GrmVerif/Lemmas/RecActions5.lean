import GrmVerif.Lemmas.RecActions4
/-!
The recovering action driver (C08, recovery on), part 5 — to the plain action driver on the edited
input:
* `Tree.mapIdx`/`Call.mapIdx`: renaming of lexeme identities (the plain driver run on the edited input
  calls its `k`-th lexeme `k`; the recovering driver calls it `lexId` of the `k`-th edited item);
* the reductions and pushes commute with the renaming (`feedA_mapIdx`), so a plain run with values over
  the edited lexemes is the renaming of a run of `Act.stepA` over the edited token list with the edited
  spans (`feedsToA_unmap`, `feedsToA_stepsA`);
* `plain_run_is_parseA`: hence `Act.parseA` on the edited input accepts, and value and log of the
  recovering run are the renamed value and log of that parse.
-/
namespace GrmVerif.RecAct
open GrmVerif LR Act Rec Cert C05

/-! ### renaming lexeme identities -/

mutual
/-- rename the lexeme identities at the leaves -/
def treeMapIdx (f : Nat → Nat) : Tree → Tree
  | .leaf t i => .leaf t (f i)
  | .node p kids => .node p (treesMapIdx f kids)
def treesMapIdx (f : Nat → Nat) : List Tree → List Tree
  | [] => []
  | k :: ks => treeMapIdx f k :: treesMapIdx f ks
end

theorem treesMapIdx_eq_map (f : Nat → Nat) : ∀ ts : List Tree, treesMapIdx f ts = ts.map (treeMapIdx f)
  | [] => rfl
  | k :: ks => by simp [treesMapIdx, treesMapIdx_eq_map f ks]

def argMapIdx (f : Nat → Nat) : Arg → Arg
  | .lexeme t i => .lexeme t (f i)
  | .value t => .value (treeMapIdx f t)

/-- rename the lexeme identities in the arguments of a call (production, rule and span unchanged) -/
def callMapIdx (f : Nat → Nat) (c : Call) : Call := ⟨c.p, c.r, c.start, c.stop, c.args.map (argMapIdx f)⟩

def VCfg.mapIdx (f : Nat → Nat) (v : VCfg) : VCfg :=
  ⟨v.pstack, v.astack.map (treeMapIdx f), v.spans, v.log.map (callMapIdx f)⟩

def FedA.mapIdx (f : Nat → Nat) : FedA → FedA
  | .shifted s' v => .shifted s' (v.mapIdx f)
  | .accept v => .accept (v.mapIdx f)
  | .error v => .error (v.mapIdx f)
  | .crash => .crash
  | .fuelOut => .fuelOut

def Lx.mapIdx (f : Nat → Nat) (l : Lx) : Lx := ⟨l.tok, f l.id, l.span⟩

theorem argOf_mapIdx (f : Nat → Nat) : ∀ t : Tree, argOf (treeMapIdx f t) = argMapIdx f (argOf t)
  | .leaf _ _ => rfl
  | .node _ _ => rfl

theorem reduceV_mapIdx (G : Grammar) (f : Nat → Nat) (p s' : Nat) (v : VCfg) :
    reduceV G p s' (v.mapIdx f) = (reduceV G p s' v).mapIdx f := by
  have hfun : (argOf ∘ treeMapIdx f) = (argMapIdx f ∘ argOf) := funext (argOf_mapIdx f)
  simp only [reduceV, VCfg.mapIdx, List.map_cons, List.map_append, List.map_nil, List.map_drop, treeMapIdx,
    treesMapIdx_eq_map, List.map_reverse, List.map_take, callMapIdx, List.map_map, hfun]

theorem feedA_mapIdx (G : Grammar) (A : Automaton) (f : Nat → Nat) (la : Nat) :
    ∀ (fuel : Nat) (v : VCfg), feedA G A la fuel (v.mapIdx f) = (feedA G A la fuel v).mapIdx f := by
  intro fuel
  induction fuel with
  | zero => intro v; rfl
  | succ n ih =>
    intro v
    obtain ⟨ps, as, sp, lg⟩ := v
    cases ps with
    | nil => rfl
    | cons st tl =>
      cases hact : A.action st la with
      | shift s' => simp [feedA, VCfg.mapIdx, hact, FedA.mapIdx]
      | accept => simp [feedA, VCfg.mapIdx, hact, FedA.mapIdx]
      | error => simp [feedA, VCfg.mapIdx, hact, FedA.mapIdx]
      | reduce p =>
        by_cases h : ∃ prior rest s', (st :: tl).drop (G.rhs p).length = prior :: rest ∧ A.goto prior (G.lhs p) = some s'
        · obtain ⟨prior, rest, s1, hd, hg⟩ := h
          rw [feedA_reduce (v := VCfg.mapIdx f ⟨st :: tl, as, sp, lg⟩) rfl hact hd hg,
            feedA_reduce (v := ⟨st :: tl, as, sp, lg⟩) rfl hact hd hg, reduceV_mapIdx, ih]
        · rw [feedA_reduce_crash (v := VCfg.mapIdx f ⟨st :: tl, as, sp, lg⟩) rfl hact h,
            feedA_reduce_crash (v := ⟨st :: tl, as, sp, lg⟩) rfl hact h]
          rfl

theorem pushLex_mapIdx (f : Nat → Nat) (s' tok id : Nat) (sp : Nat × Nat) (v : VCfg) :
    pushLex s' tok (f id) sp (v.mapIdx f) = (pushLex s' tok id sp v).mapIdx f := by
  simp [pushLex, VCfg.mapIdx, treeMapIdx]

/-- a renamed `shifted` answer comes from a `shifted` answer -/
theorem feedA_unmap_shifted {G : Grammar} {A : Automaton} {f : Nat → Nat} {la fuel : Nat} {v x : VCfg} {s' : Nat}
    (h : feedA G A la fuel (v.mapIdx f) = .shifted s' x) :
    ∃ x', feedA G A la fuel v = .shifted s' x' ∧ x = x'.mapIdx f := by
  rw [feedA_mapIdx] at h
  cases hf : feedA G A la fuel v with
  | shifted s1 x' =>
    rw [hf] at h
    simp only [FedA.mapIdx, FedA.shifted.injEq] at h
    exact ⟨x', by rw [h.1], h.2.symm⟩
  | accept x' => rw [hf] at h; cases h
  | error x' => rw [hf] at h; cases h
  | crash => rw [hf] at h; cases h
  | fuelOut => rw [hf] at h; cases h

theorem feedA_unmap_accept {G : Grammar} {A : Automaton} {f : Nat → Nat} {la fuel : Nat} {v x : VCfg}
    (h : feedA G A la fuel (v.mapIdx f) = .accept x) :
    ∃ x', feedA G A la fuel v = .accept x' ∧ x = x'.mapIdx f := by
  rw [feedA_mapIdx] at h
  cases hf : feedA G A la fuel v with
  | accept x' =>
    rw [hf] at h
    simp only [FedA.mapIdx, FedA.accept.injEq] at h
    exact ⟨x', rfl, h.symm⟩
  | shifted s1 x' => rw [hf] at h; cases h
  | error x' => rw [hf] at h; cases h
  | crash => rw [hf] at h; cases h
  | fuelOut => rw [hf] at h; cases h

/-- a plain run over renamed lexemes from a renamed configuration is the renaming of a plain run -/
theorem feedsToA_unmap {G : Grammar} {A : Automaton} (f : Nat → Nat) :
    ∀ (lexs : List Lx) (v st : VCfg), FeedsToA G A (v.mapIdx f) (lexs.map (Lx.mapIdx f)) st →
      ∃ st', st = st'.mapIdx f ∧ FeedsToA G A v lexs st' := by
  intro lexs
  induction lexs with
  | nil => intro v st h; simp only [List.map_nil, FeedsToA] at h; exact ⟨v, h, rfl⟩
  | cons l ls ih =>
    intro v st h
    simp only [List.map_cons, FeedsToA, Lx.mapIdx] at h
    obtain ⟨s', x, fu, hx, hrest⟩ := h
    obtain ⟨x', hx', hxe⟩ := feedA_unmap_shifted hx
    rw [hxe, pushLex_mapIdx] at hrest
    obtain ⟨st', h1, h2⟩ := ih _ st hrest
    exact ⟨st', h1, s', x', fu, hx', h2⟩

theorem acceptOut_unmap {f : Nat → Nat} {y : VCfg} {t : Tree} (h : acceptOut (y.mapIdx f) = .accept t) :
    ∃ t', acceptOut y = .accept t' ∧ t = treeMapIdx f t' := by
  simp only [acceptOut, VCfg.mapIdx, List.getLast?_map] at h
  cases hl : y.astack.getLast? with
  | none => rw [hl] at h; simp at h
  | some x =>
    rw [hl] at h
    cases x with
    | leaf a b => simp [treeMapIdx] at h
    | node p kids =>
      simp only [Option.map_some, treeMapIdx, Outcome.accept.injEq] at h
      exact ⟨.node p kids, by simp [acceptOut, hl], by rw [← h]; simp [treeMapIdx]⟩

/-! ### the plain run with values is a run of `stepA` -/

/-- the lexemes of a token list as the plain action driver pushes them: the `k`-th is called `k` -/
def idxLexs (span : Nat → Nat × Nat) : Nat → List Nat → List Lx
  | _, [] => []
  | i, t :: ts => ⟨t, i, span i⟩ :: idxLexs span (i + 1) ts

theorem feedsToA_stepsA (G : Grammar) (A : Automaton) (toks : List Nat) (span : Nat → Nat × Nat) :
    ∀ (ts : List Nat) (i : Nat) (v st : VCfg), i ≤ toks.length → toks.drop i = ts →
      FeedsToA G A v (idxLexs span i ts) st →
      StepsA G A toks span (v.toA i) (st.toA toks.length) := by
  intro ts
  induction ts with
  | nil =>
    intro i v st hle hd h
    simp only [idxLexs, FeedsToA] at h
    subst h
    have hi : toks.length ≤ i := by simpa using hd
    have he : i = toks.length := by omega
    subst he; exact .refl _
  | cons t ts ih =>
    intro i v st hle hd h
    simp only [idxLexs, FeedsToA] at h
    obtain ⟨s', x, f, hf, h⟩ := h
    have hi : i < toks.length := by
      by_cases hi : i < toks.length
      · exact hi
      · rw [List.drop_eq_nil_of_le (by omega)] at hd; cases hd
    have hti : nextTok G toks i = t := by
      have : toks[i]? = some t := by
        have := congrArg List.head? hd
        simpa [List.head?_drop] using this
      simp [nextTok, this]
    rw [← hti] at hf h
    have hs1 := feedA_shifted_stepsA G A toks span i hf
    have hd' : toks.drop (i + 1) = ts := by
      have := congrArg List.tail hd
      simpa [List.tail_drop] using this
    exact hs1.trans (ih (i + 1) _ st hi hd' h)

/-- the lexemes of a list of items, named by position and renamed, are the items' own lexemes -/
theorem idxLexs_items {α : Type} (its : List α) (tokOf : α → Nat) (idOf : α → Nat) (spanOf : α → Nat × Nat)
    (span : Nat → Nat × Nat) (f : Nat → Nat)
    (hspan : ∀ i it, its[i]? = some it → span i = spanOf it) (hf : ∀ i it, its[i]? = some it → f i = idOf it) :
    ∀ (rest : List α) (i : Nat), its.drop i = rest →
      (idxLexs span i (rest.map tokOf)).map (Lx.mapIdx f) = rest.map (fun it => ⟨tokOf it, idOf it, spanOf it⟩) := by
  intro rest
  induction rest with
  | nil => intro i _; rfl
  | cons it rest ih =>
    intro i hd
    have hget : its[i]? = some it := by
      have := congrArg List.head? hd
      simpa [List.head?_drop] using this
    have hd' : its.drop (i + 1) = rest := by
      have := congrArg List.tail hd
      simpa [List.tail_drop] using this
    simp only [List.map_cons, idxLexs, Lx.mapIdx, hspan i it hget, hf i it hget, ih (i + 1) hd']

theorem editedSpan_get {w : List Nat} {lexSpan : Nat → Nat × Nat} {errs : List Err} {i : Nat} {it : EItem}
    (h : (editedItems w.length 0 errs)[i]? = some it) :
    editedSpan w lexSpan errs i = itemSpan lexSpan w.length it := by
  simp [editedSpan, editedLex, List.getD, List.getElem?_map, h]

theorem editedId_get {w : List Nat} {errs : List Err} {i : Nat} {it : EItem}
    (h : (editedItems w.length 0 errs)[i]? = some it) : editedId w errs i = lexId w.length it := by
  simp [editedId, List.getD, h]

/-- **From the plain run with values over the edited lexemes to `parseA` on the edited input.** If the
plain action automaton started on `[start]` shifts the lexemes of the edited input (each with the
identity the recovering driver gives it) and then accepts under end-of-input with value `t` and log
`log`, then `Act.parseA` on the edited token list with the edited spans accepts, and `t` and `log` are
its value and log with the `k`-th lexeme renamed to `editedId k`. -/
theorem plain_run_is_parseA (G : Grammar) (A : Automaton) (w : List Nat) (lexSpan : Nat → Nat × Nat)
    (errs : List Err) {st y : VCfg} {f : Nat} {t : Tree}
    (hfeeds : FeedsToA G A (initV A) ((editedItems w.length 0 errs).map (itemLx w lexSpan)) st)
    (hacc : feedA G A G.eof f st = .accept y) (hout : acceptOut y = .accept t) :
    ∃ fuel' t' log', parseA G A (editedToks w w.length 0 errs) (editedSpan w lexSpan errs) fuel' = (.accept t', log') ∧
      t = treeMapIdx (editedId w errs) t' ∧ y.log = log'.map (callMapIdx (editedId w errs)) := by
  have hlex : (idxLexs (editedSpan w lexSpan errs) 0 (editedToks w w.length 0 errs)).map (Lx.mapIdx (editedId w errs)) =
      (editedItems w.length 0 errs).map (itemLx w lexSpan) := by
    have := idxLexs_items (editedItems w.length 0 errs) (itemTok w) (lexId w.length) (itemSpan lexSpan w.length)
      (editedSpan w lexSpan errs) (editedId w errs) (fun i it h => editedSpan_get h) (fun i it h => editedId_get h)
      (editedItems w.length 0 errs) 0 rfl
    exact this
  have hinit : initV A = (initV A).mapIdx (editedId w errs) := by simp [initV, VCfg.mapIdx]
  rw [← hlex, hinit] at hfeeds
  obtain ⟨st', hst, hfeeds'⟩ := feedsToA_unmap _ _ _ _ hfeeds
  have hsteps := feedsToA_stepsA G A (editedToks w w.length 0 errs) (editedSpan w lexSpan errs) _ 0 _ _
    (Nat.zero_le _) (by simp) hfeeds'
  rw [hst] at hacc
  obtain ⟨y', hacc', hy⟩ := feedA_unmap_accept hacc
  have hend : nextTok G (editedToks w w.length 0 errs) (editedToks w w.length 0 errs).length = G.eof := by
    simp [nextTok]
  rw [← hend] at hacc'
  obtain ⟨hs2, hdone⟩ := feedA_accept_stepsA G A _ (editedSpan w lexSpan errs) _ hacc'
  rw [hy] at hout
  obtain ⟨t', hout', ht⟩ := acceptOut_unmap hout
  rw [hout'] at hdone
  obtain ⟨fuel', hrun⟩ := runA_of_stepsA (hsteps.trans hs2) hdone
  exact ⟨fuel', t', y'.log, hrun, ht, by rw [hy]; rfl⟩


/-! ### what the renaming keeps -/

mutual
theorem leafIdxs_mapIdx (f : Nat → Nat) : ∀ t : Tree, Tree.leafIdxs (treeMapIdx f t) = (Tree.leafIdxs t).map f
  | .leaf _ _ => rfl
  | .node _ kids => by simp only [treeMapIdx, Tree.leafIdxs]; exact leafIdxsList_mapIdx f kids
theorem leafIdxsList_mapIdx (f : Nat → Nat) :
    ∀ ts : List Tree, Tree.leafIdxsList (treesMapIdx f ts) = (Tree.leafIdxsList ts).map f
  | [] => rfl
  | k :: ks => by
    simp only [treesMapIdx, Tree.leafIdxsList, List.map_append, leafIdxs_mapIdx f k, leafIdxsList_mapIdx f ks]
end

mutual
theorem yield_mapIdx (f : Nat → Nat) : ∀ t : Tree, Tree.yield (treeMapIdx f t) = Tree.yield t
  | .leaf _ _ => rfl
  | .node _ kids => by simp only [treeMapIdx, Tree.yield]; exact yieldList_mapIdx f kids
theorem yieldList_mapIdx (f : Nat → Nat) : ∀ ts : List Tree, Tree.yieldList (treesMapIdx f ts) = Tree.yieldList ts
  | [] => rfl
  | k :: ks => by simp only [treesMapIdx, Tree.yieldList, yield_mapIdx f k, yieldList_mapIdx f ks]
end

mutual
theorem postorder_mapIdx (f : Nat → Nat) : ∀ t : Tree, Tree.postorder (treeMapIdx f t) = Tree.postorder t
  | .leaf _ _ => rfl
  | .node _ kids => by simp only [treeMapIdx, Tree.postorder, postorderList_mapIdx f kids]
theorem postorderList_mapIdx (f : Nat → Nat) :
    ∀ ts : List Tree, Tree.postorderList (treesMapIdx f ts) = Tree.postorderList ts
  | [] => rfl
  | k :: ks => by simp only [treesMapIdx, Tree.postorderList, postorder_mapIdx f k, postorderList_mapIdx f ks]
end

theorem root_mapIdx (G : Grammar) (f : Nat → Nat) : ∀ t : Tree, Tree.root G (treeMapIdx f t) = Tree.root G t
  | .leaf _ _ => rfl
  | .node _ _ => rfl

mutual
theorem valid_mapIdx (G : Grammar) (f : Nat → Nat) : ∀ t : Tree, Tree.valid G (treeMapIdx f t) = Tree.valid G t
  | .leaf _ _ => rfl
  | .node p kids => by
    have hr : (Tree.root G ∘ treeMapIdx f) = Tree.root G := funext (root_mapIdx G f)
    have hv := validList_mapIdx G f kids
    simp only [treeMapIdx, Tree.valid, hv]
    rw [treesMapIdx_eq_map, List.map_map, hr]
theorem validList_mapIdx (G : Grammar) (f : Nat → Nat) :
    ∀ ts : List Tree, Tree.validList G (treesMapIdx f ts) = Tree.validList G ts
  | [] => rfl
  | k :: ks => by simp only [treesMapIdx, Tree.validList, valid_mapIdx G f k, validList_mapIdx G f ks]
end

/-- naming the elements of a list by position and looking them up again is the list -/
theorem range_map_getD {α β : Type} (l : List α) (g : α → β) (d : α) :
    (List.range l.length).map (fun k => g (l.getD k d)) = l.map g := by
  apply List.ext_getElem
  · simp
  · intro i h1 h2
    simp only [List.length_map, List.length_range] at h1
    simp [List.getD, List.getElem?_eq_getElem h1]

theorem logMap_prods (f : Nat → Nat) (log : List Call) : (log.map (callMapIdx f)).map (·.p) = log.map (·.p) := by
  simp [List.map_map, Function.comp_def, callMapIdx]

end GrmVerif.RecAct
