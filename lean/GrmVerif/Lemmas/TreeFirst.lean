import GrmVerif.Model.LR
import GrmVerif.Lemmas.Analyses2
/-! What a valid parse tree says about FIRST and nullable. -/
namespace GrmVerif.Cert
open GrmVerif Spec

/-- `a` can begin what symbol `X` derives -/
def SymFirst (G : Grammar) (X : Sym) (a : Nat) : Prop :=
  match X with
  | .tok t => t = a
  | .rule r => FirstP G r a

theorem firstSeqP_cons_first {G : Grammar} {X : Sym} {rest : List Sym} {a : Nat} (h : SymFirst G X a) :
    FirstSeqP G (X :: rest) a := by
  cases X with
  | tok t => simp only [SymFirst] at h; subst h; exact ⟨[], .tok t, rest, rfl, .nil, Or.inl rfl⟩
  | rule r => exact ⟨[], .rule r, rest, rfl, .nil, Or.inr ⟨r, rfl, h⟩⟩

theorem firstSeqP_cons_null {G : Grammar} {r : Nat} {rest : List Sym} {a : Nat} (hn : NullableR G r)
    (h : FirstSeqP G rest a) : FirstSeqP G (.rule r :: rest) a := by
  obtain ⟨α, X, β, h1, h2, h3⟩ := h
  exact ⟨.rule r :: α, X, β, by simp [h1], .cons r α hn h2, h3⟩

mutual
/-- a valid tree with an empty yield has a nullable rule at its root; with yield `a :: _`, `a` is in
FIRST of its root -/
theorem tree_first_null (G : Grammar) : ∀ (T : Tree), Tree.valid G T = true →
    (Tree.yield T = [] → ∃ r, Tree.root G T = .rule r ∧ NullableR G r) ∧
    (∀ a rest, Tree.yield T = a :: rest → SymFirst G (Tree.root G T) a)
  | .leaf t i, _ => by
    constructor
    · intro h; simp [Tree.yield] at h
    · intro a rest h; simp only [Tree.yield, List.cons.injEq] at h; simp [Tree.root, SymFirst, h.1]
  | .node p kids, hv => by
    simp only [Tree.valid, Bool.and_eq_true, decide_eq_true_eq, beq_iff_eq] at hv
    obtain ⟨⟨hp, hkids⟩, hvl⟩ := hv
    obtain ⟨h1, h2⟩ := trees_first_null G kids hvl
    constructor
    · intro hy
      simp only [Tree.yield] at hy
      refine ⟨G.lhs p, rfl, .mk p hp ?_⟩
      rw [← hkids]; exact h1 hy
    · intro a rest hy
      simp only [Tree.yield] at hy
      have hfs := h2 a rest hy
      rw [hkids] at hfs
      obtain ⟨α, X, β, e1, e2, e3⟩ := hfs
      simp only [Tree.root, SymFirst]
      rcases e3 with rfl | ⟨q, rfl, hq⟩
      · exact .tok p α a β hp e1 e2
      · exact .rule p α q β a hp e1 e2 hq
theorem trees_first_null (G : Grammar) : ∀ (kids : List Tree), Tree.validList G kids = true →
    (Tree.yieldList kids = [] → NullableSeq G (kids.map (Tree.root G))) ∧
    (∀ a rest, Tree.yieldList kids = a :: rest → FirstSeqP G (kids.map (Tree.root G)) a)
  | [], _ => by
    constructor
    · intro _; exact .nil
    · intro a rest h; simp [Tree.yieldList] at h
  | k :: ks, hv => by
    simp only [Tree.validList, Bool.and_eq_true] at hv
    obtain ⟨hk, hks⟩ := hv
    obtain ⟨k1, k2⟩ := tree_first_null G k hk
    obtain ⟨l1, l2⟩ := trees_first_null G ks hks
    constructor
    · intro hy
      simp only [Tree.yieldList, List.append_eq_nil_iff] at hy
      obtain ⟨r, hr, hn⟩ := k1 hy.1
      simp only [List.map_cons, hr]
      exact .cons r _ hn (l1 hy.2)
    · intro a rest hy
      simp only [Tree.yieldList] at hy
      simp only [List.map_cons]
      cases hyk : Tree.yield k with
      | nil =>
        rw [hyk, List.nil_append] at hy
        obtain ⟨r, hr, hn⟩ := k1 hyk
        rw [hr]
        exact firstSeqP_cons_null hn (l2 a rest hy)
      | cons b bs =>
        rw [hyk, List.cons_append, List.cons.injEq] at hy
        have := k2 b bs hyk
        rw [hy.1] at this
        exact firstSeqP_cons_first this
end

end GrmVerif.Cert
