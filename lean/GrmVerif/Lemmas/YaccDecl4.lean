import GrmVerif.Lemmas.YaccDecl3
/-!
C10, text → AST stage, declarations, part 4: `declStep` for `%left`/`%right`/`%nonassoc`,
`%avoid_insert`, `%implicit_tokens`, `%actiontype`, `%parse-param`.
-/
namespace GrmVerif.YaccRender
open GrmVerif.YaccParse
open GrmVerif.Header (Res Span byteLen dropBytes slice sliceRange lookahead byteLen_append)

theorem declStep_left {src : List Char} {kind : Kind} {fuel i level : Nat} {t : RTok} {ts : List RTok}
    {k : List Char} (st : St) (r : Nat × St) (h : At src i (renderDecl (.prec .left t ts) ++ k))
    (hw : (t :: ts).all wfTok = true) (hk : DeclNext k) (hf : ts.length + 2 ≤ fuel)
    (hr : runPrecToks level .left (i + 6) t ts st = some r) :
    M.Ret (declStep src kind fuel i level) st (.cont r.1 (level + 1)) r.2 := by
  have h0 : At src i ('%' :: 'l' :: 'e' :: 'f' :: 't' :: ' ' :: (renderToks t ts ++ k)) := by
    simpa [renderDecl, kwOf, bodyOf, precKw] using h
  have hk0 : At src (i + 5) (' ' :: (renderToks t ts ++ k)) := by
    have := At.adv (a := ['%', 'l', 'e', 'f', 't']) (by simpa using h0)
    rwa [show byteLen ['%', 'l', 'e', 'f', 't'] = 5 by decide] at this
  have hk1 : At src (i + 5 + 1) (renderToks t ts ++ k) := hk0.adv1 (by decide)
  obtain ⟨f, hfe⟩ : ∃ f, ts.length + 2 + f = fuel := ⟨fuel - (ts.length + 2), by omega⟩
  have hloop := precLoop_at (src := src) (level := level) (kind := .left) (nl0 := st.nl) ts t f (i + 5 + 1) st k r
    hk1 hw hk rfl hr
  rw [hfe] at hloop
  have hdp : M.Ret (declPrec src fuel (i + 5) level .left) st r.1 r.2 := by
    unfold declPrec
    refine M.Ret.bind (ws_false_space hk0 (renderToks_starts (by
      simp only [List.all_cons, Bool.and_eq_true] at hw; exact hw.1) ts k).stops st) ?_
    refine M.Ret.bind (getSt_ret st) ?_
    exact hloop
  unfold declStep
  la_skip h0 "%%"
  la_skip h0 "%token"
  law_skip h0 "%actiontype"
  la_skip h0 "%start"
  la_skip h0 "%epp"
  la_skip h0 "%expect-rr"
  unfold declStep2
  la_skip h0 "%expect-unused"
  la_skip h0 "%expect"
  la_skip h0 "%avoid_insert"
  la_skip h0 "%parse-param"
  la_skip h0 "%parse-generics"
  law_skip h0 "%implicit_tokens"
  unfold declPrecOrUnknown
  refine M.Ret.bind (la_yes' (j := i + 5) "%left" (by simpa using h0) st
    (by rw [show byteLen "%left".toList = 5 by decide])) ?_
  dsimp only
  refine M.Ret.bind hdp ?_
  exact M.Ret.pure

theorem declStep_right {src : List Char} {kind : Kind} {fuel i level : Nat} {t : RTok} {ts : List RTok}
    {k : List Char} (st : St) (r : Nat × St) (h : At src i (renderDecl (.prec .right t ts) ++ k))
    (hw : (t :: ts).all wfTok = true) (hk : DeclNext k) (hf : ts.length + 2 ≤ fuel)
    (hr : runPrecToks level .right (i + 7) t ts st = some r) :
    M.Ret (declStep src kind fuel i level) st (.cont r.1 (level + 1)) r.2 := by
  have h0 : At src i ('%' :: 'r' :: 'i' :: 'g' :: 'h' :: 't' :: ' ' :: (renderToks t ts ++ k)) := by
    simpa [renderDecl, kwOf, bodyOf, precKw] using h
  have hk0 : At src (i + 6) (' ' :: (renderToks t ts ++ k)) := by
    have := At.adv (a := ['%', 'r', 'i', 'g', 'h', 't']) (by simpa using h0)
    rwa [show byteLen ['%', 'r', 'i', 'g', 'h', 't'] = 6 by decide] at this
  have hk1 : At src (i + 6 + 1) (renderToks t ts ++ k) := hk0.adv1 (by decide)
  obtain ⟨f, hfe⟩ : ∃ f, ts.length + 2 + f = fuel := ⟨fuel - (ts.length + 2), by omega⟩
  have hloop := precLoop_at (src := src) (level := level) (kind := .right) (nl0 := st.nl) ts t f (i + 6 + 1) st k r
    hk1 hw hk rfl hr
  rw [hfe] at hloop
  have hdp : M.Ret (declPrec src fuel (i + 6) level .right) st r.1 r.2 := by
    unfold declPrec
    refine M.Ret.bind (ws_false_space hk0 (renderToks_starts (by
      simp only [List.all_cons, Bool.and_eq_true] at hw; exact hw.1) ts k).stops st) ?_
    refine M.Ret.bind (getSt_ret st) ?_
    exact hloop
  unfold declStep
  la_skip h0 "%%"
  la_skip h0 "%token"
  law_skip h0 "%actiontype"
  la_skip h0 "%start"
  la_skip h0 "%epp"
  la_skip h0 "%expect-rr"
  unfold declStep2
  la_skip h0 "%expect-unused"
  la_skip h0 "%expect"
  la_skip h0 "%avoid_insert"
  la_skip h0 "%parse-param"
  la_skip h0 "%parse-generics"
  law_skip h0 "%implicit_tokens"
  unfold declPrecOrUnknown
  la_skip h0 "%left"
  refine M.Ret.bind (la_yes' (j := i + 6) "%right" (by simpa using h0) st
    (by rw [show byteLen "%right".toList = 6 by decide])) ?_
  dsimp only
  refine M.Ret.bind hdp ?_
  exact M.Ret.pure

theorem declStep_nonassoc {src : List Char} {kind : Kind} {fuel i level : Nat} {t : RTok} {ts : List RTok}
    {k : List Char} (st : St) (r : Nat × St) (h : At src i (renderDecl (.prec .nonassoc t ts) ++ k))
    (hw : (t :: ts).all wfTok = true) (hk : DeclNext k) (hf : ts.length + 2 ≤ fuel)
    (hr : runPrecToks level .nonassoc (i + 10) t ts st = some r) :
    M.Ret (declStep src kind fuel i level) st (.cont r.1 (level + 1)) r.2 := by
  have h0 : At src i ('%' :: 'n' :: 'o' :: 'n' :: 'a' :: 's' :: 's' :: 'o' :: 'c' :: ' ' :: (renderToks t ts ++ k)) := by
    simpa [renderDecl, kwOf, bodyOf, precKw] using h
  have hk0 : At src (i + 9) (' ' :: (renderToks t ts ++ k)) := by
    have := At.adv (a := ['%', 'n', 'o', 'n', 'a', 's', 's', 'o', 'c']) (by simpa using h0)
    rwa [show byteLen ['%', 'n', 'o', 'n', 'a', 's', 's', 'o', 'c'] = 9 by decide] at this
  have hk1 : At src (i + 9 + 1) (renderToks t ts ++ k) := hk0.adv1 (by decide)
  obtain ⟨f, hfe⟩ : ∃ f, ts.length + 2 + f = fuel := ⟨fuel - (ts.length + 2), by omega⟩
  have hloop := precLoop_at (src := src) (level := level) (kind := .nonassoc) (nl0 := st.nl) ts t f (i + 9 + 1) st k r
    hk1 hw hk rfl hr
  rw [hfe] at hloop
  have hdp : M.Ret (declPrec src fuel (i + 9) level .nonassoc) st r.1 r.2 := by
    unfold declPrec
    refine M.Ret.bind (ws_false_space hk0 (renderToks_starts (by
      simp only [List.all_cons, Bool.and_eq_true] at hw; exact hw.1) ts k).stops st) ?_
    refine M.Ret.bind (getSt_ret st) ?_
    exact hloop
  unfold declStep
  la_skip h0 "%%"
  la_skip h0 "%token"
  law_skip h0 "%actiontype"
  la_skip h0 "%start"
  la_skip h0 "%epp"
  la_skip h0 "%expect-rr"
  unfold declStep2
  la_skip h0 "%expect-unused"
  la_skip h0 "%expect"
  la_skip h0 "%avoid_insert"
  la_skip h0 "%parse-param"
  la_skip h0 "%parse-generics"
  law_skip h0 "%implicit_tokens"
  unfold declPrecOrUnknown
  la_skip h0 "%left"
  la_skip h0 "%right"
  refine M.Ret.bind (la_yes' (j := i + 9) "%nonassoc" (by simpa using h0) st
    (by rw [show byteLen "%nonassoc".toList = 9 by decide])) ?_
  dsimp only
  refine M.Ret.bind hdp ?_
  exact M.Ret.pure

theorem declStep_avoid {src : List Char} {kind : Kind} {fuel i level : Nat} {t : RTok} {ts : List RTok}
    {k : List Char} (st : St) (r : Nat × St) (h : At src i (renderDecl (.avoidInsert t ts) ++ k))
    (hw : (t :: ts).all wfTok = true) (hk : DeclNext k) (hf : ts.length + 2 ≤ fuel)
    (hr : runAvoid (i + 14) t ts
      (St.mapAst (fun a => { a with avoidInsert := some (a.avoidInsert.getD []) }) st) = some r) :
    M.Ret (declStep src kind fuel i level) st (.cont r.1 level) r.2 := by
  have h0 : At src i ('%' :: 'a' :: 'v' :: 'o' :: 'i' :: 'd' :: '_' :: 'i' :: 'n' :: 's' :: 'e' :: 'r' :: 't' :: ' ' :: (renderToks t ts ++ k)) := by
    simpa [renderDecl, kwOf, bodyOf, precKw] using h
  have hk0 : At src (i + 13) (' ' :: (renderToks t ts ++ k)) := by
    have := At.adv (a := ['%', 'a', 'v', 'o', 'i', 'd', '_', 'i', 'n', 's', 'e', 'r', 't']) (by simpa using h0)
    rwa [show byteLen ['%', 'a', 'v', 'o', 'i', 'd', '_', 'i', 'n', 's', 'e', 'r', 't'] = 13 by decide] at this
  have hk1 : At src (i + 13 + 1) (renderToks t ts ++ k) := hk0.adv1 (by decide)
  obtain ⟨f, hfe⟩ : ∃ f, ts.length + 2 + f = fuel := ⟨fuel - (ts.length + 2), by omega⟩
  have hloop := avoidLoop_at (src := src) (j0 := i + 13) (nl0 := st.nl) hk0.lt ts t f (i + 13 + 1)
    (St.mapAst (fun a => { a with avoidInsert := some (a.avoidInsert.getD []) }) st) k r hk1 hw hk rfl hr
  rw [hfe] at hloop
  have hdp : M.Ret (declAvoidInsert src fuel (i + 13)) st r.1 r.2 := by
    unfold declAvoidInsert
    refine M.Ret.bind (ws_false_space hk0 (renderToks_starts (by
      simp only [List.all_cons, Bool.and_eq_true] at hw; exact hw.1) ts k).stops st) ?_
    refine M.Ret.bind (getSt_ret st) ?_
    refine M.Ret.bind (modifyAst_ret _ st) ?_
    exact hloop
  unfold declStep
  la_skip h0 "%%"
  la_skip h0 "%token"
  law_skip h0 "%actiontype"
  la_skip h0 "%start"
  la_skip h0 "%epp"
  la_skip h0 "%expect-rr"
  unfold declStep2
  la_skip h0 "%expect-unused"
  la_skip h0 "%expect"
  refine M.Ret.bind (la_yes' (j := i + 13) "%avoid_insert" (by simpa using h0) st
    (by rw [show byteLen "%avoid_insert".toList = 13 by decide])) ?_
  dsimp only
  refine M.Ret.bind hdp ?_
  exact M.Ret.pure

theorem declStep_implicit {src : List Char} {kind : Kind} {fuel i level : Nat} {t : RTok} {ts : List RTok}
    {k : List Char} (st : St) (r : Nat × St) (h : At src i (renderDecl (.implicitTokens t ts) ++ k))
    (hkind : kind = .eco) (hw : (t :: ts).all wfTok = true) (hk : DeclNext k) (hf : ts.length + 2 ≤ fuel)
    (hr : runImplicit (i + 17) t ts
      (St.mapAst (fun a => { a with implicitTokens := some (a.implicitTokens.getD []) }) st) = some r) :
    M.Ret (declStep src kind fuel i level) st (.cont r.1 level) r.2 := by
  have h0 : At src i ('%' :: 'i' :: 'm' :: 'p' :: 'l' :: 'i' :: 'c' :: 'i' :: 't' :: '_' :: 't' :: 'o' :: 'k' :: 'e' :: 'n' :: 's' :: ' ' :: (renderToks t ts ++ k)) := by
    simpa [renderDecl, kwOf, bodyOf, precKw] using h
  have hk0 : At src (i + 16) (' ' :: (renderToks t ts ++ k)) := by
    have := At.adv (a := ['%', 'i', 'm', 'p', 'l', 'i', 'c', 'i', 't', '_', 't', 'o', 'k', 'e', 'n', 's']) (by simpa using h0)
    rwa [show byteLen ['%', 'i', 'm', 'p', 'l', 'i', 'c', 'i', 't', '_', 't', 'o', 'k', 'e', 'n', 's'] = 16 by decide] at this
  have hk1 : At src (i + 16 + 1) (renderToks t ts ++ k) := hk0.adv1 (by decide)
  obtain ⟨f, hfe⟩ : ∃ f, ts.length + 2 + f = fuel := ⟨fuel - (ts.length + 2), by omega⟩
  have hloop := implicitLoop_at (src := src) (j0 := i + 16) (nl0 := st.nl) hk0.lt ts t f (i + 16 + 1)
    (St.mapAst (fun a => { a with implicitTokens := some (a.implicitTokens.getD []) }) st) k r hk1 hw hk rfl hr
  rw [hfe] at hloop
  have hdp : M.Ret (declImplicit src fuel (i + 16)) st r.1 r.2 := by
    unfold declImplicit
    refine M.Ret.bind (ws_false_space hk0 (renderToks_starts (by
      simp only [List.all_cons, Bool.and_eq_true] at hw; exact hw.1) ts k).stops st) ?_
    refine M.Ret.bind (getSt_ret st) ?_
    refine M.Ret.bind (modifyAst_ret _ st) ?_
    exact hloop
  unfold declStep
  la_skip h0 "%%"
  la_skip h0 "%token"
  law_skip h0 "%actiontype"
  la_skip h0 "%start"
  la_skip h0 "%epp"
  la_skip h0 "%expect-rr"
  unfold declStep2
  la_skip h0 "%expect-unused"
  la_skip h0 "%expect"
  la_skip h0 "%avoid_insert"
  la_skip h0 "%parse-param"
  la_skip h0 "%parse-generics"
  refine M.Ret.bind (laWhen_yes (j := i + 16) _ (by simpa using hkind) "%implicit_tokens" (by simpa using h0) st
    (by rw [show byteLen "%implicit_tokens".toList = 16 by decide])) ?_
  dsimp only
  refine M.Ret.bind hdp ?_
  exact M.Ret.pure

theorem wfLine_spec {ty : List Char} (h : wfLine ty = true) (k : List Char) :
    Starts (ty ++ k) ∧ ty.all (fun d => !YaccLex.isEol d) = true := by
  cases ty with
  | nil => simp [wfLine] at h
  | cons c cs =>
    simp only [wfLine, Bool.and_eq_true, Bool.not_eq_true', bne_iff_ne, ne_eq] at h
    refine ⟨starts_cons _ ⟨h.1.1.1, h.1.1.2, h.1.2⟩, ?_⟩
    simp only [List.all_cons, Bool.and_eq_true, Bool.not_eq_true']
    exact ⟨h.1.1.2, h.2⟩

theorem declStep_actiontype {src : List Char} {kind : Kind} {fuel i level : Nat} {ty k : List Char} (st : St)
    (h : At src i (renderDecl (.actiontype ty) ++ k)) (hkind : kind = .original) (hw : wfLine ty = true)
    (hk : DeclNext k) (hf : ty.length < fuel) (hs : st.actiontype = none) :
    M.Ret (declStep src kind fuel i level) st
      (.cont (i + 12 + byteLen ty + 1) level)
      (St.incNl 1 { st with actiontype := some (i + 12, i + 12 + byteLen ty) }) := by
  have h0 : At src i ('%' :: 'a' :: 'c' :: 't' :: 'i' :: 'o' :: 'n' :: 't' :: 'y' :: 'p' :: 'e' :: ' ' :: (ty ++ '\n' :: k)) := by
    simpa [renderDecl, kwOf, bodyOf, precKw] using h
  have hk0 : At src (i + 11) (' ' :: (ty ++ '\n' :: k)) := by
    have := At.adv (a := ['%', 'a', 'c', 't', 'i', 'o', 'n', 't', 'y', 'p', 'e']) (by simpa using h0)
    rwa [show byteLen ['%', 'a', 'c', 't', 'i', 'o', 'n', 't', 'y', 'p', 'e'] = 11 by decide] at this
  have hk1 : At src (i + 11 + 1) (ty ++ '\n' :: k) := hk0.adv1 (by decide)
  have h8 : At src (i + 11 + 1 + byteLen ty) ('\n' :: k) := hk1.adv
  obtain ⟨hst, hne⟩ := wfLine_spec hw ('\n' :: k)
  have hde : M.Ret (declActiontype src fuel (i + 11)) st (i + 11 + 1 + byteLen ty + 1)
      (St.incNl 1 { st with actiontype := some (i + 11 + 1, i + 11 + 1 + byteLen ty) }) := by
    unfold declActiontype
    refine M.Ret.bind (ws_false_space hk0 hst.stops st) ?_
    refine M.Ret.bind (liftR_ret (parseToEol_at hk1 hne hf)) ?_
    dsimp only
    refine M.Ret.bind (liftR_ret (mkSpan_le _ _)) ?_
    refine M.Ret.bind (M.Ret.bind (getSt_ret st) (by
      rw [hs]; rfl) : M.Ret (recordActiontype _) st () { st with actiontype := some (i + 11 + 1, i + 11 + 1 + byteLen ty) }) ?_
    exact ws_nl h8 hk.starts.stops _
  unfold declStep
  la_skip h0 "%%"
  la_skip h0 "%token"
  refine M.Ret.bind (laWhen_yes (j := i + 11) _ (by simpa using hkind) "%actiontype" (by simpa using h0) st
    (by rw [show byteLen "%actiontype".toList = 11 by decide])) ?_
  dsimp only
  refine M.Ret.bind hde ?_
  rw [show i + 11 + 1 = i + 12 by omega]
  exact M.Ret.pure

theorem declStep_parseParam {src : List Char} {kind : Kind} {fuel i level : Nat} {n ty k : List Char} (st : St)
    (h : At src i (renderDecl (.parseParam n ty) ++ k)) (hn : wfType n = true)
    (hne : n.all (fun d => !YaccLex.isEol d) = true) (hw : wfLine ty = true)
    (hk : DeclNext k) (hfn : n.length < fuel) (hf : ty.length < fuel) :
    M.Ret (declStep src kind fuel i level) st
      (.cont (i + 13 + byteLen n + 2 + byteLen ty + 1) level)
      (St.incNl 1 (St.mapAst (fun a => { a with parseParam := some ty }) st)) := by
  have h0 : At src i ('%' :: 'p' :: 'a' :: 'r' :: 's' :: 'e' :: '-' :: 'p' :: 'a' :: 'r' :: 'a' :: 'm' :: ' ' :: (n ++ ':' :: ' ' :: (ty ++ '\n' :: k))) := by
    simpa [renderDecl, kwOf, bodyOf, precKw] using h
  have hk0 : At src (i + 12) (' ' :: (n ++ ':' :: ' ' :: (ty ++ '\n' :: k))) := by
    have := At.adv (a := ['%', 'p', 'a', 'r', 's', 'e', '-', 'p', 'a', 'r', 'a', 'm']) (by simpa using h0)
    rwa [show byteLen ['%', 'p', 'a', 'r', 's', 'e', '-', 'p', 'a', 'r', 'a', 'm'] = 12 by decide] at this
  have hk1 : At src (i + 12 + 1) (n ++ ':' :: ' ' :: (ty ++ '\n' :: k)) := hk0.adv1 (by decide)
  have hc : At src (i + 12 + 1 + byteLen n) (':' :: ' ' :: (ty ++ '\n' :: k)) := hk1.adv
  have hc1 : At src (i + 12 + 1 + byteLen n + 1) (' ' :: (ty ++ '\n' :: k)) := hc.adv1 (by decide)
  have hc2 : At src (i + 12 + 1 + byteLen n + 1 + 1) (ty ++ '\n' :: k) := hc1.adv1 (by decide)
  have h8 : At src (i + 12 + 1 + byteLen n + 1 + 1 + byteLen ty) ('\n' :: k) := hc2.adv
  obtain ⟨hst, hte⟩ := wfLine_spec hw ('\n' :: k)
  obtain ⟨hsn, hscan⟩ := wfType_starts hn (':' :: ' ' :: (ty ++ '\n' :: k))
  have hnl : YaccLex.countEol n = 0 := by
    apply YaccLex.countEol_noEol
    intro c hc'
    have := List.all_eq_true.1 hne c hc'
    simpa using this
  have hcl := colonLoop_type (src := src) n.length n fuel (i + 12 + 1) st (ty ++ '\n' :: k) (Nat.le_refl _) hk1 hscan hfn
  rw [hnl, incNl_zero] at hcl
  have hde : M.Ret (declParseParam src fuel (i + 12)) st (i + 12 + 1 + byteLen n + 1 + 1 + byteLen ty + 1)
      (St.incNl 1 (St.mapAst (fun a => { a with parseParam := some ty }) st)) := by
    unfold declParseParam
    refine M.Ret.bind (ws_false_space hk0 hsn.stops st) ?_
    refine M.Ret.bind (show M.Ret (parseToSingleColon src fuel (i + 12 + 1)) st (i + 12 + 1 + byteLen n) st from by
      unfold parseToSingleColon
      refine M.Ret.bind hcl ?_
      refine M.Ret.bind (liftR_ret hk1.range) ?_
      exact M.Ret.pure) ?_
    refine M.Ret.bind (la_yes' (j := i + 12 + 1 + byteLen n + 1) ":" (by simpa using hc) st
      (by rw [show byteLen ":".toList = 1 by decide])) ?_
    dsimp only
    refine M.Ret.bind (ws_false_space hc1 hst.stops st) ?_
    refine M.Ret.bind (liftR_ret (parseToEol_at hc2 hte hf)) ?_
    dsimp only
    refine M.Ret.bind (modifyAst_ret _ st) ?_
    exact ws_nl h8 hk.starts.stops _
  unfold declStep
  la_skip h0 "%%"
  la_skip h0 "%token"
  law_skip h0 "%actiontype"
  la_skip h0 "%start"
  la_skip h0 "%epp"
  la_skip h0 "%expect-rr"
  unfold declStep2
  la_skip h0 "%expect-unused"
  la_skip h0 "%expect"
  la_skip h0 "%avoid_insert"
  refine M.Ret.bind (la_yes' (j := i + 12) "%parse-param" (by simpa using h0) st
    (by rw [show byteLen "%parse-param".toList = 12 by decide])) ?_
  dsimp only
  refine M.Ret.bind hde ?_
  rw [show i + 12 + 1 + byteLen n + 1 + 1 + byteLen ty + 1 = i + 13 + byteLen n + 2 + byteLen ty + 1 by omega]
  exact M.Ret.pure

theorem declStep_epp {src : List Char} {kind : Kind} {fuel i level : Nat} {t : RTok} {v k : List Char} (st : St)
    (h : At src i (renderDecl (.epp t v) ++ k)) (hw : wfTok t = true)
    (hv : v.all (fun d => !YaccLex.isEol d && d != '\\') = true) (hk : DeclNext k)
    (hf : (escQ v).length < fuel) (hs : st.ast.epp.find? (fun e => e.1 == t.name) = none) :
    M.Ret (declStep src kind fuel i level) st
      (.cont (i + 5 + byteLen t.text + 1 + byteLen (escQ v) + 2 + 1) level)
      (St.incNl 1 (St.mapAst (fun a => { a with epp := a.epp ++ [(t.name, (i + 5, i + 5 + byteLen t.text), v,
        (i + 5 + byteLen t.text + 1, i + 5 + byteLen t.text + 1 + byteLen (escQ v) + 2))] }) st)) := by
  have h0 : At src i ('%' :: 'e' :: 'p' :: 'p' :: ' ' :: (t.text ++ ' ' :: '"' :: (escQ v ++ '"' :: '\n' :: k))) := by
    simpa [renderDecl, kwOf, bodyOf] using h
  have hk0 : At src (i + 4) (' ' :: (t.text ++ ' ' :: '"' :: (escQ v ++ '"' :: '\n' :: k))) := by
    have := At.adv (a := ['%', 'e', 'p', 'p']) (by simpa using h0)
    rwa [show byteLen ['%', 'e', 'p', 'p'] = 4 by decide] at this
  have hk1 : At src (i + 4 + 1) (t.text ++ ' ' :: '"' :: (escQ v ++ '"' :: '\n' :: k)) := hk0.adv1 (by decide)
  have ht1 : At src (i + 4 + 1 + byteLen t.text) (' ' :: '"' :: (escQ v ++ '"' :: '\n' :: k)) := hk1.adv
  have ht2 : At src (i + 4 + 1 + byteLen t.text + 1) ('"' :: (escQ v ++ '"' :: '\n' :: k)) := ht1.adv1 (by decide)
  have ht3 : At src (i + 4 + 1 + byteLen t.text + 1 + 1) (escQ v ++ '"' :: '\n' :: k) := ht2.adv1 (by decide)
  have ht4 : At src (i + 4 + 1 + byteLen t.text + 1 + 1 + byteLen (escQ v)) ('"' :: '\n' :: k) := ht3.adv
  have ht5 : At src (i + 4 + 1 + byteLen t.text + 1 + 1 + byteLen (escQ v) + 1) ('\n' :: k) := ht4.adv1 (by decide)
  have hde : M.Ret (declEpp src fuel (i + 4)) st (i + 4 + 1 + byteLen t.text + 1 + 1 + byteLen (escQ v) + 1 + 1)
      (St.incNl 1 (St.mapAst (fun a => { a with epp := a.epp ++ [(t.name, (i + 4 + 1, i + 4 + 1 + byteLen t.text), v,
        (i + 4 + 1 + byteLen t.text + 1, i + 4 + 1 + byteLen t.text + 1 + (1 + byteLen (escQ v) + 1)))] }) st)) := by
    unfold declEpp
    refine M.Ret.bind (ws_false_space hk0 (wfTok_starts hw _).stops st) ?_
    refine M.Ret.bind (liftR_ret (parseToken_sep hk1 hw (.inl rfl))) ?_
    dsimp only
    refine M.Ret.bind (liftR_ret (mkSpan_le _ _)) ?_
    refine M.Ret.bind (ws_false_space ht1 (starts_cons _ ⟨by decide, by decide, by decide⟩).stops st) ?_
    refine M.Ret.bind (liftR_ret (parseString_at ht2 hv hf)) ?_
    dsimp only
    refine M.Ret.bind (liftR_ret (a := (i + 4 + 1 + byteLen t.text + 1, i + 4 + 1 + byteLen t.text + 1 + (1 + byteLen (escQ v) + 1))) (by
      rw [show i + 4 + 1 + byteLen t.text + 1 + 1 + byteLen (escQ v) + 1
        = i + 4 + 1 + byteLen t.text + 1 + (1 + byteLen (escQ v) + 1) by omega]
      exact mkSpan_le _ _)) ?_
    refine M.Ret.bind (M.Ret.bind (getSt_ret st) (by
      rw [hs]; exact modifyAst_ret _ st) : M.Ret (recordEpp _ _ _ _) st () _) ?_
    have := ws_nl ht5 hk.starts.stops
      (St.mapAst (fun a => { a with epp := a.epp ++ [(t.name, (i + 4 + 1, i + 4 + 1 + byteLen t.text), v,
        (i + 4 + 1 + byteLen t.text + 1, i + 4 + 1 + byteLen t.text + 1 + (1 + byteLen (escQ v) + 1)))] }) st)
    exact this
  unfold declStep
  la_skip h0 "%%"
  la_skip h0 "%token"
  law_skip h0 "%actiontype"
  la_skip h0 "%start"
  refine M.Ret.bind (la_yes' (j := i + 4) "%epp" (by simpa using h0) st
    (by rw [show byteLen "%epp".toList = 4 by decide])) ?_
  dsimp only
  refine M.Ret.bind hde ?_
  rw [show i + 4 + 1 + byteLen t.text + 1 + 1 + byteLen (escQ v) + 1 + 1 = i + 5 + byteLen t.text + 1 + byteLen (escQ v) + 2 + 1 by omega,
    show i + 4 + 1 = i + 5 by omega,
    show i + 5 + byteLen t.text + 1 + (1 + byteLen (escQ v) + 1) = i + 5 + byteLen t.text + 1 + byteLen (escQ v) + 2 by omega]
  exact M.Ret.pure

end GrmVerif.YaccRender
