import GrmVerif.Model.RecActions
import GrmVerif.Lemmas.Actions2
import GrmVerif.Lemmas.KeptRun
/-!
The recovering action driver `RecAct.recRunA` (C08, recovery on), part 1:
* erasing values, spans and log: `feedA` is `Rec.feed`, `applySeqA` is `Rec.applySeq`, and
  `recRunA` is `Rec.recRun` with the recoverer `recoverOf` (`recRunA_erase`);
* a `feedA` followed by a push is a run of `Act.stepA` (`feedA_shifted_stepsA`, `feedA_accept_stepsA`):
  the plain steps of the recovering driver are exactly the steps of the plain action driver.
-/
namespace GrmVerif.RecAct
open GrmVerif LR Act Rec Cert

/-! ### erasure -/

def FedA.erase : FedA → Fed
  | .shifted s' v => .shifted (s' :: v.pstack)
  | .accept v => .accept v.pstack
  | .error v => .error v.pstack
  | .crash => .crash
  | .fuelOut => .fuelOut

/-- one unfolding of `feedA` at a Reduce cell -/
theorem feedA_reduce {G : Grammar} {A : Automaton} {la fuel : Nat} {v : VCfg} {st : Nat} {tl : List Nat}
    {p prior s' : Nat} {rest : List Nat} (hps : v.pstack = st :: tl) (hact : A.action st la = .reduce p)
    (hd : (st :: tl).drop (G.rhs p).length = prior :: rest) (hg : A.goto prior (G.lhs p) = some s') :
    feedA G A la (fuel + 1) v = feedA G A la fuel (reduceV G p s' v) := by
  have hnotle : ¬ ((st :: tl).length ≤ (G.rhs p).length) := by
    intro hle
    rw [List.drop_eq_nil_of_le hle] at hd
    cases hd
  obtain ⟨ps, as, sp, lg⟩ := v
  simp only at hps
  subst hps
  simp only [feedA, hact, hnotle, ↓reduceIte, hd, hg]

/-- a Reduce cell whose reduction cannot be made (stack too short, no goto) is a crash -/
theorem feedA_reduce_crash {G : Grammar} {A : Automaton} {la fuel : Nat} {v : VCfg} {st : Nat} {tl : List Nat}
    {p : Nat} (hps : v.pstack = st :: tl) (hact : A.action st la = .reduce p)
    (hno : ¬ ∃ prior rest s', (st :: tl).drop (G.rhs p).length = prior :: rest ∧ A.goto prior (G.lhs p) = some s') :
    feedA G A la (fuel + 1) v = .crash := by
  obtain ⟨ps, as, sp, lg⟩ := v
  simp only at hps
  subst hps
  by_cases hle : (st :: tl).length ≤ (G.rhs p).length
  · simp only [feedA, hact]
    rw [if_pos hle]
  · cases hd : List.drop (G.rhs p).length (st :: tl) with
    | nil =>
      simp only [feedA, hact]
      rw [if_neg hle, hd]
    | cons prior rest =>
      cases hg : A.goto prior (G.lhs p) with
      | none =>
        simp only [feedA, hact]
        rw [if_neg hle, hd]
        simp only [hg]
      | some s' => exact absurd ⟨prior, rest, s', hd, hg⟩ hno

theorem feedA_erase (G : Grammar) (A : Automaton) (la : Nat) :
    ∀ (fuel : Nat) (v : VCfg), (feedA G A la fuel v).erase = feed G A la fuel v.pstack := by
  intro fuel
  induction fuel with
  | zero => intro v; rfl
  | succ n ih =>
    intro v
    obtain ⟨ps, as, sp, lg⟩ := v
    cases ps with
    | nil => rfl
    | cons st tl =>
      cases hact : A.action st la with
      | shift s' => simp [feedA, feed, hact, FedA.erase]
      | accept => simp [feedA, feed, hact, FedA.erase]
      | error => simp [feedA, feed, hact, FedA.erase]
      | reduce p =>
        by_cases hle : (st :: tl).length ≤ (G.rhs p).length
        · simp only [feedA, feed, hact]
          rw [if_pos hle, if_pos hle]; rfl
        · cases hd : List.drop (G.rhs p).length (st :: tl) with
          | nil =>
            simp only [feedA, feed, hact]
            rw [if_neg hle, if_neg hle, hd]; rfl
          | cons prior rest =>
            cases hg : A.goto prior (G.lhs p) with
            | none =>
              simp only [feedA, feed, hact]
              rw [if_neg hle, if_neg hle, hd]
              simp only [hg]; rfl
            | some s' =>
              rw [feedA_reduce (v := ⟨st :: tl, as, sp, lg⟩) rfl hact hd hg, ih]
              simp only [feed, hact]
              rw [if_neg hle, hd]
              simp only [hg, reduceV, hd]

/-- the answers of `feedA`, read through the erasure -/
theorem feedA_shifted_feed {G : Grammar} {A : Automaton} {la fuel : Nat} {v v' : VCfg} {s' : Nat}
    (h : feedA G A la fuel v = .shifted s' v') : feed G A la fuel v.pstack = .shifted (s' :: v'.pstack) := by
  rw [← feedA_erase, h]; rfl

theorem feedA_accept_feed {G : Grammar} {A : Automaton} {la fuel : Nat} {v v' : VCfg}
    (h : feedA G A la fuel v = .accept v') : feed G A la fuel v.pstack = .accept v'.pstack := by
  rw [← feedA_erase, h]; rfl

theorem feedA_error_feed {G : Grammar} {A : Automaton} {la fuel : Nat} {v v' : VCfg}
    (h : feedA G A la fuel v = .error v') : feed G A la fuel v.pstack = .error v'.pstack := by
  rw [← feedA_erase, h]; rfl

theorem feedA_crash_feed {G : Grammar} {A : Automaton} {la fuel : Nat} {v : VCfg}
    (h : feedA G A la fuel v = .crash) : feed G A la fuel v.pstack = .crash := by
  rw [← feedA_erase, h]; rfl

theorem feedA_fuelOut_feed {G : Grammar} {A : Automaton} {la fuel : Nat} {v : VCfg}
    (h : feedA G A la fuel v = .fuelOut) : feed G A la fuel v.pstack = .fuelOut := by
  rw [← feedA_erase, h]; rfl

/-- conversely, what `feed` answers on the state stack `feedA` answers with values -/
theorem feedA_of_feed_shifted {G : Grammar} {A : Automaton} {la fuel : Nat} {v : VCfg} {x : List Nat}
    (h : feed G A la fuel v.pstack = .shifted x) : ∃ s' v', feedA G A la fuel v = .shifted s' v' ∧ x = s' :: v'.pstack := by
  have he := feedA_erase G A la fuel v
  rw [h] at he
  cases hf : feedA G A la fuel v with
  | shifted s' v' => rw [hf] at he; simp only [FedA.erase, Fed.shifted.injEq] at he; exact ⟨s', v', rfl, he.symm⟩
  | accept v' => rw [hf] at he; cases he
  | error v' => rw [hf] at he; cases he
  | crash => rw [hf] at he; cases he
  | fuelOut => rw [hf] at he; cases he

theorem feedA_of_feed_error {G : Grammar} {A : Automaton} {la fuel : Nat} {v : VCfg} {x : List Nat}
    (h : feed G A la fuel v.pstack = .error x) : ∃ v', feedA G A la fuel v = .error v' ∧ x = v'.pstack := by
  have he := feedA_erase G A la fuel v
  rw [h] at he
  cases hf : feedA G A la fuel v with
  | error v' => rw [hf] at he; simp only [FedA.erase, Fed.error.injEq] at he; exact ⟨v', rfl, he.symm⟩
  | accept v' => rw [hf] at he; cases he
  | shifted s' v' => rw [hf] at he; cases he
  | crash => rw [hf] at he; cases he
  | fuelOut => rw [hf] at he; cases he

def RACfg.pos (c : RACfg) : Pos := ⟨c.v.pstack, c.laidx⟩

theorem applyRepairA_erase (G : Grammar) (A : Automaton) (w : List Nat) (lexSpan : Nat → Nat × Nat)
    (c : RACfg) (r : Repair) :
    (applyRepairA G A w lexSpan c r).map RACfg.pos = applyRepair G A w c.pos r := by
  cases r with
  | insert t =>
    simp only [applyRepairA, applyRepair, RACfg.pos]
    have he := feedA_erase G A t FUEL c.v
    cases hf : feedA G A t FUEL c.v with
    | shifted s' v' => rw [hf] at he; simp only [FedA.erase] at he; rw [← he]; rfl
    | accept v' => rw [hf] at he; simp only [FedA.erase] at he; rw [← he]; rfl
    | error v' => rw [hf] at he; simp only [FedA.erase] at he; rw [← he]; rfl
    | crash => rw [hf] at he; simp only [FedA.erase] at he; rw [← he]; rfl
    | fuelOut => rw [hf] at he; simp only [FedA.erase] at he; rw [← he]; rfl
  | delete =>
    simp only [applyRepairA, applyRepair, RACfg.pos]
    by_cases h : c.laidx < w.length
    · simp [h, RACfg.pos]
    · simp [h]
  | shift =>
    simp only [applyRepairA, applyRepair, RACfg.pos]
    cases hw : w[c.laidx]? with
    | none => rfl
    | some t =>
      simp only
      have he := feedA_erase G A t FUEL c.v
      cases hf : feedA G A t FUEL c.v with
      | shifted s' v' => rw [hf] at he; simp only [FedA.erase] at he; rw [← he]; rfl
      | accept v' => rw [hf] at he; simp only [FedA.erase] at he; rw [← he]; rfl
      | error v' => rw [hf] at he; simp only [FedA.erase] at he; rw [← he]; rfl
      | crash => rw [hf] at he; simp only [FedA.erase] at he; rw [← he]; rfl
      | fuelOut => rw [hf] at he; simp only [FedA.erase] at he; rw [← he]; rfl

theorem applySeqA_erase (G : Grammar) (A : Automaton) (w : List Nat) (lexSpan : Nat → Nat × Nat) :
    ∀ (rs : List Repair) (c : RACfg),
      (applySeqA G A w lexSpan c rs).map RACfg.pos = applySeq G A w c.pos rs := by
  intro rs
  induction rs with
  | nil => intro c; rfl
  | cons r rs ih =>
    intro c
    have h1 := applyRepairA_erase G A w lexSpan c r
    simp only [applySeqA, applySeq]
    cases hr : applyRepairA G A w lexSpan c r with
    | none => rw [hr] at h1; simp only [Option.map_none] at h1; rw [← h1]; rfl
    | some c1 => rw [hr] at h1; simp only [Option.map_some] at h1; rw [← h1]; exact ih c1

/-- **Erasing values, spans and log from the recovering action driver gives `Rec.recRun`** with the
recoverer "report the sequences, continue from `applySeq` of the first": same error list, and the value
flag of `recRun` is "a value was returned (or the Accept arm met a malformed value stack)". -/
theorem recRunA_erase (G : Grammar) (A : Automaton) (w : List Nat) (lexSpan : Nat → Nat × Nat)
    (recover : Pos → List (List Repair)) :
    ∀ (fuel : Nat) (c : RACfg) (errs : List Err),
      recRun G A w (recoverOf G A w recover) fuel c.pos errs =
        (acceptish (recRunA G A w lexSpan recover fuel c errs).1, (recRunA G A w lexSpan recover fuel c errs).2.2) := by
  intro fuel
  induction fuel with
  | zero => intro c errs; rfl
  | succ n ih =>
    intro c errs
    simp only [recRun, recRunA, RACfg.pos]
    have he := feedA_erase G A (nextTok G w c.laidx) FUEL c.v
    cases hf : feedA G A (nextTok G w c.laidx) FUEL c.v with
    | shifted s' v' =>
      rw [hf] at he; simp only [FedA.erase] at he; rw [← he]
      exact ih ⟨pushLex s' (nextTok G w c.laidx) c.laidx (lexSpan c.laidx) v', c.laidx + 1⟩ errs
    | accept v' =>
      rw [hf] at he; simp only [FedA.erase] at he; rw [← he]
      simp only [acceptOut]
      cases v'.astack.getLast? with
      | none => rfl
      | some t => cases t <;> rfl
    | crash => rw [hf] at he; simp only [FedA.erase] at he; rw [← he]; rfl
    | fuelOut => rw [hf] at he; simp only [FedA.erase] at he; rw [← he]; rfl
    | error v' =>
      rw [hf] at he; simp only [FedA.erase] at he; rw [← he]
      simp only [recoverOf]
      cases hrec : recover ⟨v'.pstack, c.laidx⟩ with
      | nil => rfl
      | cons s0 rest =>
        simp only
        have hs := applySeqA_erase G A w lexSpan s0 ⟨v', c.laidx⟩
        simp only [RACfg.pos] at hs
        cases ha : applySeqA G A w lexSpan ⟨v', c.laidx⟩ s0 with
        | none => rw [ha] at hs; simp only [Option.map_none] at hs; rw [← hs]; rfl
        | some c' =>
          rw [ha] at hs; simp only [Option.map_some] at hs; rw [← hs]
          simp only [List.isEmpty_cons, Bool.false_eq_true, ↓reduceIte]
          exact ih c' _

end GrmVerif.RecAct
