import GrmVerif.Lemmas.Costs
/-! Upper-bound certificate for maximal sentence costs. -/
namespace GrmVerif.Spec
open GrmVerif Ref

theorem derivesSeq_usable {G : Grammar} {prodv : Nat → Bool}
    (hprod : ∀ q, prodv q = false → ¬ ∃ w, Derives G (.rule q) w) :
    ∀ {l : List Sym} {w : List Nat}, DerivesSeq G l w →
      l.all (usableSym prodv) = true
  | _, _, .nil => by simp
  | _, _, .cons s rest w1 w2 h1 h2 => by
    have ih := derivesSeq_usable hprod h2
    simp only [List.all_cons, Bool.and_eq_true]
    refine ⟨?_, ih⟩
    cases s with
    | tok t => rfl
    | rule q =>
      cases hq : prodv q with
      | true => simp [usableSym, hq]
      | false => exact absurd ⟨w1, h1⟩ (hprod q hq)

mutual
theorem derives_upper {G : Grammar} {tc : Nat → Nat} {prodv : Nat → Bool} {ub : Nat → Option Nat}
    (hcert : upperBoundOk G tc prodv ub = true)
    (hprod : ∀ q, prodv q = false → ¬ ∃ w, Derives G (.rule q) w) :
    ∀ {s : Sym} {w : List Nat}, Derives G s w → ∀ b, symCost tc ub s = some b → cost tc w ≤ b
  | _, _, .tok t, b, hb => by simp only [symCost, Option.some.injEq] at hb; simp [cost, hb]
  | _, _, .rule p w hp hseq, b, hb => by
    have hus := derivesSeq_usable hprod hseq
    have hcert' := hcert
    simp only [upperBoundOk, List.all_eq_true, List.mem_range, Bool.or_eq_true, Bool.not_eq_true'] at hcert'
    have hc := hcert' p hp
    simp only [symCost] at hb
    rcases hc with hc | hc
    · simp only [usableProd] at hc; rw [hus] at hc; cases hc
    · rw [hb] at hc
      simp only at hc
      cases hsc : seqCost tc ub (G.rhs p) with
      | none => rw [hsc] at hc; simp at hc
      | some v =>
        rw [hsc] at hc
        have hv : v ≤ b := by simpa using hc
        have := derivesSeq_upper hcert hprod hseq v hsc
        omega
theorem derivesSeq_upper {G : Grammar} {tc : Nat → Nat} {prodv : Nat → Bool} {ub : Nat → Option Nat}
    (hcert : upperBoundOk G tc prodv ub = true)
    (hprod : ∀ q, prodv q = false → ¬ ∃ w, Derives G (.rule q) w) :
    ∀ {l : List Sym} {w : List Nat}, DerivesSeq G l w → ∀ v, seqCost tc ub l = some v → cost tc w ≤ v
  | _, _, .nil, v, hv => by simp [cost]
  | _, _, .cons s rest w1 w2 h1 h2, v, hv => by
    simp only [seqCost] at hv
    cases hs : symCost tc ub s with
    | none => simp [hs, addO] at hv
    | some a =>
      cases hr : seqCost tc ub rest with
      | none => simp [hs, hr, addO] at hv
      | some b =>
        simp only [hs, hr, addO, Option.some.injEq] at hv
        have i1 := derives_upper hcert hprod h1 a hs
        have i2 := derivesSeq_upper hcert hprod h2 b hr
        rw [cost_append]; omega
end

end GrmVerif.Spec
