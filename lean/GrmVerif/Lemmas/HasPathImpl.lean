import GrmVerif.Model.CostsImpl
import GrmVerif.Lemmas.ImplLoop
import GrmVerif.Lemmas.Analyses2
/-! The model of `YaccGrammar::has_path` (`Impl.hasPath`): invariant of the work-list sweeps, termination
within `nrules + 1` sweeps, and exactness w.r.t. `Spec.Reach`. -/
namespace GrmVerif.Impl
open GrmVerif Spec

/-! ### loops that may return -/

/-- the outcome of a loop body satisfies: `I` of the next state, `R` of a returned value, no panic -/
def Flow.Sat {σ : Type} (I : σ → Prop) (R : Bool → Prop) : Flow σ → Prop
  | .next s => I s
  | .ret b => R b
  | .panic => False

theorem Flow.Sat.imp {σ : Type} {I I' : σ → Prop} {R : Bool → Prop} {x : Flow σ}
    (h : Flow.Sat I R x) (hi : ∀ s, I s → I' s) : Flow.Sat I' R x := by
  cases x with
  | next s => exact hi s h
  | ret b => exact h
  | panic => exact h

/-- a loop whose body keeps `I`, establishes `Q a` for the element it handles and keeps every `Q b`
already established, ends (if it does not return) in a state where `Q` holds of every element -/
theorem iterF_all {σ α : Type} (f : σ → α → Flow σ) (Q : α → σ → Prop) (R : Bool → Prop) :
    ∀ (l : List α) (I : σ → Prop) (s : σ), I s →
      (∀ s a, a ∈ l → I s → Flow.Sat (fun s' => I s' ∧ Q a s' ∧ ∀ b, Q b s → Q b s') R (f s a)) →
      Flow.Sat (fun s' => I s' ∧ ∀ a ∈ l, Q a s') R (iterF f l s) := by
  intro l
  induction l with
  | nil => intro I s hI _; exact ⟨hI, by simp⟩
  | cons a l ih =>
    intro I s hI hf
    have h1 := hf s a (by simp) hI
    simp only [iterF]
    cases hfa : f s a with
    | next s1 =>
      rw [hfa] at h1
      obtain ⟨hI1, hQ1, hst1⟩ := h1
      simp only []
      -- strengthen the invariant for the rest of the loop with `Q a`
      have := ih (fun s => I s ∧ Q a s) s1 ⟨hI1, hQ1⟩ (by
        intro s2 b hb hI2
        have h2 := hf s2 b (by simp [hb]) hI2.1
        cases hfb : f s2 b with
        | next s3 =>
          rw [hfb] at h2
          exact ⟨⟨h2.1, h2.2.2 a hI2.2⟩, h2.2.1, h2.2.2⟩
        | ret b' => rw [hfb] at h2; exact h2
        | panic => rw [hfb] at h2; exact h2)
      refine this.imp ?_
      intro s' ⟨⟨hI', hQa⟩, hall⟩
      refine ⟨hI', ?_⟩
      intro b hb
      rcases List.mem_cons.mp hb with rfl | hb
      · exact hQa
      · exact hall b hb
    | ret b => rw [hfa] at h1; exact h1
    | panic => rw [hfa] at h1; exact h1

/-! ### bit vectors -/

theorem vget_lt {v : List Bool} {i : Nat} (h : vget v i = true) : i < v.length := by
  unfold vget at h
  rw [List.getD_eq_getElem?_getD] at h
  by_cases hi : i < v.length
  · exact hi
  · rw [List.getElem?_eq_none (by omega)] at h; cases h

theorem vget_vclear (v : List Bool) (i j : Nat) : vget (vclear v i) j = (!decide (j = i) && vget v j) := by
  unfold vget vclear
  rw [List.getD_eq_getElem?_getD, List.getD_eq_getElem?_getD, List.getElem?_set]
  by_cases h : i = j
  · subst h
    by_cases hi : i < v.length
    · simp [hi]
    · simp [hi]
  · have : ¬ j = i := fun e => h e.symm
    simp [h, this]

theorem vget_replicate_false (n i : Nat) : vget (List.replicate n false) i = false := by
  unfold vget
  rw [List.getD_eq_getElem?_getD, List.getElem?_replicate]
  split <;> rfl

theorem vset_length (v : List Bool) (i : Nat) : (vset v i).length = v.length := by simp [vset]
theorem vclear_length (v : List Bool) (i : Nat) : (vclear v i).length = v.length := by simp [vclear]

/-! ### the invariant of `has_path` -/

/-- rule `q` occurs in a production of rule `r` -/
def Succ (G : Grammar) (r q : Nat) : Prop := ∃ p, p < G.nprods ∧ G.lhs p = r ∧ Sym.rule q ∈ G.rhs p

theorem reach_succ {G : Grammar} {A r q : Nat} (hr : r = A ∨ Reach G A r) (hs : Succ G r q) : Reach G A q := by
  obtain ⟨p, hp, hl, hm⟩ := hs
  rcases hr with rfl | hr
  · rw [← hl]; exact .edge p q hp hm
  · rw [← hl] at hr; exact .step A p q hr hp hm

/-- `q` has been looked at: it is not the target and is seen or queued -/
def Looked (T : Nat) (s : HP) (q : Nat) : Prop := q ≠ T ∧ (vget s.seen q = true ∨ vget s.todo q = true)

/-- every successor of `r` has been looked at -/
def Closed (G : Grammar) (T : Nat) (s : HP) (r : Nat) : Prop := ∀ q, Succ G r q → Looked T s q

structure HInv (G : Grammar) (A : Nat) (s : HP) : Prop where
  slen : s.seen.length = G.nrules
  tlen : s.todo.length = G.nrules
  /-- whatever is seen or queued is the source or reachable from it -/
  snd : ∀ r, vget s.seen r = true ∨ vget s.todo r = true → r = A ∨ Reach G A r
  /-- queued rules are not yet seen -/
  disj : ∀ r, vget s.todo r = true → vget s.seen r = false
  /-- the source is seen or queued -/
  src : vget s.seen A = true ∨ vget s.todo A = true

/-- `s'` has the same `seen` and at least the `todo` bits of `s` -/
def TodoLe (s s' : HP) : Prop := s'.seen = s.seen ∧ ∀ x, vget s.todo x = true → vget s'.todo x = true

theorem TodoLe.refl (s : HP) : TodoLe s s := ⟨rfl, fun _ h => h⟩
theorem TodoLe.trans {a b c : HP} (h1 : TodoLe a b) (h2 : TodoLe b c) : TodoLe a c :=
  ⟨h2.1.trans h1.1, fun x h => h2.2 x (h1.2 x h)⟩

theorem Looked.mono {T : Nat} {s s' : HP} {q : Nat} (hl : TodoLe s s') (h : Looked T s q) : Looked T s' q := by
  refine ⟨h.1, ?_⟩
  rcases h.2 with h | h
  · left; rw [hl.1]; exact h
  · right; exact hl.2 q h

/-- state inside the processing of rule `r` (`seen[r]` already set, `todo[r]` cleared) -/
structure HMid (G : Grammar) (A T r : Nat) (s : HP) : Prop where
  inv : HInv G A s
  seenr : vget s.seen r = true
  reachr : r = A ∨ Reach G A r
  notEmpty : s.empty = false
  others : ∀ r', r' ≠ r → vget s.seen r' = true → Closed G T s r'

theorem hpSym_sat (G : Grammar) (hwf : G.wf = true) (A T r : Nat) (s0 s : HP) (sym : Sym)
    (hsym : ∃ p, p < G.nprods ∧ G.lhs p = r ∧ sym ∈ G.rhs p)
    (hI : HMid G A T r s ∧ TodoLe s0 s) :
    Flow.Sat (fun s' => (HMid G A T r s' ∧ TodoLe s0 s') ∧
        (∀ q, sym = .rule q → Looked T s' q) ∧
        ∀ b : Sym, (∀ q, b = .rule q → Looked T s q) → (∀ q, b = .rule q → Looked T s' q))
      (fun b => b = true ∧ Reach G A T) (hpSym G T s sym) := by
  obtain ⟨hM, hle⟩ := hI
  obtain ⟨p, hp, hl, hmem⟩ := hsym
  cases sym with
  | tok t =>
    simp only [hpSym, Flow.Sat]
    exact ⟨⟨hM, hle⟩, (by intro q hq; cases hq), fun b hb => hb⟩
  | rule q =>
    have hq : q < G.nrules := by simpa [Grammar.symOk] using wf_sym hwf hp hmem
    have hsucc : Succ G r q := ⟨p, hp, hl, hmem⟩
    have hreach : Reach G A q := reach_succ hM.reachr hsucc
    simp only [hpSym]
    by_cases hT : q = T
    · simp only [hT, if_true, Flow.Sat]
      exact ⟨trivial, hT ▸ hreach⟩
    · simp only [hT, if_false, hq, if_true]
      by_cases hs : vget s.seen q = true
      · simp only [hs, if_true, Flow.Sat]
        refine ⟨⟨hM, hle⟩, ?_, fun b hb => hb⟩
        intro q' hq'
        cases hq'
        exact ⟨hT, Or.inl hs⟩
      · have hs' : vget s.seen q = false := by simpa using hs
        simp only [hs', Bool.false_eq_true, if_false, Flow.Sat]
        have hqt : q < s.todo.length := by rw [hM.inv.tlen]; exact hq
        have hle1 : TodoLe s { s with todo := vset s.todo q } :=
          ⟨rfl, fun x hx => vget_vset_mono _ _ _ hx⟩
        refine ⟨⟨?_, hle.trans hle1⟩, ?_, fun b hb q' hq' => (hb q' hq').mono hle1⟩
        · refine ⟨⟨hM.inv.slen, by simp [vset, hM.inv.tlen], ?_, ?_, ?_⟩, hM.seenr, hM.reachr, hM.notEmpty, ?_⟩
          · intro x hx
            simp only [vget_vset _ _ _ hqt, Bool.or_eq_true, decide_eq_true_eq] at hx
            rcases hx with hx | rfl | hx
            · exact hM.inv.snd x (Or.inl hx)
            · exact Or.inr hreach
            · exact hM.inv.snd x (Or.inr hx)
          · intro x hx
            simp only [vget_vset _ _ _ hqt, Bool.or_eq_true, decide_eq_true_eq] at hx
            rcases hx with rfl | hx
            · exact hs'
            · exact hM.inv.disj x hx
          · rcases hM.inv.src with h | h
            · exact Or.inl h
            · exact Or.inr (vget_vset_mono _ _ _ h)
          · intro r' hne hseen q' hq'
            exact (hM.others r' hne hseen q' hq').mono hle1
        · intro q' hq'
          cases hq'
          refine ⟨hT, Or.inr ?_⟩
          simp [vget_vset _ _ _ hqt]

/-- the two inner loops of the body for rule `r` -/
theorem hpProds_sat (G : Grammar) (hwf : G.wf = true) (A T r : Nat) (s : HP) (hM : HMid G A T r s) :
    Flow.Sat (fun s' => (HMid G A T r s' ∧ TodoLe s s') ∧ Closed G T s' r)
      (fun b => b = true ∧ Reach G A T) (iterF (hpProd G T) (G.prodsOf r) s) := by
  have := iterF_all (hpProd G T)
    (fun p s' => ∀ sym ∈ G.rhs p, ∀ q, sym = .rule q → Looked T s' q)
    (fun b => b = true ∧ Reach G A T) (G.prodsOf r) (fun s' => HMid G A T r s' ∧ TodoLe s s') s
    ⟨hM, TodoLe.refl s⟩ (by
      intro s1 p hp hI1
      obtain ⟨hp1, hp2⟩ := mem_prodsOf.mp hp
      have := iterF_all (hpSym G T)
        (fun sym s' => ∀ q, sym = .rule q → Looked T s' q)
        (fun b => b = true ∧ Reach G A T) (G.rhs p)
        (fun s' => (HMid G A T r s' ∧ TodoLe s s') ∧ TodoLe s1 s') s1 ⟨hI1, TodoLe.refl s1⟩ (by
          intro s2 sym hsym hI2
          have h := hpSym_sat G hwf A T r s1 s2 sym ⟨p, hp1, hp2, hsym⟩ ⟨hI2.1.1, hI2.2⟩
          cases hx : hpSym G T s2 sym with
          | next s3 =>
            rw [hx] at h
            obtain ⟨⟨h1, h2⟩, h3, h4⟩ := h
            have h5 := hpSym_sat G hwf A T r s s2 sym ⟨p, hp1, hp2, hsym⟩ ⟨hI2.1.1, hI2.1.2⟩
            rw [hx] at h5
            exact ⟨⟨⟨h1, h5.1.2⟩, h2⟩, h3, h4⟩
          | ret b => rw [hx] at h; exact h
          | panic => rw [hx] at h; exact h)
      unfold hpProd
      refine this.imp ?_
      intro s' ⟨⟨hI', hle'⟩, hall⟩
      refine ⟨hI', fun sym hs q hq => hall sym hs q hq, ?_⟩
      intro p' hp' sym hs q hq
      exact (hp' sym hs q hq).mono hle')
  refine this.imp ?_
  intro s' ⟨hI', hall⟩
  refine ⟨hI', ?_⟩
  intro q ⟨p, hp, hl, hm⟩
  exact hall p (mem_prodsOf.mpr ⟨hp, hl⟩) _ hm q rfl

/-- the invariant between two iterations of `for ridx in self.iter_rules()` -/
structure HGood (G : Grammar) (A T : Nat) (s : HP) : Prop where
  inv : HInv G A s
  closed : ∀ r, vget s.seen r = true → Closed G T s r

/-- relation between the state before and after one rule of a sweep -/
structure HRel (G : Grammar) (s s' : HP) : Prop where
  mono : ∀ x, vget s.seen x = true → vget s'.seen x = true
  grew : s'.empty = false → s.empty = false ∨ ∃ x, x < G.nrules ∧ vget s.seen x = false ∧ vget s'.seen x = true
  same : s'.empty = true → s'.todo = s.todo ∧ s.empty = true

theorem HRel.refl (G : Grammar) (s : HP) : HRel G s s :=
  ⟨fun _ h => h, fun h => Or.inl h, fun h => ⟨rfl, h⟩⟩

theorem HRel.trans {G : Grammar} {a b c : HP} (h1 : HRel G a b) (h2 : HRel G b c) : HRel G a c := by
  refine ⟨fun x h => h2.mono x (h1.mono x h), ?_, ?_⟩
  · intro hc
    rcases h2.grew hc with hb | ⟨x, hx, h0, h1'⟩
    · rcases h1.grew hb with ha | ⟨x, hx, h0, h1'⟩
      · exact Or.inl ha
      · exact Or.inr ⟨x, hx, h0, h2.mono x h1'⟩
    · refine Or.inr ⟨x, hx, ?_, h1'⟩
      cases ha : vget a.seen x with
      | false => rfl
      | true => rw [h1.mono x ha] at h0; cases h0
  · intro hc
    obtain ⟨e2, hb⟩ := h2.same hc
    obtain ⟨e1, ha⟩ := h1.same hb
    exact ⟨e2.trans e1, ha⟩

theorem hpRule_sat (G : Grammar) (hwf : G.wf = true) (A T : Nat) (s : HP) (r : Nat) (hr : r < G.nrules)
    (hG : HGood G A T s) :
    Flow.Sat (fun s' => HGood G A T s' ∧ HRel G s s' ∧ (s'.empty = true → vget s'.todo r = false))
      (fun b => b = true ∧ Reach G A T) (hpRule G T s r) := by
  unfold hpRule
  by_cases ht : vget s.todo r = true
  · simp only [ht, if_true]
    have hns : vget s.seen r = false := hG.inv.disj r ht
    have hrs : r < s.seen.length := by rw [hG.inv.slen]; exact hr
    let s1 : HP := { seen := vset s.seen r, todo := vclear s.todo r, empty := false }
    have hM : HMid G A T r s1 := by
      refine ⟨⟨by simp [s1, vset, hG.inv.slen], by simp [s1, vclear, hG.inv.tlen], ?_, ?_, ?_⟩, ?_, ?_, rfl, ?_⟩
      · intro x hx
        simp only [s1, vget_vset _ _ _ hrs, vget_vclear, Bool.or_eq_true, decide_eq_true_eq,
          Bool.and_eq_true, Bool.not_eq_true', decide_eq_false_iff_not] at hx
        rcases hx with (rfl | hx) | ⟨_, hx⟩
        · exact hG.inv.snd x (Or.inr ht)
        · exact hG.inv.snd x (Or.inl hx)
        · exact hG.inv.snd x (Or.inr hx)
      · intro x hx
        simp only [s1, vget_vset _ _ _ hrs, vget_vclear, Bool.and_eq_true, Bool.not_eq_true',
          decide_eq_false_iff_not] at hx ⊢
        have := hG.inv.disj x hx.2
        simp [hx.1, this]
      · rcases hG.inv.src with h | h
        · left; exact vget_vset_mono _ _ _ h
        · by_cases hA : A = r
          · left; simp [s1, vget_vset _ _ _ hrs, hA]
          · right; simp [s1, vget_vclear, hA, h]
      · simp [s1, vget_vset _ _ _ hrs]
      · exact hG.inv.snd r (Or.inr ht)
      · intro r' hne hseen q hq
        simp only [s1, vget_vset _ _ _ hrs, Bool.or_eq_true, decide_eq_true_eq] at hseen
        rcases hseen with rfl | hseen
        · exact absurd rfl hne
        · obtain ⟨h1, h2⟩ := hG.closed r' hseen q hq
          refine ⟨h1, ?_⟩
          rcases h2 with h2 | h2
          · left; exact vget_vset_mono _ _ _ h2
          · by_cases hqr : q = r
            · left; simp [s1, vget_vset _ _ _ hrs, hqr]
            · right; simp [s1, vget_vclear, hqr, h2]
    refine (hpProds_sat G hwf A T r s1 hM).imp ?_
    intro s' ⟨⟨hM', hle⟩, hcl⟩
    refine ⟨⟨hM'.inv, ?_⟩, ⟨?_, ?_, ?_⟩, ?_⟩
    · intro r' hseen
      by_cases hne : r' = r
      · subst hne; exact hcl
      · exact hM'.others r' hne hseen
    · intro x hx
      rw [hle.1]
      exact vget_vset_mono _ _ _ hx
    · intro _
      refine Or.inr ⟨r, hr, hns, ?_⟩
      rw [hle.1]; simp [s1, vget_vset _ _ _ hrs]
    · intro he; rw [hM'.notEmpty] at he; cases he
    · intro he; rw [hM'.notEmpty] at he; cases he
  · have ht' : vget s.todo r = false := by simpa using ht
    simp only [ht', Bool.false_eq_true, if_false, Flow.Sat]
    exact ⟨hG, HRel.refl G s, fun _ => trivial⟩

theorem hpSweep_sat (G : Grammar) (hwf : G.wf = true) (A T : Nat) (s : HP) (hG : HGood G A T s) :
    Flow.Sat (fun s' => HGood G A T s' ∧ (∀ x, vget s.seen x = true → vget s'.seen x = true) ∧
        (s'.empty = false → ∃ x, x < G.nrules ∧ vget s.seen x = false ∧ vget s'.seen x = true) ∧
        (s'.empty = true → ∀ r, vget s'.todo r = false))
      (fun b => b = true ∧ Reach G A T) (hpSweep G T s) := by
  unfold hpSweep
  let s0 : HP := { s with empty := true }
  have hG0 : HGood G A T s0 := ⟨⟨hG.inv.slen, hG.inv.tlen, hG.inv.snd, hG.inv.disj, hG.inv.src⟩, hG.closed⟩
  have := iterF_all (hpRule G T)
    (fun r s' => s'.empty = true → vget s'.todo r = false)
    (fun b => b = true ∧ Reach G A T) (List.range G.nrules) (fun s' => HGood G A T s' ∧ HRel G s0 s') s0
    ⟨hG0, HRel.refl G s0⟩ (by
      intro s1 r hr hI1
      have hr' : r < G.nrules := by simpa using hr
      refine (hpRule_sat G hwf A T s1 r hr' hI1.1).imp ?_
      intro s2 ⟨h1, h2, h3⟩
      refine ⟨⟨h1, hI1.2.trans h2⟩, h3, ?_⟩
      intro b hb he
      obtain ⟨e, he1⟩ := h2.same he
      rw [e]; exact hb he1)
  refine this.imp ?_
  intro s' ⟨⟨hG', hrel⟩, hall⟩
  refine ⟨hG', hrel.mono, ?_, ?_⟩
  · intro he
    rcases hrel.grew he with h | h
    · cases h
    · exact h
  · intro he r
    by_cases hr : r < G.nrules
    · exact hall r (by simpa using hr) he
    · cases hv : vget s'.todo r with
      | false => rfl
      | true => have := vget_lt hv; rw [hG'.inv.tlen] at this; omega

/-! ### the outer loop -/

/-- rules not yet seen -/
def hpMu (G : Grammar) (s : HP) : Nat := mu (fun (s : HP) x => vget s.seen x) (List.range G.nrules) s

theorem not_reach_of_closed {G : Grammar} {A T : Nat} {s : HP} (hG : HGood G A T s)
    (hno : ∀ r, vget s.todo r = false) : ∀ B, Reach G A B → B ≠ T ∧ vget s.seen B = true := by
  have hA : vget s.seen A = true := by
    rcases hG.inv.src with h | h
    · exact h
    · rw [hno A] at h; cases h
  have key : ∀ r q, vget s.seen r = true → Succ G r q → q ≠ T ∧ vget s.seen q = true := by
    intro r q hr hs
    obtain ⟨h1, h2⟩ := hG.closed r hr q hs
    refine ⟨h1, ?_⟩
    rcases h2 with h2 | h2
    · exact h2
    · rw [hno q] at h2; cases h2
  intro B hB
  induction hB with
  | edge p B hp hm => exact key _ B hA ⟨p, hp, rfl, hm⟩
  | step A' p B _ hp hm ih => exact key _ B (ih hG hA).2 ⟨p, hp, rfl, hm⟩

theorem hpLoop_spec (G : Grammar) (hwf : G.wf = true) (A T : Nat) :
    ∀ (fuel : Nat) (s : HP), HGood G A T s → hpMu G s < fuel →
      ∃ b, hpLoop G T fuel s = .done b ∧ (b = true ↔ Reach G A T) := by
  intro fuel
  induction fuel with
  | zero => intro s _ h; omega
  | succ n ih =>
    intro s hG hmu
    have hs := hpSweep_sat G hwf A T s hG
    simp only [hpLoop]
    cases hx : hpSweep G T s with
    | panic => rw [hx] at hs; exact hs.elim
    | ret b =>
      rw [hx] at hs
      exact ⟨b, rfl, fun _ => hs.2, fun _ => hs.1⟩
    | next s' =>
      rw [hx] at hs
      obtain ⟨hG', hmono, hgrew, hempty⟩ := hs
      simp only []
      cases he : s'.empty with
      | true =>
        simp only [if_true]
        refine ⟨false, rfl, ?_⟩
        constructor
        · intro h; cases h
        · intro hr
          exact absurd rfl (not_reach_of_closed hG' (hempty he) T hr).1
      | false =>
        simp only [Bool.false_eq_true, if_false]
        apply ih s' hG'
        obtain ⟨x, hx, h0, h1⟩ := hgrew he
        have : hpMu G s' < hpMu G s := by
          apply mu_lt
          · exact hmono
          · exact ⟨x, by simpa using hx, h0, h1⟩
        omega

theorem hpInit_good (G : Grammar) (A T : Nat) (hA : A < G.nrules) : HGood G A T (hpInit G A) := by
  have hlen : A < (List.replicate G.nrules false).length := by simpa using hA
  refine ⟨⟨by simp [hpInit], by simp [hpInit, vset], ?_, ?_, ?_⟩, ?_⟩
  · intro r hr
    simp only [hpInit, vget_replicate_false, vget_vset _ _ _ hlen, Bool.or_false, decide_eq_true_eq,
      Bool.false_eq_true, false_or] at hr
    exact Or.inl hr
  · intro r _; simp [hpInit, vget_replicate_false]
  · right; simp [hpInit, vget_vset _ _ _ hlen]
  · intro r hr
    simp [hpInit, vget_replicate_false] at hr

/-- **`has_path` is exact and terminates** (model level): no panic, at most `nrules + 1` sweeps, and
the answer is `Reach` -/
theorem hasPath_exact (G : Grammar) (hwf : G.wf = true) (A T : Nat) (hA : A < G.nrules) :
    ∃ b, (∀ fuel, G.nrules + 1 ≤ fuel → hasPath G A T fuel = .done b) ∧ (b = true ↔ Reach G A T) := by
  have hmu : hpMu G (hpInit G A) ≤ G.nrules := by
    have := mu_le_length (fun (s : HP) x => vget s.seen x) (List.range G.nrules) (hpInit G A)
    simpa [hpMu] using this
  obtain ⟨b, hb, hiff⟩ := hpLoop_spec G hwf A T (G.nrules + 1) (hpInit G A) (hpInit_good G A T hA) (by omega)
  refine ⟨b, ?_, hiff⟩
  intro fuel hf
  obtain ⟨b', hb', hiff'⟩ := hpLoop_spec G hwf A T fuel (hpInit G A) (hpInit_good G A T hA) (by omega)
  have : b' = b := by
    cases b <;> cases b' <;> simp_all
  subst this
  simp [hasPath, hA, hb']

end GrmVerif.Impl
