import GrmVerif.Lemmas.LexUnique
/-! Helper lemmas for C09: the reference lexer `specRun` (right-to-left choice, plain stack) satisfies
the run relation, hence produces the same events as the model. -/
namespace GrmVerif.Lex

theorem candLen_some {cur : St} {mli : Nat → Option Nat} {r : Rule} {k l : Nat}
    (h : candLen cur mli r k = some l) : Active cur r ∧ mli k = some l ∧ 0 < l := by
  unfold candLen at h
  by_cases ha : Active cur r
  · simp only [ha, if_true] at h
    cases hm : mli k with
    | none => simp [hm] at h
    | some l' =>
      simp only [hm] at h
      by_cases hp : 0 < l'
      · simp [hp] at h; subst h; exact ⟨ha, rfl, hp⟩
      · simp [hp] at h
  · simp [ha] at h

theorem candLen_none {cur : St} {mli : Nat → Option Nat} {r : Rule} {k : Nat}
    (h : candLen cur mli r k = none) : ∀ l, Active cur r → mli k = some l → l = 0 := by
  intro l ha hm
  unfold candLen at h
  simp only [ha, if_true, hm] at h
  by_cases hp : 0 < l
  · simp [hp] at h
  · omega

/-- what `bestFrom` on the rules from index `k` on establishes -/
def BestInv (all : List Rule) (cur : St) (mli : Nat → Option Nat) (k : Nat) : Option (Nat × Nat) → Prop
  | none => ∀ j r l, k ≤ j → all[j]? = some r → Active cur r → mli j = some l → l = 0
  | some (x, L) => k ≤ x ∧ 0 < L ∧ (∃ r, all[x]? = some r ∧ Active cur r) ∧ mli x = some L ∧
      (∀ j r l, k ≤ j → all[j]? = some r → Active cur r → mli j = some l → l ≤ L) ∧
      (∀ j r, k ≤ j → all[j]? = some r → Active cur r → mli j = some L → x ≤ j)

theorem bestFrom_inv (all : List Rule) (cur : St) (mli : Nat → Option Nat) :
    ∀ (rs : List Rule) (k : Nat), all.drop k = rs → BestInv all cur mli k (bestFrom cur mli rs k) := by
  intro rs
  induction rs with
  | nil =>
    intro k hd
    have hk : all.length ≤ k := by
      by_cases hk : all.length ≤ k
      · exact hk
      · have := List.drop_eq_getElem_cons (l := all) (i := k) (by omega)
        rw [hd] at this; cases this
    simp only [bestFrom, BestInv]
    intro j r l hj hr
    have := (List.getElem?_eq_some_iff.mp hr).1
    omega
  | cons r rs ih =>
    intro k hd
    obtain ⟨hk, hd'⟩ := drop_cons_inv all k r rs hd
    have ih' := ih (k + 1) hd'
    unfold bestFrom
    cases hc : candLen cur mli r k with
    | none =>
      have hcn := candLen_none hc
      cases hb : bestFrom cur mli rs (k + 1) with
      | none =>
        rw [hb] at ih'
        simp only [BestInv] at ih' ⊢
        intro j r' l hj hr' ha hl
        by_cases hjk : j = k
        · subst hjk; rw [hk] at hr'; cases hr'; exact hcn l ha hl
        · exact ih' j r' l (by omega) hr' ha hl
      | some p =>
        obtain ⟨x, L⟩ := p
        rw [hb] at ih'
        simp only [BestInv] at ih' ⊢
        obtain ⟨h1, h2, h3, h4, h5, h6⟩ := ih'
        refine ⟨by omega, h2, h3, h4, ?_, ?_⟩
        · intro j r' l hj hr' ha hl
          by_cases hjk : j = k
          · subst hjk; rw [hk] at hr'; cases hr'; have := hcn l ha hl; omega
          · exact h5 j r' l (by omega) hr' ha hl
        · intro j r' hj hr' ha hl
          by_cases hjk : j = k
          · subst hjk; rw [hk] at hr'; cases hr'; have := hcn L ha hl; omega
          · exact h6 j r' (by omega) hr' ha hl
    | some l0 =>
      obtain ⟨ha0, hm0, hp0⟩ := candLen_some hc
      cases hb : bestFrom cur mli rs (k + 1) with
      | none =>
        rw [hb] at ih'
        simp only [BestInv] at ih' ⊢
        refine ⟨Nat.le_refl _, hp0, ⟨r, hk, ha0⟩, hm0, ?_, ?_⟩
        · intro j r' l hj hr' ha hl
          by_cases hjk : j = k
          · subst hjk; rw [hm0] at hl; cases hl; exact Nat.le_refl _
          · have := ih' j r' l (by omega) hr' ha hl; omega
        · intro j r' hj _ _ _; exact hj
      | some p =>
        obtain ⟨x, L⟩ := p
        rw [hb] at ih'
        simp only [BestInv] at ih'
        obtain ⟨h1, h2, h3, h4, h5, h6⟩ := ih'
        by_cases hlt : l0 < L
        · simp only [hlt, if_true, BestInv]
          refine ⟨by omega, h2, h3, h4, ?_, ?_⟩
          · intro j r' l hj hr' ha hl
            by_cases hjk : j = k
            · subst hjk; rw [hm0] at hl; cases hl; omega
            · exact h5 j r' l (by omega) hr' ha hl
          · intro j r' hj hr' ha hl
            by_cases hjk : j = k
            · subst hjk; rw [hm0] at hl; cases hl; omega
            · exact h6 j r' (by omega) hr' ha hl
        · simp only [hlt, if_false, BestInv]
          refine ⟨Nat.le_refl _, hp0, ⟨r, hk, ha0⟩, hm0, ?_, ?_⟩
          · intro j r' l hj hr' ha hl
            by_cases hjk : j = k
            · subst hjk; rw [hm0] at hl; cases hl; exact Nat.le_refl _
            · have := h5 j r' l (by omega) hr' ha hl; omega
          · intro j r' hj _ _ _; exact hj

theorem bestFrom_some {cfg : Cfg} {ml : Nat → Nat → Option Nat} {cur : St} {i x L : Nat}
    (h : bestFrom cur (fun r => ml r i) cfg.rules 0 = some (x, L)) : LongestEarliest cfg ml cur i x L := by
  have := bestFrom_inv cfg.rules cur (fun r => ml r i) cfg.rules 0 (by simp)
  rw [h] at this
  obtain ⟨_, h2, h3, h4, h5, h6⟩ := this
  exact ⟨h2, h3, h4, fun j r l => h5 j r l (Nat.zero_le _), fun j r => h6 j r (Nat.zero_le _)⟩

theorem bestFrom_none {cfg : Cfg} {ml : Nat → Nat → Option Nat} {cur : St} {i : Nat}
    (h : bestFrom cur (fun r => ml r i) cfg.rules 0 = none) : Stuck cfg ml cur i := by
  have := bestFrom_inv cfg.rules cur (fun r => ml r i) cfg.rules 0 (by simp)
  rw [h] at this
  exact fun j r l => this j r l (Nat.zero_le _)

theorem specMove_some {cfg : Cfg} {init : St} {ps ps' : List St} {r : Rule}
    (h : specMove cfg init ps r = some ps') : Moves cfg init ps r ps' := by
  unfold specMove at h
  cases ht : r.target with
  | none => simp [ht] at h; exact Or.inl ⟨ht, h.symm⟩
  | some p =>
    obtain ⟨tid, op⟩ := p
    cases hg : getState cfg.states tid with
    | none => simp [ht, hg] at h
    | some s => simp [ht, hg] at h; exact Or.inr ⟨tid, op, s, ht, hg, h.symm⟩

theorem specMove_none {cfg : Cfg} {init : St} {ps : List St} {r : Rule}
    (h : specMove cfg init ps r = none) : ∃ tid op, r.target = some (tid, op) ∧ getState cfg.states tid = none := by
  unfold specMove at h
  cases ht : r.target with
  | none => simp [ht] at h
  | some p =>
    obtain ⟨tid, op⟩ := p
    cases hg : getState cfg.states tid with
    | none => exact ⟨tid, op, rfl, hg⟩
    | some s => simp [ht, hg] at h

theorem plainOp_ne_nil (init : St) (ps : List St) (s : St) (op : Op) : plainOp init ps s op ≠ [] := by
  cases op
  · simp [plainOp]
  · simp [plainOp]
  · simp only [plainOp]
    split
    · simp
    · rename_i h; intro h2; rw [h2] at h; simp at h

theorem moves_ne_nil {cfg : Cfg} {init : St} {ps ps' : List St} {r : Rule}
    (h : Moves cfg init ps r ps') (hne : ps ≠ []) : ps' ≠ [] := by
  rcases h with ⟨_, rfl⟩ | ⟨_, _, _, _, _, rfl⟩
  · exact hne
  · exact plainOp_ne_nil _ _ _ _

/-- the reference lexer's events satisfy the run relation -/
theorem specLoop_tiles (cfg : Cfg) (ml : Nat → Nat → Option Nat) (n : Nat) (init : St) :
    ∀ (fuel i : Nat) (ps : List St), n - i ≤ fuel → ps ≠ [] →
      Tiles cfg ml n init i ps (specLoop cfg ml n init fuel i ps).1 := by
  intro fuel
  induction fuel with
  | zero => intro i ps hf _; simp only [specLoop]; exact Tiles.done (by omega)
  | succ f ih =>
    intro i ps hf hne
    unfold specLoop
    by_cases hin : i < n
    · simp only [hin, if_true]
      cases ps with
      | nil => exact absurd rfl hne
      | cons cur rest =>
        unfold specStep
        simp only
        cases hb : bestFrom cur (fun r => ml r i) cfg.rules 0 with
        | none => exact Tiles.stuck hin (bestFrom_none hb)
        | some p =>
          obtain ⟨ridx, len⟩ := p
          have hle := bestFrom_some hb
          obtain ⟨r, hr, _⟩ := hle.rule
          simp only [hr]
          cases he : emitFor r ridx i len with
          | none =>
            obtain ⟨hn, ht⟩ := emitFor_none he
            exact Tiles.unset hin hle hr hn ht
          | some ev =>
            have hem := emitFor_some he
            cases hm : specMove cfg init (cur :: rest) r with
            | none =>
              obtain ⟨tid, op, ht, hg⟩ := specMove_none hm
              exact Tiles.badTarget hin hle hr hem ht hg
            | some ps' =>
              have hmv := specMove_some hm
              have := ih (i + len) ps' (by have := hle.pos; omega) (moves_ne_nil hmv (by simp))
              simp only
              exact Tiles.step hin hle hr hem hmv this
    · simp only [hin, if_false]; exact Tiles.done (by omega)

end GrmVerif.Lex
