import GrmVerif.Lemmas.YaccRoundtrip2
/-!
C10, text → AST stage, part 3: what a rendered item begins with, and one lemma per branch of the
production loop of `parse_rule` (`ruleStep`).
-/
namespace GrmVerif.YaccRender
open GrmVerif.YaccParse
open GrmVerif.Header (Res Span byteLen dropBytes takeBytes slice sliceRange lookahead
  dropBytes_some dropBytes_advance byteLen_append sliceRange_ok)

/-- a character that starts neither white space nor a comment -/
def Solid (c : Char) : Prop := YaccLex.isBlank c = false ∧ YaccLex.isEol c = false ∧ c ≠ '/'

/-- the text begins with a solid character -/
def Starts (k : List Char) : Prop := ∃ c t, k = c :: t ∧ Solid c

theorem Starts.stops {k : List Char} (h : Starts k) : Stops k := by
  obtain ⟨c, t, rfl, h1, h2, h3⟩ := h
  exact .other h1 h2 h3

theorem starts_cons {c : Char} (t : List Char) (h : Solid c) : Starts (c :: t) := ⟨c, t, rfl, h⟩

theorem nameStart_facts {c : Char} (hc : isNameStart c = true) :
    c ≠ '|' ∧ c ≠ ';' ∧ c ≠ '"' ∧ c ≠ '\'' ∧ c ≠ '%' ∧ c ≠ '{' ∧ Solid c := by
  refine ⟨?_, ?_, ?_, ?_, ?_, ?_, ?_, ?_, ?_⟩
  all_goals first
    | (intro h; subst h; exact absurd hc (by decide))
    | skip
  · cases hb : YaccLex.isBlank c with
    | false => rfl
    | true =>
      simp only [YaccLex.isBlank, Bool.or_eq_true, beq_iff_eq] at hb
      rcases hb with rfl | rfl <;> exact absurd hc (by decide)
  · cases hb : YaccLex.isEol c with
    | false => rfl
    | true =>
      simp only [YaccLex.isEol, Bool.or_eq_true, beq_iff_eq] at hb
      rcases hb with rfl | rfl <;> exact absurd hc (by decide)

theorem nameEnd_space (k : List Char) : NameEnd (' ' :: k) := by
  intro c t h; simp only [List.cons.injEq] at h; rw [← h.1]; decide

theorem nameEnd_colon (k : List Char) : NameEnd (':' :: k) := by
  intro c t h; simp only [List.cons.injEq] at h; rw [← h.1]; decide

theorem solid_quote {q : Char} (hq : q = '\'' ∨ q = '"') : Solid q := by
  rcases hq with rfl | rfl <;> exact ⟨by decide, by decide, by decide⟩

theorem wfTok_starts {s : RTok} (hs : wfTok s = true) (k : List Char) : Starts (s.text ++ k) := by
  cases s with
  | quoted q t =>
    simp only [wfTok, Bool.and_eq_true, Bool.or_eq_true, beq_iff_eq] at hs
    exact starts_cons _ (solid_quote hs.1)
  | bare n =>
    cases n with
    | nil => simp [wfTok, wfName] at hs
    | cons c cs => exact starts_cons _ (nameStart_facts (wfName_head hs)).2.2.2.2.2.2

theorem starts_syms {ss : List RTok} (h : ss.all wfTok = true) {k : List Char} (hk : Starts k) :
    Starts (renderSyms ss ++ k) := by
  cases ss with
  | nil => exact hk
  | cons s ss =>
    simp only [List.all_cons, Bool.and_eq_true] at h
    simp only [renderSyms, List.append_assoc]
    exact wfTok_starts h.1 _

theorem starts_prec (o : Option RTok) {k : List Char} (hk : Starts k) : Starts (renderPrec o ++ k) := by
  cases o with
  | none => exact hk
  | some t => exact starts_cons _ ⟨by decide, by decide, by decide⟩

theorem starts_action (o : Option (List Char)) {k : List Char} (hk : Starts k) :
    Starts (renderAction o ++ k) := by
  cases o with
  | none => exact hk
  | some t => exact starts_cons _ ⟨by decide, by decide, by decide⟩

theorem starts_bar (k : List Char) : Starts ('|' :: k) := starts_cons _ ⟨by decide, by decide, by decide⟩
theorem starts_semi (k : List Char) : Starts (';' :: k) := starts_cons _ ⟨by decide, by decide, by decide⟩

/-! ### small lookaheads -/

theorem atQuote_yes {src : List Char} {i : Nat} {q : Char} {t : List Char} (h : At src i (q :: t))
    (hq : q = '\'' ∨ q = '"') (st : St) : M.Ret (atQuote src i) st true st := by
  unfold atQuote
  rcases hq with rfl | rfl
  · refine M.Ret.bind (la_no h "\"" st (by simp [List.isPrefixOf])) ?_
    dsimp only
    refine M.Ret.bind (la_yes "'" (by simpa using h) st) ?_
    exact M.Ret.pure
  · refine M.Ret.bind (la_yes "\"" (by simpa using h) st) ?_
    exact M.Ret.pure

theorem atQuote_no {src : List Char} {i : Nat} {c : Char} {t : List Char} (h : At src i (c :: t))
    (h1 : c ≠ '"') (h2 : c ≠ '\'') (st : St) : M.Ret (atQuote src i) st false st := by
  unfold atQuote
  refine M.Ret.bind (la_no h "\"" st (by simp [List.isPrefixOf, Ne.symm h1])) ?_
  dsimp only
  refine M.Ret.bind (la_no h "'" st (by simp [List.isPrefixOf, Ne.symm h2])) ?_
  exact M.Ret.pure

theorem atBarOrSemi_yes {src : List Char} {i : Nat} {c : Char} {t : List Char} (h : At src i (c :: t))
    (hc : c = '|' ∨ c = ';') (st : St) : M.Ret (atBarOrSemi src i) st true st := by
  unfold atBarOrSemi
  rcases hc with rfl | rfl
  · refine M.Ret.bind (la_yes "|" (by simpa using h) st) ?_
    exact M.Ret.pure
  · refine M.Ret.bind (la_no h "|" st (by simp [List.isPrefixOf])) ?_
    dsimp only
    refine M.Ret.bind (la_yes ";" (by simpa using h) st) ?_
    exact M.Ret.pure

theorem atBarOrSemi_no {src : List Char} {i : Nat} {c : Char} {t : List Char} (h : At src i (c :: t))
    (h1 : c ≠ '|') (h2 : c ≠ ';') (st : St) : M.Ret (atBarOrSemi src i) st false st := by
  unfold atBarOrSemi
  refine M.Ret.bind (la_no h "|" st (by simp [List.isPrefixOf, Ne.symm h1])) ?_
  dsimp only
  refine M.Ret.bind (la_no h ";" st (by simp [List.isPrefixOf, Ne.symm h2])) ?_
  exact M.Ret.pure

/-- the continuation of a production: `|` or `;` -/
def BarSemi (k : List Char) : Prop := ∃ c t, k = c :: t ∧ (c = '|' ∨ c = ';')

theorem BarSemi.starts {k : List Char} (h : BarSemi k) : Starts k := by
  obtain ⟨c, t, rfl, rfl | rfl⟩ := h
  · exact starts_bar _
  · exact starts_semi _

theorem la_yes' {src : List Char} {i j : Nat} {rest : List Char} (s : String)
    (h : At src i (s.toList ++ rest)) (st : St) (hj : i + byteLen s.toList = j) :
    M.Ret (la src s i) st (some j) st := hj ▸ la_yes s h st

theorem bl_prec : byteLen ['%', 'p', 'r', 'e', 'c'] = 5 := by decide
theorem bl_empty : byteLen ['%', 'e', 'm', 'p', 't', 'y'] = 6 := by decide
theorem bl_bar : byteLen ['|'] = 1 := by decide

/-! ### the branches of the production loop -/

/-- a quoted symbol followed by one space -/
theorem ruleStep_quoted {src : List Char} {fuel i : Nat} {rn : Name} {q : Char} {t k : List Char}
    (p : PState) (st : St) (h : At src i ((RTok.quoted q t).text ++ ' ' :: k))
    (hw : wfTok (.quoted q t) = true) (hk : Starts k) :
    M.Ret (ruleStep src fuel rn i p) st
      (.cont (i + byteLen (RTok.quoted q t).text + 1) (stepSym i (.quoted q t) p st).1)
      (stepSym i (.quoted q t) p st).2 := by
  simp only [wfTok, Bool.and_eq_true, Bool.or_eq_true, beq_iff_eq] at hw
  obtain ⟨hq, ht⟩ := hw
  have h0 : At src i (q :: (t ++ q :: ' ' :: k)) := by simpa [RTok.text] using h
  have hj : At src (i + byteLen (RTok.quoted q t).text) (' ' :: k) := h.adv
  have hj1 : At src (i + byteLen (RTok.quoted q t).text + 1) k := hj.adv1 (by decide)
  have hqb : q ≠ '|' := by rcases hq with rfl | rfl <;> decide
  have hqs : q ≠ ';' := by rcases hq with rfl | rfl <;> decide
  unfold ruleStep
  refine M.Ret.bind (la_no h0 "|" st (by simp [List.isPrefixOf, Ne.symm hqb])) ?_
  dsimp only
  refine M.Ret.bind (la_no h0 ";" st (by simp [List.isPrefixOf, Ne.symm hqs])) ?_
  dsimp only
  have hsym : M.Ret (ruleSym src fuel i p) st
      (i + byteLen (RTok.quoted q t).text + 1, (stepSym i (.quoted q t) p st).1)
      (stepSym i (.quoted q t) p st).2 := by
    unfold ruleSym
    refine M.Ret.bind (atQuote_yes h0 hq st) ?_
    simp only [if_true]
    refine M.Ret.bind (liftR_ret (parseToken_quoted h0 hq ht)) ?_
    dsimp only
    refine M.Ret.bind (ws_space hj hk.stops st) ?_
    refine M.Ret.bind (modifyAst_ret _ st) ?_
    exact M.Ret.pure
  refine M.Ret.bind hsym ?_
  dsimp only
  refine M.Ret.bind (ws_none hj1 hk.stops _) ?_
  exact M.Ret.pure

def RTok.isQuoted : RTok → Bool
  | .quoted _ _ => true
  | .bare _ => false

theorem parseToken_tok {src : List Char} {i : Nat} {t : RTok} {k : List Char}
    (h : At src i (t.text ++ ' ' :: k)) (hw : wfTok t = true) :
    parseToken src i = .ok (i + byteLen t.text, t.name, t.span i, t.isQuoted) := by
  cases t with
  | quoted q t =>
    simp only [wfTok, Bool.and_eq_true, Bool.or_eq_true, beq_iff_eq] at hw
    exact parseToken_quoted (by simpa [RTok.text] using h) hw.1 hw.2
  | bare n => exact parseToken_bare h hw (nameEnd_space k)

/-- a bare symbol followed by one space -/
theorem ruleStep_bare {src : List Char} {fuel i : Nat} {rn : Name} {n k : List Char}
    (p : PState) (st : St) (h : At src i ((RTok.bare n).text ++ ' ' :: k))
    (hw : wfTok (.bare n) = true) (hk : Starts k) :
    M.Ret (ruleStep src fuel rn i p) st
      (.cont (i + byteLen (RTok.bare n).text + 1) (stepSym i (.bare n) p st).1)
      (stepSym i (.bare n) p st).2 := by
  have hj : At src (i + byteLen (RTok.bare n).text) (' ' :: k) := h.adv
  have hj1 : At src (i + byteLen (RTok.bare n).text + 1) k := hj.adv1 (by decide)
  have htok := parseToken_tok h hw
  obtain ⟨c, cs, rfl⟩ : ∃ c cs, n = c :: cs := by
    cases n with
    | nil => simp [wfTok, wfName] at hw
    | cons c cs => exact ⟨c, cs, rfl⟩
  obtain ⟨f1, f2, f3, f4, f5, f6, _⟩ := nameStart_facts (wfName_head hw)
  have h0 : At src i (c :: (cs ++ ' ' :: k)) := by simpa [RTok.text] using h
  unfold ruleStep
  refine M.Ret.bind (la_no h0 "|" st (by simp [List.isPrefixOf, Ne.symm f1])) ?_
  dsimp only
  refine M.Ret.bind (la_no h0 ";" st (by simp [List.isPrefixOf, Ne.symm f2])) ?_
  dsimp only
  have hsym : M.Ret (ruleSym src fuel i p) st
      (i + byteLen (RTok.bare (c :: cs)).text, (stepSym i (.bare (c :: cs)) p st).1)
      (stepSym i (.bare (c :: cs)) p st).2 := by
    unfold ruleSym
    refine M.Ret.bind (atQuote_no h0 f3 f4 st) ?_
    simp only [Bool.false_eq_true, if_false]
    refine M.Ret.bind (la_no h0 "%prec" st (by simp [List.isPrefixOf, Ne.symm f5])) ?_
    dsimp only
    refine M.Ret.bind (la_no h0 "{" st (by simp [List.isPrefixOf, Ne.symm f6])) ?_
    dsimp only
    refine M.Ret.bind (la_no h0 "%empty" st (by simp [List.isPrefixOf, Ne.symm f5])) ?_
    dsimp only
    refine M.Ret.bind (liftR_ret htok) ?_
    dsimp only
    refine M.Ret.bind (getSt_ret st) ?_
    exact M.Ret.pure
  refine M.Ret.bind hsym ?_
  dsimp only
  refine M.Ret.bind (ws_space hj hk.stops _) ?_
  exact M.Ret.pure

theorem ruleStep_sym {src : List Char} {fuel i : Nat} {rn : Name} {s : RTok} {k : List Char}
    (p : PState) (st : St) (h : At src i (s.text ++ ' ' :: k)) (hw : wfTok s = true) (hk : Starts k) :
    M.Ret (ruleStep src fuel rn i p) st
      (.cont (i + byteLen s.text + 1) (stepSym i s p st).1) (stepSym i s p st).2 := by
  cases s with
  | quoted q t => exact ruleStep_quoted p st h hw hk
  | bare n => exact ruleStep_bare p st h hw hk

/-- `%prec tok` followed by one space -/
theorem ruleStep_prec {src : List Char} {fuel i : Nat} {rn : Name} {t : RTok} {k : List Char}
    (p : PState) (st : St) (h : At src i (renderPrec (some t) ++ k)) (hw : wfTok t = true) (hk : Starts k) :
    M.Ret (ruleStep src fuel rn i p) st
      (.cont (runPrec i (some t) p st).1 (runPrec i (some t) p st).2.1) (runPrec i (some t) p st).2.2 := by
  have h0 : At src i ('%' :: 'p' :: 'r' :: 'e' :: 'c' :: ' ' :: (t.text ++ ' ' :: k)) := by
    simpa [renderPrec] using h
  have h5 : At src (i + 5) (' ' :: (t.text ++ ' ' :: k)) := by
    have := At.adv (a := ['%', 'p', 'r', 'e', 'c']) (by simpa using h0)
    rwa [bl_prec] at this
  have h6 : At src (i + 6) (t.text ++ ' ' :: k) := by simpa using h5.adv1 (by decide)
  have hj : At src (i + 6 + byteLen t.text) (' ' :: k) := h6.adv
  have hj1 : At src (i + 6 + byteLen t.text + 1) k := hj.adv1 (by decide)
  have htok := parseToken_tok h6 hw
  unfold ruleStep
  refine M.Ret.bind (la_no h0 "|" st (by simp [List.isPrefixOf])) ?_
  dsimp only
  refine M.Ret.bind (la_no h0 ";" st (by simp [List.isPrefixOf])) ?_
  dsimp only
  have hsym : M.Ret (ruleSym src fuel i p) st
      (i + 6 + byteLen t.text, (runPrec i (some t) p st).2.1) (runPrec i (some t) p st).2.2 := by
    unfold ruleSym
    refine M.Ret.bind (atQuote_no h0 (by decide) (by decide) st) ?_
    simp only [Bool.false_eq_true, if_false]
    refine M.Ret.bind (la_yes' (j := i + 5) "%prec" (by simpa using h0) st (by rw [← bl_prec]; rfl)) ?_
    dsimp only
    refine M.Ret.bind (ws_space h5 (wfTok_starts hw _).stops st) ?_
    refine M.Ret.bind (liftR_ret htok) ?_
    dsimp only
    refine M.Ret.bind (modifyAst_ret _ st) ?_
    exact M.Ret.pure
  refine M.Ret.bind hsym ?_
  dsimp only
  refine M.Ret.bind (ws_space hj hk.stops _) ?_
  exact M.Ret.pure

/-- `{action} ` followed by `|` or `;` -/
theorem ruleStep_action {src : List Char} {fuel i : Nat} {rn : Name} {a k : List Char}
    (p : PState) (st : St) (h : At src i (renderAction (some a) ++ k)) (hw : wfAction a = true)
    (hf : a.length + 2 ≤ fuel) (hk : BarSemi k) :
    M.Ret (ruleStep src fuel rn i p) st
      (.cont (runAction i (some a) p st).1 (runAction i (some a) p st).2.1) (runAction i (some a) p st).2.2 := by
  have h0 : At src i ('{' :: (a ++ '}' :: ' ' :: k)) := by simpa [renderAction] using h
  have h1 : At src (i + 1) (a ++ '}' :: ' ' :: k) := h0.adv1 (by decide)
  have h2 : At src (i + 1 + byteLen a) ('}' :: ' ' :: k) := h1.adv
  have h3 : At src (i + byteLen a + 2) (' ' :: k) := by
    have := h2.adv1 (by decide); rwa [show i + 1 + byteLen a + 1 = i + byteLen a + 2 by omega] at this
  have h4 : At src (i + byteLen a + 2 + 1) k := h3.adv1 (by decide)
  obtain ⟨c, t, rfl, hc⟩ := hk
  unfold ruleStep
  refine M.Ret.bind (la_no h0 "|" st (by simp [List.isPrefixOf])) ?_
  dsimp only
  refine M.Ret.bind (la_no h0 ";" st (by simp [List.isPrefixOf])) ?_
  dsimp only
  have hsym : M.Ret (ruleSym src fuel i p) st
      (i + byteLen a + 2 + 1, (runAction i (some a) p st).2.1) (runAction i (some a) p st).2.2 := by
    unfold ruleSym
    refine M.Ret.bind (atQuote_no h0 (by decide) (by decide) st) ?_
    simp only [Bool.false_eq_true, if_false]
    refine M.Ret.bind (la_no h0 "%prec" st (by simp [List.isPrefixOf])) ?_
    dsimp only
    refine M.Ret.bind (la_yes "{" (by simpa using h0) st) ?_
    dsimp only
    refine M.Ret.bind (parseAction_at st h0 hw hf) ?_
    refine M.Ret.bind (ws_space h3 (BarSemi.starts ⟨c, t, rfl, hc⟩).stops _) ?_
    refine M.Ret.bind (atBarOrSemi_yes h4 hc _) ?_
    simp only [if_true]
    exact M.Ret.pure
  refine M.Ret.bind hsym ?_
  dsimp only
  refine M.Ret.bind (ws_none h4 (BarSemi.starts ⟨c, t, rfl, hc⟩).stops _) ?_
  exact M.Ret.pure

/-- what may follow `%empty `: `|`, `;`, `{` or `%prec` -/
def FollowE (k : List Char) : Prop :=
  BarSemi k ∨ (∃ t, k = '{' :: t) ∨ (∃ t, k = '%' :: 'p' :: 'r' :: 'e' :: 'c' :: t)

theorem FollowE.starts {k : List Char} (h : FollowE k) : Starts k := by
  rcases h with h | ⟨t, rfl⟩ | ⟨t, rfl⟩
  · exact h.starts
  · exact starts_cons _ ⟨by decide, by decide, by decide⟩
  · exact starts_cons _ ⟨by decide, by decide, by decide⟩

theorem emptyFollow_yes {src : List Char} {i : Nat} {k : List Char} (h : At src i k) (hk : FollowE k)
    (st : St) : M.Ret (emptyFollow src i) st true st := by
  unfold emptyFollow
  rcases hk with ⟨c, t, rfl, hc⟩ | ⟨t, rfl⟩ | ⟨t, rfl⟩
  · refine M.Ret.bind (atBarOrSemi_yes h hc st) ?_
    simp only [if_true]
    exact M.Ret.pure
  · refine M.Ret.bind (atBarOrSemi_no h (by decide) (by decide) st) ?_
    simp only [Bool.false_eq_true, if_false]
    refine M.Ret.bind (la_yes "{" (by simpa using h) st) ?_
    exact M.Ret.pure
  · refine M.Ret.bind (atBarOrSemi_no h (by decide) (by decide) st) ?_
    simp only [Bool.false_eq_true, if_false]
    refine M.Ret.bind (la_no h "{" st (by simp [List.isPrefixOf])) ?_
    dsimp only
    refine M.Ret.bind (la_yes "%prec" (by simpa using h) st) ?_
    exact M.Ret.pure

/-- `%empty ` at the beginning of a production -/
theorem ruleStep_empty {src : List Char} {fuel i : Nat} {rn : Name} {k : List Char}
    (p : PState) (st : St) (h : At src i (renderEmpty true ++ k)) (hp : p.syms = []) (hk : FollowE k) :
    M.Ret (ruleStep src fuel rn i p) st
      (.cont (runEmpty i true p).1 (runEmpty i true p).2) st := by
  have h0 : At src i ('%' :: 'e' :: 'm' :: 'p' :: 't' :: 'y' :: ' ' :: k) := by
    simpa [renderEmpty] using h
  have h6 : At src (i + 6) (' ' :: k) := by
    have := At.adv (a := ['%', 'e', 'm', 'p', 't', 'y']) (by simpa using h0)
    rwa [bl_empty] at this
  have h7 : At src (i + 7) k := by simpa using h6.adv1 (by decide)
  unfold ruleStep
  refine M.Ret.bind (la_no h0 "|" st (by simp [List.isPrefixOf])) ?_
  dsimp only
  refine M.Ret.bind (la_no h0 ";" st (by simp [List.isPrefixOf])) ?_
  dsimp only
  have hsym : M.Ret (ruleSym src fuel i p) st (i + 7, (runEmpty i true p).2) st := by
    unfold ruleSym
    refine M.Ret.bind (atQuote_no h0 (by decide) (by decide) st) ?_
    simp only [Bool.false_eq_true, if_false]
    refine M.Ret.bind (la_no h0 "%prec" st (by simp [List.isPrefixOf])) ?_
    dsimp only
    refine M.Ret.bind (la_no h0 "{" st (by simp [List.isPrefixOf])) ?_
    dsimp only
    refine M.Ret.bind (la_yes' (j := i + 6) "%empty" (by simpa using h0) st (by rw [← bl_empty]; rfl)) ?_
    dsimp only
    refine M.Ret.bind (ws_space h6 hk.starts.stops st) ?_
    refine M.Ret.bind (emptyFollow_yes h7 hk st) ?_
    split
    · next hc => simp [hp] at hc
    · exact M.Ret.pure
  refine M.Ret.bind hsym ?_
  dsimp only
  refine M.Ret.bind (ws_none h7 hk.starts.stops _) ?_
  exact M.Ret.pure

/-- `| ` ends a production and begins the next -/
theorem ruleStep_bar {src : List Char} {fuel i : Nat} {rn : Name} {k : List Char}
    (p : PState) (st : St) (h : At src i ('|' :: ' ' :: k)) (hk : Starts k)
    (hle : p.prodStart ≤ p.prodEnd.getD i) (hr : st.ast.hasRule rn = true) :
    M.Ret (ruleStep src fuel rn i p) st (.cont (i + 2) { prodStart := i + 2 })
      (pushProd (mkProd rn p i) st) := by
  have h1 : At src (i + 1) (' ' :: k) := h.adv1 (by decide)
  have hfin : M.Ret (finishProd rn p i) st () (pushProd (mkProd rn p i) st) := by
    unfold finishProd
    refine M.Ret.bind (liftR_ret (a := (p.prodStart, p.prodEnd.getD i)) ?_) ?_
    · simp [mkSpan]; omega
    · simp [M.Ret, addProd, hr, pushProd, mkProd, St.mapAst]
  unfold ruleStep
  refine M.Ret.bind (la_yes' (j := i + 1) "|" (by simpa using h) st (by rw [← bl_bar]; rfl)) ?_
  dsimp only
  refine M.Ret.bind hfin ?_
  refine M.Ret.bind (ws_space h1 hk.stops _) ?_
  exact M.Ret.pure

/-- `;` ends the last production -/
theorem ruleStep_semi {src : List Char} {fuel i : Nat} {rn : Name} {k : List Char}
    (p : PState) (st : St) (h : At src i (';' :: k))
    (hle : p.prodStart ≤ p.prodEnd.getD i) (hr : st.ast.hasRule rn = true) :
    M.Ret (ruleStep src fuel rn i p) st (.done (i + 1)) (pushProd (mkProd rn p i) st) := by
  have hfin : M.Ret (finishProd rn p i) st () (pushProd (mkProd rn p i) st) := by
    unfold finishProd
    refine M.Ret.bind (liftR_ret (a := (p.prodStart, p.prodEnd.getD i)) ?_) ?_
    · simp [mkSpan]; omega
    · simp [M.Ret, addProd, hr, pushProd, mkProd, St.mapAst]
  unfold ruleStep
  refine M.Ret.bind (la_no h "|" st (by simp [List.isPrefixOf])) ?_
  dsimp only
  refine M.Ret.bind (la_yes' (j := i + 1) ";" (by simpa using h) st (by rw [show byteLen ";".toList = 1 by decide])) ?_
  dsimp only
  refine M.Ret.bind hfin ?_
  exact M.Ret.pure

end GrmVerif.YaccRender
