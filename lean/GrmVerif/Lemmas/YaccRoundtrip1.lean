import GrmVerif.Lemmas.YaccRender
import GrmVerif.Lemmas.YaccParse2
/-!
C10, text → AST stage, part 1: "the text at byte `i` is `rest`" (`At`), exact-result reasoning over the
state monad (`M.Ret`), and one lemma per scanner of the yacc text parser saying that it consumes
exactly its rendered item when a separator follows.
-/
namespace GrmVerif.YaccRender
open GrmVerif.YaccParse
open GrmVerif.Header (Res Span byteLen dropBytes takeBytes slice sliceRange lookahead
  dropBytes_some dropBytes_advance byteLen_append sliceRange_ok)

/-- `&src[i..]` is `rest` -/
def At (src : List Char) (i : Nat) (rest : List Char) : Prop := dropBytes src i = some rest

theorem At.adv {src : List Char} {i : Nat} {a rest : List Char} (h : At src i (a ++ rest)) :
    At src (i + byteLen a) rest := by
  have := dropBytes_advance h (pre := a) ⟨rest, rfl⟩
  simpa [At] using this

theorem At.adv1 {src : List Char} {i : Nat} {c : Char} {rest : List Char} (h : At src i (c :: rest))
    (hc : c.utf8Size = 1) : At src (i + 1) rest := by
  have := At.adv (a := [c]) (rest := rest) h
  simpa [byteLen, hc] using this

theorem At.slice {ε : Type} {src : List Char} {i : Nat} {rest : List Char} (h : At src i rest) :
    (slice src i : Res ε _) = .ok rest := by
  unfold At at h; unfold Header.slice; rw [h]

theorem At.range {ε : Type} {src : List Char} {i : Nat} {a rest : List Char} (h : At src i (a ++ rest)) :
    (sliceRange src i (i + byteLen a) : Res ε _) = .ok a :=
  sliceRange_ok h ⟨rest, rfl⟩

theorem At.lt {src : List Char} {i : Nat} {c : Char} {rest : List Char} (h : At src i (c :: rest)) :
    i < byteLen src := by
  obtain ⟨pre, h1, h2⟩ := dropBytes_some h
  have := Char.utf8Size_pos c
  rw [h1, byteLen_append, h2]; simp only [byteLen]; omega

theorem At.eq_len {src : List Char} {i : Nat} (h : At src i []) : i = byteLen src := by
  obtain ⟨pre, h1, h2⟩ := dropBytes_some h
  rw [h1, byteLen_append, h2]; simp [byteLen]

theorem At.nextChar {ε : Type} {src : List Char} {i : Nat} {c : Char} {rest : List Char}
    (h : At src i (c :: rest)) : (nextChar src i : Res ε _) = .ok c := by
  simp [YaccParse.nextChar, h.slice, bind, Res.bind, pure]

/-! ### exact results in the state monad -/

/-- started in `st`, `m` returns `a` in state `st'` -/
def M.Ret {α : Type} (m : M α) (st : St) (a : α) (st' : St) : Prop := m st = .ok (a, st')

theorem M.Ret.bind {α β : Type} {m : M α} {f : α → M β} {st st1 st2 : St} {a : α} {b : β}
    (h : M.Ret m st a st1) (hf : M.Ret (f a) st1 b st2) : M.Ret (m >>= f) st b st2 := by
  unfold M.Ret at *
  rw [M.bind_def, h]; exact hf

theorem M.Ret.pure {α : Type} {a : α} {st : St} : M.Ret (Pure.pure a : M α) st a st := rfl

theorem liftR_ret {α : Type} {r : Res YErr α} {a : α} {st : St} (h : r = .ok a) :
    M.Ret (liftR r) st a st := by
  subst h; rfl

theorem modifyAst_ret (f : Ast → Ast) (st : St) : M.Ret (modifyAst f) st () (St.mapAst f st) := rfl

theorem getSt_ret (st : St) : M.Ret getSt st st st := rfl

theorem la_at {src : List Char} {i : Nat} {rest : List Char} (h : At src i rest) (s : String) (st : St) :
    M.Ret (la src s i) st (if s.toList.isPrefixOf rest then some (i + byteLen s.toList) else none) st := by
  unfold la
  exact liftR_ret (by simp [lookahead, h.slice, bind, Res.bind, pure])

theorem la_no {src : List Char} {i : Nat} {rest : List Char} (h : At src i rest) (s : String) (st : St)
    (hn : s.toList.isPrefixOf rest = false) : M.Ret (la src s i) st none st := by
  have := la_at h s st; rwa [hn] at this

theorem la_yes {src : List Char} {i : Nat} {rest : List Char} (s : String)
    (h : At src i (s.toList ++ rest)) (st : St) :
    M.Ret (la src s i) st (some (i + byteLen s.toList)) st := by
  have := la_at h s st
  have hp : s.toList.isPrefixOf (s.toList ++ rest) = true := by
    rw [List.isPrefixOf_iff_prefix]; exact ⟨rest, rfl⟩
  rwa [hp] at this

/-! ### layout -/

/-- the text does not begin with white space or a comment -/
abbrev Stops := YaccLex.StopsLayout

theorem ws_none {src : List Char} {i : Nat} {rest : List Char} (h : At src i rest) (hs : Stops rest)
    (st : St) : M.Ret (ws src true i) st i st := by
  unfold ws
  split
  · refine M.Ret.bind (liftR_ret h.slice) ?_
    rw [YaccLex.parseWs_stop true hs]
    exact M.Ret.bind (m := addNl 0) (st1 := st) rfl rfl
  · rfl

theorem ws_one {src : List Char} {i : Nat} {c : Char} {rest : List Char} (h : At src i (c :: rest))
    (hs : Stops rest) (hc : c = ' ' ∨ c = '\n') (st : St) :
    M.Ret (ws src true i) st (i + 1) (St.incNl (if c = '\n' then 1 else 0) st) := by
  unfold ws
  rw [if_pos h.lt]
  refine M.Ret.bind (liftR_ret h.slice) ?_
  have hl : YaccLex.Layout true rest [c] := by
    have : YaccLex.Item true [c] := by
      rcases hc with rfl | rfl
      · exact .blank (by decide)
      · exact .eol (by decide) rfl
    simpa using YaccLex.Layout.cons this .nil
  have := YaccLex.ws_spec_complete hl hs
  simp only [List.cons_append, List.nil_append] at this
  rw [this]
  rcases hc with rfl | rfl
  · exact M.Ret.bind (m := addNl _) (st1 := st) rfl rfl
  · exact M.Ret.bind (m := addNl _) (st1 := St.incNl 1 st) rfl rfl

theorem ws_space {src : List Char} {i : Nat} {rest : List Char} (h : At src i (' ' :: rest))
    (hs : Stops rest) (st : St) : M.Ret (ws src true i) st (i + 1) st :=
  ws_one h hs (.inl rfl) st

theorem ws_nl {src : List Char} {i : Nat} {rest : List Char} (h : At src i ('\n' :: rest))
    (hs : Stops rest) (st : St) : M.Ret (ws src true i) st (i + 1) (St.incNl 1 st) :=
  ws_one h hs (.inr rfl) st

/-! ### names and tokens -/

theorem takeWhile_all_stop {p : Char → Bool} {cs rest : List Char} (h : cs.all p = true)
    (hr : ∀ c t, rest = c :: t → p c = false) : (cs ++ rest).takeWhile p = cs := by
  induction cs with
  | nil =>
    cases rest with
    | nil => rfl
    | cons c t => simp [List.takeWhile, hr c t rfl]
  | cons c cs ih =>
    simp only [List.all_cons, Bool.and_eq_true] at h
    simp [List.takeWhile, h.1, ih h.2]

/-- the text after a bare name does not continue the name -/
def NameEnd (rest : List Char) : Prop := ∀ c t, rest = c :: t → isNameCont c = false

theorem reName_wf {n rest : List Char} (hn : wfName n = true) (hr : NameEnd rest) :
    reName (n ++ rest) = some n := by
  cases n with
  | nil => simp [wfName] at hn
  | cons c cs =>
    simp only [wfName, Bool.and_eq_true] at hn
    simp [reName, hn.1, takeWhile_all_stop hn.2 hr]

theorem reToken_bare {n rest : List Char} (hn : wfName n = true) (hr : NameEnd rest) :
    reToken (n ++ rest) = some n := by
  cases n with
  | nil => simp [wfName] at hn
  | cons c cs =>
    simp only [wfName, Bool.and_eq_true] at hn
    have h1 : c ≠ '"' := by intro h; subst h; exact absurd hn.1 (by decide)
    have h2 : c ≠ '\'' := by intro h; subst h; exact absurd hn.1 (by decide)
    simp [reToken, hn.1, h1, h2, takeWhile_all_stop hn.2 hr]

theorem parseName_at {src : List Char} {i : Nat} {n rest : List Char} (h : At src i (n ++ rest))
    (hn : wfName n = true) (hr : NameEnd rest) :
    parseName src i = .ok (i + byteLen n, n) := by
  simp [parseName, h.slice, reName_wf hn hr, h.range, bind, Res.bind, pure]

theorem mkSpan_le {ε : Type} (a b : Nat) : (mkSpan a (a + b) : Res ε _) = .ok (a, a + b) := by
  simp [mkSpan]

theorem wfName_head {c : Char} {cs : List Char} (hn : wfName (c :: cs) = true) : isNameStart c = true := by
  simp only [wfName, Bool.and_eq_true] at hn; exact hn.1

theorem parseToken_bare {src : List Char} {i : Nat} {n rest : List Char} (h : At src i (n ++ rest))
    (hn : wfName n = true) (hr : NameEnd rest) :
    parseToken src i = .ok (i + byteLen n, n, (i, i + byteLen n), false) := by
  have hre := reToken_bare hn hr
  have hrg : (sliceRange src i (i + byteLen n) : Res YErr _) = .ok n := h.range
  have hnc : ∃ c, (nextChar src i : Res YErr _) = .ok c ∧ c ≠ '"' ∧ c ≠ '\'' ∧ n ≠ [] := by
    cases n with
    | nil => simp [wfName] at hn
    | cons c cs =>
      have hc := wfName_head hn
      refine ⟨c, At.nextChar (by simpa using h), ?_, ?_, by simp⟩
      · intro h; subst h; exact absurd hc (by decide)
      · intro h; subst h; exact absurd hc (by decide)
  obtain ⟨c, hnc, h1, h2, hne⟩ := hnc
  simp [parseToken, h.slice, hre, hnc, hrg, mkSpan_le, h1, h2, hne, bind, Res.bind, pure]

theorem quotedTail_wf {q : Char} {cs rest : List Char}
    (h : cs.all (fun d => d != q && d != '\n') = true) :
    quotedTail q (cs ++ q :: rest) = some (cs ++ [q]) := by
  induction cs with
  | nil => simp [quotedTail]
  | cons c cs ih =>
    simp only [List.all_cons, Bool.and_eq_true, bne_iff_ne] at h
    simp [quotedTail, h.1.1, h.1.2, ih h.2]

theorem reToken_quoted {q : Char} {t rest : List Char} (hq : q = '\'' ∨ q = '"')
    (ht : wfQuotedText q t = true) : reToken (q :: (t ++ q :: rest)) = some (q :: (t ++ [q])) := by
  cases t with
  | nil => simp [wfQuotedText] at ht
  | cons c cs =>
    simp only [wfQuotedText, Bool.and_eq_true, bne_iff_ne] at ht
    have hq' : q = '"' ∨ q = '\'' := hq.symm
    simp [reToken, hq', quotedBody, ht.1, quotedTail_wf ht.2]

theorem byteLen_quote {q : Char} (hq : q = '\'' ∨ q = '"') : q.utf8Size = 1 := by
  rcases hq with rfl | rfl <;> decide

theorem parseToken_quoted {src : List Char} {i : Nat} {q : Char} {t rest : List Char}
    (h : At src i (q :: (t ++ q :: rest))) (hq : q = '\'' ∨ q = '"') (ht : wfQuotedText q t = true) :
    parseToken src i = .ok (i + byteLen (q :: (t ++ [q])), t, (i + 1, i + 1 + byteLen t), true) := by
  have hs := byteLen_quote hq
  have hq' : q = '"' ∨ q = '\'' := hq.symm
  have hnc : (nextChar src i : Res YErr _) = .ok q := h.nextChar
  have h1 : At src (i + 1) (t ++ q :: rest) := h.adv1 hs
  have hlen : i + byteLen (q :: (t ++ [q])) - 1 = i + 1 + byteLen t := by
    simp [byteLen, byteLen_append, hs]; omega
  have hr : (sliceRange src (i + 1) (i + 1 + byteLen t) : Res YErr _) = .ok t := h1.range
  simp only [parseToken, h.slice, reToken_quoted hq ht, hnc, hlen, hr, mkSpan_le, bind, Res.bind, pure]
  simp [hq']

end GrmVerif.YaccRender
