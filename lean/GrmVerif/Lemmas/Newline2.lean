import GrmVerif.Lemmas.Newline
/-! More helper lemmas for C19: line numbers, columns, span lines. -/
namespace GrmVerif.Newline

/-- number of `'\n'` characters at an absolute byte position `< b` (text starts at `P`). -/
def nlBefore (P : Nat) : List Char → Nat → Nat
  | [], _ => 0
  | c :: cs, b => (if c = '\n' ∧ P < b then 1 else 0) + nlBefore (P + c.utf8Size) cs b

theorem countP_nlsFrom (P : Nat) (s : List Char) (b : Nat) :
    (nlsFrom P s).countP (· ≤ b) = nlBefore P s b := by
  induction s generalizing P with
  | nil => simp [nlsFrom, nlBefore]
  | cons c cs ih =>
    simp only [nlsFrom, nlBefore]
    split
    · next hc =>
      subst hc
      have h1 : ('\n' : Char).utf8Size = 1 := by decide
      rw [List.countP_cons, ih, h1]
      by_cases h : P < b
      · have : P + 1 ≤ b := h
        simp [h, this] <;> omega
      · have : ¬ P + 1 ≤ b := by omega
        simp [h, this]
    · next hc => rw [ih]; simp [hc]

theorem rfindLe_sorted (byte : Nat) (l : List Nat) (i : Nat) (acc : Option Nat)
    (hs : l.Pairwise (· < ·)) :
    rfindLe byte l i acc =
      if l.countP (· ≤ byte) = 0 then acc else some (i + l.countP (· ≤ byte) - 1) := by
  induction l generalizing i acc with
  | nil => simp [rfindLe]
  | cons x xs ih =>
    have hs' := (List.pairwise_cons.mp hs).2
    have hgt := (List.pairwise_cons.mp hs).1
    unfold rfindLe
    rw [ih _ _ hs']
    by_cases hx : x ≤ byte
    · simp only [hx, ↓reduceIte, List.countP_cons, decide_true]
      split
      · next h0 => simp [h0]
      · next h0 => simp <;> omega
    · have h0 : xs.countP (· ≤ byte) = 0 := by
        rw [List.countP_eq_zero]; intro y hy; have := hgt y hy; simp; omega
      simp [hx, h0, List.countP_cons]

theorem sorted_le_last (l : List Nat) (hs : l.Pairwise (· < ·)) :
    ∀ y ∈ l, y ≤ l.getLast?.getD 0 := by
  induction l with
  | nil => intro y hy; cases hy
  | cons x xs ih =>
    have hgt := (List.pairwise_cons.mp hs).1
    have ih' := ih (List.pairwise_cons.mp hs).2
    cases xs with
    | nil => intro y hy; simp at hy; simp [hy]
    | cons z zs =>
      intro y hy
      simp only [List.getLast?_cons_cons]
      simp only [List.mem_cons] at hy
      rcases hy with rfl | hy
      · have h1 := ih' z (by simp)
        have := hgt z (by simp); omega
      · exact ih' y (by simpa using hy)

/-- in a strictly increasing list, all entries `≤ b` when the last one is -/
theorem countP_all_of_last_le (l : List Nat) (b : Nat) (hs : l.Pairwise (· < ·))
    (h : l.getLast?.getD 0 ≤ b) : l.countP (· ≤ b) = l.length := by
  rw [List.countP_eq_length]
  intro y hy
  have := sorted_le_last l hs y hy
  simp only [decide_eq_true_eq]; omega

theorem byteToLineNum_ofText (s : List Char) (byte : Nat) (hb : byte ≤ byteLen s) :
    byteToLineNum (ofText s) byte = some (1 + nlBefore 0 s byte) := by
  have hlen := feedLen_ofText s
  have hsorted := ofText_sorted s
  unfold byteToLineNum
  rw [hlen]
  simp only [show ¬ byte > byteLen s by omega, ↓reduceIte]
  have hfl : lastNl (ofText s) + (ofText s).trailing = byteLen s := hlen
  have hcount : (ofText s).newlines.countP (· ≤ byte) = 1 + nlBefore 0 s byte := by
    simp only [ofText, List.countP_cons, Nat.zero_le, decide_true, ↓reduceIte, countP_nlsFrom]
    omega
  split
  · next h =>
    simp only [Bool.and_eq_true, decide_eq_true_eq] at h
    have := countP_all_of_last_le (ofText s).newlines byte hsorted (by unfold lastNl at h; omega)
    rw [← hcount, this]
  · rw [rfindLe_sorted _ _ _ _ hsorted, hcount]
    simp; omega

/-! ### columns -/

/-- the column the property prescribes for the boundary between `cur` (the part of the current
line before the offset) and `post`: one plus the characters since the line began, a `"\r\n"` pair
counting once (the `'\n'` gets the column of its `'\r'`). -/
def colOf (cur post : List Char) : Nat :=
  if post.head? = some '\n' ∧ cur.getLast? = some '\r' then cur.length else cur.length + 1



theorem nlsFrom_no_nl (P : Nat) (s : List Char) (h : '\n' ∉ s) : nlsFrom P s = [] := by
  induction s generalizing P with
  | nil => simp [nlsFrom]
  | cons c cs ih =>
    simp only [List.mem_cons, not_or] at h
    simp only [nlsFrom]
    split
    · next hc => exact absurd hc.symm h.1
    · exact ih _ h.2

theorem dropBytes_append (a b : List Char) : dropBytes (byteLen a) (a ++ b) = some b := by
  induction a with
  | nil => simp [byteLen, dropBytes]
  | cons c cs ih =>
    have hp := Char.utf8Size_pos c
    simp only [byteLen, List.cons_append]
    obtain ⟨n, hn⟩ : ∃ n, c.utf8Size + byteLen cs = n + 1 := ⟨c.utf8Size + byteLen cs - 1, by omega⟩
    rw [hn]
    unfold dropBytes
    have : c.utf8Size ≤ n + 1 := by omega
    simp only [this, ↓reduceIte]
    have : n + 1 - c.utf8Size = byteLen cs := by omega
    rw [this, ih]

/-- The last recorded line start of `a` is its length when `a` is empty or ends in a newline. -/
theorem last_nls_of_ends_nl (a : List Char) (ha : a = [] ∨ a.getLast? = some '\n') :
    (0 :: nlsFrom 0 a).getLast?.getD 0 = byteLen a := by
  rcases ha with rfl | ha
  · simp [nlsFrom, byteLen]
  · obtain ⟨a', rfl⟩ := List.getLast?_eq_some_iff.mp ha
    have h1 : ('\n' : Char).utf8Size = 1 := by decide
    have h2 : nlsFrom (0 + byteLen a') ['\n'] = [byteLen a' + 1] := by simp [nlsFrom]
    rw [nlsFrom_append, byteLen_append, h2, ← List.cons_append, List.getLast?_append]
    simp [byteLen, h1]

/-- the column loop over a newline-free line prefix `cur`, stopping at the first char of `post` -/
theorem colLoop_prefix (cur : List Char) (p : Char) (ps : List Char) (off col : Nat) (skip : Option Char)
    (hcur : '\n' ∉ cur) (hskip : skip = none ∨ skip = some '\n') :
    colLoop (off + byteLen cur) (cur ++ p :: ps) off col skip =
      let skip' := if cur = [] then skip else (if cur.getLast? = some '\r' then some '\n' else none)
      if some p != skip' then col + cur.length + 1 else col + cur.length := by
  induction cur generalizing off col skip with
  | nil =>
    simp only [byteLen, Nat.add_zero, List.nil_append, colLoop, ↓reduceIte, List.length_nil]
    split <;> simp_all
  | cons c cs ih =>
    simp only [List.mem_cons, not_or] at hcur
    have hp := Char.utf8Size_pos c
    have hne : (some c != skip) = true := by
      rcases hskip with h | h <;> subst h <;> simp
      exact fun h => hcur.1 h.symm
    simp only [List.cons_append, colLoop, hne, ↓reduceIte, byteLen]
    have : ¬ off = off + (c.utf8Size + byteLen cs) := by omega
    simp only [this, ↓reduceIte]
    have hoff : off + (c.utf8Size + byteLen cs) = (off + c.utf8Size) + byteLen cs := by omega
    rw [hoff, ih _ _ _ hcur.2 (by split <;> simp)]
    cases cs with
    | nil => simp
    | cons d ds => simp [List.getLast?_cons_cons]; split <;> simp_all <;> omega

theorem nlsFrom_length (P : Nat) (l : List Char) : (nlsFrom P l).length = l.count '\n' := by
  induction l generalizing P with
  | nil => simp [nlsFrom]
  | cons c cs ih =>
    simp only [nlsFrom]
    split
    · next hc => subst hc; simp [ih]
    · next hc =>
      rw [ih, List.count_cons]
      have : (c == '\n') = false := by simpa using hc
      simp [this]

end GrmVerif.Newline
