import GrmVerif.Lemmas.LexLoop
/-! Helper definitions/lemmas for C09: what the run relation `Tiles` implies about the event list. -/
namespace GrmVerif.Lex

def Ev.isStep : Ev → Bool
  | .tok .. => true
  | .skip .. => true
  | _ => false

def Ev.start : Ev → Nat
  | .tok _ _ s _ => s
  | .skip _ s _ => s
  | .err o _ => o
  | .panic => 0

def Ev.len : Ev → Nat
  | .tok _ _ _ l => l
  | .skip _ _ l => l
  | _ => 0

def Ev.ridx : Ev → Nat
  | .tok r _ _ _ => r
  | .skip r _ _ => r
  | _ => 0

/-- `Chain i steps e`: all of `steps` are lexemes or skipped matches, each non-empty, the first starts
at `i`, each next one starts where the previous one ended, the last one ends at `e` -/
def Chain : Nat → List Ev → Nat → Prop
  | i, [], e => e = i
  | i, ev :: evs, e => ev.isStep = true ∧ ev.start = i ∧ 0 < ev.len ∧ Chain (i + ev.len) evs e

/-- every target state a rule refers to exists (guaranteed by the `.l` parser: `UnknownStartState`) -/
def TargetsOK (cfg : Cfg) : Prop :=
  ∀ r ∈ cfg.rules, ∀ tid op, r.target = some (tid, op) → ∃ s, getState cfg.states tid = some s

/-- every named rule has a token id (true of a parsed definition; `set_rule_ids` can unset ids) -/
def AllIds (cfg : Cfg) : Prop := ∀ r ∈ cfg.rules, r.name.isSome = true → r.tokId.isSome = true

/-- matches lie inside the input -/
def MlBounded (ml : Nat → Nat → Option Nat) (n : Nat) : Prop := ∀ r i l, ml r i = some l → i + l ≤ n

theorem Emits.facts {r : Rule} {ridx i len : Nat} {ev : Ev} (h : Emits r ridx i len ev) :
    ev.isStep = true ∧ ev.start = i ∧ ev.len = len ∧ ev.ridx = ridx := by
  rcases h with ⟨_, rfl⟩ | ⟨t, _, _, rfl⟩ <;> simp [Ev.isStep, Ev.start, Ev.len, Ev.ridx]

/-- the plain stack after a list of step events (each event names its rule) -/
def stackAfter (cfg : Cfg) (init : St) : List St → List Ev → List St
  | ps, [] => ps
  | ps, ev :: evs =>
    match cfg.rules[ev.ridx]? with
    | some r =>
      match r.target with
      | some (tid, op) =>
        match getState cfg.states tid with
        | some s => stackAfter cfg init (plainOp init ps s op) evs
        | none => stackAfter cfg init ps evs
      | none => stackAfter cfg init ps evs
    | none => stackAfter cfg init ps evs

theorem stackAfter_step {cfg : Cfg} {init : St} {ps ps' : List St} {r : Rule} {ev : Ev} {evs : List Ev}
    (hr : cfg.rules[ev.ridx]? = some r) (hm : Moves cfg init ps r ps') :
    stackAfter cfg init ps (ev :: evs) = stackAfter cfg init ps' evs := by
  rcases hm with ⟨ht, rfl⟩ | ⟨tid, op, s, ht, hg, rfl⟩
  · simp [stackAfter, hr, ht]
  · simp [stackAfter, hr, ht, hg]

/-- shape of a correct event list when all target states exist -/
theorem tiles_shape {cfg : Cfg} {ml : Nat → Nat → Option Nat} {n : Nat} {init : St} (htg : TargetsOK cfg)
    {i : Nat} {ps : List St} {evs : List Ev} (h : Tiles cfg ml n init i ps evs) :
    ∃ steps e, Chain i steps e ∧ (MlBounded ml n → i ≤ n → e ≤ n) ∧
      ((evs = steps ∧ n ≤ e) ∨ (∃ st, evs = steps ++ [.err e st] ∧ e < n)) := by
  induction h with
  | done hn => exact ⟨[], _, rfl, fun _ h => h, Or.inl ⟨rfl, hn⟩⟩
  | stuck hin _ => exact ⟨[], _, rfl, fun _ h => h, Or.inr ⟨_, rfl, hin⟩⟩
  | unset hin _ _ _ _ => exact ⟨[], _, rfl, fun _ h => h, Or.inr ⟨_, rfl, hin⟩⟩
  | badTarget hin hle hr hem ht hg =>
    obtain ⟨s, hs⟩ := htg _ (List.mem_of_getElem? hr) _ _ ht
    rw [hg] at hs; cases hs
  | step hin hle hr hem hmv _ ih =>
    obtain ⟨steps, e, hc, hb, hsh⟩ := ih
    obtain ⟨f1, f2, f3, _⟩ := hem.facts
    refine ⟨_ :: steps, e, ⟨f1, f2, by rw [f3]; exact hle.pos, by rw [f3]; exact hc⟩, ?_, ?_⟩
    · intro hml _; exact hb hml (hml _ _ _ hle.hit)
    · rcases hsh with ⟨rfl, hn⟩ | ⟨st, rfl, hn⟩
      · exact Or.inl ⟨rfl, hn⟩
      · exact Or.inr ⟨st, rfl, hn⟩

/-- every step is the longest/earliest choice in the state the plain stack has at that moment, and a
final state-carrying error sits at a position where that state is stuck -/
theorem tiles_positions {cfg : Cfg} {ml : Nat → Nat → Option Nat} {n : Nat} {init : St}
    {i : Nat} {ps : List St} {evs : List Ev} (h : Tiles cfg ml n init i ps evs) :
    (∀ pre ev post, evs = pre ++ ev :: post → ev.isStep = true →
      ∃ cur rest, stackAfter cfg init ps pre = cur :: rest ∧ LongestEarliest cfg ml cur ev.start ev.ridx ev.len) ∧
    (∀ pre e id, evs = pre ++ [.err e (some id)] →
      ∃ cur rest, stackAfter cfg init ps pre = cur :: rest ∧ id = cur.id ∧ Stuck cfg ml cur e) := by
  induction h with
  | done hn =>
    constructor
    · intro pre ev post h; simp at h
    · intro pre e id h; simp at h
  | @stuck i cur ps hin hs =>
    constructor
    · intro pre ev post h hstep
      cases pre with
      | nil => simp at h; obtain ⟨rfl, _⟩ := h; simp [Ev.isStep] at hstep
      | cons a pre => simp at h
    · intro pre e id h
      cases pre with
      | nil => simp at h; obtain ⟨rfl, rfl⟩ := h; exact ⟨cur, ps, rfl, rfl, hs⟩
      | cons a pre => simp at h
  | @unset i cur ps ridx len r hin _ _ _ _ =>
    constructor
    · intro pre ev post h hstep
      cases pre with
      | nil => simp at h; obtain ⟨rfl, _⟩ := h; simp [Ev.isStep] at hstep
      | cons a pre => simp at h
    · intro pre e id h
      cases pre with
      | nil => simp at h
      | cons a pre => simp at h
  | @badTarget i cur ps ridx len r ev tid op hin hle hr hem ht hg =>
    obtain ⟨f1, f2, f3, f4⟩ := hem.facts
    constructor
    · intro pre ev' post h hstep
      cases pre with
      | nil =>
        simp at h; obtain ⟨rfl, _⟩ := h
        exact ⟨cur, ps, rfl, by rw [f2, f3, f4]; exact hle⟩
      | cons a pre =>
        cases pre with
        | nil => simp at h; obtain ⟨_, rfl, _⟩ := h; simp [Ev.isStep] at hstep
        | cons b pre => simp at h
    · intro pre e id h
      cases pre with
      | nil => simp at h
      | cons a pre =>
        cases pre with
        | nil => simp at h
        | cons b pre => simp at h
  | @step i cur ps ridx len r ev ps' evs hin hle hr hem hmv _ ih =>
    obtain ⟨f1, f2, f3, f4⟩ := hem.facts
    have hr' : cfg.rules[ev.ridx]? = some r := by rw [f4]; exact hr
    constructor
    · intro pre ev' post h hstep
      cases pre with
      | nil =>
        simp at h; obtain ⟨rfl, _⟩ := h
        exact ⟨cur, ps, rfl, by rw [f2, f3, f4]; exact hle⟩
      | cons a pre =>
        simp at h; obtain ⟨rfl, h⟩ := h
        rw [stackAfter_step hr' hmv]
        exact ih.1 pre ev' post h hstep
    · intro pre e id h
      cases pre with
      | nil => simp at h; obtain ⟨rfl, h⟩ := h; subst h; simp [Ev.isStep] at f1
      | cons a pre =>
        simp at h; obtain ⟨rfl, h⟩ := h
        rw [stackAfter_step hr' hmv]
        exact ih.2 pre e id h

/-- a correct event list contains no panic, and errors without a state only for unset ids / bad targets -/
theorem tiles_no_panic {cfg : Cfg} {ml : Nat → Nat → Option Nat} {n : Nat} {init : St}
    {i : Nat} {ps : List St} {evs : List Ev} (h : Tiles cfg ml n init i ps evs) : Ev.panic ∉ evs := by
  induction h with
  | done _ => simp
  | stuck _ _ => simp
  | unset _ _ _ _ _ => simp
  | badTarget _ _ _ hem _ _ =>
    have := hem.facts.1
    intro hm; simp at hm; subst hm; simp [Ev.isStep] at this
  | step _ _ _ hem _ _ ih =>
    have := hem.facts.1
    intro hm; simp at hm
    rcases hm with rfl | hm
    · simp [Ev.isStep] at this
    · exact ih hm

/-- with all ids set and all targets present, the only error is the state-carrying one -/
theorem tiles_error_kind {cfg : Cfg} {ml : Nat → Nat → Option Nat} {n : Nat} {init : St}
    (htg : TargetsOK cfg) (hids : AllIds cfg)
    {i : Nat} {ps : List St} {evs : List Ev} (h : Tiles cfg ml n init i ps evs) :
    ∀ e st, Ev.err e st ∈ evs → ∃ id, st = some id := by
  induction h with
  | done _ => intro e st h; simp at h
  | stuck _ _ => intro e st h; simp at h; exact ⟨_, h.2⟩
  | unset _ _ hr hn ht =>
    have := hids _ (List.mem_of_getElem? hr) hn
    rw [ht] at this; cases this
  | badTarget _ _ hr _ ht hg =>
    obtain ⟨s, hs⟩ := htg _ (List.mem_of_getElem? hr) _ _ ht
    rw [hg] at hs; cases hs
  | step _ _ _ hem _ _ ih =>
    intro e st h
    simp at h
    rcases h with rfl | h
    · have := hem.facts.1; simp [Ev.isStep] at this
    · exact ih e st h

end GrmVerif.Lex
