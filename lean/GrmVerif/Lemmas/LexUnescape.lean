import GrmVerif.Model.LexUnescape
/-!
Specification of the escape rewriting (`unescapeSpec`, one pass, no offsets) and the lemmas that
connect the two-phase offset-based scanner of `Model/LexUnescape.lean` with it.
-/
namespace GrmVerif.LexUnescape

/-! ### Specification -/

/-- What `\c` (with `s` the text from `c` on) stands for in `re_str`. -/
def rewritePair (cfg : Cfg) (c : Char) (s : List Char) : List Char :=
  if c = 'b' then (if cfg.posix then cfg.bPosix else cfg.bPlain)
  else if keep cfg c s then ['\\', c]
  else [c]

/-- One pass, left to right: a backslash and the character after it form a pair and are replaced
by `rewritePair`; every other character — including a backslash that ends the text — is kept. -/
def unescapeSpec (cfg : Cfg) : List Char → List Char
  | [] => []
  | [c] => [c]
  | c :: c2 :: rest =>
    if c = '\\' then rewritePair cfg c2 (c2 :: rest) ++ unescapeSpec cfg rest
    else c :: unescapeSpec cfg (c2 :: rest)

/-- The two facts about the tables that the code relies on (both are checked against the extracted
tables in `Props/C11.lean`): without `posix_escapes` the `b` arm pushes `\b` back unchanged, and
`\b` is never classified as "keep" by the tables (so the first loop always stops at it). -/
structure Cfg.BOk (cfg : Cfg) : Prop where
  plain : cfg.bPlain = ['\\', 'b']
  notKept : ∀ s, keep cfg 'b' ('b' :: s) = false

/-! ### Slices -/

theorem byteLen_append (a b : List Char) : byteLen (a ++ b) = byteLen a + byteLen b := by
  induction a with
  | nil => simp [byteLen]
  | cons c cs ih => simp [byteLen, ih]; omega

theorem dropB_zero (s : List Char) : dropB s 0 = some s := by
  cases s <;> simp [dropB]

theorem takeB_zero (s : List Char) : takeB s 0 = some [] := by
  cases s <;> simp [takeB]

theorem dropB_append (a b : List Char) : dropB (a ++ b) (byteLen a) = some b := by
  induction a with
  | nil => simp [byteLen, dropB_zero]
  | cons c cs ih =>
    have hp := Char.utf8Size_pos c
    simp only [List.cons_append, byteLen, dropB]
    rw [if_neg (by omega), if_pos (by omega)]
    have : c.utf8Size + byteLen cs - c.utf8Size = byteLen cs := by omega
    rw [this, ih]

theorem takeB_append (a b : List Char) : takeB (a ++ b) (byteLen a) = some a := by
  induction a with
  | nil => simp [byteLen, takeB_zero]
  | cons c cs ih =>
    have hp := Char.utf8Size_pos c
    simp only [List.cons_append, byteLen, takeB]
    rw [if_neg (by omega), if_pos (by omega)]
    have : c.utf8Size + byteLen cs - c.utf8Size = byteLen cs := by omega
    rw [this, ih]; rfl

/-- `&(a ++ b ++ c)[|a| .. |a| + |b|] = b` -/
theorem sliceB_mid (a b c : List Char) :
    sliceB (a ++ b ++ c) (byteLen a) (byteLen a + byteLen b) = some b := by
  unfold sliceB
  rw [if_pos (by omega), List.append_assoc, dropB_append]
  have : byteLen a + byteLen b - byteLen a = byteLen b := by omega
  simp [this, takeB_append]

/-! ### Specification lemmas -/

theorem spec_cons_ne (cfg : Cfg) (c : Char) (h : c ≠ '\\') (x : List Char) :
    unescapeSpec cfg (c :: x) = c :: unescapeSpec cfg x := by
  cases x with
  | nil => simp [unescapeSpec]
  | cons d x => simp [unescapeSpec, h]

theorem spec_pair (cfg : Cfg) (c2 : Char) (x : List Char) :
    unescapeSpec cfg ('\\' :: c2 :: x) = rewritePair cfg c2 (c2 :: x) ++ unescapeSpec cfg x := by
  simp [unescapeSpec]

/-- `p`, in front of `x`, is a run of complete items that the specification keeps. -/
def AlignedWith (cfg : Cfg) (p x : List Char) : Prop :=
  unescapeSpec cfg (p ++ x) = p ++ unescapeSpec cfg x

theorem aligned_nil (cfg : Cfg) (x : List Char) : AlignedWith cfg [] x := by
  simp [AlignedWith]

theorem aligned_snoc (cfg : Cfg) (p x : List Char) (c : Char) (hp : AlignedWith cfg p (c :: x))
    (h : c ≠ '\\') : AlignedWith cfg (p ++ [c]) x := by
  unfold AlignedWith at *
  rw [List.append_assoc, List.singleton_append, hp, spec_cons_ne cfg c h, List.append_assoc]
  rfl

/-! ### The scanner -/

theorem bs_size : ('\\' : Char).utf8Size = 1 := by decide
theorem b_size : ('b' : Char).utf8Size = 1 := by decide

theorem byteLen_pair (c : Char) : byteLen ['\\', c] = 1 + c.utf8Size := by
  simp [byteLen, bs_size]

/-- one cursor: the pending text is flushed and the pair is replaced as the specification says -/
theorem applyCursor_spec (cfg : Cfg) (re done pending rest2 unesc : List Char) (c : Char)
    (hre : re = done ++ pending ++ ('\\' :: c :: rest2)) :
    applyCursor cfg re ⟨byteLen done + byteLen pending, c :: rest2,
        byteLen done + byteLen pending + 1, c⟩ unesc (byteLen done)
      = some (unesc ++ pending ++ rewritePair cfg c (c :: rest2),
          byteLen done + byteLen pending + 1 + c.utf8Size) := by
  have hA : sliceB re (byteLen done) (byteLen done + byteLen pending) = some pending := by
    rw [hre]; exact sliceB_mid done pending _
  unfold applyCursor rewritePair
  by_cases hcb : c = 'b'
  · subst hcb
    simp [hA, b_size]
  · simp only [hcb, if_false]
    by_cases hk : keep cfg c (c :: rest2) = true
    · simp only [hk, if_true]
      have hB : sliceB re (byteLen done) (byteLen done + byteLen pending + 1 + c.utf8Size)
          = some (pending ++ ['\\', c]) := by
        have := sliceB_mid done (pending ++ ['\\', c]) rest2
        rw [byteLen_append, byteLen_pair] at this
        have e : done ++ (pending ++ ['\\', c]) ++ rest2 = re := by rw [hre]; simp
        rw [e] at this
        have e2 : byteLen done + (byteLen pending + (1 + c.utf8Size))
            = byteLen done + byteLen pending + 1 + c.utf8Size := by omega
        rw [e2] at this; exact this
      simp [hB]
    · simp only [hk]
      have hC : sliceB re (byteLen done + byteLen pending + 1)
          (byteLen done + byteLen pending + 1 + c.utf8Size) = some [c] := by
        have := sliceB_mid (done ++ pending ++ ['\\']) [c] rest2
        simp only [byteLen_append, byteLen, bs_size] at this
        have e : done ++ pending ++ ['\\'] ++ [c] ++ rest2 = re := by rw [hre]; simp
        rw [e] at this
        simpa using this
      simp [hA, hC]

/-- the second loop, from any point at which the text since `last_pos` is kept by the specification -/
theorem inner_spec (cfg : Cfg) (re : List Char) (rest : List Char) :
    ∀ (done pending unesc : List Char), re = done ++ pending ++ rest → AlignedWith cfg pending rest →
      inner cfg re rest (byteLen done + byteLen pending) unesc (byteLen done)
        = some (unesc ++ pending ++ unescapeSpec cfg rest) := by
  fun_induction unescapeSpec cfg rest with
  | case1 =>
    intro done pending unesc hre _
    simp only [inner, List.append_nil]
    rw [hre, List.append_nil, dropB_append]; simp
  | case2 c =>
    intro done pending unesc hre _
    simp only [inner]
    rw [hre, List.append_assoc, dropB_append]; simp
  | case3 c2 rest ih =>
    intro done pending unesc hre hal
    simp only [inner, if_true, bs_size]
    rw [applyCursor_spec cfg re done pending rest unesc c2 hre]
    simp only [Option.bind_some]
    have hre' : re = (done ++ pending ++ ['\\', c2]) ++ [] ++ rest := by rw [hre]; simp
    have := ih (done ++ pending ++ ['\\', c2]) [] (unesc ++ pending ++ rewritePair cfg c2 (c2 :: rest))
      hre' (aligned_nil cfg rest)
    simp only [byteLen_append, byteLen, bs_size, Nat.add_zero] at this
    have e : byteLen done + byteLen pending + (1 + c2.utf8Size)
        = byteLen done + byteLen pending + 1 + c2.utf8Size := by omega
    rw [e] at this
    rw [this]; simp
  | case4 c c2 rest hc ih =>
    intro done pending unesc hre hal
    simp only [inner, hc, if_false]
    have hre' : re = done ++ (pending ++ [c]) ++ (c2 :: rest) := by rw [hre]; simp
    have := ih done (pending ++ [c]) unesc hre' (aligned_snoc cfg pending (c2 :: rest) c hal hc)
    simp only [byteLen_append, byteLen, Nat.add_zero] at this
    have e : byteLen done + (byteLen pending + c.utf8Size)
        = byteLen done + byteLen pending + c.utf8Size := by omega
    rw [e] at this
    rw [this]; simp

/-- a pair the tables keep is kept by the specification (it is never `\b`, by `BOk`) -/
theorem rewritePair_keep (cfg : Cfg) (hb : cfg.BOk) (c2 : Char) (x : List Char)
    (hk : keep cfg c2 (c2 :: x) = true) : rewritePair cfg c2 (c2 :: x) = ['\\', c2] := by
  unfold rewritePair
  by_cases hcb : c2 = 'b'
  · subst hcb; have := hb.notKept x; rw [this] at hk; cases hk
  · simp [hcb, hk]

/-- first loop, `break None`: the specification changes nothing -/
theorem findFirst_none (cfg : Cfg) (hb : cfg.BOk) (rest : List Char) :
    ∀ pos, findFirst cfg rest pos = none → unescapeSpec cfg rest = rest := by
  fun_induction unescapeSpec cfg rest with
  | case1 => intro pos _; rfl
  | case2 c => intro pos _; rfl
  | case3 c2 rest ih =>
    intro pos h
    simp only [findFirst, if_true] at h
    by_cases hk : keep cfg c2 (c2 :: rest) = true
    · simp only [hk, Bool.not_true, Bool.false_eq_true, if_false] at h
      rw [rewritePair_keep cfg hb c2 rest hk, ih _ h]; rfl
    · simp [hk] at h
  | case4 c c2 rest hc ih =>
    intro pos h
    simp only [findFirst, hc, if_false] at h
    rw [ih _ h]

/-- first loop, `break Some(..)`: it stops at the first pair that needs rewriting, everything
before it is kept by the specification, and the offsets are those of that pair -/
theorem findFirst_some (cfg : Cfg) (hb : cfg.BOk) (rest : List Char) :
    ∀ pos cur rest' pos', findFirst cfg rest pos = some (cur, rest', pos') →
      ∃ mid, rest = mid ++ ('\\' :: cur.c :: rest') ∧
        AlignedWith cfg mid ('\\' :: cur.c :: rest') ∧
        cur.i = pos + byteLen mid ∧ cur.j = pos + byteLen mid + 1 ∧ cur.s = cur.c :: rest' ∧
        pos' = pos + byteLen mid + 1 + cur.c.utf8Size := by
  fun_induction unescapeSpec cfg rest with
  | case1 => intro pos cur rest' pos' h; simp [findFirst] at h
  | case2 c => intro pos cur rest' pos' h; simp [findFirst] at h
  | case3 c2 rest ih =>
    intro pos cur rest' pos' h
    simp only [findFirst, if_true, bs_size] at h
    by_cases hk : keep cfg c2 (c2 :: rest) = true
    · simp only [hk, Bool.not_true, Bool.false_eq_true, if_false] at h
      obtain ⟨mid, hr, hal, hi, hj, hs, hp⟩ := ih _ cur rest' pos' h
      refine ⟨'\\' :: c2 :: mid, by rw [hr]; simp, ?_, ?_, ?_, hs, ?_⟩
      · unfold AlignedWith at *
        have hk' : keep cfg c2 (c2 :: (mid ++ '\\' :: cur.c :: rest')) = true := by rw [← hr]; exact hk
        simp only [List.cons_append]
        rw [spec_pair, rewritePair_keep cfg hb c2 _ hk', hal]; simp
      · simp only [byteLen, bs_size]; omega
      · simp only [byteLen, bs_size]; omega
      · simp only [byteLen, bs_size]; omega
    · simp only [hk, Bool.not_false, if_true, Option.some.injEq, Prod.mk.injEq] at h
      obtain ⟨hc, hr, hp⟩ := h
      subst hc; subst hr; subst hp
      exact ⟨[], by simp, aligned_nil cfg _, by simp [byteLen], by simp [byteLen], rfl, by simp [byteLen]⟩
  | case4 c c2 rest hc ih =>
    intro pos cur rest' pos' h
    simp only [findFirst, hc, if_false] at h
    obtain ⟨mid, hr, hal, hi, hj, hs, hp⟩ := ih _ cur rest' pos' h
    refine ⟨c :: mid, by rw [hr]; simp, ?_, ?_, ?_, hs, ?_⟩
    · unfold AlignedWith at *
      simp only [List.cons_append]
      rw [spec_cons_ne cfg c hc, hal]
    · simp only [byteLen]; omega
    · simp only [byteLen]; omega
    · simp only [byteLen]; omega

/-- **the scanner computes the one-pass specification; no slice panics** -/
theorem unescape_spec (cfg : Cfg) (hb : cfg.BOk) (re : List Char) :
    unescape cfg re = some (unescapeSpec cfg re) := by
  unfold unescape
  cases h : findFirst cfg re 0 with
  | none => simp [findFirst_none cfg hb re 0 h]
  | some t =>
    obtain ⟨cur, rest, pos⟩ := t
    obtain ⟨mid, hr, hal, hi, hj, hs, hp⟩ := findFirst_some cfg hb re 0 cur rest pos h
    obtain ⟨i, s, j, c⟩ := cur
    simp only at hr hal hi hj hs hp
    subst hi; subst hj; subst hs; subst hp
    have hre : re = [] ++ mid ++ ('\\' :: c :: rest) := by simpa using hr
    have h1 := applyCursor_spec cfg re [] mid rest [] c hre
    simp only [byteLen] at h1
    simp only [h1, Option.bind_some]
    have hre' : re = ([] ++ mid ++ ['\\', c]) ++ [] ++ rest := by rw [hr]; simp
    have h2 := inner_spec cfg re rest ([] ++ mid ++ ['\\', c]) []
      ([] ++ mid ++ rewritePair cfg c (c :: rest)) hre' (aligned_nil cfg rest)
    simp only [byteLen_append, byteLen, bs_size, Nat.add_zero, List.nil_append] at h2
    have e : byteLen mid + (1 + c.utf8Size) = 0 + byteLen mid + 1 + c.utf8Size := by omega
    rw [e] at h2
    simp only [List.nil_append]
    rw [h2]
    unfold AlignedWith at hal
    rw [hr, hal, spec_pair]; simp

end GrmVerif.LexUnescape
