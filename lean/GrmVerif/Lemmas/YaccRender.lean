import GrmVerif.Model.YaccParse
import GrmVerif.Lemmas.YaccLex
/-!
C10, text → AST stage: an abstract syntax of the RULES SECTION of a `.y` file, its canonical rendering,
the well-formedness predicate under which the rendering is read back, and the AST image the text
parser (`Model/YaccParse.lean`) is proved to produce (`Lemmas/YaccRoundtrip*.lean`, `Props/C10.lean`).

Layout emitted by `renderRules` (exactly; there is no other white space):

    rule      ::= name [ " -> " type ] ": " prod ( "| " prod )* ";\n"      (the type for YaccKind::Grmtools only)
    prod      ::= [ "%empty " ] ( sym " " )* [ "%prec " tok " " ] [ "{" action-text "} " ]
    sym, tok  ::= name | "'" text "'" | "\"" text "\""

Core Lean only (evaluated by the driver).
-/
namespace GrmVerif.YaccRender
open GrmVerif.YaccParse
open GrmVerif.Header (Span byteLen)

/-- a symbol of a production or the operand of `%prec` as it is WRITTEN -/
inductive RTok where
  /-- `'text'` or `"text"`; `q` is the quote character -/
  | quoted (q : Char) (t : Name)
  /-- a bare name: a rule reference, or a token if the name was declared by `%token` -/
  | bare (n : Name)
deriving Repr, DecidableEq

structure RProd where
  /-- `%empty` is written (only meaningful with no symbols) -/
  empty : Bool := false
  syms : List RTok := []
  prec : Option RTok := none
  /-- the text between the outer braces -/
  action : Option (List Char) := none
deriving Repr, DecidableEq

/-- a rule with its productions `first :: more` (at least one) -/
structure RRule where
  name : Name
  /-- the action type written after `->` (rendered and read for `YaccKind::Grmtools` only) -/
  ty : List Char := []
  first : RProd
  more : List RProd := []
deriving Repr, DecidableEq

def RRule.prods (r : RRule) : List RProd := r.first :: r.more

/-! ### rendering -/

def RTok.text : RTok → List Char
  | .quoted q t => q :: (t ++ [q])
  | .bare n => n

/-- the name the parser records: the text between the quotes, or the bare name -/
def RTok.name : RTok → Name
  | .quoted _ t => t
  | .bare n => n

def renderSyms : List RTok → List Char
  | [] => []
  | s :: ss => s.text ++ ' ' :: renderSyms ss

def renderAction : Option (List Char) → List Char
  | some a => '{' :: (a ++ ['}', ' '])
  | none => []

def renderPrec : Option RTok → List Char
  | some t => '%' :: 'p' :: 'r' :: 'e' :: 'c' :: ' ' :: (t.text ++ [' '])
  | none => []

def renderEmpty : Bool → List Char
  | true => ['%', 'e', 'm', 'p', 't', 'y', ' ']
  | false => []

def renderProd (p : RProd) : List Char :=
  renderEmpty p.empty ++ (renderSyms p.syms ++ (renderPrec p.prec ++ renderAction p.action))

def renderProds : RProd → List RProd → List Char
  | p, [] => renderProd p ++ [';', '\n']
  | p, q :: ps => renderProd p ++ '|' :: ' ' :: renderProds q ps

/-- ` -> type` between the rule's name and its colon; `g` = the kind is `YaccKind::Grmtools` -/
def renderHead (g : Bool) (r : RRule) : List Char :=
  if g then ' ' :: '-' :: '>' :: ' ' :: r.ty else []

def renderRule (g : Bool) (r : RRule) : List Char :=
  r.name ++ (renderHead g r ++ ':' :: ' ' :: renderProds r.first r.more)

def renderRules (g : Bool) : List RRule → List Char
  | [] => []
  | r :: rs => renderRule g r ++ renderRules g rs

/-! ### well-formedness: what the parser needs to read the rendering back -/

/-- `RE_NAME` / the third alternative of `RE_TOKEN` match the whole name (`reName`, `reToken`) -/
def wfName : Name → Bool
  | [] => false
  | c :: cs => isNameStart c && cs.all isNameCont

/-- the body of a quoted token (`quotedBody`, `quotedTail`): `.+?` then the FIRST closing quote — at
least one character, no `\n`, and the quote character nowhere after the first character -/
def wfQuotedText (q : Char) : Name → Bool
  | [] => false
  | c :: cs => (c != '\n') && cs.all (fun d => d != q && d != '\n')

def wfTok : RTok → Bool
  | .quoted q t => (q == '\'' || q == '"') && wfQuotedText q t
  | .bare n => wfName n

/-- what `actionLoop` counts: started with `c` open braces (`c ≥ 1`) the text never closes the
outermost brace; the result is the number of braces open at the end. Every `{` and `}` counts,
wherever it is (string literals and comments of the action language are not recognised). -/
def braceScan : Nat → List Char → Option Nat
  | c, [] => some c
  | c, ch :: cs =>
    if ch = '{' then braceScan (c + 1) cs
    else if ch = '}' then (if c ≤ 1 then none else braceScan (c - 1) cs)
    else braceScan c cs

/-- balanced braces: the `}` rendered after the text is the one that closes the action -/
def wfAction (a : List Char) : Bool := braceScan 1 a == some 1

def wfProd (p : RProd) : Bool :=
  p.syms.all wfTok && (p.prec.all wfTok) && (p.action.all wfAction) && (!p.empty || p.syms.isEmpty)

/-- what `parse_to_single_colon` (`colonLoop`) skips: everything up to the first `:` that is not
followed by `:`; `::` is skipped as a pair -/
def typeScan : List Char → Bool
  | [] => true
  | c :: cs =>
    if c = ':' then
      match cs with
      | [] => false
      | d :: ds => if d = ':' then typeScan ds else false
    else typeScan cs

/-- a rule's action type: no single `:` (it would end the type), and it begins with a character that
is not white space nor `/` (`parse_ws` before it would skip that) -/
def wfType : List Char → Bool
  | [] => false
  | c :: cs => !YaccLex.isBlank c && !YaccLex.isEol c && c != '/' && typeScan (c :: cs)

def wfRule (g : Bool) (r : RRule) : Bool := wfName r.name && r.prods.all wfProd && (!g || wfType r.ty)

/-- well-formed rules section (decidable: a `Bool`); `g` = the kind is `YaccKind::Grmtools` -/
def wfRules (g : Bool) (rs : List RRule) : Bool := rs.all (wfRule g)

/-! ### the image: what the parser must have recorded, with byte offsets -/

def St.mapAst (f : Ast → Ast) (st : St) : St := { st with ast := f st.ast }
def St.incNl (k : Nat) (st : St) : St := { st with nl := st.nl + k }

/-- the span the parser records for a token written at byte `i` -/
def RTok.span (i : Nat) : RTok → Span
  | .quoted _ t => (i + 1, i + 1 + byteLen t)
  | .bare n => (i, i + byteLen n)

/-- one symbol written at byte `i`; a bare name is a token iff it is in the token set AND was declared
by `%token` (`token_directives`) at that moment -/
def stepSym (i : Nat) (s : RTok) (p : PState) (st : St) : PState × St :=
  match s with
  | .quoted _ t =>
    ({ p with prodEnd := some (i + byteLen s.text),
              syms := p.syms ++ [⟨true, t, s.span i⟩] }, St.mapAst (fun a => a.insertToken t (s.span i)) st)
  | .bare n =>
    ({ p with prodEnd := some (i + byteLen s.text),
              syms := p.syms ++ [⟨st.ast.hasToken n && st.ast.tokenDirs.contains n, n, s.span i⟩] }, st)

def runSyms : Nat → List RTok → PState → St → Nat × PState × St
  | i, [], p, st => (i, p, st)
  | i, s :: ss, p, st =>
    runSyms (i + byteLen s.text + 1) ss (stepSym i s p st).1 (stepSym i s p st).2

def runEmpty (i : Nat) (e : Bool) (p : PState) : Nat × PState :=
  if e then (i + 7, { p with prodEnd := some (i + 6) }) else (i, p)

def runPrec (i : Nat) (t : Option RTok) (p : PState) (st : St) : Nat × PState × St :=
  match t with
  | some t =>
    (i + 6 + byteLen t.text + 1, { p with prec := some t.name, prodEnd := some (i + 6 + byteLen t.text) },
      St.mapAst (fun a => a.insertToken t.name (t.span (i + 6))) st)
  | none => (i, p, st)

def runAction (i : Nat) (a : Option (List Char)) (p : PState) (st : St) : Nat × PState × St :=
  match a with
  | some a => (i + byteLen a + 3, { p with prodEnd := some i, action := true }, St.incNl (YaccLex.countEol a) st)
  | none => (i, p, st)

/-- one production written at byte `i`: the position of the `|`/`;` after it, the parser's local
variables there, the state there -/
def runProd (i : Nat) (pr : RProd) (st : St) : Nat × PState × St :=
  let e := runEmpty i pr.empty { prodStart := i }
  let s := runSyms e.1 pr.syms e.2 st
  let c := runPrec s.1 pr.prec s.2.1 s.2.2
  runAction c.1 pr.action c.2.1 c.2.2

/-- the production the parser adds when it meets `|`/`;` at byte `i` -/
def mkProd (rn : Name) (p : PState) (i : Nat) : Prod :=
  ⟨rn, p.syms, p.prec, p.action, (p.prodStart, p.prodEnd.getD i)⟩

def pushProd (pr : Prod) (st : St) : St := St.mapAst (fun a => { a with prods := a.prods ++ [pr] }) st

/-- the productions of one rule, the first written at byte `i`: position after the `;` and the state -/
def runProds (rn : Name) : Nat → RProd → List RProd → St → Nat × St
  | i, pr, [], st =>
    let r := runProd i pr st
    (r.1 + 1, pushProd (mkProd rn r.2.1 r.1) r.2.2)
  | i, pr, q :: qs, st =>
    let r := runProd i pr st
    runProds rn (r.1 + 2) q qs (pushProd (mkProd rn r.2.1 r.1) r.2.2)

def setStart (rn : Name) (sp : Span) (a : Ast) : Ast :=
  if a.start.isNone then { a with start := some (rn, sp) } else a

/-- newlines inside the action type (counted by `parse_to_single_colon`) -/
def headNl (g : Bool) (r : RRule) : Nat := if g then YaccLex.countEol r.ty else 0

/-- the state after the rule's header: the start rule defaults to the first rule, the rule is added
unless it exists -/
def headSt (g : Bool) (i : Nat) (r : RRule) (st : St) : St :=
  St.incNl (headNl g r)
    (St.mapAst (fun a => (setStart r.name (i, i + byteLen r.name) a).addRule r.name (i, i + byteLen r.name)) st)

/-- one rule written at byte `i`: the position after its final newline, the state there -/
def runRule (g : Bool) (i : Nat) (r : RRule) (st : St) : Nat × St :=
  let q := runProds r.name (i + byteLen r.name + byteLen (renderHead g r) + 2) r.first r.more (headSt g i r st)
  (q.1 + 1, St.incNl 1 q.2)

def runRules (g : Bool) : Nat → List RRule → St → Nat × St
  | i, [], st => (i, st)
  | i, r :: rs, st => runRules g (runRule g i r st).1 rs (runRule g i r st).2

end GrmVerif.YaccRender
