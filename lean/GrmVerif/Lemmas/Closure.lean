import GrmVerif.Model.Closure
import GrmVerif.Lemmas.Analyses2
/-! The reference LR(1) closure is the least closed set containing the kernel; state reachability. -/
namespace GrmVerif.Closure
open GrmVerif Ref Fix Spec

/-- the LR(1) closure of a kernel, as the least set closed under the textbook rules -/
inductive ClosureP (G : Grammar) (core : List Item) : CFact → Prop
  | kitem (i : Item) : i ∈ core → ClosureP G core (.item i.p i.dot)
  | kla (i : Item) (t : Nat) : i ∈ core → t ∈ i.la → ClosureP G core (.la i.p i.dot t)
  | citem (p d q : Nat) : ClosureP G core (.item p d) → symAfter G p d = some (.rule (G.lhs q)) →
      q < G.nprods → ClosureP G core (.item q 0)
  | cfirst (p d q t : Nat) : ClosureP G core (.item p d) → symAfter G p d = some (.rule (G.lhs q)) →
      q < G.nprods → FirstSeqP G ((G.rhs p).drop (d + 1)) t → ClosureP G core (.la q 0 t)
  | cinherit (p d q t : Nat) : ClosureP G core (.item p d) → symAfter G p d = some (.rule (G.lhs q)) →
      q < G.nprods → NullableSeq G ((G.rhs p).drop (d + 1)) → ClosureP G core (.la p d t) →
      ClosureP G core (.la q 0 t)

theorem mem_itemUniverse {G : Grammar} {p d : Nat} :
    (p, d) ∈ itemUniverse G ↔ p < G.nprods ∧ d ≤ (G.rhs p).length := by
  simp only [itemUniverse, List.mem_flatMap, List.mem_range, List.mem_map, Prod.mk.injEq]
  constructor
  · rintro ⟨a, ha, b, hb, rfl, rfl⟩; exact ⟨ha, by omega⟩
  · rintro ⟨h1, h2⟩; exact ⟨p, h1, d, by omega, rfl, rfl⟩

theorem mem_universe_item {G : Grammar} {p d : Nat} :
    CFact.item p d ∈ factUniverse G ↔ p < G.nprods ∧ d ≤ (G.rhs p).length := by
  simp only [factUniverse, List.mem_append, List.mem_map, List.mem_flatMap, List.mem_range, Prod.exists]
  constructor
  · rintro (⟨a, b, hab, he⟩ | ⟨a, b, _, t, _, he⟩)
    · cases he; exact mem_itemUniverse.mp hab
    · cases he
  · intro h; exact Or.inl ⟨p, d, mem_itemUniverse.mpr h, rfl⟩

theorem mem_universe_la {G : Grammar} {p d t : Nat} :
    CFact.la p d t ∈ factUniverse G ↔ p < G.nprods ∧ d ≤ (G.rhs p).length ∧ t < G.ntoks := by
  simp only [factUniverse, List.mem_append, List.mem_map, List.mem_flatMap, List.mem_range, Prod.exists]
  constructor
  · rintro (⟨a, b, _, he⟩ | ⟨a, b, hab, t', ht', he⟩)
    · cases he
    · cases he; obtain ⟨h1, h2⟩ := mem_itemUniverse.mp hab; exact ⟨h1, h2, ht'⟩
  · rintro ⟨h1, h2, h3⟩; exact Or.inr ⟨p, d, mem_itemUniverse.mpr ⟨h1, h2⟩, t, h3, rfl⟩

/-- kernel well-formedness: items in the universe, lookaheads are tokens -/
def CoreOk (G : Grammar) (core : List Item) : Prop :=
  ∀ i ∈ core, i.p < G.nprods ∧ i.dot ≤ (G.rhs i.p).length ∧ ∀ t ∈ i.la, t < G.ntoks

theorem firstP_tok_lt {G : Grammar} (hwf : G.wf = true) : ∀ r t, FirstP G r t → t < G.ntoks := by
  intro r t hft
  induction hft with
  | tok p α t β hp hrhs _ =>
    have := wf_sym hwf hp (s := .tok t) (by rw [hrhs]; simp)
    simpa [Grammar.symOk] using this
  | rule _ _ _ _ _ _ _ _ _ ih => exact ih

theorem firstSeqP_tok_lt {G : Grammar} (hwf : G.wf = true) {p : Nat} (hp : p < G.nprods) {n : Nat} {t : Nat}
    (h : FirstSeqP G ((G.rhs p).drop n) t) : t < G.ntoks := by
  obtain ⟨α, X, β, h1, _, h3⟩ := h
  rcases h3 with rfl | ⟨q, rfl, hq⟩
  · have hm : Sym.tok t ∈ G.rhs p := List.mem_of_mem_drop (by rw [h1]; simp)
    simpa [Grammar.symOk] using wf_sym hwf hp hm
  · exact firstP_tok_lt hwf q t hq

/-- **the reference closure is exact** -/
theorem close1_exact (G : Grammar) (hwf : G.wf = true) (N : Nat → Bool) (F : Nat × Nat → Bool)
    (hN : ∀ r, N r = true ↔ NullableR G r) (hF : ∀ r t, F (r, t) = true ↔ FirstP G r t)
    (core : List Item) (hcore : CoreOk G core) (S : List CFact) (h : close1 G N F core = some S) :
    ∀ x, x ∈ S ↔ ClosureP G core x := by
  intro x
  constructor
  · intro hx
    refine lfp_sound (factUniverse G) (closeDerive G N F core) (ClosureP G core) ?_ _ [] S (by simp) h x hx
    intro T hT y _ hd
    cases y with
    | item q d' =>
      simp only [closeDerive, Bool.or_eq_true, List.any_eq_true, Bool.and_eq_true, beq_iff_eq] at hd
      rcases hd with ⟨i, hi, h1, h2⟩ | ⟨hd0, x, hx, hS, hsym⟩
      · rw [← h1, ← h2]; exact .kitem i hi
      · subst hd0
        have hq : q < G.nprods := by
          have := hT _ (by simpa using hS)
          -- q need not be < nprods from the symbol alone; it is in the universe
          rename_i hyu
          exact (mem_universe_item.mp hyu).1
        exact .citem x.1 x.2 q (hT _ (by simpa using hS)) (by simpa using hsym) hq
    | la q d' t =>
      rename_i hyu
      have hq : q < G.nprods := (mem_universe_la.mp hyu).1
      simp only [closeDerive, Bool.or_eq_true, List.any_eq_true, Bool.and_eq_true, beq_iff_eq,
        List.contains_eq_mem, decide_eq_true_eq] at hd
      rcases hd with ⟨i, hi, ⟨h1, h2⟩, h3⟩ | ⟨hd0, x, hx, ⟨hS, hsym⟩, hla⟩
      · rw [← h1, ← h2]; exact .kla i t hi h3
      · subst hd0
        have hitem := hT _ (by simpa using hS)
        rcases hla with hf | ⟨hn, hl⟩
        · exact .cfirst x.1 x.2 q t hitem (by simpa using hsym) hq ((firstSeq_iff hN hF _ t).mp hf)
        · exact .cinherit x.1 x.2 q t hitem (by simpa using hsym) hq ((seqNullable_iff hN _).mp hn)
            (hT _ (by simpa using hl))
  · intro hx
    have hcl := lfp_closed (factUniverse G) (closeDerive G N F core) _ [] S h
    have hsub := lfp_subset (factUniverse G) (closeDerive G N F core) _ [] S (by simp) h
    induction hx with
    | kitem i hi =>
      obtain ⟨h1, h2, _⟩ := hcore i hi
      apply hcl _ (mem_universe_item.mpr ⟨h1, h2⟩)
      simp only [closeDerive, Bool.or_eq_true, List.any_eq_true, Bool.and_eq_true, beq_iff_eq]
      exact Or.inl ⟨i, hi, rfl, rfl⟩
    | kla i t hi ht =>
      obtain ⟨h1, h2, h3⟩ := hcore i hi
      apply hcl _ (mem_universe_la.mpr ⟨h1, h2, h3 t ht⟩)
      simp only [closeDerive, Bool.or_eq_true, List.any_eq_true, Bool.and_eq_true, beq_iff_eq,
        List.contains_eq_mem, decide_eq_true_eq]
      exact Or.inl ⟨i, hi, ⟨rfl, rfl⟩, ht⟩
    | citem p d q _ hsym hq ih =>
      apply hcl _ (mem_universe_item.mpr ⟨hq, Nat.zero_le _⟩)
      simp only [closeDerive, Bool.or_eq_true, List.any_eq_true, Bool.and_eq_true, beq_iff_eq]
      refine Or.inr ⟨trivial, (p, d), mem_itemUniverse.mpr (mem_universe_item.mp (hsub _ ih)), by simpa using ih, by simpa using hsym⟩
    | cfirst p d q t _ hsym hq hfs ih =>
      have hpu := mem_universe_item.mp (hsub _ ih)
      have ht : t < G.ntoks := firstSeqP_tok_lt hwf hpu.1 hfs
      apply hcl _ (mem_universe_la.mpr ⟨hq, Nat.zero_le _, ht⟩)
      simp only [closeDerive, Bool.or_eq_true, List.any_eq_true, Bool.and_eq_true, beq_iff_eq]
      refine Or.inr ⟨trivial, (p, d), mem_itemUniverse.mpr hpu, ⟨by simpa using ih, by simpa using hsym⟩, Or.inl ?_⟩
      exact (firstSeq_iff hN hF _ t).mpr hfs
    | cinherit p d q t _ hsym hq hnull _ ih1 ih2 =>
      have hpu := mem_universe_item.mp (hsub _ ih1)
      have ht : t < G.ntoks := (mem_universe_la.mp (hsub _ ih2)).2.2
      apply hcl _ (mem_universe_la.mpr ⟨hq, Nat.zero_le _, ht⟩)
      simp only [closeDerive, Bool.or_eq_true, List.any_eq_true, Bool.and_eq_true, beq_iff_eq]
      refine Or.inr ⟨trivial, (p, d), mem_itemUniverse.mpr hpu, ⟨by simpa using ih1, by simpa using hsym⟩, Or.inr ⟨?_, by simpa using ih2⟩⟩
      exact (seqNullable_iff hN _).mpr hnull

/-! ### reachability of states -/

inductive ReachSt (A : Automaton) : Nat → Prop
  | start : ReachSt A A.start
  | step (s t : Nat) (X : Sym) : ReachSt A s → s < A.nstates → (X, t) ∈ A.edges s → ReachSt A t

theorem reachableStates_exact (A : Automaton) (hstart : A.start < A.nstates)
    (hedges : ∀ s, s < A.nstates → ∀ e ∈ A.edges s, e.2 < A.nstates)
    (R : List Nat) (h : reachableStates A = some R) : ∀ s, s ∈ R ↔ ReachSt A s := by
  intro s
  constructor
  · intro hs
    refine lfp_sound (List.range A.nstates) (reachDeriveSt A) (ReachSt A) ?_ _ [] R (by simp) h s hs
    intro T hT x _ hd
    simp only [reachDeriveSt, Bool.or_eq_true, beq_iff_eq, List.any_eq_true, List.mem_range,
      Bool.and_eq_true] at hd
    rcases hd with rfl | ⟨y, hy, hTy, e, he, hex⟩
    · exact .start
    · subst hex
      exact .step y e.2 e.1 (hT y (by simpa using hTy)) hy he
  · intro hs
    have hcl := lfp_closed (List.range A.nstates) (reachDeriveSt A) _ [] R h
    have hsub := lfp_subset (List.range A.nstates) (reachDeriveSt A) _ [] R (by simp) h
    induction hs with
    | start =>
      apply hcl _ (by simpa using hstart)
      simp [reachDeriveSt]
    | step s t X _ hslt he ih =>
      apply hcl _ (by simpa using hedges s hslt _ he)
      simp only [reachDeriveSt, Bool.or_eq_true, beq_iff_eq, List.any_eq_true, List.mem_range,
        Bool.and_eq_true]
      exact Or.inr ⟨s, hslt, by simpa using ih, (X, t), he, rfl⟩

end GrmVerif.Closure
