import GrmVerif.Lemmas.RecFirst
import GrmVerif.Lemmas.LRComplete
import GrmVerif.Lemmas.RankImpl2
/-!
The edited input of a whole recovering run (C05): definitions and helper lemmas.

`editedItems`/`editedToks` is the input with the FIRST repair sequence of every reported error
applied. `editedSteps` is the same list with, at every error, the refused lexeme offered to the
table first (`EStep.offer`): the reductions the table makes under a lexeme before refusing it are
kept by the recovering driver, and `recRun_own` says that `Rec.recRun` is exactly that run.
`Kept`/`KeptInvisible` name the condition under which the offers cannot be observed, and
`runSteps_erase` removes them. Core Lean only (the driver evaluates `editedItems`).
-/
namespace GrmVerif.C05
open GrmVerif Rec LR RankImpl Cert

/-- feed a list of tokens, each of which must be shifted -/
def feedToks (G : Grammar) (A : Automaton) : List Nat → List Nat → Option (List Nat)
  | stack, [] => some stack
  | stack, t :: ts =>
    match feed G A t FUEL stack with
    | .shifted s => feedToks G A s ts
    | _ => none

def itemTok (w : List Nat) : EItem → Nat
  | .real i => w.getD i 0
  | .ins t _ => t

/-! ### one sequence -/

theorem applySeq_feedToks (G : Grammar) (A : Automaton) (w : List Nat) :
    ∀ (rs : List Repair) (c c' : Pos), applySeq G A w c rs = some c' →
      feedToks G A c.stack ((editSeq c.pos rs).1.map (itemTok w)) = some c'.stack ∧
      c'.pos = (editSeq c.pos rs).2 := by
  intro rs
  induction rs with
  | nil => intro c c' h; simp [applySeq] at h; subst h; simp [editSeq, feedToks]
  | cons r rs ih =>
    intro c c' h
    simp only [applySeq] at h
    cases hr : applyRepair G A w c r with
    | none => rw [hr] at h; cases h
    | some c1 =>
      rw [hr] at h
      simp only at h
      obtain ⟨i1, i2⟩ := ih c1 c' h
      cases r with
      | insert t =>
        simp only [applyRepair] at hr
        cases hf : feed G A t FUEL c.stack with
        | shifted s =>
          rw [hf] at hr; injection hr with hr; subst hr
          simp only at i1 i2
          simp [editSeq, feedToks, itemTok, hf, i1, i2]
        | accept s => rw [hf] at hr; cases hr
        | error s => rw [hf] at hr; cases hr
        | crash => rw [hf] at hr; cases hr
        | fuelOut => rw [hf] at hr; cases hr
      | delete =>
        simp only [applyRepair] at hr
        split at hr
        · injection hr with hr; subst hr
          simp only at i1 i2
          simp [editSeq, i1, i2]
        · cases hr
      | shift =>
        simp only [applyRepair] at hr
        cases hw : w[c.pos]? with
        | none => rw [hw] at hr; cases hr
        | some t =>
          rw [hw] at hr
          simp only at hr
          cases hf : feed G A t FUEL c.stack with
          | shifted s =>
            rw [hf] at hr; injection hr with hr; subst hr
            simp only at i1 i2
            simp [editSeq, feedToks, itemTok, hw, hf, i1, i2]
          | accept s => rw [hf] at hr; cases hr
          | error s => rw [hf] at hr; cases hr
          | crash => rw [hf] at hr; cases hr
          | fuelOut => rw [hf] at hr; cases hr

/-- a sequence that applies never moves backwards and stays within the input -/
theorem applySeq_pos (G : Grammar) (A : Automaton) (w : List Nat) :
    ∀ (rs : List Repair) (c c' : Pos), applySeq G A w c rs = some c' →
      c.pos ≤ c'.pos ∧ (c.pos ≤ w.length → c'.pos ≤ w.length) := by
  intro rs
  induction rs with
  | nil => intro c c' h; simp [applySeq] at h; subst h; exact ⟨Nat.le_refl _, id⟩
  | cons r rs ih =>
    intro c c' h
    simp only [applySeq] at h
    cases hr : applyRepair G A w c r with
    | none => rw [hr] at h; cases h
    | some c1 =>
      rw [hr] at h
      obtain ⟨h1, h2⟩ := ih c1 c' h
      have h0 : c.pos ≤ c1.pos ∧ (c.pos ≤ w.length → c1.pos ≤ w.length) := by
        cases r with
        | insert t =>
          simp only [applyRepair] at hr
          cases hf : feed G A t FUEL c.stack <;> rw [hf] at hr <;>
            first | (injection hr with hr; subst hr; exact ⟨Nat.le_refl _, id⟩) | cases hr
        | delete =>
          simp only [applyRepair] at hr
          split at hr
          · injection hr with hr; subst hr; exact ⟨Nat.le_succ _, fun _ => by simp only; omega⟩
          · cases hr
        | shift =>
          simp only [applyRepair] at hr
          cases hw : w[c.pos]? with
          | none => rw [hw] at hr; cases hr
          | some t =>
            have hlt : c.pos < w.length := by
              have := List.getElem?_eq_some_iff.mp hw
              exact this.1
            rw [hw] at hr
            simp only at hr
            cases hf : feed G A t FUEL c.stack <;> rw [hf] at hr <;>
              first | (injection hr with hr; subst hr; exact ⟨Nat.le_succ _, fun _ => by simp only; omega⟩) | cases hr
      exact ⟨by omega, fun h => h2 (h0.2 h)⟩

theorem feedToks_append (G : Grammar) (A : Automaton) :
    ∀ (a b : List Nat) (st : List Nat),
      feedToks G A st (a ++ b) = (feedToks G A st a).bind (fun s => feedToks G A s b) := by
  intro a
  induction a with
  | nil => intro b st; simp [feedToks]
  | cons t ts ih =>
    intro b st
    simp only [List.cons_append, feedToks]
    cases feed G A t FUEL st <;> simp [ih]

/-! ### the edited input of a whole run -/

/-- the real lexemes `a, a+1, …, b-1` -/
def reals (a b : Nat) : List EItem := (List.range' a (b - a)).map EItem.real

/-- the first repair sequence of an error (no sequence = nothing is edited) -/
def firstSeq (e : Err) : List Repair := e.repairs.headD []

/-- **The edited input of a run**, as items: from real lexeme `pos` up to (not including) real
lexeme `stop`, the real lexemes between the errors are kept and, at each error, what its FIRST repair
sequence says replaces the lexemes it consumes (`editSeq`: deleted lexemes dropped, inserted tokens
added as `EItem.ins t before` — before the next real lexeme —, shifted lexemes kept). -/
def editedItems (stop : Nat) : Nat → List Err → List EItem
  | pos, [] => reals pos stop
  | pos, e :: es =>
    reals pos e.pos ++ ((editSeq e.pos (firstSeq e)).1 ++ editedItems stop (editSeq e.pos (firstSeq e)).2 es)

/-- the edited input as tokens -/
def editedToks (w : List Nat) (stop pos : Nat) (errs : List Err) : List Nat :=
  (editedItems stop pos errs).map (itemTok w)

/-- the errors lie at increasing positions within `[pos, n]`, each at or after the place where the
previous error's first sequence stopped -/
def Ordered (n : Nat) : Nat → List Err → Prop
  | pos, [] => pos ≤ n
  | pos, e :: es => pos ≤ e.pos ∧ Ordered n (editSeq e.pos (firstSeq e)).2 es

theorem editSeq_le : ∀ (rs : List Repair) (pos : Nat), pos ≤ (editSeq pos rs).2
  | [], pos => by simp [editSeq]
  | .insert _ :: rs, pos => by simpa [editSeq] using editSeq_le rs pos
  | .delete :: rs, pos => by have := editSeq_le rs (pos + 1); simp only [editSeq]; omega
  | .shift :: rs, pos => by have := editSeq_le rs (pos + 1); simp only [editSeq]; omega

theorem ordered_le {n : Nat} : ∀ {errs : List Err} {pos : Nat}, Ordered n pos errs → pos ≤ n
  | [], _, h => h
  | e :: es, pos, h => by
    have := ordered_le h.2
    have := editSeq_le (firstSeq e) e.pos
    have := h.1
    omega

theorem ordered_mono {n m : Nat} (hnm : n ≤ m) : ∀ {errs : List Err} {pos : Nat}, Ordered n pos errs → Ordered m pos errs
  | [], _, h => Nat.le_trans h hnm
  | _ :: _, _, h => ⟨h.1, ordered_mono hnm h.2⟩

/-- the errors before `e` end at or before `e`, and `e` lies within the input -/
theorem ordered_split {n : Nat} : ∀ {pre : List Err} {e : Err} {post : List Err} {pos : Nat},
    Ordered n pos (pre ++ e :: post) → Ordered e.pos pos pre ∧ e.pos ≤ n
  | [], e, post, pos, h => by
    have := ordered_le h.2
    have := editSeq_le (firstSeq e) e.pos
    exact ⟨h.1, by omega⟩
  | p :: pre, e, post, pos, h => by
    obtain ⟨h1, h2⟩ := ordered_split (pre := pre) h.2
    exact ⟨⟨h.1, h1⟩, h2⟩

theorem reals_self (a : Nat) : reals a a = [] := by simp [reals]

theorem reals_cons {a b : Nat} (h : a < b) : reals a b = .real a :: reals (a + 1) b := by
  unfold reals
  have : b - a = (b - (a + 1)) + 1 := by omega
  rw [this, List.range'_succ]
  simp

theorem reals_append {a m b : Nat} (h1 : a ≤ m) (h2 : m ≤ b) : reals a m ++ reals m b = reals a b := by
  unfold reals
  rw [← List.map_append]
  congr 1
  have e : m = a + 1 * (m - a) := by omega
  have : List.range' m (b - m) = List.range' (a + 1 * (m - a)) (b - m) := by rw [← e]
  rw [this, List.range'_append]
  congr 1
  omega

/-- the edited input up to a later stop is the edited input up to an earlier one followed by the
untouched real lexemes in between -/
theorem editedItems_split {q n : Nat} (hqn : q ≤ n) : ∀ {pre : List Err} {pos : Nat}, Ordered q pos pre →
    editedItems n pos pre = editedItems q pos pre ++ reals q n
  | [], pos, h => by simp only [editedItems]; exact (reals_append h hqn).symm
  | e :: es, pos, h => by
    simp only [editedItems, List.append_assoc]
    rw [editedItems_split hqn h.2]

/-- an error without repair sequences edits nothing -/
theorem editedItems_unrepaired {n : Nat} {e : Err} (he : e.repairs = []) : ∀ {pre : List Err} {pos : Nat},
    Ordered n pos (pre ++ [e]) → editedItems n pos (pre ++ [e]) = editedItems n pos pre
  | [], pos, h => by
    have hf : firstSeq e = [] := by simp [firstSeq, he]
    simp only [List.nil_append, editedItems, hf, editSeq]
    simp only [List.nil_append, Ordered, hf, editSeq] at h
    simpa using reals_append h.1 h.2
  | p :: pre, pos, h => by
    simp only [List.cons_append, editedItems]
    rw [editedItems_unrepaired he h.2]

/-- the tokens of the untouched rest of the input start with the lookahead at that position -/
theorem reals_toks_head (G : Grammar) (w : List Nat) (q : Nat) :
    (q < w.length ∧ ∃ tl, (reals q w.length).map (itemTok w) = nextTok G w q :: tl) ∨
    (w.length ≤ q ∧ (reals q w.length).map (itemTok w) = [] ∧ nextTok G w q = G.eof) := by
  by_cases h : q < w.length
  · refine Or.inl ⟨h, ((reals (q + 1) w.length).map (itemTok w)), ?_⟩
    rw [reals_cons h]
    simp [itemTok, nextTok, List.getD, List.getElem?_eq_getElem h]
  · refine Or.inr ⟨by omega, ?_, ?_⟩
    · have : w.length - q = 0 := by omega
      simp [reals, this]
    · have : w[q]? = none := List.getElem?_eq_none_iff.mpr (by omega)
      simp [nextTok, this]

/-! ### the run the recovering driver really makes: refused lexemes are offered first -/

/-- one step of the edited run: a token that is shifted, or a lexeme that is offered to the table and
refused after the reductions the table prescribes under it (those reductions are kept) -/
inductive EStep where
  | tok (t : Nat)
  | offer (la : Nat)
deriving Repr, DecidableEq

def runSteps (G : Grammar) (A : Automaton) : List Nat → List EStep → Option (List Nat)
  | stack, [] => some stack
  | stack, .tok t :: r =>
    match feed G A t FUEL stack with
    | .shifted s => runSteps G A s r
    | _ => none
  | stack, .offer la :: r =>
    match feed G A la FUEL stack with
    | .error s => runSteps G A s r
    | _ => none

/-- the tokens of a step list (offers dropped) -/
def stepToks : List EStep → List Nat
  | [] => []
  | .tok t :: r => t :: stepToks r
  | .offer _ :: r => stepToks r

def tokSteps (l : List Nat) : List EStep := l.map EStep.tok

theorem stepToks_append : ∀ (a b : List EStep), stepToks (a ++ b) = stepToks a ++ stepToks b
  | [], b => rfl
  | .tok t :: a, b => by simp [stepToks, stepToks_append a b]
  | .offer _ :: a, b => by simp [stepToks, stepToks_append a b]

theorem stepToks_tokSteps : ∀ (l : List Nat), stepToks (tokSteps l) = l
  | [] => rfl
  | t :: l => by simp only [tokSteps, List.map_cons, stepToks]; rw [← tokSteps, stepToks_tokSteps l]

theorem runSteps_append (G : Grammar) (A : Automaton) :
    ∀ (a b : List EStep) (st : List Nat),
      runSteps G A st (a ++ b) = (runSteps G A st a).bind (fun s => runSteps G A s b) := by
  intro a
  induction a with
  | nil => intro b st; simp [runSteps]
  | cons x xs ih =>
    intro b st
    cases x with
    | tok t =>
      simp only [List.cons_append, runSteps]
      cases feed G A t FUEL st <;> simp [ih]
    | offer la =>
      simp only [List.cons_append, runSteps]
      cases feed G A la FUEL st <;> simp [ih]

theorem runSteps_tokSteps (G : Grammar) (A : Automaton) :
    ∀ (l : List Nat) (st : List Nat), runSteps G A st (tokSteps l) = feedToks G A st l := by
  intro l
  induction l with
  | nil => intro st; rfl
  | cons t ts ih =>
    intro st
    simp only [tokSteps, List.map_cons, runSteps, feedToks]
    cases feed G A t FUEL st <;> simp
    exact ih _

/-- the edited run with the offers: as `editedItems`, and at each error the refused lexeme is
offered before the first sequence's tokens -/
def editedSteps (G : Grammar) (w : List Nat) (stop : Nat) : Nat → List Err → List EStep
  | pos, [] => tokSteps ((reals pos stop).map (itemTok w))
  | pos, e :: es =>
    tokSteps ((reals pos e.pos).map (itemTok w)) ++
      (.offer (nextTok G w e.pos) ::
        (tokSteps ((editSeq e.pos (firstSeq e)).1.map (itemTok w)) ++
          editedSteps G w stop (editSeq e.pos (firstSeq e)).2 es))

/-- dropping the offers gives the edited input -/
theorem stepToks_editedSteps (G : Grammar) (w : List Nat) (stop : Nat) :
    ∀ (errs : List Err) (pos : Nat), stepToks (editedSteps G w stop pos errs) = editedToks w stop pos errs
  | [], pos => by simp [editedSteps, editedToks, editedItems, stepToks_tokSteps]
  | e :: es, pos => by
    simp only [editedSteps, editedToks, editedItems, stepToks_append, stepToks, stepToks_tokSteps,
      List.map_append]
    rw [stepToks_editedSteps G w stop es]
    rfl

/-- a real lexeme before the first error (or the stop) is the first step -/
theorem editedSteps_shift (G : Grammar) (w : List Nat) (stop : Nat) :
    ∀ (errs : List Err) (pos : Nat), (match errs with | [] => pos < stop | e :: _ => pos < e.pos) →
      editedSteps G w stop pos errs = .tok (w.getD pos 0) :: editedSteps G w stop (pos + 1) errs
  | [], pos, h => by
    simp only [editedSteps]
    rw [reals_cons h]
    simp [tokSteps, itemTok]
  | e :: es, pos, h => by
    simp only [editedSteps]
    rw [reals_cons h]
    simp [tokSteps, itemTok]

/-! ### the recovering run is the edited run with offers -/

/-- the recoverer continues as if the first sequence it reports had been applied -/
def FirstApplies (G : Grammar) (A : Automaton) (w : List Nat)
    (recover : Pos → Option (Pos × List (List Repair))) : Prop :=
  ∀ c c' s0 rest, recover c = some (c', s0 :: rest) → applySeq G A w c s0 = some c'

/-- the table accepts only under the end-of-input token (true of every table `StateTable::new`
builds: Accept is entered in the end-of-input column only) -/
def AcceptOnlyAtEof (G : Grammar) (A : Automaton) : Prop :=
  ∀ st t, A.action st t = .accept → t = G.eof

theorem feed_accept_action {G : Grammar} {A : Automaton} {la : Nat} :
    ∀ {fuel : Nat} {stack s : List Nat}, feed G A la fuel stack = .accept s →
      ∃ st, A.action st la = .accept := by
  intro fuel
  induction fuel with
  | zero => intro stack s h; simp [feed] at h
  | succ f ih =>
    intro stack s h
    cases stack with
    | nil => simp [feed] at h
    | cons st rest =>
      simp only [feed] at h
      cases ha : A.action st la with
      | accept => exact ⟨st, ha⟩
      | shift s' => rw [ha] at h; cases h
      | error => rw [ha] at h; cases h
      | reduce p =>
        rw [ha] at h
        simp only at h
        by_cases hle : (st :: rest).length ≤ (G.rhs p).length
        · rw [if_pos hle] at h; cases h
        · rw [if_neg hle] at h
          cases hd : List.drop (G.rhs p).length (st :: rest) with
          | nil => rw [hd] at h; cases h
          | cons prior tl =>
            rw [hd] at h
            simp only at h
            cases hg : A.goto prior (G.lhs p) with
            | none => rw [hg] at h; cases h
            | some s1 => rw [hg] at h; exact ih h

/-- a shifted lookahead is a real lexeme when the end-of-input token is never shifted -/
theorem shifted_in_range {G : Grammar} {A : Automaton} {w : List Nat} (hsh : EofNeverShifted G A)
    {pos : Nat} {stack s : List Nat} (h : feed G A (nextTok G w pos) FUEL stack = .shifted s) :
    pos < w.length ∧ nextTok G w pos = w.getD pos 0 := by
  by_cases hp : pos < w.length
  · exact ⟨hp, by simp [nextTok, List.getD, List.getElem?_eq_getElem hp]⟩
  · exfalso
    have hn : w[pos]? = none := List.getElem?_eq_none_iff.mpr (by omega)
    have : nextTok G w pos = G.eof := by simp [nextTok, hn]
    rw [this] at h
    obtain ⟨st, s', ha⟩ := feed_shifted_action h
    exact hsh st s' ha

/-- an accepting lookahead is the end of the input when the table accepts only there and the
input does not contain the end-of-input token -/
theorem accept_at_end {G : Grammar} {A : Automaton} {w : List Nat} (hacc : AcceptOnlyAtEof G A)
    (hw : G.eof ∉ w) {pos : Nat} {stack s : List Nat}
    (h : feed G A (nextTok G w pos) FUEL stack = .accept s) :
    w.length ≤ pos ∧ nextTok G w pos = G.eof := by
  obtain ⟨st, ha⟩ := feed_accept_action h
  have he := hacc st _ ha
  refine ⟨?_, he⟩
  by_cases hp : pos < w.length
  · exfalso
    have : nextTok G w pos = w[pos] := by simp [nextTok, List.getElem?_eq_getElem hp]
    rw [this] at he
    exact hw (he ▸ List.getElem_mem hp)
  · omega

/-- **The recovering driver runs the edited input, offering each refused lexeme first.** -/
theorem recRun_own (G : Grammar) (A : Automaton) (w : List Nat)
    (recover : Pos → Option (Pos × List (List Repair)))
    (hfirst : FirstApplies G A w recover) (hsh : EofNeverShifted G A) (hacc : AcceptOnlyAtEof G A)
    (hw : G.eof ∉ w) :
    ∀ (fuel : Nat) (c : Pos) (errs : List Err) (v : Bool) (errs' : List Err), c.pos ≤ w.length →
      recRun G A w recover fuel c errs = (v, errs') →
      ∃ new, errs' = errs ++ new ∧ Ordered w.length c.pos new ∧
        (v = true → ∃ st x, runSteps G A c.stack (editedSteps G w w.length c.pos new) = some st ∧
          feed G A G.eof FUEL st = .accept x) ∧
        (∀ pre e post, new = pre ++ e :: post →
          ∃ s, runSteps G A c.stack (editedSteps G w e.pos c.pos pre ++ [.offer (nextTok G w e.pos)]) = some s) := by
  intro fuel
  induction fuel with
  | zero =>
    intro c errs v errs' hc h
    simp only [recRun, Prod.mk.injEq] at h
    refine ⟨[], by simp [h.2], hc, ?_, ?_⟩
    · intro hv; rw [← h.1] at hv; cases hv
    · intro pre e post hs; simp at hs
  | succ f ih =>
    intro c errs v errs' hc h
    simp only [recRun] at h
    cases hf : feed G A (nextTok G w c.pos) FUEL c.stack with
    | shifted s =>
      rw [hf] at h
      simp only at h
      obtain ⟨hlt, htok⟩ := shifted_in_range hsh hf
      obtain ⟨new, h1, h2, h3, h4⟩ := ih ⟨s, c.pos + 1⟩ errs v errs' hlt h
      simp only at h2 h3 h4
      rw [htok] at hf
      have hord : Ordered w.length c.pos new := by
        cases new with
        | nil => exact hc
        | cons e es => exact ⟨by have := h2.1; omega, h2.2⟩
      refine ⟨new, h1, hord, ?_, ?_⟩
      · intro hv
        obtain ⟨st, x, hr, hx⟩ := h3 hv
        refine ⟨st, x, ?_, hx⟩
        rw [editedSteps_shift G w w.length new c.pos (by
          cases new with
          | nil => exact hlt
          | cons e es => have := h2.1; simp only; omega)]
        simp only [runSteps, hf]
        exact hr
      · intro pre e post hs
        obtain ⟨s1, hr⟩ := h4 pre e post hs
        refine ⟨s1, ?_⟩
        rw [editedSteps_shift G w e.pos pre c.pos (by
          subst hs
          cases pre with
          | nil => have := h2.1; simp only; omega
          | cons p ps => have := h2.1; simp only; omega)]
        simp only [List.cons_append, runSteps, hf]
        exact hr
    | accept s =>
      rw [hf] at h
      simp only [Prod.mk.injEq] at h
      obtain ⟨hge, heof⟩ := accept_at_end hacc hw hf
      refine ⟨[], by simp [h.2], hc, ?_, ?_⟩
      · intro _
        refine ⟨c.stack, s, ?_, by rw [← heof]; exact hf⟩
        have : w.length - c.pos = 0 := by omega
        simp [editedSteps, reals, this, tokSteps, runSteps]
      · intro pre e post hs; simp at hs
    | crash =>
      rw [hf] at h
      simp only [Prod.mk.injEq] at h
      refine ⟨[], by simp [h.2], hc, ?_, ?_⟩
      · intro hv; rw [← h.1] at hv; cases hv
      · intro pre e post hs; simp at hs
    | fuelOut =>
      rw [hf] at h
      simp only [Prod.mk.injEq] at h
      refine ⟨[], by simp [h.2], hc, ?_, ?_⟩
      · intro hv; rw [← h.1] at hv; cases hv
      · intro pre e post hs; simp at hs
    | error s =>
      rw [hf] at h
      simp only at h
      -- the error itself: nothing before it, the lookahead is offered and refused
      have hself : ∀ (rs : List (List Repair)),
          ∃ s1, runSteps G A c.stack (editedSteps G w (Err.mk c.pos rs).pos c.pos [] ++ [.offer (nextTok G w (Err.mk c.pos rs).pos)]) = some s1 := by
        intro rs
        refine ⟨s, ?_⟩
        simp [editedSteps, reals_self, tokSteps, runSteps, hf]
      have giveUp : (v, errs') = (false, errs ++ [⟨c.pos, []⟩]) →
          ∃ new, errs' = errs ++ new ∧ Ordered w.length c.pos new ∧
            (v = true → ∃ st x, runSteps G A c.stack (editedSteps G w w.length c.pos new) = some st ∧
              feed G A G.eof FUEL st = .accept x) ∧
            (∀ pre e post, new = pre ++ e :: post →
              ∃ s, runSteps G A c.stack (editedSteps G w e.pos c.pos pre ++ [.offer (nextTok G w e.pos)]) = some s) := by
        intro h
        simp only [Prod.mk.injEq] at h
        refine ⟨[⟨c.pos, []⟩], h.2, ⟨Nat.le_refl _, by simpa [firstSeq, editSeq, Ordered] using hc⟩, ?_, ?_⟩
        · intro hv; rw [h.1] at hv; cases hv
        · intro pre e post hs
          cases pre with
          | nil =>
            simp only [List.nil_append, List.cons.injEq] at hs
            rw [← hs.1]; exact hself []
          | cons p ps =>
            have := congrArg List.length hs
            simp at this
      cases hrec : recover ⟨s, c.pos⟩ with
      | none => rw [hrec] at h; exact giveUp h.symm
      | some r =>
        obtain ⟨c', rs⟩ := r
        rw [hrec] at h
        simp only at h
        cases rs with
        | nil => simp only [List.isEmpty_nil, if_true] at h; exact giveUp h.symm
        | cons s0 rest =>
          simp only [List.isEmpty_cons, Bool.false_eq_true, if_false] at h
          have happ := hfirst _ _ _ _ hrec
          obtain ⟨hft, hpos⟩ := applySeq_feedToks G A w s0 _ _ happ
          obtain ⟨hle, hin⟩ := applySeq_pos G A w s0 _ _ happ
          simp only at hft hpos hle hin
          obtain ⟨new, h1, h2, h3, h4⟩ := ih c' (errs ++ [⟨c.pos, s0 :: rest⟩]) v errs' (hin hc) h
          have hfs : firstSeq ⟨c.pos, s0 :: rest⟩ = s0 := rfl
          -- the steps of this error: offer, then the first sequence's tokens
          have hhead : ∀ (stop : Nat) (es : List Err) (tail : List EStep),
              runSteps G A c.stack (editedSteps G w stop c.pos (⟨c.pos, s0 :: rest⟩ :: es) ++ tail) =
              runSteps G A c'.stack (editedSteps G w stop c'.pos es ++ tail) := by
            intro stop es tail
            simp only [editedSteps, hfs, reals_self, List.map_nil, tokSteps, List.nil_append,
              List.cons_append, runSteps, hf]
            rw [← tokSteps, List.append_assoc, runSteps_append, runSteps_tokSteps, hft, ← hpos]
            rfl
          refine ⟨⟨c.pos, s0 :: rest⟩ :: new, by rw [h1]; simp, ⟨Nat.le_refl _, by rw [hfs, ← hpos]; exact h2⟩, ?_, ?_⟩
          · intro hv
            obtain ⟨st, x, hr, hx⟩ := h3 hv
            refine ⟨st, x, ?_, hx⟩
            have := hhead w.length new []
            simp only [List.append_nil] at this
            rw [this]; exact hr
          · intro pre e post hs
            cases pre with
            | nil =>
              simp only [List.nil_append, List.cons.injEq] at hs
              rw [← hs.1]; exact hself _
            | cons p ps =>
              simp only [List.cons_append, List.cons.injEq] at hs
              obtain ⟨s1, hr⟩ := h4 ps e post hs.2
              refine ⟨s1, ?_⟩
              rw [← hs.1, hhead]; exact hr

/-! ### when the kept reductions cannot be observed -/

/-- `a` is what is left of `b` after some lexemes were offered and refused (the reductions made under
them kept) -/
inductive Kept (G : Grammar) (A : Automaton) : List Nat → List Nat → Prop
  | refl (s : List Nat) : Kept G A s s
  | offer (a b : List Nat) (la : Nat) (s : List Nat) : Kept G A a b → feed G A la FUEL a = .error s → Kept G A s b

/-- **The reductions made under a refused lexeme cannot be observed**: whatever token is fed next,
the stack with those reductions (`a`) and the stack without them (`b`) shift it to the same stack,
or both accept, or both refuse it. -/
def KeptInvisible (G : Grammar) (A : Automaton) : Prop :=
  ∀ a b, Kept G A a b → ∀ t,
    (∀ x, feed G A t FUEL a = .shifted x → feed G A t FUEL b = .shifted x) ∧
    (∀ x, feed G A t FUEL a = .accept x → ∃ y, feed G A t FUEL b = .accept y) ∧
    (∀ x, feed G A t FUEL a = .error x → ∃ y, feed G A t FUEL b = .error y)

/-- under `KeptInvisible` the offers can be erased from a run -/
theorem runSteps_erase {G : Grammar} {A : Automaton} (hk : KeptInvisible G A) :
    ∀ (steps : List EStep) (a b a' : List Nat), Kept G A a b → runSteps G A a steps = some a' →
      ∃ b', feedToks G A b (stepToks steps) = some b' ∧ Kept G A a' b' := by
  intro steps
  induction steps with
  | nil =>
    intro a b a' hab h
    simp only [runSteps, Option.some.injEq] at h
    subst h
    exact ⟨b, rfl, hab⟩
  | cons x xs ih =>
    intro a b a' hab h
    cases x with
    | tok t =>
      simp only [runSteps] at h
      cases hf : feed G A t FUEL a with
      | shifted s =>
        rw [hf] at h
        simp only at h
        have := (hk a b hab t).1 s hf
        obtain ⟨b', hb, hkb⟩ := ih s s a' (.refl s) h
        exact ⟨b', by simp only [stepToks, feedToks, this]; exact hb, hkb⟩
      | accept s => rw [hf] at h; cases h
      | error s => rw [hf] at h; cases h
      | crash => rw [hf] at h; cases h
      | fuelOut => rw [hf] at h; cases h
    | offer la =>
      simp only [runSteps] at h
      cases hf : feed G A la FUEL a with
      | error s =>
        rw [hf] at h
        simp only at h
        exact ih s b a' (.offer a b la s hab hf) h
      | accept s => rw [hf] at h; cases h
      | shifted s => rw [hf] at h; cases h
      | crash => rw [hf] at h; cases h
      | fuelOut => rw [hf] at h; cases h

/-! ### the plain parse on state stacks -/

inductive PlainOut where
  | accepted
  /-- the token with this index (the end of input if it is the length of the list) is refused -/
  | refusedAt (k : Nat)
  | other
deriving Repr, DecidableEq

/-- the plain LR parse of a token list (then end of input) on state stacks, counting tokens from `k` -/
def plainFrom (G : Grammar) (A : Automaton) : List Nat → List Nat → Nat → PlainOut
  | st, [], k =>
    match feed G A G.eof FUEL st with
    | .accept _ => .accepted
    | .error _ => .refusedAt k
    | _ => .other
  | st, t :: ts, k =>
    match feed G A t FUEL st with
    | .shifted s => plainFrom G A s ts (k + 1)
    | .error _ => .refusedAt k
    | _ => .other

theorem plainFrom_append (G : Grammar) (A : Automaton) :
    ∀ (pre rest : List Nat) (st st' : List Nat) (k : Nat), feedToks G A st pre = some st' →
      plainFrom G A st (pre ++ rest) k = plainFrom G A st' rest (k + pre.length) := by
  intro pre
  induction pre with
  | nil => intro rest st st' k h; simp only [feedToks, Option.some.injEq] at h; subst h; simp
  | cons t ts ih =>
    intro rest st st' k h
    simp only [feedToks] at h
    cases hf : feed G A t FUEL st with
    | shifted s =>
      rw [hf] at h
      simp only at h
      simp only [List.cons_append, plainFrom, hf, List.length_cons]
      rw [ih rest s st' (k + 1) h]
      congr 1
      omega
    | accept s => rw [hf] at h; cases h
    | error s => rw [hf] at h; cases h
    | crash => rw [hf] at h; cases h
    | fuelOut => rw [hf] at h; cases h

/-! ### to the driver with trees -/

/-- if the stack automaton accepts under lookahead `la`, the full driver reaches, by reductions, a
configuration in which its next step ends the parse (with the tree, or the `crash 3` of a malformed
tree stack) -/
theorem feed_accept_steps (G : Grammar) (A : Automaton) (w : List Nat) :
    ∀ (fuel : Nat) (stack s' : List Nat) (astack : List Tree) (laidx : Nat),
      feed G A (nextTok G w laidx) fuel stack = .accept s' →
      ∃ astack', Steps G A w ⟨stack, astack, laidx⟩ ⟨s', astack', laidx⟩ ∧
        ∃ st tl, s' = st :: tl ∧ A.action st (nextTok G w laidx) = .accept := by
  intro fuel
  induction fuel with
  | zero => intro stack s' astack laidx h; simp [feed] at h
  | succ f ih =>
    intro stack s' astack laidx h
    cases stack with
    | nil => simp [feed] at h
    | cons st rest =>
      simp only [feed] at h
      cases hact : A.action st (nextTok G w laidx) with
      | error => rw [hact] at h; cases h
      | shift s1 => rw [hact] at h; cases h
      | accept =>
        rw [hact] at h
        injection h with h; subst h
        exact ⟨astack, .refl _, st, rest, rfl, hact⟩
      | reduce p =>
        rw [hact] at h
        simp only at h
        by_cases hle : (st :: rest).length ≤ (G.rhs p).length
        · rw [if_pos hle] at h; cases h
        · rw [if_neg hle] at h
          cases hd : List.drop (G.rhs p).length (st :: rest) with
          | nil => rw [hd] at h; cases h
          | cons prior tl =>
            rw [hd] at h
            simp only at h
            cases hg : A.goto prior (G.lhs p) with
            | none => rw [hg] at h; cases h
            | some s1 =>
              rw [hg] at h
              simp only at h
              obtain ⟨astack', hs, hacc⟩ := ih (s1 :: prior :: tl) s'
                (.node p (astack.take (G.rhs p).length).reverse :: astack.drop (G.rhs p).length) laidx h
              refine ⟨astack', .step _ _ _ ?_ hs, hacc⟩
              simp only [step, hact]
              rw [if_neg hle, hd]
              simp only [hg]

theorem feed_shifted_steps (G : Grammar) (A : Automaton) (w : List Nat) :
    ∀ (fuel : Nat) (stack s' : List Nat) (astack : List Tree) (laidx : Nat),
      feed G A (nextTok G w laidx) fuel stack = .shifted s' →
      ∃ astack', Steps G A w ⟨stack, astack, laidx⟩ ⟨s', .leaf (nextTok G w laidx) laidx :: astack', laidx + 1⟩ := by
  intro fuel
  induction fuel with
  | zero => intro stack s' astack laidx h; simp [feed] at h
  | succ f ih =>
    intro stack s' astack laidx h
    cases stack with
    | nil => simp [feed] at h
    | cons st rest =>
      simp only [feed] at h
      cases hact : A.action st (nextTok G w laidx) with
      | error => rw [hact] at h; cases h
      | accept => rw [hact] at h; cases h
      | shift s1 =>
        rw [hact] at h
        injection h with h; subst h
        exact ⟨astack, Steps.single (by simp [step, hact])⟩
      | reduce p =>
        rw [hact] at h
        simp only at h
        by_cases hle : (st :: rest).length ≤ (G.rhs p).length
        · rw [if_pos hle] at h; cases h
        · rw [if_neg hle] at h
          cases hd : List.drop (G.rhs p).length (st :: rest) with
          | nil => rw [hd] at h; cases h
          | cons prior tl =>
            rw [hd] at h
            simp only at h
            cases hg : A.goto prior (G.lhs p) with
            | none => rw [hg] at h; cases h
            | some s1 =>
              rw [hg] at h
              simp only at h
              obtain ⟨astack', hs⟩ := ih (s1 :: prior :: tl) s'
                (.node p (astack.take (G.rhs p).length).reverse :: astack.drop (G.rhs p).length) laidx h
              refine ⟨astack', .step _ _ _ ?_ hs⟩
              simp only [step, hact]
              rw [if_neg hle, hd]
              simp only [hg]

/-- feeding the tokens `toks[i..]` one by one is a run of the full driver over the input `toks` -/
theorem feedToks_steps (G : Grammar) (A : Automaton) (toks : List Nat) :
    ∀ (ts : List Nat) (i : Nat) (stack st : List Nat) (astack : List Tree), i ≤ toks.length →
      toks.drop i = ts → feedToks G A stack ts = some st →
      ∃ astack', Steps G A toks ⟨stack, astack, i⟩ ⟨st, astack', toks.length⟩ := by
  intro ts
  induction ts with
  | nil =>
    intro i stack st astack hle hd h
    simp only [feedToks, Option.some.injEq] at h
    subst h
    have hi : toks.length ≤ i := by simpa using hd
    have he : i = toks.length := by omega
    subst he; exact ⟨astack, .refl _⟩
  | cons t ts ih =>
    intro i stack st astack hle hd h
    simp only [feedToks] at h
    cases hf : feed G A t FUEL stack with
    | shifted s =>
      rw [hf] at h
      simp only at h
      have hi : i < toks.length := by
        by_cases hi : i < toks.length
        · exact hi
        · rw [List.drop_eq_nil_of_le (by omega)] at hd; cases hd
      have hti : nextTok G toks i = t := by
        have : toks[i]? = some t := by
          have := congrArg List.head? hd
          simpa [List.head?_drop] using this
        simp [nextTok, this]
      rw [← hti] at hf
      obtain ⟨a1, hs1⟩ := feed_shifted_steps G A toks FUEL stack s astack i hf
      have hd' : toks.drop (i + 1) = ts := by
        have := congrArg List.tail hd
        simpa [List.tail_drop] using this
      obtain ⟨a2, hs2⟩ := ih (i + 1) s st (.leaf (nextTok G toks i) i :: a1) hi hd' h
      exact ⟨a2, hs1.trans hs2⟩
    | accept s => rw [hf] at h; cases h
    | error s => rw [hf] at h; cases h
    | crash => rw [hf] at h; cases h
    | fuelOut => rw [hf] at h; cases h

/-! ### the end-of-input discipline of the table, as a checkable predicate -/

/-- the table shifts no end-of-input token and accepts only under it (decidable; true of every table
`StateTable::new` builds: end-of-input occurs in no production, and Accept is entered in the
end-of-input column only) -/
def eofOk (G : Grammar) (A : Automaton) : Bool :=
  A.states.all (fun sd => (List.range sd.actions.length).all (fun t =>
    match sd.actions[t]? with
    | some .accept => t == G.eof
    | some (.shift _) => t != G.eof
    | _ => true))

theorem eofOk_cell {G : Grammar} {A : Automaton} (h : eofOk G A = true) {st t : Nat} {a : Act}
    (ha : A.action st t = a) (hne : a ≠ .error) :
    ∃ sd, sd ∈ A.states ∧ sd.actions[t]? = some a ∧
      (match sd.actions[t]? with
       | some .accept => t == G.eof
       | some (.shift _) => t != G.eof
       | _ => true) = true := by
  unfold Automaton.action at ha
  cases hs : A.states[st]? with
  | none => rw [hs] at ha; simp at ha; exact absurd ha.symm hne
  | some sd =>
    rw [hs] at ha
    simp only [Option.bind_some] at ha
    cases hc : sd.actions[t]? with
    | none => rw [hc] at ha; simp at ha; exact absurd ha.symm hne
    | some a' =>
      rw [hc] at ha
      simp only [Option.getD_some] at ha
      subst ha
      have hmem : sd ∈ A.states := List.mem_of_getElem? hs
      have htl : t < sd.actions.length := (List.getElem?_eq_some_iff.mp hc).1
      simp only [eofOk, List.all_eq_true] at h
      have := h sd hmem t (List.mem_range.mpr htl)
      exact ⟨sd, hmem, hc, by rw [hc] at this ⊢; exact this⟩

theorem eofOk_spec {G : Grammar} {A : Automaton} (h : eofOk G A = true) :
    EofNeverShifted G A ∧ AcceptOnlyAtEof G A := by
  refine ⟨?_, ?_⟩
  · intro st s' ha
    obtain ⟨sd, _, hc, hv⟩ := eofOk_cell h ha (by simp)
    rw [hc] at hv
    simp at hv
  · intro st t ha
    obtain ⟨sd, _, hc, hv⟩ := eofOk_cell h ha (by simp)
    rw [hc] at hv
    simpa using hv

/-! ### the recovering run is the plain parse of the edited input -/

theorem recRun_plain (G : Grammar) (A : Automaton) (w : List Nat)
    (recover : Pos → Option (Pos × List (List Repair)))
    (hfirst : FirstApplies G A w recover) (heof : eofOk G A = true) (hw : G.eof ∉ w)
    (hk : KeptInvisible G A)
    (fuel : Nat) (c : Pos) (errs : List Err) (v : Bool) (errs' : List Err) (hc : c.pos ≤ w.length)
    (h : recRun G A w recover fuel c errs = (v, errs')) :
    ∃ new, errs' = errs ++ new ∧ Ordered w.length c.pos new ∧
      (v = true → ∃ st x, feedToks G A c.stack (editedToks w w.length c.pos new) = some st ∧
        feed G A G.eof FUEL st = .accept x) ∧
      (∀ pre e post, new = pre ++ e :: post →
        ∃ st y, feedToks G A c.stack (editedToks w e.pos c.pos pre) = some st ∧
          feed G A (nextTok G w e.pos) FUEL st = .error y) := by
  obtain ⟨hsh, hacc⟩ := eofOk_spec heof
  obtain ⟨new, h1, h2, h3, h4⟩ := recRun_own G A w recover hfirst hsh hacc hw fuel c errs v errs' hc h
  refine ⟨new, h1, h2, ?_, ?_⟩
  · intro hv
    obtain ⟨a', x, hr, hx⟩ := h3 hv
    obtain ⟨b', hb, hkb⟩ := runSteps_erase hk _ _ c.stack a' (.refl _) hr
    rw [stepToks_editedSteps] at hb
    obtain ⟨y, hy⟩ := (hk a' b' hkb G.eof).2.1 x hx
    exact ⟨b', y, hb, hy⟩
  · intro pre e post hs
    obtain ⟨s, hr⟩ := h4 pre e post hs
    rw [runSteps_append] at hr
    cases hr1 : runSteps G A c.stack (editedSteps G w e.pos c.pos pre) with
    | none => rw [hr1] at hr; cases hr
    | some a1 =>
      rw [hr1] at hr
      simp only [Option.bind_some, runSteps] at hr
      obtain ⟨b1, hb, hkb⟩ := runSteps_erase hk _ _ c.stack a1 (.refl _) hr1
      rw [stepToks_editedSteps] at hb
      cases hf : feed G A (nextTok G w e.pos) FUEL a1 with
      | error x =>
        obtain ⟨y, hy⟩ := (hk a1 b1 hkb _).2.2 x hf
        exact ⟨b1, y, hb, hy⟩
      | accept x => rw [hf] at hr; cases hr
      | shifted x => rw [hf] at hr; cases hr
      | crash => rw [hf] at hr; cases hr
      | fuelOut => rw [hf] at hr; cases hr

theorem plainFrom_accepted (G : Grammar) (A : Automaton) (toks st st' x : List Nat) (k : Nat)
    (h1 : feedToks G A st toks = some st') (h2 : feed G A G.eof FUEL st' = .accept x) :
    plainFrom G A st toks k = .accepted := by
  have := plainFrom_append G A toks [] st st' k h1
  rw [List.append_nil] at this
  rw [this]
  simp [plainFrom, h2]

/-- the plain parse of a prefix that is shifted followed by the untouched rest of the input, whose
first lexeme is refused, has its first error there -/
theorem plainFrom_refused (G : Grammar) (A : Automaton) (w pre st st' y : List Nat) (q k : Nat)
    (h1 : feedToks G A st pre = some st') (h2 : feed G A (nextTok G w q) FUEL st' = .error y) :
    plainFrom G A st (pre ++ (reals q w.length).map (itemTok w)) k = .refusedAt (k + pre.length) := by
  rw [plainFrom_append G A pre _ st st' k h1]
  rcases reals_toks_head G w q with ⟨_, tl, htl⟩ | ⟨_, hnil, he⟩
  · rw [htl]; simp [plainFrom, h2]
  · rw [hnil]; rw [he] at h2; simp [plainFrom, h2]

end GrmVerif.C05
