import GrmVerif.Lemmas.Table
/-! Lemmas about the derived views (`nt_depth`, `core_reduces`, `reduce_only`). -/
namespace GrmVerif.Table
open GrmVerif

/-- association list with distinct keys, each entry keyed by its production's (rule, length) -/
def DepthInv (G : Grammar) (acc : List ((Nat × Nat) × Nat)) : Prop :=
  (acc.map (·.1)).Nodup ∧ ∀ e ∈ acc, e.1 = rkey G e.2

theorem depthInv_step (G : Grammar) (acc : List ((Nat × Nat) × Nat)) (p : Nat) (h : DepthInv G acc) :
    DepthInv G ((acc.filter (fun e => e.1 != rkey G p)) ++ [(rkey G p, p)]) := by
  obtain ⟨h1, h2⟩ := h
  constructor
  · rw [List.map_append, List.nodup_append]
    refine ⟨?_, by simp, ?_⟩
    · exact (List.Nodup.sublist (List.Sublist.map _ (List.filter_sublist)) h1)
    · intro a ha b hb
      simp only [List.map_cons, List.map_nil, List.mem_singleton] at hb
      simp only [List.mem_map, List.mem_filter, bne_iff_ne, ne_eq] at ha
      obtain ⟨e, ⟨_, hne⟩, rfl⟩ := ha
      subst hb; exact hne
  · intro e he
    rcases List.mem_append.mp he with he | he
    · exact h2 e (List.mem_filter.mp he).1
    · simp at he; subst he; rfl

theorem ntDepth_spec (G : Grammar) :
    ∀ (row : List Act) (acc : List ((Nat × Nat) × Nat)), DepthInv G acc →
      DepthInv G (ntDepth G row acc) ∧
      (∀ e ∈ ntDepth G row acc, e ∈ acc ∨ Act.reduce e.2 ∈ row) ∧
      (∀ p, Act.reduce p ∈ row → ∃ q, (rkey G p, q) ∈ ntDepth G row acc) ∧
      (∀ e ∈ acc, ∃ q, (e.1, q) ∈ ntDepth G row acc) := by
  intro row
  induction row with
  | nil =>
    intro acc h
    refine ⟨h, fun e he => Or.inl he, ?_, fun e he => ⟨e.2, he⟩⟩
    intro p hp; cases hp
  | cons a rest ih =>
    intro acc h
    cases a with
    | reduce p =>
      simp only [ntDepth]
      obtain ⟨i1, i2, i3, i4⟩ := ih _ (depthInv_step G acc p h)
      refine ⟨i1, ?_, ?_, ?_⟩
      · intro e he
        rcases i2 e he with h' | h'
        · rcases List.mem_append.mp h' with h'' | h''
          · exact Or.inl (List.mem_filter.mp h'').1
          · simp at h''; subst h''; exact Or.inr (by simp)
        · exact Or.inr (List.mem_cons_of_mem _ h')
      · intro q hq
        rcases List.mem_cons.mp hq with hq | hq
        · cases hq
          exact i4 (rkey G p, p) (by simp)
        · exact i3 q hq
      · intro e he
        by_cases hk : e.1 = rkey G p
        · rw [hk]; exact i4 (rkey G p, p) (by simp)
        · exact i4 e (List.mem_append_left _ (List.mem_filter.mpr ⟨he, by simpa using hk⟩))
    | error =>
      simp only [ntDepth]
      obtain ⟨i1, i2, i3, i4⟩ := ih acc h
      refine ⟨i1, ?_, ?_, i4⟩
      · intro e he
        rcases i2 e he with h' | h'
        · exact Or.inl h'
        · exact Or.inr (List.mem_cons_of_mem _ h')
      · intro q hq
        rcases List.mem_cons.mp hq with hq | hq
        · cases hq
        · exact i3 q hq
    | shift s =>
      simp only [ntDepth]
      obtain ⟨i1, i2, i3, i4⟩ := ih acc h
      refine ⟨i1, ?_, ?_, i4⟩
      · intro e he
        rcases i2 e he with h' | h'
        · exact Or.inl h'
        · exact Or.inr (List.mem_cons_of_mem _ h')
      · intro q hq
        rcases List.mem_cons.mp hq with hq | hq
        · cases hq
        · exact i3 q hq
    | accept =>
      simp only [ntDepth]
      obtain ⟨i1, i2, i3, i4⟩ := ih acc h
      refine ⟨i1, ?_, ?_, i4⟩
      · intro e he
        rcases i2 e he with h' | h'
        · exact Or.inl h'
        · exact Or.inr (List.mem_cons_of_mem _ h')
      · intro q hq
        rcases List.mem_cons.mp hq with hq | hq
        · cases hq
        · exact i3 q hq

theorem depthInv_nil (G : Grammar) : DepthInv G [] := ⟨by simp, by simp⟩

/-- entries with equal keys are equal -/
theorem key_unique {acc : List ((Nat × Nat) × Nat)} (hnd : (acc.map (·.1)).Nodup)
    {e1 e2 : (Nat × Nat) × Nat} (h1 : e1 ∈ acc) (h2 : e2 ∈ acc) (hk : e1.1 = e2.1) : e1 = e2 := by
  induction acc with
  | nil => cases h1
  | cons a as ih =>
    simp only [List.map_cons, List.nodup_cons, List.mem_map, not_exists, not_and] at hnd
    rcases List.mem_cons.mp h1 with r1 | r1 <;> rcases List.mem_cons.mp h2 with r2 | r2
    · rw [r1, r2]
    · subst r1; exact absurd hk.symm (hnd.1 e2 r2)
    · subst r2; exact absurd hk (hnd.1 e1 r1)
    · exact ih hnd.2 r1 r2

theorem reduceStep_not_shift (G : Grammar) (t : Nat) (cell : Act) (rr : List (Nat × Nat)) (p : Nat)
    (c : Act) (rr' : List (Nat × Nat)) (hc : ∀ x, cell ≠ .shift x)
    (h : reduceStep G t cell rr p = .ok c rr') : ∀ x, c ≠ .shift x := by
  cases cell with
  | shift s => exact absurd rfl (hc s)
  | accept => simp [reduceStep] at h
  | error =>
    simp only [reduceStep] at h
    split at h <;> (injection h with h1 _; subst h1; simp)
  | reduce r =>
    simp only [reduceStep] at h
    split at h
    · cases h
    · split at h
      · injection h with h1 _; subst h1; simp
      · split at h <;> (injection h with h1 _; subst h1; simp)

theorem reducePhase_not_shift (G : Grammar) (t : Nat) :
    ∀ (R : List Nat) (cell : Act) (rr : List (Nat × Nat)) (c : Act) (rr' : List (Nat × Nat)),
      (∀ x, cell ≠ .shift x) → reducePhase G t R cell rr = .ok c rr' → ∀ x, c ≠ .shift x := by
  intro R
  induction R with
  | nil => intro cell rr c rr' hc h; simp [reducePhase] at h; obtain ⟨rfl, _⟩ := h; exact hc
  | cons p ps ih =>
    intro cell rr c rr' hc h
    simp only [reducePhase] at h
    cases hs : reduceStep G t cell rr p with
    | ok c1 rr1 =>
      rw [hs] at h
      exact ih c1 rr1 c rr' (reduceStep_not_shift G t cell rr p c1 rr1 hc hs) h
    | acceptReduce o => rw [hs] at h; cases h
    | internal => rw [hs] at h; cases h

end GrmVerif.Table
