import GrmVerif.Lemmas.Cpct
import GrmVerif.Lemmas.RecLive
/-!
Panic-freedom of the modelled SEARCH of `CPCTPlus::recover` (`SearchImpl.dijkstra`) on a certified table.

The search invariant of the correctness proof (`NodeInv`: every plain sequence of a node's chain is a
walk of the search graph from the error configuration to a specification node with the node's stack,
position, …) already carries what is needed: if the stack of the error configuration is a PATH of the
automaton, then — `feed` on a path never crashes and hands back a path (`C07.feed_path`), repairs applied
with plain LR semantics keep paths (`C07.applySeq_isPath`) — the stack of every node the search creates
is a path and its position lies inside the input (`nodeInv_pathOK`). Hence

* `lr_cactus` never `unwrap`s a missing goto, never pops below the stack (`neighbours_ne_panic`);
* `*n.pstack.val().unwrap()` in `success`/`insert` sees a non-empty stack whose top is a state of the
  table (`success_ne_panic`);
* `next_lexeme(n.laidx)` in `insert` stays inside the input;
* the merge closure's `unreachable!()` is not reached: an entry whose chain is the bare `Terminator`
  is only ever met by a node whose chain is the bare `Terminator` too, and then the closure returns
  early (`upsert_ne_none`, from `term_of_compat` with the roles exchanged);
* `todo[off]` is in range after the `resize`, `todo[c]` because `c` only advances while
  `c + 1 ≠ todo.len()` (`pushAll_ne_none`, `phase1_ne_panic`).
-/
namespace GrmVerif.SearchImpl
open GrmVerif LR Rec RankImpl Cert Term

variable {E : Env} {start : Pos}

/-! ### walks insert only tokens of the grammar; their ends are paths -/

theorem ipath_insertsOk {a n : Node} {s : List Repair} {k : Nat}
    (h : IPath E.G E.A E.w E.cost E.N a s n k) : C07.InsertsOk E.G s := by
  induction h with
  | nil a => intro t ht; cases ht
  | cons hst _ ih =>
    intro t ht
    rcases List.mem_cons.mp ht with e | ht
    · cases hst with
      | shift _ _ _ => cases e
      | insert t' _ _ _ htl _ _ => injection e with e; subst e; exact htl
      | delete _ _ _ => cases e
    · exact ih t ht

/-- what "the stack is a path, the position inside the input" means for a search node -/
def PathOK (E : Env) (m : PNode) : Prop := IsPath E.A m.pstack ∧ m.laidx ≤ E.w.length

/-- **every node that satisfies the search invariant has a path stack and a position inside the
input**, provided the error configuration's stack is a path -/
theorem nodeInv_pathOK (P : Props E.G E.A) (hw : InputOk E.G E.w) (hp : IsPath E.A start.stack)
    {m : PNode} (hm : NodeInv E start m) : PathOK E m := by
  obtain ⟨s, hs⟩ := List.exists_mem_of_ne_nil _ (seqs_ne_nil m.repairs)
  obtain ⟨n, h1, h2, _, _, h5, h6⟩ := hm.1 s hs
  have happ := ipath_applySeq h1
  have hpn : IsPath E.A n.c.stack :=
    C07.applySeq_isPath P hw s (root start).c n.c (ipath_insertsOk h1) hp happ
  refine ⟨?_, by rw [← h2]; exact h6⟩
  rcases h5 with h5 | ⟨h5, _⟩
  · rw [← h5]; exact hpn
  · exact (C07.feed_path P _ (nextTok_lt hw P.wf n.c.pos) FUEL n.c.stack hpn).2.2.2 _ h5

/-! ### `success`, `neighbours` -/

theorem isPath_cons {A : Automaton} {xs : List Nat} (h : IsPath A xs) : ∃ st rest, xs = st :: rest := by
  obtain ⟨labels, hp⟩ := h
  cases hp with
  | base => exact ⟨_, _, rfl⟩
  | step s t rest labels X _ _ => exact ⟨_, _, rfl⟩

theorem success_ne_panic {m : PNode} (hm : PathOK E m) : success E m ≠ .panic := by
  obtain ⟨st, rest, e⟩ := isPath_cons hm.1
  unfold success
  split
  · intro h; cases h
  · rw [e]; intro h; cases h

theorem out_map_ne_panic {α β : Type} {f : α → β} {x : Out α} (h : x ≠ .panic) : x.map f ≠ .panic := by
  cases x with
  | ok a => intro e; cases e
  | panic => exact absurd rfl h
  | fuelOut => intro e; cases e

theorem insertNbrs_ne_panic (P : Props E.G E.A) {m : PNode} (hm : PathOK E m) :
    ∀ ts : List Nat, (∀ t ∈ ts, t < E.G.ntoks) → insertNbrs E m ts ≠ .panic := by
  intro ts
  induction ts with
  | nil => intro _ h; cases h
  | cons t ts ih =>
    intro hts
    have ih' := ih (fun t' ht' => hts t' (List.mem_cons_of_mem _ ht'))
    simp only [insertNbrs]
    split
    · exact ih'
    · have hnp : ¬ ((decide (m.laidx > E.w.length) && (E.w.length != 0)) = true) := by
        have := hm.2
        simp only [Bool.and_eq_true, decide_eq_true_eq, not_and]
        intro h; omega
      rw [if_neg hnp]
      have hfp := C07.feed_path P t (hts t List.mem_cons_self) FUEL m.pstack hm.1
      cases hf : feed E.G E.A t FUEL m.pstack with
      | shifted s =>
        simp only
        split
        · exact out_map_ne_panic ih'
        · exact ih'
      | accept s => exact ih'
      | error s => exact ih'
      | crash => exact absurd hf hfp.1
      | fuelOut => intro h; cases h

theorem stateActionsOf_some {st : Nat} (h : st < E.A.nstates) :
    ∃ sa, stateActionsOf E.A st = some sa := by
  unfold stateActionsOf
  have : st < E.A.states.length := h
  rw [List.getElem?_eq_getElem this]
  exact ⟨_, rfl⟩

theorem insertAll_ne_panic (P : Props E.G E.A) (hsa : StateActionsOK E.G E.A) {m : PNode}
    (hm : PathOK E m) : insertAll E m ≠ .panic := by
  obtain ⟨st, rest, e⟩ := isPath_cons hm.1
  have hst : st < E.A.nstates := hm.1.states_lt P st (by rw [e]; simp)
  obtain ⟨sa, hsa'⟩ := stateActionsOf_some hst
  unfold insertAll
  rw [e]
  simp only [hsa']
  exact insertNbrs_ne_panic P hm sa (fun t ht => ((hsa st sa hsa' t).mp ht).1)

theorem shiftNbrs_ne_panic (P : Props E.G E.A) (hw : InputOk E.G E.w) {m : PNode} (hm : PathOK E m) :
    shiftNbrs E m ≠ .panic := by
  have hfp := C07.feed_path P _ (nextTok_lt hw P.wf m.laidx) FUEL m.pstack hm.1
  unfold shiftNbrs
  cases hf : feed E.G E.A (nextTok E.G E.w m.laidx) FUEL m.pstack with
  | shifted s => intro h; cases h
  | accept s => simp only; split <;> (intro h; cases h)
  | error s => intro h; cases h
  | crash => exact absurd hf hfp.1
  | fuelOut => intro h; cases h

/-- **the `neighbours` closure never panics on a node with a path stack inside the input** -/
theorem neighbours_ne_panic (P : Props E.G E.A) (hw : InputOk E.G E.w) (hsa : StateActionsOK E.G E.A)
    {m : PNode} (hm : PathOK E m) (b : Bool) : neighbours E b m ≠ .panic := by
  have hi : insPart E b m ≠ .panic := by
    unfold insPart
    split
    · intro h; cases h
    · split
      · exact insertAll_ne_panic P hsa hm
      · intro h; cases h
  have hsft := shiftNbrs_ne_panic P hw hm
  unfold neighbours
  simp only
  unfold insPart at hi
  cases hins : (if isDelete (lastRepair m.repairs) = true then Out.ok []
      else if b = true then insertAll E m else Out.ok []) with
  | panic => exact absurd hins hi
  | fuelOut => intro h; cases h
  | ok i =>
    simp only
    cases hs : shiftNbrs E m with
    | panic => exact absurd hs hsft
    | fuelOut => intro h; cases h
    | ok s => intro h; cases h

/-! ### the merge closure, buckets, `todo` -/

theorem beq_term_of_isTerm {t : RTree} (h : isTerm t = true) : RTree.beq .term t = true := by
  cases t with
  | term => rfl
  | rep p r => cases h
  | merge p r v => cases h

/-- **the merge closure's `unreachable!()` is not reached** when a node is inserted into a bucket of
its own cost whose entries satisfy the search invariant -/
theorem upsert_ne_none (H : Hyps E start) {k : Nat} {nbr : PNode} (hn : NodeInv E start nbr)
    (hcf : nbr.cf = k) : ∀ {b : Bucket}, BucketOK E start k b → upsert nbr b ≠ none := by
  intro b
  induction b with
  | nil => intro _ h; cases h
  | cons e rest ih =>
    intro hb
    obtain ⟨k0, v⟩ := e
    obtain ⟨e1, e2, e3⟩ := hb (k0, v) List.mem_cons_self
    simp only at e1 e2 e3
    have hrest : BucketOK E start k rest := fun e he => hb e (List.mem_cons_of_mem _ he)
    simp only [upsert]
    by_cases hc : compat k0 nbr = true
    · rw [if_pos hc]
      have hkv : keyOf k0 = keyOf nbr := (compat_iff _ _).mp hc
      have hm : mergeRepairs v.repairs nbr.repairs ≠ none := by
        unfold mergeRepairs
        split
        · intro h; cases h
        · rename_i hbeq
          cases hv : v.repairs with
          | rep p r => intro h; cases h
          | merge p r alts => intro h; cases h
          | term =>
            exfalso
            -- the kept entry is the bare Terminator: so is the new node, and the two chains are equal
            have ht : isTerm nbr.repairs = true :=
              term_of_compat H hn e3 (by rw [hcf, e1]) (by rw [← hkv, e2]) (by rw [hv]; rfl)
            rw [hv] at hbeq
            exact hbeq (beq_term_of_isTerm ht)
      cases hmr : mergeRepairs v.repairs nbr.repairs with
      | none => exact absurd hmr hm
      | some r => intro h; cases h
    · rw [if_neg hc]
      have := ih hrest
      cases hu : upsert nbr rest with
      | none => exact absurd hu this
      | some rest' => intro h; cases h

theorem pushNbr_ne_none (H : Hyps E start) {todo : Array Bucket} {off : Nat} {nbr : PNode}
    (hn : NodeInv E start nbr) (hcf : nbr.cf = off) (hok : TodoOK E start todo) :
    pushNbr todo off nbr ≠ none := by
  unfold pushNbr
  simp only
  have hget : (todo ++ Array.replicate (off + 1) ([] : Bucket))[off]? = some (bk todo off) := by
    rw [Array.getElem?_append]
    by_cases hlt : off < todo.size
    · rw [if_pos hlt]
      simp only [bk]
      rw [Array.getElem?_eq_getElem hlt]
      rfl
    · rw [if_neg hlt, Array.getElem?_replicate, if_pos (by omega)]
      simp only [bk]
      rw [Array.getElem?_eq_none (by omega)]
      rfl
  rw [hget]
  simp only
  have := upsert_ne_none H hn hcf (hok off)
  cases hu : upsert nbr (bk todo off) with
  | none => exact absurd hu this
  | some b' => intro h; cases h

/-- **`todo[off]` is in range and the merge closure does not panic**, neighbour after neighbour -/
theorem pushAll_ne_none (H : Hyps E start) : ∀ {nbrs : List (Nat × PNode)} {todo : Array Bucket},
    (∀ x ∈ nbrs, x.1 = x.2.cf ∧ NodeInv E start x.2) → TodoOK E start todo →
    pushAll todo nbrs ≠ none := by
  intro nbrs
  induction nbrs with
  | nil => intro todo _ _ h; cases h
  | cons x rest ih =>
    intro todo hx hok
    obtain ⟨off, nbr⟩ := x
    obtain ⟨hx1, hx2⟩ := hx (off, nbr) List.mem_cons_self
    simp only at hx1 hx2
    simp only [pushAll]
    cases hp : pushNbr todo off nbr with
    | none => exact absurd hp (pushNbr_ne_none H hx2 hx1.symm hok)
    | some todo1 =>
      simp only
      obtain ⟨hok1, _⟩ := pushAll_spec H (nbrs := [(off, nbr)]) (todo := todo) (todo' := todo1)
        (by intro y hy; simp only [List.mem_singleton] at hy; subst hy; exact ⟨hx1, hx2⟩) hok
        (by simp only [pushAll, hp])
      exact ih (fun y hy => hx y (List.mem_cons_of_mem _ hy)) hok1

theorem upsertAll_ne_none (H : Hyps E start) {c : Nat} : ∀ {nbrs : List (Nat × PNode)} {b : Bucket},
    (∀ x ∈ nbrs, x.1 = x.2.cf ∧ NodeInv E start x.2) → BucketOK E start c b →
    upsertAll c b nbrs ≠ none := by
  intro nbrs
  induction nbrs with
  | nil => intro b _ _ h; cases h
  | cons x rest ih =>
    intro b hx hok
    obtain ⟨off, nbr⟩ := x
    obtain ⟨hx1, hx2⟩ := hx (off, nbr) List.mem_cons_self
    simp only at hx1 hx2
    simp only [upsertAll]
    by_cases hc : (off == c) = true
    · rw [if_pos hc]
      simp only [beq_iff_eq] at hc
      have hcf : nbr.cf = c := by rw [← hx1, hc]
      cases hu : upsert nbr b with
      | none => exact absurd hu (upsert_ne_none H hx2 hcf hok)
      | some b1 =>
        simp only
        obtain ⟨u1, _, _⟩ := upsert_spec H hx2 hcf hok hu
        exact ih (fun y hy => hx y (List.mem_cons_of_mem _ hy)) u1
    · rw [if_neg hc]
      exact ih (fun y hy => hx y (List.mem_cons_of_mem _ hy)) hok

/-! ### the two loops -/

/-- **the second loop of `dijkstra` never panics** -/
theorem phase2_ne_panic (H : Hyps E start) (P : Props E.G E.A) (hw : InputOk E.G E.w)
    (hp : IsPath E.A start.stack) : ∀ (fuel c : Nat) (b : Bucket) (scs : List PNode),
    BucketOK E start c b → phase2 E fuel c b scs ≠ .panic := by
  intro fuel
  induction fuel with
  | zero => intro c b scs _ h; cases h
  | succ fuel ih =>
    intro c b scs hb
    simp only [phase2]
    cases hpop : popLast b with
    | none => intro h; cases h
    | some v =>
      obtain ⟨b', n⟩ := v
      simp only
      obtain ⟨k0, rfl⟩ := popLast_some hpop
      have hb' : BucketOK E start c b' := fun e he => hb e (List.mem_append_left _ he)
      obtain ⟨n1, _, n3⟩ := hb (k0, n) (by simp)
      simp only at n1 n3
      have hpn := nodeInv_pathOK P hw hp n3
      cases hsucc : success E n with
      | panic => exact absurd hsucc (success_ne_panic hpn)
      | fuelOut => intro h; cases h
      | ok sb =>
        cases sb with
        | true => exact ih c b' (scs ++ [n]) hb'
        | false =>
          simp only
          cases hnb : neighbours E false n with
          | panic => exact absurd hnb (neighbours_ne_panic P hw H.sa hpn false)
          | fuelOut => intro h; cases h
          | ok nbrs =>
            simp only
            have hsound := neighbours_sound H n3 hsucc hnb
            have hx : ∀ x ∈ nbrs, x.1 = x.2.cf ∧ NodeInv E start x.2 :=
              fun x hx => ⟨(hsound x hx).1, (hsound x hx).2.2⟩
            cases hu : upsertAll c b' nbrs with
            | none => exact absurd hu (upsertAll_ne_none H hx hb')
            | some b'' =>
              simp only
              obtain ⟨u1, _, _⟩ := upsertAll_spec H hx hb' hu
              exact ih c b'' scs u1

/-- **the first loop of `dijkstra` never panics**: `todo[c]` is in range (`c < todo.len()` is kept by
the loop), the popped node has a path stack, pushing its neighbours stays in range and never reaches
`unreachable!()` -/
theorem phase1_ne_panic (H : Hyps E start) (P : Props E.G E.A) (hw : InputOk E.G E.w)
    (hp : IsPath E.A start.stack) : ∀ (fuel : Nat) (todo : Array Bucket) (c : Nat),
    TodoOK E start todo → c < todo.size → phase1 E fuel todo c ≠ .panic := by
  intro fuel
  induction fuel with
  | zero => intro todo c _ _ h; cases h
  | succ fuel ih =>
    intro todo c hok hsz
    simp only [phase1]
    have hget : todo[c]? = some (bk todo c) := by
      simp only [bk]
      rw [Array.getElem?_eq_getElem hsz]
      rfl
    rw [hget]
    simp only
    have hbok : BucketOK E start c (bk todo c) := hok c
    cases hpop : popLast (bk todo c) with
    | none =>
      simp only
      split
      · intro h; cases h
      · split
        · intro h; cases h
        · rename_i h1 h2
          simp only [beq_iff_eq] at h2
          exact ih todo (c + 1) hok (by omega)
    | some v =>
      obtain ⟨b', n⟩ := v
      simp only
      obtain ⟨k0, hbeq⟩ := popLast_some hpop
      have hb' : BucketOK E start c b' := fun e he => hbok e (by rw [hbeq]; exact List.mem_append_left _ he)
      obtain ⟨n1, _, n3⟩ := hbok (k0, n) (by rw [hbeq]; simp)
      simp only at n1 n3
      have hpn := nodeInv_pathOK P hw hp n3
      cases hsucc : success E n with
      | panic => exact absurd hsucc (success_ne_panic hpn)
      | fuelOut => intro h; cases h
      | ok sb =>
        cases sb with
        | true => exact phase2_ne_panic H P hw hp fuel c b' [n] hb'
        | false =>
          simp only
          cases hnb : neighbours E true n with
          | panic => exact absurd hnb (neighbours_ne_panic P hw H.sa hpn true)
          | fuelOut => intro h; cases h
          | ok nbrs =>
            simp only
            have hsound := neighbours_sound H n3 hsucc hnb
            have hx : ∀ x ∈ nbrs, x.1 = x.2.cf ∧ NodeInv E start x.2 :=
              fun x hx => ⟨(hsound x hx).1, (hsound x hx).2.2⟩
            have hok1 : TodoOK E start (todo.setIfInBounds c b') := by
              intro k
              rw [bk_set b' hsz k]
              by_cases hk : k = c
              · subst hk; rw [if_pos rfl]; exact hb'
              · rw [if_neg hk]; exact hok k
            cases hpa : pushAll (todo.setIfInBounds c b') nbrs with
            | none => exact absurd hpa (pushAll_ne_none H hx hok1)
            | some todo' =>
              simp only
              obtain ⟨p1, _, _, _, p5⟩ := pushAll_spec H hx hok1 hpa
              refine ih todo' c p1 ?_
              have : (todo.setIfInBounds c b').size = todo.size := Array.size_setIfInBounds
              omega

/-- **The modelled search never panics** at a configuration that satisfies the hypotheses of the search
theorems and whose stack is a path of a certified automaton, on an input of real tokens: for every
search fuel. -/
theorem dijkstra_ne_panic (H : Hyps E start) (P : Props E.G E.A) (hw : InputOk E.G E.w)
    (hp : IsPath E.A start.stack) (fuel : Nat) : dijkstra E fuel start ≠ .panic := by
  unfold dijkstra
  refine phase1_ne_panic H P hw hp fuel _ 0 ?_ (by simp)
  intro k
  by_cases hk : k = 0
  · subst hk
    intro e he
    have : bk #[[(startNode start, startNode start)]] 0 = [(startNode start, startNode start)] := rfl
    rw [this] at he
    simp only [List.mem_singleton] at he
    subst he
    exact ⟨rfl, rfl, nodeInv_start H.pos⟩
  · rw [bk_beyond (by simp; omega)]
    intro e he
    cases he

end GrmVerif.SearchImpl
