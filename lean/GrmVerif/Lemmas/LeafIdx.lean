import GrmVerif.Lemmas.LRSound
import GrmVerif.Lemmas.LRComplete
/-!
The lexeme indices on the leaves of the trees the LR driver builds: read left to right over the tree
stack (bottom to top) they are `0, 1, …, laidx - 1`. Hence the `k`-th leaf of an accepted tree carries
index `k`. Used by C05 to say which item of the edited input a leaf of the returned tree stands for.
-/
namespace GrmVerif.Cert
open GrmVerif LR

theorem leafIdxsList_append (a b : List Tree) :
    Tree.leafIdxsList (a ++ b) = Tree.leafIdxsList a ++ Tree.leafIdxsList b := by
  induction a with
  | nil => simp [Tree.leafIdxsList]
  | cons x xs ih => simp [Tree.leafIdxsList, ih, List.append_assoc]

/-- the leaves on the tree stack, bottom to top, carry the indices of the lexemes read so far -/
def IdxInv (c : Cfg) : Prop := Tree.leafIdxsList c.astack.reverse = List.range c.laidx

theorem idxInv_init (A : Automaton) : IdxInv (init A) := by
  simp [IdxInv, init, Tree.leafIdxsList]

theorem step_idxInv {G : Grammar} {A : Automaton} {w : List Nat} {c c' : Cfg} (hinv : IdxInv c)
    (h : step G A w c = .cont c') : IdxInv c' := by
  obtain ⟨pstack, astack, laidx⟩ := c
  unfold IdxInv at hinv ⊢
  simp only at hinv
  cases pstack with
  | nil => simp [step] at h
  | cons st rest =>
    cases hact : A.action st (nextTok G w laidx) with
    | error => simp [step, hact] at h
    | accept =>
      simp only [step, hact] at h
      split at h <;> cases h
    | shift s' =>
      simp only [step, hact, Step.cont.injEq] at h
      subst h
      simp only [List.reverse_cons, leafIdxsList_append, hinv, Tree.leafIdxsList, Tree.leafIdxs,
        List.append_nil, List.range_succ]
    | reduce p =>
      simp only [step, hact] at h
      by_cases hle : (st :: rest).length ≤ (G.rhs p).length
      · rw [if_pos hle] at h; cases h
      · rw [if_neg hle] at h
        cases hd : List.drop (G.rhs p).length (st :: rest) with
        | nil => rw [hd] at h; cases h
        | cons prior tl =>
          rw [hd] at h; simp only at h
          cases hg : A.goto prior (G.lhs p) with
          | none => rw [hg] at h; cases h
          | some s1 =>
            rw [hg] at h
            simp only [Step.cont.injEq] at h
            subst h
            simp only [List.reverse_cons, leafIdxsList_append, Tree.leafIdxsList, Tree.leafIdxs,
              List.append_nil]
            rw [← leafIdxsList_append, ← List.reverse_append, List.take_append_drop]
            exact hinv

theorem steps_idxInv {G : Grammar} {A : Automaton} {w : List Nat} {a b : Cfg} (h : Steps G A w a b)
    (hinv : IdxInv a) : IdxInv b := by
  induction h with
  | refl _ => exact hinv
  | step x y z hs _ ih => exact ih (step_idxInv hinv hs)

theorem steps_inv {G : Grammar} {A : Automaton} (P : Props G A) {w : List Nat} (hw : InputOk G w)
    {a b : Cfg} (h : Steps G A w a b) (hinv : Inv G A w a) : Inv G A w b := by
  induction h with
  | refl _ => exact hinv
  | step x y z hs _ ih => exact ih ((step_inv P hw hinv).1 y hs)

/-- on a certified automaton, a tree accepted after a run from the initial configuration has the leaf
indices `0, 1, …, laidx - 1` where `laidx` is the position at which it was accepted -/
theorem accept_leafIdxs {G : Grammar} {A : Automaton} (P : Props G A) {w : List Nat} (hw : InputOk G w)
    {c : Cfg} (hs : Steps G A w (init A) c) (t : Tree) (h : step G A w c = .done (.accept t)) :
    Tree.leafIdxs t = List.range c.laidx := by
  have h1 := accept_stack P hw (steps_inv P hw hs (inv_init w)) t h
  have h2 := steps_idxInv hs (idxInv_init A)
  unfold IdxInv at h2
  rw [h1] at h2
  simpa [Tree.leafIdxsList] using h2

end GrmVerif.Cert
