import GrmVerif.Lemmas.MinSentenceImpl
import GrmVerif.Lemmas.Odometer
/-! The model of `SentenceGenerator::min_sentences` (`Impl.minSentencesWith`): `cheapest_prods` returns
exactly the productions whose cost is the minimal cost of their rule, in production order; whenever the
recursion ends the vector holds, for each of these productions in turn, the combinations (first symbol
slowest) of the vectors of its symbols; every sentence in it is derived by the rule at the minimal cost
(`minSentencesWith_sound`) and every sentence the rule derives at that cost is in it
(`minSentencesWith_complete`). -/
namespace GrmVerif.Impl
open GrmVerif Spec Ref

/-! ### `cheapest_prods` -/

/-- the productions of `q` whose cost, every rule at its minimal cost, is `x` -/
def cheapSet (G : Grammar) (tc : List Nat) (m : List (Option Nat)) (q x : Nat) : List Nat :=
  (G.prodsOf q).filter (fun p => seqCost (tcF tc) (look m) (G.rhs p) == some x)

theorem cpsProds_spec (G : Grammar) (hwf : G.wf = true) (tc : List Nat) (m : List (Option Nat))
    (htc : tc.length = G.ntoks) (hlen : m.length = G.nrules) :
    ∀ (ps : List Nat) (lo : Option Nat) (idxs : List Nat), (∀ p ∈ ps, p < G.nprods) → (lo = none → idxs = []) →
      ∃ lo', iterM (cpsProd G tc (some (concr m))) ps (lo, idxs) =
          some (lo', (if lo' = lo then idxs else []) ++ ps.filter (fun p => lo' == some (satCost G tc m p))) ∧
        (∀ v, lo = some v → ∃ v', lo' = some v' ∧ v' ≤ v) ∧
        (∀ p ∈ ps, ∃ v', lo' = some v' ∧ v' ≤ satCost G tc m p) ∧
        (lo' = lo ∨ ∃ p ∈ ps, lo' = some (satCost G tc m p)) := by
  intro ps
  induction ps with
  | nil =>
    intro lo idxs _ _
    exact ⟨lo, by simp [iterM], fun v h => ⟨v, h, Nat.le_refl _⟩, (by intro p hp; cases hp), Or.inl rfl⟩
  | cons p ps ih =>
    intro lo idxs hall hnone
    have hp := hall p (by simp)
    have hrest : ∀ q ∈ ps, q < G.nprods := fun q hq => hall q (List.mem_cons_of_mem _ hq)
    have hsc := cpSyms_spec G tc m htc hlen (G.rhs p) 0 (fun s hs => wf_sym hwf hp hs) (Nat.zero_le _)
    simp only [Nat.zero_add] at hsc
    have hsc' : cpSyms tc (some (concr m)) (G.rhs p) 0 = some (satCost G tc m p) := hsc
    simp only [iterM, cpsProd, hsc']
    cases hle : leO' (satCost G tc m p) lo with
    | false =>
      -- dearer than the lowest so far: nothing changes
      simp only [Bool.false_eq_true, if_false]
      obtain ⟨b, hb, hblt⟩ : ∃ b, lo = some b ∧ b < satCost G tc m p := by
        cases lo with
        | none => simp [leO'] at hle
        | some b => exact ⟨b, rfl, by simpa [leO'] using hle⟩
      obtain ⟨lo', hr, h1, h2, h3⟩ := ih lo idxs hrest hnone
      obtain ⟨v', hv', hle'⟩ := h1 b hb
      refine ⟨lo', ?_, h1, ?_, ?_⟩
      · rw [hr]
        have : (lo' == some (satCost G tc m p)) = false := by
          rw [hv']; simp; omega
        simp [this]
      · intro q hq
        rcases List.mem_cons.mp hq with rfl | hq
        · exact ⟨v', hv', by omega⟩
        · exact h2 q hq
      · rcases h3 with h3 | ⟨q, hq, e⟩
        · exact Or.inl h3
        · exact Or.inr ⟨q, List.mem_cons_of_mem _ hq, e⟩
    | true =>
      simp only [if_true]
      obtain ⟨lo', hr, h1, h2, h3⟩ := ih (some (satCost G tc m p))
        ((if ltSome (satCost G tc m p) lo then [] else idxs) ++ [p]) hrest (by intro h; cases h)
      obtain ⟨v0, hv0, hle0⟩ := h1 _ rfl
      have hlo : ∀ v, lo = some v → satCost G tc m p ≤ v := by
        intro v hv; subst hv; simpa [leO'] using hle
      refine ⟨lo', ?_, ?_, ?_, ?_⟩
      · rw [hr]
        subst hv0
        have key : (if some v0 = some (satCost G tc m p) then
              (if ltSome (satCost G tc m p) lo then [] else idxs) ++ [p] else []) ++
              ps.filter (fun p => some v0 == some (satCost G tc m p)) =
            (if some v0 = lo then idxs else []) ++
              (p :: ps).filter (fun p => some v0 == some (satCost G tc m p)) := by
          by_cases heq : v0 = satCost G tc m p
          · -- the lowest cost is the one of `p`
            subst heq
            simp only [List.filter_cons, beq_self_eq_true, if_true]
            cases lo with
            | none => simp [ltSome, hnone rfl]
            | some b =>
              have := hlo b rfl
              by_cases hb : satCost G tc m p = b
              · subst hb; simp [ltSome]
              · have hlt : satCost G tc m p < b := by omega
                have hne : ¬ (some (satCost G tc m p) = some b) := by
                  intro e; exact hb (Option.some.inj e)
                simp only [ltSome, hlt, decide_true, if_true, hne, if_false, List.nil_append]
                simp
          · have hlt : v0 < satCost G tc m p := by omega
            have e1 : (some v0 == some (satCost G tc m p)) = false := by simp; omega
            have e2 : ¬ some v0 = some (satCost G tc m p) := by
              intro e; exact heq (Option.some.inj e)
            have e3 : ¬ some v0 = lo := by
              intro e
              have := hlo v0 e.symm
              omega
            simp only [e2, e3, if_false, List.filter_cons, e1, Bool.false_eq_true]
        rw [key]
      · intro v hv
        exact ⟨v0, hv0, by have := hlo v hv; omega⟩
      · intro q hq
        rcases List.mem_cons.mp hq with rfl | hq
        · exact ⟨v0, hv0, hle0⟩
        · exact h2 q hq
      · right
        rcases h3 with e | ⟨q, hq, e⟩
        · exact ⟨p, by simp, e⟩
        · exact ⟨q, List.mem_cons_of_mem _ hq, e⟩

/-- for costs below `u16::MAX` the saturated cost of a production is its cost -/
theorem satCost_eq_iff (G : Grammar) (hwf : G.wf = true) (tc : List Nat) (m : List (Option Nat))
    (hlen : m.length = G.nrules) {p x : Nat} (hp : p < G.nprods) (hlt : x < U16MAX) :
    satCost G tc m p = x ↔ seqCost (tcF tc) (look m) (G.rhs p) = some x := by
  have hok : ∀ s ∈ G.rhs p, G.symOk s = true := fun s hs => wf_sym hwf hp hs
  constructor
  · intro h
    have hcur : curSum (tcF tc) (cget (concr m)) (G.rhs p) = x := by unfold satCost at h; omega
    have hall := all_of_curSum_lt G (tcF tc) m hlen (G.rhs p) hok (by omega)
    rw [seqCost_of_all G (tcF tc) m hlen (G.rhs p) hok hall, hcur]
  · intro h
    have hall : ∀ q', Sym.rule q' ∈ G.rhs p → ∃ y, look m q' = some y := by
      intro q' hq'
      obtain ⟨y, hy, _⟩ := seqCost_mem _ x h q' hq'
      exact ⟨y, hy⟩
    have := seqCost_of_all G (tcF tc) m hlen (G.rhs p) hok hall
    rw [h] at this
    simp only [Option.some.injEq] at this
    unfold satCost
    rw [← this]; omega

/-- **`cheapest_prods` returns exactly the cheapest productions, in production order**: for a rule whose
minimal cost `x` is below `u16::MAX`, the productions of the rule whose cost — every rule at its minimal
cost — is `x` -/
theorem cheapestProds_spec (G : Grammar) (hwf : G.wf = true) (tc : List Nat) (m : List (Option Nat))
    (htc : tc.length = G.ntoks) (hmt : MinTable G (tcF tc) m) {q x : Nat} (hq : q < G.nrules)
    (hx : look m q = some x) (hlt : x < U16MAX) :
    cheapestProds G tc (some (concr m)) q = some (cheapSet G tc m q x) := by
  have hps : ∀ p ∈ G.prodsOf q, p < G.nprods := fun p hp => (mem_prodsOf.mp hp).1
  obtain ⟨lo', hr, _, h2, h3⟩ := cpsProds_spec G hwf tc m htc hmt.len (G.prodsOf q) none [] hps (fun _ => rfl)
  -- a production of cost `x` exists
  have hfix := hmt.fix q hq
  rw [hx] at hfix
  obtain ⟨pt, hpt, hptc⟩ := ruleCost_attained hfix.symm
  have hsat_pt : satCost G tc m pt = x := (satCost_eq_iff G hwf tc m hmt.len (hps pt hpt) hlt).mpr hptc
  obtain ⟨v', hv', hle'⟩ := h2 pt hpt
  have hlo : lo' = some x := by
    rcases h3 with e | ⟨cp, hcp, e⟩
    · rw [e] at hv'; cases hv'
    · rw [e] at hv'
      simp only [Option.some.injEq] at hv'
      have hsc := (satCost_eq_iff G hwf tc m hmt.len (hps cp hcp) (x := v') (by omega)).mp hv'
      have hge := ruleCost_le (G := G) (tc := tcF tc) (c := look m) hcp
      rw [← hmt.fix q hq, hx, hsc] at hge
      simp only [leO] at hge
      rw [e, hv']
      congr 1; omega
  unfold cheapestProds
  rw [hr]
  simp only [Option.some.injEq]
  have : (if lo' = none then ([] : List Nat) else []) = [] := by split <;> rfl
  rw [this, List.nil_append]
  unfold cheapSet
  apply List.filter_congr
  intro p hp
  rw [hlo]
  have := satCost_eq_iff G hwf tc m hmt.len (hps p hp) hlt (x := x)
  rw [Bool.eq_iff_iff]
  simp only [beq_iff_eq, Option.some.injEq]
  constructor
  · intro h; exact this.mp h.symm
  · intro h; exact (this.mpr h).symm

theorem mem_cheapSet {G : Grammar} {tc : List Nat} {m : List (Option Nat)} {q x p : Nat} :
    p ∈ cheapSet G tc m q x ↔ p ∈ G.prodsOf q ∧ seqCost (tcF tc) (look m) (G.rhs p) = some x := by
  simp [cheapSet]

/-- a rule with a minimal cost has a cheapest production -/
theorem cheapSet_ne_nil (G : Grammar) (tc : List Nat) (m : List (Option Nat)) (hmt : MinTable G (tcF tc) m)
    {q x : Nat} (hq : q < G.nrules) (hx : look m q = some x) : cheapSet G tc m q x ≠ [] := by
  have hfix := hmt.fix q hq
  rw [hx] at hfix
  obtain ⟨pt, hpt, hptc⟩ := ruleCost_attained hfix.symm
  intro h
  have : pt ∈ cheapSet G tc m q x := mem_cheapSet.mpr ⟨hpt, hptc⟩
  rw [h] at this
  cases this

/-! ### gathering the vectors of the symbols -/

/-- the answer of a call that returned (`d` otherwise) -/
def Outcome.val {α : Type} (d : α) : Outcome α → α
  | .done a => a
  | _ => d

/-- `ms` for a production: one vector of sentences per symbol -/
def gatherP (f : Nat → List (List Nat)) : List Sym → List (List (List Nat))
  | [] => []
  | .tok t :: rest => [[t]] :: gatherP f rest
  | .rule q :: rest => f q :: gatherP f rest

theorem gatherP_length (f : Nat → List (List Nat)) (l : List Sym) : (gatherP f l).length = l.length := by
  induction l with
  | nil => rfl
  | cons s rest ih => cases s <;> simp [gatherP, ih]

theorem msGather_done (rec : Nat → Outcome (List (List Nat))) :
    ∀ (l : List Sym) (acc : List (List (List Nat))), (∀ q, Sym.rule q ∈ l → ∃ L, rec q = .done L) →
      msGather rec l acc = .done (acc ++ gatherP (fun q => (rec q).val []) l) := by
  intro l
  induction l with
  | nil => intro acc _; simp [msGather, gatherP]
  | cons s rest ih =>
    intro acc h
    have h' : ∀ q, Sym.rule q ∈ rest → ∃ L, rec q = .done L := fun q hq => h q (List.mem_cons_of_mem _ hq)
    cases s with
    | tok t => simp [msGather, gatherP, ih _ h']
    | rule q =>
      obtain ⟨L, hL⟩ := h q (by simp)
      simp [msGather, gatherP, hL, ih _ h', Outcome.val]

theorem msGather_inv (rec : Nat → Outcome (List (List Nat))) :
    ∀ (l : List Sym) (acc ms : List (List (List Nat))), msGather rec l acc = .done ms →
      ∀ q, Sym.rule q ∈ l → ∃ L, rec q = .done L := by
  intro l
  induction l with
  | nil => intro _ _ _ q hq; cases hq
  | cons s rest ih =>
    intro acc ms h q hq
    cases s with
    | tok t =>
      simp only [msGather] at h
      rcases List.mem_cons.mp hq with e | hq
      · cases e
      · exact ih _ _ h q hq
    | rule q0 =>
      simp only [msGather] at h
      cases hr : rec q0 with
      | panic => rw [hr] at h; cases h
      | fuelOut => rw [hr] at h; cases h
      | done L =>
        rw [hr] at h
        rcases List.mem_cons.mp hq with e | hq
        · cases e; exact ⟨L, hr⟩
        · exact ih _ _ h q hq

theorem msGather_no_panic (rec : Nat → Outcome (List (List Nat))) :
    ∀ (l : List Sym) (acc : List (List (List Nat))), (∀ q, Sym.rule q ∈ l → rec q ≠ .panic) →
      msGather rec l acc ≠ .panic := by
  intro l
  induction l with
  | nil => intro acc _ h; cases h
  | cons s rest ih =>
    intro acc h
    have h' : ∀ q, Sym.rule q ∈ rest → rec q ≠ .panic := fun q hq => h q (List.mem_cons_of_mem _ hq)
    cases s with
    | tok t => simp only [msGather]; exact ih _ h'
    | rule q =>
      simp only [msGather]
      cases hr : rec q with
      | panic => exact absurd hr (h q (by simp))
      | fuelOut => intro e; cases e
      | done L => exact ih _ h'

/-! ### one production, all productions -/

/-- the recursive call did not panic and, if it returned, returned at least one sentence -/
def GoodRec (rec : Nat → Outcome (List (List Nat))) (q : Nat) : Prop :=
  rec q ≠ .panic ∧ ∀ L, rec q = .done L → L ≠ []

/-- what production `p` contributes -/
def prodSents (G : Grammar) (f : Nat → List (List Nat)) (p : Nat) : List (List Nat) :=
  combos (gatherP f (G.rhs p))

theorem gatherP_ne_nil (f : Nat → List (List Nat)) : ∀ (l : List Sym), (∀ q, Sym.rule q ∈ l → f q ≠ []) →
    ∀ x ∈ gatherP f l, x ≠ [] := by
  intro l
  induction l with
  | nil => intro _ x hx; cases hx
  | cons s rest ih =>
    intro h x hx
    have h' : ∀ q, Sym.rule q ∈ rest → f q ≠ [] := fun q hq => h q (List.mem_cons_of_mem _ hq)
    cases s with
    | tok t =>
      simp only [gatherP, List.mem_cons] at hx
      rcases hx with rfl | hx
      · simp
      · exact ih h' x hx
    | rule q =>
      simp only [gatherP, List.mem_cons] at hx
      rcases hx with rfl | hx
      · exact h q (by simp)
      · exact ih h' x hx

theorem mssProd_done (G : Grammar) (rec : Nat → Outcome (List (List Nat))) (sts : List (List Nat)) (p : Nat)
    (h : ∀ q, Sym.rule q ∈ G.rhs p → ∃ L, rec q = .done L ∧ L ≠ []) :
    mssProd G rec sts p = .done (sts ++ prodSents G (fun q => (rec q).val []) p) := by
  unfold mssProd prodSents
  simp only []
  cases hrhs : G.rhs p with
  | nil => simp [gatherP, combos]
  | cons s rest =>
    simp only [List.isEmpty_cons, Bool.false_eq_true, if_false]
    rw [← hrhs]
    rw [msGather_done rec (G.rhs p) [] (fun q hq => by obtain ⟨L, hL, _⟩ := h q hq; exact ⟨L, hL⟩)]
    simp only [List.nil_append]
    have hne : gatherP (fun q => (rec q).val []) (G.rhs p) ≠ [] := by
      intro e
      have := gatherP_length (fun q => (rec q).val []) (G.rhs p)
      rw [e, hrhs] at this
      simp at this
    have hall : ∀ x ∈ gatherP (fun q => (rec q).val []) (G.rhs p), x ≠ [] := by
      apply gatherP_ne_nil
      intro q hq
      obtain ⟨L, hL, hLne⟩ := h q hq
      simp only [hL, Outcome.val]
      exact hLne
    have := odoLoop_spec _ hne hall
    rw [gatherP_length] at this
    rw [this]

theorem mssProd_inv (G : Grammar) (rec : Nat → Outcome (List (List Nat))) (sts L : List (List Nat)) (p : Nat)
    (h : mssProd G rec sts p = .done L) : ∀ q, Sym.rule q ∈ G.rhs p → ∃ L', rec q = .done L' := by
  unfold mssProd at h
  simp only [] at h
  intro q hq
  split at h
  · next he =>
    have : G.rhs p = [] := by simpa using he
    rw [this] at hq; cases hq
  · cases hg : msGather rec (G.rhs p) [] with
    | panic => rw [hg] at h; cases h
    | fuelOut => rw [hg] at h; cases h
    | done ms => exact msGather_inv rec _ _ _ hg q hq

theorem mssProd_no_panic (G : Grammar) (rec : Nat → Outcome (List (List Nat))) (sts : List (List Nat)) (p : Nat)
    (h : ∀ q, Sym.rule q ∈ G.rhs p → GoodRec rec q) : mssProd G rec sts p ≠ .panic := by
  intro hpanic
  by_cases hall : ∀ q, Sym.rule q ∈ G.rhs p → ∃ L, rec q = .done L
  · have := mssProd_done G rec sts p (fun q hq => by
      obtain ⟨L, hL⟩ := hall q hq
      exact ⟨L, hL, (h q hq).2 L hL⟩)
    rw [this] at hpanic; cases hpanic
  · unfold mssProd at hpanic
    simp only [] at hpanic
    split at hpanic
    · cases hpanic
    · cases hg : msGather rec (G.rhs p) [] with
      | panic => exact msGather_no_panic rec _ _ (fun q hq => (h q hq).1) hg
      | fuelOut => rw [hg] at hpanic; cases hpanic
      | done ms => exact hall (msGather_inv rec _ _ _ hg)

theorem iterO_mssProd_done (G : Grammar) (rec : Nat → Outcome (List (List Nat))) :
    ∀ (ps : List Nat) (sts : List (List Nat)),
      (∀ p ∈ ps, ∀ q, Sym.rule q ∈ G.rhs p → ∃ L, rec q = .done L ∧ L ≠ []) →
      iterO (mssProd G rec) ps sts = .done (sts ++ ps.flatMap (prodSents G (fun q => (rec q).val []))) := by
  intro ps
  induction ps with
  | nil => intro sts _; simp [iterO]
  | cons p ps ih =>
    intro sts h
    simp only [iterO, mssProd_done G rec sts p (h p (by simp))]
    rw [ih _ (fun p' hp' => h p' (List.mem_cons_of_mem _ hp'))]
    simp

theorem iterO_mssProd_inv (G : Grammar) (rec : Nat → Outcome (List (List Nat))) :
    ∀ (ps : List Nat) (sts L : List (List Nat)), iterO (mssProd G rec) ps sts = .done L →
      ∀ p ∈ ps, ∀ q, Sym.rule q ∈ G.rhs p → ∃ L', rec q = .done L' := by
  intro ps
  induction ps with
  | nil => intro _ _ _ p hp; cases hp
  | cons p0 ps ih =>
    intro sts L h p hp q hq
    simp only [iterO] at h
    cases hm : mssProd G rec sts p0 with
    | panic => rw [hm] at h; cases h
    | fuelOut => rw [hm] at h; cases h
    | done s' =>
      rw [hm] at h
      rcases List.mem_cons.mp hp with rfl | hp
      · exact mssProd_inv G rec sts s' p hm q hq
      · exact ih _ _ h p hp q hq

theorem iterO_mssProd_no_panic (G : Grammar) (rec : Nat → Outcome (List (List Nat))) :
    ∀ (ps : List Nat) (sts : List (List Nat)), (∀ p ∈ ps, ∀ q, Sym.rule q ∈ G.rhs p → GoodRec rec q) →
      iterO (mssProd G rec) ps sts ≠ .panic := by
  intro ps
  induction ps with
  | nil => intro sts _ h; cases h
  | cons p ps ih =>
    intro sts h
    simp only [iterO]
    cases hm : mssProd G rec sts p with
    | panic => exact absurd hm (mssProd_no_panic G rec sts p (h p (by simp)))
    | fuelOut => intro e; cases e
    | done s' => exact ih _ (fun p' hp' => h p' (List.mem_cons_of_mem _ hp'))

/-! ### the combinations of a production: sentences of the production -/

theorem combos_ne_nil : ∀ ms : List (List (List Nat)), (∀ x ∈ ms, x ≠ []) → combos ms ≠ []
  | [], _ => by simp [combos]
  | l :: ms, h => by
    have ih := combos_ne_nil ms (fun x hx => h x (List.mem_cons_of_mem _ hx))
    have hl := h l (by simp)
    cases l with
    | nil => exact absurd rfl hl
    | cons a l' =>
      cases hc : combos ms with
      | nil => exact absurd hc ih
      | cons c cs => simp [combos, hc]

theorem mem_combos_cons {l : List (List Nat)} {ms : List (List (List Nat))} {w : List Nat} :
    w ∈ combos (l :: ms) ↔ ∃ s ∈ l, ∃ w' ∈ combos ms, w = s ++ w' := by
  simp only [combos, List.mem_flatMap, List.mem_map]
  constructor
  · rintro ⟨s, hs, w', hw', e⟩; exact ⟨s, hs, w', hw', e.symm⟩
  · rintro ⟨s, hs, w', hw', e⟩; exact ⟨s, hs, w', hw', e.symm⟩

/-- every combination is a sentence of the production, with the cost of the production -/
theorem combos_sound (G : Grammar) (tc : Nat → Nat) (c : Nat → Option Nat) (f : Nat → List (List Nat)) :
    ∀ (l : List Sym) (v : Nat), seqCost tc c l = some v →
      (∀ q, Sym.rule q ∈ l → ∀ x', c q = some x' → ∀ w ∈ f q, Derives G (.rule q) w ∧ cost tc w = x') →
      ∀ w ∈ combos (gatherP f l), DerivesSeq G l w ∧ cost tc w = v := by
  intro l
  induction l with
  | nil =>
    intro v hv _ w hw
    simp only [gatherP, combos, List.mem_singleton] at hw
    subst hw
    simp only [seqCost, Option.some.injEq] at hv
    exact ⟨.nil, by simp [cost, ← hv]⟩
  | cons s rest ih =>
    intro v hv h w hw
    simp only [seqCost] at hv
    cases h1 : symCost tc c s with
    | none => simp [h1, addO] at hv
    | some a =>
      cases h2 : seqCost tc c rest with
      | none => simp [h1, h2, addO] at hv
      | some b =>
        simp only [h1, h2, addO, Option.some.injEq] at hv
        have ih' := ih b h2 (fun q hq => h q (List.mem_cons_of_mem _ hq))
        cases s with
        | tok t =>
          simp only [gatherP] at hw
          obtain ⟨s', hs', w', hw', e⟩ := mem_combos_cons.mp hw
          simp only [List.mem_singleton] at hs'
          subst hs' e
          obtain ⟨hd, hc⟩ := ih' w' hw'
          simp only [symCost, Option.some.injEq] at h1
          refine ⟨.cons _ _ [t] w' (.tok t) hd, ?_⟩
          rw [cost_append, hc]; simp [cost]; omega
        | rule q =>
          simp only [gatherP] at hw
          obtain ⟨s', hs', w', hw', e⟩ := mem_combos_cons.mp hw
          subst e
          obtain ⟨hd, hc⟩ := ih' w' hw'
          simp only [symCost] at h1
          obtain ⟨hd1, hc1⟩ := h q (by simp) a h1 s' hs'
          refine ⟨.cons _ _ s' w' hd1 hd, ?_⟩
          rw [cost_append, hc, hc1]; omega

/-- every sentence of the production that costs what the production costs is a combination -/
theorem combos_complete (G : Grammar) (hwf : G.wf = true) (tc : Nat → Nat) (c : Nat → Option Nat)
    (hfix : ∀ r, r < G.nrules → c r = ruleCost G tc c r) (f : Nat → List (List Nat)) :
    ∀ (l : List Sym) (w : List Nat) (v : Nat), DerivesSeq G l w → (∀ s ∈ l, G.symOk s = true) →
      seqCost tc c l = some v → cost tc w = v →
      (∀ q, Sym.rule q ∈ l → ∀ x', c q = some x' → ∀ w', Derives G (.rule q) w' → cost tc w' = x' → w' ∈ f q) →
      w ∈ combos (gatherP f l) := by
  intro l
  induction l with
  | nil =>
    intro w v hd _ _ _ _
    cases hd
    simp [gatherP, combos]
  | cons s rest ih =>
    intro w v hd hok hv hcost h
    cases hd with
    | cons _ _ w1 w2 hd1 hd2 =>
      have hok' : ∀ s ∈ rest, G.symOk s = true := fun x hx => hok x (List.mem_cons_of_mem _ hx)
      obtain ⟨v1, hv1, hle1⟩ := derives_lower hfix hwf hd1 (hok s (by simp))
      obtain ⟨v2, hv2, hle2⟩ := derivesSeq_lower hfix hwf hd2 hok'
      simp only [seqCost, hv1, hv2, addO, Option.some.injEq] at hv
      rw [cost_append] at hcost
      have hc1 : cost tc w1 = v1 := by omega
      have hc2 : cost tc w2 = v2 := by omega
      have ih' := ih w2 v2 hd2 hok' hv2 hc2 (fun q hq => h q (List.mem_cons_of_mem _ hq))
      cases s with
      | tok t =>
        cases hd1
        simp only [gatherP]
        exact mem_combos_cons.mpr ⟨[t], by simp, w2, ih', rfl⟩
      | rule q =>
        simp only [gatherP]
        simp only [symCost] at hv1
        exact mem_combos_cons.mpr ⟨w1, h q (by simp) v1 hv1 w1 hd1 hc1, w2, ih', rfl⟩

/-! ### soundness and completeness of `min_sentences` -/

/-- what is known about the rules of a cheapest production -/
theorem cheap_rules (G : Grammar) (hwf : G.wf = true) (tc : List Nat) (m : List (Option Nat)) {q x p : Nat}
    (hp : p ∈ cheapSet G tc m q x) (hlt : x < U16MAX) :
    p < G.nprods ∧ G.lhs p = q ∧ seqCost (tcF tc) (look m) (G.rhs p) = some x ∧
    ∀ q', Sym.rule q' ∈ G.rhs p → q' < G.nrules ∧ ∃ x', look m q' = some x' ∧ x' < U16MAX := by
  obtain ⟨hpm, hpc⟩ := mem_cheapSet.mp hp
  obtain ⟨hp1, hp2⟩ := mem_prodsOf.mp hpm
  refine ⟨hp1, hp2, hpc, ?_⟩
  intro q' hq'
  obtain ⟨x', hx', hle'⟩ := seqCost_mem _ x hpc q' hq'
  exact ⟨by simpa [Grammar.symOk] using wf_sym hwf hp1 hq', x', hx', by omega⟩

/-- **what `min_sentences` returns is sound**: the model never panics, and if the recursion ends the vector
is not empty and each of its sentences is derived by the rule and costs the rule's minimal cost -/
theorem minSentencesWith_sound (G : Grammar) (hwf : G.wf = true) (tc : List Nat) (m : List (Option Nat))
    (htc : tc.length = G.ntoks) (hmt : MinTable G (tcF tc) m) :
    ∀ (fuel : Nat) (r x : Nat), r < G.nrules → look m r = some x → x < U16MAX →
      Outcome.Sat (fun L => L ≠ [] ∧ ∀ w ∈ L, Derives G (.rule r) w ∧ cost (tcF tc) w = x)
        (minSentencesWith G tc (some (concr m)) fuel r) := by
  intro fuel
  induction fuel with
  | zero => intro r x _ _ _; simp [minSentencesWith, Outcome.Sat]
  | succ n ih =>
    intro r x hr hx hlt
    simp only [minSentencesWith, cheapestProds_spec G hwf tc m htc hmt hr hx hlt]
    -- the recursive calls are good
    have hgood : ∀ p ∈ cheapSet G tc m r x, ∀ q, Sym.rule q ∈ G.rhs p →
        GoodRec (minSentencesWith G tc (some (concr m)) n) q := by
      intro p hp q hq
      obtain ⟨_, _, _, hall⟩ := cheap_rules G hwf tc m hp hlt
      obtain ⟨hq1, x', hx', hlt'⟩ := hall q hq
      have := ih q x' hq1 hx' hlt'
      constructor
      · intro e; rw [e] at this; exact this
      · intro L e; rw [e] at this; exact this.1
    cases hres : iterO (mssProd G (minSentencesWith G tc (some (concr m)) n)) (cheapSet G tc m r x) [] with
    | panic => exact absurd hres (iterO_mssProd_no_panic G _ _ _ hgood)
    | fuelOut => trivial
    | done L =>
      have hinv := iterO_mssProd_inv G _ _ _ _ hres
      have hdone := iterO_mssProd_done G (minSentencesWith G tc (some (concr m)) n) (cheapSet G tc m r x) []
        (fun p hp q hq => by
          obtain ⟨L', hL'⟩ := hinv p hp q hq
          exact ⟨L', hL', (hgood p hp q hq).2 L' hL'⟩)
      rw [hres] at hdone
      simp only [Outcome.done.injEq, List.nil_append] at hdone
      subst hdone
      -- what a production contributes
      have hprod : ∀ p ∈ cheapSet G tc m r x,
          prodSents G (fun q => (minSentencesWith G tc (some (concr m)) n q).val []) p ≠ [] ∧
          ∀ w ∈ prodSents G (fun q => (minSentencesWith G tc (some (concr m)) n q).val []) p,
            Derives G (.rule r) w ∧ cost (tcF tc) w = x := by
        intro p hp
        obtain ⟨hp1, hp2, hpc, hall⟩ := cheap_rules G hwf tc m hp hlt
        constructor
        · apply combos_ne_nil
          apply gatherP_ne_nil
          intro q hq
          obtain ⟨L', hL'⟩ := hinv p hp q hq
          simp only [hL', Outcome.val]
          exact (hgood p hp q hq).2 L' hL'
        · intro w hw
          have := combos_sound G (tcF tc) (look m) _ (G.rhs p) x hpc (by
            intro q hq x' hx' w' hw'
            obtain ⟨L', hL'⟩ := hinv p hp q hq
            simp only [hL', Outcome.val] at hw'
            obtain ⟨hq1, x'', hx'', hlt''⟩ := hall q hq
            rw [hx'] at hx''
            simp only [Option.some.injEq] at hx''
            subst hx''
            have := ih q x' hq1 hx' hlt''
            rw [hL'] at this
            exact this.2 w' hw') w hw
          refine ⟨?_, this.2⟩
          rw [← hp2]
          exact .rule p w hp1 this.1
      constructor
      · obtain ⟨pt, hpt⟩ := List.exists_mem_of_ne_nil _ (cheapSet_ne_nil G tc m hmt hr hx)
        obtain ⟨w0, hw0⟩ := List.exists_mem_of_ne_nil _ (hprod pt hpt).1
        intro e
        have : w0 ∈ (cheapSet G tc m r x).flatMap
            (prodSents G (fun q => (minSentencesWith G tc (some (concr m)) n q).val [])) :=
          List.mem_flatMap.mpr ⟨pt, hpt, hw0⟩
        rw [e] at this
        cases this
      · intro w hw
        obtain ⟨p, hp, hwp⟩ := List.mem_flatMap.mp hw
        exact (hprod p hp).2 w hwp

/-- **`min_sentences` is complete**: if the recursion ends, every sentence the rule derives at its minimal
cost is in the vector -/
theorem minSentencesWith_complete (G : Grammar) (hwf : G.wf = true) (tc : List Nat) (m : List (Option Nat))
    (htc : tc.length = G.ntoks) (hmt : MinTable G (tcF tc) m) :
    ∀ (fuel : Nat) (r x : Nat), r < G.nrules → look m r = some x → x < U16MAX →
      ∀ L, minSentencesWith G tc (some (concr m)) fuel r = .done L →
        ∀ w, Derives G (.rule r) w → cost (tcF tc) w = x → w ∈ L := by
  intro fuel
  induction fuel with
  | zero => intro r x _ _ _ L h; simp [minSentencesWith] at h
  | succ n ih =>
    intro r x hr hx hlt L hres w hw hcw
    simp only [minSentencesWith, cheapestProds_spec G hwf tc m htc hmt hr hx hlt] at hres
    have hinv := iterO_mssProd_inv G _ _ _ _ hres
    have hdone := iterO_mssProd_done G (minSentencesWith G tc (some (concr m)) n) (cheapSet G tc m r x) []
      (fun p hp q hq => by
        obtain ⟨L', hL'⟩ := hinv p hp q hq
        obtain ⟨_, _, _, hall⟩ := cheap_rules G hwf tc m hp hlt
        obtain ⟨hq1, x', hx', hlt'⟩ := hall q hq
        have := minSentencesWith_sound G hwf tc m htc hmt n q x' hq1 hx' hlt'
        rw [hL'] at this
        exact ⟨L', hL', this.1⟩)
    rw [hres] at hdone
    simp only [Outcome.done.injEq, List.nil_append] at hdone
    subst hdone
    -- the production at the root of the derivation is a cheapest one
    generalize hs : Sym.rule r = s at hw
    cases hw with
    | tok t => cases hs
    | rule p w hp hseq =>
      simp only [Sym.rule.injEq] at hs
      have hok : ∀ s ∈ G.rhs p, G.symOk s = true := fun s hs => wf_sym hwf hp hs
      obtain ⟨v, hv, hle⟩ := derivesSeq_lower hmt.fix hwf hseq hok
      have hpm : p ∈ G.prodsOf r := mem_prodsOf.mpr ⟨hp, hs.symm⟩
      have hge := ruleCost_le (G := G) (tc := tcF tc) (c := look m) hpm
      rw [← hmt.fix r hr, hx, hv] at hge
      simp only [leO] at hge
      have hvx : v = x := by omega
      subst hvx
      have hpc : p ∈ cheapSet G tc m r v := mem_cheapSet.mpr ⟨hpm, hv⟩
      obtain ⟨_, _, _, hall⟩ := cheap_rules G hwf tc m hpc hlt
      refine List.mem_flatMap.mpr ⟨p, hpc, ?_⟩
      apply combos_complete G hwf (tcF tc) (look m) hmt.fix _ (G.rhs p) w v hseq hok hv hcw
      intro q hq x' hx' w' hw' hcw'
      obtain ⟨L', hL'⟩ := hinv p hpc q hq
      obtain ⟨hq1, x'', hx'', hlt''⟩ := hall q hq
      rw [hx'] at hx''
      simp only [Option.some.injEq] at hx''
      subst hx''
      simp only [hL', Outcome.val]
      exact ih q x' hq1 hx' hlt'' L' hL' w' hw' hcw'

/-! ### sentences of minimal cost = sentences derived through cheapest productions only -/

mutual
/-- `s` derives `w` by a derivation that expands every rule by one of its cheapest productions (a
production whose cost, every rule at its minimal cost `c`, is the minimal cost of its rule) -/
inductive TightDerives (G : Grammar) (tc : Nat → Nat) (c : Nat → Option Nat) : Sym → List Nat → Prop
  | tok (t : Nat) : TightDerives G tc c (.tok t) [t]
  | rule (p : Nat) (w : List Nat) (x : Nat) : p < G.nprods → c (G.lhs p) = some x →
      seqCost tc c (G.rhs p) = some x → TightDerivesSeq G tc c (G.rhs p) w →
      TightDerives G tc c (.rule (G.lhs p)) w
inductive TightDerivesSeq (G : Grammar) (tc : Nat → Nat) (c : Nat → Option Nat) : List Sym → List Nat → Prop
  | nil : TightDerivesSeq G tc c [] []
  | cons (s : Sym) (rest : List Sym) (w1 w2 : List Nat) :
      TightDerives G tc c s w1 → TightDerivesSeq G tc c rest w2 → TightDerivesSeq G tc c (s :: rest) (w1 ++ w2)
end

mutual
theorem tightDerives_sound {G : Grammar} {tc : Nat → Nat} {c : Nat → Option Nat} :
    ∀ {s : Sym} {w : List Nat}, TightDerives G tc c s w → Derives G s w ∧ symCost tc c s = some (cost tc w)
  | _, _, .tok t => ⟨.tok t, by simp [symCost, cost]⟩
  | _, _, .rule p w x hp hx hsc hseq => by
    obtain ⟨hd, hc⟩ := tightDerivesSeq_sound hseq
    rw [hsc] at hc
    exact ⟨.rule p w hp hd, by simp only [symCost]; rw [hx, hc]⟩
theorem tightDerivesSeq_sound {G : Grammar} {tc : Nat → Nat} {c : Nat → Option Nat} :
    ∀ {l : List Sym} {w : List Nat}, TightDerivesSeq G tc c l w →
      DerivesSeq G l w ∧ seqCost tc c l = some (cost tc w)
  | _, _, .nil => ⟨.nil, by simp [seqCost, cost]⟩
  | _, _, .cons s rest w1 w2 h1 h2 => by
    obtain ⟨hd1, hc1⟩ := tightDerives_sound h1
    obtain ⟨hd2, hc2⟩ := tightDerivesSeq_sound h2
    exact ⟨.cons s rest w1 w2 hd1 hd2, by simp [seqCost, hc1, hc2, addO, cost_append]⟩
end

mutual
theorem tightDerives_of_min {G : Grammar} {tc : Nat → Nat} {c : Nat → Option Nat}
    (hfix : ∀ r, r < G.nrules → c r = ruleCost G tc c r) (hwf : G.wf = true) :
    ∀ {s : Sym} {w : List Nat}, Derives G s w → G.symOk s = true → symCost tc c s = some (cost tc w) →
      TightDerives G tc c s w
  | _, _, .tok t, _, _ => .tok t
  | _, _, .rule p w hp hseq, _, hc => by
    have hok : ∀ s ∈ G.rhs p, G.symOk s = true := fun s hs => wf_sym hwf hp hs
    obtain ⟨v, hv, hle⟩ := derivesSeq_lower hfix hwf hseq hok
    have hr := wf_lhs hwf hp
    have hge := ruleCost_le (G := G) (tc := tc) (c := c) (mem_prodsOf.mpr ⟨hp, rfl⟩)
    simp only [symCost] at hc
    rw [← hfix _ hr, hc, hv] at hge
    simp only [leO] at hge
    have hvx : v = cost tc w := by omega
    subst hvx
    exact .rule p w _ hp hc hv (tightDerivesSeq_of_min hfix hwf hseq hok hv)
theorem tightDerivesSeq_of_min {G : Grammar} {tc : Nat → Nat} {c : Nat → Option Nat}
    (hfix : ∀ r, r < G.nrules → c r = ruleCost G tc c r) (hwf : G.wf = true) :
    ∀ {l : List Sym} {w : List Nat}, DerivesSeq G l w → (∀ s ∈ l, G.symOk s = true) →
      seqCost tc c l = some (cost tc w) → TightDerivesSeq G tc c l w
  | _, _, .nil, _, _ => .nil
  | _, _, .cons s rest w1 w2 h1 h2, hok, hc => by
    have hok' : ∀ x ∈ rest, G.symOk x = true := fun x hx => hok x (List.mem_cons_of_mem _ hx)
    obtain ⟨v1, hv1, hle1⟩ := derives_lower hfix hwf h1 (hok s (by simp))
    obtain ⟨v2, hv2, hle2⟩ := derivesSeq_lower hfix hwf h2 hok'
    simp only [seqCost, hv1, hv2, addO, Option.some.injEq, cost_append] at hc
    have e1 : v1 = cost tc w1 := by omega
    have e2 : v2 = cost tc w2 := by omega
    subst e1 e2
    exact .cons s rest w1 w2 (tightDerives_of_min hfix hwf h1 (hok s (by simp)) hv1)
      (tightDerivesSeq_of_min hfix hwf h2 hok' hv2)
end

end GrmVerif.Impl
