import GrmVerif.Lemmas.ImplLoop
import GrmVerif.Lemmas.Analyses2
import GrmVerif.Lemmas.Total
/-! The model of `YaccFirsts::new` (`Impl.firstsNew`): invariant (dimensions + soundness), the `Step`
property of every loop level, what a round without change implies, and exactness of the result. -/
namespace GrmVerif.Impl
open GrmVerif Spec Ref

/-- the bits of a `YaccFirsts` -/
inductive FBit where
  | first (r t : Nat)
  | eps (r : Nat)

def fbit (st : Firsts) : FBit → Bool
  | .first r t => mget st.firsts r t
  | .eps r => vget st.epsilons r

def funiv (G : Grammar) : List FBit :=
  (pairs G.nrules G.ntoks).map (fun x => FBit.first x.1 x.2) ++ (List.range G.nrules).map FBit.eps

theorem funiv_length (G : Grammar) : (funiv G).length = G.nrules * (G.ntoks + 1) := by
  simp [funiv, Total.pairs_length, Nat.mul_add]

theorem first_mem_funiv {G : Grammar} {r t : Nat} (hr : r < G.nrules) (ht : t < G.ntoks) :
    FBit.first r t ∈ funiv G := by
  simp only [funiv, List.mem_append, List.mem_map]
  exact Or.inl ⟨(r, t), mem_pairs.mpr ⟨hr, ht⟩, rfl⟩

theorem eps_mem_funiv {G : Grammar} {r : Nat} (hr : r < G.nrules) : FBit.eps r ∈ funiv G := by
  simp only [funiv, List.mem_append, List.mem_map, List.mem_range]
  exact Or.inr ⟨r, hr, rfl⟩

/-- invariant of the loop: table dimensions, and every set bit is justified -/
structure FInv (G : Grammar) (st : Firsts) : Prop where
  dims : MDims G.nrules G.ntoks st.firsts
  elen : st.epsilons.length = G.nrules
  sndF : ∀ r t, mget st.firsts r t = true → FirstP G r t
  sndE : ∀ r, vget st.epsilons r = true → NullableR G r

abbrev FStep (G : Grammar) (a b : FS) : Prop := Step fbit (funiv G) (FInv G) a b

theorem FStep.rfl' {G : Grammar} {s : FS} (h : FInv G s.1) : FStep G s s := Step.refl _ _ _ s h

/-! ### the two bit setters -/

theorem setTok_step (G : Grammar) {ridx t : Nat} (hr : ridx < G.nrules) (ht : t < G.ntoks)
    (hf : FirstP G ridx t) (s : FS) (hI : FInv G s.1) : FStep G s (setTok ridx t s) := by
  unfold setTok
  split
  · exact FStep.rfl' hI
  · next h0 =>
    have h0' : mget s.1.firsts ridx t = false := by simpa using h0
    obtain ⟨st, ch⟩ := s
    refine Step.of_set fbit (funiv G) (FInv G) ch (.first ridx t) (first_mem_funiv hr ht) ?_ h0' ?_ ?_
    · refine ⟨mdims_mset hI.dims _ _, hI.elen, ?_, hI.sndE⟩
      intro r' t' h
      simp only at h
      rw [mget_mset hI.dims hr ht] at h
      simp only [Bool.or_eq_true, decide_eq_true_eq] at h
      rcases h with ⟨rfl, rfl⟩ | h
      · exact hf
      · exact hI.sndF _ _ h
    · simp only [fbit]; rw [mget_mset hI.dims hr ht]; simp
    · intro i hi
      cases i with
      | first r' t' => exact mget_mset_mono _ _ _ _ _ hi
      | eps r' => exact hi

theorem setTok_closed (ridx t : Nat) (s : FS) (h : (setTok ridx t s).2 = false) :
    s.2 = false ∧ (setTok ridx t s).1 = s.1 ∧ mget s.1.firsts ridx t = true := by
  unfold setTok at h ⊢
  split
  · next h1 => rw [if_pos h1] at h; exact ⟨h, rfl, h1⟩
  · next h1 => rw [if_neg h1] at h; cases h

theorem setEps_step (G : Grammar) {ridx : Nat} (hr : ridx < G.nrules) (hn : NullableR G ridx)
    (s : FS) (hI : FInv G s.1) : FStep G s (setEps ridx s) := by
  unfold setEps
  split
  · exact FStep.rfl' hI
  · next h0 =>
    have h0' : vget s.1.epsilons ridx = false := by simpa using h0
    obtain ⟨st, ch⟩ := s
    have hlen : ridx < st.epsilons.length := by rw [hI.elen]; exact hr
    refine Step.of_set fbit (funiv G) (FInv G) ch (.eps ridx) (eps_mem_funiv hr) ?_ h0' ?_ ?_
    · refine ⟨hI.dims, ?_, hI.sndF, ?_⟩
      · simp [vset, hI.elen]
      · intro r' h
        simp only at h
        rw [vget_vset _ _ _ hlen] at h
        simp only [Bool.or_eq_true, decide_eq_true_eq] at h
        rcases h with rfl | h
        · exact hn
        · exact hI.sndE _ h
    · simp only [fbit]; rw [vget_vset _ _ _ hlen]; simp
    · intro i hi
      cases i with
      | first r' t' => exact hi
      | eps r' => exact vget_vset_mono _ _ _ hi

theorem setEps_closed (ridx : Nat) (s : FS) (h : (setEps ridx s).2 = false) :
    s.2 = false ∧ (setEps ridx s).1 = s.1 ∧ vget s.1.epsilons ridx = true := by
  unfold setEps at h ⊢
  split
  · next h1 => rw [if_pos h1] at h; exact ⟨h, rfl, h1⟩
  · next h1 => rw [if_neg h1] at h; cases h

/-! ### union of the FIRST row of a rule symbol -/

theorem unionTok_step (G : Grammar) {ridx q t : Nat} (hr : ridx < G.nrules) (ht : t < G.ntoks)
    (hq : FirstP G q t → FirstP G ridx t) (s : FS) (hI : FInv G s.1) : FStep G s (unionTok ridx q s t) := by
  unfold unionTok
  split
  · next h => exact setTok_step G hr ht (hq (hI.sndF _ _ h)) s hI
  · exact FStep.rfl' hI

theorem unionTok_closed (ridx q t : Nat) (s : FS) (h : (unionTok ridx q s t).2 = false) :
    s.2 = false ∧ (unionTok ridx q s t).1 = s.1 ∧
      (mget s.1.firsts q t = true → mget s.1.firsts ridx t = true) := by
  unfold unionTok at h ⊢
  split
  · next h1 =>
    rw [if_pos h1] at h
    obtain ⟨a, b, c⟩ := setTok_closed ridx t s h
    exact ⟨a, b, fun _ => c⟩
  · next h1 => rw [if_neg h1] at h; exact ⟨h, rfl, fun h2 => absurd h2 h1⟩

theorem unionRow_step (G : Grammar) {ridx q : Nat} (hr : ridx < G.nrules)
    (hq : ∀ t, FirstP G q t → FirstP G ridx t) (s : FS) (hI : FInv G s.1) :
    FStep G s (unionRow G ridx q s) := by
  unfold unionRow
  apply foldl_step fbit (funiv G) (FInv G) (unionTok ridx q) (fun t => t < G.ntoks)
  · intro t s ht hI; exact unionTok_step G hr ht (hq t) s hI
  · intro t ht; simpa using ht
  · exact hI

theorem unionRow_closed (G : Grammar) (ridx q : Nat) (s : FS) (h : (unionRow G ridx q s).2 = false) :
    s.2 = false ∧ (unionRow G ridx q s).1 = s.1 ∧
      ∀ t, t < G.ntoks → mget s.1.firsts q t = true → mget s.1.firsts ridx t = true := by
  unfold unionRow at h ⊢
  obtain ⟨a, b, c⟩ := foldl_closed (unionTok ridx q)
    (fun t (st : Firsts) => mget st.firsts q t = true → mget st.firsts ridx t = true)
    (fun t s h => unionTok_closed ridx q t s h) (List.range G.ntoks) s h
  exact ⟨a, b, fun t ht => c t (by simpa using ht)⟩

theorem epsLast_step (G : Grammar) {ridx q : Nat} {last : Bool} (hr : ridx < G.nrules)
    (hn : NullableR G q → last = true → NullableR G ridx) (s : FS) (hI : FInv G s.1) :
    FStep G s (epsLast ridx q last s) := by
  unfold epsLast
  split
  · next h =>
    simp only [Bool.and_eq_true] at h
    exact setEps_step G hr (hn (hI.sndE _ h.1) h.2) s hI
  · exact FStep.rfl' hI

theorem epsLast_closed (ridx q : Nat) (last : Bool) (s : FS) (h : (epsLast ridx q last s).2 = false) :
    s.2 = false ∧ (epsLast ridx q last s).1 = s.1 ∧
      (vget s.1.epsilons q = true → last = true → vget s.1.epsilons ridx = true) := by
  unfold epsLast at h ⊢
  split
  · next h1 =>
    rw [if_pos h1] at h
    obtain ⟨a, b, c⟩ := setEps_closed ridx s h
    exact ⟨a, b, fun _ _ => c⟩
  · next h1 =>
    rw [if_neg h1] at h
    refine ⟨h, rfl, fun h2 h3 => ?_⟩
    simp [h2, h3] at h1

/-! ### the symbols of one production -/

theorem nullableSeq_snoc {G : Grammar} {q : Nat} (hq : NullableR G q) :
    ∀ α : List Sym, NullableSeq G α → NullableSeq G (α ++ [.rule q]) := by
  intro α
  induction α with
  | nil => intro _; exact .cons q [] hq .nil
  | cons x xs ih =>
    intro h
    obtain ⟨⟨r, rfl, hr⟩, hrest⟩ := nullableSeq_head h
    exact .cons r _ hr (ih hrest)

theorem firstSyms_step (G : Grammar) {p : Nat} (hp : p < G.nprods) (hlhs : G.lhs p < G.nrules) :
    ∀ (rest α : List Sym) (s : FS), G.rhs p = α ++ rest → NullableSeq G α →
      (∀ x ∈ rest, G.symOk x = true) → FInv G s.1 →
      ∃ s', firstSyms G (G.lhs p) rest s = some s' ∧ FStep G s s' := by
  intro rest
  induction rest with
  | nil => intro α s _ _ _ hI; exact ⟨s, rfl, FStep.rfl' hI⟩
  | cons x rest ih =>
    intro α s hrhs hα hok hI
    cases x with
    | tok t =>
      have ht : t < G.ntoks := by simpa [Grammar.symOk] using hok (.tok t) (by simp)
      refine ⟨setTok (G.lhs p) t s, by simp [firstSyms, ht], ?_⟩
      exact setTok_step G hlhs ht (.tok p α t rest hp hrhs hα) s hI
    | rule q =>
      have hq : q < G.nrules := by simpa [Grammar.symOk] using hok (.rule q) (by simp)
      have st1 : FStep G s (unionRow G (G.lhs p) q s) :=
        unionRow_step G hlhs (fun t hf => .rule p α q rest t hp hrhs hα hf) s hI
      have st2 : FStep G (unionRow G (G.lhs p) q s)
          (epsLast (G.lhs p) q rest.isEmpty (unionRow G (G.lhs p) q s)) := by
        apply epsLast_step G hlhs _ _ st1.inv
        intro hnq hlast
        have hnil : rest = [] := by simpa using hlast
        subst hnil
        have := NullableR.mk p hp (by rw [hrhs]; exact nullableSeq_snoc hnq α hα)
        exact this
      have st12 := st1.trans _ _ _ st2
      simp only [firstSyms, hq, if_true]
      split
      · next he =>
        have hnq : NullableR G q := st2.inv.sndE q he
        obtain ⟨s', h1, h2⟩ := ih (α ++ [.rule q]) _ (by rw [hrhs]; simp) (nullableSeq_snoc hnq α hα)
          (fun x hx => hok x (by simp [hx])) st2.inv
        exact ⟨s', h1, st12.trans _ _ _ h2⟩
      · exact ⟨_, rfl, st12⟩

/-- what a pass over the symbols `l` of a production of `ridx` that changes nothing has checked -/
def SymsClosed (G : Grammar) (st : Firsts) (ridx : Nat) : List Sym → Prop
  | [] => True
  | .tok t :: _ => mget st.firsts ridx t = true
  | .rule q :: rest =>
    (∀ t, t < G.ntoks → mget st.firsts q t = true → mget st.firsts ridx t = true) ∧
    (vget st.epsilons q = true → rest = [] → vget st.epsilons ridx = true) ∧
    (vget st.epsilons q = true → SymsClosed G st ridx rest)

theorem firstSyms_closed (G : Grammar) (ridx : Nat) :
    ∀ (rest : List Sym) (s s' : FS), firstSyms G ridx rest s = some s' → s'.2 = false →
      s.2 = false ∧ s'.1 = s.1 ∧ SymsClosed G s.1 ridx rest := by
  intro rest
  induction rest with
  | nil =>
    intro s s' h hc
    simp only [firstSyms, Option.some.injEq] at h
    subst h; exact ⟨hc, rfl, trivial⟩
  | cons x rest ih =>
    intro s s' h hc
    cases x with
    | tok t =>
      simp only [firstSyms] at h
      split at h
      · simp only [Option.some.injEq] at h
        subst h
        obtain ⟨a, b, c⟩ := setTok_closed ridx t s hc
        exact ⟨a, b, c⟩
      · cases h
    | rule q =>
      simp only [firstSyms] at h
      split at h
      · have key : ∀ s2 : FS, s2 = epsLast ridx q rest.isEmpty (unionRow G ridx q s) → s2.2 = false →
            s.2 = false ∧ s2.1 = s.1 ∧
            (∀ t, t < G.ntoks → mget s.1.firsts q t = true → mget s.1.firsts ridx t = true) ∧
            (vget s.1.epsilons q = true → rest = [] → vget s.1.epsilons ridx = true) := by
          intro s2 hs2 hc2
          subst hs2
          obtain ⟨a2, b2, c2⟩ := epsLast_closed ridx q rest.isEmpty _ hc2
          obtain ⟨a1, b1, c1⟩ := unionRow_closed G ridx q s a2
          refine ⟨a1, b2.trans b1, c1, ?_⟩
          intro he hnil
          rw [← b1]
          apply c2 (by rw [b1]; exact he)
          simp [hnil]
        split at h
        · next he =>
          obtain ⟨a3, b3, c3⟩ := ih _ s' h hc
          obtain ⟨a, b, c, d⟩ := key _ rfl a3
          refine ⟨a, b3.trans b, c, d, ?_⟩
          intro _
          rw [← b]; exact c3
        · next he =>
          simp only [Option.some.injEq] at h
          subst h
          obtain ⟨a, b, c, d⟩ := key _ rfl hc
          refine ⟨a, b, c, d, ?_⟩
          intro he'
          rw [← b] at he'
          exact absurd he' he
      · cases h

/-- the closure conditions in the vocabulary of the reference (`firstSeq`, `seqNullable`) -/
theorem symsClosed_spec (G : Grammar) (st : Firsts) (ridx : Nat) :
    ∀ l : List Sym, SymsClosed G st ridx l →
      (∀ t, t < G.ntoks → firstSeq (fun r => vget st.epsilons r) (fun x => mget st.firsts x.1 x.2) l t = true →
        mget st.firsts ridx t = true) ∧
      (l ≠ [] → seqNullable (fun r => vget st.epsilons r) l = true → vget st.epsilons ridx = true) := by
  intro l
  induction l with
  | nil => intro _; simp [firstSeq]
  | cons x rest ih =>
    intro h
    cases x with
    | tok a =>
      simp only [SymsClosed] at h
      constructor
      · intro t _ hf
        simp only [firstSeq, beq_iff_eq] at hf
        subst hf; exact h
      · intro _ hn; simp [seqNullable, symNullable] at hn
    | rule q =>
      simp only [SymsClosed] at h
      obtain ⟨h1, h2, h3⟩ := h
      constructor
      · intro t ht hf
        simp only [firstSeq, Bool.or_eq_true, Bool.and_eq_true] at hf
        rcases hf with hf | ⟨he, hf⟩
        · exact h1 t ht hf
        · exact (ih (h3 he)).1 t ht hf
      · intro _ hn
        simp only [seqNullable, List.all_cons, Bool.and_eq_true, symNullable] at hn
        by_cases hnil : rest = []
        · exact h2 hn.1 hnil
        · exact (ih (h3 hn.1)).2 hnil (by simpa [seqNullable] using hn.2)

/-! ### productions, rules, one round -/

/-- what a pass over production `p` that changes nothing has checked -/
def ProdClosed (G : Grammar) (st : Firsts) (p : Nat) : Prop :=
  (G.rhs p = [] → vget st.epsilons (G.lhs p) = true) ∧
  (G.rhs p ≠ [] → SymsClosed G st (G.lhs p) (G.rhs p))

theorem firstProd_step (G : Grammar) (hwf : G.wf = true) {p : Nat} (hp : p < G.nprods) (s : FS)
    (hI : FInv G s.1) : ∃ s', firstProd G (G.lhs p) s p = some s' ∧ FStep G s s' := by
  unfold firstProd
  split
  · next he =>
    have hnil : G.rhs p = [] := by simpa using he
    refine ⟨_, rfl, setEps_step G (wf_lhs hwf hp) ?_ s hI⟩
    exact .mk p hp (by rw [hnil]; exact .nil)
  · exact firstSyms_step G hp (wf_lhs hwf hp) (G.rhs p) [] s rfl .nil (fun x hx => wf_sym hwf hp hx) hI

theorem firstProd_closed (G : Grammar) (p : Nat) (s s' : FS) (h : firstProd G (G.lhs p) s p = some s')
    (hc : s'.2 = false) : s.2 = false ∧ s'.1 = s.1 ∧ ProdClosed G s.1 p := by
  unfold firstProd at h
  split at h
  · next he =>
    have hnil : G.rhs p = [] := by simpa using he
    simp only [Option.some.injEq] at h
    subst h
    obtain ⟨a, b, c⟩ := setEps_closed _ s hc
    exact ⟨a, b, fun _ => c, fun hne => absurd hnil hne⟩
  · next he =>
    have hne : G.rhs p ≠ [] := by simpa using he
    obtain ⟨a, b, c⟩ := firstSyms_closed G _ _ s s' h hc
    exact ⟨a, b, fun hnil => absurd hnil hne, fun _ => c⟩

theorem firstRule_step (G : Grammar) (hwf : G.wf = true) (ridx : Nat) (s : FS) (hI : FInv G s.1) :
    ∃ s', firstRule G s ridx = some s' ∧ FStep G s s' := by
  unfold firstRule
  apply iterM_step fbit (funiv G) (FInv G) (firstProd G ridx) (fun p => p < G.nprods ∧ G.lhs p = ridx)
  · intro p s ⟨hp, hl⟩ hI
    subst hl
    exact firstProd_step G hwf hp s hI
  · intro p hp; exact mem_prodsOf.mp hp
  · exact hI

theorem firstRule_closed (G : Grammar) (ridx : Nat) (s s' : FS) (h : firstRule G s ridx = some s')
    (hc : s'.2 = false) :
    s.2 = false ∧ s'.1 = s.1 ∧ ∀ p, p < G.nprods → G.lhs p = ridx → ProdClosed G s.1 p := by
  unfold firstRule at h
  obtain ⟨a, b, c⟩ := iterM_closed (firstProd G ridx) (fun p st => G.lhs p = ridx → ProdClosed G st p)
    (by
      intro p s s' h hc
      by_cases hl : G.lhs p = ridx
      · subst hl
        obtain ⟨a, b, c⟩ := firstProd_closed G p s s' h hc
        exact ⟨a, b, fun _ => c⟩
      · -- never happens for the productions of `ridx`; still, nothing changed
        unfold firstProd at h
        split at h
        · simp only [Option.some.injEq] at h
          subst h
          obtain ⟨a, b, _⟩ := setEps_closed _ s hc
          exact ⟨a, b, fun e => absurd e hl⟩
        · obtain ⟨a, b, _⟩ := firstSyms_closed G _ _ s s' h hc
          exact ⟨a, b, fun e => absurd e hl⟩)
    (G.prodsOf ridx) s s' h hc
  exact ⟨a, b, fun p hp hl => c p (mem_prodsOf.mpr ⟨hp, hl⟩) hl⟩

theorem firstRound_step (G : Grammar) (hwf : G.wf = true) (st : Firsts) (hI : FInv G st) :
    ∃ r, firstRound G st = some r ∧ FStep G (st, false) r := by
  unfold firstRound
  apply iterM_step fbit (funiv G) (FInv G) (firstRule G) (fun _ => True)
  · intro ridx s _ hI; exact firstRule_step G hwf ridx s hI
  · intro _ _; trivial
  · exact hI

theorem firstRound_closed (G : Grammar) (hwf : G.wf = true) (st : Firsts) (r : FS)
    (h : firstRound G st = some r) (hc : r.2 = false) :
    r.1 = st ∧ ∀ p, p < G.nprods → ProdClosed G st p := by
  unfold firstRound at h
  obtain ⟨_, b, c⟩ := iterM_closed (firstRule G)
    (fun ridx st => ∀ p, p < G.nprods → G.lhs p = ridx → ProdClosed G st p)
    (fun ridx s s' h hc => firstRule_closed G ridx s s' h hc) (List.range G.nrules) (st, false) r h hc
  exact ⟨b, fun p hp => c (G.lhs p) (by simpa using wf_lhs hwf hp) p hp rfl⟩

/-! ### a table closed under every production contains the textbook sets -/

theorem firstP_tok_lt {G : Grammar} (hwf : G.wf = true) {r t : Nat} (h : FirstP G r t) : t < G.ntoks := by
  induction h with
  | tok p α t β hp hrhs _ =>
    have := wf_sym hwf hp (s := .tok t) (by rw [hrhs]; simp)
    simpa [Grammar.symOk] using this
  | rule _ _ _ _ _ _ _ _ _ ih => exact ih

theorem closed_nullable {G : Grammar} {st : Firsts} (hcl : ∀ p, p < G.nprods → ProdClosed G st p)
    {r : Nat} (h : NullableR G r) : vget st.epsilons r = true := by
  apply nullableR_complete (N := fun r => vget st.epsilons r) _ h
  intro p hp hseq
  by_cases hnil : G.rhs p = []
  · exact (hcl p hp).1 hnil
  · exact (symsClosed_spec G st _ _ ((hcl p hp).2 hnil)).2 hnil hseq

theorem closed_first {G : Grammar} (hwf : G.wf = true) {st : Firsts}
    (hcl : ∀ p, p < G.nprods → ProdClosed G st p) {r t : Nat} (h : FirstP G r t) :
    mget st.firsts r t = true := by
  have hN : ∀ r, NullableR G r → (fun r => vget st.epsilons r) r = true := fun r hr => closed_nullable hcl hr
  induction h with
  | tok p α t β hp hrhs hα =>
    have ht : t < G.ntoks := firstP_tok_lt hwf (.tok p α t β hp hrhs hα)
    have hne : G.rhs p ≠ [] := by rw [hrhs]; simp
    apply (symsClosed_spec G st _ _ ((hcl p hp).2 hne)).1 t ht
    rw [hrhs]
    exact firstSeq_complete hN t α (.tok t) β hα (Or.inl rfl)
  | rule p α q β t hp hrhs hα hq ih =>
    have ht : t < G.ntoks := firstP_tok_lt hwf hq
    have hne : G.rhs p ≠ [] := by rw [hrhs]; simp
    apply (symsClosed_spec G st _ _ ((hcl p hp).2 hne)).1 t ht
    rw [hrhs]
    exact firstSeq_complete hN t α (.rule q) β hα (Or.inr ⟨q, rfl, ih⟩)

/-! ### the whole constructor -/

theorem vget_replicate_false (n r : Nat) : vget (List.replicate n false) r = false := by
  unfold vget
  rw [List.getD_eq_getElem?_getD, List.getElem?_replicate]
  split <;> simp

theorem finv_init (G : Grammar) : FInv G (firstsInit G) := by
  refine ⟨mdims_mnew _ _, by simp [firstsInit], ?_, ?_⟩
  · intro r t h; simp [firstsInit, mget_mnew] at h
  · intro r h; simp [firstsInit, vget_replicate_false] at h

/-- `firstsFuel G` rounds suffice, and the result is sound and closed under every production -/
theorem firstsNew_spec (G : Grammar) (hwf : G.wf = true) :
    ∃ st, firstsNew G (firstsFuel G) = .done st ∧ FInv G st ∧ ∀ p, p < G.nprods → ProdClosed G st p := by
  have hmu : mu fbit (funiv G) (firstsInit G) < firstsFuel G := by
    have := mu_le_length fbit (funiv G) (firstsInit G)
    rw [funiv_length] at this
    unfold firstsFuel; omega
  obtain ⟨st, h1, h2, _, h4⟩ := runLoop_spec fbit (funiv G) (FInv G) (firstRound G)
    (fun s hI => firstRound_step G hwf s hI)
    (fun s r h hc => (firstRound_closed G hwf s r h hc).1) (firstsFuel G) (firstsInit G) (finv_init G) hmu
  exact ⟨st, h1, h2, (firstRound_closed G hwf st _ h4 rfl).2⟩

end GrmVerif.Impl
