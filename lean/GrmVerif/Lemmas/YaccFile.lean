import GrmVerif.Lemmas.YaccDecl5
import GrmVerif.Lemmas.YaccFileRender
/-!
C10, text → AST stage: the whole file `declarations %% rules [%% programs]` — the `%grmtools` header
parser finds no header, the three sections are read one after the other, no error is recorded.
-/
namespace GrmVerif.YaccRender
open GrmVerif.YaccParse
open GrmVerif.Header (Res Span byteLen dropBytes slice sliceRange lookahead byteLen_append)

/-! ### the error vector and the global action type are not touched by the rules section -/

theorem stepSym_errs (i : Nat) (s : RTok) (p : PState) (st : St) : (stepSym i s p st).2.errs = st.errs := by
  cases s <;> rfl

theorem runSyms_errs : ∀ (ss : List RTok) (i : Nat) (p : PState) (st : St),
    (runSyms i ss p st).2.2.errs = st.errs := by
  intro ss
  induction ss with
  | nil => intro i p st; rfl
  | cons s ss ih => intro i p st; rw [runSyms, ih, stepSym_errs]

theorem runProd_errs (i : Nat) (pr : RProd) (st : St) : (runProd i pr st).2.2.errs = st.errs := by
  have h1 : ∀ i o p st, (runPrec i o p st).2.2.errs = st.errs := by intro i o p st; cases o <;> rfl
  have h2 : ∀ i o p st, (runAction i o p st).2.2.errs = st.errs := by intro i o p st; cases o <;> rfl
  simp only [runProd, h1, h2, runSyms_errs]

theorem runProds_errs (rn : Name) : ∀ (more : List RProd) (pr : RProd) (i : Nat) (st : St),
    (runProds rn i pr more st).2.errs = st.errs := by
  intro more
  induction more with
  | nil => intro pr i st; exact runProd_errs i pr st
  | cons q qs ih => intro pr i st; rw [runProds, ih]; exact runProd_errs i pr st

theorem runRules_errs (g : Bool) : ∀ (rs : List RRule) (i : Nat) (st : St), (runRules g i rs st).2.errs = st.errs := by
  intro rs
  induction rs with
  | nil => intro i st; rfl
  | cons r rs ih =>
    intro i st
    rw [runRules, ih]
    exact runProds_errs r.name r.more r.first _ _

/-! ### no `%grmtools` header -/

theorem header_none {src : List Char} {fuel : Nat} {c : Char} {t : List Char} (h : src = c :: t)
    (hc : Header.isPWS c = false) (hm : Header.MAGIC.isPrefixOf src = false) :
    Header.parseWith src false fuel = .ok ([], 0) := by
  subst h
  have hm' : ¬ (Header.MAGIC <+: c :: t) := by
    intro hp; rw [← List.isPrefixOf_iff_prefix] at hp; rw [hp] at hm; cases hm
  simp [Header.parseWith, Header.parseWs, Header.slice, Header.dropBytes, Header.lookahead, hc, hm', bind,
    Res.bind, pure, byteLen]

theorem magic_eq : Header.MAGIC = ['%', 'g', 'r', 'm', 't', 'o', 'o', 'l', 's'] := by decide

theorem magic_no {c : Char} (t : List Char) (hc : c ≠ 'g') : Header.MAGIC.isPrefixOf ('%' :: c :: t) = false := by
  rw [magic_eq]
  simp [List.isPrefixOf, Ne.symm hc]

theorem kwOf_head2 (d : RDecl) :
    (kwOf d).toList = '%' :: ((kwOf d).toList.tail.headD ' ') :: (kwOf d).toList.tail.tail ∧
      (kwOf d).toList.tail.headD ' ' ≠ 'g' := by
  cases d with
  | prec a t ts => cases a <;> simp [kwOf, precKw]
  | _ => simp [kwOf]

theorem magic_decls (ds : List RDecl) (x : List Char) :
    ∃ t, renderDecls ds ++ '%' :: '%' :: x = '%' :: t ∧
      Header.MAGIC.isPrefixOf (renderDecls ds ++ '%' :: '%' :: x) = false := by
  cases ds with
  | nil => exact ⟨_, rfl, magic_no _ (by decide)⟩
  | cons d ds =>
    obtain ⟨h1, h2⟩ := kwOf_head2 d
    refine ⟨(kwOf d).toList.tail.headD ' ' :: ((kwOf d).toList.tail.tail ++ (' ' :: bodyOf d ++
      (renderDecls ds ++ '%' :: '%' :: x))), ?_, ?_⟩
    · simp only [renderDecls, renderDecl]; rw [h1]; simp
    · simp only [renderDecls, renderDecl]; rw [h1]
      simp only [List.cons_append]
      exact magic_no _ h2

/-! ### the programs section -/

/-- what follows the rules: nothing, or `%%\n` and a programs text that does not begin with white
space or a comment (`parse_ws` would skip that and not count it as part of the programs) -/
inductive PostOK : List Char → Prop
  | none : PostOK []
  | programs {prog : List Char} : Stops prog → PostOK ('%' :: '%' :: '\n' :: prog)

theorem PostOK.rulesEnd {post : List Char} (h : PostOK post) : RulesEnd post := by
  cases h with
  | none => exact .inl rfl
  | programs _ => exact .inr ⟨_, rfl⟩

theorem parsePrograms_at {src : List Char} {i : Nat} {post : List Char} (st : St) (h : At src i post)
    (hp : PostOK post) :
    parsePrograms src i st = .ok (i + byteLen post,
      match postPrograms post with
      | some n => St.incNl 1 (St.mapAst (fun a => { a with programs := some n }) st)
      | none => st) := by
  cases hp with
  | none =>
    unfold parsePrograms
    change M.Ret _ st _ _
    refine M.Ret.bind (la_at h "%%" st) ?_
    simp [List.isPrefixOf, byteLen, postPrograms]
    exact M.Ret.pure
  | @programs prog hs =>
    have h2 : At src (i + 2) ('\n' :: prog) := (h.adv1 (by decide)).adv1 (by decide)
    have h3 : At src (i + 2 + 1) prog := h2.adv1 (by decide)
    unfold parsePrograms
    change M.Ret _ st _ _
    refine M.Ret.bind (la_yes' (j := i + 2) "%%" (by simpa using h) st
      (by rw [show byteLen "%%".toList = 2 by decide])) ?_
    dsimp only
    refine M.Ret.bind (ws_nl h2 hs st) ?_
    refine M.Ret.bind (liftR_ret h3.slice) ?_
    refine M.Ret.bind (modifyAst_ret _ _) ?_
    simp only [postPrograms]
    rw [show i + byteLen ('%' :: '%' :: '\n' :: prog) = i + 2 + 1 + byteLen prog by
      rw [show ('%' :: '%' :: '\n' :: prog) = ['%', '%', '\n'] ++ prog from rfl, byteLen_append,
        show byteLen ['%', '%', '\n'] = 3 by decide]; omega]
    exact M.Ret.pure

/-! ### the whole file -/

theorem len_decls : ∀ (ds : List RDecl), ds.length ≤ (renderDecls ds).length ∧
    ∀ d ∈ ds, (renderDecl d).length ≤ (renderDecls ds).length := by
  intro ds
  induction ds with
  | nil => simp [renderDecls]
  | cons d ds ih =>
    obtain ⟨h1, h2⟩ := ih
    have hd : 1 ≤ (renderDecl d).length := by simp [renderDecl]; omega
    refine ⟨by simp only [renderDecls, List.length_append, List.length_cons]; omega, ?_⟩
    intro d' hd'
    rcases List.mem_cons.1 hd' with rfl | hd'
    · simp [renderDecls]
    · have := h2 d' hd'
      simp only [renderDecls, List.length_append]; omega

theorem parse_file {kind : Kind} {g : Bool} (hk : kindIs g kind) (ds : List RDecl) (rs : List RRule)
    (post : List Char) (st' : St) (hwd : wfDecls kind ds = true) (hwr : wfRules g rs = true)
    (hp : PostOK post) (hr : runFile g ds rs post = some st') :
    YaccParse.parse (renderFile g ds rs post) kind = .ok (byteLen (renderFile g ds rs post), st'.ast) := by
  simp only [runFile, Option.map_eq_some_iff] at hr
  obtain ⟨r, hr, rfl⟩ := hr
  have hlen := length_le_byteLen (renderFile g ds rs post)
  have hl : (renderFile g ds rs post).length = (renderDecls ds).length + 3 + ((renderRules g rs).length + post.length) := by
    simp [renderFile]; omega
  obtain ⟨t, ht, hm⟩ := magic_decls ds ('\n' :: (renderRules g rs ++ post))
  have hh : Header.parseWith (renderFile g ds rs post) false (byteLen (renderFile g ds rs post) + 1) = .ok ([], 0) :=
    header_none (c := '%') ht (by decide) hm
  have hat : At (renderFile g ds rs post) 0 (renderDecls ds ++ '%' :: '%' :: '\n' :: (renderRules g rs ++ post)) :=
    Header.dropBytes_append [] (renderFile g ds rs post)
  obtain ⟨hld1, hld2⟩ := len_decls ds
  have hwd' : ∀ d ∈ ds, wfDecl kind d = true ∧ (renderDecl d).length < byteLen (renderFile g ds rs post) + 1 := by
    intro d hd
    simp only [wfDecls, List.all_eq_true] at hwd
    exact ⟨hwd d hd, by have := hld2 d hd; omega⟩
  obtain ⟨d1, d2, d3⟩ := parseDeclarations_at (src := renderFile g ds rs post) (kind := kind)
    (fuel := byteLen (renderFile g ds rs post) + 1) ds {} _ r hat hwd' (by omega) hr
  have hat2 := hat.adv
  rw [Nat.zero_add] at d2 hat2
  rw [← d2] at hat2
  have hrl : (renderRules g rs).length < byteLen (renderFile g ds rs post) + 1 := by omega
  have hok := ruleOK_of_wf hwr hrl
  have hpr := parseRules_at (src := renderFile g ds rs post) (fuel := byteLen (renderFile g ds rs post) + 1)
    hk rs r.2.2 post hat2 hok hp.rulesEnd (by have := (len_rules g rs).1; omega)
  have hat3 : At (renderFile g ds rs post) (runRules g (r.1 + 3) rs (St.incNl 1 r.2.2)).1 post := by
    have h3 : At (renderFile g ds rs post) (r.1 + 3) (renderRules g rs ++ post) := by
      have := At.adv (a := ['%', '%', '\n']) (by simpa using hat2)
      rwa [show byteLen ['%', '%', '\n'] = 3 by decide] at this
    have := h3.adv
    rwa [← runRules_pos g rs (r.1 + 3) (St.incNl 1 r.2.2)] at this
  have hpp := parsePrograms_at (runRules g (r.1 + 3) rs (St.incNl 1 r.2.2)).2 hat3 hp
  have hend : (runRules g (r.1 + 3) rs (St.incNl 1 r.2.2)).1 + byteLen post = byteLen (renderFile g ds rs post) := by
    rw [runRules_pos, d2, renderFile, byteLen_append,
      show ('%' :: '%' :: '\n' :: (renderRules g rs ++ post)) = ['%', '%', '\n'] ++ (renderRules g rs ++ post) from rfl,
      byteLen_append, byteLen_append, show byteLen ['%', '%', '\n'] = 3 by decide]
    omega
  have herrs : (runRules g (r.1 + 3) rs (St.incNl 1 r.2.2)).2.errs = [] := by
    rw [runRules_errs]; exact d3
  unfold YaccParse.parse parseWith
  rw [hh]
  simp only [sections, M.bind_def, d1, hpr, hpp, hend]
  cases hpo : postPrograms post with
  | none => simp [herrs]
  | some n =>
    have e1 : ∀ (k : Nat) (s : St), (St.incNl k s).errs = s.errs := fun _ _ => rfl
    have e2 : ∀ (f : Ast → Ast) (s : St), (St.mapAst f s).errs = s.errs := fun _ _ => rfl
    simp [herrs, e1, e2]

end GrmVerif.YaccRender
