import GrmVerif.Model.Recover
/-! The error list of the recovering driver extends its accumulator. -/
namespace GrmVerif.Rec
open GrmVerif LR

theorem recRun_acc_prefix (G : Grammar) (A : Automaton) (w : List Nat)
    (recover : Pos → Option (Pos × List (List Repair))) :
    ∀ (fuel : Nat) (c : Pos) (errs : List Err), ∃ rest, (recRun G A w recover fuel c errs).2 = errs ++ rest := by
  intro fuel
  induction fuel with
  | zero => intro c errs; exact ⟨[], by simp [recRun]⟩
  | succ n ih =>
    intro c errs
    simp only [recRun]
    cases hf : feed G A (nextTok G w c.pos) FUEL c.stack with
    | shifted s => exact ih _ errs
    | accept s => exact ⟨[], by simp⟩
    | error s =>
      simp only []
      cases hr : recover ⟨s, c.pos⟩ with
      | none => exact ⟨[⟨c.pos, []⟩], rfl⟩
      | some v =>
        obtain ⟨c', rs⟩ := v
        simp only []
        by_cases he : rs.isEmpty = true
        · rw [if_pos he]; exact ⟨[⟨c.pos, []⟩], rfl⟩
        · rw [if_neg he]
          obtain ⟨rest, hrest⟩ := ih c' (errs ++ [⟨c.pos, rs⟩])
          exact ⟨⟨c.pos, rs⟩ :: rest, by rw [hrest]; simp⟩
    | crash => exact ⟨[], by simp⟩
    | fuelOut => exact ⟨[], by simp⟩

end GrmVerif.Rec
