import GrmVerif.Lemmas.YaccDeclRender
import GrmVerif.Lemmas.YaccRoundtrip8
/-!
C10, text → AST stage, declarations, part 1: the scanners used by the declarations (`parse_ws` without
newlines, `parse_int`, `parse_to_eol`) and the four token-list loops (`%token`, `%left`/…,
`%avoid_insert`, `%implicit_tokens`) on their rendered items.
-/
namespace GrmVerif.YaccRender
open GrmVerif.YaccParse
open GrmVerif.Header (Res Span byteLen dropBytes slice sliceRange lookahead byteLen_append)

/-- the next declaration, or the `%%` that ends them -/
def DeclNext (k : List Char) : Prop := ∃ t, k = '%' :: t

theorem DeclNext.starts {k : List Char} (h : DeclNext k) : Starts k := by
  obtain ⟨t, rfl⟩ := h
  exact starts_cons _ ⟨by decide, by decide, by decide⟩

theorem ws_false_space {src : List Char} {i : Nat} {rest : List Char} (h : At src i (' ' :: rest))
    (hs : Stops rest) (st : St) : M.Ret (ws src false i) st (i + 1) st := by
  unfold ws
  rw [if_pos h.lt]
  refine M.Ret.bind (liftR_ret h.slice) ?_
  have hl : YaccLex.Layout false rest [' '] := by
    simpa using YaccLex.Layout.cons (YaccLex.Item.blank (c := ' ') (by decide)) .nil
  have := YaccLex.ws_spec_complete_inc false hl hs
  simp only [List.cons_append, List.nil_append] at this
  rw [this]
  exact M.Ret.bind (m := addNl _) (st1 := st) rfl rfl

theorem nameEnd_nl (k : List Char) : NameEnd ('\n' :: k) := by
  intro c t h; simp only [List.cons.injEq] at h; rw [← h.1]; decide

theorem parseToken_sep {src : List Char} {i : Nat} {t : RTok} {c : Char} {k : List Char}
    (h : At src i (t.text ++ c :: k)) (hw : wfTok t = true) (hc : c = ' ' ∨ c = '\n') :
    parseToken src i = .ok (i + byteLen t.text, t.name, t.span i, t.isQuoted) := by
  cases t with
  | quoted q t =>
    simp only [wfTok, Bool.and_eq_true, Bool.or_eq_true, beq_iff_eq] at hw
    exact parseToken_quoted (by simpa [RTok.text] using h) hw.1 hw.2
  | bare n =>
    rcases hc with rfl | rfl
    · exact parseToken_bare h hw (nameEnd_space k)
    · exact parseToken_bare h hw (nameEnd_nl k)

/-! ### `parse_int`, `parse_to_eol` -/

theorem intLoop_at {src : List Char} : ∀ (ds : List Char) (f j : Nat) (k : List Char),
    At src j (ds ++ '\n' :: k) → ds.all Header.isDigit = true → ds.length < f →
    (intLoop src f j : Res YErr Nat) = .ok (j + byteLen ds) := by
  intro ds
  induction ds with
  | nil =>
    intro f j k h _ hf
    obtain ⟨f, rfl⟩ : ∃ f', f = f' + 1 := ⟨f - 1, by simp at hf; omega⟩
    have h0 : At src j ('\n' :: k) := by simpa using h
    simp [intLoop, h0.lt, h0.nextChar, bind, Res.bind, pure, Header.isDigit, byteLen]
  | cons d ds ih =>
    intro f j k h hd hf
    obtain ⟨f, rfl⟩ : ∃ f', f = f' + 1 := ⟨f - 1, by simp only [List.length_cons] at hf; omega⟩
    simp only [List.all_cons, Bool.and_eq_true] at hd
    simp only [List.length_cons] at hf
    have h0 : At src j (d :: (ds ++ '\n' :: k)) := by simpa using h
    have hsz := digit_size d hd.1
    have hn := ih f (j + 1) k (h0.adv1 hsz) hd.2 (by omega)
    simp only [intLoop, if_pos h0.lt, h0.nextChar, bind, Res.bind, hd.1, if_true]
    rw [hn]; simp [byteLen, hsz]; omega

theorem parseInt_at {src : List Char} {fuel i : Nat} {ds k : List Char} {v : Nat}
    (h : At src i (ds ++ '\n' :: k)) (hv : Header.parseU64 ds = some v) (hf : ds.length < fuel) :
    parseInt src fuel i = .ok (i + byteLen ds, v) := by
  have hd : ds.all Header.isDigit = true := by
    unfold Header.parseU64 at hv
    split at hv
    · next hc => exact hc.2.1
    · cases hv
  simp [parseInt, intLoop_at ds fuel i k h hd hf, h.range, hv, bind, Res.bind, pure]

theorem parseU64_val {ds : List Char} {v : Nat} (hv : Header.parseU64 ds = some v) : v = Header.digitsVal ds := by
  unfold Header.parseU64 at hv
  split at hv
  · simpa using hv.symm
  · cases hv

theorem toEolLoop_at {src : List Char} : ∀ (ty : List Char) (f j : Nat) (k : List Char),
    At src j (ty ++ '\n' :: k) → ty.all (fun d => !YaccLex.isEol d) = true → ty.length < f →
    (toEolLoop src f j : Res YErr Nat) = .ok (j + byteLen ty) := by
  intro ty
  induction ty with
  | nil =>
    intro f j k h _ hf
    obtain ⟨f, rfl⟩ : ∃ f', f = f' + 1 := ⟨f - 1, by simp at hf; omega⟩
    have h0 : At src j ('\n' :: k) := by simpa using h
    simp [toEolLoop, h0.lt, h0.nextChar, bind, Res.bind, pure, YaccLex.isEol, byteLen]
  | cons d ds ih =>
    intro f j k h hd hf
    obtain ⟨f, rfl⟩ : ∃ f', f = f' + 1 := ⟨f - 1, by simp only [List.length_cons] at hf; omega⟩
    simp only [List.all_cons, Bool.and_eq_true, Bool.not_eq_true'] at hd
    simp only [List.length_cons] at hf
    have h0 : At src j (d :: (ds ++ '\n' :: k)) := by simpa using h
    have hnext : At src (j + d.utf8Size) (ds ++ '\n' :: k) := by
      have := At.adv (a := [d]) (rest := ds ++ '\n' :: k) (by simpa using h)
      simpa [byteLen] using this
    have hn := ih f _ k hnext (by simpa using hd.2) (by omega)
    simp only [toEolLoop, if_pos h0.lt, h0.nextChar, bind, Res.bind, hd.1]
    simp only [Bool.false_eq_true, if_false]
    rw [hn]; simp [byteLen]; omega

theorem parseToEol_at {src : List Char} {fuel i : Nat} {ty k : List Char}
    (h : At src i (ty ++ '\n' :: k)) (hd : ty.all (fun d => !YaccLex.isEol d) = true) (hf : ty.length < fuel) :
    parseToEol src fuel i = .ok (i + byteLen ty, ty) := by
  simp [parseToEol, toEolLoop_at ty fuel i k h hd hf, h.range, bind, Res.bind, pure]

/-! ### the token lists -/

theorem renderToks_starts {t : RTok} (hw : wfTok t = true) (ts : List RTok) (k : List Char) :
    Starts (renderToks t ts ++ k) := by
  cases ts with
  | nil => simp only [renderToks, List.append_assoc]; exact wfTok_starts hw _
  | cons u us => simp only [renderToks, List.append_assoc]; exact wfTok_starts hw _

/-- a token never begins with `%` -/
theorem tok_not_pct {t : RTok} (hw : wfTok t = true) (k : List Char) :
    ∃ c r, t.text ++ k = c :: r ∧ c ≠ '%' := by
  cases t with
  | quoted q t =>
    simp only [wfTok, Bool.and_eq_true, Bool.or_eq_true, beq_iff_eq] at hw
    refine ⟨q, _, rfl, ?_⟩
    rcases hw.1 with rfl | rfl <;> decide
  | bare n =>
    cases n with
    | nil => simp [wfTok, wfName] at hw
    | cons c cs => exact ⟨c, _, rfl, (nameStart_facts (wfName_head hw)).2.2.2.2.1⟩

theorem renderToks_pos : ∀ (ts : List RTok) (t : RTok) (i : Nat) (st : St),
    (runTokens i t ts st).1 = i + byteLen (renderToks t ts) := by
  intro ts
  induction ts with
  | nil =>
    intro t i st
    simp only [runTokens, renderToks, byteLen_append, show byteLen ['\n'] = 1 by decide]; omega
  | cons u us ih =>
    intro t i st
    rw [runTokens, ih, show renderToks t (u :: us) = t.text ++ ([' '] ++ renderToks u us) from rfl,
      byteLen_append, byteLen_append, show byteLen [' '] = 1 by decide]
    omega

theorem tokenLoop_at {src : List Char} : ∀ (ts : List RTok) (t : RTok) (f i : Nat) (st : St) (k : List Char),
    At src i (renderToks t ts ++ k) → (t :: ts).all wfTok = true → DeclNext k →
    tokenLoop src (ts.length + 2 + f) i st = .ok (runTokens i t ts st) := by
  intro ts
  induction ts with
  | nil =>
    intro t f i st k h hw hk
    simp only [List.all_cons, List.all_nil, Bool.and_true] at hw
    have h0 : At src i (t.text ++ '\n' :: k) := by simpa [renderToks] using h
    obtain ⟨c, r, hcr, hc⟩ := tok_not_pct hw ('\n' :: k)
    have hj : At src (i + byteLen t.text) ('\n' :: k) := h0.adv
    have hj1 : At src (i + byteLen t.text + 1) k := hj.adv1 (by decide)
    obtain ⟨tk, rfl⟩ := hk
    rw [show ([] : List RTok).length + 2 + f = (f + 1) + 1 by simp; omega, tokenLoop, if_pos (hcr ▸ h0).lt]
    change M.Ret _ st (runTokens i t [] st).1 (runTokens i t [] st).2
    refine M.Ret.bind (la_no (hcr ▸ h0) "%" st (by simp [List.isPrefixOf, Ne.symm hc])) ?_
    dsimp only
    refine M.Ret.bind (liftR_ret (parseToken_sep h0 hw (.inr rfl))) ?_
    dsimp only
    refine M.Ret.bind (modifyAst_ret _ st) ?_
    refine M.Ret.bind (ws_nl hj (starts_cons _ ⟨by decide, by decide, by decide⟩).stops _) ?_
    unfold M.Ret
    rw [tokenLoop, if_pos hj1.lt, M.bind_def, show la src "%" _ _ = _ from la_yes "%" (by simpa using hj1) _]
    rfl
  | cons u us ih =>
    intro t f i st k h hw hk
    simp only [List.all_cons, Bool.and_eq_true] at hw
    have h0 : At src i (t.text ++ ' ' :: (renderToks u us ++ k)) := by simpa [renderToks] using h
    obtain ⟨c, r, hcr, hc⟩ := tok_not_pct hw.1 (' ' :: (renderToks u us ++ k))
    have hj : At src (i + byteLen t.text) (' ' :: (renderToks u us ++ k)) := h0.adv
    have hj1 : At src (i + byteLen t.text + 1) (renderToks u us ++ k) := hj.adv1 (by decide)
    rw [show (u :: us).length + 2 + f = (us.length + 2 + f) + 1 by simp only [List.length_cons]; omega,
      tokenLoop, if_pos (hcr ▸ h0).lt]
    change M.Ret _ st (runTokens i t (u :: us) st).1 (runTokens i t (u :: us) st).2
    refine M.Ret.bind (la_no (hcr ▸ h0) "%" st (by simp [List.isPrefixOf, Ne.symm hc])) ?_
    dsimp only
    refine M.Ret.bind (liftR_ret (parseToken_sep h0 hw.1 (.inl rfl))) ?_
    dsimp only
    refine M.Ret.bind (modifyAst_ret _ st) ?_
    refine M.Ret.bind (ws_space hj (renderToks_starts hw.2.1 us k).stops _) ?_
    exact ih u f _ _ k hj1 (by simp [hw.2.1, hw.2.2]) hk

/-! ### `parse_string` on an `%epp` text -/

theorem strLoop_at {src : List Char} : ∀ (v : List Char) (f i : Nat) (s p rest : List Char),
    At src i (p ++ (escQ v ++ '"' :: rest)) → v.all (fun d => !YaccLex.isEol d && d != '\\') = true →
    (escQ v).length < f →
    strLoop src '"' f i (i + byteLen p) s = .ok (i + byteLen p + byteLen (escQ v) + 1, s ++ p ++ v) := by
  intro v
  induction v with
  | nil =>
    intro f i s p rest h _ hf
    obtain ⟨f, rfl⟩ : ∃ f', f = f' + 1 := ⟨f - 1, by simp [escQ] at hf; omega⟩
    have hj : At src (i + byteLen p) ('"' :: rest) := by simpa [escQ] using h.adv
    have hr : (sliceRange src i (i + byteLen p) : Res YErr _) = .ok p := h.range
    simp [strLoop, hj.lt, hj.nextChar, hr, bind, Res.bind, pure, YaccLex.isEol, escQ, byteLen]
  | cons c v ih =>
    intro f i s p rest h hw hf
    simp only [List.all_cons, Bool.and_eq_true, Bool.not_eq_true', bne_iff_ne, ne_eq] at hw
    obtain ⟨⟨hce, hcb⟩, hwv⟩ := hw
    by_cases hq : c = '"'
    · subst hq
      obtain ⟨f, rfl⟩ : ∃ f', f = f' + 1 := ⟨f - 1, by simp [escQ] at hf; omega⟩
      have hj : At src (i + byteLen p) ('\\' :: '"' :: (escQ v ++ '"' :: rest)) := by simpa [escQ] using h.adv
      have hj1 : At src (i + byteLen p + 1) ('"' :: (escQ v ++ '"' :: rest)) := hj.adv1 (by decide)
      have hr : (sliceRange src i (i + byteLen p) : Res YErr _) = .ok p := h.range
      have h' : At src (i + byteLen p + 1) (['"'] ++ (escQ v ++ '"' :: rest)) := by simpa using hj1
      have := ih f (i + byteLen p + 1) (s ++ p) ['"'] rest h' (by simpa using hwv) (by simp [escQ] at hf; omega)
      rw [show byteLen ['"'] = 1 by decide] at this
      simp only [strLoop, if_pos hj.lt, hj.nextChar, hj1.slice, hr, bind, Res.bind]
      simp only [YaccLex.isEol, show (('\\' : Char) == '\n') = false by decide, show (('\\' : Char) == '\r') = false by decide,
        Bool.or_self, Bool.false_eq_true, if_false, show ¬ (('\\' : Char) = '"') by decide, if_true, or_true]
      rw [show i + byteLen p + 2 = i + byteLen p + 1 + 1 by omega, this]
      simp [escQ, byteLen, show Char.utf8Size '\\' = 1 by decide, show Char.utf8Size '"' = 1 by decide]
      omega
    · obtain ⟨f, rfl⟩ : ∃ f', f = f' + 1 := ⟨f - 1, by simp [escQ, hq] at hf; omega⟩
      have he : escQ (c :: v) = c :: escQ v := by simp [escQ, hq]
      have hj : At src (i + byteLen p) (c :: (escQ v ++ '"' :: rest)) := by simpa [he] using h.adv
      have h' : At src i ((p ++ [c]) ++ (escQ v ++ '"' :: rest)) := by simpa [he] using h
      have := ih f i s (p ++ [c]) rest h' (by simpa using hwv) (by simp [he] at hf; omega)
      rw [byteLen_append, show byteLen [c] = c.utf8Size by simp [byteLen]] at this
      simp only [strLoop, if_pos hj.lt, hj.nextChar, bind, Res.bind, hce, Bool.false_eq_true, if_false, hq, hcb]
      rw [show i + byteLen p + c.utf8Size = i + (byteLen p + c.utf8Size) by omega, this, he]
      simp [byteLen]; omega

theorem parseString_at {src : List Char} {fuel i : Nat} {v rest : List Char}
    (h : At src i ('"' :: (escQ v ++ '"' :: rest))) (hw : v.all (fun d => !YaccLex.isEol d && d != '\\') = true)
    (hf : (escQ v).length < fuel) :
    parseString src fuel i = .ok (i + 1 + byteLen (escQ v) + 1, v) := by
  have h1 : At src (i + 1) ([] ++ (escQ v ++ '"' :: rest)) := by simpa using h.adv1 (by decide)
  have := strLoop_at (src := src) v fuel (i + 1) [] [] rest h1 hw hf
  simp only [byteLen, Nat.add_zero, List.nil_append] at this
  simp [parseString, Header.lookahead, h.slice, List.isPrefixOf, bind, Res.bind, pure, this]

end GrmVerif.YaccRender
