import GrmVerif.Lemmas.KeptShift
import GrmVerif.Lemmas.Viable
import GrmVerif.Lemmas.LRComplete
/-!
`KeptShiftInvisible` holds of EVERY automaton that passes the certificates `Cert.check`,
`Cert.checkLA` and the closure-minimality half `Cert.vpClosed` of `Cert.checkVP`
(`keptShiftInvisible_of_cert`).

Proof. `LV σ p d la` is canonical LR(1) validity of the item `[p, d, la]` on the stack path `σ`,
defined on the automaton's own edges (start item with end-of-input; closure with
`la' ∈ FIRST(rest · la)`; goto along an edge); the lookahead `none` stands for "no information"
(LR(0) validity), so no productivity of the grammar is needed.
* `lv_lower`: the certified lookahead sets contain every valid lookahead (L1–L3 propagate them).
* `lv_of_closed`: every closed item of the top state of a path is LR(0)-valid (`vpClosed`, K3′).
* `lv_trace`: an item of the top state from which `t` can come next goes back to a KERNEL item from
  which `t` can come next, i.e. to an item `[B → γ · X δ, la]` of the state below with `t ∈ FIRST(δ la)`.
* `validNext_pull`: hence, if `t` is a valid next token after the reduction by `p`, then `[p, |p|, t]`
  is valid before it.
* `validNext_of_feed`: a run of `feed` under `t` that ends in a shift or an accept starts in a stack
  on which `t` is a valid next token (induction over the run, backwards through `validNext_pull`).
* `feed_reduce_same`: so the cell `(top, t)` of a stack on which the table reduces by `p` under some
  refused lexeme, and whose reduct goes on to shift `t`, holds a complete item of `p` with `t` in its
  lookahead set, and L4 (conflict-freedom) makes the cell that same reduction.
-/
namespace GrmVerif.C05
open GrmVerif Rec LR Cert Spec Ref Term

section
variable (G : Grammar) (A : Automaton) (N : Nat → Bool) (F : Nat × Nat → Bool)

/-- **canonical LR(1) validity** of the item `[p, d]` with lookahead `la` (`none` = no information)
on the stack `σ` (top first) -/
inductive LV : List Nat → Nat → Nat → Option Nat → Prop
  | base (la : Option Nat) : (∀ t, la = some t → t = G.eof) → LV [A.start] G.startProd 0 la
  | close (σ : List Nat) (p d q : Nat) (la la' : Option Nat) :
      LV σ p d la → symAt G p d = some (.rule (G.lhs q)) → q < G.nprods →
      (∀ t, la' = some t → t < G.ntoks ∧ firstSeqL N F ((G.rhs p).drop (d + 1)) la.toList t = true) →
      LV σ q 0 la'
  | goto (s : Nat) (rest : List Nat) (p d : Nat) (la : Option Nat) (X : Sym) (t : Nat) :
      LV (s :: rest) p d la → symAt G p d = some X → A.edge s X = some t →
      LV (t :: s :: rest) p (d + 1) la

/-- `t` can come next on the stack `σ`: some valid item has `t` in FIRST of its rest followed by its
lookahead -/
def ValidNext (σ : List Nat) (t : Nat) : Prop :=
  ∃ p d la, LV G A N F σ p d la ∧ firstSeqL N F ((G.rhs p).drop d) la.toList t = true

end

section
variable {G : Grammar} {A : Automaton} {N : Nat → Bool} {F : Nat × Nat → Bool}

theorem firstSeqL_mono {β : List Sym} {L L' : List Nat} {t : Nat} (hsub : ∀ a ∈ L, a ∈ L')
    (h : firstSeqL N F β L t = true) : firstSeqL N F β L' t = true := by
  simp only [firstSeqL, Bool.or_eq_true, Bool.and_eq_true, List.contains_eq_mem, decide_eq_true_eq] at h ⊢
  rcases h with h | ⟨h1, h2⟩
  · exact Or.inl h
  · exact Or.inr ⟨h1, hsub t h2⟩

/-- **the certified lookahead sets contain every valid lookahead** -/
theorem lv_lower (P : Props G A) (PL : PropsLA G A N F) :
    ∀ {σ : List Nat} {p d : Nat} {la : Option Nat}, LV G A N F σ p d la → (∀ s ∈ σ, s < A.nstates) →
      ∃ s rest, σ = s :: rest ∧ ∃ j ∈ A.closed s, j.p = p ∧ j.dot = d ∧ ∀ t, la = some t → t ∈ j.la := by
  intro σ p d la h
  induction h with
  | base la hla =>
    intro _
    obtain ⟨k, hk, hkp, hkd⟩ := P.startHas
    obtain ⟨j, hj, hjp, hjd, hjla⟩ := PL.coreLA A.start P.startLt k hk
    refine ⟨A.start, [], rfl, j, hj, by rw [hjp, hkp], by rw [hjd, hkd], ?_⟩
    intro t ht
    rw [hla t ht]
    exact hjla _ (PL.startLA k hk)
  | close σ p d q la la' _ hsym hq hla' ih =>
    intro hσ
    obtain ⟨s, rest, rfl, j, hj, hjp, hjd, hjla⟩ := ih hσ
    have hs : s < A.nstates := hσ s (by simp)
    obtain ⟨j', hj', hj'p, hj'd, hj'la⟩ := PL.closeLA s hs j hj (G.lhs q) (by rw [hjp, hjd]; exact hsym) q
      (mem_prodsOf.mpr ⟨hq, rfl⟩)
    refine ⟨s, rest, rfl, j', hj', hj'p, hj'd, ?_⟩
    intro t ht
    obtain ⟨htl, hfs⟩ := hla' t ht
    refine hj'la t htl ?_
    rw [hjp, hjd]
    refine firstSeqL_mono ?_ hfs
    intro a ha
    cases la with
    | none => simp at ha
    | some b => simp at ha; subst ha; exact hjla _ rfl
  | goto s rest p d la X t _ hsym he ih =>
    intro hσ
    obtain ⟨s0, rest0, heq, j, hj, hjp, hjd, hjla⟩ := ih (fun x hx => hσ x (List.mem_cons_of_mem _ hx))
    simp only [List.cons.injEq] at heq
    obtain ⟨rfl, rfl⟩ := heq
    have hs : s < A.nstates := hσ s (by simp)
    have ht : t < A.nstates := hσ t (by simp)
    obtain ⟨t', j0, he', hj0, hj0p, hj0d, hj0la⟩ := PL.edgeLA s hs j hj X (by rw [hjp, hjd]; exact hsym)
    rw [he] at he'
    injection he' with he'
    subst he'
    obtain ⟨j1, hj1, hj1p, hj1d, hj1la⟩ := PL.coreLA t ht j0 hj0
    refine ⟨t, s :: rest, rfl, j1, hj1, by rw [hj1p, hj0p, hjp], by rw [hj1d, hj0d, hjd], ?_⟩
    intro a ha
    exact hj1la _ (hj0la _ (hjla a ha))

/-- FIRST of a closure item followed by its lookahead lies within FIRST of the item it was added for -/
theorem firstSeqL_close (hN : ∀ r, N r = true ↔ NullableR G r) (hF : ∀ r t, F (r, t) = true ↔ FirstP G r t)
    {p d q : Nat} {la la' : Option Nat} (hsym : symAt G p d = some (.rule (G.lhs q))) (hq : q < G.nprods)
    (hla' : ∀ t, la' = some t → t < G.ntoks ∧ firstSeqL N F ((G.rhs p).drop (d + 1)) la.toList t = true)
    {t : Nat} (h : firstSeqL N F (G.rhs q) la'.toList t = true) :
    firstSeqL N F ((G.rhs p).drop d) la.toList t = true := by
  rw [drop_of_symAt hsym]
  simp only [firstSeqL, Bool.or_eq_true, Bool.and_eq_true, List.contains_eq_mem, decide_eq_true_eq] at h
  rcases h with h | ⟨h1, h2⟩
  · -- `t ∈ FIRST(rhs q)`, so `t ∈ FIRST(lhs q)`
    obtain ⟨α, X, β, e1, e2, e3⟩ := (firstSeq_iff hN hF _ _).mp h
    have hfp : FirstP G (G.lhs q) t := by
      rcases e3 with e3 | ⟨r, e3, e4⟩
      · subst e3; exact .tok q α t β hq e1 e2
      · subst e3; exact .rule q α r β t hq e1 e2 e4
    simp [firstSeqL, Ref.firstSeq, (hF _ _).mpr hfp]
  · -- `rhs q` nullable and `t` is the closure item's lookahead
    have hnull : N (G.lhs q) = true := (hN _).mpr (.mk q hq ((seqNullable_iff hN _).mp h1))
    cases la' with
    | none => simp at h2
    | some b =>
      simp at h2
      subst h2
      obtain ⟨_, hfs⟩ := hla' t rfl
      simp only [firstSeqL, Bool.or_eq_true, Bool.and_eq_true, List.contains_eq_mem, decide_eq_true_eq] at hfs
      rcases hfs with hfs | ⟨hfs1, hfs2⟩
      · simp [firstSeqL, Ref.firstSeq, hnull, hfs]
      · simp only [firstSeqL, Ref.firstSeq, seqNullable, List.all_cons, symNullable, hnull, Bool.true_and,
          Bool.or_eq_true, Bool.and_eq_true, List.contains_eq_mem, decide_eq_true_eq]
        exact Or.inr ⟨hfs1, hfs2⟩

/-- an item of the top state from which `t` can come next goes back to an item of the state below,
with the dot before the symbol of the edge, from whose rest `t` can come next -/
theorem lv_trace (hN : ∀ r, N r = true ↔ NullableR G r) (hF : ∀ r t, F (r, t) = true ↔ FirstP G r t) :
    ∀ {σ : List Nat} {p d : Nat} {la : Option Nat}, LV G A N F σ p d la →
      ∀ t, firstSeqL N F ((G.rhs p).drop d) la.toList t = true →
      ∀ s s0 rest, σ = s :: s0 :: rest →
      ∃ p' d' la' X, LV G A N F (s0 :: rest) p' d' la' ∧ symAt G p' d' = some X ∧ A.edge s0 X = some s ∧
        firstSeqL N F ((G.rhs p').drop (d' + 1)) la'.toList t = true := by
  intro σ p d la h
  induction h with
  | base la hla => intro t _ s s0 rest heq; simp at heq
  | close σ p d q la la' _ hsym hq hla' ih =>
    intro t ht s s0 rest heq
    rw [List.drop_zero] at ht
    exact ih t (firstSeqL_close hN hF hsym hq hla' ht) s s0 rest heq
  | goto s1 rest1 p d la X t1 hlv hsym he _ =>
    intro t ht s s0 rest heq
    simp only [List.cons.injEq] at heq
    obtain ⟨rfl, rfl, rfl⟩ := heq
    exact ⟨p, d, la, X, hlv, hsym, he, ht⟩

/-- going up a path along the symbols of a production -/
theorem lv_goto_steps {p : Nat} {la : Option Nat} :
    ∀ (d : Nat) (σ : List Nat) (labels : List Sym), Path A σ labels → d ≤ labels.length →
      (labels.take d).reverse = (G.rhs p).take d → LV G A N F (σ.drop d) p 0 la → LV G A N F σ p d la := by
  intro d
  induction d with
  | zero => intro σ labels _ _ _ h; simpa using h
  | succ d ih =>
    intro σ labels hpath hd hl h
    cases hpath with
    | base => simp at hd
    | step s t rest labels1 X hp1 he =>
      simp only [List.length_cons] at hd
      simp only [List.take_succ_cons, List.reverse_cons] at hl
      have hlen : d < (G.rhs p).length := by
        have := congrArg List.length hl
        simp only [List.length_append, List.length_reverse, List.length_take, List.length_singleton] at this
        omega
      rw [List.take_add_one, List.getElem?_eq_getElem hlen] at hl
      simp only [Option.toList_some] at hl
      obtain ⟨hl1, hl2⟩ := List.append_inj' hl (by simp)
      simp only [List.cons.injEq, and_true] at hl2
      have hsym : symAt G p d = some X := by
        unfold symAt; rw [List.getElem?_eq_getElem hlen, hl2]
      simp only [List.drop_succ_cons] at h
      exact .goto s rest p d la X t (ih (s :: rest) labels1 hp1 (by omega) hl1 h) hsym he

/-- two edges of a state into the same target carry the same symbol -/
theorem edge_label_unique (P : Props G A) {s g : Nat} {X Y : Sym} (hs : s < A.nstates)
    (h1 : A.edge s X = some g) (h2 : A.edge s Y = some g) : X = Y := by
  obtain ⟨_, hne, hc1⟩ := P.edgeTarget s hs _ (edge_mem h1)
  obtain ⟨_, _, hc2⟩ := P.edgeTarget s hs _ (edge_mem h2)
  cases hc : A.core g with
  | nil => exact absurd hc hne
  | cons i is =>
    have hi : i ∈ A.core g := by rw [hc]; simp
    have e1 := (hc1 i hi).2.1
    have e2 := (hc2 i hi).2.1
    simp only at e1 e2
    rw [e1] at e2
    injection e2

/-- **a valid next token after a reduction is a valid lookahead of the reduction.** -/
theorem validNext_pull (P : Props G A)
    (hN : ∀ r, N r = true ↔ NullableR G r) (hF : ∀ r t, F (r, t) = true ↔ FirstP G r t)
    {st : Nat} {tl : List Nat} {labels : List Sym} (hpath : Path A (st :: tl) labels) {p : Nat}
    (hplt : p < G.nprods) (hitem : HasItem (A.closed st) p (G.rhs p).length)
    {prior g : Nat} {rest : List Nat} (hd : (st :: tl).drop (G.rhs p).length = prior :: rest)
    (hg : A.edge prior (.rule (G.lhs p)) = some g) {t : Nat} (ht : t < G.ntoks)
    (hv : ValidNext G A N F (g :: prior :: rest) t) :
    LV G A N F (st :: tl) p (G.rhs p).length (some t) := by
  obtain ⟨p0, d0, la0, hlv0, hfs0⟩ := hv
  obtain ⟨p', d', la', X, hlv', hsym', he', hfs'⟩ := lv_trace hN hF hlv0 t hfs0 g prior rest rfl
  obtain ⟨h1, h2, _⟩ := path_item P (G.rhs p).length st tl labels p hpath hitem
  have hprior : prior < A.nstates := by
    have : prior ∈ st :: tl := List.mem_of_mem_drop (by rw [hd]; simp)
    exact hpath.states_lt P prior this
  have hX : X = .rule (G.lhs p) := edge_label_unique P hprior he' hg
  subst hX
  have hbase : LV G A N F ((st :: tl).drop (G.rhs p).length) p 0 (some t) := by
    rw [hd]
    refine .close _ p' d' p la' (some t) hlv' hsym' hplt ?_
    intro t' ht'
    injection ht' with ht'
    subst ht'
    exact ⟨ht, hfs'⟩
  exact lv_goto_steps _ _ labels hpath h1 h2 hbase

/-- closure items of valid kernel items are valid (LR(0) level) -/
theorem clo_lv {σ : List Nat} {core : List Item} (hk : ∀ k ∈ core, LV G A N F σ k.p k.dot none) :
    ∀ p d, Clo0 G core p d → LV G A N F σ p d none := by
  intro p d h
  induction h with
  | kernel i hi => exact hk i hi
  | close p d q _ hsym hq ih => exact .close σ p d q none none ih hsym hq (by intro t ht; cases ht)

/-- **every closed item of the top state of a path is LR(0)-valid** (`vpClosed`: closed sets hold
only items of the closure of their kernel) -/
theorem lv_of_closed (P : Props G A)
    (hmin : ∀ s, s < A.nstates → ∀ i ∈ A.closed s, Clo0 G (A.core s) i.p i.dot)
    {σ : List Nat} {labels : List Sym} (h : Path A σ labels) :
    ∀ s rest, σ = s :: rest → ∀ p d, HasItem (A.closed s) p d → LV G A N F σ p d none := by
  induction h with
  | base =>
    intro s rest hs p d hi
    simp only [List.cons.injEq] at hs
    obtain ⟨rfl, _⟩ := hs
    obtain ⟨i, him, rfl, rfl⟩ := hi
    refine clo_lv ?_ _ _ (hmin _ P.startLt i him)
    intro k hk
    obtain ⟨hkp, hkd⟩ := P.startCore k hk
    rw [hkp, hkd]
    exact .base none (by intro t ht; cases ht)
  | step s t rest labels X hp he ih =>
    intro s' rest' hs p d hi
    simp only [List.cons.injEq] at hs
    obtain ⟨rfl, _⟩ := hs
    have hslt : s < A.nstates := hp.states_lt P s (by simp)
    obtain ⟨htlt, _, hcore⟩ := P.edgeTarget s hslt _ (edge_mem he)
    obtain ⟨i, him, rfl, rfl⟩ := hi
    refine clo_lv ?_ _ _ (hmin _ htlt i him)
    intro k hk
    obtain ⟨hk0, hksym, hkprev⟩ := hcore k hk
    simp only at hksym hkprev
    have := LV.goto (N := N) (F := F) s rest k.p (k.dot - 1) none X t (ih s rest rfl k.p (k.dot - 1) hkprev) hksym he
    have e : k.dot - 1 + 1 = k.dot := by omega
    rw [e] at this
    exact this

/-- what `vpClosed` means -/
theorem vpClosed_minimal (h : vpClosed G A = true) :
    ∀ s, s < A.nstates → ∀ i ∈ A.closed s, Clo0 G (A.core s) i.p i.dot := by
  rw [vpClosed, allStates_iff] at h
  intro s hs i hi
  have := h s hs
  cases hc : close0 G (A.core s) with
  | none => rw [hc] at this; cases this
  | some S =>
    rw [hc] at this
    simp only [List.all_eq_true, List.contains_eq_mem, decide_eq_true_eq] at this
    exact close0_sound G _ S hc _ (this i hi)

/-- a result of `feed` with which the parse goes on: the lookahead was shifted or accepted -/
def goes : Fed → Prop
  | .shifted _ => True
  | .accept _ => True
  | _ => False

/-- **one reduction on a path stack**, everything the certificate says about it: the production is
a proper one whose complete item is in the top state, the stack is deep enough, the exposed state has
the goto, the reduct is a path again, and `feed` under ANY lookahead whose cell holds this reduction
continues on the reduct. -/
theorem reduce_step (P : Props G A) {la : Nat} (hla : la < G.ntoks) {st : Nat} {tl : List Nat}
    (hp : IsPath A (st :: tl)) {p : Nat} (hact : A.action st la = .reduce p) :
    p ≠ G.startProd ∧ p < G.nprods ∧ HasItem (A.closed st) p (G.rhs p).length ∧
    ∃ prior rest g, (st :: tl).drop (G.rhs p).length = prior :: rest ∧
      A.edge prior (.rule (G.lhs p)) = some g ∧ IsPath A (g :: prior :: rest) ∧
      ∀ t' n, A.action st t' = .reduce p →
        feed G A t' (n + 1) (st :: tl) = feed G A t' n (g :: prior :: rest) := by
  have hst : st < A.nstates := hp.states_lt P st (by simp)
  obtain ⟨labels, hpath⟩ := hp
  obtain ⟨hpne, hplt, hitem⟩ := P.actReduce st la p hst hla hact
  obtain ⟨h1, h2, s', h3, h4⟩ := path_item P (G.rhs p).length st tl labels p hpath hitem
  have hlen := hpath.length_eq
  have hnotle : ¬ ((st :: tl).length ≤ (G.rhs p).length) := by omega
  have hdrop : (st :: tl).drop (G.rhs p).length = s' :: (st :: tl).drop ((G.rhs p).length + 1) := by
    rw [List.drop_eq_getElem?_toList_append, h3]; rfl
  have hs'lt : s' < A.nstates := hpath.states_lt P s' (List.mem_of_getElem? h3)
  have hsub := hpath.drop (G.rhs p).length h1
  rw [hdrop] at hsub
  have hgoto : ∃ t, A.edge s' (.rule (G.lhs p)) = some t := by
    obtain ⟨i, him, hip, hid⟩ := h4
    rcases P.justified s' hs'lt i him hid with h | ⟨j, hjm, hj⟩
    · exfalso
      rw [hip] at h
      obtain ⟨_, _, hst'⟩ := kernel0_bottom P hsub h
      obtain ⟨k, hkm, hkp, _⟩ := h
      rw [hst'] at hkm
      have := (P.startCore k hkm).1
      omega
    · rw [hip] at hj
      obtain ⟨t, ht, _⟩ := P.edgeExists s' hs'lt j hjm _ hj
      exact ⟨t, ht⟩
  obtain ⟨g, hg⟩ := hgoto
  have hgo : A.goto s' (G.lhs p) = some g := by
    rw [P.gotoEdge s' _ hs'lt (wf_lhs P.wf hplt)]; exact hg
  refine ⟨hpne, hplt, hitem, s', _, g, hdrop, hg, ⟨_, Path.step s' g _ _ (.rule (G.lhs p)) hsub hg⟩, ?_⟩
  intro t' n hact'
  simp only [feed, hact', hnotle, ↓reduceIte, hdrop, hgo]

/-- **a run of `feed` that ends in a shift or an accept starts where its lookahead is a valid next
token** -/
theorem validNext_of_feed (P : Props G A)
    (hN : ∀ r, N r = true ↔ NullableR G r) (hF : ∀ r t, F (r, t) = true ↔ FirstP G r t)
    (hmin : ∀ s, s < A.nstates → ∀ i ∈ A.closed s, Clo0 G (A.core s) i.p i.dot)
    {t : Nat} (ht : t < G.ntoks) :
    ∀ (fuel : Nat) (σ : List Nat), IsPath A σ → goes (feed G A t fuel σ) → ValidNext G A N F σ t := by
  intro fuel
  induction fuel with
  | zero => intro σ _ h; simp [feed, goes] at h
  | succ n ih =>
    intro σ hp h
    cases σ with
    | nil => obtain ⟨labels, hpath⟩ := hp; cases hpath
    | cons st tl =>
      have hst : st < A.nstates := hp.states_lt P st (by simp)
      cases hact : A.action st t with
      | error => simp [feed, hact, goes] at h
      | shift s' =>
        have hedge := P.actShift st t s' hst ht hact
        obtain ⟨_, hne, hcore⟩ := P.edgeTarget st hst _ (edge_mem hedge)
        cases hc : A.core s' with
        | nil => exact absurd hc hne
        | cons k ks =>
          have hk : k ∈ A.core s' := by rw [hc]; simp
          obtain ⟨_, hksym, hkprev⟩ := hcore k hk
          simp only at hksym hkprev
          obtain ⟨labels, hpath⟩ := hp
          refine ⟨k.p, k.dot - 1, none, lv_of_closed P hmin hpath st tl rfl _ _ hkprev, ?_⟩
          rw [drop_of_symAt hksym]
          simp [firstSeqL, Ref.firstSeq]
      | accept =>
        obtain ⟨hteof, hitem⟩ := P.actAccept st t hst ht hact
        obtain ⟨labels, hpath⟩ := hp
        obtain ⟨S, hS⟩ := P.startShape
        obtain ⟨h1, h2, s', h3, h4⟩ := path_item P 1 st tl labels G.startProd hpath hitem
        have hs'lt : s' < A.nstates := hpath.states_lt P s' (List.mem_of_getElem? h3)
        have hdrop : (st :: tl).drop 1 = s' :: (st :: tl).drop 2 := by
          rw [List.drop_eq_getElem?_toList_append, h3]; rfl
        have hsub := hpath.drop 1 h1
        rw [hdrop] at hsub
        have hbottom : (st :: tl).drop 1 = [A.start] := by
          obtain ⟨i, him, hip, hid⟩ := h4
          rcases P.justified s' hs'lt i him hid with hk | ⟨j, hjm, hj⟩
          · rw [hip] at hk
            obtain ⟨hr, _, hs'⟩ := kernel0_bottom P hsub hk
            rw [hdrop, hr, hs']
          · exfalso
            rw [hip] at hj
            have hjp := (P.itemOk s' hs'lt j (List.mem_append_left _ hjm)).1
            exact P.noStartRhs j.p hjp (symAt_mem hj)
        have hbase : LV G A N F ((st :: tl).drop 1) G.startProd 0 (some G.eof) := by
          rw [hbottom]; exact .base _ (by intro x hx; injection hx with hx; exact hx.symm)
        have hlv := lv_goto_steps 1 _ labels hpath h1 h2 hbase
        refine ⟨G.startProd, 1, some G.eof, hlv, ?_⟩
        rw [hS, hteof]
        simp [firstSeqL, seqNullable]
      | reduce p =>
        obtain ⟨hpne, hplt, hitem, prior, rest, g, hd, hg, hpath', hfeed⟩ := reduce_step P ht hp hact
        rw [hfeed t n hact] at h
        have hv := ih _ hpath' h
        obtain ⟨labels, hpath⟩ := hp
        have hlv := validNext_pull P hN hF hpath hplt hitem hd hg ht hv
        refine ⟨p, (G.rhs p).length, some t, hlv, ?_⟩
        simp [firstSeqL, seqNullable]

/-- **the kept reduction is the one the table makes under the later token too**: on a path stack
whose top cell under some lookahead `la` holds the reduction by `p`, if the reduct goes on to shift
(or accept under) `t`, the top cell under `t` holds the reduction by `p` as well. -/
theorem feed_reduce_same (P : Props G A) (PL : PropsLA G A N F)
    (hN : ∀ r, N r = true ↔ NullableR G r) (hF : ∀ r t, F (r, t) = true ↔ FirstP G r t)
    (hmin : ∀ s, s < A.nstates → ∀ i ∈ A.closed s, Clo0 G (A.core s) i.p i.dot)
    {st : Nat} {tl : List Nat} (hp : IsPath A (st :: tl)) {p : Nat} (hplt : p < G.nprods)
    (hpne : p ≠ G.startProd) (hitem : HasItem (A.closed st) p (G.rhs p).length)
    {prior g : Nat} {rest : List Nat} (hd : (st :: tl).drop (G.rhs p).length = prior :: rest)
    (hg : A.edge prior (.rule (G.lhs p)) = some g) (hp' : IsPath A (g :: prior :: rest))
    {t : Nat} (ht : t < G.ntoks) {f : Nat} (h : goes (feed G A t f (g :: prior :: rest))) :
    A.action st t = .reduce p := by
  have hv := validNext_of_feed P hN hF hmin ht f _ hp' h
  have hstates := hp.states_lt P
  obtain ⟨labels, hpath⟩ := hp
  have hlv := validNext_pull P hN hF hpath hplt hitem hd hg ht hv
  obtain ⟨s, r, heq, j, hj, hjp, hjd, hjla⟩ := lv_lower P PL hlv hstates
  simp only [List.cons.injEq] at heq
  obtain ⟨rfl, _⟩ := heq
  have hst : st < A.nstates := hstates st (by simp)
  have hcomplete : symAt G j.p j.dot = none := by
    unfold symAt; rw [hjp, hjd]; simp
  have := PL.actReduceC st hst j hj hcomplete (by rw [hjp]; exact hpne) t (hjla t rfl)
  rw [hjp] at this
  exact this

theorem goes_action {t f : Nat} {σ : List Nat} (h : goes (feed G A t f σ)) : ∃ st, A.action st t ≠ .error := by
  cases hf : feed G A t f σ with
  | shifted x => obtain ⟨st, s', ha⟩ := RankImpl.feed_shifted_action hf; exact ⟨st, by rw [ha]; simp⟩
  | accept x => obtain ⟨st, ha⟩ := feed_accept_action hf; exact ⟨st, by rw [ha]; simp⟩
  | error x => rw [hf] at h; cases h
  | crash => rw [hf] at h; cases h
  | fuelOut => rw [hf] at h; cases h

/-- **one refused lexeme**: the stack it leaves is a path again, and whatever that stack shifts or
accepts, the stack before the offer answers the same (with the fuel for the kept reductions added) -/
theorem offer_invisible (P : Props G A) (PL : PropsLA G A N F)
    (hN : ∀ r, N r = true ↔ NullableR G r) (hF : ∀ r t, F (r, t) = true ↔ FirstP G r t)
    (hmin : ∀ s, s < A.nstates → ∀ i ∈ A.closed s, Clo0 G (A.core s) i.p i.dot)
    (hcols : colsOk G A = true) (la : Nat) :
    ∀ (fuel : Nat) (a s : List Nat), IsPath A a → feed G A la fuel a = .error s →
      IsPath A s ∧ ∀ t f, goes (feed G A t f s) → ∃ f', feed G A t f' a = feed G A t f s := by
  intro fuel
  induction fuel with
  | zero => intro a s _ h; simp [feed] at h
  | succ n ih =>
    intro a s hp h
    cases a with
    | nil => obtain ⟨labels, hpath⟩ := hp; cases hpath
    | cons st tl =>
      cases hact : A.action st la with
      | error =>
        simp only [feed, hact, Fed.error.injEq] at h
        subst h
        exact ⟨hp, fun t f _ => ⟨f, rfl⟩⟩
      | shift s' => simp [feed, hact] at h
      | accept => simp [feed, hact] at h
      | reduce p =>
        have hla : la < G.ntoks := colsOk_action hcols (by rw [hact]; simp)
        obtain ⟨hpne, hplt, hitem, prior, rest, g, hd, hg, hpath', hfeed⟩ := reduce_step P hla hp hact
        rw [hfeed la n hact] at h
        obtain ⟨hps, hrest⟩ := ih _ s hpath' h
        refine ⟨hps, ?_⟩
        intro t f hgo
        obtain ⟨f', hf'⟩ := hrest t f hgo
        have ht : t < G.ntoks := by
          obtain ⟨st', hne⟩ := goes_action hgo
          exact colsOk_action hcols hne
        have hsame : A.action st t = .reduce p :=
          feed_reduce_same P PL hN hF hmin hp hplt hpne hitem hd hg hpath' ht (f := f') (by rw [hf']; exact hgo)
        exact ⟨f' + 1, by rw [hfeed t f' hsame, hf']⟩

/-- any number of refused lexemes -/
theorem kept_invisible (P : Props G A) (PL : PropsLA G A N F)
    (hN : ∀ r, N r = true ↔ NullableR G r) (hF : ∀ r t, F (r, t) = true ↔ FirstP G r t)
    (hmin : ∀ s, s < A.nstates → ∀ i ∈ A.closed s, Clo0 G (A.core s) i.p i.dot)
    (hcols : colsOk G A = true) {a b : List Nat} (h : Kept G A a b) (hb : IsPath A b) :
    IsPath A a ∧ ∀ t f, goes (feed G A t f a) → ∃ f', feed G A t f' b = feed G A t f a := by
  induction h with
  | refl s => exact ⟨hb, fun t f _ => ⟨f, rfl⟩⟩
  | offer a b la s _ hf ih =>
    obtain ⟨hpa, hab⟩ := ih hb
    obtain ⟨hps, hsa⟩ := offer_invisible P PL hN hF hmin hcols la FUEL a s hpa hf
    refine ⟨hps, ?_⟩
    intro t f hgo
    obtain ⟨f1, h1⟩ := hsa t f hgo
    obtain ⟨f2, h2⟩ := hab t f1 (by rw [h1]; exact hgo)
    exact ⟨f2, by rw [h2, h1]⟩

/-- **Every certified conflict-free table satisfies `KeptShiftInvisible`.** `check` (K1–K6),
`checkLA` (L1–L4, with the exact nullable/FIRST sets `N`, `F`), `vpClosed` (closed sets hold only
closure items of their kernels) and `colsOk` (no action cell beyond the grammar's tokens): all
decidable, all evaluated by the driver on every dumped automaton. -/
theorem keptShiftInvisible_of_cert (hc : check G A = true) (hla : checkLA G A N F = true)
    (hN : ∀ r, N r = true ↔ NullableR G r) (hF : ∀ r t, F (r, t) = true ↔ FirstP G r t)
    (hvp : vpClosed G A = true) (hcols : colsOk G A = true) : KeptShiftInvisible G A := by
  have P := check_props G A hc
  have PL := checkLA_props G A N F hla
  have hmin := vpClosed_minimal hvp
  intro a b hab hb t
  obtain ⟨_, h⟩ := kept_invisible P PL hN hF hmin hcols hab hb
  refine ⟨?_, ?_⟩
  · intro x hx
    obtain ⟨f', hf'⟩ := h t FUEL (by rw [hx]; trivial)
    exact ⟨f', by rw [hf', hx]⟩
  · intro x hx
    obtain ⟨f', hf'⟩ := h t FUEL (by rw [hx]; trivial)
    exact ⟨f', x, by rw [hf', hx]⟩

end

/-- **The certificates of the whole-run theorems of C05 as one decidable predicate**: `Cert.check`
(K1–K6), `Cert.vpClosed` (closed sets hold only closure items of their kernels; the first half of
`Cert.checkVP`), `colsOk` (no action cell beyond the grammar's tokens) and `Cert.checkLA` (L1–L4: LR(1)
lookahead propagation and a table that holds every candidate action, i.e. is conflict-free) w.r.t. the
reference nullable/FIRST sets `Ref.analyses G` (proved exact in C17). The end-of-input discipline
(`eofOk`) follows (`eof_discipline_of_cert`). The driver evaluates it on every dumped automaton. -/
def wholeRunCert (G : Grammar) (A : Automaton) : Bool :=
  check G A && vpClosed G A && colsOk G A &&
  (match Ref.analyses G with
   | some An => checkLA G A (An.nullable.contains ·) (An.first.contains ·)
   | none => false)

theorem wholeRunCert_unpack {G : Grammar} {A : Automaton} (h : wholeRunCert G A = true) :
    check G A = true ∧ vpClosed G A = true ∧ colsOk G A = true ∧
    ∃ An, Ref.analyses G = some An ∧ checkLA G A (An.nullable.contains ·) (An.first.contains ·) = true := by
  simp only [wholeRunCert, Bool.and_eq_true] at h
  obtain ⟨⟨⟨h1, h2⟩, h3⟩, h5⟩ := h
  refine ⟨h1, h2, h3, ?_⟩
  cases ha : Ref.analyses G with
  | none => rw [ha] at h5; cases h5
  | some An => rw [ha] at h5; exact ⟨An, rfl, h5⟩

end GrmVerif.C05
