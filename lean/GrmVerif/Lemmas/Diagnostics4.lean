import GrmVerif.Lemmas.Diagnostics3
/-! Facts about the prescribed rows, and: every span on character boundaries is a `Split` (C19). -/
namespace GrmVerif.Diag
open GrmVerif.Newline

/-! ### the rows -/

/-- piece `k` of the span: `c0`, `c1`, … -/
def piece (c0 : List Char) (cs : List (List Char)) (k : Nat) : List Char := (c0 :: cs)[k]?.getD []

theorem specRows_length_le (first : Bool) (n : Nat) (pre c0 : List Char) (cs : List (List Char))
    (suf : List Char) : (specRows first n pre c0 cs suf).length ≤ cs.length + 1 := by
  induction cs generalizing first n pre c0 with
  | nil => simp only [specRows]; split <;> simp
  | cons c1 cs ih => simp only [specRows, List.length_cons]; have := ih false (n + 1) [] c1; omega

theorem specRows_length_ge (first : Bool) (n : Nat) (pre c0 : List Char) (cs : List (List Char))
    (suf : List Char) : cs.length ≤ (specRows first n pre c0 cs suf).length := by
  induction cs generalizing first n pre c0 with
  | nil => simp
  | cons c1 cs ih => simp only [specRows, List.length_cons]; have := ih false (n + 1) [] c1; omega

/-- the first call always prints at least one row -/
theorem specRows_first_ne_nil (n : Nat) (pre c0 : List Char) (cs : List (List Char))
    (suf : List Char) : specRows true n pre c0 cs suf ≠ [] := by
  cases cs <;> simp [specRows]

/-- number, leading text and underlined part of row `k` -/
theorem specRows_get (first : Bool) (n : Nat) (pre c0 : List Char) (cs : List (List Char))
    (suf : List Char) (k : Nat) (hk : k < (specRows first n pre c0 cs suf).length) :
    ((specRows first n pre c0 cs suf)[k]).num = n + k
    ∧ ((specRows first n pre c0 cs suf)[k]).pre = (if k = 0 then pre else [])
    ∧ ((specRows first n pre c0 cs suf)[k]).cov
        = (if k < cs.length then dropCR (piece c0 cs k) else piece c0 cs k) := by
  induction cs generalizing first n pre c0 k with
  | nil =>
    have hlen := specRows_length_le first n pre c0 [] suf
    have hk0 : k = 0 := by simp only [List.length_nil] at hlen; omega
    subst hk0
    have hne : specRows first n pre c0 [] suf = [⟨n, pre ++ (c0 ++ suf), pre, c0⟩] := by
      simp only [specRows] at hk ⊢
      split
      · next h => simp [h] at hk
      · rfl
    simp [hne, piece]
  | cons c1 cs ih =>
    cases k with
    | zero => simp [specRows, piece]
    | succ k =>
      simp only [specRows, List.length_cons, Nat.add_lt_add_iff_right] at hk
      have := ih false (n + 1) [] c1 k hk
      simp only [specRows, List.getElem_cons_succ, List.length_cons, Nat.add_lt_add_iff_right]
      refine ⟨by omega, ?_, ?_⟩
      · rw [this.2.1]; simp
      · rw [this.2.2]; simp [piece]

/-- the text one row contributes to the output -/
def rowStr (sw : List Char → Nat) (pfx : List Char) (uc : Char) (r : Row) : List Char :=
  rowText sw pfx uc r.num r.text r.pre r.cov

/-- the output is the rows joined by newlines, then a blank and the message -/
theorem renderRows_layout (sw : List Char → Nat) (pfx msg : List Char) (uc : Char)
    (rows : List Row) (h : rows ≠ []) :
    renderRows sw pfx msg uc rows
      = ['\n'].intercalate (rows.map (rowStr sw pfx uc)) ++ ' ' :: msg := by
  induction rows with
  | nil => exact absurd rfl h
  | cons r rs ih =>
    cases rs with
    | nil => simp [renderRows, rowStr, List.intercalate]
    | cons r' rs =>
      have := ih (by simp)
      simp only [renderRows, this]
      simp [List.intercalate, rowStr]

/-- the decimal digits of a number are one byte each, and there is at least one -/
theorem byteLen_natStr (n : Nat) : byteLen (natStr n) = (natStr n).length ∧ 0 < (natStr n).length := by
  have hd : natStr n = Nat.toDigits 10 n := Nat.toList_repr
  constructor
  · have : ∀ l : List Char, (∀ c ∈ l, c.isDigit = true) → byteLen l = l.length := by
      intro l
      induction l with
      | nil => intro _; rfl
      | cons c cs ih =>
        intro h
        have hc := h c (by simp)
        have h1 : c.utf8Size = 1 := by
          simp only [Char.isDigit, Bool.and_eq_true, decide_eq_true_eq] at hc
          have : c.val ≤ 127 := by
            have := hc.2
            exact Nat.le_trans (UInt32.le_iff_toNat_le.mp this) (by decide)
          simp [Char.utf8Size, this]
        simp only [byteLen, h1, List.length_cons, ih (fun c hc => h c (by simp [hc]))]; omega
    rw [hd]
    exact this _ (fun c hc => Nat.isDigit_of_mem_toDigits (by decide) (by decide) hc)
  · rw [hd]; exact Nat.length_toDigits_pos

/-! ### every span on character boundaries is a `Split` -/

/-- `b` is a character boundary of `s` (`0`, `byteLen s` and the offset of every character) -/
def isBoundary (s : List Char) (b : Nat) : Bool := (dropBytes b s).isSome

theorem dropBytes_split (b : Nat) (s t : List Char) (h : dropBytes b s = some t) :
    ∃ x, s = x ++ t ∧ byteLen x = b := by
  induction s generalizing b with
  | nil =>
    cases b with
    | zero => simp only [dropBytes, Option.some.injEq] at h; exact ⟨[], by simp [h], rfl⟩
    | succ b => simp [dropBytes] at h
  | cons c cs ih =>
    cases b with
    | zero => simp only [dropBytes, Option.some.injEq] at h; exact ⟨[], by simp [h], rfl⟩
    | succ b =>
      simp only [dropBytes] at h
      split at h
      · next hle =>
        obtain ⟨x, hx, hb⟩ := ih _ h
        exact ⟨c :: x, by simp [hx], by simp only [byteLen]; omega⟩
      · cases h

theorem dropBytes_add (a k : Nat) (s t : List Char) (h : dropBytes a s = some t) :
    dropBytes (a + k) s = dropBytes k t := by
  induction s generalizing a with
  | nil =>
    cases a with
    | zero => simp only [dropBytes, Option.some.injEq] at h; simp [h]
    | succ a => simp [dropBytes] at h
  | cons c cs ih =>
    cases a with
    | zero => simp only [dropBytes, Option.some.injEq] at h; simp [h]
    | succ a =>
      simp only [dropBytes] at h
      split at h
      · next hle =>
        have e : a + 1 + k = (a + k) + 1 := by omega
        rw [e]
        simp only [dropBytes]
        have : c.utf8Size ≤ a + k + 1 := by omega
        simp only [this, ↓reduceIte]
        have e2 : a + k + 1 - c.utf8Size = (a + 1 - c.utf8Size) + k := by omega
        rw [e2]
        exact ih _ h
      · cases h

/-- split at the last newline -/
theorem split_last_nl (x : List Char) :
    ∃ a pre, x = a ++ pre ∧ (a = [] ∨ a.getLast? = some '\n') ∧ '\n' ∉ pre := by
  induction x with
  | nil => exact ⟨[], [], rfl, Or.inl rfl, by simp⟩
  | cons c xs ih =>
    obtain ⟨a, pre, hx, ha, hpre⟩ := ih
    rcases ha with rfl | ha
    · by_cases hc : c = '\n'
      · exact ⟨[c], pre, by simp [hx], Or.inr (by simp [hc]), hpre⟩
      · exact ⟨[], c :: pre, by simp [hx], Or.inl rfl, by
          simp only [List.mem_cons, not_or]; exact ⟨fun e => hc e.symm, hpre⟩⟩
    · refine ⟨c :: a, pre, by simp [hx], Or.inr ?_, hpre⟩
      cases a with
      | nil => simp at ha
      | cons d ds => simpa [List.getLast?_cons_cons] using ha

/-- split at every newline -/
theorem split_pieces (y : List Char) :
    ∃ c0 cs, y = joinNl c0 cs ∧ '\n' ∉ c0 ∧ ∀ c ∈ cs, '\n' ∉ c := by
  induction y with
  | nil => exact ⟨[], [], rfl, by simp, by simp⟩
  | cons c ys ih =>
    obtain ⟨c0, cs, hy, h0, hcs⟩ := ih
    by_cases hc : c = '\n'
    · refine ⟨[], c0 :: cs, by simp [joinNl, hy, hc], by simp, ?_⟩
      intro x hx
      simp only [List.mem_cons] at hx
      rcases hx with rfl | hx
      · exact h0
      · exact hcs x hx
    · refine ⟨c :: c0, cs, ?_, ?_, hcs⟩
      · cases cs <;> simp [joinNl, hy]
      · simp only [List.mem_cons, not_or]; exact ⟨fun e => hc e.symm, h0⟩

/-- split at the first newline -/
theorem split_first_nl (w : List Char) :
    ∃ suf z, w = suf ++ z ∧ '\n' ∉ suf ∧ (z = [] ∨ z.head? = some '\n') := by
  induction w with
  | nil => exact ⟨[], [], rfl, by simp, Or.inl rfl⟩
  | cons c ws ih =>
    obtain ⟨suf, z, hw, hs, hz⟩ := ih
    by_cases hc : c = '\n'
    · exact ⟨[], c :: ws, rfl, by simp, Or.inr (by simp [hc])⟩
    · exact ⟨c :: suf, z, by simp [hw], by
        simp only [List.mem_cons, not_or]; exact ⟨fun e => hc e.symm, hs⟩, hz⟩

/-- **Every span `start ≤ stop` on character boundaries of a text is a well-formed `Split`.** -/
theorem split_exists (s : List Char) (start stop : Nat) (hle : start ≤ stop)
    (h1 : isBoundary s start = true) (h2 : isBoundary s stop = true) :
    ∃ d : Split, d.WF ∧ d.text = s ∧ d.start = start ∧ d.stop = stop := by
  simp only [isBoundary, Option.isSome_iff_exists] at h1 h2
  obtain ⟨t, ht⟩ := h1
  obtain ⟨t2, ht2⟩ := h2
  obtain ⟨x, hx, hxb⟩ := dropBytes_split _ _ _ ht
  have h3 : dropBytes (stop - start) t = some t2 := by
    have := dropBytes_add start (stop - start) s t ht
    rw [show start + (stop - start) = stop by omega, ht2] at this
    exact this.symm
  obtain ⟨y, hy, hyb⟩ := dropBytes_split _ _ _ h3
  obtain ⟨a, pre, hxa, ha, hpre⟩ := split_last_nl x
  obtain ⟨c0, cs, hyc, hc0, hcs⟩ := split_pieces y
  obtain ⟨suf, z, hw, hsuf, hz⟩ := split_first_nl t2
  refine ⟨⟨a, pre, c0, cs, suf, z⟩, ⟨ha, hpre, hc0, hcs, hsuf, hz⟩, ?_, ?_, ?_⟩
  · simp only [Split.text, Split.body, Split.cov]
    rw [hx, hy, hxa, hyc, hw]; simp
  · simp only [Split.start]; rw [← hxb, hxa, byteLen_append]
  · simp only [Split.stop, Split.start, Split.cov]
    rw [← hyc, hyb, ← byteLen_append, ← hxa, hxb]; omega

end GrmVerif.Diag
