import GrmVerif.Model.LexParse
import GrmVerif.Lemmas.LexUnescape
/-!
Specification of a rule line (`ruleLineSpec`): written with forward scans and with offsets that are
sums of the lengths of the pieces in front of the name — not the reverse scans and subtractions of
the code — so that "the span spells the name" can be read off it.
-/
namespace GrmVerif.LexParse
open GrmVerif.LexUnescape

/-- split at the last character satisfying `p`, scanning forward -/
def lastSplit (p : Char → Bool) : List Char → Option (List Char × Char × List Char)
  | [] => none
  | c :: cs =>
    match lastSplit p cs with
    | some (b, s, a) => some (c :: b, s, a)
    | none => if p c then some ([], c, cs) else none

/-- `s` without its trailing run of `p` characters, scanning forward -/
def dropTrailing (p : Char → Bool) : List Char → List Char
  | [] => []
  | c :: cs =>
    match dropTrailing p cs with
    | [] => if p c then [] else [c]
    | r => c :: r

/-- the regular-expression part: optional `<a,b>` prefix, then the one-pass escape rewriting -/
def reSpec (cfg : Cfg) (ws : Char → Bool) (re : List Char) :
    Except ErrKind (List (List Char) × List Char) :=
  match re with
  | '<' :: r =>
    match splitFirst '>' r with
    | none => .error .invalidStartState
    | some (names, rest) => .ok ((splitCommas names).map (trimBoth ws), unescapeSpec cfg rest)
  | _ => .ok ([], unescapeSpec cfg re)

/-- the optional `<[+-]state>` in front of the name, with the number of bytes it takes -/
def targetSpec : List Char → Option (Option (Nat × List Char) × Nat × List Char)
  | '<' :: r =>
    match splitFirst '>' r with
    | some (st, orig) => some (some (parseOps st), 1 + byteLen st + 1, orig)
    | none => none
  | post => some (none, 0, post)

/-- A rule line `pre ␣ [<target>] name`, split at the last space or tab of the line without its
trailing white space: `pre` (less unescaped trailing white space) is the regular expression, what
follows is an optional `<[+-]state>` and then `;`, `""`, `''` or a quoted name. The name span
starts after: `pre`, the separator, the `<..>` part if any, and the opening quote. -/
def ruleLineSpec (cfg : Cfg) (ws sp : Char → Bool) (raw : List Char) : Except (ErrKind × Nat) RuleLine :=
  match lastSplit sp (dropTrailing ws raw) with
  | none => .error (.missingSpace, 0)
  | some (pre, s, post) =>
    match targetSpec post with
    | none => .error (.invalidStartState, byteLen pre)
    | some (target, tlen, orig) =>
      let nameOff := byteLen pre + s.utf8Size
      if isSkipName orig then
        match reSpec cfg ws (trimEndUnescaped ws pre) with
        | .error k => .error (k, 0)
        | .ok (states, re) => .ok ⟨states, re, target, none, nameOff, nameOff⟩
      else if !quotedOk orig then .error (.invalidName, nameOff)
      else
        let name := (orig.drop 1).dropLast
        match reSpec cfg ws (trimEndUnescaped ws pre) with
        | .error k => .error (k, 0)
        | .ok (states, re) =>
          .ok ⟨states, re, target, some name, nameOff + tlen + 1, nameOff + tlen + 1 + byteLen name⟩

/-- the maximal runs of non-`p` characters of `s` with the byte offsets at which they start and
end; `cur` (reversed) is the run being read, begun at `st`; `off` is the offset of the next character -/
def wordsAt (p : Char → Bool) : List Char → List Char → Nat → Nat → List (List Char × Nat × Nat)
  | [], cur, st, off => if cur.isEmpty then [] else [(cur.reverse, st, off)]
  | c :: cs, cur, st, off =>
    if p c then
      (if cur.isEmpty then [] else [(cur.reverse, st, off)])
        ++ wordsAt p cs [] (off + c.utf8Size) (off + c.utf8Size)
    else wordsAt p cs (c :: cur) st (off + c.utf8Size)

/-- A declaration line: `%s…`/`%x…` keyword (the first run of non-blanks), then at least one name;
the names are the further maximal runs of non-blank characters, each with the offsets at which it
starts and ends; the first one that is not `[a-zA-Z][a-zA-Z0-9_.]*` is an error at its start. -/
def declLineSpec (ws : Char → Bool) (raw : List Char) :
    Except (DeclErr × Nat) (Bool × List (List Char × Nat × Nat)) :=
  match wordsAt ws (dropTrailing ws raw) [] 0 0 with
  | [] => .error (.unknownDeclaration, 0)
  | (kw, a, _) :: names =>
    if a ≠ 0 then .error (.unknownDeclaration, 0)      -- the line starts with a blank: no keyword
    else match declKind kw with
      | none => .error (.unknownDeclaration, 0)
      | some excl =>
        if names.isEmpty then .error (.unknownDeclaration, 0)
        else match firstInvalid names with
          | some e => .error (.invalidStartStateName, e)
          | none => .ok (excl, names)

/-! ### The reverse scans of the code are the forward scans of the specification -/

theorem trimEnd_snoc (p : Char → Bool) (s : List Char) (c : Char) :
    trimEnd p (s ++ [c]) = if p c then trimEnd p s else s ++ [c] := by
  unfold trimEnd
  by_cases h : p c = true <;> simp [h]

theorem dropTrailing_snoc (p : Char → Bool) (s : List Char) (c : Char) :
    dropTrailing p (s ++ [c]) = if p c then dropTrailing p s else s ++ [c] := by
  induction s with
  | nil => by_cases h : p c = true <;> simp [dropTrailing, h]
  | cons d s ih =>
    simp only [List.cons_append, dropTrailing, ih]
    by_cases h : p c = true
    · simp [h]
    · simp only [h]
      cases s <;> simp

theorem trimEnd_eq_dropTrailing (p : Char → Bool) (s : List Char) : trimEnd p s = dropTrailing p s := by
  have h : ∀ r : List Char, trimEnd p r.reverse = dropTrailing p r.reverse := by
    intro r
    induction r with
    | nil => simp [trimEnd, dropTrailing]
    | cons c r ih => rw [List.reverse_cons, trimEnd_snoc, dropTrailing_snoc, ih]
  simpa using h s.reverse

theorem splitLast_snoc (p : Char → Bool) (s : List Char) (c : Char) :
    splitLast p (s ++ [c]) =
      if p c then some (s, c, []) else (splitLast p s).map (fun t => (t.1, t.2.1, t.2.2 ++ [c])) := by
  unfold splitLast
  by_cases h : p c = true
  · simp [h]
  · simp only [List.reverse_append, List.reverse_cons, List.reverse_nil, List.nil_append,
      List.singleton_append, List.dropWhile_cons, List.takeWhile_cons, h]
    simp only [Bool.not_false, if_true, Bool.false_eq_true, if_false]
    cases List.dropWhile (fun c => !p c) s.reverse <;> simp

theorem lastSplit_snoc (p : Char → Bool) (s : List Char) (c : Char) :
    lastSplit p (s ++ [c]) =
      if p c then some (s, c, []) else (lastSplit p s).map (fun t => (t.1, t.2.1, t.2.2 ++ [c])) := by
  induction s with
  | nil => by_cases h : p c = true <;> simp [lastSplit, h]
  | cons d s ih =>
    simp only [List.cons_append, lastSplit, ih]
    by_cases h : p c = true
    · simp [h]
    · simp only [h, Bool.false_eq_true, if_false]
      cases lastSplit p s with
      | none => by_cases hd : p d = true <;> simp [hd]
      | some t => simp

theorem splitLast_eq_lastSplit (p : Char → Bool) (s : List Char) : splitLast p s = lastSplit p s := by
  have h : ∀ r : List Char, splitLast p r.reverse = lastSplit p r.reverse := by
    intro r
    induction r with
    | nil => simp [splitLast, lastSplit]
    | cons c r ih => rw [List.reverse_cons, splitLast_snoc, lastSplit_snoc, ih]
  simpa using h s.reverse

/-! ### Decompositions -/

theorem lastSplit_some (p : Char → Bool) (l b a : List Char) (x : Char)
    (h : lastSplit p l = some (b, x, a)) : l = b ++ x :: a ∧ p x = true := by
  induction l generalizing b with
  | nil => simp [lastSplit] at h
  | cons c cs ih =>
    simp only [lastSplit] at h
    cases hc : lastSplit p cs with
    | some t =>
      obtain ⟨b', x', a'⟩ := t
      simp only [hc, Option.some.injEq, Prod.mk.injEq] at h
      obtain ⟨hb, hx, ha⟩ := h
      subst hb; subst hx; subst ha
      obtain ⟨h1, h2⟩ := ih b' hc
      exact ⟨by rw [h1]; rfl, h2⟩
    | none =>
      simp only [hc] at h
      by_cases hp : p c = true
      · simp only [hp, if_true, Option.some.injEq, Prod.mk.injEq] at h
        obtain ⟨hb, hx, ha⟩ := h
        subst hb; subst hx; subst ha
        exact ⟨rfl, hp⟩
      · simp [hp] at h

theorem splitFirst_some (c : Char) (l a b : List Char) (h : splitFirst c l = some (a, b)) :
    l = a ++ c :: b := by
  induction l generalizing a with
  | nil => simp [splitFirst] at h
  | cons d ds ih =>
    simp only [splitFirst] at h
    by_cases hd : d = c
    · simp only [hd, if_true, Option.some.injEq, Prod.mk.injEq] at h
      obtain ⟨ha, hb⟩ := h
      subst ha; subst hb; subst hd; rfl
    · simp only [hd, if_false] at h
      cases hs : splitFirst c ds with
      | none => simp [hs] at h
      | some t =>
        obtain ⟨a', b'⟩ := t
        simp only [hs, Option.some.injEq, Prod.mk.injEq] at h
        obtain ⟨ha, hb⟩ := h
        subst ha; subst hb
        rw [ih a' hs]; rfl

theorem dropTrailing_prefix (p : Char → Bool) (s : List Char) :
    ∃ t, s = dropTrailing p s ++ t ∧ ∀ c ∈ t, p c = true := by
  induction s with
  | nil => exact ⟨[], rfl, by simp⟩
  | cons c cs ih =>
    obtain ⟨t, ht, hp⟩ := ih
    simp only [dropTrailing]
    cases hd : dropTrailing p cs with
    | nil =>
      rw [hd] at ht
      by_cases hc : p c = true
      · refine ⟨c :: cs, by simp [hc], ?_⟩
        intro x hx
        rcases List.mem_cons.mp hx with rfl | hx
        · exact hc
        · rw [ht] at hx; exact hp x (by simpa using hx)
      · refine ⟨t, by simp [hc]; simpa using ht, hp⟩
    | cons r rs =>
      rw [hd] at ht
      exact ⟨t, by simp [ht], hp⟩

theorem quote_size1 : ('\'' : Char).utf8Size = 1 := by decide
theorem quote_size2 : ('"' : Char).utf8Size = 1 := by decide

/-- a well-quoted name is `q name q'` with one-byte quotes -/
theorem quotedOk_shape (o : List Char) (h : quotedOk o = true) :
    ∃ q q', o = q :: ((o.drop 1).dropLast ++ [q']) ∧ q.utf8Size = 1 ∧ q'.utf8Size = 1 := by
  unfold quotedOk at h
  simp only [Bool.and_eq_true, decide_eq_true_eq, Bool.or_eq_true, beq_iff_eq] at h
  obtain ⟨hlen, hq⟩ := h
  match o, hlen, hq with
  | [], hlen, _ => simp [byteLen] at hlen
  | [c], hlen, hq =>
    exfalso
    rcases hq with ⟨h1, _⟩ | ⟨h1, _⟩ <;>
    · simp only [List.head?_cons, Option.some.injEq] at h1
      subst h1
      simp only [byteLen] at hlen
      revert hlen; decide
  | c :: d :: rest, _, hq =>
    have hne : (d :: rest) ≠ [] := by simp
    have hl : (d :: rest).dropLast ++ [(d :: rest).getLast hne] = d :: rest :=
      List.dropLast_concat_getLast hne
    have hlast : (c :: d :: rest).getLast? = some ((d :: rest).getLast hne) := by
      rw [List.getLast?_cons_cons, List.getLast?_eq_some_getLast hne]
    refine ⟨c, (d :: rest).getLast hne, ?_, ?_, ?_⟩
    · simp only [List.drop_one, List.tail_cons]; rw [hl]
    · rcases hq with ⟨h1, _⟩ | ⟨h1, _⟩ <;>
      · simp only [List.head?_cons, Option.some.injEq] at h1
        subst h1; decide
    · rcases hq with ⟨_, h2⟩ | ⟨_, h2⟩ <;>
      · rw [hlast] at h2
        simp only [Option.some.injEq] at h2
        rw [h2]; decide

/-! ### The model computes the specification -/

theorem parseStartStates_eq (cfg : Cfg) (hb : cfg.BOk) (ws : Char → Bool) (re : List Char) :
    parseStartStates cfg ws re = some (reSpec cfg ws re) := by
  unfold parseStartStates reSpec
  split
  · next r =>
    cases hsf : splitFirst '>' r with
    | none => simp [hsf]
    | some t => obtain ⟨a, b⟩ := t; simp [hsf, unescape_spec cfg hb]
  · next hne =>
    split
    · next r => exact absurd rfl (hne r)
    · simp [unescape_spec cfg hb]

theorem byteLen_cons (c : Char) (s : List Char) : byteLen (c :: s) = c.utf8Size + byteLen s := rfl

theorem lt_size : ('<' : Char).utf8Size = 1 := by decide
theorem gt_size : ('>' : Char).utf8Size = 1 := by decide

theorem targetOf_eq (post : List Char) :
    targetOf post = (targetSpec post).map (fun t => (t.1, t.2.2)) := by
  unfold targetOf targetSpec
  split
  · next r =>
    cases hsf : splitFirst '>' r with
    | none => simp [hsf]
    | some t => obtain ⟨a, b⟩ := t; simp [hsf]
  · next hne =>
    split
    · next r => exact absurd rfl (hne r)
    · rfl

/-- the pieces: `post` is the target text (of `tlen` bytes) followed by `orig_name` -/
theorem targetSpec_some (post : List Char) (target : Option (Nat × List Char)) (tlen : Nat)
    (orig : List Char) (h : targetSpec post = some (target, tlen, orig)) :
    ∃ tp, post = tp ++ orig ∧ byteLen tp = tlen := by
  unfold targetSpec at h
  split at h
  · next r =>
    cases hsf : splitFirst '>' r with
    | none => simp [hsf] at h
    | some t =>
      obtain ⟨st, o⟩ := t
      simp only [hsf, Option.some.injEq, Prod.mk.injEq] at h
      obtain ⟨_, h2, h3⟩ := h
      subst h2; subst h3
      refine ⟨'<' :: st ++ ['>'], ?_, ?_⟩
      · rw [splitFirst_some '>' r st o hsf]; simp
      · simp only [List.cons_append, byteLen_cons, byteLen_append, byteLen, lt_size, gt_size]; omega
  · simp only [Option.some.injEq, Prod.mk.injEq] at h
    obtain ⟨_, h2, h3⟩ := h
    subst h2; subst h3
    exact ⟨[], rfl, rfl⟩

/-- **rule-line splitting**: the model of `parse_rule` (reverse scans, offsets by subtraction)
returns, without panicking, what `ruleLineSpec` says — provided every separator character is one
byte long (true of space and tab, `isSpaceSep_size`). -/
theorem parseRuleLine_eq (cfg : Cfg) (hb : cfg.BOk) (ws sp : Char → Bool)
    (hsp : ∀ c, sp c = true → c.utf8Size = 1) (raw : List Char) :
    parseRuleLine cfg ws sp raw = some (ruleLineSpec cfg ws sp raw) := by
  unfold parseRuleLine ruleLineSpec
  simp only [trimEnd_eq_dropTrailing, splitLast_eq_lastSplit]
  cases hl : lastSplit sp (dropTrailing ws raw) with
  | none => rfl
  | some t =>
    obtain ⟨pre, s, post⟩ := t
    obtain ⟨hline, hs⟩ := lastSplit_some sp _ pre post s hl
    have hs1 := hsp s hs
    have hdrop : dropB (dropTrailing ws raw) (byteLen pre + 1) = some post := by
      have := dropB_append (pre ++ [s]) post
      rw [byteLen_append, byteLen_cons, hs1] at this
      simp only [byteLen, Nat.add_zero] at this
      rw [hline]; simpa using this
    simp only [hdrop, Option.bind_some, hs1, parseStartStates_eq cfg hb, Option.map_some]
    -- the target part
    have htgt := targetOf_eq post
    cases hts : targetSpec post with
    | none => simp [htgt, hts]
    | some t2 =>
      obtain ⟨target, tlen, orig⟩ := t2
      obtain ⟨tp, hpost, htl⟩ := targetSpec_some post target tlen orig hts
      simp only [htgt, hts, Option.map_some]
      by_cases hskip : isSkipName orig = true
      · simp only [hskip, if_true]
        cases reSpec cfg ws (trimEndUnescaped ws pre) with
        | error k => rfl
        | ok v => obtain ⟨a, b⟩ := v; rfl
      · simp only [hskip, Bool.false_eq_true, if_false]
        by_cases hq : quotedOk orig = true
        · simp only [hq, Bool.not_true, Bool.false_eq_true, if_false]
          obtain ⟨q, q', ho, hq1, hq2⟩ := quotedOk_shape orig hq
          have hlen : byteLen (dropTrailing ws raw) = byteLen pre + 1 + tlen + byteLen orig := by
            rw [hline, hpost]
            simp only [byteLen_append, byteLen_cons, hs1, htl]; omega
          have hbo : byteLen orig = byteLen ((orig.drop 1).dropLast) + 2 := by
            conv => lhs; rw [ho]
            simp only [byteLen_append, byteLen, hq1, hq2]; omega
          have e1 : byteLen (dropTrailing ws raw) - byteLen orig + 1 = byteLen pre + 1 + tlen + 1 := by omega
          have e2 : byteLen (dropTrailing ws raw) - byteLen orig + byteLen orig - 1
              = byteLen pre + 1 + tlen + 1 + byteLen ((orig.drop 1).dropLast) := by omega
          rw [e1, e2]
          cases reSpec cfg ws (trimEndUnescaped ws pre) with
          | error k => rfl
          | ok v => obtain ⟨a, b⟩ := v; rfl
        · simp [hq]

/-! ### Spans index the source -/

/-- the name span of `ruleLineSpec`, shifted by whatever precedes the line, cuts the name out of the
whole text -/
theorem ruleLineSpec_span (cfg : Cfg) (ws sp : Char → Bool) (raw : List Char) (r : RuleLine)
    (n : List Char) (h : ruleLineSpec cfg ws sp raw = .ok r) (hn : r.name = some n)
    (a b : List Char) :
    sliceB (a ++ raw ++ b) (byteLen a + r.spanStart) (byteLen a + r.spanEnd) = some n := by
  unfold ruleLineSpec at h
  cases hl : lastSplit sp (dropTrailing ws raw) with
  | none => simp [hl] at h
  | some t =>
    obtain ⟨pre, s, post⟩ := t
    obtain ⟨hline, _⟩ := lastSplit_some sp _ pre post s hl
    obtain ⟨trail, hraw, _⟩ := dropTrailing_prefix ws raw
    simp only [hl] at h
    cases hts : targetSpec post with
    | none => simp [hts] at h
    | some t2 =>
      obtain ⟨target, tlen, orig⟩ := t2
      obtain ⟨tp, hpost, htl⟩ := targetSpec_some post target tlen orig hts
      simp only [hts] at h
      by_cases hskip : isSkipName orig = true
      · simp only [hskip, if_true] at h
        cases hre : reSpec cfg ws (trimEndUnescaped ws pre) with
        | error k => simp [hre] at h
        | ok v =>
          obtain ⟨x, y⟩ := v
          simp only [hre, Except.ok.injEq] at h
          subst h; simp at hn
      · simp only [hskip, Bool.false_eq_true, if_false] at h
        by_cases hq : quotedOk orig = true
        · simp only [hq, Bool.not_true, Bool.false_eq_true, if_false] at h
          cases hre : reSpec cfg ws (trimEndUnescaped ws pre) with
          | error k => simp [hre] at h
          | ok v =>
            obtain ⟨x, y⟩ := v
            simp only [hre, Except.ok.injEq] at h
            subst h
            simp only [Option.some.injEq] at hn
            obtain ⟨q, q', ho, hq1, _⟩ := quotedOk_shape orig hq
            rw [hn] at ho
            have hall : a ++ raw ++ b = (a ++ pre ++ [s] ++ tp ++ [q]) ++ n ++ ([q'] ++ trail ++ b) := by
              rw [hraw, hline, hpost]; conv => lhs; rw [ho]
              simp
            have := sliceB_mid (a ++ pre ++ [s] ++ tp ++ [q]) n ([q'] ++ trail ++ b)
            rw [← hall] at this
            simp only [byteLen_append, byteLen, htl, hq1, Nat.add_zero] at this
            simp only
            have e1 : byteLen a + (byteLen pre + s.utf8Size + tlen + 1)
                = byteLen a + byteLen pre + s.utf8Size + tlen + 1 := by omega
            have e2 : byteLen a + (byteLen pre + s.utf8Size + tlen + 1 + byteLen n)
                = byteLen a + byteLen pre + s.utf8Size + tlen + 1 + byteLen n := by omega
            rw [hn, e1, e2]; exact this
        · simp [hq] at h

/-- a rule without a name carries an empty span -/
theorem ruleLineSpec_skip_span (cfg : Cfg) (ws sp : Char → Bool) (raw : List Char) (r : RuleLine)
    (h : ruleLineSpec cfg ws sp raw = .ok r) (hn : r.name = none) : r.spanStart = r.spanEnd := by
  unfold ruleLineSpec at h
  cases hl : lastSplit sp (dropTrailing ws raw) with
  | none => simp [hl] at h
  | some t =>
    obtain ⟨pre, s, post⟩ := t
    simp only [hl] at h
    cases hts : targetSpec post with
    | none => simp [hts] at h
    | some t2 =>
      obtain ⟨target, tlen, orig⟩ := t2
      simp only [hts] at h
      by_cases hskip : isSkipName orig = true
      · simp only [hskip, if_true] at h
        cases hre : reSpec cfg ws (trimEndUnescaped ws pre) with
        | error k => simp [hre] at h
        | ok v =>
          obtain ⟨x, y⟩ := v
          simp only [hre, Except.ok.injEq] at h
          subst h; rfl
      · simp only [hskip, Bool.false_eq_true, if_false] at h
        by_cases hq : quotedOk orig = true
        · simp only [hq, Bool.not_true, Bool.false_eq_true, if_false] at h
          cases hre : reSpec cfg ws (trimEndUnescaped ws pre) with
          | error k => simp [hre] at h
          | ok v =>
            obtain ⟨x, y⟩ := v
            simp only [hre, Except.ok.injEq] at h
            subst h; simp at hn
        · simp [hq] at h

/-! ### Declarations -/

theorem byteLen_eq_zero (u : List Char) (h : byteLen u = 0) : u = [] := by
  cases u with
  | nil => rfl
  | cons c cs => have := Char.utf8Size_pos c; simp only [byteLen] at h; omega

theorem splitWsAt_head (p : Char → Bool) (s : List Char) (off : Nat) :
    ∃ t rest, splitWsAt p s off = (t, off) :: rest := by
  induction s generalizing off with
  | nil => exact ⟨[], [], rfl⟩
  | cons c cs ih =>
    simp only [splitWsAt]
    by_cases hp : p c = true
    · simp only [hp, if_true]; exact ⟨[], _, rfl⟩
    · obtain ⟨t, rest, h⟩ := ih (off + c.utf8Size)
      simp only [hp, Bool.false_eq_true, if_false, h]; exact ⟨c :: t, rest, rfl⟩

/-- every piece of `RE_WS.split` sits in the text at the offset recorded for it -/
theorem splitWsAt_mem (p : Char → Bool) (s : List Char) :
    ∀ off t a, (t, a) ∈ splitWsAt p s off → ∃ u v, s = u ++ t ++ v ∧ a = off + byteLen u := by
  induction s with
  | nil =>
    intro off t a h
    simp only [splitWsAt, List.mem_singleton, Prod.mk.injEq] at h
    exact ⟨[], [], by simp [h.1], by simp [h.2, byteLen]⟩
  | cons c cs ih =>
    intro off t a h
    simp only [splitWsAt] at h
    by_cases hp : p c = true
    · simp only [hp, if_true, List.mem_cons, Prod.mk.injEq] at h
      rcases h with ⟨h1, h2⟩ | h
      · exact ⟨[], c :: cs, by simp [h1], by simp [h2, byteLen]⟩
      · obtain ⟨u, v, hs, ha⟩ := ih _ t a h
        exact ⟨c :: u, v, by simp [hs], by simp only [byteLen]; omega⟩
    · obtain ⟨t0, rest, hh⟩ := splitWsAt_head p cs (off + c.utf8Size)
      simp only [hp, Bool.false_eq_true, if_false, hh, List.mem_cons, Prod.mk.injEq] at h
      rcases h with ⟨h1, h2⟩ | h
      · have hm : (t0, off + c.utf8Size) ∈ splitWsAt p cs (off + c.utf8Size) := by rw [hh]; simp
        obtain ⟨u, v, hs, ha⟩ := ih _ t0 _ hm
        have hu : u = [] := byteLen_eq_zero u (by omega)
        subst hu
        exact ⟨[], v, by simp [h1, hs], by simp [h2, byteLen]⟩
      · have hm : (t, a) ∈ splitWsAt p cs (off + c.utf8Size) := by rw [hh]; simp [h]
        obtain ⟨u, v, hs, ha⟩ := ih _ t a hm
        exact ⟨c :: u, v, by simp [hs], by simp only [byteLen]; omega⟩

theorem takeWhile_append_drop (q : Char → Bool) (l : List Char) :
    l.takeWhile q ++ l.drop (l.takeWhile q).length = l := by
  induction l with
  | nil => rfl
  | cons c cs ih =>
    by_cases h : q c = true
    · simp [h, ih]
    · simp [h]

/-- every name a declaration line declares is cut out of the whole text by its span -/
theorem parseDeclLine_span (ws : Char → Bool) (raw : List Char) (excl : Bool)
    (names : List (List Char × Nat × Nat)) (h : parseDeclLine ws raw = .ok (excl, names))
    (n : List Char) (a b : Nat) (hm : (n, a, b) ∈ names) (before after : List Char) :
    sliceB (before ++ raw ++ after) (byteLen before + a) (byteLen before + b) = some n := by
  unfold parseDeclLine at h
  simp only at h
  split at h
  · simp at h
  · next ex hk =>
    split at h
    · simp at h
    · split at h
      · simp at h
      · simp only [Except.ok.injEq, Prod.mk.injEq] at h
        obtain ⟨_, hnames⟩ := h
        rw [← hnames] at hm
        simp only [List.mem_map, List.mem_filter, Prod.mk.injEq] at hm
        obtain ⟨⟨t, a'⟩, ⟨hmem, _⟩, ht, ha, hb⟩ := hm
        simp only at ht ha hb
        subst ht; subst ha; subst hb
        obtain ⟨u, v, hs, hoff⟩ := splitWsAt_mem ws _ _ t a' hmem
        obtain ⟨trail, hraw, _⟩ := dropTrailing_prefix ws raw
        rw [← trimEnd_eq_dropTrailing] at hraw
        -- line = decl ++ (lead ++ params), params = u ++ t ++ v
        have hL := takeWhile_append_drop (fun c => !ws c) (trimEnd ws raw)
        have hR := List.takeWhile_append_dropWhile (p := ws)
          (l := (trimEnd ws raw).drop ((trimEnd ws raw).takeWhile (fun c => !ws c)).length)
        generalize (trimEnd ws raw).takeWhile (fun c => !ws c) = D at *
        generalize (trimEnd ws raw).drop D.length = R at *
        generalize R.takeWhile ws = lead at *
        rw [hs] at hR
        have hall : before ++ raw ++ after
            = (before ++ D ++ lead ++ u) ++ t ++ (v ++ trail ++ after) := by
          rw [hraw, ← hL, ← hR]; simp
        have := sliceB_mid (before ++ D ++ lead ++ u) t (v ++ trail ++ after)
        rw [← hall] at this
        simp only [byteLen_append] at this
        have e1 : byteLen before + a' = byteLen before + byteLen D + byteLen lead + byteLen u := by omega
        have e2 : byteLen before + (a' + byteLen t)
            = byteLen before + byteLen D + byteLen lead + byteLen u + byteLen t := by omega
        rw [e1, e2]; exact this

/-! #### the declaration model computes `declLineSpec` -/

/-- a run of characters as a word starting at `st` (nothing if empty) -/
def wordOf (w : List Char) (st : Nat) : List (List Char × Nat × Nat) :=
  if w.isEmpty then [] else [(w, st, st + byteLen w)]

/-- the non-empty pieces with their start and end offsets -/
def spansOf (l : List (List Char × Nat)) : List (List Char × Nat × Nat) :=
  (l.filter (fun t => !t.1.isEmpty)).map (fun t => (t.1, t.2, t.2 + byteLen t.1))

theorem spansOf_cons (t : List Char) (a : Nat) (rest : List (List Char × Nat)) :
    spansOf ((t, a) :: rest) = wordOf t a ++ spansOf rest := by
  unfold spansOf wordOf
  cases t <;> simp

theorem wordsAt_eq (p : Char → Bool) (s : List Char) :
    ∀ (cur : List Char) (st off : Nat), st + byteLen cur.reverse = off →
      wordsAt p s cur st off =
        match splitWsAt p s off with
        | (t, _) :: rest => wordOf (cur.reverse ++ t) st ++ spansOf rest
        | [] => [] := by
  induction s with
  | nil =>
    intro cur st off h
    simp only [wordsAt, splitWsAt, wordOf, spansOf, List.append_nil, List.filter_nil, List.map_nil]
    cases cur with
    | nil => simp
    | cons c cs => simp [← h]
  | cons c cs ih =>
    intro cur st off h
    simp only [wordsAt, splitWsAt]
    by_cases hp : p c = true
    · simp only [hp, if_true]
      rw [ih [] _ _ (by simp [byteLen])]
      obtain ⟨t, rest, hh⟩ := splitWsAt_head p cs (off + c.utf8Size)
      simp only [hh, List.reverse_nil, List.nil_append, List.append_nil, spansOf_cons]
      congr 1
      unfold wordOf
      cases cur with
      | nil => simp
      | cons d ds => simp [← h]
    · simp only [hp, Bool.false_eq_true, if_false]
      rw [ih (c :: cur) st _ (by simp only [List.reverse_cons, byteLen_append, byteLen]; omega)]
      obtain ⟨t, rest, hh⟩ := splitWsAt_head p cs (off + c.utf8Size)
      simp [hh]

theorem wordsAt_zero (p : Char → Bool) (s : List Char) (off : Nat) :
    wordsAt p s [] off off = spansOf (splitWsAt p s off) := by
  rw [wordsAt_eq p s [] off off (by simp [byteLen])]
  obtain ⟨t, rest, hh⟩ := splitWsAt_head p s off
  simp [hh, spansOf_cons]

theorem splitWsAt_append_nonsep (p : Char → Bool) (D R : List Char) (hD : ∀ c ∈ D, p c = false)
    (off : Nat) :
    splitWsAt p (D ++ R) off =
      match splitWsAt p R (off + byteLen D) with
      | (t, _) :: rest => (D ++ t, off) :: rest
      | [] => [] := by
  induction D generalizing off with
  | nil =>
    obtain ⟨t, rest, hh⟩ := splitWsAt_head p R off
    simp [byteLen, hh]
  | cons d ds ih =>
    have hd : p d = false := hD d (by simp)
    simp only [List.cons_append, splitWsAt, hd, Bool.false_eq_true, if_false]
    rw [ih (fun c hc => hD c (by simp [hc]))]
    have e : off + d.utf8Size + byteLen ds = off + byteLen (d :: ds) := by simp only [byteLen]; omega
    rw [e]
    obtain ⟨t, rest, hh⟩ := splitWsAt_head p R (off + byteLen (d :: ds))
    simp [hh]

theorem spansOf_lead (p : Char → Bool) (lead params : List Char) (hl : ∀ c ∈ lead, p c = true)
    (off : Nat) :
    spansOf (splitWsAt p (lead ++ params) off) = spansOf (splitWsAt p params (off + byteLen lead)) := by
  induction lead generalizing off with
  | nil => simp [byteLen]
  | cons l ls ih =>
    have h1 : p l = true := hl l (by simp)
    simp only [List.cons_append, splitWsAt, h1, if_true, spansOf_cons, wordOf, List.isEmpty_nil,
      List.nil_append]
    rw [ih (fun c hc => hl c (by simp [hc]))]
    simp only [byteLen]
    congr 2; omega

theorem spansOf_start_ge (p : Char → Bool) (s : List Char) (off : Nat) (n : List Char) (a b : Nat)
    (h : (n, a, b) ∈ spansOf (splitWsAt p s off)) : off ≤ a := by
  simp only [spansOf, List.mem_map, List.mem_filter, Prod.mk.injEq] at h
  obtain ⟨⟨t, a'⟩, ⟨hm, _⟩, _, ha, _⟩ := h
  obtain ⟨u, v, _, hoff⟩ := splitWsAt_mem p s off t a' hm
  simp only at ha; omega

theorem spansOf_nonempty (p : Char → Bool) (c : Char) (cs : List Char) (hc : p c = false) (off : Nat) :
    spansOf (splitWsAt p (c :: cs) off) ≠ [] := by
  obtain ⟨t, rest, hh⟩ := splitWsAt_head p cs (off + c.utf8Size)
  simp [splitWsAt, hc, hh, spansOf_cons, wordOf]

theorem mem_takeWhile_sat (q : Char → Bool) (l : List Char) (c : Char) (h : c ∈ l.takeWhile q) :
    q c = true := by
  induction l with
  | nil => simp at h
  | cons d ds ih =>
    by_cases hd : q d = true
    · simp only [List.takeWhile_cons, hd, if_true, List.mem_cons] at h
      rcases h with rfl | h
      · exact hd
      · exact ih h
    · simp [hd] at h

theorem dropWhile_head (q : Char → Bool) (l : List Char) (c : Char) (cs : List Char)
    (h : l.dropWhile q = c :: cs) : q c = false := by
  induction l with
  | nil => simp at h
  | cons d ds ih =>
    by_cases hd : q d = true
    · simp only [List.dropWhile_cons, hd, if_true] at h; exact ih h
    · simp only [List.dropWhile_cons, hd, Bool.false_eq_true, if_false] at h
      have := (List.cons.inj h).1; subst this; simpa using hd

theorem drop_takeWhile_eq_dropWhile (q : Char → Bool) (l : List Char) :
    l.drop (l.takeWhile q).length = l.dropWhile q := by
  induction l with
  | nil => rfl
  | cons c cs ih =>
    by_cases h : q c = true
    · simp [h, ih]
    · simp [h]

/-- **declaration lines**: the model (`RE_WS.split`, pointer offsets, keyword cut at the first blank)
computes the specification (maximal runs of non-blanks) -/
theorem parseDeclLine_eq (ws : Char → Bool) (raw : List Char) :
    parseDeclLine ws raw = declLineSpec ws raw := by
  unfold parseDeclLine declLineSpec
  simp only [trimEnd_eq_dropTrailing]
  generalize dropTrailing ws raw = line
  have hL := takeWhile_append_drop (fun c => !ws c) line
  have hDn : ∀ c ∈ line.takeWhile (fun c => !ws c), ws c = false := by
    intro c hc; simpa using mem_takeWhile_sat _ line c hc
  rw [drop_takeWhile_eq_dropWhile] at hL ⊢
  generalize hD : line.takeWhile (fun c => !ws c) = D at *
  have hRhead : ∀ c cs, line.dropWhile (fun c => !ws c) = c :: cs → ws c = true := by
    intro c cs h; simpa using dropWhile_head _ line c cs h
  generalize hR : line.dropWhile (fun c => !ws c) = R at *
  have hlead : ∀ c ∈ R.takeWhile ws, ws c = true := fun c hc => mem_takeWhile_sat ws R c hc
  have hRsplit := List.takeWhile_append_dropWhile (p := ws) (l := R)
  -- the words of the line
  have hwords : wordsAt ws line [] 0 0
      = wordOf D 0 ++ (if R.isEmpty then [] else
          spansOf (splitWsAt ws (R.dropWhile ws) (byteLen D + byteLen (R.takeWhile ws)))) := by
    rw [wordsAt_zero, ← hL, splitWsAt_append_nonsep ws D R hDn 0]
    cases hRc : R with
    | nil => cases D <;> simp [splitWsAt, spansOf, wordOf]
    | cons r rs =>
      have hr : ws r = true := hRhead r rs hRc
      simp only [splitWsAt, hr, if_true, List.append_nil, spansOf_cons, List.isEmpty_cons,
        Bool.false_eq_true, if_false, Nat.zero_add]
      congr 1
      have h1 : (r :: rs).takeWhile ws = r :: rs.takeWhile ws := by simp [hr]
      have h2 : (r :: rs).dropWhile ws = rs.dropWhile ws := by simp [hr]
      rw [h1, h2]
      have := spansOf_lead ws (rs.takeWhile ws) (rs.dropWhile ws)
        (fun c hc => mem_takeWhile_sat ws rs c hc) (byteLen D + r.utf8Size)
      rw [List.takeWhile_append_dropWhile] at this
      rw [this]; simp only [byteLen]; congr 2; omega
  rw [hwords]
  have hN : ∀ off, ((splitWsAt ws (R.dropWhile ws) off).filter (fun t => !t.1.isEmpty)).map
      (fun t => (t.1, t.2, t.2 + byteLen t.1)) = spansOf (splitWsAt ws (R.dropWhile ws) off) :=
    fun _ => rfl
  simp only [hN]
  cases hDc : D with
  | nil =>
    -- no keyword: the line is empty or starts with a blank
    simp only [declKind, wordOf, List.isEmpty_nil, if_true, List.nil_append, byteLen, Nat.zero_add]
    cases hRc : R with
    | nil => simp
    | cons r rs =>
      have hr : ws r = true := hRhead r rs hRc
      simp only [List.isEmpty_cons, Bool.false_eq_true, if_false]
      cases hNc : spansOf (splitWsAt ws ((r :: rs).dropWhile ws) (byteLen ((r :: rs).takeWhile ws))) with
      | nil => rfl
      | cons w ws' =>
        obtain ⟨kw, a, b⟩ := w
        have hge := spansOf_start_ge ws _ _ kw a b (by rw [hNc]; simp)
        have hpos : 0 < byteLen ((r :: rs).takeWhile ws) := by
          have := Char.utf8Size_pos r
          simp only [List.takeWhile_cons, hr, if_true, byteLen]; omega
        have ha : a ≠ 0 := by omega
        simp [ha]
  | cons d ds =>
    simp only [wordOf, List.isEmpty_cons, Bool.false_eq_true, if_false, List.singleton_append,
      ne_eq, not_true_eq_false, Nat.zero_add]
    cases hk : declKind (d :: ds) with
    | none => rfl
    | some excl =>
      simp only
      cases hRc : R with
      | nil => simp
      | cons r rs =>
        simp only [List.isEmpty_cons, Bool.false_eq_true, if_false]
        cases hpc : (r :: rs).dropWhile ws with
        | nil => simp [splitWsAt, spansOf]
        | cons c cs =>
          have hc : ws c = false := dropWhile_head ws (r :: rs) c cs hpc
          have hne := spansOf_nonempty ws c cs hc (byteLen (d :: ds) + byteLen ((r :: rs).takeWhile ws))
          simp only [List.isEmpty_cons, Bool.false_eq_true, if_false]
          cases hNc : spansOf (splitWsAt ws (c :: cs) (byteLen (d :: ds) + byteLen ((r :: rs).takeWhile ws))) with
          | nil => exact absurd hNc hne
          | cons w ws' =>
            simp only [List.isEmpty_cons, Bool.false_eq_true, if_false]
            cases firstInvalid (w :: ws') <;> rfl

/-! ### `trim_end_unescaped` -/

theorem trimEnd_append (ws : Char → Bool) (body tail : List Char)
    (hbody : ∀ c, body.getLast? = some c → ws c = false) (htail : ∀ c ∈ tail, ws c = true) :
    trimEnd ws (body ++ tail) = body := by
  unfold trimEnd
  rw [List.reverse_append, List.dropWhile_append_of_pos (by simpa using htail)]
  cases hr : body.reverse with
  | nil => simp [List.reverse_eq_nil_iff.mp hr]
  | cons c r =>
    have : body.getLast? = some c := by rw [← List.head?_reverse, hr]; rfl
    rw [List.dropWhile_cons, hbody c this]
    simp [← hr]

theorem trimEndUnescaped_eq (ws : Char → Bool) (body tail : List Char)
    (hbody : ∀ c, body.getLast? = some c → ws c = false) (htail : ∀ c ∈ tail, ws c = true) :
    trimEndUnescaped ws (body ++ tail) =
      if tail = [] then body
      else if trailingBackslashes body % 2 = 1 then body ++ tail.take 1 else body := by
  unfold trimEndUnescaped
  simp only [trimEnd_append ws body tail hbody htail, List.length_append]
  cases tail with
  | nil => simp
  | cons t ts =>
    have : ¬ (body.length = body.length + (ts.length + 1)) := by omega
    simp only [List.length_cons, this, if_false, reduceCtorEq]
    by_cases hodd : trailingBackslashes body % 2 = 1
    · simp [hodd, List.take_append, List.take_of_length_le]
    · simp [hodd]

/-! ### Flags -/

theorem effectiveFlags_getElem? (dflt hdr bld : List (Option Bool)) (i : Nat) (d h b : Option Bool)
    (hd : dflt[i]? = some d) (hh : hdr[i]? = some h) (hb : bld[i]? = some b) :
    (effectiveFlags dflt hdr bld)[i]? = some ((b.or h).or d) := by
  simp [effectiveFlags, withDefaults, mergeOurs, List.getElem?_zipWith, hd, hh, hb]

end GrmVerif.LexParse
