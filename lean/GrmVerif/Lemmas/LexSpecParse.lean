import GrmVerif.Model.LexSpecParse
import GrmVerif.Lemmas.LexParse
/-!
Specification of the whole-specification parse (`specParse`), written over the LINES of the text:

* the text after the `%grmtools` section is split at every line separator into lines, each with the
  byte offset at which it starts (`splitLinesAt`);
* declarations section (`declSpec`): a line is skipped if it is blank or (when comments are allowed)
  its first non-blank characters are `//`; the first line whose first non-blank characters are `%%`
  ends the section and what follows `%%` and spaces/tabs on that line is the first line of the rules
  section; every other line is a declaration line, from its first non-blank character
  (`declLineStep`); no `%%` line at all is `PrematureEnd` at the end of the text;
* rules section (`ruleSpec`): empty lines and comment lines are skipped; a line starting with a blank
  is `VerbatimNotSupported` (span = the line) and parsing goes on; a line starting with `%%` ends the
  section — if anything but white space follows it anywhere, `RoutinesNotSupported` at that line;
  every other line is a rule line (`ruleStepSpec`);
* the state (start states, rules, errors so far) is threaded through the lines in order; an error
  other than a duplicate or verbatim line ends the parse with the errors so far plus that error.

No byte offset is ever used to slice, there is no fuel: the functions are structural recursions over
the list of lines.
-/
namespace GrmVerif.LexSpecParse
open GrmVerif.LexUnescape GrmVerif.LexParse

/-- a line: the byte offset at which it starts, its characters (no line separator) -/
abbrev Line := Nat × List Char

/-- the lines of `s` (split at EVERY line separator: `a\r\nb` has an empty line in the middle),
`off` = offset of `s` -/
def splitLinesAt : List Char → Nat → List Line
  | [], off => [(off, [])]
  | c :: cs, off =>
    if isLineSep c then (off, []) :: splitLinesAt cs (off + c.utf8Size)
    else
      match splitLinesAt cs (off + c.utf8Size) with
      | [] => [(off, [c])]       -- unreachable: the result is never empty
      | (_, l) :: ls => (off, c :: l) :: ls

/-! ### One rule line in the context of the states and rules so far -/

/-- the `if !dupe { … }` part: restriction and regular expression (`reSpec`), lookups, `Rule::new` -/
def pushRuleSpec (env : Env) (i : Nat) (pre : List Char) (name : Option (List Char)) (span : Nat × Nat)
    (tgt : Option (Nat × Nat)) (st : PState) : Except (List Err) PState :=
  pushParsed env i name span tgt st (reSpec env.cfg isPWS (trimEndUnescaped isPWS pre))

/-- A rule line `raw` at offset `i`: split as in `ruleLineSpec` (`pre ␣ [<target>] name`); then, in
this order: unknown target state; invalid name; a name already carried by a rule → one more
occurrence of `DuplicateName`, nothing else is looked at; otherwise restriction and regular
expression, unknown restriction states, regex error (all at `i`), and the rule is appended with
the next token id. -/
def ruleStepSpec (env : Env) (i : Nat) (raw : List Char) (st : PState) : Except (List Err) PState :=
  match lastSplit isSpaceSep (dropTrailing isPWS raw) with
  | none => .error (st.errs ++ [mkErr .missingSpace i])
  | some (pre, s, post) =>
    match targetSpec post with
    | none => .error (st.errs ++ [mkErr .invalidStartState (i + byteLen pre)])
    | some (target, tlen, orig) =>
      let nameOff := i + byteLen pre + s.utf8Size
      match resolveTarget st.states target with
      | none => .error (st.errs ++ [mkErr .unknownStartState nameOff])
      | some tgt =>
        if isSkipName orig then pushRuleSpec env i pre none (nameOff, nameOff) tgt st
        else if !quotedOk orig then .error (st.errs ++ [mkErr .invalidName nameOff])
        else
          let name := (orig.drop 1).dropLast
          let span := (nameOff + tlen + 1, nameOff + tlen + 1 + byteLen name)
          match findRule st.rules name with
          | some r => .ok { st with errs := addDup st.errs .duplicateName r.span span }
          | none => pushRuleSpec env i pre (some name) span tgt st

/-! ### The two sections -/

/-- declarations section over the remaining lines; `len` = length of the whole text. Returns the
lines of the rules section. -/
def declSpec (env : Env) (len : Nat) : List Line → PState → Except (List Err) (List Line × PState)
  | [], st => .error (st.errs ++ [mkErr .prematureEnd len])
  | (off, l) :: ls, st =>
    let t := l.dropWhile isPWS
    let o := off + byteLen (l.takeWhile isPWS)
    if t.isEmpty then declSpec env len ls st
    else if env.comments && ['/', '/'].isPrefixOf t then declSpec env len ls st
    else if ['%', '%'].isPrefixOf t then
      let a := t.drop 2
      .ok ((o + 2 + byteLen (a.takeWhile isSpaceSep), a.dropWhile isSpaceSep) :: ls, st)
    else
      match declLineStep o t st with
      | .error es => .error es
      | .ok (_, st') => declSpec env len ls st'

/-- every remaining character is white space -/
def allBlank (ls : List Line) : Bool := ls.all (fun x => x.2.all isPWS)

/-- rules section over the remaining lines; returns the state at the end of the section -/
def ruleSpec (env : Env) : List Line → PState → Except (List Err) PState
  | [], st => .ok st
  | (off, l) :: ls, st =>
    match l with
    | [] => ruleSpec env ls st
    | c :: _ =>
      if env.comments && ['/', '/'].isPrefixOf l then ruleSpec env ls st
      else if isPWS c then
        ruleSpec env ls { st with errs := st.errs ++ [⟨.verbatimNotSupported, [(off, off + byteLen l)]⟩] }
      else if ['%', '%'].isPrefixOf l then
        if (l.drop 2).all isPWS && allBlank ls then .ok st
        else .error (st.errs ++ [mkErr .routinesNotSupported off])
      else
        match ruleStepSpec env off l st with
        | .error es => .error es
        | .ok st' => ruleSpec env ls st'

/-- the end of the parse: the errors collected, if any, else the definition -/
def specEnd (r : Except (List Err) PState) : Except (List Err) (List StartState × List Rule) :=
  match r with
  | .error es => .error es
  | .ok st => finish st

def specRules (env : Env) (r : Except (List Err) (List Line × PState)) :
    Except (List Err) (List StartState × List Rule) :=
  match r with
  | .error es => .error es
  | .ok (ls, st) => specEnd (ruleSpec env ls st)

/-- the specification of `LexParser::new_with_lex_flags(pre ++ body, |pre|, flags)` -/
def specParse (env : Env) (pre body : List Char) : Except (List Err) (List StartState × List Rule) :=
  specRules env (declSpec env (byteLen pre + byteLen body) (splitLinesAt body (byteLen pre)) initState)

end GrmVerif.LexSpecParse
