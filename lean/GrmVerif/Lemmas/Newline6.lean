import GrmVerif.Lemmas.Newline3
/-! Helper lemmas for C19: `byte_to_line_byte` returns the start of the line. -/
namespace GrmVerif.Newline

/-- in a strictly increasing list the entries `≤ b` are a prefix, and the last of them sits at
index `countP - 1` -/
theorem getElem_countP_pred (l : List Nat) (b : Nat) (hs : l.Pairwise (· < ·))
    (h : 0 < l.countP (· ≤ b)) :
    l[l.countP (· ≤ b) - 1]? = some ((l.filter (· ≤ b)).getLast?.getD 0) := by
  induction l with
  | nil => simp at h
  | cons x xs ih =>
    have hs' := (List.pairwise_cons.mp hs).2
    have hgt := (List.pairwise_cons.mp hs).1
    by_cases hx : x ≤ b
    · by_cases h0 : xs.countP (· ≤ b) = 0
      · have hf : xs.filter (· ≤ b) = [] := by
          rw [List.filter_eq_nil_iff]
          intro y hy
          have := (List.countP_eq_zero.mp h0) y hy
          simpa using this
        simp [hx, h0, hf]
      · have ih' := ih hs' (by omega)
        have hne : xs.filter (· ≤ b) ≠ [] := by
          intro hf
          apply h0
          rw [List.countP_eq_length_filter, hf]; rfl
        obtain ⟨y, ys, hys⟩ := List.exists_cons_of_ne_nil hne
        have hidx : (x :: xs).countP (· ≤ b) - 1 = (xs.countP (· ≤ b) - 1) + 1 := by
          simp [List.countP_cons, hx]; omega
        rw [hidx, List.getElem?_cons_succ, ih']
        simp [hx, hys, List.getLast?_cons_cons]
    · have h0 : xs.countP (· ≤ b) = 0 := by
        rw [List.countP_eq_zero]; intro y hy; have := hgt y hy; simp; omega
      simp [hx, h0] at h

theorem byteToLineByte_ofText (s : List Char) (byte : Nat) (hb : byte ≤ byteLen s) :
    byteToLineByte (ofText s) byte = some (lineStartOf (ofText s).newlines byte) := by
  have hsorted := ofText_sorted s
  have hcount : (ofText s).newlines.countP (· ≤ byte) = 1 + nlBefore 0 s byte := by
    simp only [ofText, List.countP_cons, Nat.zero_le, decide_true, ↓reduceIte, countP_nlsFrom]
    omega
  have hle : (ofText s).newlines.countP (· ≤ byte) ≤ (ofText s).newlines.length :=
    List.countP_le_length
  unfold byteToLineByte
  rw [byteToLineNum_ofText s byte hb]
  simp only [Option.bind_some, lineNumToByte]
  have h1 : ¬ (1 + nlBefore 0 s byte > (ofText s).newlines.length) := by omega
  have h2 : ¬ (1 + nlBefore 0 s byte = 0) := by omega
  simp only [h1, decide_false, Bool.false_or, beq_iff_eq, h2, ↓reduceIte]
  have := getElem_countP_pred (ofText s).newlines byte hsorted (by omega)
  rw [hcount] at this
  rw [this]; rfl

end GrmVerif.Newline
