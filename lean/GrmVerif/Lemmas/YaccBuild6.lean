import GrmVerif.Lemmas.YaccBuild5
/-!
C10, stage A: the built grammar as a function of the AST (`build_shape`), the declarative reading
of `resolveSyms`, and the consistency of `prod_to_rule` with `rule_to_prods`.
-/
namespace GrmVerif.YaccBuild
open GrmVerif

theorem specialNames_head (cfg : Cfg) (a : AST) (k : Kind) (us : Str) :
    (specialNames cfg a k)[0]? = some (mkCtx cfg a k us).startName := by
  rcases mkCtx_shape cfg a k us with ⟨_, _, h⟩ | ⟨_, _, _, _, _, h⟩ <;> rw [h] <;> rfl

/-- everything the proofs of the property theorems use about a successfully built grammar -/
structure Built (cfg : Cfg) (a : AST) (k : Kind) (g : IGrammar) (us : Str) (tgt : Nat) (added : List PRec)
    (low : List (List Nat)) : Prop where
  start : ∃ sp, a.start = some (us, sp)
  names : g.ruleNames.map (·.1) = specialNames cfg a k ++ userNames a
  shape : AddedShape cfg a k (mkCtx cfg a k us) tgt added low
  tgt : (mkCtx cfg a k us).rmap us = some tgt
  implicitRule : g.implicitRule = (mkCtx cfg a k us).implName.bind (mkCtx cfg a k us).rmap
  len : g.recs.length = a.prods.length + added.length
  addedRecs : ∀ i, a.prods.length ≤ i → g.recs[i]? = added[i - a.prods.length]?
  userRecs : ∀ (i : Nat) (p : AProd), a.prods[i]? = some p →
    ∃ ridx r, addedRules a k ≤ ridx ∧ userRec (mkCtx cfg a k us) ridx p = some r ∧ g.recs[i]? = some r
  lowRp : ∀ q, q < addedRules a k → g.rulesProds[q]? = low[q]?
  startProd : g.startProd = a.prods.length
  order : (userNames a).Nodup → ∀ (j : Nat) (r : ARule), a.rules[j]? = some r →
    g.rulesProds[addedRules a k + j]? = some r.pidxs ∧ g.actiontypes[addedRules a k + j]? = some r.actiont

theorem build_shape {cfg : Cfg} {a : AST} {k : Kind} {g : IGrammar} (hc : cfgOk cfg = true)
    (h : buildGrammar cfg a k = some g) : ∃ us tgt added low, Built cfg a k g us tgt added low := by
  obtain ⟨us, sp, st, hstart, hm, hu, hsp, hrn, _, _, _, _, hrp, hat, hir, _⟩ := build_fields h
  obtain ⟨tgt, added, low, htgt, hshape, hlow, hm'⟩ := mainLoop_split hc a k us hm
  have ok := mkCtx_ok hc a k us
  have hast := mkCtx_ast cfg a k us
  have hR0 := specialNames_length cfg a k
  have hfr := userPhase_frame ok (userNames a) _ st (fun _ hn => hn) hm'
  rw [hR0] at hfr
  have hslots := unwrapAll_spec _ _ hu
  have hlow0 : low[0]? = some [a.prods.length] := by
    rcases hshape with ⟨_, _, _, _, hl⟩ | ⟨_, _, _, _, _, _, _, _, _, hl⟩ <;> rw [hl] <;> rfl
  have hpos : 0 < addedRules a k := by unfold addedRules; cases k <;> cases a.implicitTokens <;> simp
  have hlowRp : ∀ q, q < addedRules a k → g.rulesProds[q]? = low[q]? := by
    intro q hq
    rw [hrp, hfr.rpLow q hq]
    exact List.getElem?_append_left (by omega)
  refine ⟨us, tgt, added, low, ⟨sp, hstart⟩, by rw [hrn]; exact ruleNamesOf_names cfg a k, hshape, htgt, hir, ?_, ?_, ?_,
    hlowRp, ?_, ?_⟩
  · have := congrArg List.length hslots
    rw [hfr.slotsLen] at this
    simpa using this.symm
  · intro i hi
    have h1 : (g.recs[i]?).map some = (added[i - a.prods.length]?).map some := by
      rw [← List.getElem?_map, ← hslots, ← List.getElem?_map]
      rcases hfr.slots i with hs | ⟨p, _, _, _, hp, _⟩
      · rw [hs]; exact List.getElem?_append_right (by simpa using hi) |>.trans (by simp)
      · rw [hast] at hp
        have := (List.getElem?_eq_some_iff.mp hp).1
        omega
    cases h2 : g.recs[i]? <;> cases h3 : added[i - a.prods.length]? <;> simp [h2, h3] at h1 ⊢
    exact h1
  · intro i p hp
    have hi : i < a.prods.length := (List.getElem?_eq_some_iff.mp hp).1
    rcases hfr.slots i with hs | ⟨p', ridx, r, hlo, hp', hur, hs⟩
    · rw [hslots, List.getElem?_map, List.getElem?_append_left (by simpa using hi)] at hs
      simp only [List.getElem?_replicate, hi, if_true] at hs
      cases h2 : g.recs[i]? <;> simp [h2] at hs
    · rw [hast, hp] at hp'
      simp only [Option.some.injEq] at hp'
      subst hp'
      rw [hslots, List.getElem?_map] at hs
      refine ⟨ridx, r, hlo, hur, ?_⟩
      cases h2 : g.recs[i]? <;> simp [h2] at hs ⊢
      exact hs
  · have hr0 : (mkCtx cfg a k us).rmap (mkCtx cfg a k us).startName = some 0 :=
      rmap_special ok (specialNames_nodup hc a k) (specialNames_head cfg a k us)
    rw [hr0, Option.bind_some, ← hrp, hlowRp 0 hpos, hlow0] at hsp
    simpa using hsp.symm
  · intro hnd j r hj
    have hmem : r.name ∈ userNames a := List.mem_map.mpr ⟨r, List.mem_of_getElem? hj, rfl⟩
    have hUj : (userNames a)[j]? = some r.name := by simp [userNames, hj]
    have hjlt : j < a.rules.length := (List.getElem?_eq_some_iff.mp hj).1
    obtain ⟨_, f2⟩ := userPhase_order a.rules (addedRules a k) _ st
      (fun j' r' hj' s => by
        have hmem' : r'.name ∈ userNames a := List.mem_map.mpr ⟨r', List.mem_of_getElem? hj', rfl⟩
        obtain ⟨j2, h1, h2⟩ := stepRule_user ok hmem' s
        have : lastIdx (userNames a) r'.name = some j' := lastIdx_nodup hnd (by simp [userNames, hj'])
        rw [this] at h1
        simp only [Option.some.injEq] at h1
        subst h1
        rw [h2, hR0, Nat.add_comm])
      (fun j' r' hj' => by rw [hast]; exact findRule_nodup hnd hj')
      hm'
    obtain ⟨g1, g2⟩ := f2 j r hj
    refine ⟨?_, by rw [hat]; exact g2⟩
    rw [hrp, g1 []]
    · rfl
    · show (low ++ List.replicate a.rules.length [])[addedRules a k + j]? = some []
      rw [List.getElem?_append_right (by omega)]
      simp [hlow, hjlt]

end GrmVerif.YaccBuild

namespace GrmVerif.YaccBuild
open GrmVerif

/-! ### `resolveSyms` -/

/-- every rule symbol of a resolved right-hand side is the image of a rule symbol of the source
production, or the implicit rule -/
theorem resolveSyms_rule_mem {rmap tmap : Str → Option Nat} {impl : Option Str} {j : Nat} :
    ∀ (syms : List ASym) (out : List Sym), resolveSyms rmap tmap impl syms = some out → Sym.rule j ∈ out →
      (∃ n sp, ASym.rule n sp ∈ syms ∧ rmap n = some j) ∨ (∃ ir, impl = some ir ∧ rmap ir = some j) := by
  intro syms
  induction syms with
  | nil => intro out h hm; simp only [resolveSyms, Option.some.injEq] at h; subst h; cases hm
  | cons x xs ih =>
    intro out h hm
    have lift : ((∃ n sp, ASym.rule n sp ∈ xs ∧ rmap n = some j) ∨ (∃ ir, impl = some ir ∧ rmap ir = some j)) →
        ((∃ n sp, ASym.rule n sp ∈ x :: xs ∧ rmap n = some j) ∨ (∃ ir, impl = some ir ∧ rmap ir = some j)) := by
      rintro (⟨n, sp, h1, h2⟩ | h1)
      · exact Or.inl ⟨n, sp, List.mem_cons_of_mem _ h1, h2⟩
      · exact Or.inr h1
    cases x with
    | rule n sp =>
      simp only [resolveSyms] at h
      cases h1 : rmap n with
      | none => simp [h1] at h
      | some r =>
        cases h2 : resolveSyms rmap tmap impl xs with
        | none => simp [h1, h2] at h
        | some tl =>
          simp only [h1, h2, Option.some.injEq] at h
          subst h
          rcases List.mem_cons.mp hm with he | hm
          · simp only [Sym.rule.injEq] at he
            subst he
            exact Or.inl ⟨n, sp, List.mem_cons_self, h1⟩
          · exact lift (ih tl h2 hm)
    | tok n sp =>
      simp only [resolveSyms] at h
      cases h1 : tmap n with
      | none => simp [h1] at h
      | some t =>
        cases h2 : resolveSyms rmap tmap impl xs with
        | none => simp [h1, h2] at h
        | some tl =>
          simp only [h1, h2] at h
          cases impl with
          | none =>
            simp only [Option.some.injEq] at h
            subst h
            rcases List.mem_cons.mp hm with he | hm
            · cases he
            · exact lift (ih tl h2 hm)
          | some ir =>
            simp only at h
            cases h3 : rmap ir with
            | none => simp [h3] at h
            | some r =>
              simp only [h3, Option.some.injEq] at h
              subst h
              rcases List.mem_cons.mp hm with he | hm
              · cases he
              · rcases List.mem_cons.mp hm with he | hm
                · simp only [Sym.rule.injEq] at he
                  subst he
                  exact Or.inr ⟨ir, rfl, h3⟩
                · exact lift (ih tl h2 hm)

/-- `resolveSyms` is its declarative reading, when the implicit rule (if any) is in the rule map -/
theorem resolveSyms_eq_spec {rmap tmap : Str → Option Nat} {impl : Option Str}
    (hi : ∀ ir, impl = some ir → ∃ r, rmap ir = some r) :
    ∀ (syms : List ASym), resolveSyms rmap tmap impl syms = resolveSpec rmap tmap (impl.bind rmap) syms := by
  intro syms
  induction syms with
  | nil => simp [resolveSyms, resolveSpec]
  | cons x xs ih =>
    unfold resolveSpec at ih ⊢
    generalize hm : List.mapM (symImage rmap tmap (impl.bind rmap)) xs = m at ih ⊢
    cases x with
    | rule n sp =>
      simp only [resolveSyms, ih, List.mapM_cons, hm, symImage]
      cases rmap n <;> cases m <;> simp
    | tok n sp =>
      simp only [resolveSyms, ih, List.mapM_cons, hm, symImage]
      cases tmap n <;> cases m <;> simp
      cases impl with
      | none => simp
      | some ir =>
        obtain ⟨r, hr⟩ := hi ir rfl
        simp [hr]

end GrmVerif.YaccBuild
