import GrmVerif.Lemmas.RankImpl
/-! The distance `rank_cnds` measures (`RankImpl.reach`: replay with `apply_repairs`, parse on with
`lr_upto` to the end of the window) is the specification's `Rec.distance` for every sequence that
applies with plain LR semantics and ends within the window. -/
namespace GrmVerif.RankImpl
open GrmVerif LR Rec

/-- the table never shifts the end-of-input token (true of every table `StateTable::new` builds: the
action on end-of-input after the start rule is Accept) -/
def EofNeverShifted (G : Grammar) (A : Automaton) : Prop :=
  ∀ st s', A.action st G.eof ≠ .shift s'

theorem feed_shifted_action {G : Grammar} {A : Automaton} {la : Nat} :
    ∀ {fuel : Nat} {stack s : List Nat}, feed G A la fuel stack = .shifted s →
      ∃ st s', A.action st la = .shift s' := by
  intro fuel
  induction fuel with
  | zero => intro stack s h; simp [feed] at h
  | succ f ih =>
    intro stack s h
    cases stack with
    | nil => simp [feed] at h
    | cons st rest =>
      simp only [feed] at h
      cases ha : A.action st la with
      | shift s' => exact ⟨st, s', ha⟩
      | accept => rw [ha] at h; cases h
      | error => rw [ha] at h; cases h
      | reduce p =>
        rw [ha] at h
        simp only at h
        split at h
        · cases h
        · split at h
          · cases h
          · split at h
            · cases h
            · exact ih h

theorem erase_map_attach (la : Nat) (rs : List Repair) : (attach la rs).map PRepair.erase = rs := by
  induction rs generalizing la with
  | nil => rfl
  | cons r rs ih => cases r <;> simp [attach, PRepair.erase, ih]

theorem wellLexed_attach (la : Nat) (rs : List Repair) : WellLexed la (attach la rs) = true := by
  induction rs generalizing la with
  | nil => rfl
  | cons r rs ih => cases r <;> simp [attach, WellLexed, ih]

/-- `apply_repairs` agrees with the specification's `applySeq` wherever the latter is defined -/
theorem applyRepairs_of_applySeq {G : Grammar} {A : Automaton} {w : List Nat} :
    ∀ (seq : Seq) (c c' : Pos), c.pos ≤ w.length →
      applySeq G A w c (seq.map PRepair.erase) = some c' →
      applyRepairs G A w c seq = some c' ∧ c'.pos ≤ w.length := by
  intro seq
  induction seq with
  | nil =>
    intro c c' hc h
    simp only [List.map_nil, applySeq, Option.some.injEq] at h
    subst h
    exact ⟨rfl, hc⟩
  | cons r rs ih =>
    intro c c' hc h
    simp only [List.map_cons, applySeq] at h
    cases h1 : applyRepair G A w c r.erase with
    | none => rw [h1] at h; cases h
    | some c1 =>
      rw [h1] at h
      simp only at h
      have key : applyOne G A w c r = some c1 ∧ c1.pos ≤ w.length := by
        cases r with
        | insert t =>
          simp only [PRepair.erase, applyRepair] at h1
          simp only [applyOne, Nat.not_lt.mpr hc, ↓reduceIte]
          cases hf : feed G A t FUEL c.stack with
          | shifted s =>
            rw [hf] at h1
            simp only [Option.some.injEq] at h1
            subst h1
            exact ⟨rfl, hc⟩
          | accept s => rw [hf] at h1; cases h1
          | error s => rw [hf] at h1; cases h1
          | crash => rw [hf] at h1; cases h1
          | fuelOut => rw [hf] at h1; cases h1
        | delete l =>
          simp only [PRepair.erase, applyRepair] at h1
          by_cases hlt : c.pos < w.length
          · rw [if_pos hlt] at h1
            simp only [Option.some.injEq] at h1
            subst h1
            exact ⟨rfl, hlt⟩
          · rw [if_neg hlt] at h1; cases h1
        | shift l =>
          simp only [PRepair.erase, applyRepair] at h1
          cases hw : w[c.pos]? with
          | none => rw [hw] at h1; cases h1
          | some t =>
            rw [hw] at h1
            simp only at h1
            have hlt : c.pos < w.length := (List.getElem?_eq_some_iff.mp hw).1
            have hnt : nextTok G w c.pos = t := by simp [nextTok, hw]
            simp only [applyOne, Nat.not_lt.mpr hc, ↓reduceIte, hnt]
            cases hf : feed G A t FUEL c.stack with
            | shifted s =>
              rw [hf] at h1
              simp only [Option.some.injEq] at h1
              subst h1
              exact ⟨rfl, hlt⟩
            | accept s => rw [hf] at h1; cases h1
            | error s => rw [hf] at h1; cases h1
            | crash => rw [hf] at h1; cases h1
            | fuelOut => rw [hf] at h1; cases h1
      obtain ⟨h2, h3⟩ := ih c1 c' key.2 h
      exact ⟨by simp only [applyRepairs, key.1, h2], h3⟩

theorem continueFrom_pos_ge {G : Grammar} {A : Automaton} {w : List Nat} :
    ∀ (fuel : Nat) (c : Pos) (n : Nat), c.pos ≤ (continueFrom G A w fuel c n).2.2 := by
  intro fuel
  induction fuel with
  | zero => intro c n; exact Nat.le_refl _
  | succ f ih =>
    intro c n
    simp only [continueFrom]
    cases hf : feed G A (nextTok G w c.pos) FUEL c.stack with
    | shifted s => exact Nat.le_trans (Nat.le_succ _) (ih ⟨s, c.pos + 1⟩ (n + 1))
    | accept s => exact Nat.le_refl _
    | error s => exact Nat.le_refl _
    | crash => exact Nat.le_refl _
    | fuelOut => exact Nat.le_refl _

/-- `lr_upto` to the end of the window stops where the unbounded plain parse stops, or at the end
of the window -/
theorem lrUpto_pos {G : Grammar} {A : Automaton} {w : List Nat} (hEof : EofNeverShifted G A) (endIdx : Nat) :
    ∀ (fuel : Nat) (c c'' : Pos) (n : Nat), c.pos ≤ endIdx → c.pos ≤ w.length →
      lrUpto G A w endIdx fuel c = some c'' →
      c''.pos = min (continueFrom G A w fuel c n).2.2 endIdx := by
  intro fuel
  induction fuel with
  | zero => intro c c'' n _ _ h; simp [lrUpto] at h
  | succ f ih =>
    intro c c'' n he hl h
    simp only [lrUpto] at h
    by_cases hstop : (c.pos == endIdx || decide (c.pos > w.length)) = true
    · rw [if_pos hstop] at h
      simp only [Option.some.injEq] at h
      subst h
      have hge := continueFrom_pos_ge (G := G) (A := A) (w := w) (f + 1) c n
      have : c.pos = endIdx := by
        simp only [Bool.or_eq_true, beq_iff_eq, decide_eq_true_eq] at hstop
        omega
      omega
    · rw [if_neg hstop] at h
      simp only [Bool.or_eq_true, beq_iff_eq, decide_eq_true_eq, not_or] at hstop
      simp only [continueFrom]
      cases hf : feed G A (nextTok G w c.pos) FUEL c.stack with
      | shifted s =>
        rw [hf] at h
        simp only at h ⊢
        have hlt : c.pos < w.length := by
          rcases Nat.lt_or_eq_of_le hl with h' | h'
          · exact h'
          · exfalso
            have hnt : nextTok G w c.pos = G.eof := by simp [nextTok, h']
            rw [hnt] at hf
            obtain ⟨st, s', ha⟩ := feed_shifted_action hf
            exact hEof st s' ha
        exact ih ⟨s, c.pos + 1⟩ c'' (n + 1) (by simp only; omega) (by simp only; omega) h
      | accept s =>
        rw [hf] at h; simp only [Option.some.injEq] at h; subst h; simp only; omega
      | error s =>
        rw [hf] at h; simp only [Option.some.injEq] at h; subst h; simp only; omega
      | crash => rw [hf] at h; cases h
      | fuelOut => rw [hf] at h; cases h

/-- **The distance `rank_cnds` measures is the specification's.** -/
theorem reach_eq_distance {G : Grammar} {A : Automaton} {w : List Nat} (hEof : EofNeverShifted G A)
    {win : Nat} {start c' : Pos} {seq : Seq} {d : Nat} (hpos : start.pos ≤ w.length)
    (happ : applySeq G A w start (seq.map PRepair.erase) = some c')
    (hwin : c'.pos ≤ start.pos + win)
    (hr : reach G A w win start seq = some d) :
    d = distance G A w win start (seq.map PRepair.erase) := by
  obtain ⟨h1, h2⟩ := applyRepairs_of_applySeq seq start c' hpos happ
  simp only [reach, h1] at hr
  cases hl : lrUpto G A w (start.pos + win) (w.length + 2) c' with
  | none => rw [hl] at hr; cases hr
  | some c'' =>
    rw [hl] at hr
    simp only [Option.map_some, Option.some.injEq] at hr
    subst hr
    simp only [distance, happ]
    exact lrUpto_pos hEof _ _ c' c'' 0 hwin h2 hl

end GrmVerif.RankImpl
