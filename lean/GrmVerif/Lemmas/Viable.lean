import GrmVerif.Model.CertVP
import GrmVerif.Lemmas.LRSound
import GrmVerif.Lemmas.Closure
/-! Viable prefixes: on a certified automaton whose closed states hold only closure items, over a
grammar with only productive rules, whatever is on the parse stack is a prefix of a sentence. -/
namespace GrmVerif.Cert
open GrmVerif Spec Fix Closure LR

/-- LR(0) closure of a kernel as an inductive predicate -/
inductive Clo0 (G : Grammar) (core : List Item) : Nat → Nat → Prop
  | kernel (i : Item) : i ∈ core → Clo0 G core i.p i.dot
  | close (p d q : Nat) : Clo0 G core p d → symAt G p d = some (.rule (G.lhs q)) → q < G.nprods →
      Clo0 G core q 0

theorem close0_sound (G : Grammar) (core : List Item) (S : List (Nat × Nat)) (h : close0 G core = some S) :
    ∀ x ∈ S, Clo0 G core x.1 x.2 := by
  refine lfp_sound (itemUniverse G) (derive0 G core) (fun x => Clo0 G core x.1 x.2) ?_ _ [] S (by simp) h
  intro T hT x hx hd
  simp only [derive0, Bool.or_eq_true, List.any_eq_true, Bool.and_eq_true, beq_iff_eq] at hd
  rcases hd with ⟨i, hi, h1, h2⟩ | ⟨h0, y, _, hSy, hsym⟩
  · rw [← h1, ← h2]; exact .kernel i hi
  · obtain ⟨a, b⟩ := x
    simp only at h0 hsym ⊢
    subst h0
    have hq : a < G.nprods := (mem_itemUniverse.mp hx).1
    have hy : y ∈ T := by simpa using hSy
    exact .close y.1 y.2 a (hT y hy) hsym hq

/-- some valid tree has root `X` -/
def ProdTree (G : Grammar) (X : Sym) : Prop := ∃ T, Tree.valid G T = true ∧ Tree.root G T = X

theorem trees_of_syms (G : Grammar) : ∀ (l : List Sym), (∀ X ∈ l, ProdTree G X) →
    ∃ ks, Tree.validList G ks = true ∧ ks.map (Tree.root G) = l := by
  intro l
  induction l with
  | nil => intro _; exact ⟨[], rfl, rfl⟩
  | cons X xs ih =>
    intro h
    obtain ⟨T, hv, hr⟩ := h X (by simp)
    obtain ⟨ks, hks, hm⟩ := ih (fun Y hY => h Y (by simp [hY]))
    exact ⟨T :: ks, by simp [Tree.validList, hv, hks], by simp [hr, hm]⟩

theorem productive_sound (G : Grammar) (S : List Nat) (h : productive G = some S) :
    ∀ r ∈ S, ProdTree G (.rule r) := by
  refine lfp_sound (List.range G.nrules) (deriveProd G) (fun r => ProdTree G (.rule r)) ?_ _ [] S (by simp) h
  intro T hT r _ hd
  simp only [deriveProd, List.any_eq_true, List.mem_range, Bool.and_eq_true, beq_iff_eq, List.all_eq_true] at hd
  obtain ⟨p, hp, hl, hall⟩ := hd
  have : ∀ X ∈ G.rhs p, ProdTree G X := by
    intro X hX
    have := hall X hX
    cases X with
    | tok t => exact ⟨.leaf t 0, rfl, rfl⟩
    | rule q => simp only [List.contains_eq_mem, decide_eq_true_eq] at this; exact hT q this
  obtain ⟨ks, hks, hm⟩ := trees_of_syms G _ this
  refine ⟨.node p ks, ?_, ?_⟩
  · simp [Tree.valid, hp, hm, hks]
  · simp [Tree.root, hl]

/-- what the third certificate part means -/
structure PropsVP (G : Grammar) (A : Automaton) : Prop where
  minimal : ∀ s, s < A.nstates → ∀ i ∈ A.closed s, Clo0 G (A.core s) i.p i.dot
  productive : ∀ r, r < G.nrules → ProdTree G (.rule r)

theorem checkVP_props (G : Grammar) (A : Automaton) (h : checkVP G A = true) : PropsVP G A := by
  simp only [checkVP, Bool.and_eq_true] at h
  obtain ⟨h1, h2⟩ := h
  rw [vpClosed, allStates_iff] at h1
  constructor
  · intro s hs i hi
    have := h1 s hs
    cases hc : close0 G (A.core s) with
    | none => rw [hc] at this; cases this
    | some S =>
      rw [hc] at this
      simp only [List.all_eq_true, List.contains_eq_mem, decide_eq_true_eq] at this
      exact close0_sound G _ S hc _ (this i hi)
  · intro r hr
    unfold allProductive at h2
    cases hc : productive G with
    | none => rw [hc] at h2; cases h2
    | some S =>
      rw [hc] at h2
      simp only [List.all_eq_true, List.mem_range, List.contains_eq_mem, decide_eq_true_eq] at h2
      exact productive_sound G S hc r (h2 r hr)

/-- a token that may occur in an input -/
def OkTok (G : Grammar) (t : Nat) : Prop := t < G.ntoks ∧ t ≠ G.eof

def OkRoot (G : Grammar) : Sym → Prop
  | .tok t => OkTok G t
  | .rule _ => True

theorem okRoot_of_mem_rhs {G : Grammar} {A : Automaton} (P : Props G A) {p : Nat} (hp : p < G.nprods) {X : Sym}
    (hX : X ∈ G.rhs p) : OkRoot G X := by
  cases X with
  | rule _ => trivial
  | tok t =>
    refine ⟨by simpa [Grammar.symOk] using wf_sym P.wf hp hX, ?_⟩
    intro he; subst he
    exact P.noEofRhs p hp hX

mutual
theorem yield_ok {G : Grammar} {A : Automaton} (P : Props G A) :
    ∀ (T : Tree), Tree.valid G T = true → OkRoot G (Tree.root G T) → ∀ t ∈ Tree.yield T, OkTok G t
  | .leaf t _, _, hr => by
    intro x hx
    simp only [Tree.yield, List.mem_singleton] at hx
    subst hx; exact hr
  | .node p kids, hv, _ => by
    simp only [Tree.valid, Bool.and_eq_true, decide_eq_true_eq, beq_iff_eq] at hv
    obtain ⟨⟨hp, hm⟩, hk⟩ := hv
    simp only [Tree.yield]
    refine yieldList_ok P kids hk ?_
    intro k hk'
    have : Tree.root G k ∈ G.rhs p := by rw [← hm]; exact List.mem_map.mpr ⟨k, hk', rfl⟩
    exact okRoot_of_mem_rhs P hp this
theorem yieldList_ok {G : Grammar} {A : Automaton} (P : Props G A) :
    ∀ (ks : List Tree), Tree.validList G ks = true → (∀ k ∈ ks, OkRoot G (Tree.root G k)) →
      ∀ t ∈ Tree.yieldList ks, OkTok G t
  | [], _, _ => by intro t ht; simp [Tree.yieldList] at ht
  | k :: ks, hv, hr => by
    simp only [Tree.validList, Bool.and_eq_true] at hv
    intro t ht
    simp only [Tree.yieldList, List.mem_append] at ht
    rcases ht with ht | ht
    · exact yield_ok P k hv.1 (hr k (by simp)) t ht
    · exact yieldList_ok P ks hv.2 (fun k' hk' => hr k' (by simp [hk'])) t ht
end

theorem symAt_lt {G : Grammar} {p d : Nat} {X : Sym} (h : symAt G p d = some X) : p < G.nprods := by
  unfold symAt at h
  by_cases hp : p < G.nprods
  · exact hp
  · exfalso
    have : G.rhs p = [] := by
      have : G.prods[p]? = none := List.getElem?_eq_none_iff.mpr (by unfold Grammar.nprods at hp; omega)
      simp [Grammar.rhs, this]
    rw [this] at h; simp at h

theorem drop_of_symAt {G : Grammar} {p d : Nat} {X : Sym} (h : symAt G p d = some X) :
    (G.rhs p).drop d = X :: (G.rhs p).drop (d + 1) := by
  unfold symAt at h
  obtain ⟨hlt, heq⟩ := List.getElem?_eq_some_iff.mp h
  rw [List.drop_eq_getElem_cons hlt, heq]

/-- trees for the symbols of a production's tail exist (all rules productive) -/
theorem tail_trees {G : Grammar} {A : Automaton} (P : Props G A) (PV : PropsVP G A) {p : Nat} (hp : p < G.nprods)
    (d : Nat) : ∃ zs, Tree.validList G zs = true ∧ zs.map (Tree.root G) = (G.rhs p).drop d ∧
      ∀ t ∈ Tree.yieldList zs, OkTok G t := by
  have hall : ∀ X ∈ (G.rhs p).drop d, ProdTree G X := by
    intro X hX
    have hX' : X ∈ G.rhs p := List.mem_of_mem_drop hX
    cases X with
    | tok t => exact ⟨.leaf t 0, rfl, rfl⟩
    | rule r =>
      have : r < G.nrules := by simpa [Grammar.symOk] using wf_sym P.wf hp hX'
      exact PV.productive r this
  obtain ⟨zs, hv, hm⟩ := trees_of_syms G _ hall
  refine ⟨zs, hv, hm, yieldList_ok P zs hv ?_⟩
  intro k hk
  have : Tree.root G k ∈ (G.rhs p).drop d := by rw [← hm]; exact List.mem_map.mpr ⟨k, hk, rfl⟩
  exact okRoot_of_mem_rhs P hp (List.mem_of_mem_drop this)

/-- **viable-prefix context** of an item `[p, d]` on top of a stack with edge labels `labels` (top
first): a token string `v` such that WHATEVER valid trees `ts` stand for the stack symbols and `us`
for the rest of the production, a derivation tree of the start rule exists whose leaves are those of
`ts` (bottom to top), then those of `us`, then `v`. -/
def VP (G : Grammar) (S : Nat) (labels : List Sym) (p d : Nat) : Prop :=
  ∃ v : List Nat, (∀ t ∈ v, OkTok G t) ∧
    ∀ ts us, Tree.validList G ts = true → ts.map (Tree.root G) = labels →
      Tree.validList G us = true → us.map (Tree.root G) = (G.rhs p).drop d →
      ∃ T, Tree.valid G T = true ∧ Tree.root G T = .rule S ∧
        Tree.yield T = Tree.yieldList ts.reverse ++ Tree.yieldList us ++ v

/-- closure items inherit a context from the item they were added for -/
theorem clo_vp {G : Grammar} {A : Automaton} (P : Props G A) (PV : PropsVP G A) (S : Nat) (labels : List Sym)
    (core : List Item) (hk : ∀ i ∈ core, VP G S labels i.p i.dot) :
    ∀ p d, Clo0 G core p d → VP G S labels p d := by
  intro p d h
  induction h with
  | kernel i hi => exact hk i hi
  | close p d q _ hsym hq ih =>
    obtain ⟨v, hv, hctx⟩ := ih
    have hp : p < G.nprods := symAt_lt hsym
    obtain ⟨zs, hzv, hzm, hzok⟩ := tail_trees P PV hp (d + 1)
    refine ⟨Tree.yieldList zs ++ v, ?_, ?_⟩
    · intro t ht
      rcases List.mem_append.mp ht with ht | ht
      · exact hzok t ht
      · exact hv t ht
    · intro ts us hts htm hus hum
      simp only [List.drop_zero] at hum
      have hN : Tree.valid G (.node q us) = true := by simp [Tree.valid, hq, hum, hus]
      obtain ⟨T, hT, hr, hy⟩ := hctx ts (.node q us :: zs) hts htm
        (by simp [Tree.validList, hN, hzv])
        (by rw [drop_of_symAt hsym]; simp [Tree.root, hzm])
      refine ⟨T, hT, hr, ?_⟩
      rw [hy]
      simp [Tree.yieldList, Tree.yield, List.append_assoc]

theorem viable {G : Grammar} {A : Automaton} (P : Props G A) (PV : PropsVP G A) (S : Nat)
    (hS : G.rhs G.startProd = [.rule S]) {states : List Nat} {labels : List Sym} (h : Path A states labels) :
    ∀ s rest, states = s :: rest → ∀ p d, HasItem (A.closed s) p d → VP G S labels p d := by
  induction h with
  | base =>
    intro s rest hs p d hi
    simp only [List.cons.injEq] at hs
    obtain ⟨rfl, _⟩ := hs
    obtain ⟨i, him, rfl, rfl⟩ := hi
    refine clo_vp P PV S [] (A.core A.start) ?_ _ _ (PV.minimal _ P.startLt i him)
    intro k hk
    obtain ⟨hkp, hkd⟩ := P.startCore k hk
    rw [hkp, hkd]
    refine ⟨[], by simp, ?_⟩
    intro ts us _ htm hus hum
    simp only [List.map_eq_nil_iff] at htm
    subst htm
    rw [hS, List.drop_zero] at hum
    cases us with
    | nil => simp at hum
    | cons U rest' =>
      cases rest' with
      | cons _ _ => simp at hum
      | nil =>
        simp only [List.map_cons, List.map_nil, List.cons.injEq, and_true] at hum
        simp only [Tree.validList, Bool.and_true] at hus
        exact ⟨U, hus, hum, by simp [Tree.yieldList]⟩
  | step s t rest labels X hp he ih =>
    intro s' rest' hs p d hi
    simp only [List.cons.injEq] at hs
    obtain ⟨rfl, _⟩ := hs
    have hslt : s < A.nstates := hp.states_lt P s (by simp)
    obtain ⟨htlt, _, hcore⟩ := P.edgeTarget s hslt _ (edge_mem he)
    obtain ⟨i, him, rfl, rfl⟩ := hi
    refine clo_vp P PV S (X :: labels) (A.core t) ?_ _ _ (PV.minimal _ htlt i him)
    intro k hk
    obtain ⟨hk0, hksym, hkprev⟩ := hcore k hk
    simp only at hksym hkprev
    obtain ⟨v, hv, hctx⟩ := ih s rest rfl k.p (k.dot - 1) hkprev
    refine ⟨v, hv, ?_⟩
    intro ts us hts htm hus hum
    cases ts with
    | nil => simp at htm
    | cons tx ts0 =>
      simp only [List.map_cons, List.cons.injEq] at htm
      simp only [Tree.validList, Bool.and_eq_true] at hts
      obtain ⟨T, hT, hr, hy⟩ := hctx ts0 (tx :: us) hts.2 htm.2
        (by simp [Tree.validList, hts.1, hus])
        (by
          rw [drop_of_symAt hksym]
          have : k.dot - 1 + 1 = k.dot := by omega
          rw [this]; simp [htm.1, hum])
      refine ⟨T, hT, hr, ?_⟩
      rw [hy]
      simp [Tree.yieldList, yieldList_append, List.append_assoc]

/-- the top state of a stack path has an item -/
theorem path_top_item {G : Grammar} {A : Automaton} (P : Props G A) {s : Nat} {rest : List Nat} {labels : List Sym}
    (h : Path A (s :: rest) labels) : ∃ p d, HasItem (A.closed s) p d := by
  have hs : s < A.nstates := h.states_lt P s (by simp)
  have : ∃ i, i ∈ A.core s := by
    cases h with
    | base => obtain ⟨i, hi, _⟩ := P.startHas; exact ⟨i, hi⟩
    | step s1 _ rest1 labels1 X hp he =>
      obtain ⟨_, hne, _⟩ := P.edgeTarget s1 (hp.states_lt P s1 (by simp)) _ (edge_mem he)
      cases hc : A.core s with
      | nil => exact absurd hc hne
      | cons i is => exact ⟨i, by simp⟩
  obtain ⟨i, hi⟩ := this
  exact ⟨i.p, i.dot, P.coreSub s hs i hi⟩

end GrmVerif.Cert
