import GrmVerif.Lemmas.YaccRoundtrip7
/-!
C10, text → AST stage, part 8: every name span the image records delimits exactly the name's text in
the rendered source (`src[span] = name`): symbols of productions, rule names, token set, `%start`.
-/
namespace GrmVerif.YaccRender
open GrmVerif.YaccParse
open GrmVerif.Header (Res Span byteLen byteLen_append sliceRange)

/-- `&src[sp.0 .. sp.1]` is the text `n` -/
def Spells (src : List Char) (n : Name) (sp : Span) : Prop :=
  (sliceRange src sp.1 sp.2 : Res YErr (List Char)) = .ok n

/-- every name stored in the AST with a span is spelled by that span -/
structure TextOK (src : List Char) (a : Ast) : Prop where
  syms : ∀ p ∈ a.prods, ∀ s ∈ p.syms, Spells src s.name s.span
  rules : ∀ r ∈ a.rules, Spells src r.1 r.2
  tokens : ∀ t ∈ a.tokens, Spells src t.1 t.2
  start : ∀ s, a.start = some s → Spells src s.1 s.2

def PSyms (src : List Char) (p : PState) : Prop := ∀ s ∈ p.syms, Spells src s.name s.span

theorem tok_spells {src : List Char} {i : Nat} {t : RTok} {rest : List Char} (hw : wfTok t = true)
    (h : At src i (t.text ++ rest)) : Spells src t.name (t.span i) := by
  cases t with
  | quoted q t =>
    simp only [wfTok, Bool.and_eq_true, Bool.or_eq_true, beq_iff_eq] at hw
    have h0 : At src i (q :: (t ++ q :: rest)) := by simpa [RTok.text] using h
    exact (h0.adv1 (byteLen_quote hw.1)).range
  | bare n => exact h.range

theorem textOK_insert {src : List Char} {a : Ast} {n : Name} {sp : Span} (h : TextOK src a)
    (hs : Spells src n sp) : TextOK src (a.insertToken n sp) := by
  unfold Ast.insertToken
  split
  · exact h
  · refine { h with tokens := ?_ }
    intro t ht
    rcases List.mem_append.1 ht with ht | ht
    · exact h.tokens t ht
    · simp only [List.mem_singleton] at ht; subst ht; exact hs

theorem stepSym_text {src : List Char} {i : Nat} {s : RTok} {rest : List Char} {p : PState} {st : St}
    (ht : TextOK src st.ast) (hp : PSyms src p) (hw : wfTok s = true) (h : At src i (s.text ++ rest)) :
    TextOK src (stepSym i s p st).2.ast ∧ PSyms src (stepSym i s p st).1 := by
  have hs := tok_spells hw h
  cases s with
  | quoted q t =>
    refine ⟨textOK_insert ht hs, ?_⟩
    intro x hx
    rcases List.mem_append.1 hx with hx | hx
    · exact hp x hx
    · simp only [List.mem_singleton] at hx; subst hx; exact hs
  | bare n =>
    refine ⟨ht, ?_⟩
    intro x hx
    rcases List.mem_append.1 hx with hx | hx
    · exact hp x hx
    · simp only [List.mem_singleton] at hx; subst hx; exact hs

theorem runSyms_text {src : List Char} : ∀ (ss : List RTok) (i : Nat) (p : PState) (st : St) (k : List Char),
    TextOK src st.ast → PSyms src p → ss.all wfTok = true → At src i (renderSyms ss ++ k) →
    TextOK src (runSyms i ss p st).2.2.ast ∧ PSyms src (runSyms i ss p st).2.1 := by
  intro ss
  induction ss with
  | nil => intro i p st k ht hp _ _; exact ⟨ht, hp⟩
  | cons s ss ih =>
    intro i p st k ht hp hw h
    simp only [List.all_cons, Bool.and_eq_true] at hw
    have h0 : At src i (s.text ++ ' ' :: (renderSyms ss ++ k)) := by simpa [renderSyms] using h
    obtain ⟨t1, p1⟩ := stepSym_text ht hp hw.1 h0
    rw [runSyms]
    exact ih _ _ _ k t1 p1 hw.2 ((h0.adv).adv1 (by decide))

theorem runPrec_text {src : List Char} {i : Nat} {o : Option RTok} {k : List Char} {p : PState} {st : St}
    (ht : TextOK src st.ast) (hp : PSyms src p) (hw : o.all wfTok = true) (h : At src i (renderPrec o ++ k)) :
    TextOK src (runPrec i o p st).2.2.ast ∧ PSyms src (runPrec i o p st).2.1 := by
  cases o with
  | none => exact ⟨ht, hp⟩
  | some t =>
    have h0 : At src i (['%', 'p', 'r', 'e', 'c', ' '] ++ (t.text ++ ' ' :: k)) := by
      simpa [renderPrec] using h
    have h6 := h0.adv
    rw [show byteLen ['%', 'p', 'r', 'e', 'c', ' '] = 6 by decide] at h6
    exact ⟨textOK_insert ht (tok_spells (by simpa using hw) h6), hp⟩

theorem runAction_text {src : List Char} {i : Nat} {o : Option (List Char)} {p : PState} {st : St}
    (ht : TextOK src st.ast) (hp : PSyms src p) :
    TextOK src (runAction i o p st).2.2.ast ∧ PSyms src (runAction i o p st).2.1 := by
  cases o with
  | none => exact ⟨ht, hp⟩
  | some t => exact ⟨ht, hp⟩

theorem runProd_text {src : List Char} {i : Nat} {pr : RProd} {k : List Char} {st : St}
    (ht : TextOK src st.ast) (hw : wfProd pr = true) (h : At src i (renderProd pr ++ k)) :
    TextOK src (runProd i pr st).2.2.ast ∧ PSyms src (runProd i pr st).2.1 := by
  simp only [wfProd, Bool.and_eq_true] at hw
  obtain ⟨⟨⟨hs, hc⟩, _⟩, _⟩ := hw
  have h0 : At src i (renderEmpty pr.empty ++ (renderSyms pr.syms ++ (renderPrec pr.prec ++
      (renderAction pr.action ++ k)))) := by simpa [renderProd] using h
  have h1 := h0.adv
  rw [← runEmpty_pos i pr.empty { prodStart := i }] at h1
  have h2 := h1.adv
  rw [← runSyms_pos pr.syms _ (runEmpty i pr.empty { prodStart := i }).2 st] at h2
  have pe : PSyms src (runEmpty i pr.empty { prodStart := i }).2 := by
    intro s hs'
    cases hE : pr.empty <;> rw [hE] at hs' <;> simp [runEmpty] at hs'
  obtain ⟨t1, p1⟩ := runSyms_text pr.syms _ _ st _ ht pe hs h1
  obtain ⟨t2, p2⟩ := runPrec_text t1 p1 hc h2
  exact runAction_text t2 p2

theorem textOK_push {src : List Char} {st : St} {p : PState} (ht : TextOK src st.ast) (hp : PSyms src p)
    (rn : Name) (j : Nat) : TextOK src (pushProd (mkProd rn p j) st).ast := by
  refine { ht with syms := ?_ }
  intro q hq
  rcases List.mem_append.1 hq with hq | hq
  · exact ht.syms q hq
  · simp only [List.mem_singleton] at hq; subst hq; exact hp

theorem runProds_text {src : List Char} (rn : Name) : ∀ (more : List RProd) (pr : RProd) (i : Nat) (st : St)
    (post : List Char), TextOK src st.ast → (∀ q ∈ pr :: more, wfProd q = true) →
    At src i (renderProds pr more ++ post) → TextOK src (runProds rn i pr more st).2.ast := by
  intro more
  induction more with
  | nil =>
    intro pr i st post ht hw h
    have h0 : At src i (renderProd pr ++ ';' :: '\n' :: post) := by simpa [renderProds] using h
    obtain ⟨t1, p1⟩ := runProd_text ht (hw pr (by simp)) h0
    exact textOK_push t1 p1 _ _
  | cons q qs ih =>
    intro pr i st post ht hw h
    have h0 : At src i (renderProd pr ++ '|' :: ' ' :: (renderProds q qs ++ post)) := by
      simpa [renderProds] using h
    obtain ⟨t1, p1⟩ := runProd_text ht (hw pr (by simp)) h0
    have h1 := h0.adv
    rw [← runProd_pos i pr st] at h1
    rw [runProds]
    exact ih q _ _ post (textOK_push t1 p1 _ _) (fun q' hq' => hw q' (List.mem_cons_of_mem _ hq'))
      ((h1.adv1 (by decide)).adv1 (by decide))

theorem textOK_rule {src : List Char} {a : Ast} {n : Name} {sp : Span} (ht : TextOK src a)
    (hs : Spells src n sp) : TextOK src ((setStart n sp a).addRule n sp) := by
  have h1 : TextOK src (setStart n sp a) := by
    unfold setStart
    split
    · refine { ht with start := ?_ }
      intro s hs'
      simp only [Option.some.injEq] at hs'; subst hs'; exact hs
    · exact ht
  unfold Ast.addRule
  split
  · exact h1
  · refine { h1 with rules := ?_ }
    intro r hr
    rcases List.mem_append.1 hr with hr | hr
    · exact h1.rules r hr
    · simp only [List.mem_singleton] at hr; subst hr; exact hs

theorem runRules_text {src : List Char} (g : Bool) : ∀ (rs : List RRule) (i : Nat) (st : St) (post : List Char),
    TextOK src st.ast → wfRules g rs = true → At src i (renderRules g rs ++ post) →
    TextOK src (runRules g i rs st).2.ast := by
  intro rs
  induction rs with
  | nil => intro i st post ht _ _; exact ht
  | cons r rs ih =>
    intro i st post ht hw h
    simp only [wfRules, List.all_cons, Bool.and_eq_true] at hw
    obtain ⟨hr, hrs⟩ := hw
    simp only [wfRule, Bool.and_eq_true, List.all_eq_true, RRule.prods] at hr
    have h0 : At src i (renderRule g r ++ (renderRules g rs ++ post)) := by simpa [renderRules] using h
    have hn : At src i (r.name ++ (renderHead g r ++ (':' :: ' ' :: (renderProds r.first r.more ++
        (renderRules g rs ++ post))))) := by
      simpa [renderRule] using h0
    have hp : At src (i + byteLen r.name + byteLen (renderHead g r) + 2)
        (renderProds r.first r.more ++ (renderRules g rs ++ post)) := by
      have := (hn.adv.adv.adv1 (by decide)).adv1 (by decide)
      rwa [show i + byteLen r.name + byteLen (renderHead g r) + 1 + 1
        = i + byteLen r.name + byteLen (renderHead g r) + 2 by omega] at this
    have t1 : TextOK src (headSt g i r st).ast := textOK_rule ht hn.range
    have t2 := runProds_text r.name r.more r.first _ _ _ t1 hr.1.2 hp
    have h1 := h0.adv
    rw [← runRule_pos g i r st] at h1
    rw [runRules]
    exact ih _ _ post t2 (by simpa [wfRules] using hrs) h1

end GrmVerif.YaccRender
