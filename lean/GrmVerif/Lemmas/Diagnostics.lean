import GrmVerif.Model.Diagnostics
import GrmVerif.Lemmas.Newline5
/-!
Specification-side definitions for the pretty-printer part of C19 and the lemmas about slicing
and `str::lines()`.

A text and a span on character boundaries inside it are given as a `Split`:
`text = a ++ pre ++ c0 ++ "\n" ++ c1 ++ "\n" ++ … ++ cm ++ suf ++ z`, where `a` is empty or ends in a
newline (the lines before the span's first line), `pre` is the part of that line before the span, the
span's content is `c0 "\n" c1 … "\n" cm` (the `ci` newline-free), `suf` is the rest of the line in which
the span ends and `z` (empty or starting with a newline) the lines after it.
-/
namespace GrmVerif.Diag
open GrmVerif.Newline

/-- drop one trailing `'\r'` (what `lines()` does to a line that is followed by `'\n'`) -/
def dropCR (l : List Char) : List Char := if l.getLast? = some '\r' then l.dropLast else l

/-- `c0 ++ "\n" ++ c1 ++ "\n" ++ … ++ cm` -/
def joinNl : List Char → List (List Char) → List Char
  | c0, [] => c0
  | c0, c1 :: cs => c0 ++ '\n' :: joinNl c1 cs

/-- a text around a span (see the module comment) -/
structure Split where
  a : List Char
  pre : List Char
  c0 : List Char
  cs : List (List Char)
  suf : List Char
  z : List Char

/-- the span's content -/
def Split.cov (d : Split) : List Char := joinNl d.c0 d.cs
/-- the lines the span touches (without the terminator of the last) -/
def Split.body (d : Split) : List Char := d.pre ++ (d.cov ++ d.suf)
def Split.text (d : Split) : List Char := d.a ++ (d.body ++ d.z)
/-- byte offset of the span's start -/
def Split.start (d : Split) : Nat := byteLen d.a + byteLen d.pre
/-- byte offset of the span's end -/
def Split.stop (d : Split) : Nat := d.start + byteLen d.cov
/-- number of the line the span starts in -/
def Split.firstLine (d : Split) : Nat := 1 + d.a.count '\n'

/-- the side conditions that make the pieces what their names say (all decidable) -/
structure Split.WF (d : Split) : Prop where
  ha : d.a = [] ∨ d.a.getLast? = some '\n'
  hpre : '\n' ∉ d.pre
  hc0 : '\n' ∉ d.c0
  hcs : ∀ c ∈ d.cs, '\n' ∉ c
  hsuf : '\n' ∉ d.suf
  hz : d.z = [] ∨ d.z.head? = some '\n'

/-- one printed source line: its number, the text after `N| `, the source between the start of the
line and the first underlined byte, and the underlined part -/
structure Row where
  num : Nat
  text : List Char
  pre : List Char
  cov : List Char
deriving Repr, DecidableEq

/-- **The rows the property prescribes.** A line that is followed by another covered line loses its
terminator (`"\n"` or `"\r\n"`); the last covered line is printed up to its end, but is not printed
at all when it is empty and is not the only one (the span ends at the start of an empty line or at
the end of a text that ends in a newline). Row `k` has number `n + k`; only the first row has text
before the underline. -/
def specRows (first : Bool) (n : Nat) (pre c0 : List Char) : List (List Char) → List Char → List Row
  | [], suf => if !first && (pre ++ (c0 ++ suf)).isEmpty then [] else [⟨n, pre ++ (c0 ++ suf), pre, c0⟩]
  | c1 :: cs, suf => ⟨n, dropCR (pre ++ c0), pre, dropCR c0⟩ :: specRows false (n + 1) [] c1 cs suf

/-- the rows of a split text -/
def Split.rows (d : Split) : List Row := specRows true d.firstLine d.pre d.c0 d.cs d.suf

/-- rows joined by newlines, the message after the last one -/
def renderRows (sw : List Char → Nat) (pfx msg : List Char) (uc : Char) : List Row → List Char
  | [] => []
  | [r] => rowText sw pfx uc r.num r.text r.pre r.cov ++ ' ' :: msg
  | r :: r' :: rs => rowText sw pfx uc r.num r.text r.pre r.cov ++ '\n' :: renderRows sw pfx msg uc (r' :: rs)

/-! ### bytes -/

theorem takeBytes_append (a b : List Char) : takeBytes (byteLen a) (a ++ b) = some a := by
  induction a with
  | nil => simp [byteLen, takeBytes]
  | cons c cs ih =>
    have hp := Char.utf8Size_pos c
    simp only [byteLen, List.cons_append]
    obtain ⟨n, hn⟩ : ∃ n, c.utf8Size + byteLen cs = n + 1 := ⟨c.utf8Size + byteLen cs - 1, by omega⟩
    rw [hn]
    unfold takeBytes
    have : c.utf8Size ≤ n + 1 := by omega
    simp only [this, ↓reduceIte]
    have : n + 1 - c.utf8Size = byteLen cs := by omega
    rw [this, ih]; rfl

/-- `&(x ++ y ++ w)[|x| .. |x| + |y|] = y` -/
theorem sliceBytes_mid (x y w : List Char) (e : Nat) (he : e = byteLen x + byteLen y) :
    sliceBytes (x ++ (y ++ w)) (byteLen x) e = some y := by
  subst he
  unfold sliceBytes
  have : ¬ byteLen x + byteLen y < byteLen x := by omega
  simp only [this, ↓reduceIte, dropBytes_append, Option.bind_some, Nat.add_sub_cancel_left,
    takeBytes_append]

theorem byteLen_singleton_nl : byteLen ['\n'] = 1 := by decide
theorem byteLen_singleton_cr : byteLen ['\r'] = 1 := by decide

theorem byteLen_cons_nl (l : List Char) : byteLen ('\n' :: l) = 1 + byteLen l := by
  have h1 : ('\n' : Char).utf8Size = 1 := by decide
  simp [byteLen, h1]

/-! ### `dropCR` -/

theorem dropCR_nil : dropCR [] = [] := by simp [dropCR]

theorem dropCR_of_not (l : List Char) (h : l.getLast? ≠ some '\r') : dropCR l = l := by
  simp [dropCR, h]

theorem dropCR_append_cr (l : List Char) : dropCR (l ++ ['\r']) = l := by
  simp [dropCR]

/-- a line either ends in `'\r'` or `dropCR` leaves it alone -/
theorem dropCR_cases (l : List Char) :
    (dropCR l = l ∧ l.getLast? ≠ some '\r') ∨ (∃ l', l = l' ++ ['\r'] ∧ dropCR l = l') := by
  by_cases h : l.getLast? = some '\r'
  · right
    obtain ⟨l', rfl⟩ := List.getLast?_eq_some_iff.mp h
    exact ⟨l', rfl, dropCR_append_cr l'⟩
  · left; exact ⟨dropCR_of_not l h, h⟩

/-! ### `str::lines()` -/

theorem splitInclusive_no_nl (l : List Char) (h : '\n' ∉ l) :
    splitInclusive l = if l = [] then [] else [l] := by
  induction l with
  | nil => simp [splitInclusive]
  | cons c cs ih =>
    simp only [List.mem_cons, not_or] at h
    have hc : ¬ c = '\n' := fun e => h.1 e.symm
    simp only [splitInclusive, hc, ↓reduceIte, ih h.2]
    by_cases hcs : cs = []
    · simp [hcs]
    · simp [hcs]

theorem splitInclusive_line (l rest : List Char) (h : '\n' ∉ l) :
    splitInclusive (l ++ '\n' :: rest) = (l ++ ['\n']) :: splitInclusive rest := by
  induction l with
  | nil => simp [splitInclusive]
  | cons c cs ih =>
    simp only [List.mem_cons, not_or] at h
    have hc : ¬ c = '\n' := fun e => h.1 e.symm
    simp only [List.cons_append, splitInclusive, hc, ↓reduceIte, ih h.2]

theorem stripLine_nl (l : List Char) : stripLine (l ++ ['\n']) = dropCR l := by
  simp only [stripLine, stripSuffixChar, List.getLast?_append, List.getLast?_singleton,
    Option.some_or, ↓reduceIte, List.dropLast_concat, dropCR]
  split <;> simp_all

theorem stripLine_no_nl (l : List Char) (h : '\n' ∉ l) : stripLine l = l := by
  have : l.getLast? ≠ some '\n' := fun e => h (List.mem_of_getLast? e)
  simp [stripLine, stripSuffixChar, this]

theorem rustLines_no_nl (l : List Char) (h : '\n' ∉ l) :
    rustLines l = if l = [] then [] else [l] := by
  unfold rustLines
  rw [splitInclusive_no_nl l h]
  split
  · rfl
  · simp [stripLine_no_nl l h]

theorem rustLines_line (l rest : List Char) (h : '\n' ∉ l) :
    rustLines (l ++ '\n' :: rest) = dropCR l :: rustLines rest := by
  unfold rustLines
  rw [splitInclusive_line l rest h, List.map_cons, stripLine_nl]

/-- `lines()` of the touched lines = the texts of the prescribed rows (not the first iteration) -/
theorem rustLines_spec (n : Nat) (pre c0 : List Char) (cs : List (List Char)) (suf : List Char)
    (hpre : '\n' ∉ pre) (hc0 : '\n' ∉ c0) (hcs : ∀ c ∈ cs, '\n' ∉ c) (hsuf : '\n' ∉ suf) :
    rustLines (pre ++ (joinNl c0 cs ++ suf)) = (specRows false n pre c0 cs suf).map (·.text) := by
  induction cs generalizing n pre c0 with
  | nil =>
    have h : '\n' ∉ pre ++ (c0 ++ suf) := by simp [hpre, hc0, hsuf]
    simp only [joinNl, specRows, Bool.not_false, Bool.true_and]
    rw [rustLines_no_nl _ h]
    by_cases he : pre ++ (c0 ++ suf) = []
    · simp [he]
    · have : (pre ++ (c0 ++ suf)).isEmpty = false := by simpa using he
      simp only [he, ↓reduceIte, this, Bool.false_eq_true, List.map_cons, List.map_nil]
  | cons c1 cs ih =>
    have h : '\n' ∉ pre ++ c0 := by simp [hpre, hc0]
    have e : pre ++ (joinNl c0 (c1 :: cs) ++ suf) = (pre ++ c0) ++ '\n' :: ([] ++ (joinNl c1 cs ++ suf)) := by
      simp [joinNl]
    rw [e, rustLines_line _ _ h, ih (n + 1) [] c1 (by simp) (hcs c1 (by simp))
      (fun c hc => hcs c (by simp [hc]))]
    simp [specRows]

/-- the lines the loop walks over = the texts of the prescribed rows -/
theorem linesOf_spec (n : Nat) (pre c0 : List Char) (cs : List (List Char)) (suf : List Char)
    (hpre : '\n' ∉ pre) (hc0 : '\n' ∉ c0) (hcs : ∀ c ∈ cs, '\n' ∉ c) (hsuf : '\n' ∉ suf) :
    linesOf (pre ++ (joinNl c0 cs ++ suf)) = (specRows true n pre c0 cs suf).map (·.text) := by
  unfold linesOf
  rw [rustLines_spec n pre c0 cs suf hpre hc0 hcs hsuf]
  cases cs with
  | nil =>
    simp only [joinNl, specRows, Bool.not_false, Bool.true_and, Bool.not_true, Bool.false_and]
    by_cases he : pre ++ (c0 ++ suf) = []
    · simp [he]
    · have : (pre ++ (c0 ++ suf)).isEmpty = false := by simpa using he
      simp [this]
  | cons c1 cs =>
    have : (pre ++ (joinNl c0 (c1 :: cs) ++ suf)).isEmpty = false := by simp [joinNl]
    simp [specRows, this]

end GrmVerif.Diag
