import GrmVerif.Model.CostsRef
import GrmVerif.Lemmas.Analyses
/-! Derivable token strings and exactness of the reference minimal costs. -/
namespace GrmVerif.Spec
open GrmVerif Ref

mutual
/-- symbol `s` derives the token string `w` -/
inductive Derives (G : Grammar) : Sym → List Nat → Prop
  | tok (t : Nat) : Derives G (.tok t) [t]
  | rule (p : Nat) (w : List Nat) : p < G.nprods → DerivesSeq G (G.rhs p) w → Derives G (.rule (G.lhs p)) w
/-- the symbol sequence derives `w` (concatenation of what its symbols derive) -/
inductive DerivesSeq (G : Grammar) : List Sym → List Nat → Prop
  | nil : DerivesSeq G [] []
  | cons (s : Sym) (rest : List Sym) (w1 w2 : List Nat) :
      Derives G s w1 → DerivesSeq G rest w2 → DerivesSeq G (s :: rest) (w1 ++ w2)
end

/-- cost of a token string -/
def cost (tc : Nat → Nat) (w : List Nat) : Nat := (w.map tc).sum

theorem cost_append (tc : Nat → Nat) (a b : List Nat) : cost tc (a ++ b) = cost tc a + cost tc b := by
  simp [cost, List.sum_append]

/-! ### facts about `minO`/`minOver` -/

/-- `a ≤ b` in the order where `none` is +∞ -/
def leO : Option Nat → Option Nat → Prop
  | _, none => True
  | none, some _ => False
  | some a, some b => a ≤ b

theorem minOver_le (f : Nat → Option Nat) (l : List Nat) : ∀ p ∈ l, leO (minOver f l) (f p) := by
  induction l with
  | nil => intro p hp; cases hp
  | cons q qs ih =>
    intro p hp
    simp only [minOver]
    rcases List.mem_cons.mp hp with rfl | hp
    · cases hf : f p <;> cases hm : minOver f qs <;> simp [minO, leO]; omega
    · have := ih p hp
      cases hf : f q <;> cases hm : minOver f qs <;> cases hp' : f p <;> simp_all [minO, leO]; omega

theorem minOver_attained (f : Nat → Option Nat) (l : List Nat) (v : Nat) (h : minOver f l = some v) :
    ∃ p ∈ l, f p = some v := by
  induction l generalizing v with
  | nil => simp [minOver] at h
  | cons q qs ih =>
    simp only [minOver] at h
    cases hf : f q with
    | none =>
      rw [hf] at h; simp only [minO] at h
      obtain ⟨p, hp, hv⟩ := ih v h
      exact ⟨p, List.mem_cons_of_mem _ hp, hv⟩
    | some a =>
      cases hm : minOver f qs with
      | none => rw [hf, hm] at h; simp only [minO] at h; exact ⟨q, by simp, by rw [hf, h]⟩
      | some b =>
        rw [hf, hm] at h; simp only [minO, Option.some.injEq] at h
        by_cases hab : a ≤ b
        · have : v = a := by omega
          exact ⟨q, by simp, by rw [hf, this]⟩
        · have : v = b := by omega
          obtain ⟨p, hp, hv⟩ := ih b hm
          exact ⟨p, List.mem_cons_of_mem _ hp, by rw [hv, this]⟩

/-! ### lower bound: at a fixed point every derivation costs at least the computed value -/

mutual
theorem derives_lower {G : Grammar} {tc : Nat → Nat} {c : Nat → Option Nat}
    (hfix : ∀ r, r < G.nrules → c r = ruleCost G tc c r) (hwf : G.wf = true) :
    ∀ {s : Sym} {w : List Nat}, Derives G s w → G.symOk s = true →
      ∃ v, symCost tc c s = some v ∧ v ≤ cost tc w
  | _, _, .tok t, _ => ⟨tc t, rfl, by simp [cost]⟩
  | _, _, .rule p w hp hseq, _ => by
    have hsyms : ∀ s ∈ G.rhs p, G.symOk s = true := fun s hs => wf_sym hwf hp hs
    obtain ⟨v', hv', hle⟩ := derivesSeq_lower hfix hwf hseq hsyms
    have hr := wf_lhs hwf hp
    have hle2 := minOver_le (fun p => seqCost tc c (G.rhs p)) (G.prodsOf (G.lhs p)) p
      (mem_prodsOf.mpr ⟨hp, rfl⟩)
    simp only [symCost]
    rw [hfix _ hr]
    unfold ruleCost
    rw [hv'] at hle2
    cases hm : minOver (fun p => seqCost tc c (G.rhs p)) (G.prodsOf (G.lhs p)) with
    | none => rw [hm] at hle2; simp [leO] at hle2
    | some m => rw [hm] at hle2; simp only [leO] at hle2; exact ⟨m, rfl, by omega⟩
theorem derivesSeq_lower {G : Grammar} {tc : Nat → Nat} {c : Nat → Option Nat}
    (hfix : ∀ r, r < G.nrules → c r = ruleCost G tc c r) (hwf : G.wf = true) :
    ∀ {l : List Sym} {w : List Nat}, DerivesSeq G l w → (∀ s ∈ l, G.symOk s = true) →
      ∃ v, seqCost tc c l = some v ∧ v ≤ cost tc w
  | _, _, .nil, _ => ⟨0, rfl, by simp [cost]⟩
  | _, _, .cons s rest w1 w2 h1 h2, hok => by
    obtain ⟨v1, hv1, hle1⟩ := derives_lower hfix hwf h1 (hok s (by simp))
    obtain ⟨v2, hv2, hle2⟩ := derivesSeq_lower hfix hwf h2 (fun x hx => hok x (List.mem_cons_of_mem _ hx))
    refine ⟨v1 + v2, by simp [seqCost, hv1, hv2, addO], ?_⟩
    rw [cost_append]; omega
end

/-! ### achievability: every computed value is the cost of a derivable string -/

/-- every finite entry of `c` is realised by a derivation -/
def Realised (G : Grammar) (tc : Nat → Nat) (c : Nat → Option Nat) : Prop :=
  ∀ r v, c r = some v → ∃ w, Derives G (.rule r) w ∧ cost tc w = v

theorem seqCost_realised {G : Grammar} {tc : Nat → Nat} {c : Nat → Option Nat} (hc : Realised G tc c) :
    ∀ (l : List Sym) (v : Nat), seqCost tc c l = some v → ∃ w, DerivesSeq G l w ∧ cost tc w = v := by
  intro l
  induction l with
  | nil => intro v h; simp only [seqCost, Option.some.injEq] at h; exact ⟨[], .nil, by simp [cost, ← h]⟩
  | cons s rest ih =>
    intro v h
    simp only [seqCost] at h
    cases h1 : symCost tc c s with
    | none => simp [h1, addO] at h
    | some a =>
      cases h2 : seqCost tc c rest with
      | none => simp [h1, h2, addO] at h
      | some b =>
        simp only [h1, h2, addO, Option.some.injEq] at h
        obtain ⟨w2, hd2, hc2⟩ := ih b h2
        have : ∃ w1, Derives G s w1 ∧ cost tc w1 = a := by
          cases s with
          | tok t => simp only [symCost, Option.some.injEq] at h1; exact ⟨[t], .tok t, by simp [cost, h1]⟩
          | rule q => exact hc q a h1
        obtain ⟨w1, hd1, hc1⟩ := this
        exact ⟨w1 ++ w2, .cons s rest w1 w2 hd1 hd2, by rw [cost_append]; omega⟩

theorem look_stepCosts (G : Grammar) (tc : Nat → Nat) (c : List (Option Nat)) (r : Nat) :
    look (stepCosts G tc c) r = if r < G.nrules then ruleCost G tc (look c) r else none := by
  simp only [look, stepCosts]
  by_cases h : r < G.nrules
  · simp [h]
  · simp [h]

theorem step_realised {G : Grammar} {tc : Nat → Nat} {c : List (Option Nat)}
    (hc : Realised G tc (look c)) : Realised G tc (look (stepCosts G tc c)) := by
  intro r v h
  rw [look_stepCosts] at h
  split at h
  · obtain ⟨p, hp, hv⟩ := minOver_attained _ _ v h
    obtain ⟨hp1, hp2⟩ := mem_prodsOf.mp hp
    obtain ⟨w, hd, hcw⟩ := seqCost_realised hc _ v hv
    rw [← hp2]
    exact ⟨w, .rule p w hp1 hd, hcw⟩
  · cases h

theorem minCostsFrom_realised {G : Grammar} {tc : Nat → Nat} (fuel : Nat) (c0 c : List (Option Nat))
    (h0 : Realised G tc (look c0)) (h : minCostsFrom G tc fuel c0 = some c) :
    Realised G tc (look c) ∧ stepCosts G tc c = c := by
  induction fuel generalizing c0 with
  | zero => simp [minCostsFrom] at h
  | succ n ih =>
    simp only [minCostsFrom] at h
    split at h
    · next heq =>
      have : c0 = c := by simpa using h
      subst this; exact ⟨h0, heq⟩
    · exact ih _ (step_realised h0) h

theorem realised_init (G : Grammar) (tc : Nat → Nat) (n : Nat) :
    Realised G tc (look (List.replicate n none)) := by
  intro r v h
  simp only [look] at h
  by_cases hr : r < n
  · simp [List.getElem?_replicate, hr] at h
  · simp [List.getElem?_replicate, hr] at h

end GrmVerif.Spec
