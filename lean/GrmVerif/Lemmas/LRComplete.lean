import GrmVerif.Model.CertLA
import GrmVerif.Lemmas.LRSound
import GrmVerif.Lemmas.TreeFirst
/-! Completeness of the LR driver on a certified, conflict-free (LR(1)-complete) automaton. -/
namespace GrmVerif.Cert
open GrmVerif Spec LR Ref

/-- the lookahead conditions, unpacked -/
structure PropsLA (G : Grammar) (A : Automaton) (N : Nat → Bool) (F : Nat × Nat → Bool) : Prop where
  closeLA : ∀ s, s < A.nstates → ∀ i ∈ A.closed s, ∀ B, symAt G i.p i.dot = some (.rule B) →
    ∀ q, q ∈ G.prodsOf B → ∃ j ∈ A.closed s, j.p = q ∧ j.dot = 0 ∧
      ∀ t, t < G.ntoks → firstSeqL N F ((G.rhs i.p).drop (i.dot + 1)) i.la t = true → t ∈ j.la
  edgeLA : ∀ s, s < A.nstates → ∀ i ∈ A.closed s, ∀ X, symAt G i.p i.dot = some X →
    ∃ t j, A.edge s X = some t ∧ j ∈ A.core t ∧ j.p = i.p ∧ j.dot = i.dot + 1 ∧ ∀ a ∈ i.la, a ∈ j.la
  coreLA : ∀ s, s < A.nstates → ∀ i ∈ A.core s, ∃ j ∈ A.closed s, j.p = i.p ∧ j.dot = i.dot ∧ ∀ a ∈ i.la, a ∈ j.la
  startLA : ∀ i ∈ A.core A.start, G.eof ∈ i.la
  actShiftC : ∀ s, s < A.nstates → ∀ i ∈ A.closed s, ∀ t, symAt G i.p i.dot = some (.tok t) →
    ∃ s', A.edge s (.tok t) = some s' ∧ A.action s t = .shift s'
  actReduceC : ∀ s, s < A.nstates → ∀ i ∈ A.closed s, symAt G i.p i.dot = none → i.p ≠ G.startProd →
    ∀ t ∈ i.la, A.action s t = .reduce i.p
  actAcceptC : ∀ s, s < A.nstates → ∀ i ∈ A.closed s, symAt G i.p i.dot = none → i.p = G.startProd →
    ∀ t ∈ i.la, A.action s t = .accept

theorem findItem_some {items : List Item} {p d : Nat} {j : Item} (h : findItem items p d = some j) :
    j ∈ items ∧ j.p = p ∧ j.dot = d := by
  unfold findItem at h
  have h1 := List.mem_of_find?_eq_some h
  have h2 := List.find?_some h
  simp only [Bool.and_eq_true, beq_iff_eq] at h2
  exact ⟨h1, h2.1, h2.2⟩

theorem checkLA_props (G : Grammar) (A : Automaton) (N : Nat → Bool) (F : Nat × Nat → Bool)
    (h : checkLA G A N F = true) : PropsLA G A N F := by
  simp only [checkLA, Bool.and_eq_true] at h
  obtain ⟨⟨⟨h1, h2⟩, h3⟩, h4⟩ := h
  rw [l1, allStates_iff] at h1
  rw [l2, allStates_iff] at h2
  rw [l4, allStates_iff] at h4
  refine ⟨?_, ?_, ?_, ?_, ?_, ?_, ?_⟩
  · intro s hs i hi B hB q hq
    have := h1 s hs
    simp only [List.all_eq_true] at this
    have h' := this i hi
    rw [hB] at h'
    simp only [List.all_eq_true] at h'
    have h'' := h' q hq
    cases hf : findItem (A.closed s) q 0 with
    | none => rw [hf] at h''; cases h''
    | some j =>
      rw [hf] at h''
      obtain ⟨hj1, hj2, hj3⟩ := findItem_some hf
      refine ⟨j, hj1, hj2, hj3, ?_⟩
      intro t ht hfl
      simp only [List.all_eq_true, List.mem_range, Bool.or_eq_true, Bool.not_eq_true',
        List.contains_eq_mem, decide_eq_true_eq] at h''
      rcases h'' t ht with h0 | h0
      · rw [hfl] at h0; cases h0
      · exact h0
  · intro s hs i hi X hX
    have := (h2 s hs)
    simp only [Bool.and_eq_true, List.all_eq_true] at this
    have h' := this.1 i hi
    rw [hX] at h'
    simp only at h'
    cases he : A.edge s X with
    | none => rw [he] at h'; cases h'
    | some t =>
      rw [he] at h'
      simp only at h'
      cases hf : findItem (A.core t) i.p (i.dot + 1) with
      | none => rw [hf] at h'; cases h'
      | some j =>
        rw [hf] at h'
        obtain ⟨hj1, hj2, hj3⟩ := findItem_some hf
        refine ⟨t, j, rfl, hj1, hj2, hj3, ?_⟩
        intro a ha
        simp only [List.all_eq_true, List.contains_eq_mem, decide_eq_true_eq] at h'
        exact h' a ha
  · intro s hs i hi
    have := (h2 s hs)
    simp only [Bool.and_eq_true, List.all_eq_true] at this
    have h' := this.2 i hi
    cases hf : findItem (A.closed s) i.p i.dot with
    | none => rw [hf] at h'; cases h'
    | some j =>
      rw [hf] at h'
      obtain ⟨hj1, hj2, hj3⟩ := findItem_some hf
      refine ⟨j, hj1, hj2, hj3, ?_⟩
      intro a ha
      simp only [List.all_eq_true, List.contains_eq_mem, decide_eq_true_eq] at h'
      exact h' a ha
  · intro i hi
    simp only [l3, List.all_eq_true, List.contains_eq_mem, decide_eq_true_eq] at h3
    exact h3 i hi
  · intro s hs i hi t ht
    have := h4 s hs
    simp only [List.all_eq_true] at this
    have h' := this i hi
    rw [ht] at h'
    simp only at h'
    cases he : A.edge s (.tok t) with
    | none => rw [he] at h'; cases h'
    | some s' => rw [he] at h'; exact ⟨s', rfl, by simpa using h'⟩
  · intro s hs i hi hn hne t ht
    have := h4 s hs
    simp only [List.all_eq_true] at this
    have h' := this i hi
    rw [hn] at h'
    simp only [List.all_eq_true] at h'
    have h'' := h' t ht
    have : (i.p == G.startProd) = false := by simpa using hne
    simpa [this] using h''
  · intro s hs i hi hn he t ht
    have := h4 s hs
    simp only [List.all_eq_true] at this
    have h' := this i hi
    rw [hn] at h'
    simp only [List.all_eq_true] at h'
    have h'' := h' t ht
    simpa [he] using h''

/-! ### multi-step runs -/

inductive Steps (G : Grammar) (A : Automaton) (w : List Nat) : Cfg → Cfg → Prop
  | refl (c : Cfg) : Steps G A w c c
  | step (c c' c'' : Cfg) : LR.step G A w c = .cont c' → Steps G A w c' c'' → Steps G A w c c''

theorem Steps.trans {G : Grammar} {A : Automaton} {w : List Nat} {a b c : Cfg}
    (h1 : Steps G A w a b) (h2 : Steps G A w b c) : Steps G A w a c := by
  induction h1 with
  | refl _ => exact h2
  | step x y z hs _ ih => exact .step x y c hs (ih h2)

theorem Steps.single {G : Grammar} {A : Automaton} {w : List Nat} {a b : Cfg}
    (h : LR.step G A w a = .cont b) : Steps G A w a b := .step a b b h (.refl b)

theorem run_of_steps {G : Grammar} {A : Automaton} {w : List Nat} {a b : Cfg} {o : Outcome}
    (h : Steps G A w a b) (hd : LR.step G A w b = .done o) : ∃ fuel, run G A w fuel a = o := by
  induction h with
  | refl c => exact ⟨1, by simp [run, hd]⟩
  | step x y z hs _ ih =>
    obtain ⟨f, hf⟩ := ih hd
    exact ⟨f + 1, by simp [run, hs, hf]⟩

/-- the shape of a tree: lexeme indices forgotten -/
def shape : Tree → Tree
  | .leaf t _ => .leaf t 0
  | .node p kids => .node p (shapes kids)
where shapes : List Tree → List Tree
  | [] => []
  | k :: ks => shape k :: shapes ks

end GrmVerif.Cert
