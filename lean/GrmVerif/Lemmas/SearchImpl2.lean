import GrmVerif.Lemmas.SearchImpl1
/-!
What a merged repairs chain (`RTree`) stands for: `seqs` (the set of plain sequences; the empty
sequence for the bare `Terminator`), its relation to the code's `traverse`, and what the merge closure
does to it.
-/
namespace GrmVerif.SearchImpl
open GrmVerif LR Rec RankImpl

mutual
/-- the plain repair sequences a chain stands for -/
def seqs : RTree → List (List Repair)
  | .term => [[]]
  | .rep p r => (seqs p).map (fun s => s ++ [r])
  | .merge p r v => (seqs p).map (fun s => s ++ [r]) ++ seqsAlts v
def seqsAlts : List RTree → List (List Repair)
  | [] => []
  | c :: cs => seqs c ++ seqsAlts cs
end

def isTerm : RTree → Bool
  | .term => true
  | _ => false

mutual
/-- no alternative of a `Merge` anywhere in the chain is the bare `Terminator` -/
def okT : RTree → Bool
  | .term => true
  | .rep p _ => okT p
  | .merge p _ v => okT p && okAlts v
def okAlts : List RTree → Bool
  | [] => true
  | c :: cs => !isTerm c && okT c && okAlts cs
end

theorem seqs_ne_nil : ∀ t : RTree, seqs t ≠ []
  | .term => by simp [seqs]
  | .rep p r => by
    have := seqs_ne_nil p
    simp [seqs, this]
  | .merge p r v => by
    have := seqs_ne_nil p
    simp [seqs, this]

theorem mem_seqs_rep {p : RTree} {r : Repair} {s : List Repair} :
    s ∈ seqs (.rep p r) ↔ ∃ s' ∈ seqs p, s = s' ++ [r] := by
  simp only [seqs, List.mem_map]
  constructor
  · rintro ⟨a, h1, h2⟩; exact ⟨a, h1, h2.symm⟩
  · rintro ⟨a, h1, h2⟩; exact ⟨a, h1, h2.symm⟩

theorem mem_seqs_merge {p : RTree} {r : Repair} {v : List RTree} {s : List Repair} :
    s ∈ seqs (.merge p r v) ↔ (∃ s' ∈ seqs p, s = s' ++ [r]) ∨ s ∈ seqsAlts v := by
  simp only [seqs, List.mem_append, List.mem_map]
  constructor
  · rintro (⟨a, h1, h2⟩ | h)
    · exact Or.inl ⟨a, h1, h2.symm⟩
    · exact Or.inr h
  · rintro (⟨a, h1, h2⟩ | h)
    · exact Or.inl ⟨a, h1, h2.symm⟩
    · exact Or.inr h

theorem mem_seqsAlts_cons {c : RTree} {cs : List RTree} {s : List Repair} :
    s ∈ seqsAlts (c :: cs) ↔ s ∈ seqs c ∨ s ∈ seqsAlts cs := by
  simp [seqsAlts]

mutual
/-- **`traverse` computes `seqs`** (for every chain but the bare `Terminator`, for which it returns
nothing) -/
theorem traverse_eq : ∀ t : RTree, okT t = true →
    traverse t = (if isTerm t then [] else seqs t)
  | .term, _ => by simp [traverse, isTerm]
  | .rep p r, h => by
    have hp : okT p = true := by simpa [okT] using h
    have ih := traverse_eq p hp
    simp only [traverse, isTerm, Bool.false_eq_true, ↓reduceIte, seqs]
    rw [ih]
    cases p with
    | term => simp [isTerm, seqs]
    | rep p' r' =>
      have := seqs_ne_nil (.rep p' r')
      simp [isTerm, this]
    | merge p' r' v' =>
      have := seqs_ne_nil (.merge p' r' v')
      simp [isTerm, this]
  | .merge p r v, h => by
    have hp : okT p = true ∧ okAlts v = true := by simpa [okT] using h
    have ih := traverse_eq p hp.1
    have ihv := traverseAlts_eq v hp.2
    simp only [traverse, isTerm, Bool.false_eq_true, ↓reduceIte, seqs]
    rw [ih, ihv]
    cases p with
    | term => simp [isTerm, seqs]
    | rep p' r' =>
      have := seqs_ne_nil (.rep p' r')
      simp [isTerm, this]
    | merge p' r' v' =>
      have := seqs_ne_nil (.merge p' r' v')
      simp [isTerm, this]
theorem traverseAlts_eq : ∀ v : List RTree, okAlts v = true → traverseAlts v = seqsAlts v
  | [], _ => by simp [traverseAlts, seqsAlts]
  | c :: cs, h => by
    have hp : (isTerm c = false ∧ okT c = true) ∧ okAlts cs = true := by simpa [okAlts] using h
    have ih := traverse_eq c hp.1.2
    have ihv := traverseAlts_eq cs hp.2
    simp only [traverseAlts, seqsAlts]
    rw [ih, ihv, hp.1.1]
    simp
end

mutual
theorem beq_eq : ∀ a b : RTree, RTree.beq a b = true → a = b
  | .term, .term, _ => rfl
  | .term, .rep _ _, h => by simp [RTree.beq] at h
  | .term, .merge _ _ _, h => by simp [RTree.beq] at h
  | .rep _ _, .term, h => by simp [RTree.beq] at h
  | .rep p r, .rep p' r', h => by
    simp only [RTree.beq, Bool.and_eq_true, beq_iff_eq] at h
    rw [h.1, beq_eq p p' h.2]
  | .rep _ _, .merge _ _ _, h => by simp [RTree.beq] at h
  | .merge _ _ _, .term, h => by simp [RTree.beq] at h
  | .merge _ _ _, .rep _ _, h => by simp [RTree.beq] at h
  | .merge p r v, .merge p' r' v', h => by
    simp only [RTree.beq, Bool.and_eq_true, beq_iff_eq] at h
    rw [h.1.1, beq_eq p p' h.2, beqList_eq v v' h.1.2]
theorem beqList_eq : ∀ a b : List RTree, RTree.beqList a b = true → a = b
  | [], [], _ => rfl
  | [], _ :: _, h => by simp [RTree.beqList] at h
  | _ :: _, [], h => by simp [RTree.beqList] at h
  | a :: as, b :: bs, h => by
    simp only [RTree.beqList, Bool.and_eq_true] at h
    rw [beq_eq a b h.1, beqList_eq as bs h.2]
end

theorem endsWithShifts_iff : ∀ (k : Nat) (t : RTree), endsWithShifts k t = decide (k ≤ numShifts t) := by
  intro k
  induction k with
  | zero => intro t; simp [endsWithShifts]
  | succ k ih =>
    intro t
    cases t with
    | term => simp [endsWithShifts, numShifts]
    | rep p r =>
      cases r with
      | shift => simp [endsWithShifts, numShifts, ih]
      | insert t => simp [endsWithShifts, numShifts]
      | delete => simp [endsWithShifts, numShifts]
    | merge p r v =>
      cases r with
      | shift => simp [endsWithShifts, numShifts, ih]
      | insert t => simp [endsWithShifts, numShifts]
      | delete => simp [endsWithShifts, numShifts]

/-- what `PathFNode::eq` compares -/
def keyOf (m : PNode) : Nat × List Nat × Bool × Nat :=
  (m.laidx, m.pstack, isDelete (lastRepair m.repairs), numShifts m.repairs)

theorem compat_iff (a b : PNode) : compat a b = true ↔ keyOf a = keyOf b := by
  simp only [compat, keyOf, Prod.mk.injEq]
  by_cases h1 : a.laidx = b.laidx <;> by_cases h2 : a.pstack = b.pstack <;>
    by_cases h3 : isDelete (lastRepair a.repairs) = isDelete (lastRepair b.repairs) <;>
    simp [h1, h2, h3]

/-- the merge closure keeps the last repair and the number of trailing shifts of the node merged into,
and makes its chain stand for the union of both sets of sequences -/
theorem mergeRepairs_spec {old new r : RTree} (h : mergeRepairs old new = some r) :
    lastRepair r = lastRepair old ∧ numShifts r = numShifts old ∧
    (∀ s, s ∈ seqs r ↔ s ∈ seqs old ∨ s ∈ seqs new) ∧
    (okT old = true → okT new = true → (isTerm new = true → isTerm old = true) → okT r = true) ∧
    (isTerm r = isTerm old) := by
  unfold mergeRepairs at h
  by_cases hb : RTree.beq old new = true
  · rw [if_pos hb] at h
    injection h with h; subst h
    have := beq_eq _ _ hb
    subst this
    exact ⟨rfl, rfl, fun s => by simp, fun h1 _ _ => h1, rfl⟩
  · rw [if_neg hb] at h
    cases old with
    | term => cases h
    | rep p r0 =>
      injection h with h; subst h
      refine ⟨rfl, ?_, ?_, ?_, rfl⟩
      · cases r0 <;> simp [numShifts]
      · intro s
        rw [mem_seqs_merge, mem_seqs_rep, mem_seqsAlts_cons]
        simp [seqsAlts]
      · intro h1 h2 h3
        have h3' : isTerm new = false := by
          cases hn : isTerm new with
          | false => rfl
          | true => have := h3 hn; simp [isTerm] at this
        simp only [okT] at h1
        simp [okT, okAlts, h1, h2, h3']
    | merge p r0 v =>
      injection h with h; subst h
      refine ⟨rfl, ?_, ?_, ?_, rfl⟩
      · cases r0 <;> simp [numShifts]
      · intro s
        rw [mem_seqs_merge, mem_seqs_merge, mem_seqsAlts_cons]
        constructor
        · rintro (h | h | h)
          · exact Or.inl (Or.inl h)
          · exact Or.inr h
          · exact Or.inl (Or.inr h)
        · rintro ((h | h) | h)
          · exact Or.inl h
          · exact Or.inr (Or.inr h)
          · exact Or.inr (Or.inl h)
      · intro h1 h2 h3
        have h3' : isTerm new = false := by
          cases hn : isTerm new with
          | false => rfl
          | true => have := h3 hn; simp [isTerm] at this
        simp only [okT, Bool.and_eq_true] at h1
        simp [okT, okAlts, h1.1, h1.2, h2, h3']

end GrmVerif.SearchImpl
