import GrmVerif.Model.FirstsFollowsImpl
import GrmVerif.Model.Fix
/-! Bit tables (`mget`/`mset`) and the generic argument about the loops of
`Model/FirstsFollowsImpl.lean`: every step of a round only sets bits and raises `changed` only
together with a new bit (`Step`), so the outer loop ends within (number of bits + 1) rounds
(`runLoop_spec`), and a round that ends with `changed = false` has found every one of its conditions
already satisfied (`iterM_closed`, `foldl_closed`). -/
namespace GrmVerif.Impl

theorem vget_vset (v : List Bool) (i j : Nat) (hi : i < v.length) :
    vget (vset v i) j = (decide (j = i) || vget v j) := by
  unfold vget vset
  rw [List.getD_eq_getElem?_getD, List.getD_eq_getElem?_getD, List.getElem?_set]
  by_cases h : i = j
  · subst h; simp [hi]
  · have : ¬ j = i := fun e => h e.symm
    simp [h, this]

theorem vget_vset_mono (v : List Bool) (i j : Nat) (h : vget v j = true) : vget (vset v i) j = true := by
  unfold vget vset at *
  rw [List.getD_eq_getElem?_getD, List.getElem?_set] at *
  split
  · split <;> simp_all
  · exact h

/-- a table of `n` rows of `m` bits -/
def MDims (n m : Nat) (M : List (List Bool)) : Prop := M.length = n ∧ ∀ row ∈ M, row.length = m

theorem mdims_mnew (n m : Nat) : MDims n m (mnew n m) := by
  constructor
  · simp [mnew]
  · intro row h
    simp only [mnew, List.mem_replicate] at h
    rw [h.2]; simp

theorem mget_mnew (n m r t : Nat) : mget (mnew n m) r t = false := by
  unfold mget vget mnew
  rw [List.getD_eq_getElem?_getD, List.getD_eq_getElem?_getD, List.getElem?_replicate]
  split
  · simp only [Option.getD_some, List.getElem?_replicate]; split <;> simp
  · simp

theorem mdims_row {n m : Nat} {M : List (List Bool)} (h : MDims n m M) {r : Nat} (hr : r < n) :
    (M.getD r []).length = m := by
  have hr' : r < M.length := by rw [h.1]; exact hr
  rw [List.getD_eq_getElem?_getD, List.getElem?_eq_getElem hr']
  exact h.2 _ (List.getElem_mem hr')

theorem mdims_mset {n m : Nat} {M : List (List Bool)} (h : MDims n m M) (r t : Nat) : MDims n m (mset M r t) := by
  by_cases hr : r < n
  · constructor
    · simp [mset, h.1]
    · intro row hrow
      unfold mset at hrow
      rcases List.mem_or_eq_of_mem_set hrow with h1 | h1
      · exact h.2 _ h1
      · subst h1
        unfold vset
        rw [List.length_set]
        exact mdims_row h hr
  · have : mset M r t = M := by
      unfold mset
      apply List.set_eq_of_length_le
      rw [h.1]; omega
    rw [this]; exact h

theorem mget_mset {n m : Nat} {M : List (List Bool)} (h : MDims n m M) {r t : Nat} (hr : r < n) (ht : t < m)
    (r' t' : Nat) : mget (mset M r t) r' t' = (decide (r' = r ∧ t' = t) || mget M r' t') := by
  have hr' : r < M.length := by rw [h.1]; exact hr
  unfold mget mset
  rw [List.getD_eq_getElem?_getD, List.getElem?_set]
  by_cases e : r = r'
  · subst e
    simp only [hr', if_true, Option.getD_some, true_and]
    rw [vget_vset _ _ _ (by rw [mdims_row h hr]; exact ht)]
  · have e' : ¬ r' = r := fun x => e x.symm
    simp only [if_neg e, e', false_and, decide_false, Bool.false_or]
    rw [List.getD_eq_getElem?_getD]

theorem mget_mset_mono (M : List (List Bool)) (r t r' t' : Nat) (h : mget M r' t' = true) :
    mget (mset M r t) r' t' = true := by
  unfold mget mset at *
  rw [List.getD_eq_getElem?_getD, List.getElem?_set]
  split
  · next e =>
    subst e
    split
    · simp only [Option.getD_some]
      exact vget_vset_mono _ _ _ h
    · next hlt =>
      rw [List.getD_eq_getElem?_getD, List.getElem?_eq_none (by omega)] at h
      exact h
  · rw [← List.getD_eq_getElem?_getD]; exact h


/-! ### the relation every step of a round satisfies -/

section Generic
variable {σ ι : Type} (bit : σ → ι → Bool) (univ : List ι) (I : σ → Prop)

/-- no bit is ever cleared -/
def Mono (s s' : σ) : Prop := ∀ i, bit s i = true → bit s' i = true
/-- a bit of the universe that was clear is now set -/
def Grew (s s' : σ) : Prop := ∃ i ∈ univ, bit s i = false ∧ bit s' i = true

/-- from `(state, changed)` to `(state, changed)`: the invariant is kept, bits are only set, and
`changed` becomes true only together with a new bit -/
structure Step (a b : σ × Bool) : Prop where
  inv : I b.1
  mono : Mono bit a.1 b.1
  grew : b.2 = true → a.2 = true ∨ Grew bit univ a.1 b.1

theorem Step.refl (a : σ × Bool) (h : I a.1) : Step bit univ I a a :=
  ⟨h, fun _ h => h, fun h => Or.inl h⟩

theorem Step.trans {a b c : σ × Bool} (h1 : Step bit univ I a b) (h2 : Step bit univ I b c) :
    Step bit univ I a c := by
  refine ⟨h2.inv, fun i hi => h2.mono i (h1.mono i hi), ?_⟩
  intro hc
  rcases h2.grew hc with hb | ⟨i, hiu, hi0, hi1⟩
  · rcases h1.grew hb with ha | ⟨i, hiu, hi0, hi1⟩
    · exact Or.inl ha
    · exact Or.inr ⟨i, hiu, hi0, h2.mono i hi1⟩
  · refine Or.inr ⟨i, hiu, ?_, hi1⟩
    cases hai : bit a.1 i with
    | false => rfl
    | true => rw [h1.mono i hai] at hi0; cases hi0

/-- a step that sets the clear bit `i` and raises `changed` -/
theorem Step.of_set {s s' : σ} (ch : Bool) (i : ι) (hi : i ∈ univ) (hI : I s') (h0 : bit s i = false)
    (h1 : bit s' i = true) (hm : Mono bit s s') : Step bit univ I (s, ch) (s', true) :=
  ⟨hI, hm, fun _ => Or.inr ⟨i, hi, h0, h1⟩⟩

theorem iterM_step {α : Type} (f : σ × Bool → α → Option (σ × Bool)) (P : α → Prop)
    (hf : ∀ a s, P a → I s.1 → ∃ s', f s a = some s' ∧ Step bit univ I s s') :
    ∀ (l : List α) (s : σ × Bool), (∀ a ∈ l, P a) → I s.1 →
      ∃ s', iterM f l s = some s' ∧ Step bit univ I s s' := by
  intro l
  induction l with
  | nil => intro s _ hI; exact ⟨s, rfl, Step.refl bit univ I s hI⟩
  | cons a l ih =>
    intro s hP hI
    obtain ⟨s1, h1, st1⟩ := hf a s (hP a (by simp)) hI
    obtain ⟨s2, h2, st2⟩ := ih s1 (fun b hb => hP b (by simp [hb])) st1.inv
    refine ⟨s2, ?_, st1.trans bit univ I st2⟩
    simp only [iterM, h1]; exact h2

theorem foldl_step {α : Type} (f : σ × Bool → α → σ × Bool) (P : α → Prop)
    (hf : ∀ a s, P a → I s.1 → Step bit univ I s (f s a)) :
    ∀ (l : List α) (s : σ × Bool), (∀ a ∈ l, P a) → I s.1 → Step bit univ I s (l.foldl f s) := by
  intro l
  induction l with
  | nil => intro s _ hI; exact Step.refl bit univ I s hI
  | cons a l ih =>
    intro s hP hI
    have st1 := hf a s (hP a (by simp)) hI
    have st2 := ih (f s a) (fun b hb => hP b (by simp [hb])) st1.inv
    exact st1.trans bit univ I st2

/-- a loop that ends with `changed = false` started with `changed = false`, did not modify the state,
and every iteration found its condition `C` already satisfied -/
theorem iterM_closed {α : Type} (f : σ × Bool → α → Option (σ × Bool)) (C : α → σ → Prop)
    (hf : ∀ a s s', f s a = some s' → s'.2 = false → s.2 = false ∧ s'.1 = s.1 ∧ C a s.1) :
    ∀ (l : List α) (s s' : σ × Bool), iterM f l s = some s' → s'.2 = false →
      s.2 = false ∧ s'.1 = s.1 ∧ ∀ a ∈ l, C a s.1 := by
  intro l
  induction l with
  | nil =>
    intro s s' h hc
    simp only [iterM, Option.some.injEq] at h
    subst h
    exact ⟨hc, rfl, by simp⟩
  | cons a l ih =>
    intro s s' h hc
    simp only [iterM] at h
    split at h
    · cases h
    · next s1 h1 =>
      obtain ⟨hc1, he1, hC1⟩ := ih s1 s' h hc
      obtain ⟨hc0, he0, hC0⟩ := hf a s s1 h1 hc1
      refine ⟨hc0, he1.trans he0, ?_⟩
      intro b hb
      rcases List.mem_cons.mp hb with rfl | hb
      · exact hC0
      · rw [← he0]; exact hC1 b hb

theorem foldl_closed {α : Type} (f : σ × Bool → α → σ × Bool) (C : α → σ → Prop)
    (hf : ∀ a s, (f s a).2 = false → s.2 = false ∧ (f s a).1 = s.1 ∧ C a s.1) :
    ∀ (l : List α) (s : σ × Bool), (l.foldl f s).2 = false →
      s.2 = false ∧ (l.foldl f s).1 = s.1 ∧ ∀ a ∈ l, C a s.1 := by
  intro l
  induction l with
  | nil => intro s hc; exact ⟨hc, rfl, by simp⟩
  | cons a l ih =>
    intro s hc
    simp only [List.foldl_cons] at hc ⊢
    obtain ⟨hc1, he1, hC1⟩ := ih (f s a) hc
    obtain ⟨hc0, he0, hC0⟩ := hf a s hc1
    refine ⟨hc0, he1.trans he0, ?_⟩
    intro b hb
    rcases List.mem_cons.mp hb with rfl | hb
    · exact hC0
    · rw [← he0]; exact hC1 b hb

/-- bits of the universe still clear -/
def mu (s : σ) : Nat := (univ.filter (fun i => !bit s i)).length

theorem mu_le_length (s : σ) : mu bit univ s ≤ univ.length := List.length_filter_le _ _

theorem mu_lt {s s' : σ} (hm : Mono bit s s') (hg : Grew bit univ s s') : mu bit univ s' < mu bit univ s := by
  obtain ⟨i, hiu, h0, h1⟩ := hg
  unfold mu
  apply Fix.filter_length_lt
  · intro y hy
    cases hb : bit s y with
    | false => rfl
    | true => rw [hm y hb] at hy; simp at hy
  · exact ⟨i, hiu, by simp [h0], by simp [h1]⟩

/-- **the outer loop**: if every round is a `Step` (so a round that reports `changed` has set a new
bit) then more fuel than there are clear bits yields `done`, at a state that a further round leaves
unchanged -/
theorem runLoop_spec (round : σ → Option (σ × Bool))
    (hround : ∀ s, I s → ∃ r, round s = some r ∧ Step bit univ I (s, false) r)
    (hsame : ∀ s r, round s = some r → r.2 = false → r.1 = s) :
    ∀ (fuel : Nat) (s : σ), I s → mu bit univ s < fuel →
      ∃ s', runLoop round fuel s = .done s' ∧ I s' ∧ Mono bit s s' ∧ round s' = some (s', false) := by
  intro fuel
  induction fuel with
  | zero => intro s _ h; omega
  | succ n ih =>
    intro s hI hmu
    obtain ⟨⟨s1, ch⟩, hr, st⟩ := hround s hI
    cases ch with
    | false =>
      have : s1 = s := hsame s _ hr rfl
      subst this
      refine ⟨s1, ?_, hI, fun _ h => h, hr⟩
      simp [runLoop, hr]
    | true =>
      have hg : Grew bit univ s s1 := by
        rcases st.grew rfl with h | h
        · cases h
        · exact h
      have hlt : mu bit univ s1 < mu bit univ s := mu_lt bit univ st.mono hg
      obtain ⟨s', h1, h2, h3, h4⟩ := ih s1 st.inv (by omega)
      refine ⟨s', ?_, h2, fun i hi => h3 i (st.mono i hi), h4⟩
      simp [runLoop, hr, h1]

end Generic

theorem runLoop_more_fuel {σ : Type} (round : σ → Option (σ × Bool)) :
    ∀ (fuel : Nat) (s s' : σ), runLoop round fuel s = .done s' → ∀ k, runLoop round (fuel + k) s = .done s' := by
  intro fuel
  induction fuel with
  | zero => intro s s' h; simp [runLoop] at h
  | succ n ih =>
    intro s s' h k
    rw [Nat.add_right_comm]
    simp only [runLoop] at h ⊢
    split at h
    · cases h
    · next st' ch hr =>
      split at h
      · next hc => simp only [hc, if_true]; exact ih _ _ h k
      · next hc => simp only [hc]; exact h

end GrmVerif.Impl
