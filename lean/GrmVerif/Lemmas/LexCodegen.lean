import GrmVerif.Model.LexCodegen
/-! helper lemmas for the lexer code generator's wiring model (C13) -/
namespace GrmVerif.LexCodegen

/-- lines that each take the user's value and the default of the field they assign: after running them a
field holds `user.f.or default.f` if some line assigns it and is untouched otherwise -/
theorem applyLines_self (user dflt : Flags) (w : FlagWiring)
    (hw : ∀ l ∈ w, l.1 = l.2.1 ∧ l.1 = l.2.2) (lf : Flags) (f : String) :
    applyLines user dflt w lf f =
      if w.any (fun l => l.1 == f) then (user f).or (dflt f) else lf f := by
  induction w generalizing lf with
  | nil => simp [applyLines]
  | cons l rest ih =>
    obtain ⟨x, y, z⟩ := l
    have h0 := hw (x, y, z) (by simp)
    simp only at h0
    obtain ⟨hy, hz⟩ := h0
    subst hy; subst hz
    rw [applyLines, ih (fun l hl => hw l (by simp [hl]))]
    by_cases h1 : rest.any (fun l => l.1 == f) = true
    · simp [h1]
    · by_cases h2 : f = x
      · subst h2; simp [h1]
      · have h3 : (x == f) = false := by simp; exact fun h => h2 h.symm
        simp [h1, h2, h3]

theorem filter_len_one_any {α} (p : α → Bool) (l : List α) (h : (l.filter p).length = 1) :
    l.any p = true := by
  cases hf : l.filter p with
  | nil => simp [hf] at h
  | cons a t =>
    have : a ∈ l.filter p := by simp [hf]
    rw [List.mem_filter] at this
    exact List.any_eq_true.mpr ⟨a, this.1, this.2⟩

theorem find_of_filter_len_one {α} (p : α → Bool) (l : List α) (h : (l.filter p).length = 1) :
    ∃ a, l.find? p = some a ∧ a ∈ l ∧ p a = true := by
  cases hf : l.find? p with
  | none =>
    rw [List.find?_eq_none] at hf
    have : l.filter p = [] := by
      rw [List.filter_eq_nil_iff]; exact hf
    simp [this] at h
  | some a => exact ⟨a, rfl, List.mem_of_find?_eq_some hf, List.find?_some hf⟩

end GrmVerif.LexCodegen
