import GrmVerif.Lemmas.YaccParse
/-!
Helper lemmas for the yacc part of C12, part 2: the Hoare predicate `M.Sat` over the state monad,
specifications of the primitive operations, of the `&mut self` helpers that only touch
`num_newlines` (`parse_ws`, `parse_to_single_colon`, `parse_action`), of
`add_duplicate_occurrence`, and preservation of `AstOK` by every update of the AST.
-/
namespace GrmVerif.YaccParse
open GrmVerif.Header (Res Span byteLen dropBytes slice sliceRange lookahead Valid SpanOK
  dropBytes_some dropBytes_advance valid_advance slice_sat lookahead_sat spanOK_refl)

/-- started in `st`, `m` returns `ok a` in a state with `P a st'`, or `Err e` in a state with
`E e st'`; never a panic, never out of fuel -/
def M.Sat {α : Type} (m : M α) (st : St) (P : α → St → Prop) (E : YErr → St → Prop) : Prop :=
  Res.Sat (m st) (fun r => P r.1 r.2) (fun r => E r.1 r.2)

theorem M.bind_def {α β : Type} (m : M α) (f : α → M β) (st : St) :
    (m >>= f) st = match m st with
      | .ok (a, st') => f a st'
      | .err e => .err e
      | .panic => .panic
      | .fuelOut => .fuelOut := rfl

theorem M.Sat.bind {α β : Type} {m : M α} {f : α → M β} {st : St} {P : α → St → Prop}
    {Q : β → St → Prop} {E : YErr → St → Prop} (h : m.Sat st P E)
    (hf : ∀ a st', P a st' → (f a).Sat st' Q E) : (m >>= f).Sat st Q E := by
  unfold M.Sat at *
  rw [M.bind_def]
  cases hm : m st with
  | ok r => rw [hm] at h; obtain ⟨a, st'⟩ := r; exact hf a st' h
  | err e => rw [hm] at h; exact h
  | panic => rw [hm] at h; exact h
  | fuelOut => rw [hm] at h; exact h

theorem M.Sat.pure {α : Type} {a : α} {st : St} {P : α → St → Prop} {E : YErr → St → Prop}
    (h : P a st) : (Pure.pure a : M α).Sat st P E := h

theorem M.Sat.mono {α : Type} {m : M α} {st : St} {P Q : α → St → Prop} {E F : YErr → St → Prop}
    (h : m.Sat st P E) (hp : ∀ a st', P a st' → Q a st') (he : ∀ e st', E e st' → F e st') :
    m.Sat st Q F := by
  unfold M.Sat at *
  cases hm : m st with
  | ok r => rw [hm] at h; exact hp _ _ h
  | err e => rw [hm] at h; exact he _ _ h
  | panic => rw [hm] at h; exact h
  | fuelOut => rw [hm] at h; exact h

/-- the error postcondition used throughout: a located, well-formed error in a well-formed state -/
def EOK (src : List Char) : YErr → St → Prop := fun e st => ErrOK src e ∧ StOK src st

/-- only `num_newlines` changed -/
def NlOnly (st st' : St) : Prop := ∃ n, st' = { st with nl := n }

theorem NlOnly.refl (st : St) : NlOnly st st := ⟨st.nl, rfl⟩

theorem NlOnly.trans {a b c : St} (h1 : NlOnly a b) (h2 : NlOnly b c) : NlOnly a c := by
  obtain ⟨n, rfl⟩ := h1
  obtain ⟨m, rfl⟩ := h2
  exact ⟨m, rfl⟩

theorem NlOnly.stOK {src : List Char} {st st' : St} (h : NlOnly st st') (hs : StOK src st) :
    StOK src st' := by
  obtain ⟨n, rfl⟩ := h
  exact hs

theorem NlOnly.ast {st st' : St} (h : NlOnly st st') : st'.ast = st.ast := by
  obtain ⟨n, rfl⟩ := h
  rfl

theorem NlOnly.errs {st st' : St} (h : NlOnly st st') : st'.errs = st.errs := by
  obtain ⟨n, rfl⟩ := h
  rfl

/-! ### primitive operations -/

theorem liftR_ok {α : Type} {src : List Char} {r : Res YErr α} {P : α → Prop} {st : St}
    (h : r.Sat P (ErrOK src)) (hst : StOK src st) :
    (liftR r).Sat st (fun a st' => P a ∧ st = st') (EOK src) := by
  unfold M.Sat liftR
  cases r with
  | ok a => exact ⟨h, rfl⟩
  | err e => exact ⟨h, hst⟩
  | panic => exact h
  | fuelOut => exact h

theorem getSt_ok {st : St} {E : YErr → St → Prop} :
    getSt.Sat st (fun s st' => st = s ∧ st = st') E := ⟨rfl, rfl⟩

theorem modifySt_ok {f : St → St} {st : St} {E : YErr → St → Prop} :
    (modifySt f).Sat st (fun _ st' => st' = f st) E := rfl

theorem modifyAst_ok {f : Ast → Ast} {st : St} {E : YErr → St → Prop} :
    (modifyAst f).Sat st (fun _ st' => st' = { st with ast := f st.ast }) E := rfl

theorem addNl_ok {k : Nat} {st : St} {E : YErr → St → Prop} :
    (addNl k).Sat st (fun _ st' => NlOnly st st') E := ⟨st.nl + k, rfl⟩

theorem throwAt_ok {α : Type} {src : List Char} {k : EK} {i : Nat} {st : St} {P : α → St → Prop}
    (h : Valid src i) (hst : StOK src st) : (throwAt k i : M α).Sat st P (EOK src) :=
  ⟨mkError_ok h, hst⟩

/-- `lookahead_is(s, i)`: the state is untouched; a match ends at the boundary `i + |s|`; the result is
the one of the pure function (kept so that a later lookahead at the same place can be rewritten) -/
theorem la_ok {src : List Char} (s : String) {i : Nat} {st : St} (h : Valid src i) (hst : StOK src st) :
    (la src s i).Sat st
      (fun o st' => st = st' ∧ (lookahead src s.toList i : Res YErr _) = .ok o ∧
        ∀ j, o = some j → j = i + byteLen s.toList ∧ Valid src j) (EOK src) := by
  unfold la
  have h1 := lookahead_sat (ε := YErr) (E := ErrOK src) s.toList h
  cases hl : (lookahead src s.toList i : Res YErr _) with
  | ok o =>
    rw [hl] at h1
    exact ⟨rfl, rfl, h1⟩
  | err e => rw [hl] at h1; exact ⟨h1, hst⟩
  | panic => rw [hl] at h1; exact h1.elim
  | fuelOut => rw [hl] at h1; exact h1.elim

/-- what a successful lookahead says about the text -/
theorem lookahead_some {src : List Char} {s : List Char} {i j : Nat}
    (h : (lookahead src s i : Res YErr _) = .ok (some j)) :
    ∃ t, dropBytes src i = some (s ++ t) := by
  unfold lookahead slice at h
  cases hd : dropBytes src i with
  | none => rw [hd] at h; simp [bind, Res.bind] at h
  | some rest =>
    rw [hd] at h
    simp only [bind, Res.bind, pure] at h
    by_cases hp : s.isPrefixOf rest = true
    · obtain ⟨t, ht⟩ := List.isPrefixOf_iff_prefix.1 hp
      exact ⟨t, by rw [ht]⟩
    · simp [hp] at h

/-! ### `parse_ws` -/

theorem ws_ok {src : List Char} {inc : Bool} {i : Nat} {st : St} (h : Valid src i) (hst : StOK src st) :
    (ws src inc i).Sat st (fun j st' => i ≤ j ∧ Valid src j ∧ NlOnly st st') (EOK src) := by
  unfold ws
  split
  · refine M.Sat.bind (liftR_ok (slice_sat h) hst) ?_
    rintro rest st' ⟨hr, rfl⟩
    split
    · next n k r heq =>
      obtain ⟨pre, e1, _, e3, _, _⟩ := YaccLex.ws_spec_ok_inc inc rest n k r heq
      refine M.Sat.bind addNl_ok ?_
      intro _ st' hnl
      refine M.Sat.pure ⟨by omega, ?_, hnl⟩
      rw [e3, byteLen_eq]
      exact valid_advance hr ⟨r, e1.symm⟩
    · next e p heq =>
      obtain ⟨pre, tail, e1, _, e3, _⟩ := YaccLex.ws_spec_error_inc inc rest e p heq
      refine throwAt_ok ?_ hst
      rw [e3, byteLen_eq]
      exact valid_advance hr ⟨tail, e1.symm⟩
  · exact M.Sat.pure ⟨Nat.le_refl _, h, NlOnly.refl _⟩

/-! ### `parse_to_single_colon` -/

theorem colonLoop_ok {src : List Char} (f : Nat) : ∀ j st, Valid src j → StOK src st →
    byteLen src - j < f →
    (colonLoop src f j).Sat st (fun j' st' => j ≤ j' ∧ Valid src j' ∧ NlOnly st st') (EOK src) := by
  induction f with
  | zero => intro j st _ _ hf; omega
  | succ f ih =>
    intro j st hv hst hf
    unfold colonLoop
    split
    · next hlt =>
      refine M.Sat.bind (liftR_ok (nextChar_sat hv hlt) hst) ?_
      rintro c st' ⟨⟨rest, hr⟩, rfl⟩
      have hpos := Char.utf8Size_pos c
      have hle := step_le hr
      split
      · next hc =>
        have hs : c.utf8Size = 1 := by subst hc; decide
        have hr1 : dropBytes src (j + 1) = some rest := by
          have := valid_step hr; rwa [hs] at this
        dsimp only
        split
        · exact M.Sat.pure ⟨Nat.le_refl _, hv, NlOnly.refl _⟩
        · refine M.Sat.bind (liftR_ok (slice_sat ⟨rest, hr1⟩) hst) ?_
          rintro rest' st' ⟨hr', rfl⟩
          split
          · next hp =>
            obtain ⟨t, ht⟩ := List.isPrefixOf_iff_prefix.1 hp
            have hr2 : dropBytes src (j + 1 + 1) = some t := by
              have := valid_step (c := ':') (rest := t) (by rw [hr', ← ht]; rfl)
              have h1 : Char.utf8Size ':' = 1 := by decide
              rwa [h1] at this
            have hle2 := Valid.le ⟨t, hr2⟩
            refine M.Sat.mono (ih (j + 2) st ⟨t, hr2⟩ hst (by omega)) ?_ (fun _ _ h => h)
            intro j' st' ⟨h1, h2, h3⟩
            exact ⟨by omega, h2, h3⟩
          · exact M.Sat.pure ⟨Nat.le_refl _, hv, NlOnly.refl _⟩
      · split
        · refine M.Sat.bind addNl_ok ?_
          intro _ st1 hnl
          refine M.Sat.mono (ih _ st1 ⟨rest, valid_step hr⟩ (hnl.stOK hst) (by omega)) ?_
            (fun _ _ h => h)
          intro j' st' ⟨h1, h2, h3⟩
          exact ⟨by omega, h2, hnl.trans h3⟩
        · refine M.Sat.mono (ih _ st ⟨rest, valid_step hr⟩ hst (by omega)) ?_ (fun _ _ h => h)
          intro j' st' ⟨h1, h2, h3⟩
          exact ⟨by omega, h2, h3⟩
    · exact throwAt_ok hv hst

theorem parseToSingleColon_ok {src : List Char} {fuel i : Nat} {st : St} (h : Valid src i)
    (hst : StOK src st) (hf : byteLen src < fuel) :
    (parseToSingleColon src fuel i).Sat st (fun j st' => i ≤ j ∧ Valid src j ∧ NlOnly st st')
      (EOK src) := by
  unfold parseToSingleColon
  refine M.Sat.bind (colonLoop_ok fuel i st h hst (by omega)) ?_
  intro j st1 ⟨hij, hj, hnl⟩
  refine M.Sat.bind (liftR_ok (sliceRange_sat h hj hij) (hnl.stOK hst)) ?_
  rintro _ st2 ⟨_, rfl⟩
  exact M.Sat.pure ⟨hij, hj, hnl⟩

/-! ### `parse_action` -/

/-- with at least one brace open, the loop ends at the matching `}` with `c = 0`, or at the end of the
text with `c ≥ 1` -/
theorem actionLoop_ok {src : List Char} (f : Nat) : ∀ j (c : Int) st, Valid src j → StOK src st →
    1 ≤ c → byteLen src - j < f →
    (actionLoop src f j c).Sat st
      (fun r st' => j ≤ r.1 ∧ NlOnly st st' ∧
        ((r.2 = 0 ∧ ∃ rest, dropBytes src r.1 = some ('}' :: rest)) ∨ 1 ≤ r.2)) (EOK src) := by
  induction f with
  | zero => intro j c st _ _ _ hf; omega
  | succ f ih =>
    intro j c st hv hst hc hf
    unfold actionLoop
    split
    · next hlt =>
      refine M.Sat.bind (liftR_ok (nextChar_sat hv hlt) hst) ?_
      rintro ch st' ⟨⟨rest, hr⟩, rfl⟩
      have hpos := Char.utf8Size_pos ch
      have hle := step_le hr
      have hv' : Valid src (j + ch.utf8Size) := ⟨rest, valid_step hr⟩
      have step : ∀ (c' : Int) (st1 : St), 1 ≤ c' → NlOnly st st1 →
          (actionLoop src f (j + ch.utf8Size) c').Sat st1
            (fun r st' => j ≤ r.1 ∧ NlOnly st st' ∧
              ((r.2 = 0 ∧ ∃ rest, dropBytes src r.1 = some ('}' :: rest)) ∨ 1 ≤ r.2)) (EOK src) := by
        intro c' st1 hc' hnl
        refine M.Sat.mono (ih _ c' st1 hv' (hnl.stOK hst) hc' (by omega)) ?_ (fun _ _ h => h)
        intro r st' ⟨h1, h2, h3⟩
        exact ⟨by omega, hnl.trans h2, h3⟩
      split
      · exact step _ st (by omega) (NlOnly.refl _)
      · split
        · next hb =>
          split
          · subst hb
            exact M.Sat.pure ⟨Nat.le_refl _, NlOnly.refl _, Or.inl ⟨rfl, rest, hr⟩⟩
          · exact step _ st (by omega) (NlOnly.refl _)
        · split
          · refine M.Sat.bind addNl_ok ?_
            intro _ st1 hnl
            exact step _ st1 hc hnl
          · exact step _ st hc (NlOnly.refl _)
    · exact M.Sat.pure ⟨Nat.le_refl _, NlOnly.refl _, Or.inr hc⟩

theorem lookahead_char {src : List Char} {c : Char} {t : List Char} {i : Nat}
    (h : dropBytes src i = some (c :: t)) :
    (lookahead src [c] i : Res YErr _) = .ok (some (i + byteLen [c])) := by
  simp [lookahead, slice, h, bind, Res.bind, pure]

theorem parseAction_ok {src : List Char} {fuel i : Nat} {st : St} {t : List Char}
    (hb : dropBytes src i = some ('{' :: t)) (hst : StOK src st) (hf : byteLen src < fuel) :
    (parseAction src fuel i).Sat st (fun j st' => i < j ∧ Valid src j ∧ NlOnly st st') (EOK src) := by
  have h : Valid src i := ⟨_, hb⟩
  have hs1 : Char.utf8Size '{' = 1 := by decide
  have hv1 : Valid src (i + 1) := ⟨t, by have := valid_step hb; rwa [hs1] at this⟩
  have hle := step_le hb
  unfold parseAction
  refine M.Sat.bind (la_ok "{" h hst) ?_
  rintro o st' ⟨rfl, hl, _⟩
  have hlk := lookahead_char (src := src) hb
  have e1 : "{".toList = ['{'] := rfl
  rw [e1, hlk] at hl
  obtain rfl := Res.ok.inj hl
  dsimp only
  cases fuel with
  | zero => omega
  | succ f =>
    have hstart : (actionLoop src (f + 1) i 0).Sat st
        (fun r st' => i + 1 ≤ r.1 ∧ NlOnly st st' ∧
          ((r.2 = 0 ∧ ∃ rest, dropBytes src r.1 = some ('}' :: rest)) ∨ 1 ≤ r.2)) (EOK src) := by
      unfold actionLoop
      rw [if_pos (by omega)]
      refine M.Sat.bind (liftR_ok (nextChar_sat h (by omega)) hst) ?_
      rintro ch st' ⟨⟨rest, hr⟩, rfl⟩
      rw [hb] at hr
      simp only [Option.some.injEq, List.cons.injEq] at hr
      obtain ⟨rfl, rfl⟩ := hr
      rw [if_pos rfl, hs1]
      exact actionLoop_ok f (i + 1) (0 + 1) st hv1 hst (by omega) (by omega)
    refine M.Sat.bind hstart ?_
    rintro ⟨j, c⟩ st1 ⟨hij, hnl, hcase⟩
    dsimp only at hij hcase ⊢
    have hst1 := hnl.stOK hst
    split
    · exact throwAt_ok h hst1
    · next hc =>
      rcases hcase with ⟨_, rest, hr⟩ | hc1
      · have hvj : Valid src j := ⟨_, hr⟩
        have hs2 : Char.utf8Size '}' = 1 := by decide
        refine M.Sat.bind (la_ok "}" hvj hst1) ?_
        rintro o st' ⟨rfl, hl2, _⟩
        have hlk2 := lookahead_char (src := src) hr
        have e2 : "}".toList = ['}'] := rfl
        rw [e2, hlk2] at hl2
        obtain rfl := Res.ok.inj hl2
        dsimp only
        refine M.Sat.bind (liftR_ok (sliceRange_sat hv1 hvj hij) hst1) ?_
        rintro _ st2 ⟨_, rfl⟩
        refine M.Sat.pure ⟨by omega, ?_, hnl⟩
        exact ⟨rest, by have := valid_step hr; rwa [hs2] at this⟩
      · omega

/-! ### `add_duplicate_occurrence` -/

theorem addDup_ok {src : List Char} {kind : EK} {orig dup : Span} (ho : SpanOK src orig)
    (hd : SpanOK src dup) : ∀ errs : List YErr, (∀ e ∈ errs, ErrOK src e) →
    ∃ errs', addDup kind orig dup errs = some errs' ∧ ∀ e ∈ errs', ErrOK src e := by
  intro errs
  induction errs with
  | nil =>
    intro _
    refine ⟨_, rfl, ?_⟩
    intro e he
    simp at he; subst he
    refine ⟨by simp, ?_⟩
    intro sp hsp; simp at hsp
    rcases hsp with rfl | rfl
    · exact ho
    · exact hd
  | cons x xs ih =>
    intro hall
    obtain ⟨errs', h1, h2⟩ := ih (fun e he => hall e (by simp [he]))
    have hx := hall x (by simp)
    have keep : ∃ errs'', (addDup kind orig dup xs).map (x :: ·) = some errs'' ∧
        ∀ e ∈ errs'', ErrOK src e := by
      refine ⟨x :: errs', by simp [h1], ?_⟩
      intro e he
      simp at he
      rcases he with rfl | he
      · exact hx
      · exact h2 e he
    unfold addDup
    split
    · split
      · next hnil => exact absurd hnil hx.1
      · next s0 tl hsp =>
        split
        · refine ⟨_, rfl, ?_⟩
          intro e he
          simp at he
          rcases he with rfl | he
          · refine ⟨by simp, ?_⟩
            intro sp hsp'
            simp at hsp'
            rcases hsp' with hsp' | rfl
            · exact hx.2 sp hsp'
            · exact hd
          · exact hall e (by simp [he])
        · exact keep
    · exact keep

theorem addDupM_ok {src : List Char} {kind : EK} {orig dup : Span} {st : St}
    {E : YErr → St → Prop} (hst : StOK src st) (ho : SpanOK src orig) (hd : SpanOK src dup) :
    (addDupM kind orig dup).Sat st (fun _ st' => StOK src st' ∧ st'.ast = st.ast ∧ st'.nl = st.nl) E := by
  obtain ⟨errs', h1, h2⟩ := addDup_ok (kind := kind) ho hd st.errs hst.2.2
  unfold M.Sat addDupM
  rw [h1]
  exact ⟨⟨hst.1, hst.2.1, h2⟩, rfl, rfl⟩

end GrmVerif.YaccParse
