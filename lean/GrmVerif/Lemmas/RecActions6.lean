import GrmVerif.Lemmas.RecActions5
/-!
The recovering action driver (C08, recovery on), part 6 — the loop of `Parser::lr` one table action per
iteration (`RecAct.lrA`: every iteration is ONE `Act.stepA`; at `Action::Error` the recoverer is asked and
its first sequence replayed) returns what the lookahead-granular model `recRunA` returns, whenever the
latter returns a value or gives up at an error (`lrA_of_recRunA`).
-/
namespace GrmVerif.RecAct
open GrmVerif LR Act Rec Cert C05

theorem ofA_toA (v : VCfg) (i : Nat) : VCfg.ofA (v.toA i) = v := rfl

theorem toA_laidx (v : VCfg) (i : Nat) : (v.toA i).c.laidx = i := rfl

theorem toA_ofA (a : ACfg) : (VCfg.ofA a).toA a.c.laidx = a := rfl

/-- steps of `stepA` are iterations of `lrA` -/
theorem lrA_of_stepsA {G : Grammar} {A : Automaton} {w : List Nat} {lexSpan : Nat → Nat × Nat}
    {recover : Pos → List (List Repair)} {a b : ACfg} (hs : StepsA G A w lexSpan a b) (errs : List Err) :
    ∀ (f : Nat) (r : Outcome × List Call × List Err),
      lrA G A w lexSpan recover f ⟨VCfg.ofA b, b.c.laidx⟩ errs = r → r.1 ≠ .fuelOut →
      ∃ f', lrA G A w lexSpan recover f' ⟨VCfg.ofA a, a.c.laidx⟩ errs = r := by
  induction hs with
  | refl a => intro f r h _; exact ⟨f, h⟩
  | step x y z hxy _ ih =>
    intro f r h hne
    obtain ⟨f1, h1⟩ := ih f r h hne
    refine ⟨f1 + 1, ?_⟩
    simp only [lrA, toA_ofA, hxy]
    exact h1

/-- **The step-by-step loop of `lr` returns what the lookahead-granular model returns** (value, or
giving up at an error): same outcome, same log of action calls, same errors. -/
theorem lrA_of_recRunA (G : Grammar) (A : Automaton) (w : List Nat) (lexSpan : Nat → Nat × Nat)
    (recover : Pos → List (List Repair)) :
    ∀ (fuel : Nat) (c : RACfg) (errs : List Err) (o : Outcome) (log : List Call) (errs' : List Err),
      recRunA G A w lexSpan recover fuel c errs = (o, log, errs') →
      ((∃ t, o = .accept t) ∨ (∃ la st, o = .error la st)) →
      ∃ fuel', lrA G A w lexSpan recover fuel' c errs = (o, log, errs') := by
  intro fuel
  induction fuel with
  | zero =>
    intro c errs o log errs' h ho
    simp only [recRunA, Prod.mk.injEq] at h
    rcases ho with ⟨t, ht⟩ | ⟨la, st, ht⟩ <;> rw [ht] at h <;> cases h.1
  | succ n ih =>
    intro c errs o log errs' h ho
    have hne : (o, log, errs').1 ≠ Outcome.fuelOut := by
      rcases ho with ⟨t, ht⟩ | ⟨la, st, ht⟩ <;> rw [ht] <;> simp
    simp only [recRunA] at h
    cases hf : feedA G A (nextTok G w c.laidx) FUEL c.v with
    | shifted s' v' =>
      rw [hf] at h
      simp only at h
      obtain ⟨f1, h1⟩ := ih _ errs o log errs' h ho
      exact lrA_of_stepsA (feedA_shifted_stepsA G A w lexSpan c.laidx hf) errs f1 _ h1 hne
    | accept v' =>
      rw [hf] at h
      simp only [Prod.mk.injEq] at h
      obtain ⟨hs, hdone⟩ := feedA_accept_stepsA G A w lexSpan c.laidx hf
      refine lrA_of_stepsA hs errs 1 _ ?_ hne
      simp only [lrA, ofA_toA, toA_laidx]
      rw [hdone, h.1]
      rcases ho with ⟨t, ht⟩ | ⟨la, st, ht⟩
      · rw [ht]; simp only [ofA_toA]; rw [h.2.1, h.2.2]
      · exfalso
        rw [← h.1] at ht
        simp only [acceptOut] at ht
        cases hl : v'.astack.getLast? with
        | none => rw [hl] at ht; cases ht
        | some x => rw [hl] at ht; cases x <;> cases ht
    | crash =>
      rw [hf] at h
      simp only [Prod.mk.injEq] at h
      rcases ho with ⟨t, ht⟩ | ⟨la, st, ht⟩ <;> rw [ht] at h <;> cases h.1
    | fuelOut =>
      rw [hf] at h
      simp only [Prod.mk.injEq] at h
      rcases ho with ⟨t, ht⟩ | ⟨la, st, ht⟩ <;> rw [ht] at h <;> cases h.1
    | error v' =>
      rw [hf] at h
      simp only at h
      obtain ⟨hs, hstop⟩ := feedA_stepsA G A w lexSpan c.laidx FUEL c.v v' (by rw [hf]; rfl)
      rw [hf] at hstop
      obtain ⟨st, tl, hps, hact⟩ := hstop
      have hdone : stepA G A w lexSpan (v'.toA c.laidx) = .done (.error c.laidx st) v'.log := by
        obtain ⟨ps, as, sp, lg⟩ := v'
        simp only at hps
        subst hps
        simp only [stepA, VCfg.toA, hact]
      cases hrec : recover ⟨v'.pstack, c.laidx⟩ with
      | nil =>
        rw [hrec] at h
        refine lrA_of_stepsA hs errs 1 _ ?_ hne
        simp only [lrA, ofA_toA, toA_laidx, hdone, hrec]
        rw [← h, hps]; rfl
      | cons s0 rest =>
        rw [hrec] at h
        simp only at h
        cases happ : applySeqA G A w lexSpan ⟨v', c.laidx⟩ s0 with
        | none =>
          rw [happ] at h
          simp only [Prod.mk.injEq] at h
          rcases ho with ⟨t, ht⟩ | ⟨la, st', ht⟩ <;> rw [ht] at h <;> cases h.1
        | some c' =>
          rw [happ] at h
          simp only at h
          obtain ⟨f1, h1⟩ := ih c' _ o log errs' h ho
          refine lrA_of_stepsA hs errs (f1 + 1) _ ?_ hne
          simp only [lrA, ofA_toA, toA_laidx, hdone, hrec, happ]
          exact h1

end GrmVerif.RecAct
