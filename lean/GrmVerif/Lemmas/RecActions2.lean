import GrmVerif.Lemmas.RecActions1
import GrmVerif.Lemmas.KeptCert
/-!
The recovering action driver (C08, recovery on), part 2:
* `feedA` is a run of `Act.stepA` (`feedA_stepsA`): every plain step of the recovering driver is a step
  of the plain action driver;
* hence the invariant of C08 (`Act.InvA`: the span stack describes the value stack, the log is the
  specification's call list of the values on the stack) travels through the recovering run, through
  refused lexemes and replayed repairs (`feedA_inv`, `pushLex_inv`, `applySeqA_inv`);
* on a certified table the stacks stay paths of the automaton and the value stack is one shorter than
  the state stack (`Good`), so that at Accept it holds exactly the returned value;
* `recRunA_logOk`: the log of a recovering run that returns a value is the specification's call list
  of that value.
-/
namespace GrmVerif.RecAct
open GrmVerif LR Act Rec Cert C05 Term

/-! ### `feedA` is a run of `stepA` -/

inductive StepsA (G : Grammar) (A : Automaton) (w : List Nat) (ls : Nat → Nat × Nat) : ACfg → ACfg → Prop
  | refl (a : ACfg) : StepsA G A w ls a a
  | step (a a' a'' : ACfg) : stepA G A w ls a = .cont a' → StepsA G A w ls a' a'' → StepsA G A w ls a a''

theorem StepsA.trans {G : Grammar} {A : Automaton} {w : List Nat} {ls : Nat → Nat × Nat} {a b c : ACfg}
    (h1 : StepsA G A w ls a b) (h2 : StepsA G A w ls b c) : StepsA G A w ls a c := by
  induction h1 with
  | refl _ => exact h2
  | step x y z hs _ ih => exact .step x y c hs (ih h2)

theorem StepsA.single {G : Grammar} {A : Automaton} {w : List Nat} {ls : Nat → Nat × Nat} {a b : ACfg}
    (h : stepA G A w ls a = .cont b) : StepsA G A w ls a b := .step a b b h (.refl b)

theorem runA_of_stepsA {G : Grammar} {A : Automaton} {w : List Nat} {ls : Nat → Nat × Nat} {a b : ACfg}
    {o : Outcome} {log : List Call} (h : StepsA G A w ls a b) (hd : stepA G A w ls b = .done o log) :
    ∃ fuel, runA G A w ls fuel a = (o, log) := by
  induction h with
  | refl c => exact ⟨1, by simp [runA, hd]⟩
  | step x y z hs _ ih =>
    obtain ⟨f, hf⟩ := ih hd
    exact ⟨f + 1, by simp [runA, hs, hf]⟩

theorem stepsA_inv {G : Grammar} {A : Automaton} {w : List Nat} {ls : Nat → Nat × Nat} {a b : ACfg}
    (h : StepsA G A w ls a b) (hinv : InvA G ls a) : InvA G ls b := by
  induction h with
  | refl _ => exact hinv
  | step x y z hs _ ih => exact ih (stepA_inv G A w ls x y hinv hs)

/-- what the cell of the top state holds when `feedA` stops -/
def FedA.stopsAt (A : Automaton) (la : Nat) : FedA → Prop
  | .shifted s' x => ∃ st tl, x.pstack = st :: tl ∧ A.action st la = .shift s'
  | .accept x => ∃ st tl, x.pstack = st :: tl ∧ A.action st la = .accept
  | .error x => ∃ st tl, x.pstack = st :: tl ∧ A.action st la = .error
  | _ => True

/-- the configuration `feedA` hands back -/
def FedA.cfg? : FedA → Option VCfg
  | .shifted _ x => some x
  | .accept x => some x
  | .error x => some x
  | _ => none

/-- **the reductions of `feedA` are steps of the plain action driver** under the same lookahead -/
theorem feedA_stepsA (G : Grammar) (A : Automaton) (w : List Nat) (ls : Nat → Nat × Nat) (i : Nat) :
    ∀ (fuel : Nat) (v x : VCfg), (feedA G A (nextTok G w i) fuel v).cfg? = some x →
      StepsA G A w ls (v.toA i) (x.toA i) ∧ (feedA G A (nextTok G w i) fuel v).stopsAt A (nextTok G w i) := by
  intro fuel
  induction fuel with
  | zero => intro v x h; simp [feedA, FedA.cfg?] at h
  | succ n ih =>
    intro v x h
    obtain ⟨ps, as, sp, lg⟩ := v
    cases ps with
    | nil => simp [feedA, FedA.cfg?] at h
    | cons st tl =>
      cases hact : A.action st (nextTok G w i) with
      | shift s' =>
        simp only [feedA, hact, FedA.cfg?, Option.some.injEq] at h ⊢
        subst h
        exact ⟨.refl _, st, tl, rfl, hact⟩
      | accept =>
        simp only [feedA, hact, FedA.cfg?, Option.some.injEq] at h ⊢
        subst h
        exact ⟨.refl _, st, tl, rfl, hact⟩
      | error =>
        simp only [feedA, hact, FedA.cfg?, Option.some.injEq] at h ⊢
        subst h
        exact ⟨.refl _, st, tl, rfl, hact⟩
      | reduce p =>
        by_cases hle : (st :: tl).length ≤ (G.rhs p).length
        · simp only [feedA, hact] at h
          rw [if_pos hle] at h; simp [FedA.cfg?] at h
        · cases hd : List.drop (G.rhs p).length (st :: tl) with
          | nil =>
            simp only [feedA, hact] at h
            rw [if_neg hle, hd] at h; simp [FedA.cfg?] at h
          | cons prior rest =>
            cases hg : A.goto prior (G.lhs p) with
            | none =>
              simp only [feedA, hact] at h
              rw [if_neg hle, hd] at h; simp [hg, FedA.cfg?] at h
            | some s1 =>
              rw [feedA_reduce (v := ⟨st :: tl, as, sp, lg⟩) rfl hact hd hg] at h ⊢
              obtain ⟨h1, h2⟩ := ih _ x h
              refine ⟨.step _ _ _ ?_ h1, h2⟩
              simp only [stepA, VCfg.toA, hact, if_neg hle, hd, hg, reduceV]

/-- a shifted lookahead: the reductions, then the Shift arm of `stepA` -/
theorem feedA_shifted_stepsA (G : Grammar) (A : Automaton) (w : List Nat) (ls : Nat → Nat × Nat) (i : Nat)
    {fuel : Nat} {v x : VCfg} {s' : Nat} (h : feedA G A (nextTok G w i) fuel v = .shifted s' x) :
    StepsA G A w ls (v.toA i) ((pushLex s' (nextTok G w i) i (ls i) x).toA (i + 1)) := by
  obtain ⟨h1, h2⟩ := feedA_stepsA G A w ls i fuel v x (by rw [h]; rfl)
  rw [h] at h2
  obtain ⟨st, tl, hps, hact⟩ := h2
  refine h1.trans (.single ?_)
  obtain ⟨ps, as, sp, lg⟩ := x
  simp only at hps
  subst hps
  simp only [stepA, VCfg.toA, hact, pushLex]

/-- an accepted lookahead: the reductions, then the Accept arm of `stepA` ends the run -/
theorem feedA_accept_stepsA (G : Grammar) (A : Automaton) (w : List Nat) (ls : Nat → Nat × Nat) (i : Nat)
    {fuel : Nat} {v x : VCfg} (h : feedA G A (nextTok G w i) fuel v = .accept x) :
    StepsA G A w ls (v.toA i) (x.toA i) ∧ stepA G A w ls (x.toA i) = .done (acceptOut x) x.log := by
  obtain ⟨h1, h2⟩ := feedA_stepsA G A w ls i fuel v x (by rw [h]; rfl)
  rw [h] at h2
  obtain ⟨st, tl, hps, hact⟩ := h2
  refine ⟨h1, ?_⟩
  obtain ⟨ps, as, sp, lg⟩ := x
  simp only at hps
  subst hps
  simp only [stepA, VCfg.toA, hact, acceptOut]
  cases as.getLast? with
  | none => rfl
  | some t => cases t <;> rfl

/-! ### the invariant of C08 through `feedA`, pushes and replayed repairs -/

/-- `InvA` does not look at the lexeme index -/
theorem invA_toA {G : Grammar} {ls : Nat → Nat × Nat} {v : VCfg} {i j : Nat} (h : InvA G ls (v.toA i)) :
    InvA G ls (v.toA j) := ⟨h.entries, h.log⟩

theorem feedA_inv (G : Grammar) (A : Automaton) (ls : Nat → Nat × Nat) (la : Nat) {fuel : Nat} {v x : VCfg}
    (hinv : InvA G ls (v.toA 0)) (h : (feedA G A la fuel v).cfg? = some x) : InvA G ls (x.toA 0) := by
  have hla : nextTok G [la] 0 = la := by simp [nextTok]
  rw [← hla] at h
  exact stepsA_inv (feedA_stepsA G A [la] ls 0 fuel v x h).1 hinv

/-- pushing a lexeme whose identity has the pushed span keeps the invariant -/
theorem pushLex_inv (G : Grammar) (ls : Nat → Nat × Nat) {v : VCfg} (s' tok id : Nat) (sp : Nat × Nat)
    (hsp : ls id = sp) (hinv : InvA G ls (v.toA 0)) : InvA G ls ((pushLex s' tok id sp v).toA 0) := by
  obtain ⟨hent, hlog⟩ := hinv
  refine ⟨?_, ?_⟩
  · refine ⟨?_, by simp, hent⟩
    simp [eo, spanSpec, leafSpans, Tree.leafIdxs, hsp]
  · simpa [pushLex, VCfg.toA, specCallsList_append, specCallsList, specCalls] using hlog

theorem idSpan_real {lexSpan : Nat → Nat × Nat} {n i : Nat} (h : i ≤ n) : idSpan lexSpan n i = lexSpan i := by
  simp [idSpan, h]

theorem idSpan_lexId (lexSpan : Nat → Nat × Nat) (n : Nat) :
    ∀ it : EItem, (match it with | .real i => i ≤ n | .ins _ _ => True) →
      idSpan lexSpan n (lexId n it) = itemSpan lexSpan n it
  | .real i, h => by simp only at h; simp [idSpan, lexId, itemSpan, h]
  | .ins t b, _ => by
    have h1 : ¬ (n + 1 + b ≤ n) := by omega
    have h2 : n + 1 + b - (n + 1) = b := by omega
    simp [idSpan, lexId, itemSpan, h1, h2]

theorem applyRepairA_inv (G : Grammar) (A : Automaton) (w : List Nat) (lexSpan : Nat → Nat × Nat)
    {c c' : RACfg} {r : Repair} (hinv : InvA G (idSpan lexSpan w.length) (c.v.toA 0))
    (h : applyRepairA G A w lexSpan c r = some c') : InvA G (idSpan lexSpan w.length) (c'.v.toA 0) := by
  cases r with
  | insert t =>
    simp only [applyRepairA] at h
    cases hf : feedA G A t FUEL c.v with
    | shifted s' v' =>
      rw [hf] at h
      simp only [Option.some.injEq] at h
      subst h
      exact pushLex_inv G _ _ _ _ _ (idSpan_lexId lexSpan w.length (.ins t c.laidx) trivial)
        (feedA_inv G A _ t hinv (by rw [hf]; rfl))
    | accept v' => rw [hf] at h; cases h
    | error v' => rw [hf] at h; cases h
    | crash => rw [hf] at h; cases h
    | fuelOut => rw [hf] at h; cases h
  | delete =>
    simp only [applyRepairA] at h
    split at h
    · simp only [Option.some.injEq] at h; subst h; exact hinv
    · cases h
  | shift =>
    simp only [applyRepairA] at h
    cases hw : w[c.laidx]? with
    | none => rw [hw] at h; cases h
    | some t =>
      have hlt : c.laidx < w.length := (List.getElem?_eq_some_iff.mp hw).1
      rw [hw] at h
      simp only at h
      cases hf : feedA G A t FUEL c.v with
      | shifted s' v' =>
        rw [hf] at h
        simp only [Option.some.injEq] at h
        subst h
        exact pushLex_inv G _ _ _ _ _ (idSpan_real (by omega)) (feedA_inv G A _ t hinv (by rw [hf]; rfl))
      | accept v' => rw [hf] at h; cases h
      | error v' => rw [hf] at h; cases h
      | crash => rw [hf] at h; cases h
      | fuelOut => rw [hf] at h; cases h

theorem applySeqA_inv (G : Grammar) (A : Automaton) (w : List Nat) (lexSpan : Nat → Nat × Nat) :
    ∀ (rs : List Repair) {c c' : RACfg}, InvA G (idSpan lexSpan w.length) (c.v.toA 0) →
      applySeqA G A w lexSpan c rs = some c' → InvA G (idSpan lexSpan w.length) (c'.v.toA 0) := by
  intro rs
  induction rs with
  | nil => intro c c' hinv h; simp only [applySeqA, Option.some.injEq] at h; subst h; exact hinv
  | cons r rs ih =>
    intro c c' hinv h
    simp only [applySeqA] at h
    cases hr : applyRepairA G A w lexSpan c r with
    | none => rw [hr] at h; cases h
    | some c1 => rw [hr] at h; exact ih (applyRepairA_inv G A w lexSpan hinv hr) h

/-! ### the value stack is one shorter than the state stack, the state stack a path -/

/-- the shape of the stacks on a certified table -/
structure Good (A : Automaton) (v : VCfg) : Prop where
  path : IsPath A v.pstack
  len : v.astack.length + 1 = v.pstack.length

theorem good_init (A : Automaton) : Good A (initV A) := ⟨IsPath.start A, rfl⟩

theorem feedA_len (G : Grammar) (A : Automaton) (la : Nat) :
    ∀ (fuel : Nat) (v x : VCfg), v.astack.length + 1 = v.pstack.length →
      (feedA G A la fuel v).cfg? = some x → x.astack.length + 1 = x.pstack.length := by
  intro fuel
  induction fuel with
  | zero => intro v x _ h; simp [feedA, FedA.cfg?] at h
  | succ n ih =>
    intro v x hl h
    obtain ⟨ps, as, sp, lg⟩ := v
    cases ps with
    | nil => simp [feedA, FedA.cfg?] at h
    | cons st tl =>
      cases hact : A.action st la with
      | shift s' => simp only [feedA, hact, FedA.cfg?, Option.some.injEq] at h; subst h; exact hl
      | accept => simp only [feedA, hact, FedA.cfg?, Option.some.injEq] at h; subst h; exact hl
      | error => simp only [feedA, hact, FedA.cfg?, Option.some.injEq] at h; subst h; exact hl
      | reduce p =>
        by_cases hle : (st :: tl).length ≤ (G.rhs p).length
        · simp only [feedA, hact] at h
          rw [if_pos hle] at h; simp [FedA.cfg?] at h
        · cases hd : List.drop (G.rhs p).length (st :: tl) with
          | nil =>
            simp only [feedA, hact] at h
            rw [if_neg hle, hd] at h; simp [FedA.cfg?] at h
          | cons prior rest =>
            cases hg : A.goto prior (G.lhs p) with
            | none =>
              simp only [feedA, hact] at h
              rw [if_neg hle, hd] at h; simp [hg, FedA.cfg?] at h
            | some s1 =>
              rw [feedA_reduce (v := ⟨st :: tl, as, sp, lg⟩) rfl hact hd hg] at h
              refine ih _ x ?_ h
              simp only at hl
              simp only [reduceV, List.length_cons, List.length_drop] at hl ⊢
              simp only [List.length_cons] at hle
              omega

/-- a token beyond the grammar's tokens is refused at once (`colsOk`) -/
theorem feed_big_token {G : Grammar} {A : Automaton} (hcols : colsOk G A = true) {la : Nat}
    (hla : ¬ la < G.ntoks) : ∀ (fuel : Nat) (stack : List Nat),
      feed G A la fuel stack = .error stack ∨ feed G A la fuel stack = .fuelOut ∨ feed G A la fuel stack = .crash := by
  intro fuel stack
  cases fuel with
  | zero => exact Or.inr (Or.inl rfl)
  | succ n =>
    cases stack with
    | nil => exact Or.inr (Or.inr rfl)
    | cons st tl =>
      have hact : A.action st la = .error := by
        cases h : A.action st la with
        | error => rfl
        | shift s' => exact absurd (colsOk_action hcols (by rw [h]; simp)) hla
        | accept => exact absurd (colsOk_action hcols (by rw [h]; simp)) hla
        | reduce p => exact absurd (colsOk_action hcols (by rw [h]; simp)) hla
      exact Or.inl (by simp [feed, hact])

/-- `feed` on a path hands back a path, whatever the lookahead -/
theorem feed_isPath {G : Grammar} {A : Automaton} (P : Props G A) (hcols : colsOk G A = true) (la : Nat)
    (fuel : Nat) (stack : List Nat) (hp : IsPath A stack) :
    (∀ s, feed G A la fuel stack = .shifted s → IsPath A s) ∧
    (∀ s, feed G A la fuel stack = .error s → IsPath A s) ∧
    (∀ s, feed G A la fuel stack = .accept s → IsPath A s) := by
  by_cases hla : la < G.ntoks
  · obtain ⟨_, h1, h2, h3⟩ := C07.feed_path P la hla fuel stack hp
    exact ⟨fun s h => (h1 s h).1, h2, h3⟩
  · rcases feed_big_token hcols hla fuel stack with h | h | h
    · rw [h]; refine ⟨by simp, ?_, by simp⟩
      intro s hs; injection hs with hs; subst hs; exact hp
    · rw [h]; simp
    · rw [h]; simp

theorem feedA_good_shifted {G : Grammar} {A : Automaton} (P : Props G A) (hcols : colsOk G A = true) {la : Nat}
    {fuel : Nat} {v x : VCfg} {s' : Nat} (hg : Good A v) (hf : feedA G A la fuel v = .shifted s' x)
    (tok id : Nat) (sp : Nat × Nat) : Good A (pushLex s' tok id sp x) := by
  have hl := feedA_len G A la fuel v x hg.len (by rw [hf]; rfl)
  refine ⟨(feed_isPath P hcols la fuel v.pstack hg.path).1 _ (feedA_shifted_feed hf), ?_⟩
  simp only [pushLex, List.length_cons]; omega

theorem feedA_good_accept {G : Grammar} {A : Automaton} (P : Props G A) (hcols : colsOk G A = true) {la : Nat}
    {fuel : Nat} {v x : VCfg} (hg : Good A v) (hf : feedA G A la fuel v = .accept x) : Good A x :=
  ⟨(feed_isPath P hcols la fuel v.pstack hg.path).2.2 _ (feedA_accept_feed hf),
   feedA_len G A la fuel v x hg.len (by rw [hf]; rfl)⟩

theorem feedA_good_error {G : Grammar} {A : Automaton} (P : Props G A) (hcols : colsOk G A = true) {la : Nat}
    {fuel : Nat} {v x : VCfg} (hg : Good A v) (hf : feedA G A la fuel v = .error x) : Good A x :=
  ⟨(feed_isPath P hcols la fuel v.pstack hg.path).2.1 _ (feedA_error_feed hf),
   feedA_len G A la fuel v x hg.len (by rw [hf]; rfl)⟩

end GrmVerif.RecAct
