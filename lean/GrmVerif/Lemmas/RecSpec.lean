import GrmVerif.Model.RecLive
import GrmVerif.Lemmas.Term
/-!
Specification vocabulary of C07 (`Runs`, `RecovererOK`, `Spaced`, `AllButLastRepaired`) and the
lemmas about the recovering driver that need no certificate of the automaton: `recRunF … FUEL` is
`recRun`; an answer of the instrumented driver `recRunO` is the answer of `recRunF`, does not change
with more fuel (of the loop or of `feed`), has the shape C07 asks for, and carries a value exactly
when its last error was repaired.
-/
namespace GrmVerif.C07
open GrmVerif Rec LR

/-- from `c` the plain parse shifts `k` further lexemes without an error, or accepts before that -/
inductive Runs (G : Grammar) (A : Automaton) (w : List Nat) : Nat → Pos → Prop
  | zero (c : Pos) : Runs G A w 0 c
  | acc (c : Pos) (k : Nat) (s : List Nat) : feed G A (nextTok G w c.pos) FUEL c.stack = .accept s → Runs G A w k c
  | shift (c : Pos) (k : Nat) (s : List Nat) : feed G A (nextTok G w c.pos) FUEL c.stack = .shifted s →
      Runs G A w k ⟨s, c.pos + 1⟩ → Runs G A w (k + 1) c

/-- what a well-behaved recoverer guarantees: it never moves backwards, and from where it leaves
the parser a plain parse continues over `N` lexemes or to acceptance -/
def RecovererOK (G : Grammar) (A : Automaton) (w : List Nat) (N : Nat)
    (recover : Pos → Option (Pos × List (List Repair))) : Prop :=
  ∀ c c' rs, recover c = some (c', rs) → rs ≠ [] → c.pos ≤ c'.pos ∧ Runs G A w N c'

/-- consecutive errors are at least `N` lexemes apart -/
def Spaced (N : Nat) : List Err → Prop
  | [] => True
  | [_] => True
  | e1 :: e2 :: rest => e1.pos + N ≤ e2.pos ∧ Spaced N (e2 :: rest)

/-- every error except possibly the last has a repair sequence -/
def AllButLastRepaired : List Err → Prop
  | [] => True
  | [_] => True
  | e1 :: e2 :: rest => e1.repairs ≠ [] ∧ AllButLastRepaired (e2 :: rest)

theorem spaced_cons {N : Nat} {e : Err} {l : List Err} (hl : Spaced N l)
    (hh : ∀ e2, l.head? = some e2 → e.pos + N ≤ e2.pos) : Spaced N (e :: l) := by
  cases l with
  | nil => trivial
  | cons e2 rest => exact ⟨hh e2 rfl, hl⟩

theorem allButLast_cons {e : Err} {l : List Err} (hl : AllButLastRepaired l) (he : l ≠ [] → e.repairs ≠ []) :
    AllButLastRepaired (e :: l) := by
  cases l with
  | nil => trivial
  | cons e2 rest => exact ⟨he (by simp), hl⟩

/-- a plain parse that runs `k` lexemes runs any smaller number -/
theorem Runs.le {G : Grammar} {A : Automaton} {w : List Nat} {k : Nat} {c : Pos} (h : Runs G A w k c) :
    ∀ j, j ≤ k → Runs G A w j c := by
  induction h with
  | zero c => intro j hj; have : j = 0 := by omega
              subst this; exact .zero c
  | acc c k s ha => intro j _; exact .acc c j s ha
  | shift c k s hs _ ih =>
    intro j hj
    cases j with
    | zero => exact .zero c
    | succ j => exact .shift c j s hs (ih j (by omega))

/-- an answer of `feed` other than "out of fuel" is its answer for every larger fuel -/
theorem feed_ge {G : Grammar} {A : Automaton} {la f f' : Nat} {stack : List Nat} {r : Fed}
    (h : feed G A la f stack = r) (hr : r ≠ .fuelOut) (hle : f ≤ f') : feed G A la f' stack = r := by
  obtain ⟨d, rfl⟩ := Nat.exists_eq_add_of_le hle
  rw [Term.feed_fuel_mono G A la f stack (by rw [h]; exact hr) d, h]

/-- `recRun` is `recRunF` at the constant `FUEL` -/
theorem recRunF_FUEL (G : Grammar) (A : Automaton) (w : List Nat)
    (recover : Pos → Option (Pos × List (List Repair))) :
    ∀ (fuel : Nat) (c : Pos) (errs : List Err),
      recRunF G A w recover FUEL fuel c errs = recRun G A w recover fuel c errs := by
  intro fuel
  induction fuel with
  | zero => intro c errs; rfl
  | succ n ih =>
    intro c errs
    simp only [recRunF, recRun]
    cases hf : feed G A (nextTok G w c.pos) FUEL c.stack with
    | shifted s => exact ih _ _
    | accept s => rfl
    | crash => rfl
    | fuelOut => rfl
    | error s =>
      simp only []
      cases hr : recover ⟨s, c.pos⟩ with
      | none => rfl
      | some x =>
        obtain ⟨c', rs⟩ := x
        simp only []
        by_cases he : rs.isEmpty = true
        · rw [if_pos he, if_pos he]
        · rw [if_neg he, if_neg he]; exact ih _ _

/-- an answer of the instrumented driver is the answer of the totalised one -/
theorem recRunO_some_recRunF (G : Grammar) (A : Automaton) (w : List Nat)
    (recover : Pos → Option (Pos × List (List Repair))) (ff : Nat) :
    ∀ (fuel : Nat) (c : Pos) (errs : List Err) (r : Bool × List Err),
      recRunO G A w recover ff fuel c errs = some r → recRunF G A w recover ff fuel c errs = r := by
  intro fuel
  induction fuel with
  | zero => intro c errs r h; simp [recRunO] at h
  | succ n ih =>
    intro c errs r h
    simp only [recRunO] at h
    simp only [recRunF]
    cases hf : feed G A (nextTok G w c.pos) ff c.stack with
    | shifted s => rw [hf] at h; exact ih _ _ _ h
    | accept s => rw [hf] at h; simpa using h
    | crash => rw [hf] at h; cases h
    | fuelOut => rw [hf] at h; cases h
    | error s =>
      rw [hf] at h
      simp only [] at h ⊢
      cases hr : recover ⟨s, c.pos⟩ with
      | none => rw [hr] at h; simpa using h
      | some x =>
        obtain ⟨c', rs⟩ := x
        rw [hr] at h
        simp only [] at h ⊢
        by_cases he : rs.isEmpty = true
        · rw [if_pos he] at h ⊢; simpa using h
        · rw [if_neg he] at h ⊢; exact ih _ _ _ h

/-- **more fuel, same answer**: an answer of the instrumented driver is its answer for every larger
fuel of the loop and every larger fuel of `feed` -/
theorem recRunO_mono' (G : Grammar) (A : Automaton) (w : List Nat)
    (recover : Pos → Option (Pos × List (List Repair))) (ff ff' : Nat) (hff : ff ≤ ff') :
    ∀ (fuel : Nat) (c : Pos) (errs : List Err) (r : Bool × List Err),
      recRunO G A w recover ff fuel c errs = some r →
      ∀ fuel', fuel ≤ fuel' → recRunO G A w recover ff' fuel' c errs = some r := by
  intro fuel
  induction fuel with
  | zero => intro c errs r h; simp [recRunO] at h
  | succ n ih =>
    intro c errs r h fuel' hle
    cases fuel' with
    | zero => omega
    | succ m =>
      have hle' : n ≤ m := by omega
      simp only [recRunO] at h ⊢
      cases hf : feed G A (nextTok G w c.pos) ff c.stack with
      | crash => rw [hf] at h; cases h
      | fuelOut => rw [hf] at h; cases h
      | shifted s =>
        rw [hf] at h
        rw [feed_ge hf (by simp) hff]
        exact ih _ _ _ h m hle'
      | accept s =>
        rw [hf] at h
        rw [feed_ge hf (by simp) hff]
        exact h
      | error s =>
        rw [hf] at h
        rw [feed_ge hf (by simp) hff]
        simp only [] at h ⊢
        cases hr : recover ⟨s, c.pos⟩ with
        | none => rw [hr] at h; exact h
        | some x =>
          obtain ⟨c', rs⟩ := x
          rw [hr] at h
          simp only [] at h ⊢
          by_cases he : rs.isEmpty = true
          · rw [if_pos he] at h ⊢; exact h
          · rw [if_neg he] at h ⊢; exact ih _ _ _ h m hle'

/-- the shape of what `recRunF` appends to the error list, for every fuel `ff ≥ FUEL` of `feed`
(`Runs`, and with it `RecovererOK`, speak about `feed` at `FUEL`; a `feed` that answered at `FUEL`
gives the same answer at `ff`) -/
theorem recRunF_shape (G : Grammar) (A : Automaton) (w : List Nat) (N : Nat)
    (recover : Pos → Option (Pos × List (List Repair))) (hok : RecovererOK G A w N recover)
    (ff : Nat) (hff : FUEL ≤ ff) :
    ∀ (fuel : Nat) (c : Pos) (errs : List Err) (k : Nat) (v : Bool) (errs' : List Err),
      Runs G A w k c → recRunF G A w recover ff fuel c errs = (v, errs') →
      ∃ new, errs' = errs ++ new ∧ Spaced N new ∧ AllButLastRepaired new ∧
        (∀ e, new.head? = some e → c.pos + k ≤ e.pos) ∧
        (v = true → ∀ e ∈ new, e.repairs ≠ []) := by
  intro fuel
  induction fuel with
  | zero =>
    intro c errs k v errs' _ h
    simp only [recRunF, Prod.mk.injEq] at h
    exact ⟨[], by simp [h.2], trivial, trivial, by simp, by intro hv; rw [← h.1] at hv; cases hv⟩
  | succ f ih =>
    intro c errs k v errs' hruns h
    simp only [recRunF] at h
    cases hf : feed G A (nextTok G w c.pos) ff c.stack with
    | shifted s =>
      rw [hf] at h
      simp only at h
      have hr' : ∃ k', Runs G A w k' ⟨s, c.pos + 1⟩ ∧ k ≤ k' + 1 := by
        cases hruns with
        | zero _ => exact ⟨0, .zero _, by omega⟩
        | acc _ _ s' ha => rw [feed_ge ha (by simp) hff] at hf; cases hf
        | shift _ k0 s' hs hr =>
          rw [feed_ge hs (by simp) hff] at hf
          injection hf with hf; subst hf; exact ⟨k0, hr, by omega⟩
      obtain ⟨k', hk', hle⟩ := hr'
      obtain ⟨new, h1, h2, h3, h4, h5⟩ := ih ⟨s, c.pos + 1⟩ errs k' v errs' hk' h
      exact ⟨new, h1, h2, h3, fun e he => by have := h4 e he; simp only at this; omega, h5⟩
    | accept s =>
      rw [hf] at h
      simp only [Prod.mk.injEq] at h
      exact ⟨[], by simp [h.2], trivial, trivial, by simp, by simp⟩
    | crash =>
      rw [hf] at h
      simp only [Prod.mk.injEq] at h
      exact ⟨[], by simp [h.2], trivial, trivial, by simp, by intro hv; rw [← h.1] at hv; cases hv⟩
    | fuelOut =>
      rw [hf] at h
      simp only [Prod.mk.injEq] at h
      exact ⟨[], by simp [h.2], trivial, trivial, by simp, by intro hv; rw [← h.1] at hv; cases hv⟩
    | error s =>
      rw [hf] at h
      simp only at h
      have hk0 : k = 0 := by
        cases hruns with
        | zero _ => rfl
        | acc _ _ s' ha => rw [feed_ge ha (by simp) hff] at hf; cases hf
        | shift _ k0 s' hs _ => rw [feed_ge hs (by simp) hff] at hf; cases hf
      subst hk0
      cases hrec : recover ⟨s, c.pos⟩ with
      | none =>
        rw [hrec] at h
        simp only [Prod.mk.injEq] at h
        refine ⟨[⟨c.pos, []⟩], by simp [h.2], trivial, trivial, ?_, ?_⟩
        · intro e he; simp at he; subst he; simp
        · intro hv; rw [← h.1] at hv; cases hv
      | some r =>
        obtain ⟨c', rs⟩ := r
        rw [hrec] at h
        simp only at h
        by_cases hemp : rs.isEmpty = true
        · rw [if_pos hemp] at h
          simp only [Prod.mk.injEq] at h
          refine ⟨[⟨c.pos, []⟩], by simp [h.2], trivial, trivial, ?_, ?_⟩
          · intro e he; simp at he; subst he; simp
          · intro hv; rw [← h.1] at hv; cases hv
        · rw [if_neg hemp] at h
          have hne : rs ≠ [] := by intro e; subst e; simp at hemp
          obtain ⟨hpos, hrun⟩ := hok ⟨s, c.pos⟩ c' rs hrec hne
          simp only at hpos
          obtain ⟨new, h1, h2, h3, h4, h5⟩ := ih c' (errs ++ [⟨c.pos, rs⟩]) N v errs' hrun h
          refine ⟨⟨c.pos, rs⟩ :: new, by simp [h1], ?_, ?_, ?_, ?_⟩
          · exact spaced_cons h2 (fun e2 he => by have := h4 e2 he; simp only; omega)
          · exact allButLast_cons h3 (fun _ => hne)
          · intro e he; simp at he; subst he; simp
          · intro hv e he
            rcases List.mem_cons.mp he with rfl | he
            · exact hne
            · exact h5 hv e he

/-- how a run that really ended relates value and repairs, for ANY recoverer: what it appended is
non-empty unless it accepted at once; with a value every appended error carries a repair sequence;
without a value the LAST appended error carries none (the driver gave up there) -/
theorem recRunO_outcome (G : Grammar) (A : Automaton) (w : List Nat)
    (recover : Pos → Option (Pos × List (List Repair))) (ff : Nat) :
    ∀ (fuel : Nat) (c : Pos) (errs : List Err) (v : Bool) (errs' : List Err),
      recRunO G A w recover ff fuel c errs = some (v, errs') →
      ∃ new, errs' = errs ++ new ∧ (v = true → ∀ e ∈ new, e.repairs ≠ []) ∧
        (v = false → ∃ e, new.getLast? = some e ∧ e.repairs = []) := by
  intro fuel
  induction fuel with
  | zero => intro c errs v errs' h; simp [recRunO] at h
  | succ n ih =>
    intro c errs v errs' h
    simp only [recRunO] at h
    cases hf : feed G A (nextTok G w c.pos) ff c.stack with
    | crash => rw [hf] at h; cases h
    | fuelOut => rw [hf] at h; cases h
    | shifted s => rw [hf] at h; exact ih _ _ _ _ h
    | accept s =>
      rw [hf] at h
      simp only [Option.some.injEq, Prod.mk.injEq] at h
      exact ⟨[], by simp [h.2], by simp, by intro hv; rw [← h.1] at hv; cases hv⟩
    | error s =>
      rw [hf] at h
      simp only [] at h
      have giveUp : some (false, errs ++ [(⟨c.pos, []⟩ : Err)]) = some (v, errs') →
          ∃ new, errs' = errs ++ new ∧ (v = true → ∀ e ∈ new, e.repairs ≠ []) ∧
            (v = false → ∃ e, new.getLast? = some e ∧ e.repairs = []) := by
        intro h
        simp only [Option.some.injEq, Prod.mk.injEq] at h
        refine ⟨[⟨c.pos, []⟩], h.2.symm, ?_, ?_⟩
        · intro hv; rw [← h.1] at hv; cases hv
        · intro _; exact ⟨⟨c.pos, []⟩, rfl, rfl⟩
      cases hr : recover ⟨s, c.pos⟩ with
      | none => rw [hr] at h; exact giveUp h
      | some x =>
        obtain ⟨c', rs⟩ := x
        rw [hr] at h
        simp only [] at h
        by_cases he : rs.isEmpty = true
        · rw [if_pos he] at h; exact giveUp h
        · rw [if_neg he] at h
          have hne : rs ≠ [] := by intro e; subst e; simp at he
          obtain ⟨new, h1, h2, h3⟩ := ih _ _ _ _ h
          refine ⟨⟨c.pos, rs⟩ :: new, by simp [h1], ?_, ?_⟩
          · intro hv e hm
            rcases List.mem_cons.mp hm with rfl | hm
            · exact hne
            · exact h2 hv e hm
          · intro hv
            obtain ⟨e, hl, hrep⟩ := h3 hv
            refine ⟨e, ?_, hrep⟩
            rw [List.getLast?_cons, hl]; rfl

end GrmVerif.C07
