import GrmVerif.Lemmas.LexSpecStep
/-!
The loops of the model (`declLoop`, `ruleLoop`, `parseWith`: byte offsets into the source, slices
that may panic, fuel) compute the specification over the lines (`declSpec`, `ruleSpec`, `specParse`).
-/
namespace GrmVerif.LexSpecParse
open GrmVerif.LexUnescape GrmVerif.LexParse

/-! ### The specification does not depend on how blank text in front of a line is cut into lines -/

theorem declSpec_cons_ws (env : Env) (len off : Nat) (c : Char) (l : List Char) (ls : List Line)
    (st : PState) (hc : isPWS c = true) :
    declSpec env len ((off, c :: l) :: ls) st = declSpec env len ((off + c.utf8Size, l) :: ls) st := by
  rw [declSpec, declSpec]
  simp only [List.dropWhile_cons, List.takeWhile_cons, hc, if_true, byteLen, Nat.add_assoc]

theorem declSpec_skip (env : Env) (len : Nat) (st : PState) (rest : List Char) : ∀ off,
    declSpec env len (splitLinesAt rest off) st
      = declSpec env len (splitLinesAt (rest.dropWhile isPWS) (off + byteLen (rest.takeWhile isPWS))) st := by
  induction rest with
  | nil => intro off; rfl
  | cons c cs ih =>
    intro off
    by_cases hc : isPWS c = true
    · simp only [List.dropWhile_cons, List.takeWhile_cons, hc, if_true, byteLen]
      rw [← Nat.add_assoc, ← ih (off + c.utf8Size)]
      by_cases hs : isLineSep c = true
      · simp only [splitLinesAt, hs, if_true]
        rw [declSpec]
        simp
      · simp only [Bool.not_eq_true] at hs
        simp only [splitLinesAt, hs, Bool.false_eq_true, if_false]
        rw [splitLinesAt_eq cs]
        exact declSpec_cons_ws env len off c _ _ st hc
    · simp only [Bool.not_eq_true] at hc
      simp [hc, byteLen]

theorem declSpec_tail (env : Env) (len : Nat) (st : PState) (r : List Char) (hr : SepHead r) (off : Nat) :
    declSpec env len (tailLines r off) st = declSpec env len (splitLinesAt r off) st := by
  cases r with
  | nil =>
    simp only [tailLines, splitLinesAt]
    rw [declSpec, declSpec, declSpec]
    simp
  | cons c cs =>
    have hs := hr c cs rfl
    simp only [tailLines, splitLinesAt, hs, if_true]
    conv => rhs; rw [declSpec]
    simp

theorem ruleSpec_skip (env : Env) (st : PState) (rest : List Char) : ∀ off,
    ruleSpec env (splitLinesAt rest off) st
      = ruleSpec env (splitLinesAt (rest.dropWhile isLineSep) (off + byteLen (rest.takeWhile isLineSep))) st := by
  induction rest with
  | nil => intro off; rfl
  | cons c cs ih =>
    intro off
    by_cases hs : isLineSep c = true
    · simp only [List.dropWhile_cons, List.takeWhile_cons, hs, if_true, byteLen]
      rw [← Nat.add_assoc, ← ih (off + c.utf8Size)]
      simp only [splitLinesAt, hs, if_true]
      rw [ruleSpec]
    · simp only [Bool.not_eq_true] at hs
      simp [hs, byteLen]

theorem ruleSpec_tail (env : Env) (st : PState) (r : List Char) (hr : SepHead r) (off : Nat) :
    ruleSpec env (tailLines r off) st = ruleSpec env (splitLinesAt r off) st := by
  cases r with
  | nil =>
    simp only [tailLines, splitLinesAt]
    rw [ruleSpec, ruleSpec, ruleSpec]
  | cons c cs =>
    have hs := hr c cs rfl
    simp only [tailLines, splitLinesAt, hs, if_true]
    conv => rhs; rw [ruleSpec]

/-! ### The rules section -/

/-- a two-character marker made of non-separators is looked for within the line -/
theorem prefix2_line (a b : Char) (ha : isLineSep a = false) (hb : isLineSep b = false)
    (l r : List Char) (hr : SepHead r) :
    [a, b].isPrefixOf (l ++ r) = [a, b].isPrefixOf l := by
  have hne : ∀ x c cs, isLineSep x = false → r = c :: cs → (x == c) = false := by
    intro x c cs hx h
    have := hr c cs h
    cases hxc : x == c with
    | false => rfl
    | true => rw [beq_iff_eq.mp hxc] at hx; rw [hx] at this; cases this
  match l with
  | [] =>
    cases r with
    | nil => rfl
    | cons c cs => simp [List.isPrefixOf, hne a c cs ha rfl]
  | [x] =>
    cases r with
    | nil => rfl
    | cons c cs => simp [List.isPrefixOf, hne b c cs hb rfl]
  | x :: y :: l' => simp [List.isPrefixOf]

theorem slash_notSep : isLineSep '/' = false := by decide
theorem percent_notSep : isLineSep '%' = false := by decide
theorem percent_notPWS : isPWS '%' = false := by decide
theorem percent_size : ('%' : Char).utf8Size = 1 := by decide

theorem byteLen_dropWhile_le (p : Char → Bool) (l : List Char) : byteLen (l.dropWhile p) ≤ byteLen l := by
  have := congrArg byteLen (List.takeWhile_append_dropWhile (p := p) (l := l))
  rw [byteLen_append] at this; omega

theorem dropWhile_nil_iff_all (p : Char → Bool) (l : List Char) :
    l.dropWhile p = [] ↔ l.all p = true := by
  induction l with
  | nil => simp
  | cons c cs ih =>
    by_cases hc : p c = true
    · simp [hc, ih]
    · simp [hc]

/-- skipping white space from a position reaches the end of the text iff only white space follows -/
theorem skip_to_end {src : List Char} {j : Nat} {r : List Char} (h : At src j r) :
    (j + byteLen (r.takeWhile isPWS) = byteLen src) ↔ r.all isPWS = true := by
  have hl := h.len
  have hs := congrArg byteLen (List.takeWhile_append_dropWhile (p := isPWS) (l := r))
  rw [byteLen_append] at hs
  rw [← dropWhile_nil_iff_all]
  constructor
  · intro e; apply byteLen_eq_zero; omega
  · intro e; rw [e] at hs; simp only [byteLen] at hs; omega

theorem ruleLoop_spec (env : Env) (hb : env.cfg.BOk) (src : List Char) :
    ∀ fuel i rest st, At src i rest → byteLen rest < fuel →
      (ruleLoop env src fuel i st).bind (afterRules src)
        = some (specEnd (ruleSpec env (splitLinesAt rest i) st)) := by
  intro fuel
  induction fuel with
  | zero => intro i rest st _ h; omega
  | succ fuel ih =>
    intro i rest st hat hf
    rw [ruleLoop]
    have h1 := hat.tw isLineSep
    have hle1 := byteLen_dropWhile_le isLineSep rest
    have hhead : ∀ c cs, rest.dropWhile isLineSep = c :: cs → isLineSep c = false :=
      fun c cs h => dropWhile_head isLineSep rest c cs h
    simp only [parseNl, skipAt_eq isLineSep hat, Option.bind_some]
    rw [ruleSpec_skip env st rest i]
    generalize i + byteLen (rest.takeWhile isLineSep) = i1 at *
    generalize rest.dropWhile isLineSep = rest1 at *
    simp only [lineLenAt_eq h1, commentAt_eq env h1, Option.bind_some]
    cases rest1 with
    | nil =>
      have hl := h1.len
      simp only [byteLen, Nat.add_zero] at hl
      simp only [List.takeWhile_nil, byteLen, parseWs, skipAt_eq isPWS h1, Option.bind_some]
      simp [hl, afterRules, parseEnd, lookaheadIs_eq _ h1, splitLinesAt, ruleSpec, specEnd]
    | cons c cs =>
      have hc : isLineSep c = false := hhead c cs rfl
      have hn : notSep c = true := by simp [notSep, hc]
      have hsplit := List.takeWhile_append_dropWhile (p := notSep) (l := c :: cs)
      have h2 := h1.tw notSep
      have hsep := sepHead_dropWhile (c :: cs)
      rw [splitLinesAt_eq (c :: cs) i1]
      simp only [List.takeWhile_cons, List.dropWhile_cons, hn, if_true] at hsplit h2 hsep ⊢
      generalize hl' : cs.takeWhile notSep = l' at *
      generalize hr2 : cs.dropWhile notSep = rest2 at *
      have hcpos := Char.utf8Size_pos c
      have hlen2 : byteLen rest2 < fuel := by
        have := congrArg byteLen hsplit
        simp only [List.cons_append, byteLen_cons, byteLen_append] at this hle1
        omega
      have hcom : ['/', '/'].isPrefixOf (c :: cs) = ['/', '/'].isPrefixOf (c :: l') := by
        rw [← hsplit]; exact prefix2_line '/' '/' slash_notSep slash_notSep (c :: l') rest2 hsep
      have hpct : ['%', '%'].isPrefixOf (c :: cs) = ['%', '%'].isPrefixOf (c :: l') := by
        rw [← hsplit]; exact prefix2_line '%' '%' percent_notSep percent_notSep (c :: l') rest2 hsep
      rw [ruleSpec]
      simp only [hcom]
      by_cases hcm : (env.comments && ['/', '/'].isPrefixOf (c :: l')) = true
      · simp only [hcm, if_true]
        rw [ih _ rest2 st h2 hlen2, ruleSpec_tail env st rest2 hsep]
      · simp only [hcm, Bool.false_eq_true, if_false]
        simp only [parseWs, skipAt_eq isPWS h1, Option.bind_some, List.takeWhile_cons]
        by_cases hw : isPWS c = true
        · have hne : i1 + byteLen (c :: cs.takeWhile isPWS) ≠ i1 := by
            simp only [byteLen_cons]; omega
          simp only [hw, if_true, hne, ne_eq, not_false_eq_true]
          rw [ih _ rest2 _ h2 hlen2, ruleSpec_tail env _ rest2 hsep]
        · simp only [Bool.not_eq_true] at hw
          have hl := h1.len
          have hne : ¬ (i1 = byteLen src) := by
            rw [hl, byteLen_cons]; omega
          simp only [hw, Bool.false_eq_true, if_false, byteLen, Nat.add_zero, ne_eq, not_true_eq_false,
            hne, lookaheadIs_eq _ h1, Option.bind_some, hpct]
          by_cases hp : ['%', '%'].isPrefixOf (c :: l') = true
          · simp only [hp, if_true, Option.isSome_some, afterRules, parseEnd, lookaheadIs_eq _ h1,
              Option.bind_some, hpct]
            -- the line is `%%…`
            have hshape : ∃ l'', c = '%' ∧ l' = '%' :: l'' := by
              cases l' with
              | nil => simp [List.isPrefixOf] at hp
              | cons d l'' =>
                simp only [List.isPrefixOf, Bool.and_eq_true, beq_iff_eq, Bool.and_true] at hp
                exact ⟨l'', hp.1.symm, by rw [hp.2]⟩
            obtain ⟨l'', rfl, rfl⟩ := hshape
            have h3 : At src (i1 + byteLen ['%', '%']) (l'' ++ rest2) := by
              apply At.adv
              rw [← hsplit] at h1; exact h1
            simp only [parseWs, skipAt_eq isPWS h3, Option.map_some]
            have hend := skip_to_end h3
            have hall : ((List.drop 2 ('%' :: '%' :: l'')).all isPWS
                && allBlank (tailLines rest2 (i1 + (('%' : Char).utf8Size + byteLen ('%' :: l'')))))
                = (l'' ++ rest2).all isPWS := by
              rw [allBlank_tail rest2 hsep, List.all_append]; rfl
            simp only [hall]
            by_cases hb2 : (l'' ++ rest2).all isPWS = true
            · simp only [hb2, if_true, hend.mpr hb2, specEnd]
            · have : ¬ (i1 + byteLen ['%', '%'] + byteLen ((l'' ++ rest2).takeWhile isPWS) = byteLen src) :=
                fun e => hb2 (hend.mp e)
              simp only [hb2, this, Bool.false_eq_true, if_false, specEnd]
          · simp only [hp, Bool.false_eq_true, if_false, Option.isSome_none]
            have hraw := lineSlice_eq h1
            simp only [List.takeWhile_cons, hn, if_true, hl'] at hraw
            simp only [parseRule, lineLenAt_eq h1, List.takeWhile_cons, hn, if_true, hl', Option.bind_some,
              hraw, ruleLineStep_eq env hb, Option.map_some]
            cases hstep : ruleStepSpec env i1 (c :: l') st with
            | error es => simp only [Option.bind_some, afterRules, specEnd]
            | ok st' =>
              simp only
              rw [ih _ rest2 st' h2 hlen2, ruleSpec_tail env st' rest2 hsep]
              rfl

/-! ### The declarations section -/

theorem takeWhile_append_stop (p : Char → Bool) (l r : List Char)
    (hr : ∀ c cs, r = c :: cs → p c = false) :
    (l ++ r).takeWhile p = l.takeWhile p ∧ (l ++ r).dropWhile p = l.dropWhile p ++ r := by
  induction l with
  | nil =>
    cases r with
    | nil => simp
    | cons c cs => simp [hr c cs rfl]
  | cons x xs ih =>
    by_cases hx : p x = true
    · simp [hx, ih]
    · simp [hx]

theorem takeWhile_of_all (p : Char → Bool) (a : List Char) (h : ∀ c ∈ a, p c = true) :
    a.takeWhile p = a ∧ a.dropWhile p = [] := by
  induction a with
  | nil => simp
  | cons x xs ih =>
    have hx := h x (by simp)
    have := ih (fun c hc => h c (by simp [hc]))
    simp [hx, this]

theorem splitLinesAt_append (a r : List Char) (off : Nat) (ha : ∀ c ∈ a, isLineSep c = false)
    (hr : SepHead r) :
    splitLinesAt (a ++ r) off = (off, a) :: tailLines r (off + byteLen a) := by
  rw [splitLinesAt_eq]
  have hstop : ∀ c cs, r = c :: cs → notSep c = false := by
    intro c cs h; simp [notSep, hr c cs h]
  obtain ⟨h1, h2⟩ := takeWhile_append_stop notSep a r hstop
  have hall : ∀ c ∈ a, notSep c = true := by intro c hc; simp [notSep, ha c hc]
  rw [h1, h2, (takeWhile_of_all notSep a hall).1, (takeWhile_of_all notSep a hall).2]
  rfl

theorem declSpec_blank (env : Env) (len off : Nat) (l : List Char) (ls : List Line) (st : PState)
    (hl : ∀ c ∈ l, isPWS c = true) :
    declSpec env len ((off, l) :: ls) st = declSpec env len ls st := by
  rw [declSpec]
  have : l.dropWhile isPWS = [] := (takeWhile_of_all isPWS l hl).2
  simp [this]


theorem declLoop_spec (env : Env) (hb : env.cfg.BOk) (src : List Char) (F : Nat) (hF : byteLen src < F) :
    ∀ fuel i rest st, At src i rest → byteLen rest < fuel →
      (declLoop env src fuel i st).bind (afterDecls env F src)
        = some (specRules env (declSpec env (byteLen src) (splitLinesAt rest i) st)) := by
  intro fuel
  induction fuel with
  | zero => intro i rest st _ h; omega
  | succ fuel ih =>
    intro i rest st hat hf
    rw [declLoop]
    have h1 := hat.tw isPWS
    have hle1 := byteLen_dropWhile_le isPWS rest
    have hhead : ∀ c cs, rest.dropWhile isPWS = c :: cs → isPWS c = false :=
      fun c cs h => dropWhile_head isPWS rest c cs h
    simp only [parseWs, skipAt_eq isPWS hat, Option.bind_some]
    rw [declSpec_skip env _ st rest i]
    generalize i + byteLen (rest.takeWhile isPWS) = i1 at *
    generalize rest.dropWhile isPWS = rest1 at *
    simp only [commentAt_eq env h1, Option.bind_some]
    cases rest1 with
    | nil =>
      have hl := h1.len
      simp only [byteLen, Nat.add_zero] at hl
      simp [hl, afterDecls, splitLinesAt, declSpec, specRules, List.isPrefixOf]
    | cons c cs =>
      have hw : isPWS c = false := hhead c cs rfl
      have hc : isLineSep c = false := not_pws_not_lineSep c hw
      have hn : notSep c = true := by simp [notSep, hc]
      have hsplit := List.takeWhile_append_dropWhile (p := notSep) (l := c :: cs)
      have h2 := h1.tw notSep
      have hsep := sepHead_dropWhile (c :: cs)
      rw [splitLinesAt_eq (c :: cs) i1]
      simp only [List.takeWhile_cons, List.dropWhile_cons, hn, if_true] at hsplit h2 hsep ⊢
      have hnosep : ∀ x ∈ cs.takeWhile notSep, isLineSep x = false := by
        intro x hx; simpa [notSep] using mem_takeWhile_sat notSep cs x hx
      generalize hl' : cs.takeWhile notSep = l' at *
      generalize hr2 : cs.dropWhile notSep = rest2 at *
      have hcpos := Char.utf8Size_pos c
      have hbl := congrArg byteLen hsplit
      simp only [List.cons_append, byteLen_cons, byteLen_append] at hbl hle1
      have hlen2 : byteLen rest2 < fuel := by omega
      have hcom : ['/', '/'].isPrefixOf (c :: cs) = ['/', '/'].isPrefixOf (c :: l') := by
        rw [← hsplit]; exact prefix2_line '/' '/' slash_notSep slash_notSep (c :: l') rest2 hsep
      have hpct : ['%', '%'].isPrefixOf (c :: cs) = ['%', '%'].isPrefixOf (c :: l') := by
        rw [← hsplit]; exact prefix2_line '%' '%' percent_notSep percent_notSep (c :: l') rest2 hsep
      rw [declSpec]
      simp only [List.dropWhile_cons, List.takeWhile_cons, hw, Bool.false_eq_true, if_false, byteLen,
        Nat.add_zero, List.isEmpty_cons, hcom]
      by_cases hcm : (env.comments && ['/', '/'].isPrefixOf (c :: l')) = true
      · simp only [hcm, if_true, lineLenAt_eq h1, List.takeWhile_cons, hn, hl', Option.bind_some]
        rw [ih _ rest2 st h2 hlen2, declSpec_tail env _ st rest2 hsep]
        rfl
      · have hl := h1.len
        have hne : ¬ (i1 = byteLen src) := by rw [hl, byteLen_cons]; omega
        simp only [hcm, Bool.false_eq_true, if_false, hne, lookaheadIs_eq _ h1, Option.bind_some, hpct]
        by_cases hp : ['%', '%'].isPrefixOf (c :: l') = true
        · simp only [hp, if_true]
          have hshape : ∃ l'', c = '%' ∧ l' = '%' :: l'' := by
            cases l' with
            | nil => simp [List.isPrefixOf] at hp
            | cons d l'' =>
              simp only [List.isPrefixOf, Bool.and_eq_true, beq_iff_eq, Bool.and_true] at hp
              exact ⟨l'', hp.1.symm, by rw [hp.2]⟩
          obtain ⟨l'', rfl, rfl⟩ := hshape
          have h3 : At src (i1 + byteLen ['%', '%']) (l'' ++ rest2) := by
            apply At.adv
            rw [← hsplit] at h1; exact h1
          have h4 := h3.tw isSpaceSep
          have hstop : ∀ c cs, rest2 = c :: cs → isSpaceSep c = false := by
            intro c cs h
            cases hsc : isSpaceSep c with
            | false => rfl
            | true =>
              have h1 := hsep c cs h
              rw [spaceSep_not_lineSep c hsc] at h1; cases h1
          obtain ⟨ht, hd⟩ := takeWhile_append_stop isSpaceSep l'' rest2 hstop
          have hF2 : byteLen ((l'' ++ rest2).dropWhile isSpaceSep) < F := by
            have := h4.len; omega
          simp only [parseSpaces, skipAt_eq isSpaceSep h3, Option.map_some, Option.bind_some, afterDecls]
          rw [ruleLoop_spec env hb src F _ _ st h4 hF2, specRules]
          simp only [List.drop_succ_cons, List.drop_zero]
          rw [hd, ht, splitLinesAt_append _ rest2 _ _ hsep]
          · have hb2 := congrArg byteLen (List.takeWhile_append_dropWhile (p := isSpaceSep) (l := l''))
            rw [byteLen_append] at hb2
            have e1 : i1 + byteLen ['%', '%'] + byteLen (l''.takeWhile isSpaceSep)
                = i1 + 2 + byteLen (l''.takeWhile isSpaceSep) := by
              simp only [byteLen, percent_size]
            have e2 : i1 + 2 + byteLen (l''.takeWhile isSpaceSep) + byteLen (l''.dropWhile isSpaceSep)
                = i1 + (('%' : Char).utf8Size + byteLen ('%' :: l'')) := by
              simp only [byteLen, percent_size]; omega
            rw [e1, e2]
          · intro x hx
            apply hnosep x
            exact List.mem_cons_of_mem _ ((List.dropWhile_sublist _).subset hx)
        · simp only [hp, Bool.false_eq_true, if_false]
          have hraw := lineSlice_eq h1
          simp only [List.takeWhile_cons, hn, if_true, hl'] at hraw
          simp only [parseDeclaration, lineLenAt_eq h1, List.takeWhile_cons, hn, if_true, hl',
            Option.bind_some, hraw]
          cases hstep : declLineStep i1 (c :: l') st with
          | error es => simp only [Option.bind_some, afterDecls, specRules]
          | ok v =>
            obtain ⟨e, st'⟩ := v
            simp only
            -- where the names end
            have hend : e = byteLen (trimEnd isPWS (c :: l')) ∧ 0 < e := by
              unfold declLineStep at hstep
              cases hparts : declLineParts isPWS (c :: l') with
              | none => simp [hparts] at hstep
              | some pn =>
                obtain ⟨excl, names⟩ := pn
                simp only [hparts] at hstep
                cases hds : declareStates excl i1 names st with
                | error es => simp [hds] at hstep
                | ok st2 =>
                  simp only [hds, Except.ok.injEq, Prod.mk.injEq] at hstep
                  obtain ⟨h1', _⟩ := declLineParts_end isPWS (c :: l') excl names hparts
                  have := (declLineParts_end isPWS (c :: l') excl names hparts).2
                  rw [← hstep.1, h1']; exact ⟨rfl, this⟩
            obtain ⟨trail, htr, htrws⟩ := dropTrailing_prefix isPWS (c :: l')
            rw [← trimEnd_eq_dropTrailing] at htr
            generalize trimEnd isPWS (c :: l') = X at *
            obtain ⟨he, hepos⟩ := hend
            subst he
            have h3 : At src (i1 + byteLen X) (trail ++ rest2) := by
              apply At.adv
              rw [← hsplit, htr] at h1; simpa using h1
            have h4 := h3.tw isPWS
            have hbx := congrArg byteLen htr
            rw [byteLen_append, byteLen_cons] at hbx
            have hle3 := byteLen_dropWhile_le isPWS (trail ++ rest2)
            rw [byteLen_append] at hle3
            have hlen3 : byteLen ((trail ++ rest2).dropWhile isPWS) < fuel := by omega
            simp only [parseWs, skipAt_eq isPWS h3, Option.map_some, Option.bind_some]
            rw [ih _ _ st' h4 hlen3, ← declSpec_skip env _ st' (trail ++ rest2) (i1 + byteLen X)]
            rw [splitLinesAt_append trail rest2 _ _ hsep, declSpec_blank env _ _ trail _ st' htrws]
            · have e3 : i1 + byteLen X + byteLen trail = i1 + (c.utf8Size + byteLen l') := by omega
              rw [e3]
            · intro x hx
              have hx' : x ∈ c :: l' := by rw [htr]; simp [hx]
              rcases List.mem_cons.mp hx' with rfl | hx''
              · exact hc
              · exact hnosep x hx''


/-! ### The whole parse -/

/-- **the model computes the specification** for every text and every fuel above the length of the
text: no slice panics, the `assert_eq!` holds, the loops end -/
theorem parseWith_eq (env : Env) (hb : env.cfg.BOk) (pre body : List Char) (fuel : Nat)
    (hf : byteLen (pre ++ body) < fuel) :
    parseWith env fuel (pre ++ body) (byteLen pre) = some (specParse env pre body) := by
  have hat := At.start pre body
  have h1 := hat.tw isPWS
  have hle := byteLen_dropWhile_le isPWS body
  have hlen : byteLen (body.dropWhile isPWS) < fuel := by
    rw [byteLen_append] at hf; omega
  unfold parseWith specParse
  simp only [parseWs, skipAt_eq isPWS hat, Option.bind_some]
  rw [declLoop_spec env hb (pre ++ body) fuel hf fuel _ _ initState h1 hlen,
    ← declSpec_skip env _ initState body (byteLen pre), byteLen_append]

theorem parseSpec_eq (env : Env) (hb : env.cfg.BOk) (pre body : List Char) :
    parseSpec env (pre ++ body) (byteLen pre) = some (specParse env pre body) :=
  parseWith_eq env hb pre body _ (Nat.lt_succ_self _)

end GrmVerif.LexSpecParse
