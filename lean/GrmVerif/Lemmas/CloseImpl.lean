import GrmVerif.Model.CloseImpl
import GrmVerif.Lemmas.Closure
/-! Data-structure lemmas for the model of `Itemset::close` (`Model/CloseImpl.lean`): bit vectors as
lists of set bits, the item map as an association list with distinct keys, `Itemset::add`, the
lookahead loop, the inner `for` loop over the productions of a rule. -/
namespace GrmVerif.CloseImpl
open GrmVerif Ref Closure Fix

/-! ### what an item list denotes -/

/-- the item `[p, d]` is in the map -/
def HasItem (is : List Item) (p d : Nat) : Prop := ∃ i ∈ is, i.p = p ∧ i.dot = d
/-- token `t` is in the context of the item `[p, d]` -/
def HasLa (is : List Item) (p d t : Nat) : Prop := ∃ i ∈ is, i.p = p ∧ i.dot = d ∧ t ∈ i.la
/-- the keys of a hash map are distinct -/
def KeysNodup (is : List Item) : Prop := (keysOf is).Nodup

/-- the facts an item list denotes -/
def factsOf (is : List Item) : List CFact :=
  is.flatMap (fun i => CFact.item i.p i.dot :: i.la.map (fun t => CFact.la i.p i.dot t))

theorem mem_factsOf_item {is : List Item} {p d : Nat} : CFact.item p d ∈ factsOf is ↔ HasItem is p d := by
  simp only [factsOf, List.mem_flatMap, List.mem_cons, List.mem_map, HasItem]
  constructor
  · rintro ⟨i, hi, h | ⟨t, _, h⟩⟩
    · cases h; exact ⟨i, hi, rfl, rfl⟩
    · cases h
  · rintro ⟨i, hi, rfl, rfl⟩; exact ⟨i, hi, Or.inl rfl⟩

theorem mem_factsOf_la {is : List Item} {p d t : Nat} : CFact.la p d t ∈ factsOf is ↔ HasLa is p d t := by
  simp only [factsOf, List.mem_flatMap, List.mem_cons, List.mem_map, HasLa]
  constructor
  · rintro ⟨i, hi, h | ⟨t', ht', h⟩⟩
    · cases h
    · cases h; exact ⟨i, hi, rfl, rfl, ht'⟩
  · rintro ⟨i, hi, rfl, rfl, ht⟩; exact ⟨i, hi, Or.inr ⟨t, ht, rfl⟩⟩

/-! ### bit vectors -/

theorem mem_vobOr {a b : Ctx} {t : Nat} : t ∈ (vobOr a b).1 ↔ t ∈ a ∨ t ∈ b := by
  simp only [vobOr, List.mem_append, List.mem_filter, Bool.not_eq_true', List.contains_eq_mem,
    decide_eq_false_iff_not]
  constructor
  · rintro (h | h)
    · exact Or.inl h
    · exact Or.inr h.1
  · rintro (h | h)
    · exact Or.inl h
    · by_cases ha : t ∈ a
      · exact Or.inl ha
      · exact Or.inr ⟨h, ha⟩

theorem vobOr_unchanged {a b : Ctx} (h : (vobOr a b).2 = false) : (vobOr a b).1 = a ∧ ∀ t ∈ b, t ∈ a := by
  simp only [vobOr, Bool.not_eq_false', List.isEmpty_iff] at h
  constructor
  · show a ++ b.filter (fun t => !a.contains t) = a
    rw [h, List.append_nil]
  · intro t ht
    by_cases ha : t ∈ a
    · exact ha
    · have : t ∈ b.filter (fun t => !a.contains t) := by
        simp only [List.mem_filter, Bool.not_eq_true', List.contains_eq_mem, decide_eq_false_iff_not]
        exact ⟨ht, ha⟩
      rw [h] at this; cases this

theorem vobOr_changed {a b : Ctx} (h : (vobOr a b).2 = true) : ∃ t ∈ b, t ∉ a := by
  simp only [vobOr, Bool.not_eq_true', List.isEmpty_eq_false_iff_exists_mem] at h
  obtain ⟨t, ht⟩ := h
  simp only [List.mem_filter, Bool.not_eq_true', List.contains_eq_mem, decide_eq_false_iff_not] at ht
  exact ⟨t, ht.1, ht.2⟩

theorem mem_vobSet {a : Ctx} {t x : Nat} : x ∈ vobSet a t ↔ x ∈ a ∨ x = t := by
  unfold vobSet
  split
  · next h =>
    have : t ∈ a := by simpa using h
    constructor
    · exact Or.inl
    · rintro (h | rfl)
      · exact h
      · exact this
  · simp

theorem vobSet_length (a : Ctx) (t : Nat) : (vobSet a t).length ≤ a.length + 1 := by
  unfold vobSet; split <;> simp

theorem mem_vobClear {a : Ctx} {t x : Nat} : x ∈ vobClear a t ↔ x ∈ a ∧ x ≠ t := by
  simp [vobClear]

theorem vobClear_length {a : Ctx} {t : Nat} (h : t ∈ a) : (vobClear a t).length < a.length := by
  unfold vobClear
  rw [List.length_filter_lt_length_iff_exists]
  exact ⟨t, h, by simp⟩

theorem mem_firstsRow {G : Grammar} {F : Nat × Nat → Bool} {r t : Nat} :
    t ∈ firstsRow G F r ↔ t < G.ntoks ∧ F (r, t) = true := by
  simp [firstsRow]

/-! ### the item map -/

theorem isKey_iff {p d : Nat} {i : Item} : isKey p d i = true ↔ i.p = p ∧ i.dot = d := by
  simp [isKey]

theorem keysNodup_cons {i : Item} {is : List Item} :
    KeysNodup (i :: is) ↔ ¬ HasItem is i.p i.dot ∧ KeysNodup is := by
  simp only [KeysNodup, keysOf, List.map_cons, List.nodup_cons, List.mem_map, Prod.mk.injEq, HasItem]

theorem hasItem_cons {i : Item} {is : List Item} {p d : Nat} :
    HasItem (i :: is) p d ↔ (i.p = p ∧ i.dot = d) ∨ HasItem is p d := by
  simp [HasItem]

theorem hasLa_cons {i : Item} {is : List Item} {p d t : Nat} :
    HasLa (i :: is) p d t ↔ (i.p = p ∧ i.dot = d ∧ t ∈ i.la) ∨ HasLa is p d t := by
  simp [HasLa]

theorem hasLa_hasItem {is : List Item} {p d t : Nat} (h : HasLa is p d t) : HasItem is p d := by
  obtain ⟨i, hi, h1, h2, _⟩ := h; exact ⟨i, hi, h1, h2⟩

/-- a present key is found, and (keys being distinct) with exactly its context -/
theorem lookup_spec {is : List Item} (hnd : KeysNodup is) {p d : Nat} (h : HasItem is p d) :
    ∃ l, lookup is p d = some l ∧ ∀ t, t ∈ l ↔ HasLa is p d t := by
  induction is with
  | nil => obtain ⟨i, hi, _⟩ := h; cases hi
  | cons i rest ih =>
    obtain ⟨hni, hnd'⟩ := keysNodup_cons.mp hnd
    by_cases hk : isKey p d i = true
    · refine ⟨i.la, by simp [lookup, hk], ?_⟩
      obtain ⟨e1, e2⟩ := isKey_iff.mp hk
      intro t
      rw [hasLa_cons]
      constructor
      · intro ht; exact Or.inl ⟨e1, e2, ht⟩
      · rintro (⟨_, _, ht⟩ | hl)
        · exact ht
        · exact absurd (hasLa_hasItem hl) (by rw [e1, e2] at hni; exact hni)
    · have hk' : ¬ (i.p = p ∧ i.dot = d) := fun e => hk (isKey_iff.mpr e)
      have hr : HasItem rest p d := by
        rcases hasItem_cons.mp h with e | e
        · exact absurd e hk'
        · exact e
      obtain ⟨l, hl, hm⟩ := ih hnd' hr
      refine ⟨l, ?_, ?_⟩
      · simp only [lookup, List.find?_cons] at hl ⊢
        simp only [Bool.not_eq_true] at hk
        rw [hk]; exact hl
      · intro t
        rw [hm t, hasLa_cons]
        constructor
        · exact Or.inr
        · rintro (⟨e1, e2, _⟩ | e)
          · exact absurd ⟨e1, e2⟩ hk'
          · exact e

/-! ### `Itemset::add` -/

theorem add_hasItem (is : List Item) (q e : Nat) (ctx : Ctx) (p d : Nat) :
    HasItem (add is q e ctx).1 p d ↔ HasItem is p d ∨ (p = q ∧ d = e) := by
  induction is with
  | nil => simp [add, HasItem]; constructor <;> (rintro ⟨rfl, rfl⟩; exact ⟨rfl, rfl⟩)
  | cons i rest ih =>
    simp only [add]
    split
    · next hk =>
      obtain ⟨e1, e2⟩ := isKey_iff.mp hk
      simp only [hasItem_cons]
      constructor
      · rintro (h | h)
        · exact Or.inl (Or.inl h)
        · exact Or.inl (Or.inr h)
      · rintro ((h | h) | ⟨rfl, rfl⟩)
        · exact Or.inl h
        · exact Or.inr h
        · exact Or.inl ⟨e1, e2⟩
    · simp only [hasItem_cons, ih]
      constructor
      · rintro (h | h | h)
        · exact Or.inl (Or.inl h)
        · exact Or.inl (Or.inr h)
        · exact Or.inr h
      · rintro ((h | h) | h)
        · exact Or.inl h
        · exact Or.inr (Or.inl h)
        · exact Or.inr (Or.inr h)

theorem add_hasLa (is : List Item) (q e : Nat) (ctx : Ctx) (p d t : Nat) :
    HasLa (add is q e ctx).1 p d t ↔ HasLa is p d t ∨ (p = q ∧ d = e ∧ t ∈ ctx) := by
  induction is with
  | nil => simp [add, HasLa]; constructor <;> (rintro ⟨rfl, rfl, h⟩; exact ⟨rfl, rfl, h⟩)
  | cons i rest ih =>
    simp only [add]
    split
    · next hk =>
      obtain ⟨e1, e2⟩ := isKey_iff.mp hk
      simp only [hasLa_cons, mem_vobOr]
      constructor
      · rintro (⟨h1, h2, h3 | h3⟩ | h)
        · exact Or.inl (Or.inl ⟨h1, h2, h3⟩)
        · exact Or.inr ⟨by omega, by omega, h3⟩
        · exact Or.inl (Or.inr h)
      · rintro ((⟨h1, h2, h3⟩ | h) | ⟨rfl, rfl, h⟩)
        · exact Or.inl ⟨h1, h2, Or.inl h3⟩
        · exact Or.inr h
        · exact Or.inl ⟨e1, e2, Or.inr h⟩
    · simp only [hasLa_cons, ih]
      constructor
      · rintro (h | h | h)
        · exact Or.inl (Or.inl h)
        · exact Or.inl (Or.inr h)
        · exact Or.inr h
      · rintro ((h | h) | h)
        · exact Or.inl h
        · exact Or.inr (Or.inl h)
        · exact Or.inr (Or.inr h)

theorem add_nodup (is : List Item) (q e : Nat) (ctx : Ctx) (h : KeysNodup is) : KeysNodup (add is q e ctx).1 := by
  induction is with
  | nil => simp [add, KeysNodup, keysOf]
  | cons i rest ih =>
    obtain ⟨hni, hnd⟩ := keysNodup_cons.mp h
    simp only [add]
    split
    · exact keysNodup_cons.mpr ⟨hni, hnd⟩
    · next hk =>
      refine keysNodup_cons.mpr ⟨?_, ih hnd⟩
      rw [add_hasItem]
      rintro (h | ⟨h1, h2⟩)
      · exact hni h
      · exact hk (isKey_iff.mpr ⟨h1, h2⟩)

/-- `add` answered "nothing changed": the map is the same -/
theorem add_unchanged (is : List Item) (q e : Nat) (ctx : Ctx) (h : (add is q e ctx).2 = false) :
    (add is q e ctx).1 = is := by
  induction is with
  | nil => simp [add] at h
  | cons i rest ih =>
    simp only [add] at h ⊢
    split
    · next hk =>
      rw [if_pos hk] at h
      rw [(vobOr_unchanged h).1]
    · next hk =>
      rw [if_neg hk] at h
      rw [ih h]

/-- `add` answered "changed": a new item or a new lookahead appeared -/
theorem add_changed (is : List Item) (q e : Nat) (ctx : Ctx) (hnd : KeysNodup is)
    (h : (add is q e ctx).2 = true) : ¬ HasItem is q e ∨ ∃ t ∈ ctx, ¬ HasLa is q e t := by
  induction is with
  | nil => left; rintro ⟨i, hi, _⟩; cases hi
  | cons i rest ih =>
    obtain ⟨hni, hnd'⟩ := keysNodup_cons.mp hnd
    simp only [add] at h
    split at h
    · next hk =>
      obtain ⟨e1, e2⟩ := isKey_iff.mp hk
      obtain ⟨t, ht, hta⟩ := vobOr_changed h
      right
      refine ⟨t, ht, ?_⟩
      rw [hasLa_cons]
      rintro (⟨_, _, h3⟩ | h3)
      · exact hta h3
      · exact hni (by rw [e1, e2]; exact hasLa_hasItem h3)
    · next hk =>
      have hk' : ¬ (i.p = q ∧ i.dot = e) := fun x => hk (isKey_iff.mpr x)
      rcases ih hnd' h with h1 | ⟨t, ht, h2⟩
      · left; rw [hasItem_cons]; rintro (x | x)
        · exact hk' x
        · exact h1 x
      · right; refine ⟨t, ht, ?_⟩
        rw [hasLa_cons]; rintro (⟨x1, x2, _⟩ | x)
        · exact hk' ⟨x1, x2⟩
        · exact h2 x

/-! ### the lookahead loop -/

theorem ctxLoop_spec (G : Grammar) (N : Nat → Bool) (F : Nat × Nat → Bool) (β : List Sym)
    (hβ : ∀ s ∈ β, G.symOk s = true) (ctx : Ctx) :
    ∃ c, ctxLoop G N F β ctx = some (c, seqNullable N β) ∧
      ∀ t, t ∈ c ↔ t ∈ ctx ∨ (t < G.ntoks ∧ firstSeq N F β t = true) := by
  induction β generalizing ctx with
  | nil => exact ⟨ctx, by simp [ctxLoop, seqNullable], by simp [firstSeq]⟩
  | cons s rest ih =>
    have hs := hβ s (by simp)
    have hrest : ∀ s ∈ rest, G.symOk s = true := fun x hx => hβ x (by simp [hx])
    cases s with
    | tok a =>
      have ha : a < G.ntoks := by simpa [Grammar.symOk] using hs
      refine ⟨vobSet ctx a, by simp [ctxLoop, ha, seqNullable, symNullable], ?_⟩
      intro t
      simp only [mem_vobSet, firstSeq, beq_iff_eq]
      constructor
      · rintro (h | rfl)
        · exact Or.inl h
        · exact Or.inr ⟨ha, rfl⟩
      · rintro (h | ⟨_, rfl⟩)
        · exact Or.inl h
        · exact Or.inr rfl
    | rule r =>
      have hr : r < G.nrules := by simpa [Grammar.symOk] using hs
      cases hN : N r with
      | false =>
        refine ⟨(vobOr ctx (firstsRow G F r)).1, by simp [ctxLoop, hr, hN, seqNullable, symNullable], ?_⟩
        intro t
        simp only [mem_vobOr, mem_firstsRow, firstSeq, hN, Bool.false_and, Bool.or_false]
      | true =>
        obtain ⟨c, hc, hm⟩ := ih hrest (vobOr ctx (firstsRow G F r)).1
        refine ⟨c, ?_, ?_⟩
        · simp only [ctxLoop, hr, hN, if_true]
          rw [hc]; simp [seqNullable, symNullable, hN]
        · intro t
          rw [hm t]
          simp only [mem_vobOr, mem_firstsRow, firstSeq, hN, Bool.true_and, Bool.or_eq_true]
          constructor
          · rintro ((h | h) | h)
            · exact Or.inl h
            · exact Or.inr ⟨h.1, Or.inl h.2⟩
            · exact Or.inr ⟨h.1, Or.inr h.2⟩
          · rintro (h | ⟨h1, h2 | h2⟩)
            · exact Or.inl (Or.inl h)
            · exact Or.inl (Or.inr ⟨h1, h2⟩)
            · exact Or.inr ⟨h1, h2⟩

/-! ### the termination measure: facts of the universe not yet in the map -/

def missingOf (G : Grammar) (is : List Item) : Nat := missing (factUniverse G) (factsOf is)

theorem filter_length_le_of_imp {β : Type} (l : List β) (p q : β → Bool) (hqp : ∀ y, q y = true → p y = true) :
    (l.filter q).length ≤ (l.filter p).length := by
  induction l with
  | nil => simp
  | cons b bs ih =>
    simp only [List.filter_cons]
    cases hqb : q b with
    | true => simp [hqp b hqb]; exact ih
    | false =>
      cases hpb : p b with
      | true => simp; omega
      | false => simpa using ih

theorem missing_le {α : Type} [DecidableEq α] (U S S' : List α) (h : ∀ x ∈ S, x ∈ S') :
    missing U S' ≤ missing U S := by
  unfold missing
  apply filter_length_le_of_imp
  intro y hy
  simp only [Bool.not_eq_true', List.contains_eq_mem, decide_eq_false_iff_not] at hy ⊢
  exact fun hs => hy (h y hs)

theorem missing_lt {α : Type} [DecidableEq α] (U S S' : List α) (h : ∀ x ∈ S, x ∈ S')
    (hx : ∃ x ∈ U, x ∉ S ∧ x ∈ S') : missing U S' < missing U S := by
  unfold missing
  apply filter_length_lt
  · intro y hy
    simp only [Bool.not_eq_true', List.contains_eq_mem, decide_eq_false_iff_not] at hy ⊢
    exact fun hs => hy (h y hs)
  · obtain ⟨x, hxU, hxS, hxS'⟩ := hx
    exact ⟨x, hxU, by simpa using hxS, by simpa using hxS'⟩

theorem missingOf_le_universe (G : Grammar) (is : List Item) : missingOf G is ≤ (factUniverse G).length := by
  unfold missingOf missing; exact List.length_filter_le _ _

theorem factsOf_add_subset (is : List Item) (q e : Nat) (ctx : Ctx) :
    ∀ x ∈ factsOf is, x ∈ factsOf (add is q e ctx).1 := by
  intro x hx
  cases x with
  | item p d => rw [mem_factsOf_item] at hx ⊢; rw [add_hasItem]; exact Or.inl hx
  | la p d t => rw [mem_factsOf_la] at hx ⊢; rw [add_hasLa]; exact Or.inl hx

/-- one `add` of the inner loop: the todo vector grows by at most the one fact the map gained -/
theorem add_measure (G : Grammar) (is : List Item) (q : Nat) (ctx todo : Ctx) (hnd : KeysNodup is)
    (hq : q < G.nprods) (hctx : ∀ t ∈ ctx, t < G.ntoks) :
    (if (add is q 0 ctx).2 then vobSet todo q else todo).length + missingOf G (add is q 0 ctx).1 ≤
      todo.length + missingOf G is := by
  cases hch : (add is q 0 ctx).2 with
  | false => rw [add_unchanged is q 0 ctx hch]; simp
  | true =>
    have hlt : missingOf G (add is q 0 ctx).1 < missingOf G is := by
      apply missing_lt _ _ _ (factsOf_add_subset is q 0 ctx)
      rcases add_changed is q 0 ctx hnd hch with h | ⟨t, ht, h⟩
      · exact ⟨.item q 0, mem_universe_item.mpr ⟨hq, Nat.zero_le _⟩, by rw [mem_factsOf_item]; exact h,
          by rw [mem_factsOf_item, add_hasItem]; exact Or.inr ⟨rfl, rfl⟩⟩
      · exact ⟨.la q 0 t, mem_universe_la.mpr ⟨hq, Nat.zero_le _, hctx t ht⟩, by rw [mem_factsOf_la]; exact h,
          by rw [mem_factsOf_la, add_hasLa]; exact Or.inr ⟨rfl, rfl, ht⟩⟩
    have := vobSet_length todo q
    simp only [if_true]
    omega

/-! ### the inner `for` loop -/

structure AddAllSpec (G : Grammar) (qs : List Nat) (ctx : Ctx) (is : List Item) (todo : Ctx)
    (is' : List Item) (todo' : Ctx) : Prop where
  nodup : KeysNodup is'
  item : ∀ p d, HasItem is' p d ↔ HasItem is p d ∨ (d = 0 ∧ p ∈ qs)
  la : ∀ p d t, HasLa is' p d t ↔ HasLa is p d t ∨ (d = 0 ∧ p ∈ qs ∧ t ∈ ctx)
  todo_mono : ∀ x ∈ todo, x ∈ todo'
  todo_from : ∀ x ∈ todo', x ∈ todo ∨ x ∈ qs
  /-- every item that is new is marked -/
  new_item : ∀ p d, HasItem is' p d → HasItem is p d ∨ (d = 0 ∧ p ∈ todo')
  /-- every item whose context grew is marked -/
  new_la : ∀ p d t, HasLa is' p d t → HasLa is p d t ∨ (d = 0 ∧ p ∈ todo')
  measure : todo'.length + missingOf G is' ≤ todo.length + missingOf G is

theorem addAll_spec (G : Grammar) (ctx : Ctx) (hctx : ∀ t ∈ ctx, t < G.ntoks) (qs : List Nat)
    (hqs : ∀ q ∈ qs, q < G.nprods) (is : List Item) (todo : Ctx) (hnd : KeysNodup is) :
    AddAllSpec G qs ctx is todo (addAll qs ctx is todo).1 (addAll qs ctx is todo).2 := by
  induction qs generalizing is todo with
  | nil =>
    simp only [addAll]
    exact ⟨hnd, by simp, by simp, fun _ h => h, fun _ h => Or.inl h, fun _ _ h => Or.inl h,
      fun _ _ _ h => Or.inl h, Nat.le_refl _⟩
  | cons q qs ih =>
    simp only [addAll]
    have hq : q < G.nprods := hqs q (by simp)
    have IH := ih (fun x hx => hqs x (by simp [hx])) (add is q 0 ctx).1
      (if (add is q 0 ctx).2 then vobSet todo q else todo) (add_nodup is q 0 ctx hnd)
    have hm := add_measure G is q ctx todo hnd hq hctx
    have htodo1 : ∀ x ∈ todo, x ∈ (if (add is q 0 ctx).2 then vobSet todo q else todo) := by
      intro x hx; split
      · exact mem_vobSet.mpr (Or.inl hx)
      · exact hx
    -- a fact that `add` introduced: the changed flag was set, so `q` is marked
    have hmark : (add is q 0 ctx).2 = true → q ∈ (addAll qs ctx (add is q 0 ctx).1
        (if (add is q 0 ctx).2 then vobSet todo q else todo)).2 := by
      intro hch
      apply IH.todo_mono
      rw [if_pos hch]; exact mem_vobSet.mpr (Or.inr rfl)
    refine ⟨IH.nodup, ?_, ?_, ?_, ?_, ?_, ?_, by have := IH.measure; omega⟩
    · intro p d
      rw [IH.item, add_hasItem]
      simp only [List.mem_cons]
      constructor
      · rintro ((h | ⟨rfl, rfl⟩) | ⟨h1, h2⟩)
        · exact Or.inl h
        · exact Or.inr ⟨rfl, Or.inl rfl⟩
        · exact Or.inr ⟨h1, Or.inr h2⟩
      · rintro (h | ⟨h1, rfl | h2⟩)
        · exact Or.inl (Or.inl h)
        · exact Or.inl (Or.inr ⟨rfl, h1⟩)
        · exact Or.inr ⟨h1, h2⟩
    · intro p d t
      rw [IH.la, add_hasLa]
      simp only [List.mem_cons]
      constructor
      · rintro ((h | ⟨rfl, rfl, h⟩) | ⟨h1, h2, h3⟩)
        · exact Or.inl h
        · exact Or.inr ⟨rfl, Or.inl rfl, h⟩
        · exact Or.inr ⟨h1, Or.inr h2, h3⟩
      · rintro (h | ⟨h1, rfl | h2, h3⟩)
        · exact Or.inl (Or.inl h)
        · exact Or.inl (Or.inr ⟨rfl, h1, h3⟩)
        · exact Or.inr ⟨h1, h2, h3⟩
    · intro x hx; exact IH.todo_mono x (htodo1 x hx)
    · intro x hx
      rcases IH.todo_from x hx with h | h
      · split at h
        · rcases mem_vobSet.mp h with h | rfl
          · exact Or.inl h
          · exact Or.inr (by simp)
        · exact Or.inl h
      · exact Or.inr (by simp [h])
    · intro p d h
      rcases IH.new_item p d h with h1 | h1
      · rcases Bool.eq_false_or_eq_true (add is q 0 ctx).2 with hch | hch
        · rcases (add_hasItem is q 0 ctx p d).mp h1 with h2 | ⟨rfl, rfl⟩
          · exact Or.inl h2
          · exact Or.inr ⟨rfl, hmark hch⟩
        · rw [add_unchanged is q 0 ctx hch] at h1; exact Or.inl h1
      · exact Or.inr h1
    · intro p d t h
      rcases IH.new_la p d t h with h1 | h1
      · rcases Bool.eq_false_or_eq_true (add is q 0 ctx).2 with hch | hch
        · rcases (add_hasLa is q 0 ctx p d t).mp h1 with h2 | ⟨rfl, rfl, _⟩
          · exact Or.inl h2
          · exact Or.inr ⟨rfl, hmark hch⟩
        · rw [add_unchanged is q 0 ctx hch] at h1; exact Or.inl h1
      · exact Or.inr h1

end GrmVerif.CloseImpl
