import GrmVerif.Model.Header
import GrmVerif.Lemmas.HeaderSpec
/-!
Helper lemmas for C12: byte-offset slicing, a Hoare-style predicate `Res.Sat` over the model's
result type, and one specification lemma per function of `Model/Header.lean`.
-/
namespace GrmVerif.Header

theorem byteLen_append (a b : List Char) : byteLen (a ++ b) = byteLen a + byteLen b := by
  induction a with
  | nil => simp [byteLen]
  | cons c cs ih => simp [byteLen, ih]; omega

theorem dropBytes_append (pre post : List Char) : dropBytes (pre ++ post) (byteLen pre) = some post := by
  induction pre with
  | nil => cases post <;> simp [byteLen, dropBytes]
  | cons c cs ih =>
    have hp := Char.utf8Size_pos c
    obtain ⟨n, hn⟩ : ∃ n, c.utf8Size + byteLen cs = n + 1 := ⟨c.utf8Size + byteLen cs - 1, by omega⟩
    simp only [byteLen, List.cons_append, hn, dropBytes]
    have h1 : c.utf8Size ≤ n + 1 := by omega
    have h2 : n + 1 - c.utf8Size = byteLen cs := by omega
    simp [h1, h2, ih]

theorem dropBytes_some {src : List Char} {i : Nat} {rest : List Char} (h : dropBytes src i = some rest) :
    ∃ pre, src = pre ++ rest ∧ byteLen pre = i := by
  induction src generalizing i with
  | nil =>
    cases i with
    | zero => simp [dropBytes] at h; exact ⟨[], by simp [h], rfl⟩
    | succ n => simp [dropBytes] at h
  | cons c cs ih =>
    cases i with
    | zero => simp [dropBytes] at h; exact ⟨[], by simp [h], rfl⟩
    | succ n =>
      simp only [dropBytes] at h
      split at h
      · next hle =>
        obtain ⟨pre, h1, h2⟩ := ih h
        exact ⟨c :: pre, by simp [h1], by simp [byteLen, h2]; omega⟩
      · simp at h

/-- `i` is a position at which `&src[i..]` does not panic -/
def Valid (src : List Char) (i : Nat) : Prop := ∃ rest, dropBytes src i = some rest

theorem valid_iff_boundary (src : List Char) (i : Nat) : Valid src i ↔ IsBoundary src i := by
  constructor
  · rintro ⟨rest, h⟩
    obtain ⟨pre, h1, h2⟩ := dropBytes_some h
    exact ⟨pre, rest, h1, h2⟩
  · rintro ⟨pre, post, h1, h2⟩
    exact ⟨post, by rw [h1, ← h2]; exact dropBytes_append pre post⟩

theorem Valid.le {src : List Char} {i : Nat} (h : Valid src i) : i ≤ byteLen src := by
  obtain ⟨rest, h⟩ := h
  obtain ⟨pre, h1, h2⟩ := dropBytes_some h
  rw [h1, byteLen_append]; omega

theorem valid_zero (src : List Char) : Valid src 0 := ⟨src, by cases src <;> simp [dropBytes]⟩

/-- advancing over a prefix of the remaining text stays on a boundary -/
theorem dropBytes_advance {src : List Char} {i : Nat} {rest pre : List Char}
    (h : dropBytes src i = some rest) (hp : pre <+: rest) :
    dropBytes src (i + byteLen pre) = some (rest.drop pre.length) := by
  obtain ⟨p, h1, h2⟩ := dropBytes_some h
  obtain ⟨post, hpost⟩ := hp
  subst hpost
  have : src = (p ++ pre) ++ post := by simp [h1]
  rw [this, ← h2, ← byteLen_append]
  simp only [List.drop_left']
  exact dropBytes_append _ _

theorem valid_advance {src : List Char} {i : Nat} {rest pre : List Char}
    (h : dropBytes src i = some rest) (hp : pre <+: rest) : Valid src (i + byteLen pre) :=
  ⟨_, dropBytes_advance h hp⟩

theorem takeBytes_append (pre post : List Char) : takeBytes (pre ++ post) (byteLen pre) = some pre := by
  induction pre with
  | nil => cases post <;> simp [byteLen, takeBytes]
  | cons c cs ih =>
    have hp := Char.utf8Size_pos c
    obtain ⟨n, hn⟩ : ∃ n, c.utf8Size + byteLen cs = n + 1 := ⟨c.utf8Size + byteLen cs - 1, by omega⟩
    simp only [byteLen, List.cons_append, hn, takeBytes]
    have h1 : c.utf8Size ≤ n + 1 := by omega
    have h2 : n + 1 - c.utf8Size = byteLen cs := by omega
    simp [h1, h2, ih]

theorem sliceRange_ok {ε : Type} {src : List Char} {a : Nat} {rest pre : List Char}
    (h : dropBytes src a = some rest) (hp : pre <+: rest) :
    (sliceRange src a (a + byteLen pre) : Res ε (List Char)) = .ok pre := by
  obtain ⟨post, hpost⟩ := hp
  subst hpost
  have : a + byteLen pre - a = byteLen pre := by omega
  simp [sliceRange, h, this, takeBytes_append]

/-! ### Hoare-style reasoning over `Res` -/

/-- the result is `ok a` with `P a` or `err e` with `E e`; never a panic, never out of fuel -/
def Res.Sat {ε α : Type} (r : Res ε α) (P : α → Prop) (E : ε → Prop) : Prop :=
  match r with
  | .ok a => P a
  | .err e => E e
  | .panic => False
  | .fuelOut => False

theorem Sat.bind {ε α β : Type} {r : Res ε α} {f : α → Res ε β} {P : α → Prop} {Q : β → Prop}
    {E : ε → Prop} (h : r.Sat P E) (hf : ∀ a, P a → (f a).Sat Q E) : (r >>= f).Sat Q E := by
  cases r with
  | ok a => exact hf a h
  | err e => exact h
  | panic => exact h
  | fuelOut => exact h

theorem Sat.pure {ε α : Type} {a : α} {P : α → Prop} {E : ε → Prop} (h : P a) :
    (Pure.pure a : Res ε α).Sat P E := h

theorem Sat.mono {ε α : Type} {r : Res ε α} {P Q : α → Prop} {E F : ε → Prop}
    (h : r.Sat P E) (hp : ∀ a, P a → Q a) (he : ∀ e, E e → F e) : r.Sat Q F := by
  cases r with
  | ok a => exact hp a h
  | err e => exact he e h
  | panic => exact h
  | fuelOut => exact h

theorem Sat.mapErr {ε ε' α : Type} {r : Res ε α} {P : α → Prop} {E : ε → Prop} {F : ε' → Prop}
    {g : ε → ε'} (h : r.Sat P E) (he : ∀ e, E e → F (g e)) : (r.mapErr g).Sat P F := by
  cases r with
  | ok a => exact h
  | err e => exact he e h
  | panic => exact h
  | fuelOut => exact h

/-! ### well-formedness of what the parser returns -/

/-- the span condition in terms of slicing: `start ≤ end`, both positions sliceable -/
def SpanOK (src : List Char) (sp : Span) : Prop := sp.1 ≤ sp.2 ∧ Valid src sp.1 ∧ Valid src sp.2

theorem SpanOK.wf {src : List Char} {sp : Span} (h : SpanOK src sp) : SpanWF src sp :=
  ⟨h.1, h.2.2.le, (valid_iff_boundary _ _).1 h.2.1, (valid_iff_boundary _ _).1 h.2.2⟩

theorem spanOK_refl {src : List Char} {i : Nat} (h : Valid src i) : SpanOK src (i, i) :=
  ⟨Nat.le_refl _, h, h⟩

/-- an error carries at least one span and all its spans are well-formed -/
def ErrOK (src : List Char) (e : HErr) : Prop := e.spans ≠ [] ∧ ∀ sp ∈ e.spans, SpanOK src sp

def Namespaced.spans (n : Namespaced) : List Span :=
  (match n.ns with | some (_, s) => [s] | none => []) ++ [n.member.2]

mutual
/-- every span a setting carries -/
def Setting.spans : Setting → List Span
  | .unitary n => n.spans
  | .ctor c a => c.spans ++ a.spans
  | .num _ s => [s]
  | .str s => [s]
  | .array xs o c => o :: c :: Setting.spansList xs
def Setting.spansList : List Setting → List Span
  | [] => []
  | x :: xs => x.spans ++ Setting.spansList xs
end

theorem spansList_append (xs ys : List Setting) :
    Setting.spansList (xs ++ ys) = Setting.spansList xs ++ Setting.spansList ys := by
  induction xs with
  | nil => simp [Setting.spansList]
  | cons x xs ih => simp [Setting.spansList, ih]

def Value.spans : Value → List Span
  | .flag _ s => [s]
  | .setting s => s.spans

def Entry.spans (e : Entry) : List Span := e.loc :: e.val.spans

def SettingOK (src : List Char) (s : Setting) : Prop := ∀ sp ∈ s.spans, SpanOK src sp

end GrmVerif.Header
