import GrmVerif.Lemmas.YaccParse3
/-!
Helper lemmas for the yacc part of C12, part 4: `parse_rule` (the production loop with its local
variables, `add_prod`'s index into `rules`, the span of a production), `parse_rules` (the `unwrap`
of the `%%` lookahead), `parse_programs` and the top-level `parse`.
-/
namespace GrmVerif.YaccParse
open GrmVerif.Header (Res Span byteLen dropBytes slice sliceRange lookahead Valid SpanOK byteLen_pos
  valid_advance slice_sat)

section Rule
variable {src : List Char} {fuel : Nat}

/-- invariant of the local variables of the production loop at cursor `i` -/
structure PInv (src : List Char) (i : Nat) (p : PState) : Prop where
  start : Valid src p.prodStart
  le : p.prodStart ≤ i
  stop : ∀ e, p.prodEnd = some e → p.prodStart ≤ e ∧ Valid src e
  syms : ∀ s ∈ p.syms, SpanOK src s.span

theorem hasRule_congr {a b : Ast} {n : Name} (h : b.rules = a.rules) : b.hasRule n = a.hasRule n := by
  unfold Ast.hasRule; rw [h]

theorem hasRule_addRule (a : Ast) (n : Name) (sp : Span) : (a.addRule n sp).hasRule n = true := by
  unfold Ast.addRule
  split
  · assumption
  · simp [Ast.hasRule, List.any_append]

theorem insertToken_rules (a : Ast) (n : Name) (sp : Span) : (a.insertToken n sp).rules = a.rules := by
  unfold Ast.insertToken
  split <;> rfl

theorem atBarOrSemi_ok {i : Nat} {st : St} (h : Valid src i) (hst : StOK src st) :
    (atBarOrSemi src i).Sat st (fun _ st' => st = st') (EOK src) := by
  unfold atBarOrSemi
  refine M.Sat.bind (la_ok "|" h hst) ?_
  rintro o st' ⟨rfl, -, -⟩
  split
  · exact M.Sat.pure rfl
  · refine M.Sat.bind (la_ok ";" h hst) ?_
    rintro o st' ⟨rfl, -, -⟩
    exact M.Sat.pure rfl

theorem atQuote_ok {i : Nat} {st : St} (h : Valid src i) (hst : StOK src st) :
    (atQuote src i).Sat st (fun _ st' => st = st') (EOK src) := by
  unfold atQuote
  refine M.Sat.bind (la_ok "\"" h hst) ?_
  rintro o st' ⟨rfl, -, -⟩
  split
  · exact M.Sat.pure rfl
  · refine M.Sat.bind (la_ok "'" h hst) ?_
    rintro o st' ⟨rfl, -, -⟩
    exact M.Sat.pure rfl

theorem emptyFollow_ok {k : Nat} {st : St} (h : Valid src k) (hst : StOK src st) :
    (emptyFollow src k).Sat st (fun _ st' => st = st') (EOK src) := by
  unfold emptyFollow
  refine M.Sat.bind (atBarOrSemi_ok h hst) ?_
  rintro b st' rfl
  split
  · exact M.Sat.pure rfl
  · refine M.Sat.bind (la_ok "{" h hst) ?_
    rintro o st' ⟨rfl, -, -⟩
    split
    · exact M.Sat.pure rfl
    · refine M.Sat.bind (la_ok "%prec" h hst) ?_
      rintro o st' ⟨rfl, -, -⟩
      exact M.Sat.pure rfl

theorem finishProd_ok {rn : Name} {p : PState} {i : Nat} {st : St} (h : Valid src i)
    (hst : StOK src st) (hp : PInv src i p) (hr : st.ast.hasRule rn = true) :
    (finishProd rn p i).Sat st (fun _ st' => StOK src st' ∧ st'.ast.rules = st.ast.rules) (EOK src) := by
  unfold finishProd
  have hend : p.prodStart ≤ p.prodEnd.getD i ∧ Valid src (p.prodEnd.getD i) := by
    cases he : p.prodEnd with
    | none => exact ⟨hp.le, h⟩
    | some e => exact hp.stop e he
  refine M.Sat.bind (liftR_ok (mkSpan_sat hp.start hend.2 hend.1) hst) ?_
  rintro span st' ⟨⟨_, hspan⟩, rfl⟩
  unfold M.Sat addProd
  rw [if_pos hr]
  refine ⟨hst.withAst { hst.1 with prods := ?_ }, rfl⟩
  intro q hq
  simp only [List.mem_append, List.mem_singleton] at hq
  rcases hq with hq | rfl
  · exact hst.1.prods q hq
  · exact ⟨hspan, hp.syms⟩

/-- the postcondition of the symbol branches: strictly further on, the invariant of the local
variables restored, the rules of the AST untouched -/
def SymOK (src : List Char) (i : Nat) (st : St) : Nat × PState → St → Prop :=
  fun r st' => i < r.1 ∧ Valid src r.1 ∧ StOK src st' ∧ PInv src r.1 r.2 ∧ st'.ast.rules = st.ast.rules

theorem ruleSym_ok {i : Nat} {p : PState} {st : St} (h : Valid src i) (hst : StOK src st)
    (hp : PInv src i p) (hf : byteLen src < fuel) :
    (ruleSym src fuel i p).Sat st (SymOK src i st) (EOK src) := by
  unfold ruleSym
  refine M.Sat.bind (atQuote_ok h hst) ?_
  rintro q st' rfl
  split
  · -- a quoted token
    refine M.Sat.bind (liftR_ok (parseToken_sat h) hst) ?_
    rintro ⟨j, sym, span, qd⟩ st' ⟨⟨hij, hj, hspan⟩, rfl⟩
    dsimp only at hij hj hspan ⊢
    refine M.Sat.bind (ws_ok hj hst) ?_
    intro i2 st2 ⟨hji2, hi2, hnl⟩
    have hst2 := hnl.stOK hst
    refine M.Sat.bind modifyAst_ok ?_
    rintro _ st3 rfl
    refine M.Sat.pure ⟨by dsimp only; omega, hi2, hst2.withAst (hst2.1.insertToken sym hspan), ?_, ?_⟩
    · refine ⟨hp.start, by show p.prodStart ≤ _; have := hp.le; omega, ?_, ?_⟩
      · intro e he
        simp only [Option.some.injEq] at he
        subst he
        exact ⟨by show p.prodStart ≤ _; have := hp.le; omega, hj⟩
      · intro s hs
        simp only [List.mem_append, List.mem_singleton] at hs
        rcases hs with hs | rfl
        · exact hp.syms s hs
        · exact hspan
    · show (st2.ast.insertToken sym span).rules = st.ast.rules
      rw [insertToken_rules, hnl.ast]
  refine M.Sat.bind (la_ok "%prec" h hst) ?_
  rintro o st' ⟨rfl, -, ho⟩
  split
  · next j =>
    obtain ⟨hj, hvj⟩ := ho j rfl
    have hpos := byteLen_pos (m := "%prec".toList) (by decide)
    refine M.Sat.bind (ws_ok hvj hst) ?_
    intro i2 st2 ⟨hji2, hi2, hnl⟩
    have hst2 := hnl.stOK hst
    refine M.Sat.bind (liftR_ok (parseToken_sat hi2) hst2) ?_
    rintro ⟨k, sym, span, qd⟩ st' ⟨⟨hik, hk, hspan⟩, rfl⟩
    dsimp only at hik hk hspan ⊢
    refine M.Sat.bind modifyAst_ok ?_
    rintro _ st3 rfl
    refine M.Sat.pure ⟨by dsimp only; omega, hk, hst2.withAst (hst2.1.insertToken sym hspan), ?_, ?_⟩
    · refine ⟨hp.start, by show p.prodStart ≤ _; have := hp.le; omega, ?_, hp.syms⟩
      intro e he
      simp only [Option.some.injEq] at he
      subst he
      exact ⟨by show p.prodStart ≤ _; have := hp.le; omega, hk⟩
    · show (st2.ast.insertToken sym span).rules = st.ast.rules
      rw [insertToken_rules, hnl.ast]
  refine M.Sat.bind (la_ok "{" h hst) ?_
  rintro o st' ⟨rfl, hl, -⟩
  split
  · next j =>
    obtain ⟨t, ht⟩ := lookahead_some hl
    have ht' : dropBytes src i = some ('{' :: t) := ht
    refine M.Sat.bind (parseAction_ok ht' hst hf) ?_
    intro j2 st2 ⟨hij2, hj2, hnl⟩
    have hst2 := hnl.stOK hst
    refine M.Sat.bind (ws_ok hj2 hst2) ?_
    intro i3 st3 ⟨hj2i3, hi3, hnl3⟩
    have hst3 := hnl3.stOK hst2
    refine M.Sat.bind (atBarOrSemi_ok hi3 hst3) ?_
    rintro b st' rfl
    split
    · refine M.Sat.pure ⟨by dsimp only; omega, hi3, hst3, ?_, ?_⟩
      · refine ⟨hp.start, by show p.prodStart ≤ _; have := hp.le; omega, ?_, hp.syms⟩
        intro e he
        simp only [Option.some.injEq] at he
        subst he
        exact ⟨hp.le, h⟩
      · rw [hnl3.ast, hnl.ast]
    · exact throwAt_ok hi3 hst3
  refine M.Sat.bind (la_ok "%empty" h hst) ?_
  rintro o st' ⟨rfl, -, ho⟩
  split
  · next j =>
    obtain ⟨hj, hvj⟩ := ho j rfl
    have hpos := byteLen_pos (m := "%empty".toList) (by decide)
    refine M.Sat.bind (ws_ok hvj hst) ?_
    intro k st2 ⟨hjk, hk, hnl⟩
    have hst2 := hnl.stOK hst
    refine M.Sat.bind (emptyFollow_ok hk hst2) ?_
    rintro b st' rfl
    split
    · exact throwAt_ok h hst2
    · refine M.Sat.pure ⟨by dsimp only; omega, hk, hst2, ?_, by rw [hnl.ast]⟩
      refine ⟨hp.start, by show p.prodStart ≤ _; have := hp.le; omega, ?_, hp.syms⟩
      intro e he
      simp only [Option.some.injEq] at he
      subst he
      exact ⟨by show p.prodStart ≤ _; have := hp.le; omega, hvj⟩
  · refine M.Sat.bind (liftR_ok (parseToken_sat h) hst) ?_
    rintro ⟨j, sym, span, qd⟩ st' ⟨⟨hij, hj, hspan⟩, rfl⟩
    dsimp only at hij hj hspan ⊢
    refine M.Sat.bind getSt_ok ?_
    rintro s st' ⟨rfl, rfl⟩
    refine M.Sat.pure ⟨by dsimp only; omega, hj, hst, ?_, rfl⟩
    refine ⟨hp.start, by show p.prodStart ≤ _; have := hp.le; omega, ?_, ?_⟩
    · intro e he
      simp only [Option.some.injEq] at he
      subst he
      exact ⟨by show p.prodStart ≤ _; have := hp.le; omega, hj⟩
    · intro s hs
      simp only [List.mem_append, List.mem_singleton] at hs
      rcases hs with hs | rfl
      · exact hp.syms s hs
      · exact hspan

/-- what one iteration of the production loop guarantees -/
def RStepOK (src : List Char) (i : Nat) (st : St) : RStep → St → Prop
  | .done j, st' => i < j ∧ Valid src j ∧ StOK src st'
  | .cont i' p', st' => i < i' ∧ Valid src i' ∧ StOK src st' ∧ PInv src i' p' ∧
      st'.ast.rules = st.ast.rules

theorem ruleStep_ok {rn : Name} {i : Nat} {p : PState} {st : St} (h : Valid src i) (hst : StOK src st)
    (hp : PInv src i p) (hr : st.ast.hasRule rn = true) (hf : byteLen src < fuel) :
    (ruleStep src fuel rn i p).Sat st (RStepOK src i st) (EOK src) := by
  unfold ruleStep
  refine M.Sat.bind (la_ok "|" h hst) ?_
  rintro o st' ⟨rfl, -, ho⟩
  split
  · next j =>
    obtain ⟨hj, hvj⟩ := ho j rfl
    have hpos := byteLen_pos (m := "|".toList) (by decide)
    refine M.Sat.bind (finishProd_ok h hst hp hr) ?_
    intro _ st1 ⟨hst1, hr1⟩
    refine M.Sat.bind (ws_ok hvj hst1) ?_
    intro i2 st2 ⟨hji2, hi2, hnl⟩
    refine M.Sat.pure ⟨by omega, hi2, hnl.stOK hst1, ?_, by rw [hnl.ast, hr1]⟩
    exact ⟨hi2, Nat.le_refl _, by intro e he; simp at he, by intro s hs; simp at hs⟩
  refine M.Sat.bind (la_ok ";" h hst) ?_
  rintro o st' ⟨rfl, -, ho⟩
  split
  · next j =>
    obtain ⟨hj, hvj⟩ := ho j rfl
    have hpos := byteLen_pos (m := ";".toList) (by decide)
    refine M.Sat.bind (finishProd_ok h hst hp hr) ?_
    intro _ st1 ⟨hst1, hr1⟩
    exact M.Sat.pure ⟨by omega, hvj, hst1⟩
  · refine M.Sat.bind (ruleSym_ok h hst hp hf) ?_
    rintro ⟨i1, p1⟩ st1 ⟨hii1, hi1, hst1, hp1, hr1⟩
    dsimp only at hii1 hi1 hp1 ⊢
    refine M.Sat.bind (ws_ok hi1 hst1) ?_
    intro i2 st2 ⟨h12, hi2, hnl⟩
    refine M.Sat.pure ⟨by omega, hi2, hnl.stOK hst1, ?_, by rw [hnl.ast, hr1]⟩
    exact ⟨hp1.start, by have := hp1.le; omega, hp1.stop, hp1.syms⟩

theorem ruleLoop_ok {rn : Name} (hf : byteLen src < fuel) (f : Nat) : ∀ i p st, Valid src i →
    StOK src st → PInv src i p → st.ast.hasRule rn = true → byteLen src - i < f →
    (ruleLoop src fuel rn f i p).Sat st (fun j st' => i < j ∧ Valid src j ∧ StOK src st') (EOK src) := by
  induction f with
  | zero => intro i p st _ _ _ _ hf; omega
  | succ f ih =>
    intro i p st hv hst hp hr hlt
    unfold ruleLoop
    split
    · refine M.Sat.bind (ruleStep_ok hv hst hp hr hf) ?_
      intro s st1 hs
      split
      · next j => exact M.Sat.pure hs
      · next i' p' =>
        obtain ⟨h1, h2, h3, h4, h5⟩ := hs
        have := h2.le
        refine M.Sat.mono (ih i' p' st1 h2 h3 h4 (by rw [hasRule_congr h5]; exact hr) (by omega)) ?_
          (fun _ _ h => h)
        intro j st2 ⟨g1, g2, g3⟩
        exact ⟨by omega, g2, g3⟩
    · exact throwAt_ok hv hst

theorem ruleHead_ok {kind : Kind} {rn : Name} {span : Span} {j : Nat} {st : St} (h : Valid src j)
    (hst : StOK src st) (hspan : SpanOK src span) (hf : byteLen src < fuel) :
    (ruleHead src kind fuel rn span j).Sat st
      (fun i st' => j ≤ i ∧ Valid src i ∧ StOK src st' ∧ st'.ast.hasRule rn = true) (EOK src) := by
  unfold ruleHead
  split
  · refine M.Sat.bind (ws_ok h hst) ?_
    intro i st1 ⟨hji, hi, hnl⟩
    have hst1 := hnl.stOK hst
    refine M.Sat.bind (la_ok "->" hi hst1) ?_
    rintro o st' ⟨rfl, -, ho⟩
    split
    · next j2 =>
      obtain ⟨hj2, hvj2⟩ := ho j2 rfl
      refine M.Sat.bind (ws_ok hvj2 hst1) ?_
      intro i3 st3 ⟨h23, hi3, hnl3⟩
      have hst3 := hnl3.stOK hst1
      refine M.Sat.bind (parseToSingleColon_ok hi3 hst3 hf) ?_
      intro j4 st4 ⟨h34, hj4, hnl4⟩
      have hst4 := hnl4.stOK hst3
      refine M.Sat.bind modifyAst_ok ?_
      rintro _ st5 rfl
      exact M.Sat.pure ⟨by omega, hj4, hst4.withAst (hst4.1.addRule rn hspan), hasRule_addRule _ _ _⟩
    · exact throwAt_ok hi hst1
  · refine M.Sat.bind modifyAst_ok ?_
    rintro _ st5 rfl
    exact M.Sat.pure ⟨Nat.le_refl _, h, hst.withAst (hst.1.addRule rn hspan), hasRule_addRule _ _ _⟩

theorem parseRule_ok {kind : Kind} {i : Nat} {st : St} (h : Valid src i) (hst : StOK src st)
    (hf : byteLen src < fuel) :
    (parseRule src kind fuel i).Sat st (fun j st' => i < j ∧ Valid src j ∧ StOK src st') (EOK src) := by
  unfold parseRule
  refine M.Sat.bind (liftR_ok (parseName_sat h) hst) ?_
  rintro ⟨j, rn⟩ st' ⟨⟨hij, hj⟩, rfl⟩
  dsimp only at hij hj ⊢
  refine M.Sat.bind (liftR_ok (mkSpan_sat h hj (by omega)) hst) ?_
  rintro span st' ⟨⟨_, hspan⟩, rfl⟩
  refine M.Sat.bind modifyAst_ok ?_
  rintro _ st1 rfl
  have hst1 : StOK src { st with ast := if st.ast.start.isNone = true then
      { st.ast with start := some (rn, span) } else st.ast } := by
    refine hst.withAst ?_
    split
    · refine { hst.1 with start := ?_ }
      intro x hx; simp only [Option.some.injEq] at hx; subst hx; exact hspan
    · exact hst.1
  refine M.Sat.bind (ruleHead_ok hj hst1 hspan hf) ?_
  intro i2 st2 ⟨hji2, hi2, hst2, hr2⟩
  refine M.Sat.bind (ws_ok hi2 hst2) ?_
  intro i3 st3 ⟨h23, hi3, hnl3⟩
  have hst3 := hnl3.stOK hst2
  refine M.Sat.bind (la_ok ":" hi3 hst3) ?_
  rintro o st' ⟨rfl, -, ho⟩
  split
  · exact throwAt_ok hi3 hst3
  · next j4 =>
    obtain ⟨hj4, hvj4⟩ := ho j4 rfl
    refine M.Sat.bind (ws_ok hvj4 hst3) ?_
    intro i5 st5 ⟨h45, hi5, hnl5⟩
    have hr5 : st5.ast.hasRule rn = true := by rw [hnl5.ast, hnl3.ast]; exact hr2
    refine M.Sat.mono (ruleLoop_ok hf fuel i5 { prodStart := i5 } st5 hi5 (hnl5.stOK hst3)
      ⟨hi5, Nat.le_refl _, by intro e he; simp at he, by intro s hs; simp at hs⟩ hr5 (by omega)) ?_
      (fun _ _ h => h)
    intro j6 st6 ⟨g1, g2, g3⟩
    exact ⟨by omega, g2, g3⟩

theorem rulesLoop_ok {kind : Kind} (hf : byteLen src < fuel) (f : Nat) : ∀ i st, Valid src i →
    StOK src st → byteLen src - i < f →
    (rulesLoop src kind fuel f i).Sat st (PosOK src i) (EOK src) := by
  induction f with
  | zero => intro i st _ _ hf; omega
  | succ f ih =>
    intro i st hv hst hlt
    unfold rulesLoop
    split
    · refine M.Sat.bind (la_ok "%%" hv hst) ?_
      rintro o st' ⟨rfl, -, -⟩
      split
      · refine M.Sat.bind (parseRule_ok hv hst hf) ?_
        intro j st1 ⟨hij, hj, hst1⟩
        refine M.Sat.bind (ws_ok hj hst1) ?_
        intro i2 st2 ⟨hji2, hi2, hnl⟩
        have := hi2.le
        refine M.Sat.mono (ih i2 st2 hi2 (hnl.stOK hst1) (by omega)) ?_ (fun _ _ h => h)
        intro i3 st3 ⟨h1, h2, h3⟩
        exact ⟨by omega, h2, h3⟩
      · exact M.Sat.pure ⟨Nat.le_refl _, hv, hst⟩
    · exact M.Sat.pure ⟨Nat.le_refl _, hv, hst⟩

/-- `parse_rules` after `parse_declarations`: the `unwrap` of the `%%` lookahead cannot fail -/
theorem parseRules_ok {kind : Kind} {i : Nat} {st : St} (hd : DeclOK src i st)
    (hf : byteLen src < fuel) :
    (parseRules src kind fuel i).Sat st (fun j st' => Valid src j ∧ StOK src st') (EOK src) := by
  obtain ⟨hv, hst, j0, hl0⟩ := hd
  unfold parseRules
  refine M.Sat.bind (la_ok "%%" hv hst) ?_
  rintro o st' ⟨rfl, hl, ho⟩
  rw [hl0] at hl
  obtain rfl := Res.ok.inj hl
  dsimp only
  obtain ⟨hj, hvj⟩ := ho j0 rfl
  refine M.Sat.bind (ws_ok hvj hst) ?_
  intro i2 st2 ⟨_, hi2, hnl⟩
  refine M.Sat.mono (rulesLoop_ok hf fuel i2 st2 hi2 (hnl.stOK hst) (by omega)) ?_ (fun _ _ h => h)
  intro i3 st3 ⟨_, h2, h3⟩
  exact ⟨h2, h3⟩

theorem parsePrograms_ok {i : Nat} {st : St} (h : Valid src i) (hst : StOK src st) :
    (parsePrograms src i).Sat st (fun j st' => Valid src j ∧ StOK src st') (EOK src) := by
  unfold parsePrograms
  refine M.Sat.bind (la_ok "%%" h hst) ?_
  rintro o st' ⟨rfl, -, ho⟩
  split
  · next j =>
    obtain ⟨hj, hvj⟩ := ho j rfl
    refine M.Sat.bind (ws_ok hvj hst) ?_
    intro i2 st2 ⟨_, hi2, hnl⟩
    have hst2 := hnl.stOK hst
    refine M.Sat.bind (liftR_ok (slice_sat hi2) hst2) ?_
    rintro prog st' ⟨hr, rfl⟩
    refine M.Sat.bind modifyAst_ok ?_
    rintro _ st3 rfl
    refine M.Sat.pure ⟨valid_advance hr (List.prefix_refl _), ?_⟩
    exact hst2.withAst (a := { st2.ast with programs := some (byteLen prog) }) { hst2.1 with }
  · exact M.Sat.pure ⟨h, hst⟩

theorem sections_ok {kind : Kind} {pos : Nat} {st : St} (h : Valid src pos) (hst : StOK src st)
    (hf : byteLen src < fuel) :
    (sections src kind fuel pos).Sat st (fun j st' => Valid src j ∧ StOK src st') (EOK src) := by
  unfold sections
  refine M.Sat.bind (parseDeclarations_ok h hst hf) ?_
  intro i st1 hd
  refine M.Sat.bind (parseRules_ok hd hf) ?_
  intro i2 st2 ⟨hi2, hst2⟩
  exact parsePrograms_ok hi2 hst2

end Rule

/-! ### `parse` -/

theorem ofHeader_ok {src : List Char} {e : Header.HErr} (h : Header.ErrOK src e) : ErrOK src (ofHeader e) := h

/-- what `parse` may return: `Ok` at a sliceable position with a well-formed AST, or a non-empty
list of located, well-formed errors with a well-formed AST; never a panic, never out of fuel -/
theorem parseWith_sat {src : List Char} {kind : Kind} {fuel : Nat} (hf : byteLen src < fuel) :
    (parseWith src kind fuel).Sat (fun r => Valid src r.1 ∧ AstOK src r.2)
      (fun r => r.1 ≠ [] ∧ (∀ e ∈ r.1, ErrOK src e) ∧ AstOK src r.2) := by
  unfold parseWith
  have hh := Header.parseWith_sat (src := src) (required := false) (fuel := fuel) hf
  cases hres : Header.parseWith src false fuel with
  | err herrs =>
    rw [hres] at hh
    refine ⟨?_, ?_, (stOK_init src).1⟩
    · intro hnil
      exact hh.1 (List.map_eq_nil_iff.1 hnil)
    · intro e he
      simp only [List.mem_map] at he
      obtain ⟨e0, he0, rfl⟩ := he
      exact ofHeader_ok (hh.2 e0 he0)
  | panic => rw [hres] at hh; exact hh.elim
  | fuelOut => rw [hres] at hh; exact hh.elim
  | ok r =>
    rw [hres] at hh
    obtain ⟨hdr, pos⟩ := r
    have hs := sections_ok (kind := kind) (pos := pos) hh.1 (stOK_init src) hf
    unfold M.Sat at hs
    dsimp only
    cases hsec : sections src kind fuel pos {} with
    | ok r2 =>
      rw [hsec] at hs
      obtain ⟨i, st⟩ := r2
      obtain ⟨hi, hst⟩ := hs
      dsimp only at hi hst ⊢
      split
      · exact ⟨hi, hst.1⟩
      · next hne =>
        refine ⟨?_, hst.2.2, hst.1⟩
        intro (hnil : st.errs = []); rw [hnil] at hne; simp at hne
    | err r2 =>
      rw [hsec] at hs
      obtain ⟨e, st⟩ := r2
      obtain ⟨he, hst⟩ := hs
      dsimp only at he hst ⊢
      refine ⟨by simp, ?_, hst.1⟩
      intro e' he'
      simp only [List.mem_append, List.mem_singleton] at he'
      rcases he' with he' | rfl
      · exact hst.2.2 e' he'
      · exact he
    | panic => rw [hsec] at hs; exact hs.elim
    | fuelOut => rw [hsec] at hs; exact hs.elim

end GrmVerif.YaccParse
