import GrmVerif.Lemmas.MaxCostsFinal
/-! A bound table that passes `maxCert` whenever the sums fit: `maxUB`, computed by `nrules` rounds of
"the largest production sum" over the rules that are not recursive (their dependency order is acyclic, so
the table is stable after at most `nrules` rounds). This turns the certificate of `max_costs_impl_spec`
into the closed, decidable condition `maxFits`. -/
namespace GrmVerif.Impl
open GrmVerif Spec Ref

/-- the largest sum of a production of `r` that refers to no recursive rule (0 for a recursive `r`) -/
def ubStep (G : Grammar) (tc : Nat → Nat) (U : Nat → Nat) (r : Nat) : Nat :=
  if isCyc G r then 0
  else ((G.prodsOf r).filter (fun p => !hasStop (isCyc G) (G.rhs p))).foldl
    (fun acc p => max acc (curSum tc U (G.rhs p))) 0

def ubIter (G : Grammar) (tc : Nat → Nat) : Nat → List Nat
  | 0 => List.replicate G.nrules 0
  | k + 1 => (List.range G.nrules).map (ubStep G tc (cget (ubIter G tc k)))

/-- the bound table: `nrules` rounds -/
def maxUB (G : Grammar) (tc : Nat → Nat) : Nat → Nat := cget (ubIter G tc G.nrules)

/-- **the sums fit**: with the bound table `maxUB`, in every production of a rule that is not recursive the
costs of the symbols before the first recursive rule add up to less than `u16::MAX` -/
def maxFits (G : Grammar) (tc : Nat → Nat) : Bool :=
  (List.range G.nprods).all (fun p =>
    isCyc G (G.lhs p) || decide (prefSum tc (maxUB G tc) (isCyc G) (G.rhs p) < U16MAX))

theorem foldl_max_ge (f : Nat → Nat) : ∀ (l : List Nat) (a : Nat),
    a ≤ l.foldl (fun acc p => max acc (f p)) a ∧ ∀ p ∈ l, f p ≤ l.foldl (fun acc p => max acc (f p)) a := by
  intro l
  induction l with
  | nil => intro a; exact ⟨Nat.le_refl _, by intro p hp; cases hp⟩
  | cons x l ih =>
    intro a
    obtain ⟨h1, h2⟩ := ih (max a (f x))
    simp only [List.foldl_cons]
    refine ⟨by omega, ?_⟩
    intro p hp
    rcases List.mem_cons.mp hp with rfl | hp
    · omega
    · exact h2 p hp

theorem foldl_max_congr (f g : Nat → Nat) : ∀ (l : List Nat) (a : Nat), (∀ p ∈ l, f p = g p) →
    l.foldl (fun acc p => max acc (f p)) a = l.foldl (fun acc p => max acc (g p)) a := by
  intro l
  induction l with
  | nil => intro a _; rfl
  | cons x l ih =>
    intro a h
    simp only [List.foldl_cons, h x (by simp)]
    exact ih _ (fun p hp => h p (List.mem_cons_of_mem _ hp))

theorem cget_ubIter_succ (G : Grammar) (tc : Nat → Nat) (k r : Nat) (hr : r < G.nrules) :
    cget (ubIter G tc (k + 1)) r = ubStep G tc (cget (ubIter G tc k)) r := by
  unfold cget
  simp only [ubIter]
  rw [List.getD_eq_getElem?_getD, List.getElem?_map, List.getElem?_range hr]
  rfl

/-- `ubStep` only looks at the rules of the productions without recursive rules -/
theorem ubStep_congr (G : Grammar) (tc : Nat → Nat) (U U' : Nat → Nat) (r : Nat)
    (h : ∀ p ∈ G.prodsOf r, hasStop (isCyc G) (G.rhs p) = false → ∀ q, Sym.rule q ∈ G.rhs p → U q = U' q) :
    ubStep G tc U r = ubStep G tc U' r := by
  unfold ubStep
  split
  · rfl
  · apply foldl_max_congr
    intro p hp
    simp only [List.mem_filter, Bool.not_eq_true'] at hp
    exact curSum_congr _ (h p hp.1 hp.2)

/-- the table is stable, from round `k` on, at the rules of rank below `k` -/
theorem ubIter_stable (G : Grammar) (hwf : G.wf = true) (tc : Nat → Nat) :
    ∀ k r, r < G.nrules → ¬ Cyc G r → rho G r < k →
      ∀ j, k ≤ j → cget (ubIter G tc j) r = cget (ubIter G tc k) r := by
  intro k
  induction k with
  | zero => intro r _ _ h; omega
  | succ k ih =>
    intro r hr hnc hrho j hj
    obtain ⟨j', rfl⟩ : ∃ j', j = j' + 1 := ⟨j - 1, by omega⟩
    rw [cget_ubIter_succ G tc j' r hr, cget_ubIter_succ G tc k r hr]
    apply ubStep_congr
    intro p hp hns q hq
    obtain ⟨hp1, hp2⟩ := mem_prodsOf.mp hp
    have hsucc : Succ G r q := ⟨p, hp1, hp2, hq⟩
    have hqn : q < G.nrules := reach_lt hwf (reach_of_succ hsucc)
    have hqc : ¬ Cyc G q := by
      intro hc
      have : hasStop (isCyc G) (G.rhs p) = true :=
        (hasStop_iff _ _).mpr ⟨q, hq, (isCyc_iff G hwf q).mpr hc⟩
      rw [hns] at this; cases this
    have hlt := rho_lt G hwf hsucc hqc
    exact ih q hqn hqc (by omega) j' (by omega)

/-- **`maxUB` passes the certificate whenever the sums fit** -/
theorem maxCert_maxUB (G : Grammar) (hwf : G.wf = true) (tc : Nat → Nat) (hfit : maxFits G tc = true) :
    maxCert G tc (maxUB G tc) = true := by
  simp only [maxCert, List.all_eq_true, List.mem_range]
  intro p hp
  simp only [maxFits, List.all_eq_true, List.mem_range] at hfit
  have hf := hfit p hp
  cases hc : isCyc G (G.lhs p) with
  | true => rfl
  | false =>
    rw [hc] at hf
    simp only [Bool.false_or] at hf ⊢
    rw [hf]
    simp only [Bool.true_and]
    cases hs : hasStop (isCyc G) (G.rhs p) with
    | true => rfl
    | false =>
      simp only [Bool.false_or, decide_eq_true_eq]
      have hr : G.lhs p < G.nrules := wf_lhs hwf hp
      have hnc : ¬ Cyc G (G.lhs p) := by
        intro h; rw [(isCyc_iff G hwf _).mpr h] at hc; cases hc
      -- one more round does not change the entry of `lhs p`, and that round takes the maximum over `p` too
      have hst := ubIter_stable G hwf tc G.nrules (G.lhs p) hr hnc (rho_lt_n G hwf hr hnc) (G.nrules + 1) (by omega)
      rw [cget_ubIter_succ G tc G.nrules _ hr] at hst
      show curSum tc (maxUB G tc) (G.rhs p) ≤ maxUB G tc (G.lhs p)
      unfold maxUB
      rw [← hst]
      unfold ubStep
      rw [hc]
      simp only [Bool.false_eq_true, if_false]
      exact (foldl_max_ge (fun p => curSum tc (cget (ubIter G tc G.nrules)) (G.rhs p)) _ 0).2 p
        (by simp [List.mem_filter, mem_prodsOf, hp, hs])

end GrmVerif.Impl
