import GrmVerif.Model.PagerImpl
/-!
Lemmas about the model of `gc` (`PagerImpl.gc`): the reachability loop computes exactly the states
reachable from the start state; `offsets` maps an index to the number of kept states before it; the
kept states and the renumbered edges sit at those positions.
-/
namespace GrmVerif.PagerImpl

/-- `t` is reachable from `start` along the edges -/
inductive Reach (edges : List (List (Sym × Nat))) (start : Nat) : Nat → Prop
  | start : Reach edges start start
  | step (s t : Nat) (X : Sym) (es : List (Sym × Nat)) : Reach edges start s → edges[s]? = some es → (X, t) ∈ es →
      Reach edges start t

/-- number of indices `i < s` with `kp i`: the new index of a kept state `s` -/
def keptBefore (kp : Nat → Bool) (s : Nat) : Nat := ((List.range s).filter kp).length

theorem keptBefore_zero (kp : Nat → Bool) : keptBefore kp 0 = 0 := by simp [keptBefore]

theorem keptBefore_succ (kp : Nat → Bool) (s : Nat) :
    keptBefore kp (s + 1) = keptBefore kp s + (if kp s then 1 else 0) := by
  simp only [keptBefore, List.range_succ, List.filter_append, List.length_append]
  by_cases h : kp s = true <;> simp [List.filter, h]

theorem keptBefore_le (kp : Nat → Bool) (s : Nat) : keptBefore kp s ≤ s := by
  induction s with
  | zero => simp [keptBefore_zero]
  | succ s ih => rw [keptBefore_succ]; split <;> omega

theorem keptBefore_mono (kp : Nat → Bool) {s t : Nat} (h : s ≤ t) : keptBefore kp s ≤ keptBefore kp t := by
  induction t with
  | zero => have : s = 0 := by omega
            subst this; exact Nat.le_refl _
  | succ t ih =>
    by_cases hs : s = t + 1
    · subst hs; exact Nat.le_refl _
    · have := ih (by omega); rw [keptBefore_succ]; omega

theorem keptBefore_lt (kp : Nat → Bool) {s t : Nat} (h : s < t) (hs : kp s = true) : keptBefore kp s < keptBefore kp t := by
  have h1 := keptBefore_mono kp (show s + 1 ≤ t from h)
  rw [keptBefore_succ, if_pos hs] at h1
  omega

theorem keptBefore_surj (kp : Nat → Bool) (n k : Nat) (h : k < keptBefore kp n) :
    ∃ s, s < n ∧ kp s = true ∧ keptBefore kp s = k := by
  induction n with
  | zero => simp [keptBefore_zero] at h
  | succ n ih =>
    rw [keptBefore_succ] at h
    by_cases hk : k < keptBefore kp n
    · obtain ⟨s, h1, h2, h3⟩ := ih hk
      exact ⟨s, by omega, h2, h3⟩
    · by_cases hn : kp n = true
      · rw [if_pos hn] at h
        exact ⟨n, by omega, hn, by omega⟩
      · rw [if_neg hn] at h; omega

theorem keptBefore_congr {kp kq : Nat → Bool} (h : ∀ i, kp i = kq i) (s : Nat) : keptBefore kp s = keptBefore kq s := by
  have : kp = kq := funext h
  rw [this]

/-- the dropped states before `s` make up the difference -/
theorem keptBefore_add_dropped (kp : Nat → Bool) (s : Nat) :
    keptBefore kp s + ((List.range s).filter (fun i => !kp i)).length = s := by
  induction s with
  | zero => simp [keptBefore]
  | succ s ih =>
    rw [keptBefore_succ]
    simp only [List.range_succ, List.filter_append, List.length_append]
    by_cases h : kp s = true <;> simp [List.filter, h] <;> omega

theorem keptBefore_all (kp : Nat → Bool) (s : Nat) (h : ∀ i, i < s → kp i = true) : keptBefore kp s = s := by
  induction s with
  | zero => exact keptBefore_zero kp
  | succ s ih => rw [keptBefore_succ, ih (fun i hi => h i (by omega)), if_pos (h s (by omega))]

/-! ### counting a duplicate-free list of indices -/

theorem keptBefore_single (s n : Nat) (h : s < n) : keptBefore (fun i => i == s) n = 1 := by
  induction n with
  | zero => omega
  | succ n ih =>
    rw [keptBefore_succ]
    by_cases hs : s = n
    · subst hs
      have : keptBefore (fun i => i == s) s = 0 := by
        have h0 := keptBefore_le (fun i => i == s) s
        clear ih
        induction s with
        | zero => exact keptBefore_zero _
        | succ m _ =>
          unfold keptBefore
          rw [List.length_eq_zero_iff, List.filter_eq_nil_iff]
          intro a ha
          have := List.mem_range.mp ha
          simp; omega
      simp [this]
    · have := ih (by omega)
      have hne : (n == s) = false := by simp; omega
      simp [this, hne]

theorem keptBefore_or (kp kq : Nat → Bool) (hdisj : ∀ i, kp i = true → kq i = true → False) (n : Nat) :
    keptBefore (fun i => kp i || kq i) n = keptBefore kp n + keptBefore kq n := by
  induction n with
  | zero => simp [keptBefore_zero]
  | succ n ih =>
    simp only [keptBefore_succ, ih]
    have := hdisj n
    cases h1 : kp n <;> cases h2 : kq n <;> simp_all <;> omega

/-- a duplicate-free list of indices below `n` has as many elements as there are indices below `n` in it -/
theorem length_eq_keptBefore (seen : List Nat) (n : Nat) (hnd : seen.Nodup) (hlt : ∀ s ∈ seen, s < n) :
    seen.length = keptBefore (fun i => seen.contains i) n := by
  induction seen with
  | nil => induction n with
    | zero => simp [keptBefore_zero]
    | succ n ih => simp_all [keptBefore_succ]
  | cons s rest ih =>
    have hnd' := List.nodup_cons.mp hnd
    have h1 := ih hnd'.2 (fun x hx => hlt x (List.mem_cons_of_mem _ hx))
    have h2 : keptBefore (fun i => (s :: rest).contains i) n =
        keptBefore (fun i => (i == s) || rest.contains i) n :=
      keptBefore_congr (fun i => by rw [List.contains_cons]) n
    rw [h2, keptBefore_or _ _ (fun i ha hb => hnd'.1 (by
      have : i = s := by simpa using ha
      subst this; simpa using hb)) n, keptBefore_single s n (hlt s (List.mem_cons_self ..)), ← h1]
    simp; omega

/-! ### the reachability loop -/

theorem mem_todoExtend (todo new : List Nat) (x : Nat) : x ∈ todoExtend todo new ↔ x ∈ todo ∨ x ∈ new := by
  induction new generalizing todo with
  | nil => simp [todoExtend]
  | cons y rest ih =>
    rw [todoExtend, ih]
    by_cases h : todo.contains y = true
    · rw [if_pos h]
      have hy : y ∈ todo := by simpa using h
      constructor
      · rintro (h | h)
        · exact Or.inl h
        · exact Or.inr (List.mem_cons_of_mem _ h)
      · rintro (h | h)
        · exact Or.inl h
        · rcases List.mem_cons.mp h with rfl | h
          · exact Or.inl hy
          · exact Or.inr h
    · rw [if_neg h]
      simp only [List.mem_append, List.mem_cons, List.not_mem_nil, or_false]
      constructor
      · rintro ((h | h) | h)
        · exact Or.inl h
        · exact Or.inr (Or.inl h)
        · exact Or.inr (Or.inr h)
      · rintro (h | h | h)
        · exact Or.inl (Or.inl h)
        · exact Or.inl (Or.inr h)
        · exact Or.inr h

theorem nodup_todoExtend (todo new : List Nat) (h : todo.Nodup) : (todoExtend todo new).Nodup := by
  induction new generalizing todo with
  | nil => simpa [todoExtend]
  | cons y rest ih =>
    rw [todoExtend]
    apply ih
    by_cases hc : todo.contains y = true
    · rw [if_pos hc]; exact h
    · rw [if_neg hc]
      have hy : y ∉ todo := by simpa using hc
      rw [List.nodup_append]
      refine ⟨h, by simp, ?_⟩
      intro a ha b hb
      have : b = y := by simpa using hb
      subst this
      intro hab; subst hab; exact hy ha

/-- number of states not yet seen (the measure of the reachability loop) -/
def unseen (seen : List Nat) (n : Nat) : Nat := keptBefore (fun i => !seen.contains i) n

theorem unseen_cons_lt (seen : List Nat) (n s : Nat) (hs : s < n) (hns : s ∉ seen) :
    unseen (s :: seen) n < unseen seen n := by
  unfold unseen
  have h1 : keptBefore (fun i => !seen.contains i) n =
      keptBefore (fun i => (i == s) || !(s :: seen).contains i) n := by
    apply keptBefore_congr
    intro i
    by_cases his : i = s
    · subst his; simp [hns]
    · simp [List.contains_cons, his]
  rw [h1, keptBefore_or _ _ (fun i ha hb => by
    have : i = s := by simpa using ha
    subst this; simp at hb) n, keptBefore_single s n hs]
  omega

structure ReachInv (edges : List (List (Sym × Nat))) (start : Nat) (todo seen : List Nat) : Prop where
  todoReach : ∀ s ∈ todo, Reach edges start s
  seenReach : ∀ s ∈ seen, Reach edges start s
  closed : ∀ s ∈ seen, ∀ (es : List (Sym × Nat)), edges[s]? = some es → ∀ e ∈ es, e.2 ∈ seen ∨ e.2 ∈ todo
  start : start ∈ seen ∨ start ∈ todo
  disj : ∀ s ∈ todo, s ∉ seen
  todoNd : todo.Nodup
  seenNd : seen.Nodup

theorem reach_lt {edges : List (List (Sym × Nat))} {start n : Nat} (hstart : start < n)
    (hrange : ∀ (s : Nat) (es : List (Sym × Nat)), edges[s]? = some es → ∀ e ∈ es, e.2 < n) {s : Nat} (h : Reach edges start s) : s < n := by
  induction h with
  | start => exact hstart
  | step s t X es _ he hm _ => exact hrange s es he (X, t) hm

theorem reachLoop_spec (edges : List (List (Sym × Nat))) (start n : Nat) (hlen : edges.length = n) (hstart : start < n)
    (hrange : ∀ (s : Nat) (es : List (Sym × Nat)), edges[s]? = some es → ∀ e ∈ es, e.2 < n) :
    ∀ (fuel : Nat) (todo seen : List Nat), ReachInv edges start todo seen → unseen seen n + 1 ≤ fuel →
      ∃ seen', reachLoop edges fuel todo seen = .ok seen' ∧ seen'.Nodup ∧ ∀ s, s ∈ seen' ↔ Reach edges start s := by
  intro fuel
  induction fuel with
  | zero => intro todo seen _ h; omega
  | succ fuel ih =>
    intro todo seen inv hf
    cases todo with
    | nil =>
      refine ⟨seen, rfl, inv.seenNd, fun s => ⟨inv.seenReach s, ?_⟩⟩
      intro hr
      induction hr with
      | start => rcases inv.start with h | h
                 · exact h
                 · cases h
      | step s t X es _ he hm ih2 =>
        rcases inv.closed s ih2 es he (X, t) hm with h | h
        · exact h
        · cases h
    | cons s todo =>
      have hsr : Reach edges start s := inv.todoReach s (List.mem_cons_self ..)
      have hsn : s < n := reach_lt hstart hrange hsr
      have hns : s ∉ seen := inv.disj s (List.mem_cons_self ..)
      have hes : ∃ es, edges[s]? = some es := ⟨edges[s]'(by omega), List.getElem?_eq_getElem (by omega)⟩
      obtain ⟨es, hes⟩ := hes
      have hc : seen.contains s = false := by simpa using hns
      have htnd := List.nodup_cons.mp inv.todoNd
      simp only [reachLoop, hes, hc, Bool.false_eq_true, if_false]
      apply ih
      · refine ⟨?_, ?_, ?_, ?_, ?_, ?_, ?_⟩
        · intro x hx
          rcases (mem_todoExtend _ _ x).mp hx with h | h
          · exact inv.todoReach x (List.mem_cons_of_mem _ h)
          · obtain ⟨h1, _⟩ := List.mem_filter.mp h
            obtain ⟨e, he, rfl⟩ := List.mem_map.mp h1
            exact .step s e.2 e.1 es hsr hes he
        · intro x hx
          rcases List.mem_cons.mp hx with rfl | h
          · exact hsr
          · exact inv.seenReach x h
        · intro x hx es' hes' e he
          by_cases hin : e.2 ∈ s :: seen
          · exact Or.inl hin
          · right
            rw [mem_todoExtend]
            rcases List.mem_cons.mp hx with rfl | h
            · right
              rw [hes] at hes'; cases hes'
              exact List.mem_filter.mpr ⟨List.mem_map.mpr ⟨e, he, rfl⟩, by simpa using hin⟩
            · rcases inv.closed x h es' hes' e he with h2 | h2
              · exact absurd (List.mem_cons_of_mem _ h2) hin
              · rcases List.mem_cons.mp h2 with h3 | h3
                · exact absurd (h3 ▸ List.mem_cons_self ..) hin
                · exact Or.inl h3
        · rcases inv.start with h | h
          · exact Or.inl (List.mem_cons_of_mem _ h)
          · rcases List.mem_cons.mp h with h | h
            · exact Or.inl (h ▸ List.mem_cons_self ..)
            · exact Or.inr ((mem_todoExtend _ _ _).mpr (Or.inl h))
        · intro x hx
          rcases (mem_todoExtend _ _ x).mp hx with h | h
          · intro hc2
            rcases List.mem_cons.mp hc2 with rfl | h2
            · exact htnd.1 h
            · exact inv.disj x (List.mem_cons_of_mem _ h) h2
          · have := (List.mem_filter.mp h).2
            simpa using this
        · exact nodup_todoExtend _ _ htnd.2
        · exact List.nodup_cons.mpr ⟨hns, inv.seenNd⟩
      · have := unseen_cons_lt seen n s hsn hns
        omega

/-! ### `offsets`, the kept states, the renumbered edges -/

theorem offsetsLoop_offsets {α : Type} (seen : List Nat) (kp : Nat → Bool) (hkp : ∀ i, seen.contains i = kp i) (l : List α) :
    ∀ (i off : Nat), off + keptBefore kp i = i →
      (offsetsLoop seen l i off).1.length = l.length ∧
      ∀ j, j < l.length → (offsetsLoop seen l i off).1[j]? = some (keptBefore kp (i + j)) := by
  induction l with
  | nil => intro i off _; simp [offsetsLoop]
  | cons z rest ih =>
    intro i off hoff
    have hs := keptBefore_succ kp i
    by_cases hk : kp i = true
    · simp only [offsetsLoop, hkp i, hk, if_true]
      simp only [hk, if_true] at hs
      obtain ⟨h1, h2⟩ := ih (i + 1) off (by omega)
      refine ⟨by simp [h1], ?_⟩
      intro j hj
      cases j with
      | zero => simp only [List.getElem?_cons_zero, Option.some.injEq, Nat.add_zero]; omega
      | succ j =>
        have := h2 j (by simpa using hj)
        simp only [List.getElem?_cons_succ, this]
        congr 2; omega
    · simp only [offsetsLoop, hkp i, hk, Bool.false_eq_true, if_false]
      simp only [hk, Bool.false_eq_true, if_false, Nat.add_zero] at hs
      obtain ⟨h1, h2⟩ := ih (i + 1) (off + 1) (by omega)
      refine ⟨by simp [h1], ?_⟩
      intro j hj
      cases j with
      | zero => simp only [List.getElem?_cons_zero, Option.some.injEq, Nat.add_zero]; omega
      | succ j =>
        have := h2 j (by simpa using hj)
        simp only [List.getElem?_cons_succ, this]
        congr 2; omega

theorem offsetsLoop_kept {α : Type} (seen : List Nat) (kp : Nat → Bool) (hkp : ∀ i, seen.contains i = kp i) (l : List α) :
    ∀ (i off : Nat),
      (offsetsLoop seen l i off).2.length + keptBefore kp i = keptBefore kp (i + l.length) ∧
      ∀ j, j < l.length → kp (i + j) = true →
        (offsetsLoop seen l i off).2[keptBefore kp (i + j) - keptBefore kp i]? = l[j]? := by
  induction l with
  | nil => intro i off; simp [offsetsLoop]
  | cons z rest ih =>
    intro i off
    have hs := keptBefore_succ kp i
    by_cases hk : kp i = true
    · simp only [offsetsLoop, hkp i, hk, if_true]
      simp only [hk, if_true] at hs
      obtain ⟨h1, h2⟩ := ih (i + 1) off
      refine ⟨by simp only [List.length_cons]; rw [show i + (rest.length + 1) = i + 1 + rest.length by omega]; omega, ?_⟩
      intro j hj hkj
      cases j with
      | zero => simp
      | succ j =>
        have := h2 j (by simpa using hj) (by rw [show i + 1 + j = i + (j + 1) by omega]; exact hkj)
        have hm := keptBefore_mono kp (show i + 1 ≤ i + 1 + j by omega)
        rw [show i + (j + 1) = i + 1 + j by omega]
        rw [show keptBefore kp (i + 1 + j) - keptBefore kp i =
          (keptBefore kp (i + 1 + j) - keptBefore kp (i + 1)) + 1 by omega]
        simpa using this
    · simp only [offsetsLoop, hkp i, hk, Bool.false_eq_true, if_false]
      simp only [hk, Bool.false_eq_true, if_false, Nat.add_zero] at hs
      obtain ⟨h1, h2⟩ := ih (i + 1) (off + 1)
      refine ⟨by simp only [List.length_cons]; rw [show i + (rest.length + 1) = i + 1 + rest.length by omega]; omega, ?_⟩
      intro j hj hkj
      cases j with
      | zero => rw [Nat.add_zero] at hkj; exact absurd hkj hk
      | succ j =>
        have := h2 j (by simpa using hj) (by rw [show i + 1 + j = i + (j + 1) by omega]; exact hkj)
        rw [show i + (j + 1) = i + 1 + j by omega, ← hs]
        simpa using this

/-- the renumbering of one edge map -/
def relabel (f : Nat → Nat) (es : List (Sym × Nat)) : List (Sym × Nat) := es.map (fun e => (e.1, f e.2))

theorem mapEdges_spec (offsets : List Nat) (f : Nat → Nat) (es : List (Sym × Nat))
    (h : ∀ e ∈ es, offsets[e.2]? = some (f e.2)) : mapEdges offsets es = some (relabel f es) := by
  induction es with
  | nil => rfl
  | cons e rest ih =>
    simp only [mapEdges, h e (List.mem_cons_self ..), Option.bind_some,
      ih (fun x hx => h x (List.mem_cons_of_mem _ hx)), Option.map_some]
    rfl

theorem edgesLoop_spec (seen : List Nat) (kp : Nat → Bool) (hkp : ∀ i, seen.contains i = kp i)
    (offsets : List Nat) (f : Nat → Nat) (l : List (List (Sym × Nat)))
    (h : ∀ es ∈ l, ∀ e ∈ es, offsets[e.2]? = some (f e.2)) :
    ∀ (i : Nat), ∃ r, edgesLoop seen offsets l i = some r ∧
      r.length + keptBefore kp i = keptBefore kp (i + l.length) ∧
      ∀ j, j < l.length → kp (i + j) = true →
        r[keptBefore kp (i + j) - keptBefore kp i]? = (l[j]?).map (relabel f) := by
  induction l with
  | nil => intro i; exact ⟨[], rfl, by simp, by simp⟩
  | cons z rest ih =>
    intro i
    have hs := keptBefore_succ kp i
    obtain ⟨r, hr, h1, h2⟩ := ih (fun es hes => h es (List.mem_cons_of_mem _ hes)) (i + 1)
    by_cases hk : kp i = true
    · simp only [hk, if_true] at hs
      refine ⟨relabel f z :: r, ?_, ?_, ?_⟩
      · simp only [edgesLoop, hkp i, hk, if_true, mapEdges_spec offsets f z (h z (List.mem_cons_self ..)), Option.bind_some, hr, Option.map_some]
      · simp only [List.length_cons]; rw [show i + (rest.length + 1) = i + 1 + rest.length by omega]; omega
      · intro j hj hkj
        cases j with
        | zero => simp
        | succ j =>
          have := h2 j (by simpa using hj) (by rw [show i + 1 + j = i + (j + 1) by omega]; exact hkj)
          have hm := keptBefore_mono kp (show i + 1 ≤ i + 1 + j by omega)
          rw [show i + (j + 1) = i + 1 + j by omega]
          rw [show keptBefore kp (i + 1 + j) - keptBefore kp i =
            (keptBefore kp (i + 1 + j) - keptBefore kp (i + 1)) + 1 by omega]
          simpa using this
    · simp only [hk, Bool.false_eq_true, if_false, Nat.add_zero] at hs
      refine ⟨r, ?_, ?_, ?_⟩
      · simp only [edgesLoop, hkp i, hk, Bool.false_eq_true, if_false, hr]
      · simp only [List.length_cons]; rw [show i + (rest.length + 1) = i + 1 + rest.length by omega]; omega
      · intro j hj hkj
        cases j with
        | zero => rw [Nat.add_zero] at hkj; exact absurd hkj hk
        | succ j =>
          have := h2 j (by simpa using hj) (by rw [show i + 1 + j = i + (j + 1) by omega]; exact hkj)
          rw [show i + (j + 1) = i + 1 + j by omega, ← hs]
          simpa using this

theorem keptBefore_eq_all (kp : Nat → Bool) (n : Nat) (h : keptBefore kp n = n) : ∀ i, i < n → kp i = true := by
  induction n with
  | zero => intro i hi; omega
  | succ n ih =>
    rw [keptBefore_succ] at h
    have hle := keptBefore_le kp n
    by_cases hn : kp n = true
    · rw [if_pos hn] at h
      intro i hi
      by_cases hin : i = n
      · subst hin; exact hn
      · exact ih (by omega) i (by omega)
    · rw [if_neg hn] at h; omega

theorem relabel_id (f : Nat → Nat) (es : List (Sym × Nat)) (h : ∀ e ∈ es, f e.2 = e.2) : relabel f es = es := by
  induction es with
  | nil => rfl
  | cons e rest ih =>
    simp only [relabel, List.map_cons]
    rw [h e (List.mem_cons_self ..)]
    have := ih (fun x hx => h x (List.mem_cons_of_mem _ hx))
    simp only [relabel] at this
    rw [this]

open Classical in
/-- the index of state `s` after `gc`: the number of reachable states before it -/
noncomputable def gcIndex (edges : List (List (Sym × Nat))) (start : Nat) (s : Nat) : Nat :=
  keptBefore (fun i => decide (Reach edges start i)) s

open Classical in
/-- the number of unreachable (dropped) states before `s` -/
noncomputable def droppedBefore (edges : List (List (Sym × Nat))) (start : Nat) (s : Nat) : Nat :=
  ((List.range s).filter (fun i => !decide (Reach edges start i))).length

theorem gcIndex_add_dropped (edges : List (List (Sym × Nat))) (start s : Nat) :
    gcIndex edges start s + droppedBefore edges start s = s :=
  keptBefore_add_dropped _ s

/-- the core of `gc_spec`: `gc` ends normally; the kept states and their renumbered edges sit at the
positions `gcIndex` -/
theorem gc_core {α : Type} (states : List α) (start : Nat) (edges : List (List (Sym × Nat)))
    (hlen : edges.length = states.length) (hstart : start < states.length)
    (hrange : ∀ (s : Nat) (es : List (Sym × Nat)), edges[s]? = some es → ∀ e ∈ es, e.2 < states.length) :
    ∃ states' edges', gc states start edges = .ok (states', edges') ∧
      states'.length = gcIndex edges start states.length ∧ edges'.length = gcIndex edges start states.length ∧
      ∀ s, s < states.length → Reach edges start s →
        states'[gcIndex edges start s]? = states[s]? ∧
        edges'[gcIndex edges start s]? = (edges[s]?).map (relabel (gcIndex edges start)) := by
  classical
  have hinv : ReachInv edges start [start] [] :=
    ⟨fun s hs => (by rw [List.mem_singleton.mp hs]; exact .start), fun s hs => (List.not_mem_nil hs).elim,
     fun s hs => (List.not_mem_nil hs).elim, Or.inr (List.mem_singleton.mpr rfl),
     fun s _ hs => (List.not_mem_nil hs).elim, (by simp), (by simp)⟩
  obtain ⟨seen, hseen, hnd, hmem⟩ := reachLoop_spec edges start states.length hlen hstart hrange
    (states.length + 1) [start] [] hinv (by have := keptBefore_le (fun i => ![].contains i) states.length; unfold unseen; omega)
  have hkp : ∀ i, seen.contains i = decide (Reach edges start i) := by
    intro i
    by_cases h : Reach edges start i
    · simp [h, (hmem i).mpr h]
    · have : i ∉ seen := fun hi => h ((hmem i).mp hi)
      simp [h, this]
  have hslen : seen.length = gcIndex edges start states.length := by
    rw [length_eq_keptBefore seen states.length hnd (fun s hs => reach_lt hstart hrange ((hmem s).mp hs))]
    exact keptBefore_congr hkp _
  simp only [gc, hseen, Res.bind]
  by_cases heq : (states.length == seen.length) = true
  · rw [if_pos heq]
    have heq' : gcIndex edges start states.length = states.length := by
      have : states.length = seen.length := by simpa using heq
      omega
    have hall := keptBefore_eq_all _ _ heq'
    have hid : ∀ s, s ≤ states.length → gcIndex edges start s = s :=
      fun s hs => keptBefore_all _ s (fun i hi => hall i (by omega))
    refine ⟨states, edges, rfl, heq'.symm, by omega, ?_⟩
    intro s hs _
    rw [hid s (by omega)]
    refine ⟨rfl, ?_⟩
    cases hes : edges[s]? with
    | none => rfl
    | some es =>
      simp only [Option.map_some]
      rw [relabel_id _ es (fun e he => hid e.2 (Nat.le_of_lt (hrange s es hes e he)))]
  · rw [if_neg heq]
    obtain ⟨ho1, ho2⟩ := offsetsLoop_offsets seen _ hkp states 0 0 (by simp [keptBefore_zero])
    obtain ⟨hk1, hk2⟩ := offsetsLoop_kept seen _ hkp states 0 0
    obtain ⟨r, hr, hr1, hr2⟩ := edgesLoop_spec seen _ hkp (offsetsLoop seen states 0 0).1
      (keptBefore (fun i => decide (Reach edges start i))) edges
      (by
        intro es hes e he
        obtain ⟨s, hs, hget⟩ := List.getElem_of_mem hes
        have hlt : e.2 < states.length := hrange s es (by rw [List.getElem?_eq_getElem hs, hget]) e he
        have := ho2 e.2 hlt
        simpa using this) 0
    simp only [keptBefore_zero, Nat.add_zero, Nat.zero_add, Nat.sub_zero] at hk1 hk2 hr1 hr2
    refine ⟨(offsetsLoop seen states 0 0).2, r, by simp [hr, ofOption], hk1, by rw [hr1, hlen]; rfl, ?_⟩
    intro s hs hreach
    exact ⟨hk2 s hs (by simpa using hreach), hr2 s (by omega) (by simpa using hreach)⟩

end GrmVerif.PagerImpl
