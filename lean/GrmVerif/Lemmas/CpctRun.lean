import GrmVerif.Lemmas.Cpct
import GrmVerif.Lemmas.KeptShift
/-!
The modelled recoverer inside the recovering driver.

* Two recoverers that agree on the configurations at which `Parser::lr` calls `recover` (`errCfg`) give
  the same run of the driver — `recRun`, `recRunF`, `recRunO`, `recCalls` — from every start within the
  input, on a table that never shifts end-of-input (`…_congr`). Hence `cpctRecover` and its restriction
  `cpctRecoverAt` are interchangeable in every statement about runs (`…_cpct_guard`).
* `cpctRecoverAt` satisfies, at EVERY configuration, what C05 and C07 ask of a recoverer:
  `FirstApplies`, `FirstValid`, `ContinuesFromValid` (`cpctAt_…`).
* `recCalls` are the configurations of the reported errors (`recRun_eq_calls`) and each of them is an
  `errCfg` (`recCalls_errCfg`).
-/
namespace GrmVerif.Cpct
open GrmVerif LR Rec RankImpl SearchImpl

abbrev Recoverer := Pos → Option (Pos × List (List Repair))

/-- a lookahead that is shifted is a real lexeme, on a table that never shifts end-of-input -/
theorem shifted_pos_lt' {G : Grammar} {A : Automaton} {w : List Nat} (heof : EofNeverShifted G A)
    {pos f : Nat} {stack s : List Nat} (h : feed G A (nextTok G w pos) f stack = .shifted s) :
    pos < w.length := by
  obtain ⟨st, s', ha⟩ := feed_shifted_action h
  by_cases hlt : pos < w.length
  · exact hlt
  · exfalso
    have : nextTok G w pos = G.eof := by
      simp only [nextTok]
      rw [List.getElem?_eq_none (by omega)]
      rfl
    rw [this] at ha
    exact heof st s' ha

/-- the recoverers `r1`, `r2` agree where the driver calls them, and `r2` stays within the input -/
structure AgreeAt (G : Grammar) (A : Automaton) (w : List Nat) (r1 r2 : Recoverer) : Prop where
  agree : ∀ c, errCfg G A w c = true → r1 c = r2 c
  inside : ∀ c c' rs, errCfg G A w c = true → r2 c = some (c', rs) → rs ≠ [] → c'.pos ≤ w.length

theorem recRunF_congr {G : Grammar} {A : Automaton} {w : List Nat} (heof : EofNeverShifted G A)
    {r1 r2 : Recoverer} (hag : AgreeAt G A w r1 r2) (ff : Nat) :
    ∀ (fuel : Nat) (c : Pos) (errs : List Err), c.pos ≤ w.length →
      recRunF G A w r1 ff fuel c errs = recRunF G A w r2 ff fuel c errs := by
  intro fuel
  induction fuel with
  | zero => intro c errs _; rfl
  | succ n ih =>
    intro c errs hc
    simp only [recRunF]
    cases hf : feed G A (nextTok G w c.pos) ff c.stack with
    | shifted s => exact ih _ _ (shifted_pos_lt' heof hf)
    | accept s => rfl
    | crash => rfl
    | fuelOut => rfl
    | error s =>
      have he := errCfg_of_feed_error hf hc
      simp only []
      rw [hag.agree _ he]
      cases hr : r2 ⟨s, c.pos⟩ with
      | none => rfl
      | some x =>
        obtain ⟨c', rs⟩ := x
        simp only []
        by_cases hemp : rs.isEmpty = true
        · rw [if_pos hemp, if_pos hemp]
        · rw [if_neg hemp, if_neg hemp]
          exact ih _ _ (hag.inside _ c' rs he hr (by intro e; subst e; simp at hemp))

theorem recRunO_congr {G : Grammar} {A : Automaton} {w : List Nat} (heof : EofNeverShifted G A)
    {r1 r2 : Recoverer} (hag : AgreeAt G A w r1 r2) (ff : Nat) :
    ∀ (fuel : Nat) (c : Pos) (errs : List Err), c.pos ≤ w.length →
      recRunO G A w r1 ff fuel c errs = recRunO G A w r2 ff fuel c errs := by
  intro fuel
  induction fuel with
  | zero => intro c errs _; rfl
  | succ n ih =>
    intro c errs hc
    simp only [recRunO]
    cases hf : feed G A (nextTok G w c.pos) ff c.stack with
    | shifted s => exact ih _ _ (shifted_pos_lt' heof hf)
    | accept s => rfl
    | crash => rfl
    | fuelOut => rfl
    | error s =>
      have he := errCfg_of_feed_error hf hc
      simp only []
      rw [hag.agree _ he]
      cases hr : r2 ⟨s, c.pos⟩ with
      | none => rfl
      | some x =>
        obtain ⟨c', rs⟩ := x
        simp only []
        by_cases hemp : rs.isEmpty = true
        · rw [if_pos hemp, if_pos hemp]
        · rw [if_neg hemp, if_neg hemp]
          exact ih _ _ (hag.inside _ c' rs he hr (by intro e; subst e; simp at hemp))

theorem recRun_congr {G : Grammar} {A : Automaton} {w : List Nat} (heof : EofNeverShifted G A)
    {r1 r2 : Recoverer} (hag : AgreeAt G A w r1 r2) (fuel : Nat) (c : Pos) (errs : List Err)
    (hc : c.pos ≤ w.length) : recRun G A w r1 fuel c errs = recRun G A w r2 fuel c errs := by
  rw [← C07.recRunF_FUEL, ← C07.recRunF_FUEL]
  exact recRunF_congr heof hag FUEL fuel c errs hc

theorem recCalls_congr {G : Grammar} {A : Automaton} {w : List Nat} (heof : EofNeverShifted G A)
    {r1 r2 : Recoverer} (hag : AgreeAt G A w r1 r2) :
    ∀ (fuel : Nat) (c : Pos), c.pos ≤ w.length →
      recCalls G A w r1 fuel c = recCalls G A w r2 fuel c := by
  intro fuel
  induction fuel with
  | zero => intro c _; rfl
  | succ n ih =>
    intro c hc
    simp only [recCalls]
    cases hf : feed G A (nextTok G w c.pos) FUEL c.stack with
    | shifted s => exact ih _ (shifted_pos_lt' heof hf)
    | accept s => rfl
    | crash => rfl
    | fuelOut => rfl
    | error s =>
      have he := errCfg_of_feed_error hf hc
      simp only []
      rw [hag.agree _ he]
      cases hr : r2 ⟨s, c.pos⟩ with
      | none => rfl
      | some x =>
        obtain ⟨c', rs⟩ := x
        simp only []
        by_cases hemp : rs.isEmpty = true
        · rw [if_pos hemp, if_pos hemp]
        · rw [if_neg hemp, if_neg hemp]
          rw [ih _ (hag.inside _ c' rs he hr (by intro e; subst e; simp at hemp))]

/-- **the errors of a run are the calls of the recoverer**: `recRun` appends, for every configuration
in `recCalls`, the error `errOf` (its position, what the recoverer reported there) -/
theorem recRun_eq_calls (G : Grammar) (A : Automaton) (w : List Nat) (recover : Recoverer) :
    ∀ (fuel : Nat) (c : Pos) (errs : List Err),
      (recRun G A w recover fuel c errs).2 = errs ++ (recCalls G A w recover fuel c).map (errOf recover) := by
  intro fuel
  induction fuel with
  | zero => intro c errs; simp [recRun, recCalls]
  | succ n ih =>
    intro c errs
    simp only [recRun, recCalls]
    cases hf : feed G A (nextTok G w c.pos) FUEL c.stack with
    | shifted s => exact ih _ _
    | accept s => simp
    | crash => simp
    | fuelOut => simp
    | error s =>
      simp only []
      cases hr : recover ⟨s, c.pos⟩ with
      | none => simp [errOf, hr]
      | some x =>
        obtain ⟨c', rs⟩ := x
        simp only []
        by_cases hemp : rs.isEmpty = true
        · rw [if_pos hemp, if_pos hemp]
          have : rs = [] := by simpa using hemp
          subst this
          simp [errOf, hr]
        · rw [if_neg hemp, if_neg hemp, ih]
          simp [errOf, hr]

/-- every configuration at which the driver consults the recoverer is an `errCfg` -/
theorem recCalls_errCfg {G : Grammar} {A : Automaton} {w : List Nat} (heof : EofNeverShifted G A)
    {recover : Recoverer}
    (hin : ∀ c c' rs, errCfg G A w c = true → recover c = some (c', rs) → rs ≠ [] → c'.pos ≤ w.length) :
    ∀ (fuel : Nat) (c : Pos), c.pos ≤ w.length → ∀ x ∈ recCalls G A w recover fuel c, errCfg G A w x = true := by
  intro fuel
  induction fuel with
  | zero => intro c _ x hx; simp [recCalls] at hx
  | succ n ih =>
    intro c hc x hx
    simp only [recCalls] at hx
    cases hf : feed G A (nextTok G w c.pos) FUEL c.stack with
    | shifted s => rw [hf] at hx; exact ih ⟨s, c.pos + 1⟩ (shifted_pos_lt' heof hf) x hx
    | accept s => rw [hf] at hx; cases hx
    | crash => rw [hf] at hx; cases hx
    | fuelOut => rw [hf] at hx; cases hx
    | error s =>
      rw [hf] at hx
      have he := errCfg_of_feed_error hf hc
      simp only [List.mem_cons] at hx
      rcases hx with rfl | hx
      · exact he
      · cases hr : recover ⟨s, c.pos⟩ with
        | none => rw [hr] at hx; cases hx
        | some y =>
          obtain ⟨c', rs⟩ := y
          rw [hr] at hx
          simp only [] at hx
          by_cases hemp : rs.isEmpty = true
          · rw [if_pos hemp] at hx; cases hx
          · rw [if_neg hemp] at hx
            exact ih _ (hin _ c' rs he hr (by intro e; subst e; simp at hemp)) x hx

/-! ### the restricted recoverer satisfies the hypotheses of C05 and C07 at every configuration -/

section
variable {E : Env} {hs : List Seq → List Seq} {avoid : Nat → Bool} {lexStart : Nat → Nat} {win fuel : Nat}

theorem cpctAt_some {c c' : Pos} {rs : List (List Repair)}
    (h : cpctRecoverAt E hs avoid lexStart win fuel c = some (c', rs)) :
    errCfg E.G E.A E.w c = true ∧ cpctRecover E hs avoid lexStart win fuel c = some (c', rs) := by
  unfold cpctRecoverAt at h
  by_cases he : errCfg E.G E.A E.w c = true
  · rw [if_pos he] at h; exact ⟨he, h⟩
  · rw [if_neg he] at h; cases h

theorem cpctAt_of_errCfg {c : Pos} (h : errCfg E.G E.A E.w c = true) :
    cpctRecoverAt E hs avoid lexStart win fuel c = cpctRecover E hs avoid lexStart win fuel c := by
  simp only [cpctRecoverAt, h, ↓reduceIte]

theorem cpctAt_firstApplies (T : TableOK E) (hhs : HashSetLike hs) :
    C05.FirstApplies E.G E.A E.w (cpctRecoverAt E hs avoid lexStart win fuel) := by
  intro c c' s0 rest h
  obtain ⟨he, h⟩ := cpctAt_some h
  obtain ⟨⟨s0', rest', heq, happ⟩, _⟩ := cpct_report T hhs he h
  simp only [List.cons.injEq] at heq
  rw [heq.1]; exact happ

/-- every reported sequence — not only the first — satisfies `validSeq` -/
theorem cpctAt_allValid (T : TableOK E) (hhs : HashSetLike hs) {c c' : Pos} {rs : List (List Repair)}
    (h : cpctRecoverAt E hs avoid lexStart win fuel c = some (c', rs)) :
    ∀ r ∈ rs, validSeq E.G E.A E.w E.N c r = true := by
  obtain ⟨he, h⟩ := cpctAt_some h
  obtain ⟨_, k, _, hall⟩ := cpct_report T hhs he h
  exact fun r hr => (hall r hr).1

theorem cpctAt_firstValid (T : TableOK E) (hhs : HashSetLike hs) :
    C05.FirstValid E.G E.A E.w E.N (cpctRecoverAt E hs avoid lexStart win fuel) := by
  intro c c' s0 rest h
  exact cpctAt_allValid T hhs h s0 (by simp)

theorem cpctAt_continuesFromValid (T : TableOK E) (hhs : HashSetLike hs) :
    C07.ContinuesFromValid E.G E.A E.w E.N (cpctRecoverAt E hs avoid lexStart win fuel) := by
  intro c c' rs h _
  obtain ⟨he, h⟩ := cpctAt_some h
  obtain ⟨⟨s0, rest, heq, happ⟩, k, _, hall⟩ := cpct_report T hhs he h
  subst heq
  obtain ⟨hv, hins, _⟩ := hall s0 (by simp)
  exact ⟨s0, fun t ht => (hins t ht).1, hv, happ⟩

/-- the two recoverers agree where the driver calls them, and parsing continues within the input -/
theorem cpct_agreeAt (T : TableOK E) (hhs : HashSetLike hs) :
    AgreeAt E.G E.A E.w (cpctRecover E hs avoid lexStart win fuel) (cpctRecoverAt E hs avoid lexStart win fuel) := by
  refine ⟨fun c hc => (cpctAt_of_errCfg hc).symm, ?_⟩
  intro c c' rs hc h _
  rw [cpctAt_of_errCfg hc] at h
  obtain ⟨⟨s0, rest, _, happ⟩, _⟩ := cpct_report T hhs hc h
  have hpos : c.pos ≤ E.w.length := by
    simp only [errCfg, Bool.and_eq_true, decide_eq_true_eq] at hc
    exact hc.1
  exact applySeq_pos_le s0 c c' hpos happ

/-- **the restriction is invisible**: on a table satisfying `TableOK`, from every start within the
input, the recovering driver does exactly the same with `cpctRecover` as with `cpctRecoverAt` -/
theorem recRun_cpct_guard (T : TableOK E) (hhs : HashSetLike hs) (n : Nat) (c : Pos) (errs : List Err)
    (hc : c.pos ≤ E.w.length) :
    recRun E.G E.A E.w (cpctRecover E hs avoid lexStart win fuel) n c errs =
      recRun E.G E.A E.w (cpctRecoverAt E hs avoid lexStart win fuel) n c errs :=
  recRun_congr T.eof (cpct_agreeAt T hhs) n c errs hc

theorem recRunO_cpct_guard (T : TableOK E) (hhs : HashSetLike hs) (ff n : Nat) (c : Pos) (errs : List Err)
    (hc : c.pos ≤ E.w.length) :
    recRunO E.G E.A E.w (cpctRecover E hs avoid lexStart win fuel) ff n c errs =
      recRunO E.G E.A E.w (cpctRecoverAt E hs avoid lexStart win fuel) ff n c errs :=
  recRunO_congr T.eof (cpct_agreeAt T hhs) ff n c errs hc

theorem recCalls_cpct_errCfg (T : TableOK E) (hhs : HashSetLike hs) (n : Nat) (c : Pos)
    (hc : c.pos ≤ E.w.length) :
    ∀ x ∈ recCalls E.G E.A E.w (cpctRecover E hs avoid lexStart win fuel) n c, errCfg E.G E.A E.w x = true := by
  refine recCalls_errCfg T.eof ?_ n c hc
  intro c c' rs he h hne
  have := (cpct_agreeAt (avoid := avoid) (lexStart := lexStart) (win := win) (fuel := fuel) T hhs).inside c c' rs he
  rw [cpctAt_of_errCfg he] at this
  exact this h hne

end

/-! ### the edited input of a run with the modelled recoverer consists of real tokens -/

/-- an item of the edited input that denotes a token of the grammar other than end-of-input: a real
lexeme of the input, or an inserted token of that kind -/
def ItemOk (G : Grammar) (w : List Nat) : EItem → Prop
  | .real i => i < w.length
  | .ins t _ => t < G.ntoks ∧ t ≠ G.eof

/-- the first sequence of a reported error applies at the error's position (from some stack) and
inserts only tokens of the grammar other than end-of-input — or there is no sequence -/
def GoodErr (G : Grammar) (A : Automaton) (w : List Nat) (e : Err) : Prop :=
  e.pos ≤ w.length ∧
  (e.repairs = [] ∨ ∃ st c', applySeq G A w ⟨st, e.pos⟩ (C05.firstSeq e) = some c' ∧
    ∀ t, Repair.insert t ∈ C05.firstSeq e → t < G.ntoks ∧ t ≠ G.eof)

theorem editSeq_items_ok {G : Grammar} {A : Automaton} {w : List Nat} :
    ∀ (rs : List Repair) (c c' : Pos), applySeq G A w c rs = some c' →
      (∀ t, Repair.insert t ∈ rs → t < G.ntoks ∧ t ≠ G.eof) →
      ∀ it ∈ (editSeq c.pos rs).1, ItemOk G w it := by
  intro rs
  induction rs with
  | nil => intro c c' _ _ it hit; simp [editSeq] at hit
  | cons r rs ih =>
    intro c c' h hins it hit
    simp only [applySeq] at h
    cases ha : applyRepair G A w c r with
    | none => rw [ha] at h; cases h
    | some c1 =>
      rw [ha] at h
      simp only at h
      have hins' : ∀ t, Repair.insert t ∈ rs → t < G.ntoks ∧ t ≠ G.eof :=
        fun t ht => hins t (List.mem_cons_of_mem _ ht)
      cases r with
      | insert t =>
        have hp : c1.pos = c.pos := by
          simp only [applyRepair] at ha
          cases hf : feed G A t FUEL c.stack with
          | shifted s => rw [hf] at ha; injection ha with ha; subst ha; rfl
          | accept s => rw [hf] at ha; cases ha
          | error s => rw [hf] at ha; cases ha
          | crash => rw [hf] at ha; cases ha
          | fuelOut => rw [hf] at ha; cases ha
        simp only [editSeq, List.mem_cons] at hit
        rcases hit with rfl | hit
        · exact hins t (by simp)
        · rw [← hp] at hit; exact ih c1 c' h hins' it hit
      | delete =>
        have hp : c1.pos = c.pos + 1 := by
          simp only [applyRepair] at ha
          split at ha
          · injection ha with ha; subst ha; rfl
          · cases ha
        simp only [editSeq] at hit
        rw [← hp] at hit; exact ih c1 c' h hins' it hit
      | shift =>
        obtain ⟨hlt, s, _, rfl⟩ := applyRepair_shift_inv ha
        simp only [editSeq, List.mem_cons] at hit
        rcases hit with rfl | hit
        · exact hlt
        · exact ih _ c' h hins' it hit

theorem reals_ok {G : Grammar} {w : List Nat} {a b : Nat} (hb : b ≤ w.length) :
    ∀ it ∈ C05.reals a b, ItemOk G w it := by
  intro it hit
  simp only [C05.reals, List.mem_map, List.mem_range'_1] at hit
  obtain ⟨i, ⟨h1, h2⟩, rfl⟩ := hit
  show i < w.length
  omega

theorem editedItems_ok {G : Grammar} {A : Automaton} {w : List Nat} :
    ∀ (errs : List Err) (pos : Nat), (∀ e ∈ errs, GoodErr G A w e) →
      ∀ it ∈ C05.editedItems w.length pos errs, ItemOk G w it := by
  intro errs
  induction errs with
  | nil => intro pos _ it hit; exact reals_ok (Nat.le_refl _) it hit
  | cons e es ih =>
    intro pos hg it hit
    simp only [C05.editedItems, List.mem_append] at hit
    obtain ⟨hpos, hfirst⟩ := hg e (by simp)
    rcases hit with hit | hit | hit
    · exact reals_ok hpos it hit
    · rcases hfirst with he | ⟨st, c', happ, hins⟩
      · simp [C05.firstSeq, he, editSeq] at hit
      · exact editSeq_items_ok _ ⟨st, e.pos⟩ c' happ hins it hit
    · exact ih _ (fun e' he' => hg e' (List.mem_cons_of_mem _ he')) it hit

/-- the edited input of a list of good errors consists of tokens of the grammar other than
end-of-input, when the input does -/
theorem inputOk_editedToks {G : Grammar} {A : Automaton} {w : List Nat} (hw : Cert.InputOk G w)
    (errs : List Err) (pos : Nat) (hg : ∀ e ∈ errs, GoodErr G A w e) :
    Cert.InputOk G (C05.editedToks w w.length pos errs) := by
  intro t ht
  simp only [C05.editedToks, List.mem_map] at ht
  obtain ⟨it, hit, rfl⟩ := ht
  have hok := editedItems_ok errs pos hg it hit
  cases it with
  | real i =>
    have hi : i < w.length := hok
    simp only [C05.itemTok]
    have : w.getD i 0 = w[i] := by simp [List.getD, hi]
    rw [this]
    exact hw _ (List.getElem_mem hi)
  | ins t b => exact hok

/-- every error of a run with the modelled recoverer is good -/
theorem cpct_run_goodErrs {E : Env} {hs : List Seq → List Seq} {avoid : Nat → Bool} {lexStart : Nat → Nat}
    {win fuel : Nat} (T : TableOK E) (hhs : HashSetLike hs) (n : Nat) (c : Pos) (hc : c.pos ≤ E.w.length) :
    ∀ e ∈ (recCalls E.G E.A E.w (cpctRecover E hs avoid lexStart win fuel) n c).map
        (errOf (cpctRecover E hs avoid lexStart win fuel)), GoodErr E.G E.A E.w e := by
  intro e he
  obtain ⟨x, hx, rfl⟩ := List.mem_map.mp he
  have hex := recCalls_cpct_errCfg T hhs n c hc x hx
  have hpos : x.pos ≤ E.w.length := by
    simp only [errCfg, Bool.and_eq_true, decide_eq_true_eq] at hex
    exact hex.1
  refine ⟨hpos, ?_⟩
  cases hr : cpctRecover E hs avoid lexStart win fuel x with
  | none => left; simp [errOf, hr]
  | some y =>
    obtain ⟨c', rs⟩ := y
    obtain ⟨⟨s0, rest, heq, happ⟩, k, _, hall⟩ := cpct_report T hhs hex hr
    subst heq
    right
    refine ⟨x.stack, c', ?_, ?_⟩
    · simpa [errOf, hr, C05.firstSeq] using happ
    · intro t ht
      have : Repair.insert t ∈ s0 := by simpa [errOf, hr, C05.firstSeq] using ht
      exact (hall s0 (by simp)).2.1 t this

/-- `TableOK` from the certificate of C01/C05 (which makes end-of-input never shifted), the decidable
exactness of `state_actions`, costs ≥ 1 and `PARSE_AT_LEAST ≥ 1` -/
theorem tableOK_of_cert {E : Env} (hc : Cert.check E.G E.A = true)
    (hsa : stateActionsExactB E.G E.A = true) (hcost : ∀ t, 1 ≤ E.cost t) (hN : 1 ≤ E.N) : TableOK E := by
  have P := Cert.check_props E.G E.A hc
  refine ⟨hcost, ?_, stateActionsOK_of_check hsa, hN⟩
  intro st s' ha
  have hst : st < E.A.nstates := C05.action_state_lt (by rw [ha]; simp)
  exact Cert.no_eof_edge P hst (P.actShift st E.G.eof s' hst (Spec.wf_eof P.wf) ha)

end GrmVerif.Cpct
