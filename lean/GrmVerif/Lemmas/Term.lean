import GrmVerif.Model.Term
/-! Termination of `Rec.feed` from the local certificate. -/
namespace GrmVerif.Term
open GrmVerif Rec

theorem feed_fuel_mono (G : Grammar) (A : Automaton) (la : Nat) :
    ∀ (fuel : Nat) (stack : List Nat), feed G A la fuel stack ≠ .fuelOut →
      ∀ f, feed G A la (fuel + f) stack = feed G A la fuel stack := by
  intro fuel
  induction fuel with
  | zero => intro stack h; simp [feed] at h
  | succ n ih =>
    intro stack h f
    have e : n + 1 + f = (n + f) + 1 := by omega
    rw [e]
    cases stack with
    | nil => simp [feed]
    | cons st tl =>
      cases hact : A.action st la with
      | shift s' => simp [feed, hact]
      | accept => simp [feed, hact]
      | error => simp [feed, hact]
      | reduce p =>
        simp only [feed, hact] at h ⊢
        by_cases hle : (st :: tl).length ≤ (G.rhs p).length
        · rw [if_pos hle, if_pos hle]
        · rw [if_neg hle] at h
          rw [if_neg hle, if_neg hle]
          cases hd : List.drop (G.rhs p).length (st :: tl) with
          | nil => simp
          | cons prior rest =>
            rw [hd] at h
            simp only at h ⊢
            cases hg : A.goto prior (G.lhs p) with
            | none => simp
            | some s1 =>
              rw [hg] at h
              simp only at h ⊢
              exact ih _ h f

/-- the stack predicate `Q` is kept by every reduction the table prescribes under `la` -/
def StepClosed (G : Grammar) (A : Automaton) (la : Nat) (Q : List Nat → Prop) : Prop :=
  ∀ st tl p prior rest s', Q (st :: tl) → A.action st la = .reduce p →
    List.drop (G.rhs p).length (st :: tl) = prior :: rest → A.goto prior (G.lhs p) = some s' →
    Q (s' :: prior :: rest)

/-- **Locality.** A local run that does not run out of fuel either shows that the real run on the
whole stack ends, or hands over to a real stack that is not longer than the unknown part plus one.
`Q` is any property of stacks that reductions keep (states in range; being a path of the automaton). -/
theorem sim (G : Grammar) (A : Automaton) (la : Nat) (Q : List Nat → Prop) (hQ : StepClosed G A la Q) :
    ∀ (fuel : Nat) (xs ys : List Nat), Q (xs ++ ys) → localRun G A la fuel xs ≠ .fuelOut →
      (∀ f, feed G A la (fuel + f) (xs ++ ys) ≠ .fuelOut) ∨
      (∃ m stack', stack'.length ≤ ys.length + 1 ∧ (xs = [] ∨ ys ≠ []) ∧ Q stack' ∧
        ∀ f, feed G A la (fuel + f) (xs ++ ys) = feed G A la (m + f) stack') := by
  intro fuel
  induction fuel with
  | zero => intro xs ys _ h; simp [localRun] at h
  | succ n ih =>
    intro xs ys hr h
    cases xs with
    | nil =>
      exact Or.inr ⟨n + 1, ys, by omega, Or.inl rfl, by simpa using hr, fun f => rfl⟩
    | cons st tl =>
      have e : ∀ f, n + 1 + f = (n + f) + 1 := by intro f; omega
      simp only [localRun] at h
      cases hact : A.action st la with
      | shift s' => left; intro f; rw [e]; simp [feed, hact]
      | accept => left; intro f; rw [e]; simp [feed, hact]
      | error => left; intro f; rw [e]; simp [feed, hact]
      | reduce p =>
        rw [hact] at h
        simp only at h
        by_cases hle : (st :: tl).length ≤ (G.rhs p).length
        · -- the local run gives up: the reduction pops all that is known
          by_cases hle2 : (st :: tl ++ ys).length ≤ (G.rhs p).length
          · left; intro f; rw [e]
            simp only [List.cons_append] at hle2
            simp only [feed, List.cons_append, hact]
            rw [if_pos hle2]; simp
          · have hdrop : List.drop (G.rhs p).length (st :: tl ++ ys) =
                List.drop ((G.rhs p).length - (st :: tl).length) ys := by
              rw [List.drop_append, List.drop_eq_nil_of_le hle, List.nil_append]
            cases hd : List.drop ((G.rhs p).length - (st :: tl).length) ys with
            | nil =>
              left; intro f; rw [e]
              simp only [List.cons_append] at hle2 hdrop
              simp only [feed, List.cons_append, hact]
              rw [if_neg hle2, hdrop, hd]; simp
            | cons prior rest =>
              cases hg : A.goto prior (G.lhs p) with
              | none =>
                left; intro f; rw [e]
                simp only [List.cons_append] at hle2 hdrop
                simp only [feed, List.cons_append, hact]
                rw [if_neg hle2, hdrop, hd]; simp [hg]
              | some s1 =>
                right
                refine ⟨n, s1 :: prior :: rest, ?_, ?_, ?_, ?_⟩
                · have : (prior :: rest).length ≤ ys.length := by
                    rw [← hd]; simp [List.length_drop]
                  simp only [List.length_cons] at this ⊢
                  omega
                · right
                  intro hys; rw [hys] at hd; simp at hd
                · rw [hd] at hdrop
                  exact hQ st (tl ++ ys) p prior rest s1 hr hact hdrop hg
                · intro f; rw [e]
                  simp only [List.cons_append] at hle2 hdrop
                  simp only [feed, List.cons_append, hact]
                  rw [if_neg hle2, hdrop, hd]; simp [hg]
        · rw [if_neg hle] at h
          have hlt : (G.rhs p).length < (st :: tl).length := by omega
          have hdrop : List.drop (G.rhs p).length (st :: tl ++ ys) =
              List.drop (G.rhs p).length (st :: tl) ++ ys := by
            rw [List.drop_append]
            have : (G.rhs p).length - (st :: tl).length = 0 := by omega
            rw [this, List.drop_zero]
          have hle2 : ¬ (st :: tl ++ ys).length ≤ (G.rhs p).length := by
            simp only [List.length_append]; omega
          cases hd : List.drop (G.rhs p).length (st :: tl) with
          | nil =>
            exfalso
            have : (List.drop (G.rhs p).length (st :: tl)).length = 0 := by rw [hd]; rfl
            rw [List.length_drop] at this; omega
          | cons prior rest =>
            rw [hd] at h hdrop
            simp only at h
            cases hg : A.goto prior (G.lhs p) with
            | none =>
              left; intro f; rw [e]
              simp only [List.cons_append] at hle2 hdrop
              simp only [feed, List.cons_append, hact]
              rw [if_neg hle2, hdrop]; simp [hg]
            | some s1 =>
              rw [hg] at h
              simp only at h
              have hstep : ∀ f, feed G A la (n + 1 + f) (st :: tl ++ ys) =
                  feed G A la (n + f) ((s1 :: prior :: rest) ++ ys) := by
                intro f; rw [e]
                simp only [List.cons_append] at hle2 hdrop
                simp only [feed, List.cons_append, hact]
                rw [if_neg hle2, hdrop]; simp [hg]
              have hr' : Q ((s1 :: prior :: rest) ++ ys) :=
                hQ st (tl ++ ys) p prior (rest ++ ys) s1 hr hact hdrop hg
              rcases ih (s1 :: prior :: rest) ys hr' h with hl | ⟨m, stack', h1, h2, h4, h3⟩
              · left; intro f; rw [hstep]; exact hl f
              · right
                refine ⟨m, stack', h1, ?_, h4, ?_⟩
                · rcases h2 with h2 | h2
                  · cases h2
                  · exact Or.inr h2
                · intro f; rw [hstep]; exact h3 f

/-- **`feed` terminates** on every stack with the property `Q` (kept by reductions) when the local
runs from the one-element stacks with `Q` and from the top two states of the longer stacks with `Q`
end within `N` steps. -/
theorem feed_total_of (G : Grammar) (A : Automaton) (la N : Nat) (Q : List Nat → Prop)
    (hQ : StepClosed G A la Q)
    (H1 : ∀ s, Q [s] → localRun G A la N [s] ≠ .fuelOut)
    (H2 : ∀ s b rest, Q (s :: b :: rest) → localRun G A la N [s, b] ≠ .fuelOut) :
    ∀ (L : Nat) (stack : List Nat), stack.length ≤ L → Q stack →
      ∃ fuel, feed G A la fuel stack ≠ .fuelOut := by
  intro L
  induction L with
  | zero =>
    intro stack h _
    have : stack = [] := by cases stack with | nil => rfl | cons _ _ => simp at h
    subst this; exact ⟨1, by simp [feed]⟩
  | succ L ih =>
    intro stack h hr
    cases stack with
    | nil => exact ⟨1, by simp [feed]⟩
    | cons s tl =>
      cases tl with
      | nil =>
        rcases sim G A la Q hQ N [s] [] (by simpa using hr) (H1 s hr) with hl | ⟨m, stack', _, h2, _, _⟩
        · exact ⟨N, by simpa using hl 0⟩
        · rcases h2 with h2 | h2
          · cases h2
          · exact absurd rfl h2
      | cons b rest =>
        rcases sim G A la Q hQ N [s, b] rest (by simpa using hr) (H2 s b rest hr) with
          hl | ⟨m, stack', h1, _, h4, h3⟩
        · exact ⟨N, by simpa using hl 0⟩
        · have hlen : stack'.length ≤ L := by
            simp only [List.length_cons] at h; omega
          obtain ⟨fuel', hf⟩ := ih stack' hlen h4
          refine ⟨N + fuel', ?_⟩
          have := h3 fuel'
          simp only [List.cons_append, List.nil_append] at this
          rw [this]
          have hm := feed_fuel_mono G A la fuel' stack' hf m
          rw [Nat.add_comm m fuel', hm]
          exact hf

/-- the states a reduction pushes stay below `ns` (true of every certified automaton) -/
def GotoInRange (G : Grammar) (A : Automaton) (la ns : Nat) : Prop :=
  ∀ s p prior s', s < ns → A.action s la = .reduce p → prior < ns → A.goto prior (G.lhs p) = some s' → s' < ns

theorem stepClosed_inRange {G : Grammar} {A : Automaton} {la ns : Nat} (hred : GotoInRange G A la ns) :
    StepClosed G A la (fun stack => ∀ x ∈ stack, x < ns) := by
  intro st tl p prior rest s' hr hact hd hg
  have hsub : ∀ x ∈ prior :: rest, x < ns := by
    intro x hx
    exact hr x (List.mem_of_mem_drop (by rw [hd]; exact hx))
  intro x hx
  rcases List.mem_cons.mp hx with rfl | hx
  · exact hred st p prior _ (hr st (by simp)) hact (hsub prior (by simp)) hg
  · exact hsub x hx

/-- all-pairs version: `feed` terminates on every stack of in-range states when every local run from
one or two in-range states ends within `N` steps. -/
theorem feed_total (G : Grammar) (A : Automaton) (la N ns : Nat) (hred : GotoInRange G A la ns)
    (H1 : ∀ s, s < ns → localRun G A la N [s] ≠ .fuelOut)
    (H2 : ∀ s b, s < ns → b < ns → localRun G A la N [s, b] ≠ .fuelOut) :
    ∀ (L : Nat) (stack : List Nat), stack.length ≤ L → (∀ x ∈ stack, x < ns) →
      ∃ fuel, feed G A la fuel stack ≠ .fuelOut :=
  feed_total_of G A la N _ (stepClosed_inRange hred)
    (fun s hs => H1 s (hs s (by simp)))
    (fun s b _ hs => H2 s b (hs s (by simp)) (hs b (by simp)))

end GrmVerif.Term
