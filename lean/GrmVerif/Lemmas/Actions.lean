import GrmVerif.Model.ActionsSpec
import GrmVerif.Lemmas.LRSound
/-! The action log of the model is the specification's call list of the trees on the stack. -/
namespace GrmVerif.Act
open GrmVerif LR Cert

/-! ### spans as options, and how they combine -/

/-- the (first start, last end) of an entry, `none` if it derived no lexeme -/
def eo (e : SpanE) : Option (Nat × Nat) := if e.empty then none else some (e.start, e.stop)

def combine : Option (Nat × Nat) → Option (Nat × Nat) → Option (Nat × Nat)
  | none, x => x
  | x, none => x
  | some (a, _), some (_, d) => some (a, d)

theorem find_none_iff_reverse (es : List SpanE) (p : SpanE → Bool) :
    es.find? p = none ↔ es.reverse.find? p = none := by
  simp [List.find?_eq_none]

theorem firstLast_cons (e : SpanE) (es : List SpanE) : firstLast (e :: es) = combine (eo e) (firstLast es) := by
  unfold firstLast eo
  simp only [List.reverse_cons, List.find?_append, List.find?_cons, List.find?_nil]
  cases he : e.empty with
  | true =>
    simp only [Bool.not_true, Bool.false_eq_true, ↓reduceIte, Option.or_none]
    cases h1 : es.find? (fun e => !e.empty) <;> cases h2 : es.reverse.find? (fun e => !e.empty) <;> simp [combine]
  | false =>
    simp only [Bool.not_false, ↓reduceIte]
    cases h2 : es.reverse.find? (fun e => !e.empty) with
    | none =>
      have h1 := (find_none_iff_reverse es _).mpr h2
      simp [h1, combine]
    | some l =>
      cases h1 : es.find? (fun e => !e.empty) with
      | none => have := (find_none_iff_reverse es _).mp h1; rw [h2] at this; cases this
      | some f => simp [combine]

theorem firstLast_nil : firstLast [] = none := rfl

/-- span option of a list of lexeme spans -/
def spanOfList : List (Nat × Nat) → Option (Nat × Nat)
  | [] => none
  | f :: rest => some (f.1, ((f :: rest).getLast?.getD f).2)

theorem spanOfList_append (a b : List (Nat × Nat)) :
    spanOfList (a ++ b) = combine (spanOfList a) (spanOfList b) := by
  cases a with
  | nil => cases b <;> simp [spanOfList, combine]
  | cons x xs =>
    cases b with
    | nil => simp [spanOfList, combine]
    | cons y ys =>
      simp only [spanOfList, List.cons_append, combine]
      have h1 : (x :: (xs ++ y :: ys)) = (x :: xs) ++ (y :: ys) := by simp
      rw [h1, List.getLast?_append]
      cases h : (y :: ys).getLast? with
      | none => simp at h
      | some v => simp

theorem spanSpec_eq (lexSpan : Nat → Nat × Nat) (t : Tree) : spanSpec lexSpan t = spanOfList (leafSpans lexSpan t) := by
  unfold spanSpec spanOfList
  cases leafSpans lexSpan t <;> rfl

/-- the span option of the concatenated leaves of a list of trees -/
def spanOfTrees (lexSpan : Nat → Nat × Nat) (ts : List Tree) : Option (Nat × Nat) :=
  spanOfList ((Tree.leafIdxsList ts).map lexSpan)

theorem spanOfTrees_cons (lexSpan : Nat → Nat × Nat) (k : Tree) (ks : List Tree) :
    spanOfTrees lexSpan (k :: ks) = combine (spanSpec lexSpan k) (spanOfTrees lexSpan ks) := by
  simp [spanOfTrees, Tree.leafIdxsList, List.map_append, spanOfList_append, spanSpec_eq, leafSpans]

theorem spanSpec_node (lexSpan : Nat → Nat × Nat) (p : Nat) (kids : List Tree) :
    spanSpec lexSpan (.node p kids) = spanOfTrees lexSpan kids := by
  simp [spanSpec_eq, spanOfTrees, leafSpans, Tree.leafIdxs]

/-- stack entries describe the trees they belong to (both lists in the same order) -/
def EntriesFor (lexSpan : Nat → Nat × Nat) : List SpanE → List Tree → Prop
  | [], [] => True
  | e :: es, t :: ts => eo e = spanSpec lexSpan t ∧ (e.empty = true → e.start = e.stop) ∧ EntriesFor lexSpan es ts
  | _, _ => False

theorem entriesFor_length {lexSpan : Nat → Nat × Nat} : ∀ {es : List SpanE} {ts : List Tree},
    EntriesFor lexSpan es ts → es.length = ts.length
  | [], [], _ => rfl
  | _ :: es, _ :: ts, h => by simp [entriesFor_length h.2.2]
  | [], _ :: _, h => by cases h
  | _ :: _, [], h => by cases h

theorem entriesFor_take_drop {lexSpan : Nat → Nat × Nat} : ∀ (n : Nat) {es : List SpanE} {ts : List Tree},
    EntriesFor lexSpan es ts → EntriesFor lexSpan (es.take n) (ts.take n) ∧ EntriesFor lexSpan (es.drop n) (ts.drop n)
  | 0, _, _, h => by simpa [EntriesFor] using h
  | n + 1, [], [], _ => by simp [EntriesFor]
  | n + 1, e :: es, t :: ts, h => by
    obtain ⟨h1, h2, h3⟩ := h
    obtain ⟨i1, i2⟩ := entriesFor_take_drop n h3
    exact ⟨⟨h1, h2, i1⟩, by simpa using i2⟩
  | _ + 1, [], _ :: _, h => by cases h
  | _ + 1, _ :: _, [], h => by cases h

/-- first/last over the entries of some trees (same order) is the span option of those trees -/
theorem firstLast_entries {lexSpan : Nat → Nat × Nat} : ∀ {es : List SpanE} {ts : List Tree},
    EntriesFor lexSpan es ts → firstLast es = spanOfTrees lexSpan ts
  | [], [], _ => by simp [firstLast_nil, spanOfTrees, Tree.leafIdxsList, spanOfList]
  | e :: es, t :: ts, h => by
    rw [firstLast_cons, spanOfTrees_cons, h.1, firstLast_entries h.2.2]
  | [], _ :: _, h => by cases h
  | _ :: _, [], h => by cases h

/-- reversing both lists keeps the correspondence -/
theorem entriesFor_append {lexSpan : Nat → Nat × Nat} : ∀ {es1 : List SpanE} {ts1 : List Tree} {es2 : List SpanE} {ts2 : List Tree},
    EntriesFor lexSpan es1 ts1 → EntriesFor lexSpan es2 ts2 → EntriesFor lexSpan (es1 ++ es2) (ts1 ++ ts2)
  | [], [], _, _, _, h2 => by simpa using h2
  | e :: es, t :: ts, _, _, h1, h2 => ⟨h1.1, h1.2.1, entriesFor_append h1.2.2 h2⟩
  | [], _ :: _, _, _, h, _ => by cases h
  | _ :: _, [], _, _, h, _ => by cases h

theorem entriesFor_reverse {lexSpan : Nat → Nat × Nat} : ∀ {es : List SpanE} {ts : List Tree},
    EntriesFor lexSpan es ts → EntriesFor lexSpan es.reverse ts.reverse
  | [], [], _ => by simp [EntriesFor]
  | e :: es, t :: ts, h => by
    simp only [List.reverse_cons]
    exact entriesFor_append (entriesFor_reverse h.2.2) ⟨h.1, h.2.1, trivial⟩
  | [], _ :: _, h => by cases h
  | _ :: _, [], h => by cases h

/-! ### the log -/

mutual
theorem treeEq_refl : ∀ t : Tree, treeEq t t = true
  | .leaf t i => by simp [treeEq]
  | .node p ks => by simp [treeEq, treeEqList_refl ks]
theorem treeEqList_refl : ∀ ts : List Tree, treeEqList ts ts = true
  | [] => rfl
  | t :: ts => by simp [treeEqList, treeEq_refl t, treeEqList_refl ts]
end

theorem argsEq_refl : ∀ as : List Arg, argsEq as as = true
  | [] => rfl
  | a :: as => by
    cases a with
    | lexeme t i => simp [argsEq, argEq, argsEq_refl as]
    | value t => simp [argsEq, argEq, treeEq_refl t, argsEq_refl as]

theorem specCallsList_append (G : Grammar) (lexSpan : Nat → Nat × Nat) (a b : List Tree) :
    specCallsList G lexSpan (a ++ b) = specCallsList G lexSpan a ++ specCallsList G lexSpan b := by
  induction a with
  | nil => simp [specCallsList]
  | cons k ks ih => simp [specCallsList, ih, List.append_assoc]

theorem logOk_snoc (l : List Call) (s : List SCall) (c : Call) (sc : SCall) :
    logOk (l ++ [c]) (s ++ [sc]) = (logOk l s && callOk c sc) := by
  induction l generalizing s with
  | nil =>
    cases s with
    | nil => simp [logOk]
    | cons x xs => cases xs <;> simp [logOk]
  | cons y ys ih =>
    cases s with
    | nil => cases ys <;> simp [logOk]
    | cons x xs => simp [logOk, ih, Bool.and_assoc]

end GrmVerif.Act
