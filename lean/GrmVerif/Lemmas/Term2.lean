import GrmVerif.Lemmas.Term
import GrmVerif.Lemmas.LRError
/-! From termination of `feed` to termination of the LR driver. -/
namespace GrmVerif.Term
open GrmVerif Rec LR Cert Spec

/-- `feed` under the lookahead of a configuration is a run of the full driver: it either ends the
parse or moves on to the next lexeme -/
theorem feed_lr (G : Grammar) (A : Automaton) (w : List Nat) :
    ∀ (fuel : Nat) (stack : List Nat) (astack : List Tree) (laidx : Nat),
      feed G A (nextTok G w laidx) fuel stack ≠ .fuelOut →
      (∃ c', Steps G A w ⟨stack, astack, laidx⟩ c' ∧ c'.laidx = laidx + 1) ∨
      (∃ c' o, Steps G A w ⟨stack, astack, laidx⟩ c' ∧ LR.step G A w c' = .done o) := by
  intro fuel
  induction fuel with
  | zero => intro stack astack laidx h; simp [feed] at h
  | succ f ih =>
    intro stack astack laidx h
    cases stack with
    | nil => exact Or.inr ⟨_, .crash 4, .refl _, by simp [LR.step]⟩
    | cons st rest =>
      cases hact : A.action st (nextTok G w laidx) with
      | shift s1 =>
        exact Or.inl ⟨⟨s1 :: st :: rest, .leaf (nextTok G w laidx) laidx :: astack, laidx + 1⟩,
          Steps.single (by simp [LR.step, hact]), rfl⟩
      | error => exact Or.inr ⟨_, .error laidx st, .refl _, by simp [LR.step, hact]⟩
      | accept =>
        right
        cases hl : astack.getLast? with
        | none => exact ⟨_, .crash 3, .refl _, by simp [LR.step, hact, hl]⟩
        | some T =>
          cases T with
          | leaf t i => exact ⟨_, .crash 3, .refl _, by simp [LR.step, hact, hl]⟩
          | node p kids => exact ⟨_, .accept (.node p kids), .refl _, by simp [LR.step, hact, hl]⟩
      | reduce p =>
        simp only [feed, hact] at h
        by_cases hle : (st :: rest).length ≤ (G.rhs p).length
        · exact Or.inr ⟨_, .crash 1, .refl _, by simp only [LR.step, hact]; rw [if_pos hle]⟩
        · rw [if_neg hle] at h
          cases hd : List.drop (G.rhs p).length (st :: rest) with
          | nil => exact Or.inr ⟨_, .crash 1, .refl _, by simp only [LR.step, hact]; rw [if_neg hle, hd]⟩
          | cons prior tl =>
            rw [hd] at h
            simp only at h
            cases hg : A.goto prior (G.lhs p) with
            | none =>
              exact Or.inr ⟨_, .crash 2, .refl _, by simp only [LR.step, hact]; rw [if_neg hle, hd]; simp [hg]⟩
            | some s1 =>
              rw [hg] at h
              simp only at h
              have hstep : LR.step G A w ⟨st :: rest, astack, laidx⟩ =
                  .cont ⟨s1 :: prior :: tl, .node p (astack.take (G.rhs p).length).reverse :: astack.drop (G.rhs p).length, laidx⟩ := by
                simp only [LR.step, hact]; rw [if_neg hle, hd]; simp [hg]
              rcases ih (s1 :: prior :: tl) _ laidx h with ⟨c', hs, hl⟩ | ⟨c', o, hs, hd'⟩
              · exact Or.inl ⟨c', .step _ _ _ hstep hs, hl⟩
              · exact Or.inr ⟨c', o, .step _ _ _ hstep hs, hd'⟩

theorem steps_inv {G : Grammar} {A : Automaton} (P : Props G A) {w : List Nat} (hw : InputOk G w)
    {a b : Cfg} (h : Steps G A w a b) (ha : Inv G A w a) : Inv G A w b := by
  induction h with
  | refl _ => exact ha
  | step x y z hs _ ih => exact ih ((step_inv P hw ha).1 y hs)

theorem run_of_steps' {G : Grammar} {A : Automaton} {w : List Nat} {a b : Cfg} (h : Steps G A w a b) :
    ∀ f, ∃ f', run G A w f' a = run G A w f b := by
  induction h with
  | refl c => intro f; exact ⟨f, rfl⟩
  | step x y z hs _ ih =>
    intro f
    obtain ⟨f', hf⟩ := ih f
    exact ⟨f' + 1, by simp [run, hs, hf]⟩

theorem step_done_ne_fuelOut {G : Grammar} {A : Automaton} {w : List Nat} (c : Cfg) :
    LR.step G A w c ≠ .done .fuelOut := by
  obtain ⟨ps, as, la⟩ := c
  cases ps with
  | nil => simp [LR.step]
  | cons st rest =>
    cases hact : A.action st (nextTok G w la) with
    | error => simp [LR.step, hact]
    | shift s' => simp [LR.step, hact]
    | accept => simp only [LR.step, hact]; split <;> simp
    | reduce p =>
      simp only [LR.step, hact]
      split
      · simp
      · split
        · simp
        · split <;> simp

theorem gotoInRange_of_props {G : Grammar} {A : Automaton} (P : Props G A) (la : Nat) (hla : la < G.ntoks) :
    GotoInRange G A la A.nstates := by
  intro s p prior s' hs hact hp hg
  obtain ⟨_, hpn, _⟩ := P.actReduce s la p hs hla hact
  have hr : G.lhs p < G.nrules := wf_lhs P.wf hpn
  rw [P.gotoEdge prior (G.lhs p) hp hr] at hg
  exact (P.edgeTarget prior hp _ (edge_mem hg)).1

theorem termCheck_props {G : Grammar} {A : Automaton} {N : Nat} (h : termCheck G A N = true)
    (la : Nat) (hla : la < G.ntoks) :
    (∀ s, s < A.nstates → localRun G A la N [s] ≠ .fuelOut) ∧
    (∀ s b, s < A.nstates → b < A.nstates → localRun G A la N [s, b] ≠ .fuelOut) := by
  simp only [termCheck, List.all_eq_true, List.mem_range, Bool.and_eq_true, bne_iff_ne, ne_eq] at h
  exact ⟨fun s hs => (h la hla s hs).1, fun s b hs hb => (h la hla s hs).2 b hb⟩

/-- from termination of `feed` on the stacks that are paths to termination of the driver: an input of
`n` lexemes needs at most `n + 1` runs of `feed`, because a certified table never shifts end-of-input -/
theorem run_total_of_feed {G : Grammar} {A : Automaton} (P : Props G A)
    (hfeed : ∀ la, la < G.ntoks → ∀ stack labels, Path A stack labels → ∃ fuel, feed G A la fuel stack ≠ .fuelOut)
    {w : List Nat} (hw : InputOk G w) :
    ∀ (k : Nat) (c : Cfg), Inv G A w c → w.length - c.laidx ≤ k → ∃ fuel, run G A w fuel c ≠ .fuelOut := by
  intro k
  induction k with
  | zero =>
    intro c hinv hk
    obtain ⟨ps, as, la⟩ := c
    have hla : nextTok G w la < G.ntoks := nextTok_lt hw P.wf la
    obtain ⟨fuel, hf⟩ := hfeed _ hla ps _ hinv.path
    rcases feed_lr G A w fuel ps as la hf with ⟨c', hs, hl⟩ | ⟨c', o, hs, hd⟩
    · have hinv' := steps_inv P hw hs hinv
      have := hinv'.inRange
      have := hinv.inRange
      simp only at *
      omega
    · obtain ⟨f', hf'⟩ := run_of_steps' hs 1
      refine ⟨f', ?_⟩
      rw [hf']
      simp only [run, hd]
      intro he; exact step_done_ne_fuelOut c' (by rw [hd, he])
  | succ k ih =>
    intro c hinv hk
    obtain ⟨ps, as, la⟩ := c
    have hla : nextTok G w la < G.ntoks := nextTok_lt hw P.wf la
    obtain ⟨fuel, hf⟩ := hfeed _ hla ps _ hinv.path
    rcases feed_lr G A w fuel ps as la hf with ⟨c', hs, hl⟩ | ⟨c', o, hs, hd⟩
    · have hinv' := steps_inv P hw hs hinv
      have hk' : w.length - c'.laidx ≤ k := by
        have := hinv'.inRange
        simp only at hk hl
        omega
      obtain ⟨f, hf2⟩ := ih c' hinv' hk'
      obtain ⟨f', hf'⟩ := run_of_steps' hs f
      exact ⟨f', by rw [hf']; exact hf2⟩
    · obtain ⟨f', hf'⟩ := run_of_steps' hs 1
      refine ⟨f', ?_⟩
      rw [hf']
      simp only [run, hd]
      intro he; exact step_done_ne_fuelOut c' (by rw [hd, he])

/-- all-pairs version (`termCheck`; subsumed by `run_total_adj` in `TermAdj.lean`) -/
theorem run_total {G : Grammar} {A : Automaton} (P : Props G A) {N : Nat} (ht : termCheck G A N = true)
    {w : List Nat} (hw : InputOk G w) :
    ∀ (k : Nat) (c : Cfg), Inv G A w c → w.length - c.laidx ≤ k → ∃ fuel, run G A w fuel c ≠ .fuelOut := by
  refine run_total_of_feed P ?_ hw
  intro la hla stack labels hp
  obtain ⟨H1, H2⟩ := termCheck_props ht la hla
  exact feed_total G A la N A.nstates (gotoInRange_of_props P la hla) H1 H2 stack.length stack
    (Nat.le_refl _) (hp.states_lt P)

end GrmVerif.Term
