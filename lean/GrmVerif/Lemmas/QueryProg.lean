import GrmVerif.Model.QueryProg
namespace GrmVerif.C14

theorem Prog.run_congr {Q A β : Type} (P : Prog Q A β) (o₁ o₂ : Q → A)
    (h : ∀ q ∈ P.asked o₁, o₁ q = o₂ q) : P.run o₁ = P.run o₂ := by
  induction P with
  | ret b => rfl
  | ask q k ih =>
    have hq : o₁ q = o₂ q := h q (by simp [Prog.asked])
    simp only [Prog.run]
    rw [← hq]
    apply ih
    intro q' hq'
    exact h q' (by simp [Prog.asked, hq'])

/-- agreement of two query records on all in-range indices -/
structure Agree (T₁ T₂ : Queries) (ns nt nr np : Nat) : Prop where
  action : ∀ s t, s < ns → t < nt → T₁.action s t = T₂.action s t
  goto : ∀ s r, s < ns → r < nr → T₁.goto s r = T₂.goto s r
  prodLen : ∀ p, p < np → T₁.prodLen p = T₂.prodLen p
  prodRule : ∀ p, p < np → T₁.prodRule p = T₂.prodRule p
  start : T₁.start = T₂.start
  eof : T₁.eof = T₂.eof

theorem afterReduce_congr {T₁ T₂ : Queries} {ns nt nr np : Nat} (hc : Closed T₁ ns nt nr np)
    (ha : Agree T₁ T₂ ns nt nr np) (p : Nat) (hp : p < np) (stack : List Nat)
    (hs : ∀ s ∈ stack, s < ns) :
    afterReduce T₁ p stack = afterReduce T₂ p stack ∧
      ∀ st', afterReduce T₁ p stack = some st' → ∀ s ∈ st', s < ns := by
  unfold afterReduce
  rw [← ha.prodLen p hp, ← ha.prodRule p hp]
  cases hd : stack.drop (T₁.prodLen p) with
  | nil => simp
  | cons prior below =>
    have hsub : ∀ s ∈ prior :: below, s < ns := by
      intro s hm
      rw [← hd] at hm
      exact hs s (List.mem_of_mem_drop hm)
    have hprior : prior < ns := hsub prior (by simp)
    have hr : T₁.prodRule p < nr := hc.rule p hp
    simp only []
    rw [← ha.goto prior _ hprior hr]
    refine ⟨rfl, ?_⟩
    intro st' h
    cases hg : T₁.goto prior (T₁.prodRule p) with
    | none => simp [hg] at h
    | some s =>
      simp only [hg, Option.some.injEq] at h
      subst h
      intro x hx
      simp only [List.mem_cons] at hx
      rcases hx with rfl | hx
      · exact hc.goto prior _ _ hprior hr hg
      · exact hsub x (by simpa using hx)

theorem lrRun_congr {T₁ T₂ : Queries} {ns nt nr np : Nat} (hc : Closed T₁ ns nt nr np)
    (ha : Agree T₁ T₂ ns nt nr np) :
    ∀ (fuel : Nat) (stack input : List Nat) (pos : Nat) (log : List Nat),
      (∀ s ∈ stack, s < ns) → (∀ t ∈ input, t < nt) →
      lrRun T₁ fuel stack input pos log = lrRun T₂ fuel stack input pos log := by
  intro fuel
  induction fuel with
  | zero => intro stack input pos log _ _; simp [lrRun]
  | succ fuel ih =>
    intro stack input pos log hs hi
    cases stack with
    | nil => simp [lrRun]
    | cons st below =>
      have hst : st < ns := hs st (by simp)
      have hla : input.headD T₁.eof < nt := by
        cases input with
        | nil => simpa using hc.eof
        | cons t _ => simpa using hi t (by simp)
      have hact : T₁.action st (input.headD T₁.eof) = T₂.action st (input.headD T₂.eof) := by
        rw [← ha.eof]; exact ha.action st _ hst hla
      simp only [lrRun]
      rw [← hact]
      by_cases h1 : T₁.action st (input.headD T₁.eof) % 4 = 1
      · simp only [h1, if_true]
        cases input with
        | nil => rfl
        | cons t rest =>
          simp only []
          apply ih
          · intro s hm
            simp only [List.mem_cons] at hm
            rcases hm with rfl | rfl | hm
            · exact hc.shift st _ hst hla h1
            · exact hst
            · exact hs s (by simp [hm])
          · intro t' hm; exact hi t' (by simp [hm])
      · simp only [h1, if_false]
        by_cases h2 : T₁.action st (input.headD T₁.eof) % 4 = 2
        · simp only [h2, if_true]
          have hp := hc.reduce st _ hst hla h2
          obtain ⟨he, hin⟩ := afterReduce_congr hc ha _ hp (st :: below) hs
          rw [← he]
          cases hr : afterReduce T₁ (T₁.action st (input.headD T₁.eof) / 4) (st :: below) with
          | none => rfl
          | some st' =>
            simp only []
            exact ih st' input pos _ (hin st' hr) hi
        · simp only [h2, if_false]

end GrmVerif.C14
