import GrmVerif.Model.Table
/-! Declarative specification of one action-table cell (Yacc's rules) and of the derived views. -/
namespace GrmVerif.Table
open GrmVerif

/-- least element of a non-empty list (0 for the empty list, never used there) -/
def minList : List Nat → Nat
  | [] => 0
  | [a] => a
  | a :: b :: rest => min a (minList (b :: rest))

/-- What the candidate reductions `R` (a set, given as a duplicate-free list in any order) leave in
the cell before shifts are considered: nothing, accept, the earliest production, or — `none` — the
hard accept/reduce conflict. -/
def specReduce (G : Grammar) (t : Nat) (R : List Nat) : Option Act :=
  if R = [] then some .error
  else if t = G.eof ∧ G.startProd ∈ R then (if R.length = 1 then some .accept else none)
  else some (.reduce (minList R))

/-- Yacc's shift/reduce rule for token precedence `tp`, production precedence `pp`:
the resulting action and whether the clash is one of the *reported* (default-resolved) conflicts. -/
def specSR (tp pp : Option Prec) (tgt r : Nat) : Act × Bool :=
  match tp, pp with
  | some a, some b =>
    if a.level > b.level then (.shift tgt, false)
    else if a.level < b.level then (.reduce r, false)
    else if a.kind = 0 then (.reduce r, false)       -- %left
    else if a.kind = 1 then (.shift tgt, false)      -- %right
    else (.error, false)                              -- %nonassoc
  | _, _ => (.shift tgt, true)

/-- the cell Yacc prescribes, with the number of reported reduce/reduce conflicts and the reported
shift/reduce conflict (production) if any; `none` = accept/reduce conflict (construction fails) -/
def specCell (G : Grammar) (R : List Nat) (tgt : Option Nat) (t : Nat) : Option (Act × Nat × Option Nat) :=
  match specReduce G t R with
  | none => none
  | some base =>
    match tgt, base with
    | none, _ => some (base, R.length - 1, none)
    | some tg, .reduce r =>
      let (a, rep) := specSR ((G.tokPrec[t]?).getD none) ((G.prodPrec[r]?).getD none) tg r
      some (a, R.length - 1, if rep then some r else none)
    | some tg, _ => some (.shift tg, R.length - 1, none)

/-- precedence declarations are consistent: equal levels have equal kinds, kinds are 0/1/2
(levels are declaration lines, so this is an invariant of the grammar parser) -/
def precConsistent (G : Grammar) : Bool :=
  let all := (G.tokPrec ++ G.prodPrec).filterMap id
  all.all (fun a => a.kind ≤ 2 && all.all (fun b => a.level != b.level || a.kind == b.kind))

/-- (rule, length) of a production -/
def rkey (G : Grammar) (p : Nat) : Nat × Nat := (G.lhs p, (G.rhs p).length)

end GrmVerif.Table
