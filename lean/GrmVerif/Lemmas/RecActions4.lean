import GrmVerif.Lemmas.RecActions3
/-!
The recovering action driver (C08, recovery on), part 4 — the kept reductions and the plain parse:
* `KeptA a b`: the value configuration `a` is what is left of `b` after some lexemes were offered and
  refused (`C05.Kept` with values); `KeptShiftInvisibleA`: whatever `a` shifts or accepts, `b` shifts or
  accepts reaching THE SAME value configuration — same stacks, same spans, same log, i.e. `b` redoes
  exactly the kept reductions (`C05.KeptShiftInvisible` only says the state stacks coincide, which does
  not determine the reductions on a table that merely passes `Cert.check`);
* `keptShiftInvisibleA_of_cert`: every table that passes the certificates of C05's whole-run theorems
  satisfies it (the kept reduction is the one the table makes under the later token: `feed_reduce_same`);
* `recRunA_plainK`: the recovering run that returns a value is the plain run, WITH VALUES, over the
  lexemes of the edited input (`FeedsToA`), ending in the same value configuration.
-/
namespace GrmVerif.RecAct
open GrmVerif LR Act Rec Cert C05 Term RankImpl Spec Ref

/-- `a` is what is left of `b` after some lexemes were offered and refused (the reductions made under
them, with their action calls, kept) -/
inductive KeptA (G : Grammar) (A : Automaton) : VCfg → VCfg → Prop
  | refl (v : VCfg) : KeptA G A v v
  | offer (a b : VCfg) (la : Nat) (s : VCfg) : KeptA G A a b → feedA G A la FUEL a = .error s → KeptA G A s b

/-- **The reductions kept under refused lexemes, and their action calls, are exactly what the plain
parse makes under a token that is shifted or accepted afterwards**: the unreduced configuration `b`
reaches the very configuration the reduced one `a` reaches (for some fuel, hence every larger one). -/
def KeptShiftInvisibleA (G : Grammar) (A : Automaton) : Prop :=
  ∀ a b, KeptA G A a b → IsPath A b.pstack → ∀ t,
    (∀ s' x, feedA G A t FUEL a = .shifted s' x → ∃ f, feedA G A t f b = .shifted s' x) ∧
    (∀ x, feedA G A t FUEL a = .accept x → ∃ f, feedA G A t f b = .accept x)

theorem KeptA.erase {G : Grammar} {A : Automaton} {a b : VCfg} (h : KeptA G A a b) : Kept G A a.pstack b.pstack := by
  induction h with
  | refl v => exact .refl _
  | offer a b la s _ hf ih => exact .offer _ _ la _ ih (feedA_error_feed hf)

/-- every chain of offers on state stacks is the erasure of one on value configurations -/
theorem kept_lift {G : Grammar} {A : Automaton} {a b : List Nat} (h : Kept G A a b) :
    ∀ vb : VCfg, vb.pstack = b → ∃ va : VCfg, va.pstack = a ∧ KeptA G A va vb := by
  induction h with
  | refl s => intro vb hb; exact ⟨vb, hb, .refl vb⟩
  | offer a b la s _ hf ih =>
    intro vb hb
    obtain ⟨va, hva, hk⟩ := ih vb hb
    rw [← hva] at hf
    obtain ⟨v', hv', hs⟩ := feedA_of_feed_error hf
    exact ⟨v', hs.symm, .offer va vb la v' hk hv'⟩

/-- the value-carrying hypothesis implies C05's -/
theorem keptShiftInvisibleA_implies (G : Grammar) (A : Automaton) (hk : KeptShiftInvisibleA G A) :
    KeptShiftInvisible G A := by
  intro a b hab hb t
  obtain ⟨va, hva, hkA⟩ := kept_lift hab ⟨b, [], [], []⟩ rfl
  refine ⟨?_, ?_⟩
  · intro x hx
    rw [← hva] at hx
    obtain ⟨s', v', hf, hxe⟩ := feedA_of_feed_shifted hx
    obtain ⟨f, hfb⟩ := (hk va _ hkA hb t).1 s' v' hf
    exact ⟨f, by rw [hxe]; exact feedA_shifted_feed hfb⟩
  · intro x hx
    rw [← hva] at hx
    have he := feedA_erase G A t FUEL va
    rw [hx] at he
    cases hf : feedA G A t FUEL va with
    | accept v' =>
      obtain ⟨f, hfb⟩ := (hk va _ hkA hb t).2 v' hf
      exact ⟨f, v'.pstack, feedA_accept_feed hfb⟩
    | shifted s' v' => rw [hf] at he; cases he
    | error v' => rw [hf] at he; cases he
    | crash => rw [hf] at he; cases he
    | fuelOut => rw [hf] at he; cases he

/-! ### certified tables -/

section
variable {G : Grammar} {A : Automaton} {N : Nat → Bool} {F : Nat × Nat → Bool}

/-- a result of `feedA` with which the parse goes on -/
def goesA : FedA → Prop
  | .shifted _ _ => True
  | .accept _ => True
  | _ => False

theorem goes_of_goesA {la f : Nat} {v : VCfg} (h : goesA (feedA G A la f v)) : goes (feed G A la f v.pstack) := by
  rw [← feedA_erase]
  cases hf : feedA G A la f v with
  | shifted s' x => trivial
  | accept x => trivial
  | error x => rw [hf] at h; cases h
  | crash => rw [hf] at h; cases h
  | fuelOut => rw [hf] at h; cases h

/-- **one refused lexeme, with values**: the configuration it leaves is on a path again, and whatever
that configuration shifts or accepts, the configuration before the offer answers the same — same
stacks, spans and log (the fuel for the kept reductions added) -/
theorem offer_invisibleA (P : Props G A) (PL : PropsLA G A N F)
    (hN : ∀ r, N r = true ↔ NullableR G r) (hF : ∀ r t, F (r, t) = true ↔ FirstP G r t)
    (hmin : ∀ s, s < A.nstates → ∀ i ∈ A.closed s, Clo0 G (A.core s) i.p i.dot)
    (hcols : colsOk G A = true) (la : Nat) :
    ∀ (fuel : Nat) (a s : VCfg), IsPath A a.pstack → feedA G A la fuel a = .error s →
      IsPath A s.pstack ∧ ∀ t f, goesA (feedA G A t f s) → ∃ f', feedA G A t f' a = feedA G A t f s := by
  intro fuel
  induction fuel with
  | zero => intro a s _ h; simp [feedA] at h
  | succ n ih =>
    intro a s hp h
    obtain ⟨ps, as, sp, lg⟩ := a
    cases ps with
    | nil => obtain ⟨labels, hpath⟩ := hp; cases hpath
    | cons st tl =>
      cases hact : A.action st la with
      | error =>
        simp only [feedA, hact, FedA.error.injEq] at h
        subst h
        exact ⟨hp, fun t f _ => ⟨f, rfl⟩⟩
      | shift s' => simp [feedA, hact] at h
      | accept => simp [feedA, hact] at h
      | reduce p =>
        have hla : la < G.ntoks := colsOk_action hcols (by rw [hact]; simp)
        obtain ⟨hpne, hplt, hitem, prior, rest, g, hd, hg, hpath', _⟩ := reduce_step P hla hp hact
        have hprior : prior < A.nstates := by
          have : prior ∈ st :: tl := List.mem_of_mem_drop (by rw [hd]; simp)
          exact hp.states_lt P prior this
        have hgo : A.goto prior (G.lhs p) = some g := by
          rw [P.gotoEdge prior _ hprior (wf_lhs P.wf hplt)]; exact hg
        rw [feedA_reduce (v := ⟨st :: tl, as, sp, lg⟩) rfl hact hd hgo] at h
        have hpr : (reduceV G p g ⟨st :: tl, as, sp, lg⟩).pstack = g :: prior :: rest := by
          simp only [reduceV, hd]
        obtain ⟨hps, hrest⟩ := ih _ s (by rw [hpr]; exact hpath') h
        refine ⟨hps, ?_⟩
        intro t f hgo'
        obtain ⟨f', hf'⟩ := hrest t f hgo'
        have hgs : goes (feed G A t f' (g :: prior :: rest)) := by
          rw [← hpr]; apply goes_of_goesA; rw [hf']; exact hgo'
        have ht : t < G.ntoks := by
          obtain ⟨st', hne⟩ := goes_action hgs
          exact colsOk_action hcols hne
        have hsame : A.action st t = .reduce p :=
          feed_reduce_same P PL hN hF hmin hp hplt hpne hitem hd hg hpath' ht (f := f') hgs
        exact ⟨f' + 1, by rw [feedA_reduce (v := ⟨st :: tl, as, sp, lg⟩) rfl hsame hd hgo, hf']⟩

/-- any number of refused lexemes -/
theorem kept_invisibleA (P : Props G A) (PL : PropsLA G A N F)
    (hN : ∀ r, N r = true ↔ NullableR G r) (hF : ∀ r t, F (r, t) = true ↔ FirstP G r t)
    (hmin : ∀ s, s < A.nstates → ∀ i ∈ A.closed s, Clo0 G (A.core s) i.p i.dot)
    (hcols : colsOk G A = true) {a b : VCfg} (h : KeptA G A a b) (hb : IsPath A b.pstack) :
    IsPath A a.pstack ∧ ∀ t f, goesA (feedA G A t f a) → ∃ f', feedA G A t f' b = feedA G A t f a := by
  induction h with
  | refl s => exact ⟨hb, fun t f _ => ⟨f, rfl⟩⟩
  | offer a b la s _ hf ih =>
    obtain ⟨hpa, hab⟩ := ih hb
    obtain ⟨hps, hsa⟩ := offer_invisibleA P PL hN hF hmin hcols la FUEL a s hpa hf
    refine ⟨hps, ?_⟩
    intro t f hgo
    obtain ⟨f1, h1⟩ := hsa t f hgo
    obtain ⟨f2, h2⟩ := hab t f1 (by rw [h1]; exact hgo)
    exact ⟨f2, by rw [h2, h1]⟩

/-- **Every certified conflict-free table satisfies `KeptShiftInvisibleA`** (same certificates as
`C05.keptShiftInvisible_of_cert`). -/
theorem keptShiftInvisibleA_of_cert (hc : check G A = true) (hla : checkLA G A N F = true)
    (hN : ∀ r, N r = true ↔ NullableR G r) (hF : ∀ r t, F (r, t) = true ↔ FirstP G r t)
    (hvp : vpClosed G A = true) (hcols : colsOk G A = true) : KeptShiftInvisibleA G A := by
  have P := check_props G A hc
  have PL := checkLA_props G A N F hla
  have hmin := vpClosed_minimal hvp
  intro a b hab hb t
  obtain ⟨_, h⟩ := kept_invisibleA P PL hN hF hmin hcols hab hb
  refine ⟨?_, ?_⟩
  · intro s' x hx
    obtain ⟨f', hf'⟩ := h t FUEL (by rw [hx]; trivial)
    exact ⟨f', by rw [hf', hx]⟩
  · intro x hx
    obtain ⟨f', hf'⟩ := h t FUEL (by rw [hx]; trivial)
    exact ⟨f', by rw [hf', hx]⟩

end

/-! ### the plain run with values over a list of lexemes -/

/-- the plain action automaton shifts the lexemes one after the other (after the reductions the table
prescribes under each, with their action calls), from `b` to `st`; any fuel -/
def FeedsToA (G : Grammar) (A : Automaton) : VCfg → List Lx → VCfg → Prop
  | b, [], st => st = b
  | b, l :: ls, st => ∃ s' x f, feedA G A l.tok f b = .shifted s' x ∧
      FeedsToA G A (pushLex s' l.tok l.id l.span x) ls st

theorem feedsToA_append {G : Grammar} {A : Automaton} :
    ∀ (l1 l2 : List Lx) (b m st : VCfg), FeedsToA G A b l1 m → FeedsToA G A m l2 st →
      FeedsToA G A b (l1 ++ l2) st := by
  intro l1
  induction l1 with
  | nil => intro l2 b m st h1 h2; simp only [FeedsToA] at h1; subst h1; simpa using h2
  | cons t ts ih =>
    intro l2 b m st h1 h2
    obtain ⟨s', x, f, hx, h1'⟩ := h1
    exact ⟨s', x, f, hx, ih l2 _ m st h1' h2⟩

/-- the lexemes of a replayed sequence that applies on the driver's configuration are shifted by the
plain parse's configuration too, and once a lexeme has been shifted both configurations are equal -/
theorem lxSteps_eraseK {G : Grammar} {A : Automaton} (P : Props G A) (hcols : colsOk G A = true)
    (hk : KeptShiftInvisibleA G A) (w : List Nat) (lexSpan : Nat → Nat × Nat) :
    ∀ (items : List EItem) (a b a' : VCfg), KeptA G A a b → IsPath A b.pstack →
      runStepsA G A a (lxSteps w lexSpan items) = some a' →
      ∃ b', FeedsToA G A b (items.map (itemLx w lexSpan)) b' ∧ KeptA G A a' b' ∧ IsPath A b'.pstack ∧
        ((a = b ∨ items ≠ []) → a' = b') := by
  intro items
  induction items with
  | nil =>
    intro a b a' hab hb h
    simp only [lxSteps, List.map_nil, runStepsA, Option.some.injEq] at h
    subst h
    exact ⟨b, rfl, hab, hb, fun h => by rcases h with h | h; exact h; exact absurd rfl h⟩
  | cons it its ih =>
    intro a b a' hab hb h
    simp only [lxSteps, List.map_cons, runStepsA] at h
    cases hf : feedA G A (itemLx w lexSpan it).tok FUEL a with
    | shifted s' v' =>
      rw [hf] at h
      simp only at h
      obtain ⟨f, hfb⟩ := (hk a b hab hb _).1 s' v' hf
      have hs : IsPath A (pushLex s' (itemLx w lexSpan it).tok (itemLx w lexSpan it).id (itemLx w lexSpan it).span v').pstack :=
        (feed_isPath P hcols _ f b.pstack hb).1 _ (feedA_shifted_feed hfb)
      obtain ⟨b', h1, h2, h3, h4⟩ := ih _ _ a' (.refl _) hs h
      exact ⟨b', ⟨s', v', f, hfb, h1⟩, h2, h3, fun _ => h4 (Or.inl rfl)⟩
    | accept s => rw [hf] at h; cases h
    | error s => rw [hf] at h; cases h
    | crash => rw [hf] at h; cases h
    | fuelOut => rw [hf] at h; cases h

/-- `recoverOf` continues from `applySeq` of the first sequence by construction -/
theorem recoverOf_firstApplies (G : Grammar) (A : Automaton) (w : List Nat) (recover : Pos → List (List Repair)) :
    FirstApplies G A w (recoverOf G A w recover) := by
  intro c c' s0 rest h
  simp only [recoverOf] at h
  cases hr : recover c with
  | nil => rw [hr] at h; cases h
  | cons s1 rest1 =>
    rw [hr] at h
    simp only at h
    cases ha : applySeq G A w c s1 with
    | none => rw [ha] at h; cases h
    | some c1 =>
      rw [ha] at h
      simp only [Option.some.injEq, Prod.mk.injEq, List.cons.injEq] at h
      obtain ⟨h1, h2, _⟩ := h
      rw [← h1, ← h2]; exact ha

/-- **The recovering run that returns a value is the plain run with values over the lexemes of the
edited input** (`C05.recRun_plainK` with values; `b` is the configuration of the plain run). -/
theorem recRunA_plainK (G : Grammar) (A : Automaton) (w : List Nat) (lexSpan : Nat → Nat × Nat)
    (recover : Pos → List (List Repair))
    (P : Props G A) (hcols : colsOk G A = true)
    {N : Nat} (hN1 : 1 ≤ N) (hvalid : FirstValid G A w N (recoverOf G A w recover))
    (hsh : EofNeverShifted G A) (hacc : AcceptOnlyAtEof G A) (hw : G.eof ∉ w)
    (hk : KeptShiftInvisibleA G A) :
    ∀ (fuel : Nat) (c : RACfg) (errs : List Err) (o : Outcome) (log : List Call) (errs' : List Err) (b : VCfg),
      c.laidx ≤ w.length → KeptA G A c.v b → IsPath A b.pstack → (c.v = b ∨ C07.Runs G A w 1 c.pos) →
      recRunA G A w lexSpan recover fuel c errs = (o, log, errs') →
      ∃ new, errs' = errs ++ new ∧ Ordered w.length c.laidx new ∧
        (∀ t, o = .accept t → ∃ st y f,
          FeedsToA G A b ((editedItems w.length c.laidx new).map (itemLx w lexSpan)) st ∧
          feedA G A G.eof f st = .accept y ∧ acceptOut y = .accept t ∧ y.log = log) := by
  intro fuel
  induction fuel with
  | zero =>
    intro c errs o log errs' b hc _ _ _ h
    simp only [recRunA, Prod.mk.injEq] at h
    refine ⟨[], by simp [h.2.2], hc, ?_⟩
    intro t ht; rw [← h.1] at ht; cases ht
  | succ f ih =>
    intro c errs o log errs' b hc hkept hb hmode h
    simp only [recRunA] at h
    cases hf : feedA G A (nextTok G w c.laidx) FUEL c.v with
    | shifted s' v' =>
      rw [hf] at h
      simp only at h
      obtain ⟨hlt, htok⟩ := shifted_in_range hsh (feedA_shifted_feed hf)
      obtain ⟨fb, hfb⟩ := (hk c.v b hkept hb _).1 s' v' hf
      have hs : IsPath A (pushLex s' (nextTok G w c.laidx) c.laidx (lexSpan c.laidx) v').pstack :=
        (feed_isPath P hcols _ fb b.pstack hb).1 _ (feedA_shifted_feed hfb)
      obtain ⟨new, h1, h2, h3⟩ := ih ⟨pushLex s' (nextTok G w c.laidx) c.laidx (lexSpan c.laidx) v', c.laidx + 1⟩
        errs o log errs' _ hlt (.refl _) hs (Or.inl rfl) h
      simp only at h2 h3
      have hord : Ordered w.length c.laidx new := by
        cases new with
        | nil => exact hc
        | cons e es => exact ⟨by have := h2.1; omega, h2.2⟩
      refine ⟨new, h1, hord, ?_⟩
      intro t ht
      obtain ⟨st, y, fy, hr, hx⟩ := h3 t ht
      refine ⟨st, y, fy, ?_, hx⟩
      rw [editedItems_shift w.length new c.laidx (by
        cases new with
        | nil => exact hlt
        | cons e es => have := h2.1; simp only; omega)]
      rw [htok] at hfb hr
      exact ⟨s', v', fb, hfb, hr⟩
    | accept v' =>
      rw [hf] at h
      simp only [Prod.mk.injEq] at h
      obtain ⟨hge, heof⟩ := accept_at_end hacc hw (feedA_accept_feed hf)
      obtain ⟨fb, hfb⟩ := (hk c.v b hkept hb _).2 v' hf
      refine ⟨[], by simp [h.2.2], hc, ?_⟩
      intro t ht
      refine ⟨b, v', fb, ?_, by rw [← heof]; exact hfb, by rw [h.1]; exact ht, h.2.1⟩
      have : w.length - c.laidx = 0 := by omega
      simp [editedItems, reals, this, FeedsToA]
    | crash =>
      rw [hf] at h
      simp only [Prod.mk.injEq] at h
      refine ⟨[], by simp [h.2.2], hc, ?_⟩
      intro t ht; rw [← h.1] at ht; cases ht
    | fuelOut =>
      rw [hf] at h
      simp only [Prod.mk.injEq] at h
      refine ⟨[], by simp [h.2.2], hc, ?_⟩
      intro t ht; rw [← h.1] at ht; cases ht
    | error v' =>
      rw [hf] at h
      simp only at h
      have giveUp : ∀ o1 log1, (∀ t, o1 ≠ .accept t) → (o, log, errs') = (o1, log1, errs ++ [⟨c.laidx, []⟩]) →
          ∃ new, errs' = errs ++ new ∧ Ordered w.length c.laidx new ∧
            (∀ t, o = .accept t → ∃ st y f,
              FeedsToA G A b ((editedItems w.length c.laidx new).map (itemLx w lexSpan)) st ∧
              feedA G A G.eof f st = .accept y ∧ acceptOut y = .accept t ∧ y.log = log) := by
        intro o1 log1 hne h
        simp only [Prod.mk.injEq] at h
        refine ⟨[⟨c.laidx, []⟩], h.2.2, ⟨Nat.le_refl _, by simpa [C05.firstSeq, editSeq, Ordered] using hc⟩, ?_⟩
        intro t ht; rw [h.1] at ht; exact absurd ht (hne t)
      cases hrec : recover ⟨v'.pstack, c.laidx⟩ with
      | nil => rw [hrec] at h; exact giveUp _ _ (by intro t ht; cases ht) h.symm
      | cons s0 rest =>
        rw [hrec] at h
        simp only at h
        cases happ : applySeqA G A w lexSpan ⟨v', c.laidx⟩ s0 with
        | none => rw [happ] at h; exact giveUp _ _ (by intro t ht; cases ht) h.symm
        | some c' =>
          rw [happ] at h
          simp only at h
          -- a refused lexeme is met with equal configurations only
          have heq : c.v = b := by
            rcases hmode with hm | hm
            · exact hm
            · exact absurd (feedA_error_feed hf) (fun hf => runs_not_error hm hf)
          have happS := applySeqA_applySeq happ
          simp only at happS
          have hrecOf : recoverOf G A w recover ⟨v'.pstack, c.laidx⟩ =
              some (⟨c'.v.pstack, c'.laidx⟩, s0 :: rest) := by
            simp only [recoverOf, hrec, happS]
          obtain ⟨c'', happ', hruns⟩ := validSeq_goes hN1 (hvalid _ _ _ _ hrecOf)
          rw [happS] at happ'
          injection happ' with happ'
          subst happ'
          obtain ⟨hft, hpos⟩ := applySeqA_runStepsA G A w lexSpan s0 _ _ happ
          obtain ⟨hle, hin⟩ := applySeq_pos G A w s0 _ _ happS
          simp only at hft hpos hle hin
          have hks : KeptA G A v' b := .offer c.v b _ v' hkept hf
          obtain ⟨b', hfb, hkb, hpb, _⟩ := lxSteps_eraseK P hcols hk w lexSpan _ v' b c'.v hks hb hft
          obtain ⟨new, h1, h2, h3⟩ := ih c' (errs ++ [⟨c.laidx, s0 :: rest⟩]) o log errs' b' (hin hc) hkb hpb
            (Or.inr hruns) h
          have hfs : C05.firstSeq ⟨c.laidx, s0 :: rest⟩ = s0 := rfl
          refine ⟨⟨c.laidx, s0 :: rest⟩ :: new, by rw [h1]; simp, ⟨Nat.le_refl _, by rw [hfs, ← hpos]; exact h2⟩, ?_⟩
          intro t ht
          obtain ⟨st, y, fy, hr, hx⟩ := h3 t ht
          refine ⟨st, y, fy, ?_, hx⟩
          simp only [editedItems, hfs, reals_self, List.nil_append, List.map_append]
          rw [← hpos]
          exact feedsToA_append _ _ b b' st hfb hr

end GrmVerif.RecAct
