import GrmVerif.Lemmas.YaccBuild6
/-!
C10, stage A: `prod_to_rule` and `rule_to_prods` agree — every production is listed under the rule
it names as its left-hand side. An invariant of the main loop, for every AST and every `Cfg`.
-/
namespace GrmVerif.YaccBuild
open GrmVerif

/-- every filled slot is listed under its rule -/
def Listed (st : St) : Prop :=
  ∀ (i : Nat) (r : PRec), st.slots[i]? = some (some r) → ∃ l, st.rulesProds[r.rule]? = some l ∧ i ∈ l

theorem set_grow {v : List (List Nat)} {ridx q x i : Nat} {l0 l : List Nat} (h0 : v[ridx]? = some l0)
    (hq : v[q]? = some l) (hi : i ∈ l) : ∃ l', (v.set ridx (l0 ++ [x]))[q]? = some l' ∧ i ∈ l' := by
  rw [List.getElem?_set]
  by_cases he : ridx = q
  · subst he
    rw [h0] at hq
    simp only [Option.some.injEq] at hq
    subst hq
    have : ridx < v.length := (List.getElem?_eq_some_iff.mp h0).1
    exact ⟨l0 ++ [x], by simp [this], List.mem_append_left _ hi⟩
  · rw [if_neg he]; exact ⟨l, hq, hi⟩

theorem listed_append {st : St} {rp : List (List Nat)} {ridx : Nat} {r : PRec} (hj : Listed st)
    (hp : pushAt st.rulesProds ridx st.slots.length = some rp) (hr : r.rule = ridx) :
    Listed { st with rulesProds := rp, slots := st.slots ++ [some r] } := by
  obtain ⟨l0, hl0, rfl⟩ := pushAt_eq hp
  intro i r' hs
  simp only at hs ⊢
  by_cases hi : i < st.slots.length
  · rw [List.getElem?_append_left hi] at hs
    obtain ⟨l, h1, h2⟩ := hj i r' hs
    exact set_grow hl0 h1 h2
  · have hlt := (List.getElem?_eq_some_iff.mp hs).1
    simp only [List.length_append, List.length_singleton] at hlt
    have hie : i = st.slots.length := by omega
    subst hie
    simp only [List.getElem?_append_right (Nat.le_refl _), Nat.sub_self, List.getElem?_cons_zero,
      Option.some.injEq] at hs
    subst hs
    rw [hr]
    have : ridx < st.rulesProds.length := (List.getElem?_eq_some_iff.mp hl0).1
    exact ⟨l0 ++ [st.slots.length], by simp [this], by simp⟩

theorem listed_set {st : St} {rp : List (List Nat)} {sl : List (Option PRec)} {ridx pidx : Nat} {r : PRec}
    (hj : Listed st) (hp : pushAt st.rulesProds ridx pidx = some rp) (hs : setAt st.slots pidx (some r) = some sl)
    (hr : r.rule = ridx) : Listed { st with rulesProds := rp, slots := sl } := by
  obtain ⟨l0, hl0, rfl⟩ := pushAt_eq hp
  obtain ⟨hlt, rfl⟩ := setAt_eq hs
  intro i r' hsl
  simp only at hsl ⊢
  rw [List.getElem?_set] at hsl
  by_cases hi : pidx = i
  · subst hi
    simp only [if_true, hlt, Option.some.injEq] at hsl
    subst hsl
    rw [hr]
    have : ridx < st.rulesProds.length := (List.getElem?_eq_some_iff.mp hl0).1
    exact ⟨l0 ++ [pidx], by simp [this], by simp⟩
  · rw [if_neg hi] at hsl
    obtain ⟨l, h1, h2⟩ := hj i r' hsl
    exact set_grow hl0 h1 h2

theorem userRec_rule {c : Ctx} {ridx : Nat} {p : AProd} {r : PRec} (h : userRec c ridx p = some r) :
    r.rule = ridx ∧ resolveSyms c.rmap c.tmap c.implName p.syms = some r.rhs ∧
    prodPrec c.ast.precs p = some r.prec ∧ r.action = p.action.map (·.1) ∧
    r.actionSpan = p.action.map (·.2) ∧ r.span = p.span := by
  unfold userRec at h
  cases h1 : resolveSyms c.rmap c.tmap c.implName p.syms with
  | none => simp [h1] at h
  | some rhs =>
    cases h2 : prodPrec c.ast.precs p with
    | none => simp [h1, h2] at h
    | some prec =>
      simp only [h1, h2, Option.some.injEq] at h
      subst h
      exact ⟨rfl, rfl, rfl, rfl, rfl, rfl⟩

theorem implLoop_listed {c : Ctx} {ridx : Nat} : ∀ (ts : List Str) (st st' : St),
    Listed st → implLoop c ridx ts st = some st' → Listed st' := by
  intro ts
  induction ts with
  | nil =>
    intro st st' hj h
    simp only [implLoop] at h
    cases hp : pushAt st.rulesProds ridx st.slots.length with
    | none => simp [hp] at h
    | some rp =>
      simp only [hp, Option.some.injEq] at h
      subst h
      exact listed_append hj hp rfl
  | cons t ts ih =>
    intro st st' hj h
    simp only [implLoop] at h
    cases hp : pushAt st.rulesProds ridx st.slots.length with
    | none => simp [hp] at h
    | some rp =>
      cases ht : c.tmap t with
      | none => simp [hp, ht] at h
      | some ti =>
        simp only [hp, ht] at h
        exact ih _ _ (listed_append hj hp rfl) h

theorem userLoop_listed {c : Ctx} {ridx : Nat} : ∀ (ps : List Nat) (st st' : St),
    Listed st → userLoop c ridx ps st = some st' → Listed st' := by
  intro ps
  induction ps with
  | nil => intro st st' hj h; simp only [userLoop, Option.some.injEq] at h; subst h; exact hj
  | cons pidx rest ih =>
    intro st st' hj h
    simp only [userLoop] at h
    cases hp : c.ast.prods[pidx]? with
    | none => simp [hp] at h
    | some p =>
      simp only [hp] at h
      cases hu : userRec c ridx p with
      | none => simp [hu] at h
      | some r =>
        cases hpa : pushAt st.rulesProds ridx pidx with
        | none => simp [hu, hpa] at h
        | some rp =>
          simp only [hu, hpa] at h
          cases hs : setAt st.slots pidx (some r) with
          | none => simp [hs] at h
          | some sl =>
            simp only [hs] at h
            exact ih _ _ (listed_set hj hpa hs (userRec_rule hu).1) h

theorem stepRule_listed {c : Ctx} (st : St) (n : Str) (st' : St) (hj : Listed st)
    (h : stepRule c st n = some st') : Listed st' := by
  unfold stepRule at h
  cases hr : c.rmap n with
  | none => simp [hr] at h
  | some ridx =>
    simp only [hr] at h
    split at h
    · unfold stepStart at h
      cases hp : pushAt st.rulesProds ridx st.slots.length with
      | none => simp [hp] at h
      | some rp =>
        cases ht : c.rmap (c.implStartName.getD c.userStart) with
        | none => simp [hp, ht] at h
        | some tgt =>
          simp only [hp, ht, Option.some.injEq] at h
          subst h
          exact listed_append hj hp rfl
    · split at h
      · unfold stepImplStart at h
        cases hp : pushAt st.rulesProds ridx st.slots.length with
        | none => simp [hp] at h
        | some rp =>
          cases h1 : c.implName.bind c.rmap with
          | none => simp [hp, h1] at h
          | some ir =>
            cases h2 : c.rmap c.userStart with
            | none => simp [hp, h1, h2] at h
            | some s0 =>
              simp only [hp, h1, h2, Option.some.injEq] at h
              subst h
              exact listed_append hj hp rfl
      · split at h
        · exact implLoop_listed _ _ _ hj h
        · obtain ⟨r, _, _, hu⟩ := stepUser_eq h
          exact userLoop_listed _ _ _ (show Listed { st with actiontypes := st.actiontypes.set ridx r.actiont } from fun i r' hs => hj i r' hs) hu

/-- **`prod_to_rule` and `rule_to_prods` agree** on every built grammar -/
theorem build_listed {cfg : Cfg} {a : AST} {k : Kind} {g : IGrammar} (h : buildGrammar cfg a k = some g) :
    ∀ (i : Nat) (r : PRec), g.recs[i]? = some r → ∃ l, g.rulesProds[r.rule]? = some l ∧ i ∈ l := by
  obtain ⟨us, sp, st, _, hm, hu, _, _, _, _, _, _, hrp, _⟩ := build_fields h
  have hl : Listed st := by
    refine mainLoop_inv _ Listed (fun st n st' => stepRule_listed st n st') _ _ _ ?_ hm
    intro i r hs
    simp only [st0, List.getElem?_replicate] at hs
    split at hs <;> simp at hs
  intro i r hr
  rw [hrp]
  apply hl i r
  rw [unwrapAll_spec _ _ hu, List.getElem?_map, hr]; rfl

/-! ### specification-side definitions used by the property theorems -/

/-- number of productions cfgrammar adds: `^: S;` — for Eco with `%implicit_tokens`: `^: ^~;`, one per
implicit token, the empty one, and `^~: ~ S;` -/
def addedProds (a : AST) (k : Kind) : Nat :=
  match k, a.implicitTokens with
  | .eco, some its => its.length + 3
  | _, _ => 1

theorem addedShape_length {cfg : Cfg} {a : AST} {k : Kind} {c : Ctx} {tgt : Nat} {added : List PRec}
    {low : List (List Nat)} (hs : AddedShape cfg a k c tgt added low) : added.length = addedProds a k := by
  rcases hs with ⟨_, _, h1, h2, _⟩ | ⟨its, tis, hk, hits, _, _, _, hm, h2, _⟩
  · subst h2
    unfold addedRules at h1
    unfold addedProds
    cases k <;> cases hi : a.implicitTokens <;> simp [hi] at h1 ⊢
  · subst h2 hk
    have : tis.length = its.length := by simpa using (congrArg List.length hm).symm
    simp [addedProds, hits, ecoAdded, this]

theorem addedShape_added {cfg : Cfg} {a : AST} {k : Kind} {c : Ctx} {tgt : Nat} {added : List PRec}
    {low : List (List Nat)} (hs : AddedShape cfg a k c tgt added low) :
    ∀ r ∈ added, ∃ rhs ridx, r = addedRec rhs ridx ∧ (Sym.rule 0 ∈ rhs → tgt = 0) := by
  intro r hr
  rcases hs with ⟨_, _, _, h2, _⟩ | ⟨its, tis, _, _, _, _, _, _, h2, _⟩
  · subst h2
    simp only [List.mem_singleton] at hr
    subst hr
    exact ⟨_, _, rfl, by simp; exact fun h => h.symm⟩
  · subst h2
    simp only [ecoAdded, List.mem_cons, List.mem_append, List.mem_map, List.not_mem_nil, or_false] at hr
    rcases hr with rfl | ⟨ti, _, rfl⟩ | rfl | rfl
    · exact ⟨_, _, rfl, by simp⟩
    · exact ⟨_, _, rfl, by simp⟩
    · exact ⟨_, _, rfl, by simp⟩
    · exact ⟨_, _, rfl, by simp; exact fun h => h.symm⟩

theorem ecoAdded_first (tis : List Nat) (tgt : Nat) : (ecoAdded tis tgt)[0]? = some (addedRec [.rule 2] 0) := rfl

theorem ecoAdded_last (tis : List Nat) (tgt : Nat) :
    (ecoAdded tis tgt)[tis.length + 2]? = some (addedRec [.rule 1, .rule tgt] 2) := by
  unfold ecoAdded
  rw [List.getElem?_cons_succ, List.getElem?_append_right (by simp)]
  simp

/-- the implicit rule, if there is one, is rule 1 -/
theorem rmap_implName {cfg : Cfg} (hc : cfgOk cfg = true) (a : AST) (k : Kind) (us : Str) {ir : Str}
    (h : (mkCtx cfg a k us).implName = some ir) : (mkCtx cfg a k us).rmap ir = some 1 := by
  have ok := mkCtx_ok hc a k us
  have hnd := specialNames_nodup hc a k
  rcases mkCtx_shape cfg a k us with ⟨hi, _, _⟩ | ⟨_, _, _, hi, _, hsp⟩
  · rw [hi] at h; cases h
  · rw [hi] at h
    simp only [Option.some.injEq] at h
    subst h
    exact rmap_special ok hnd (j := 1) (by rw [hsp]; rfl)

/-- the declarative per-production precedence: the `%prec` token's precedence (the outer `none` is the
panic on a `%prec` token without declared precedence), else the declared precedence of the LAST token
symbol — `none` if there is no token symbol or that token has no precedence -/
def prodPrecSpec (precs : List (Str × Prec)) (p : AProd) : Option (Option Prec) :=
  match p.prec with
  | some n => (assoc precs n).map some
  | none => some ((lastTok p.syms).bind (assoc precs))

theorem prodPrec_eq_spec (precs : List (Str × Prec)) (p : AProd) : prodPrec precs p = prodPrecSpec precs p := by
  unfold prodPrec prodPrecSpec
  cases p.prec with
  | some n => rfl
  | none => simp only; rw [firstTokPrec_reverse]

/-! ### well-formedness of an AST that `GrammarAST::complete_and_validate` establishes -/

def ASym.refOk (names : List Str) : ASym → Bool
  | .rule n _ => names.contains n
  | .tok _ _ => true

def startOk (a : AST) : Bool :=
  match a.start with
  | some (us, _) => (userNames a).contains us
  | none => false

/-- `%start` names a rule of the AST and so does every rule symbol of every production
(`InvalidStartRule` / `UnknownRuleRef` of `complete_and_validate`, which
`new_from_ast_with_validity_info` requires to have passed) -/
def refsOk (a : AST) : Bool :=
  startOk a && a.prods.all (fun p => p.syms.all (ASym.refOk (userNames a)))

theorem refsOk_start {a : AST} (h : refsOk a = true) {us : Str} {sp : Span} (hs : a.start = some (us, sp)) :
    us ∈ userNames a := by
  simp only [refsOk, Bool.and_eq_true, startOk, hs, List.contains_eq_mem, decide_eq_true_eq] at h
  exact h.1

theorem refsOk_sym {a : AST} (h : refsOk a = true) {p : AProd} (hp : p ∈ a.prods) {n : Str} {sp : Span}
    (hs : ASym.rule n sp ∈ p.syms) : n ∈ userNames a := by
  simp only [refsOk, Bool.and_eq_true, List.all_eq_true] at h
  have := h.2 p hp _ hs
  simpa [ASym.refOk] using this

theorem ruleNamesOf_user (cfg : Cfg) (a : AST) (k : Kind) (j : Nat) :
    (ruleNamesOf cfg a k)[addedRules a k + j]? = (a.rules[j]?).map (fun r => (r.name, r.nameSpan)) := by
  unfold ruleNamesOf addedNames addedRules
  cases k <;> cases a.implicitTokens <;> simp [Nat.add_comm]

/-- a small AST for the non-vacuity examples: `%start A  A: 'a';` -/
def exampleAst : AST :=
  { start := some ([65], (0, 1)), rules := [⟨[65], (0, 1), [0], none⟩],
    prods := [⟨[.tok [97] (4, 5)], none, none, (3, 6)⟩], tokens := [([97], (4, 5))], precs := [],
    avoidInsert := none, implicitTokens := none, epp := [], expect := none, expectrr := none }

end GrmVerif.YaccBuild
