import GrmVerif.Lemmas.FirstsImpl
/-! The model of `YaccFollows::new` (`Impl.followsNew`), run on a `Firsts` table that is exact:
invariant, `Step` property of every loop level, what a round without change implies, exactness. -/
namespace GrmVerif.Impl
open GrmVerif Spec Ref

def wbit (W : List (List Bool)) (x : Nat × Nat) : Bool := mget W x.1 x.2

/-- the `firsts` argument holds exactly the textbook FIRST sets and nullability -/
structure FExact (G : Grammar) (fst : Firsts) : Prop where
  eps : ∀ r, vget fst.epsilons r = true ↔ NullableR G r
  first : ∀ r t, mget fst.firsts r t = true ↔ FirstP G r t

/-- invariant of the loop: table dimensions, and every set bit is justified -/
structure WInv (G : Grammar) (W : List (List Bool)) : Prop where
  dims : MDims G.nrules G.ntoks W
  snd : ∀ A t, mget W A t = true → FollowP G A t

abbrev WStep (G : Grammar) (a b : WS) : Prop := Step wbit (pairs G.nrules G.ntoks) (WInv G) a b

theorem WStep.rfl' {G : Grammar} {s : WS} (h : WInv G s.1) : WStep G s s := Step.refl _ _ _ s h

/-- epsilon bits / FIRST bits of `fst` as the functions the reference definitions take -/
abbrev epsF (fst : Firsts) : Nat → Bool := fun r => vget fst.epsilons r
abbrev firstF (fst : Firsts) : Nat × Nat → Bool := fun x => mget fst.firsts x.1 x.2
abbrev followF (W : List (List Bool)) : Nat × Nat → Bool := fun x => mget W x.1 x.2

/-! ### setting one bit; the two row unions -/

theorem setFollow_step (G : Grammar) {q t : Nat} (hq : q < G.nrules) (ht : t < G.ntoks)
    (hf : FollowP G q t) (s : WS) (hI : WInv G s.1) : WStep G s (setFollow q t s) := by
  unfold setFollow
  split
  · exact WStep.rfl' hI
  · next h0 =>
    have h0' : mget s.1 q t = false := by simpa using h0
    obtain ⟨W, ch⟩ := s
    refine Step.of_set wbit _ (WInv G) ch (q, t) (mem_pairs.mpr ⟨hq, ht⟩) ?_ h0' ?_ ?_
    · refine ⟨mdims_mset hI.dims _ _, ?_⟩
      intro r' t' h
      simp only at h
      rw [mget_mset hI.dims hq ht] at h
      simp only [Bool.or_eq_true, decide_eq_true_eq] at h
      rcases h with ⟨rfl, rfl⟩ | h
      · exact hf
      · exact hI.snd _ _ h
    · simp only [wbit]; rw [mget_mset hI.dims hq ht]; simp
    · intro i hi; exact mget_mset_mono _ _ _ _ _ hi

theorem setFollow_closed (q t : Nat) (s : WS) (h : (setFollow q t s).2 = false) :
    s.2 = false ∧ (setFollow q t s).1 = s.1 ∧ mget s.1 q t = true := by
  unfold setFollow at h ⊢
  split
  · next h1 => rw [if_pos h1] at h; exact ⟨h, rfl, h1⟩
  · next h1 => rw [if_neg h1] at h; cases h

theorem inheritTok_step (G : Grammar) {ridx q t : Nat} (hq : q < G.nrules) (ht : t < G.ntoks)
    (hf : FollowP G ridx t → FollowP G q t) (s : WS) (hI : WInv G s.1) :
    WStep G s (inheritTok ridx q s t) := by
  unfold inheritTok
  split
  · next h => exact setFollow_step G hq ht (hf (hI.snd _ _ h)) s hI
  · exact WStep.rfl' hI

theorem inheritTok_closed (ridx q t : Nat) (s : WS) (h : (inheritTok ridx q s t).2 = false) :
    s.2 = false ∧ (inheritTok ridx q s t).1 = s.1 ∧ (mget s.1 ridx t = true → mget s.1 q t = true) := by
  unfold inheritTok at h ⊢
  split
  · next h1 =>
    rw [if_pos h1] at h
    obtain ⟨a, b, c⟩ := setFollow_closed q t s h
    exact ⟨a, b, fun _ => c⟩
  · next h1 => rw [if_neg h1] at h; exact ⟨h, rfl, fun h2 => absurd h2 h1⟩

theorem inheritRow_step (G : Grammar) {ridx q : Nat} (hq : q < G.nrules)
    (hf : ∀ t, FollowP G ridx t → FollowP G q t) (s : WS) (hI : WInv G s.1) :
    WStep G s (inheritRow G ridx q s) := by
  unfold inheritRow
  apply foldl_step wbit _ (WInv G) (inheritTok ridx q) (fun t => t < G.ntoks)
  · intro t s ht hI; exact inheritTok_step G hq ht (hf t) s hI
  · intro t ht; simpa using ht
  · exact hI

theorem inheritRow_closed (G : Grammar) (ridx q : Nat) (s : WS) (h : (inheritRow G ridx q s).2 = false) :
    s.2 = false ∧ (inheritRow G ridx q s).1 = s.1 ∧
      ∀ t, t < G.ntoks → mget s.1 ridx t = true → mget s.1 q t = true := by
  unfold inheritRow at h ⊢
  obtain ⟨a, b, c⟩ := foldl_closed (inheritTok ridx q)
    (fun t (W : List (List Bool)) => mget W ridx t = true → mget W q t = true)
    (fun t s h => inheritTok_closed ridx q t s h) (List.range G.ntoks) s h
  exact ⟨a, b, fun t ht => c t (by simpa using ht)⟩

theorem orFirsts_step (G : Grammar) (fst : Firsts) {q n : Nat} (hq : q < G.nrules)
    (hf : ∀ t, mget fst.firsts n t = true → FollowP G q t) (s : WS) (hI : WInv G s.1) :
    WStep G s (orFirsts G fst q n s) := by
  unfold orFirsts
  apply foldl_step wbit _ (WInv G) _ (fun t => t < G.ntoks)
  · intro t s ht hI
    split
    · next h => exact setFollow_step G hq ht (hf t h) s hI
    · exact WStep.rfl' hI
  · intro t ht; simpa using ht
  · exact hI

theorem orFirsts_closed (G : Grammar) (fst : Firsts) (q n : Nat) (s : WS)
    (h : (orFirsts G fst q n s).2 = false) :
    s.2 = false ∧ (orFirsts G fst q n s).1 = s.1 ∧
      ∀ t, t < G.ntoks → mget fst.firsts n t = true → mget s.1 q t = true := by
  unfold orFirsts at h ⊢
  obtain ⟨a, b, c⟩ := foldl_closed (fun (s : WS) t => if mget fst.firsts n t then setFollow q t s else s)
    (fun t (W : List (List Bool)) => mget fst.firsts n t = true → mget W q t = true)
    (by
      intro t s h
      split
      · next h1 =>
        rw [if_pos h1] at h
        obtain ⟨a, b, c⟩ := setFollow_closed q t s h
        exact ⟨a, b, fun _ => c⟩
      · next h1 => rw [if_neg h1] at h; exact ⟨h, rfl, fun h2 => absurd h2 h1⟩)
    (List.range G.ntoks) s h
  exact ⟨a, b, fun t ht => c t (by simpa using ht)⟩

/-! ### the symbols after an occurrence of `q` -/

theorem nxtSyms_step (G : Grammar) (fst : Firsts) (hx : FExact G fst) {q : Nat} (hq : q < G.nrules)
    (β : List Sym) (hfol : ∀ t, FirstSeqP G β t → FollowP G q t) :
    ∀ (rest γ : List Sym) (s : WS), β = γ ++ rest → NullableSeq G γ →
      (∀ x ∈ rest, G.symOk x = true) → WInv G s.1 →
      ∃ s', nxtSyms G fst q rest s = some s' ∧ WStep G s s' := by
  intro rest
  induction rest with
  | nil => intro γ s _ _ _ hI; exact ⟨s, rfl, WStep.rfl' hI⟩
  | cons x rest ih =>
    intro γ s hβ hγ hok hI
    cases x with
    | tok t =>
      have ht : t < G.ntoks := by simpa [Grammar.symOk] using hok (.tok t) (by simp)
      refine ⟨setFollow q t s, by simp [nxtSyms, ht], ?_⟩
      exact setFollow_step G hq ht (hfol t ⟨γ, .tok t, rest, hβ, hγ, Or.inl rfl⟩) s hI
    | rule n =>
      have hn : n < G.nrules := by simpa [Grammar.symOk] using hok (.rule n) (by simp)
      have st1 : WStep G s (orFirsts G fst q n s) := by
        apply orFirsts_step G fst hq _ s hI
        intro t ht
        exact hfol t ⟨γ, .rule n, rest, hβ, hγ, Or.inr ⟨n, rfl, (hx.first n t).mp ht⟩⟩
      simp only [nxtSyms, hn, if_true]
      split
      · next he =>
        have hnn : NullableR G n := (hx.eps n).mp he
        obtain ⟨s', h1, h2⟩ := ih (γ ++ [.rule n]) _ (by rw [hβ]; simp) (nullableSeq_snoc hnn γ hγ)
          (fun x hx => hok x (by simp [hx])) st1.inv
        exact ⟨s', h1, st1.trans _ _ _ h2⟩
      · exact ⟨_, rfl, st1⟩

/-- what a pass over the symbols after an occurrence of `q` that changes nothing has checked -/
def NxtClosed (G : Grammar) (fst : Firsts) (W : List (List Bool)) (q : Nat) : List Sym → Prop
  | [] => True
  | .tok t :: _ => mget W q t = true
  | .rule n :: rest =>
    (∀ t, t < G.ntoks → mget fst.firsts n t = true → mget W q t = true) ∧
    (vget fst.epsilons n = true → NxtClosed G fst W q rest)

theorem nxtSyms_closed (G : Grammar) (fst : Firsts) (q : Nat) :
    ∀ (rest : List Sym) (s s' : WS), nxtSyms G fst q rest s = some s' → s'.2 = false →
      s.2 = false ∧ s'.1 = s.1 ∧ NxtClosed G fst s.1 q rest := by
  intro rest
  induction rest with
  | nil =>
    intro s s' h hc
    simp only [nxtSyms, Option.some.injEq] at h
    subst h; exact ⟨hc, rfl, trivial⟩
  | cons x rest ih =>
    intro s s' h hc
    cases x with
    | tok t =>
      simp only [nxtSyms] at h
      split at h
      · simp only [Option.some.injEq] at h
        subst h
        exact setFollow_closed q t s hc
      · cases h
    | rule n =>
      simp only [nxtSyms] at h
      split at h
      · split at h
        · next he =>
          obtain ⟨a3, b3, c3⟩ := ih _ s' h hc
          obtain ⟨a, b, c⟩ := orFirsts_closed G fst q n s a3
          refine ⟨a, b3.trans b, c, ?_⟩
          intro _
          rw [← b]; exact c3
        · next he =>
          simp only [Option.some.injEq] at h
          subst h
          obtain ⟨a, b, c⟩ := orFirsts_closed G fst q n s hc
          exact ⟨a, b, c, fun he' => absurd he' he⟩
      · cases h

theorem nxtClosed_spec (G : Grammar) (fst : Firsts) (W : List (List Bool)) (q : Nat) :
    ∀ l : List Sym, NxtClosed G fst W q l →
      ∀ t, t < G.ntoks → firstSeq (epsF fst) (firstF fst) l t = true → mget W q t = true := by
  intro l
  induction l with
  | nil => intro _ t _ h; simp [firstSeq] at h
  | cons x rest ih =>
    intro h t ht hf
    cases x with
    | tok a =>
      simp only [NxtClosed] at h
      simp only [firstSeq, beq_iff_eq] at hf
      subst hf; exact h
    | rule n =>
      simp only [NxtClosed] at h
      simp only [firstSeq, Bool.or_eq_true, Bool.and_eq_true] at hf
      rcases hf with hf | ⟨he, hf⟩
      · exact h.1 t ht hf
      · exact ih (h.2 he) t ht hf

/-! ### the symbols of one production, right to left -/

/-- the local `epsilon` after the symbols `l` have been visited: all of them are nullable -/
theorem followSyms_eps (G : Grammar) (fst : Firsts) (ridx : Nat) :
    ∀ (l : List Sym) (s : WS) (se : WS × Bool), followSyms G fst ridx l s = some se →
      se.2 = seqNullable (epsF fst) l := by
  intro l
  induction l with
  | nil =>
    intro s se h
    simp only [followSyms, Option.some.injEq] at h
    subst h; simp [seqNullable]
  | cons x rest ih =>
    intro s se h
    simp only [followSyms] at h
    split at h
    · cases h
    · next se1 h1 =>
      have e1 := ih s se1 h1
      cases x with
      | tok t =>
        simp only [followSym, Option.some.injEq] at h
        subst h; simp [seqNullable, symNullable]
      | rule q =>
        simp only [followSym] at h
        split at h
        · split at h
          · cases h
          · simp only [Option.some.injEq] at h
            subst h
            simp only [seqNullable, List.all_cons, symNullable] at e1 ⊢
            rw [e1]
            cases hv : vget fst.epsilons q <;> simp [epsF, hv]
        · cases h

theorem followSyms_step (G : Grammar) (fst : Firsts) (hx : FExact G fst) {p : Nat} (hp : p < G.nprods) :
    ∀ (rest pre : List Sym) (s : WS), G.rhs p = pre ++ rest → (∀ x ∈ rest, G.symOk x = true) →
      WInv G s.1 → ∃ se, followSyms G fst (G.lhs p) rest s = some se ∧ WStep G s se.1 := by
  intro rest
  induction rest with
  | nil => intro pre s _ _ hI; exact ⟨(s, true), rfl, WStep.rfl' hI⟩
  | cons x rest ih =>
    intro pre s hrhs hok hI
    obtain ⟨se1, h1, st1⟩ := ih (pre ++ [x]) s (by rw [hrhs]; simp) (fun y hy => hok y (by simp [hy])) hI
    have e1 := followSyms_eps G fst _ rest s se1 h1
    simp only [followSyms, h1]
    cases x with
    | tok t => exact ⟨_, rfl, st1⟩
    | rule q =>
      have hq : q < G.nrules := by simpa [Grammar.symOk] using hok (.rule q) (by simp)
      have st2 : WStep G se1.1 (if se1.2 = true then inheritRow G (G.lhs p) q se1.1 else se1.1) := by
        split
        · next he =>
          apply inheritRow_step G hq _ _ st1.inv
          intro t hf
          rw [e1] at he
          exact .inherit p pre q rest t hp hrhs ((seqNullable_iff hx.eps rest).mp he) hf
        · exact WStep.rfl' st1.inv
      obtain ⟨s3, h3, st3⟩ := nxtSyms_step G fst hx hq rest
        (fun t hfs => .first p pre q rest t hp hrhs hfs) rest [] _ rfl .nil
        (fun y hy => hok y (by simp [hy])) st2.inv
      simp only [followSym, hq, if_true, h3]
      exact ⟨_, rfl, (st1.trans _ _ _ st2).trans _ _ _ st3⟩

/-- what a pass over the symbols `l` of a production of `B` that changes nothing has checked -/
def FollowClosed (G : Grammar) (fst : Firsts) (W : List (List Bool)) (B : Nat) : List Sym → Prop
  | [] => True
  | .tok _ :: rest => FollowClosed G fst W B rest
  | .rule q :: rest =>
    FollowClosed G fst W B rest ∧
    (seqNullable (epsF fst) rest = true → ∀ t, t < G.ntoks → mget W B t = true → mget W q t = true) ∧
    NxtClosed G fst W q rest

theorem followSyms_closed (G : Grammar) (fst : Firsts) (ridx : Nat) :
    ∀ (l : List Sym) (s : WS) (se : WS × Bool), followSyms G fst ridx l s = some se → se.1.2 = false →
      s.2 = false ∧ se.1.1 = s.1 ∧ FollowClosed G fst s.1 ridx l := by
  intro l
  induction l with
  | nil =>
    intro s se h hc
    simp only [followSyms, Option.some.injEq] at h
    subst h; exact ⟨hc, rfl, trivial⟩
  | cons x rest ih =>
    intro s se h hc
    simp only [followSyms] at h
    split at h
    · cases h
    · next se1 h1 =>
      have e1 := followSyms_eps G fst ridx rest s se1 h1
      cases x with
      | tok t =>
        simp only [followSym, Option.some.injEq] at h
        subst h
        exact ih s se1 h1 hc
      | rule q =>
        simp only [followSym] at h
        split at h
        · split at h
          · cases h
          · next s3 h3 =>
            simp only [Option.some.injEq] at h
            subst h
            obtain ⟨a3, b3, c3⟩ := nxtSyms_closed G fst q rest _ s3 h3 hc
            have key : se1.1.2 = false ∧
                (if se1.2 = true then inheritRow G ridx q se1.1 else se1.1).1 = se1.1.1 ∧
                (se1.2 = true → ∀ t, t < G.ntoks → mget se1.1.1 ridx t = true → mget se1.1.1 q t = true) := by
              split at a3
              · next he =>
                rw [if_pos he]
                obtain ⟨a, b, c⟩ := inheritRow_closed G ridx q se1.1 a3
                exact ⟨a, b, fun _ => c⟩
              · next he =>
                rw [if_neg he]
                exact ⟨a3, rfl, fun h => absurd h he⟩
            obtain ⟨a2, b2, c2⟩ := key
            obtain ⟨a1, b1, c1⟩ := ih s se1 h1 a2
            rw [b2, b1] at c3
            refine ⟨a1, (b3.trans b2).trans b1, c1, ?_, c3⟩
            intro hn
            rw [← b1]
            exact c2 (by rw [e1]; exact hn)
        · cases h

theorem followClosed_spec (G : Grammar) (fst : Firsts) (W : List (List Bool)) (B : Nat) :
    ∀ l : List Sym, FollowClosed G fst W B l →
      ∀ A t, t < G.ntoks → followOcc (epsF fst) (firstF fst) (followF W) B A t l = true → mget W A t = true := by
  intro l
  induction l with
  | nil => intro _ A t _ h; simp [followOcc] at h
  | cons x rest ih =>
    intro h A t ht ho
    cases x with
    | tok a =>
      simp only [FollowClosed] at h
      simp only [followOcc] at ho
      exact ih h A t ht ho
    | rule q =>
      simp only [FollowClosed] at h
      obtain ⟨h1, h2, h3⟩ := h
      simp only [followOcc, Bool.or_eq_true, Bool.and_eq_true, beq_iff_eq] at ho
      rcases ho with ⟨rfl, ho⟩ | ho
      · rcases ho with ho | ⟨hn, hb⟩
        · exact nxtClosed_spec G fst W q rest h3 t ht ho
        · exact h2 hn t ht hb
      · exact ih h1 A t ht ho

/-! ### productions, one round -/

theorem followProd_step (G : Grammar) (fst : Firsts) (hx : FExact G fst) (hwf : G.wf = true) {p : Nat}
    (hp : p < G.nprods) (s : WS) (hI : WInv G s.1) :
    ∃ s', followProd G fst s p = some s' ∧ WStep G s s' := by
  obtain ⟨se, h1, st⟩ := followSyms_step G fst hx hp (G.rhs p) [] s rfl (fun x hx => wf_sym hwf hp hx) hI
  exact ⟨se.1, by simp [followProd, h1], st⟩

theorem followProd_closed (G : Grammar) (fst : Firsts) (p : Nat) (s s' : WS)
    (h : followProd G fst s p = some s') (hc : s'.2 = false) :
    s.2 = false ∧ s'.1 = s.1 ∧ FollowClosed G fst s.1 (G.lhs p) (G.rhs p) := by
  unfold followProd at h
  split at h
  · cases h
  · next se h1 =>
    simp only [Option.some.injEq] at h
    subst h
    exact followSyms_closed G fst _ _ s se h1 hc

theorem followRound_step (G : Grammar) (fst : Firsts) (hx : FExact G fst) (hwf : G.wf = true)
    (W : List (List Bool)) (hI : WInv G W) :
    ∃ r, followRound G fst W = some r ∧ WStep G (W, false) r := by
  unfold followRound
  apply iterM_step wbit _ (WInv G) (followProd G fst) (fun p => p < G.nprods)
  · intro p s hp hI; exact followProd_step G fst hx hwf hp s hI
  · intro p hp; simpa using hp
  · exact hI

theorem followRound_closed (G : Grammar) (fst : Firsts) (W : List (List Bool)) (r : WS)
    (h : followRound G fst W = some r) (hc : r.2 = false) :
    r.1 = W ∧ ∀ p, p < G.nprods → FollowClosed G fst W (G.lhs p) (G.rhs p) := by
  unfold followRound at h
  obtain ⟨_, b, c⟩ := iterM_closed (followProd G fst)
    (fun p W => FollowClosed G fst W (G.lhs p) (G.rhs p))
    (fun p s s' h hc => followProd_closed G fst p s s' h hc) (List.range G.nprods) (W, false) r h hc
  exact ⟨b, fun p hp => c p (by simpa using hp)⟩

/-! ### a table closed under every production contains the textbook FOLLOW sets -/

theorem firstSeqP_tok_lt {G : Grammar} (hwf : G.wf = true) {p : Nat} (hp : p < G.nprods)
    {γ l : List Sym} (hrhs : G.rhs p = γ ++ l) {t : Nat} (h : FirstSeqP G l t) : t < G.ntoks := by
  obtain ⟨α, X, β, h1, _, h3⟩ := h
  rcases h3 with rfl | ⟨q, rfl, hq⟩
  · have := wf_sym hwf hp (s := .tok t) (by rw [hrhs, h1]; simp)
    simpa [Grammar.symOk] using this
  · exact firstP_tok_lt hwf hq

theorem followP_tok_lt {G : Grammar} (hwf : G.wf = true) {A t : Nat} (h : FollowP G A t) : t < G.ntoks := by
  induction h with
  | start => exact wf_eof hwf
  | first p α A β t hp hrhs hfs =>
    exact firstSeqP_tok_lt hwf hp (γ := α ++ [.rule A]) (by rw [hrhs]; simp) hfs
  | inherit _ _ _ _ _ _ _ _ _ ih => exact ih

theorem closed_follow {G : Grammar} (hwf : G.wf = true) {fst : Firsts} (hx : FExact G fst)
    {W : List (List Bool)} (hstart : mget W G.startRule G.eof = true)
    (hcl : ∀ p, p < G.nprods → FollowClosed G fst W (G.lhs p) (G.rhs p)) {A t : Nat} (h : FollowP G A t) :
    mget W A t = true := by
  induction h with
  | start => exact hstart
  | first p α A β t hp hrhs hfs =>
    have ht : t < G.ntoks := followP_tok_lt hwf (.first p α A β t hp hrhs hfs)
    apply followClosed_spec G fst W _ _ (hcl p hp) A t ht
    refine (followOcc_iff _ _ _ _ _ _ _).mpr ⟨α, β, hrhs, Or.inl ?_⟩
    exact (firstSeq_iff hx.eps hx.first β t).mpr hfs
  | inherit p α A β t hp hrhs hβ hf ih =>
    have ht : t < G.ntoks := followP_tok_lt hwf hf
    apply followClosed_spec G fst W _ _ (hcl p hp) A t ht
    refine (followOcc_iff _ _ _ _ _ _ _).mpr ⟨α, β, hrhs, Or.inr ⟨?_, ih⟩⟩
    exact (seqNullable_iff hx.eps β).mpr hβ

/-! ### the whole constructor -/

/-- `followsFuel G` rounds suffice; the result is sound, holds the start bit and is closed -/
theorem followsNew_spec (G : Grammar) (hwf : G.wf = true) (fst : Firsts) (hx : FExact G fst) :
    ∃ W, followsNew G fst (followsFuel G) = .done W ∧ WInv G W ∧ mget W G.startRule G.eof = true ∧
      ∀ p, p < G.nprods → FollowClosed G fst W (G.lhs p) (G.rhs p) := by
  have hs := wf_startRule hwf
  have he := wf_eof hwf
  have hd := mdims_mnew G.nrules G.ntoks
  have h0 : WInv G (mset (mnew G.nrules G.ntoks) G.startRule G.eof) := by
    refine ⟨mdims_mset hd _ _, ?_⟩
    intro A t h
    rw [mget_mset hd hs he, mget_mnew] at h
    simp only [Bool.or_false, decide_eq_true_eq] at h
    obtain ⟨rfl, rfl⟩ := h
    exact .start
  have hbit : mget (mset (mnew G.nrules G.ntoks) G.startRule G.eof) G.startRule G.eof = true := by
    rw [mget_mset hd hs he]; simp
  have hmu : mu wbit (pairs G.nrules G.ntoks) (mset (mnew G.nrules G.ntoks) G.startRule G.eof) < followsFuel G := by
    have := mu_le_length wbit (pairs G.nrules G.ntoks) (mset (mnew G.nrules G.ntoks) G.startRule G.eof)
    rw [Total.pairs_length] at this
    unfold followsFuel; omega
  obtain ⟨W, h1, h2, h3, h4⟩ := runLoop_spec wbit (pairs G.nrules G.ntoks) (WInv G) (followRound G fst)
    (fun s hI => followRound_step G fst hx hwf s hI)
    (fun s r h hc => (followRound_closed G fst s r h hc).1) (followsFuel G) _ h0 hmu
  refine ⟨W, ?_, h2, h3 (G.startRule, G.eof) hbit, (followRound_closed G fst W _ h4 rfl).2⟩
  simp only [followsNew, hs, he, decide_true, Bool.and_self, if_true]
  exact h1

/-! ### summary: both constructors, any sufficient fuel -/

theorem firstsNew_exact (G : Grammar) (hwf : G.wf = true) :
    ∃ fst, (∀ fuel, firstsFuel G ≤ fuel → firstsNew G fuel = .done fst) ∧ FExact G fst := by
  obtain ⟨fst, h1, h2, h3⟩ := firstsNew_spec G hwf
  refine ⟨fst, ?_, ⟨fun r => ⟨h2.sndE r, closed_nullable h3⟩, fun r t => ⟨h2.sndF r t, closed_first hwf h3⟩⟩⟩
  intro fuel hf
  obtain ⟨k, rfl⟩ := Nat.exists_eq_add_of_le hf
  exact runLoop_more_fuel _ _ _ _ h1 k

theorem followsNew_exact (G : Grammar) (hwf : G.wf = true) (fst : Firsts) (hx : FExact G fst) :
    ∃ W, (∀ fuel, followsFuel G ≤ fuel → followsNew G fst fuel = .done W) ∧
      ∀ A t, mget W A t = true ↔ FollowP G A t := by
  obtain ⟨W, h1, h2, h3, h4⟩ := followsNew_spec G hwf fst hx
  refine ⟨W, ?_, fun A t => ⟨h2.snd A t, closed_follow hwf hx h3 h4⟩⟩
  intro fuel hf
  obtain ⟨k, rfl⟩ := Nat.exists_eq_add_of_le hf
  have hs := wf_startRule hwf
  have he := wf_eof hwf
  simp only [followsNew, hs, he, decide_true, Bool.and_self, if_true] at h1 ⊢
  exact runLoop_more_fuel _ _ _ _ h1 k

end GrmVerif.Impl
