import GrmVerif.Lemmas.Term2
/-!
Termination from the certificate over ADJACENT pairs only (`termCheckAdj`): parse stacks are paths of
the automaton from the start state, reductions keep them paths (a goto target is an edge target), so
only pairs `[s, b]` with an edge `b → s` and the single stack `[start]` can be the top of a stack.

Converse: a local run that comes back to the same top part of its local stack (without having popped
below it) makes `feed` diverge on every stack that ends in that local stack, and for a reachable lower state there is such a stack that is a path.
-/
namespace GrmVerif.Term
open GrmVerif Rec LR Cert Spec

/-- `xs` (top first) is a path of the automaton from the start state -/
def IsPath (A : Automaton) (xs : List Nat) : Prop := ∃ labels, Path A xs labels

theorem IsPath.start (A : Automaton) : IsPath A [A.start] := ⟨[], .base⟩

theorem IsPath.single {A : Automaton} {s : Nat} (h : IsPath A [s]) : s = A.start := by
  obtain ⟨labels, hp⟩ := h
  cases hp with
  | base => rfl

theorem IsPath.tail {A : Automaton} {t s : Nat} {rest : List Nat} (h : IsPath A (t :: s :: rest)) :
    IsPath A (s :: rest) ∧ ∃ X, A.edge s X = some t := by
  obtain ⟨labels, hp⟩ := h
  cases hp with
  | step _ _ _ labels1 X hp1 he => exact ⟨⟨labels1, hp1⟩, X, he⟩

theorem IsPath.push {A : Automaton} {t s : Nat} {rest : List Nat} {X : Sym} (h : IsPath A (s :: rest))
    (he : A.edge s X = some t) : IsPath A (t :: s :: rest) := by
  obtain ⟨labels, hp⟩ := h
  exact ⟨X :: labels, .step s t rest labels X hp he⟩

theorem IsPath.drop {A : Automaton} : ∀ (n : Nat) (xs : List Nat) (prior : Nat) (rest : List Nat),
    IsPath A xs → xs.drop n = prior :: rest → IsPath A (prior :: rest) := by
  intro n
  induction n with
  | zero => intro xs prior rest h hd; rw [List.drop_zero] at hd; rw [← hd]; exact h
  | succ n ih =>
    intro xs prior rest h hd
    cases xs with
    | nil => simp at hd
    | cons a tl =>
      cases tl with
      | nil => simp at hd
      | cons b r =>
        rw [List.drop_succ_cons] at hd
        exact ih (b :: r) prior rest h.tail.1 hd

theorem IsPath.states_lt {G : Grammar} {A : Automaton} (P : Props G A) {xs : List Nat} (h : IsPath A xs) :
    ∀ s ∈ xs, s < A.nstates := by
  obtain ⟨labels, hp⟩ := h
  exact hp.states_lt P

/-- under the certificate, reductions keep a path a path: the goto target is an edge target -/
theorem stepClosed_isPath {G : Grammar} {A : Automaton} (P : Props G A) (la : Nat) (hla : la < G.ntoks) :
    StepClosed G A la (IsPath A) := by
  intro st tl p prior rest s' hQ hact hd hg
  have hst : st < A.nstates := hQ.states_lt P st (by simp)
  obtain ⟨_, hpn, _⟩ := P.actReduce st la p hst hla hact
  have hr : G.lhs p < G.nrules := wf_lhs P.wf hpn
  have hpr : IsPath A (prior :: rest) := IsPath.drop _ _ _ _ hQ hd
  have hp : prior < A.nstates := hpr.states_lt P prior (by simp)
  rw [P.gotoEdge prior (G.lhs p) hp hr] at hg
  exact hpr.push hg

theorem adj_iff (A : Automaton) (b s : Nat) : adj A b s = true ↔ ∃ X, A.edge b X = some s := by
  simp only [adj, List.any_eq_true, beq_iff_eq]
  constructor
  · rintro ⟨e, _, he⟩; exact ⟨e.1, he⟩
  · rintro ⟨X, hX⟩; exact ⟨(X, s), edge_mem hX, hX⟩

theorem termCheckAdj_props {G : Grammar} {A : Automaton} {N : Nat} (h : termCheckAdj G A N = true)
    (la : Nat) (hla : la < G.ntoks) :
    localRun G A la N [A.start] ≠ .fuelOut ∧
    (∀ s b, b < A.nstates → (∃ X, A.edge b X = some s) → localRun G A la N [s, b] ≠ .fuelOut) := by
  simp only [termCheckAdj, List.all_eq_true, List.mem_range, Bool.and_eq_true, Bool.or_eq_true,
    bne_iff_ne, ne_eq] at h
  refine ⟨(h la hla).1, ?_⟩
  rintro s b hb ⟨X, hX⟩
  rcases (h la hla).2 b hb (X, s) (edge_mem hX) with h1 | h1
  · exact absurd hX h1
  · exact h1

/-- the driver's search for a failing pair finds none exactly when the certificate holds -/
theorem failAdj_none_iff (G : Grammar) (A : Automaton) (N : Nat) :
    failAdj G A N = none ↔ termCheckAdj G A N = true := by
  simp only [failAdj, termCheckAdj, List.findSome?_eq_none_iff, List.all_eq_true, List.mem_range,
    Bool.and_eq_true, Bool.or_eq_true, bne_iff_ne, ne_eq]
  constructor
  · intro h la hla
    have h1 := h la hla
    by_cases hs : (localRun G A la N [A.start] == LRes.fuelOut) = true
    · rw [if_pos hs] at h1; cases h1
    · rw [if_neg hs] at h1
      refine ⟨by simpa using hs, ?_⟩
      intro b hb e he
      have h2 := List.findSome?_eq_none_iff.mp (List.findSome?_eq_none_iff.mp h1 b (List.mem_range.mpr hb)) e he
      by_cases hc : (A.edge b e.1 == some e.2) = true ∧ (localRun G A la N [e.2, b] == LRes.fuelOut) = true
      · rw [if_pos hc] at h2; cases h2
      · simp only [beq_iff_eq, not_and] at hc
        by_cases hedge : A.edge b e.1 = some e.2
        · exact Or.inr (hc hedge)
        · exact Or.inl hedge
  · intro h la hla
    obtain ⟨h1, h2⟩ := h la hla
    have hs : ¬ (localRun G A la N [A.start] == LRes.fuelOut) = true := by simpa using h1
    rw [if_neg hs]
    apply List.findSome?_eq_none_iff.mpr
    intro b hb
    apply List.findSome?_eq_none_iff.mpr
    intro e he
    have hc : ¬ ((A.edge b e.1 == some e.2) = true ∧ (localRun G A la N [e.2, b] == LRes.fuelOut) = true) := by
      simp only [beq_iff_eq, not_and]
      intro hedge
      rcases h2 b (List.mem_range.mp hb) e he with h3 | h3
      · exact absurd hedge h3
      · exact h3
    rw [if_neg hc]

/-- the all-pairs certificate implies the adjacent-pairs one (on a certified automaton) -/
theorem termCheckAdj_of_termCheck {G : Grammar} {A : Automaton} (P : Props G A) {N : Nat}
    (h : termCheck G A N = true) : termCheckAdj G A N = true := by
  simp only [termCheckAdj, List.all_eq_true, List.mem_range, Bool.and_eq_true, Bool.or_eq_true,
    bne_iff_ne, ne_eq]
  intro la hla
  obtain ⟨H1, H2⟩ := termCheck_props h la hla
  refine ⟨H1 _ P.startLt, ?_⟩
  intro b hb e he
  exact Or.inr (H2 e.2 b (P.edgeTarget b hb e he).1 hb)

/-- **`feed` terminates on every stack that is a path**, from the adjacent-pairs certificate -/
theorem feed_total_adj {G : Grammar} {A : Automaton} (P : Props G A) {N : Nat}
    (ht : termCheckAdj G A N = true) (la : Nat) (hla : la < G.ntoks) (stack : List Nat)
    (hp : IsPath A stack) : ∃ fuel, feed G A la fuel stack ≠ .fuelOut := by
  obtain ⟨H1, H2⟩ := termCheckAdj_props ht la hla
  refine feed_total_of G A la N (IsPath A) (stepClosed_isPath P la hla) ?_ ?_ stack.length stack
    (Nat.le_refl _) hp
  · intro s hs; rw [hs.single]; exact H1
  · intro s b rest hs
    obtain ⟨hbr, hX⟩ := hs.tail
    exact H2 s b (hbr.states_lt P b (by simp)) hX

/-- **The LR driver terminates.** On an automaton that passes `check` and whose local reduction runs
from `[start]` and from every pair of states joined by an edge all end (`termCheckAdj`), every parse
of every input ends with some amount of fuel. -/
theorem run_total_adj {G : Grammar} {A : Automaton} (P : Props G A) {N : Nat}
    (ht : termCheckAdj G A N = true) {w : List Nat} (hw : InputOk G w) :
    ∀ (k : Nat) (c : Cfg), Inv G A w c → w.length - c.laidx ≤ k → ∃ fuel, run G A w fuel c ≠ .fuelOut :=
  run_total_of_feed P (fun la hla stack labels hp => feed_total_adj P ht la hla stack ⟨labels, hp⟩) hw

/-! ### the converse: a failing pair that cycles -/

theorem localStep_feed {G : Grammar} {A : Automaton} {la : Nat} {xs xs' : List Nat}
    (h : localStep G A la xs = some xs') (ys : List Nat) (f : Nat) :
    feed G A la (f + 1) (xs ++ ys) = feed G A la f (xs' ++ ys) := by
  cases xs with
  | nil => simp [localStep] at h
  | cons st tl =>
    simp only [localStep] at h
    cases hact : A.action st la with
    | shift s' => rw [hact] at h; simp at h
    | accept => rw [hact] at h; simp at h
    | error => rw [hact] at h; simp at h
    | reduce p =>
      rw [hact] at h
      simp only at h
      by_cases hle : (st :: tl).length ≤ (G.rhs p).length
      · rw [if_pos hle] at h; simp at h
      · rw [if_neg hle] at h
        have hdrop : List.drop (G.rhs p).length (st :: tl ++ ys) =
            List.drop (G.rhs p).length (st :: tl) ++ ys := by
          rw [List.drop_append]
          have : (G.rhs p).length - (st :: tl).length = 0 := by omega
          rw [this, List.drop_zero]
        have hle2 : ¬ (st :: tl ++ ys).length ≤ (G.rhs p).length := by
          simp only [List.length_append]; omega
        cases hd : List.drop (G.rhs p).length (st :: tl) with
        | nil => rw [hd] at h; simp at h
        | cons prior rest =>
          rw [hd] at h hdrop
          simp only at h
          cases hg : A.goto prior (G.lhs p) with
          | none => rw [hg] at h; simp at h
          | some s1 =>
            rw [hg] at h
            simp only [Option.some.injEq] at h
            subst h
            simp only [List.cons_append] at hle2 hdrop
            simp only [feed, List.cons_append, hact]
            rw [if_neg hle2, hdrop]; simp [hg]

/-- a local run that is still going after `N` steps: so is the real run, on every stack above which
the local stack sits (the local run is the real run as long as it does not pop below) -/
theorem localRun_fuelOut_feed {G : Grammar} {A : Automaton} {la : Nat} :
    ∀ (N : Nat) (xs ys : List Nat), localRun G A la N xs = .fuelOut → feed G A la N (xs ++ ys) = .fuelOut := by
  intro N
  induction N with
  | zero => intro xs ys _; simp [feed]
  | succ n ih =>
    intro xs ys h
    cases hs : localStep G A la xs with
    | some xs' =>
      rw [localStep_feed hs]
      apply ih
      -- the local run made the same step
      cases xs with
      | nil => simp [localStep] at hs
      | cons st tl =>
        simp only [localStep] at hs
        simp only [localRun] at h
        cases hact : A.action st la with
        | shift s' => rw [hact] at hs; simp at hs
        | accept => rw [hact] at hs; simp at hs
        | error => rw [hact] at hs; simp at hs
        | reduce p =>
          rw [hact] at hs h
          simp only at hs h
          by_cases hle : (st :: tl).length ≤ (G.rhs p).length
          · rw [if_pos hle] at hs; simp at hs
          · rw [if_neg hle] at hs h
            cases hd : List.drop (G.rhs p).length (st :: tl) with
            | nil => rw [hd] at hs; simp at hs
            | cons prior rest =>
              rw [hd] at hs h
              simp only at hs h
              cases hg : A.goto prior (G.lhs p) with
              | none => rw [hg] at hs; simp at hs
              | some s1 =>
                rw [hg] at hs h
                simp only [Option.some.injEq] at hs
                subst hs
                exact h
    | none =>
      exfalso
      cases xs with
      | nil => simp [localRun] at h
      | cons st tl =>
        simp only [localStep] at hs
        simp only [localRun] at h
        cases hact : A.action st la with
        | shift s' => rw [hact] at h; simp at h
        | accept => rw [hact] at h; simp at h
        | error => rw [hact] at h; simp at h
        | reduce p =>
          rw [hact] at hs h
          simp only at hs h
          by_cases hle : (st :: tl).length ≤ (G.rhs p).length
          · rw [if_pos hle] at h; simp at h
          · rw [if_neg hle] at hs h
            cases hd : List.drop (G.rhs p).length (st :: tl) with
            | nil => rw [hd] at h; simp at h
            | cons prior rest =>
              rw [hd] at hs h
              simp only at hs h
              cases hg : A.goto prior (G.lhs p) with
              | none => rw [hg] at h; simp at h
              | some s1 => rw [hg] at hs; simp at hs

theorem localIter_feed {G : Grammar} {A : Automaton} {la : Nat} (ys : List Nat) :
    ∀ (k : Nat) (xs xs' : List Nat), localIter G A la k xs = some xs' →
      ∀ fuel, feed G A la fuel (xs ++ ys) ≠ .fuelOut →
        k ≤ fuel ∧ feed G A la fuel (xs ++ ys) = feed G A la (fuel - k) (xs' ++ ys) := by
  intro k
  induction k with
  | zero =>
    intro xs xs' h fuel _
    simp only [localIter, Option.some.injEq] at h
    subst h
    exact ⟨Nat.zero_le _, rfl⟩
  | succ k ih =>
    intro xs xs' h fuel hf
    simp only [localIter] at h
    cases hs : localStep G A la xs with
    | none => rw [hs] at h; simp at h
    | some xs1 =>
      rw [hs] at h
      simp only at h
      cases fuel with
      | zero => simp [feed] at hf
      | succ f =>
        rw [localStep_feed hs] at hf ⊢
        obtain ⟨h1, h2⟩ := ih xs1 xs' h f hf
        refine ⟨by omega, ?_⟩
        rw [h2]
        congr 1
        omega

theorem localIter_add {G : Grammar} {A : Automaton} {la : Nat} :
    ∀ (j k : Nat) (xs ys zs : List Nat), localIter G A la j xs = some ys → localIter G A la k ys = some zs →
      localIter G A la (j + k) xs = some zs := by
  intro j
  induction j with
  | zero =>
    intro k xs ys zs h1 h2
    simp only [localIter, Option.some.injEq] at h1
    subst h1
    simpa using h2
  | succ j ih =>
    intro k xs ys zs h1 h2
    have e : j + 1 + k = (j + k) + 1 := by omega
    rw [e]
    simp only [localIter] at h1 ⊢
    cases hs : localStep G A la xs with
    | none => rw [hs] at h1; simp at h1
    | some xs1 =>
      rw [hs] at h1
      simp only at h1 ⊢
      exact ih k xs1 ys zs h1 h2

/-- **A local loop is a real divergence.** If `k ≥ 1` local reductions lead from `ts` to `ts ++ vs` (the
same top part again; `vs = []` is a return to the same stack, `vs ≠ []` a stack that grows for ever),
and a stack with top part `ts` is reached from `xs` by local reductions, then `feed` never ends on
any stack `xs ++ ys`. -/
theorem cycle_diverges {G : Grammar} {A : Automaton} {la : Nat} {xs ts bs vs : List Nat} {pre k : Nat}
    (hpre : localIter G A la pre xs = some (ts ++ bs)) (hk : 0 < k)
    (hcyc : localIter G A la k ts = some (ts ++ vs))
    (ys : List Nat) : ∀ fuel, feed G A la fuel (xs ++ ys) = .fuelOut := by
  have hz : ∀ fuel ys, feed G A la fuel (ts ++ ys) = .fuelOut := by
    intro fuel
    induction fuel using Nat.strongRecOn with
    | _ fuel ih =>
      intro ys
      apply Classical.byContradiction
      intro hne
      obtain ⟨h1, h2⟩ := localIter_feed ys k ts (ts ++ vs) hcyc fuel hne
      have : fuel - k < fuel := by
        cases fuel with
        | zero => simp [feed] at hne
        | succ f => omega
      rw [List.append_assoc, ih _ this] at h2
      exact hne h2
  intro fuel
  apply Classical.byContradiction
  intro hne
  obtain ⟨_, h2⟩ := localIter_feed ys pre xs (ts ++ bs) hpre fuel hne
  rw [List.append_assoc, hz] at h2
  exact hne h2

theorem returnsTo_sound {G : Grammar} {A : Automaton} {la : Nat} {target : List Nat} :
    ∀ (fuel k0 : Nat) (xs : List Nat) (k : Nat), returnsTo G A la target fuel k0 xs = some k →
      ∃ j vs, 0 < j ∧ localIter G A la j xs = some (target ++ vs) := by
  intro fuel
  induction fuel with
  | zero => intro k0 xs k h; simp [returnsTo] at h
  | succ f ih =>
    intro k0 xs k h
    simp only [returnsTo] at h
    cases hs : localStep G A la xs with
    | none => rw [hs] at h; simp at h
    | some xs1 =>
      rw [hs] at h
      simp only at h
      by_cases he : target.isPrefixOf xs1 = true
      · obtain ⟨vs, hvs⟩ := List.isPrefixOf_iff_prefix.mp he
        exact ⟨1, vs, by omega, by simp [localIter, hs, hvs]⟩
      · rw [if_neg he] at h
        obtain ⟨j, vs, hj, hit⟩ := ih (k0 + 1) xs1 k h
        exact ⟨j + 1, vs, by omega, by simp only [localIter, hs]; exact hit⟩

theorem findCycle_sound {G : Grammar} {A : Automaton} {la W : Nat} :
    ∀ (steps pre0 : Nat) (xs : List Nat) (c : Nat × Nat × Nat), findCycle G A la W steps pre0 xs = some c →
      ∃ pre ts bs vs j, localIter G A la pre xs = some (ts ++ bs) ∧ 0 < j ∧
        localIter G A la j ts = some (ts ++ vs) := by
  intro steps
  induction steps with
  | zero => intro pre0 xs c h; simp [findCycle] at h
  | succ r ih =>
    intro pre0 zs c h
    simp only [findCycle] at h
    cases hr : [1, 2, zs.length].findSome? (fun m =>
        (returnsTo G A la (zs.take m) W 0 (zs.take m)).map (fun k => (m, k))) with
    | some mk =>
      obtain ⟨m, _, hm⟩ := List.exists_of_findSome?_eq_some hr
      cases hrt : returnsTo G A la (zs.take m) W 0 (zs.take m) with
      | none => rw [hrt] at hm; simp at hm
      | some k =>
        obtain ⟨j, vs, hj, hit⟩ := returnsTo_sound _ _ _ _ hrt
        exact ⟨0, zs.take m, zs.drop m, vs, j, by rw [List.take_append_drop]; rfl, hj, hit⟩
    | none =>
      rw [hr] at h
      simp only at h
      cases hs : localStep G A la zs with
      | none => rw [hs] at h; simp at h
      | some zs' =>
        rw [hs] at h
        simp only at h
        obtain ⟨pre, ts, bs, vs, j, h1, hj, h2⟩ := ih _ zs' c h
        exact ⟨pre + 1, ts, bs, vs, j, by simp only [localIter, hs]; exact h1, hj, h2⟩

/-- a loop reported by `findCycle`: `feed` diverges on every stack that ends in `xs` -/
theorem findCycle_diverges {G : Grammar} {A : Automaton} {la W : Nat} {xs : List Nat} {steps pre0 : Nat}
    {c : Nat × Nat × Nat} (h : findCycle G A la W steps pre0 xs = some c) (ys : List Nat) :
    ∀ fuel, feed G A la fuel (xs ++ ys) = .fuelOut := by
  obtain ⟨pre, ts, bs, vs, j, h1, hj, h2⟩ := findCycle_sound steps pre0 xs c h
  exact cycle_diverges h1 hj h2 ys

/-! ### a run of `feed` that never ends is a run of the driver that never ends -/

theorem feed_fuelOut_run {G : Grammar} {A : Automaton} {w : List Nat} (laidx : Nat) :
    ∀ (fuel : Nat) (stack : List Nat) (astack : List Tree),
      feed G A (nextTok G w laidx) fuel stack = .fuelOut → run G A w fuel ⟨stack, astack, laidx⟩ = .fuelOut := by
  intro fuel
  induction fuel with
  | zero => intro stack astack _; simp [run]
  | succ f ih =>
    intro stack astack h
    cases stack with
    | nil => simp [feed] at h
    | cons st rest =>
      cases hact : A.action st (nextTok G w laidx) with
      | shift s1 => simp [feed, hact] at h
      | error => simp [feed, hact] at h
      | accept => simp [feed, hact] at h
      | reduce p =>
        simp only [feed, hact] at h
        by_cases hle : (st :: rest).length ≤ (G.rhs p).length
        · rw [if_pos hle] at h; simp at h
        · rw [if_neg hle] at h
          cases hd : List.drop (G.rhs p).length (st :: rest) with
          | nil => rw [hd] at h; simp at h
          | cons prior tl =>
            rw [hd] at h
            simp only at h
            cases hg : A.goto prior (G.lhs p) with
            | none => rw [hg] at h; simp at h
            | some s1 =>
              rw [hg] at h
              simp only at h
              have hstep : LR.step G A w ⟨st :: rest, astack, laidx⟩ =
                  .cont ⟨s1 :: prior :: tl, .node p (astack.take (G.rhs p).length).reverse :: astack.drop (G.rhs p).length, laidx⟩ := by
                simp only [LR.step, hact]; rw [if_neg hle, hd]; simp [hg]
              simp only [run, hstep]
              exact ih _ _ h

theorem steps_diverge {G : Grammar} {A : Automaton} {w : List Nat} {a b : Cfg} (h : Steps G A w a b)
    (hb : ∀ fuel, run G A w fuel b = .fuelOut) : ∀ fuel, run G A w fuel a = .fuelOut := by
  induction h with
  | refl _ => exact hb
  | step x y z hs _ ih =>
    intro fuel
    cases fuel with
    | zero => simp [run]
    | succ f => simp only [run, hs]; exact ih hb f

/-! ### reachable states have a path -/

theorem reachFrom_sound {A : Automaton} : ∀ (fuel : Nat) (seen : List Nat),
    (∀ s ∈ seen, ∃ rest, IsPath A (s :: rest)) → ∀ s ∈ reachFrom A fuel seen, ∃ rest, IsPath A (s :: rest) := by
  intro fuel
  induction fuel with
  | zero => intro seen h; simpa [reachFrom] using h
  | succ f ih =>
    intro seen h
    simp only [reachFrom]
    split
    · exact h
    · apply ih
      intro s hs
      rcases List.mem_append.mp hs with hs | hs
      · exact h s hs
      · rw [List.mem_eraseDups] at hs
        have hs := (List.mem_filter.mp hs).1
        obtain ⟨b, hb, hs⟩ := List.mem_flatMap.mp hs
        obtain ⟨e, _, he⟩ := List.mem_filterMap.mp hs
        obtain ⟨rest, hp⟩ := h b hb
        exact ⟨b :: rest, hp.push he⟩

theorem reachable_sound {A : Automaton} {s : Nat} (h : s ∈ reachable A) : ∃ rest, IsPath A (s :: rest) := by
  refine reachFrom_sound A.nstates [A.start] ?_ s h
  intro x hx
  simp only [List.mem_singleton] at hx
  subst hx
  exact ⟨[], IsPath.start A⟩

end GrmVerif.Term
