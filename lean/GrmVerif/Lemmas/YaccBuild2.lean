import GrmVerif.Lemmas.YaccBuild
/-!
The range invariant of the main loop of `buildGrammar` (C10, stage A): every index stored anywhere
is in range.
-/
namespace GrmVerif.YaccBuild
open GrmVerif

def SymOk (R T : Nat) : Sym → Prop
  | .tok t => t < T
  | .rule r => r < R

def RecOk (R T : Nat) (r : PRec) : Prop := r.rule < R ∧ ∀ s ∈ r.rhs, SymOk R T s

structure Inv (R T : Nat) (st : St) : Prop where
  recs : ∀ r, some r ∈ st.slots → RecOk R T r
  rp : ∀ l ∈ st.rulesProds, ∀ p ∈ l, p < st.slots.length
  rpLen : st.rulesProds.length = R
  atLen : st.actiontypes.length = R

/-- the maps only return indices in range -/
structure MapsOk (c : Ctx) (R T : Nat) : Prop where
  r : ∀ n j, c.rmap n = some j → j < R
  t : ∀ n j, c.tmap n = some j → j < T

theorem pushAt_spec {v v' : List (List Nat)} {i x : Nat} (h : pushAt v i x = some v') :
    v'.length = v.length ∧ ∀ l ∈ v', ∀ p ∈ l, (∃ l0 ∈ v, p ∈ l0) ∨ p = x := by
  unfold pushAt at h
  cases hv : v[i]? with
  | none => rw [hv] at h; cases h
  | some l0 =>
    rw [hv] at h
    simp only [Option.some.injEq] at h
    subst h
    refine ⟨by simp, ?_⟩
    intro l hl p hp
    rcases List.mem_or_eq_of_mem_set hl with hl | rfl
    · exact Or.inl ⟨l, hl, hp⟩
    · rcases List.mem_append.mp hp with hp | hp
      · exact Or.inl ⟨l0, List.mem_of_getElem? hv, hp⟩
      · exact Or.inr (by simpa using hp)

theorem setAt_spec {α : Type} {v v' : List α} {i : Nat} {x : α} (h : setAt v i x = some v') :
    v'.length = v.length ∧ i < v.length ∧ ∀ y ∈ v', y ∈ v ∨ y = x := by
  unfold setAt at h
  split at h
  · simp only [Option.some.injEq] at h
    subst h
    refine ⟨by simp, by assumption, ?_⟩
    intro y hy
    exact List.mem_or_eq_of_mem_set hy
  · cases h

theorem resolveSyms_ok {rmap tmap : Str → Option Nat} {impl : Option Str} {R T : Nat}
    (hr : ∀ n j, rmap n = some j → j < R) (ht : ∀ n j, tmap n = some j → j < T) :
    ∀ (syms : List ASym) (out : List Sym), resolveSyms rmap tmap impl syms = some out → ∀ s ∈ out, SymOk R T s := by
  intro syms
  induction syms with
  | nil => intro out h; simp only [resolveSyms, Option.some.injEq] at h; subst h; simp
  | cons x xs ih =>
    intro out h
    cases x with
    | rule n sp =>
      simp only [resolveSyms] at h
      cases h1 : rmap n with
      | none => simp [h1] at h
      | some r =>
        cases h2 : resolveSyms rmap tmap impl xs with
        | none => simp [h1, h2] at h
        | some tl =>
          simp only [h1, h2, Option.some.injEq] at h
          subst h
          intro s hs
          rcases List.mem_cons.mp hs with rfl | hs
          · exact hr _ _ h1
          · exact ih tl h2 s hs
    | tok n sp =>
      simp only [resolveSyms] at h
      cases h1 : tmap n with
      | none => simp [h1] at h
      | some t =>
        cases h2 : resolveSyms rmap tmap impl xs with
        | none => simp [h1, h2] at h
        | some tl =>
          simp only [h1, h2] at h
          cases impl with
          | none =>
            simp only [Option.some.injEq] at h
            subst h
            intro s hs
            rcases List.mem_cons.mp hs with rfl | hs
            · exact ht _ _ h1
            · exact ih tl h2 s hs
          | some ir =>
            simp only at h
            cases h3 : rmap ir with
            | none => simp [h3] at h
            | some r =>
              simp only [h3, Option.some.injEq] at h
              subst h
              intro s hs
              rcases List.mem_cons.mp hs with rfl | hs
              · exact ht _ _ h1
              · rcases List.mem_cons.mp hs with rfl | hs
                · exact hr _ _ h3
                · exact ih tl h2 s hs

theorem addedRec_ok {R T : Nat} {rhs : List Sym} {ridx : Nat} (h1 : ridx < R) (h2 : ∀ s ∈ rhs, SymOk R T s) :
    RecOk R T (addedRec rhs ridx) := ⟨h1, h2⟩

/-- appending one record and registering its index keeps the invariant -/
theorem inv_push {R T : Nat} {st : St} {rp : List (List Nat)} {ridx : Nat} {r : PRec}
    (hi : Inv R T st) (hp : pushAt st.rulesProds ridx st.slots.length = some rp) (hr : RecOk R T r) :
    Inv R T { st with rulesProds := rp, slots := st.slots ++ [some r] } := by
  obtain ⟨hlen, hmem⟩ := pushAt_spec hp
  refine ⟨?_, ?_, ?_, hi.atLen⟩
  · intro r' hr'
    rcases List.mem_append.mp hr' with h | h
    · exact hi.recs r' h
    · simp only [List.mem_singleton, Option.some.injEq] at h; subst h; exact hr
  · intro l hl p hpm
    simp only [List.length_append, List.length_singleton]
    rcases hmem l hl p hpm with ⟨l0, hl0, hp0⟩ | rfl
    · have := hi.rp l0 hl0 p hp0; omega
    · omega
  · show rp.length = R
    rw [hlen]; exact hi.rpLen

theorem implLoop_inv {c : Ctx} {R T : Nat} (hm : MapsOk c R T) {ridx : Nat} (hr : ridx < R) :
    ∀ (ts : List Str) (st st' : St), Inv R T st → implLoop c ridx ts st = some st' → Inv R T st' := by
  intro ts
  induction ts with
  | nil =>
    intro st st' hi h
    simp only [implLoop] at h
    cases hp : pushAt st.rulesProds ridx st.slots.length with
    | none => simp [hp] at h
    | some rp =>
      simp only [hp, Option.some.injEq] at h
      subst h
      exact inv_push hi hp (addedRec_ok hr (by simp))
  | cons t ts ih =>
    intro st st' hi h
    simp only [implLoop] at h
    cases hp : pushAt st.rulesProds ridx st.slots.length with
    | none => simp [hp] at h
    | some rp =>
      cases ht : c.tmap t with
      | none => simp [hp, ht] at h
      | some ti =>
        simp only [hp, ht] at h
        refine ih _ _ (inv_push hi hp (addedRec_ok hr ?_)) h
        intro s hs
        simp only [List.mem_cons, List.not_mem_nil, or_false] at hs
        rcases hs with rfl | rfl
        · exact hm.t _ _ ht
        · exact hr

theorem userLoop_inv {c : Ctx} {R T : Nat} (hm : MapsOk c R T) {ridx : Nat} (hr : ridx < R) :
    ∀ (ps : List Nat) (st st' : St), Inv R T st → userLoop c ridx ps st = some st' → Inv R T st' := by
  intro ps
  induction ps with
  | nil => intro st st' hi h; simp only [userLoop, Option.some.injEq] at h; subst h; exact hi
  | cons pidx rest ih =>
    intro st st' hi h
    simp only [userLoop] at h
    cases hp : c.ast.prods[pidx]? with
    | none => simp [hp] at h
    | some p =>
      simp only [hp] at h
      cases hu : userRec c ridx p with
      | none => simp [hu] at h
      | some r =>
        cases hpa : pushAt st.rulesProds ridx pidx with
        | none => simp [hu, hpa] at h
        | some rp =>
          simp only [hu, hpa] at h
          cases hs : setAt st.slots pidx (some r) with
          | none => simp [hs] at h
          | some sl =>
            simp only [hs] at h
            refine ih _ _ ?_ h
            obtain ⟨hlen, hmem⟩ := pushAt_spec hpa
            obtain ⟨hslen, hlt, hsmem⟩ := setAt_spec hs
            have hrok : RecOk R T r := by
              unfold userRec at hu
              cases h1 : resolveSyms c.rmap c.tmap c.implName p.syms with
              | none => simp [h1] at hu
              | some rhs =>
                cases h2 : prodPrec c.ast.precs p with
                | none => simp [h1, h2] at hu
                | some prec =>
                  simp only [h1, h2, Option.some.injEq] at hu
                  subst hu
                  exact ⟨hr, resolveSyms_ok hm.r hm.t _ _ h1⟩
            refine ⟨?_, ?_, ?_, hi.atLen⟩
            · intro r' hr'
              rcases hsmem _ hr' with h | h
              · exact hi.recs r' h
              · simp only [Option.some.injEq] at h; subst h; exact hrok
            · intro l hl q hq
              show q < sl.length
              rw [hslen]
              rcases hmem l hl q hq with ⟨l0, hl0, hq0⟩ | rfl
              · exact hi.rp l0 hl0 q hq0
              · exact hlt
            · show rp.length = R
              rw [hlen]; exact hi.rpLen

theorem stepRule_inv {c : Ctx} {R T : Nat} (hm : MapsOk c R T) (st : St) (n : Str) (st' : St)
    (hi : Inv R T st) (h : stepRule c st n = some st') : Inv R T st' := by
  unfold stepRule at h
  cases hr : c.rmap n with
  | none => simp [hr] at h
  | some ridx =>
    have hlt : ridx < R := hm.r _ _ hr
    simp only [hr] at h
    split at h
    · -- start rule
      unfold stepStart at h
      cases hp : pushAt st.rulesProds ridx st.slots.length with
      | none => simp [hp] at h
      | some rp =>
        cases ht : c.rmap (c.implStartName.getD c.userStart) with
        | none => simp [hp, ht] at h
        | some tgt =>
          simp only [hp, ht, Option.some.injEq] at h
          subst h
          refine inv_push hi hp (addedRec_ok hlt ?_)
          intro s hs
          simp only [List.mem_singleton] at hs
          subst hs
          exact hm.r _ _ ht
    · split at h
      · unfold stepImplStart at h
        cases hp : pushAt st.rulesProds ridx st.slots.length with
        | none => simp [hp] at h
        | some rp =>
          cases h1 : c.implName.bind c.rmap with
          | none => simp [hp, h1] at h
          | some ir =>
            cases h2 : c.rmap c.userStart with
            | none => simp [hp, h1, h2] at h
            | some s0 =>
              simp only [hp, h1, h2, Option.some.injEq] at h
              subst h
              refine inv_push hi hp (addedRec_ok hlt ?_)
              intro s hs
              simp only [List.mem_cons, List.not_mem_nil, or_false] at hs
              rcases hs with rfl | rfl
              · cases hn : c.implName with
                | none => simp [hn] at h1
                | some nm => simp only [hn, Option.bind_some] at h1; exact hm.r _ _ h1
              · exact hm.r _ _ h2
      · split at h
        · exact implLoop_inv hm hlt _ _ _ hi h
        · unfold stepUser at h
          cases hf : findRule c.ast.rules n with
          | none => simp [hf] at h
          | some r =>
            simp only [hf] at h
            cases hs : setAt st.actiontypes ridx r.actiont with
            | none => simp [hs] at h
            | some at' =>
              simp only [hs] at h
              refine userLoop_inv hm hlt _ _ _ ?_ h
              exact ⟨hi.recs, hi.rp, hi.rpLen, by show at'.length = R; rw [(setAt_spec hs).1]; exact hi.atLen⟩

/-- number of rules cfgrammar adds: `^`, and for Eco grammars with `%implicit_tokens` also `~` and `^~` -/
def addedRules (a : AST) (k : Kind) : Nat :=
  match k, a.implicitTokens with
  | .eco, some _ => 3
  | _, _ => 1

theorem ruleNamesOf_length (cfg : Cfg) (a : AST) (k : Kind) :
    (ruleNamesOf cfg a k).length = a.rules.length + addedRules a k := by
  unfold ruleNamesOf addedNames addedRules
  cases k <;> cases a.implicitTokens <;> simp <;> omega

theorem mkCtx_mapsOk (cfg : Cfg) (a : AST) (k : Kind) (us : Str) :
    MapsOk (mkCtx cfg a k us) (ruleNamesOf cfg a k).length (a.tokens.length + 1) := by
  constructor
  · intro n j h
    have h' : lastIdx ((ruleNamesOf cfg a k).map (·.1)) n = some j := by
      unfold mkCtx at h
      cases hk : addedNames cfg a k with
      | mk s rest => cases rest with | mk i is => simpa [hk] using h
    simpa using (lastIdx_lt h').1
  · intro n j h
    have h' : lastIdx (a.tokens.map (·.1)) n = some j := by
      unfold mkCtx at h
      cases hk : addedNames cfg a k with
      | mk s rest => cases rest with | mk i is => simpa [hk] using h
    have := (lastIdx_lt h').1
    simp at this; omega

theorem st0_inv (cfg : Cfg) (a : AST) (k : Kind) :
    Inv (ruleNamesOf cfg a k).length (a.tokens.length + 1) (st0 cfg a k) := by
  refine ⟨?_, ?_, by simp [st0], by simp [st0]⟩
  · intro r hr
    simp only [st0, List.mem_replicate] at hr
    exact absurd hr.2 (by simp)
  · intro l hl p hp
    simp only [st0, List.mem_replicate] at hl
    rw [hl.2] at hp; cases hp

theorem avoidBits_length (tmap : Str → Option Nat) : ∀ (l : List Str) (v v' : List Bool),
    avoidBits tmap l v = some v' → v'.length = v.length := by
  intro l
  induction l with
  | nil => intro v v' h; simp only [avoidBits, Option.some.injEq] at h; subst h; rfl
  | cons n ns ih =>
    intro v v' h
    simp only [avoidBits] at h
    cases ht : tmap n with
    | none => simp [ht] at h
    | some t =>
      simp only [ht] at h
      cases hs : setAt v t true with
      | none => simp [hs] at h
      | some v1 =>
        simp only [hs] at h
        rw [ih _ _ h, (setAt_spec hs).1]


end GrmVerif.YaccBuild
