import GrmVerif.Lemmas.YaccBuild2
/-!
C10, stage A: the name → index map on the rule-name list of `buildGrammar`, the names cfgrammar adds
(`cfgOk`: the three units give pairwise distinct fresh names), well-formedness predicates of an AST
that `GrammarAST::complete_and_validate` / the `IndexMap` of rules guarantee, and equations for the
single steps of the main loop.
-/
namespace GrmVerif.YaccBuild
open GrmVerif

/-! ### `lastIdx` -/

theorem lastIdxFrom_shift (n : Str) : ∀ (l : List Str) (i : Nat),
    lastIdxFrom n l (i + 1) = (lastIdxFrom n l i).map (· + 1) := by
  intro l
  induction l with
  | nil => intro i; rfl
  | cons x xs ih =>
    intro i
    simp only [lastIdxFrom]
    rw [ih (i + 1)]
    cases lastIdxFrom n xs (i + 1) with
    | some j => rfl
    | none =>
      simp only [Option.map_none]
      by_cases hx : x = n
      · simp [hx]
      · simp [hx]

theorem lastIdx_nil (n : Str) : lastIdx [] n = none := rfl

theorem lastIdx_cons (x : Str) (xs : List Str) (n : Str) :
    lastIdx (x :: xs) n =
      match lastIdx xs n with
      | some j => some (j + 1)
      | none => if x = n then some 0 else none := by
  unfold lastIdx
  simp only [lastIdxFrom]
  rw [lastIdxFrom_shift n xs 0]
  cases lastIdxFrom n xs 0 <;> rfl

theorem lastIdx_eq_none {l : List Str} {n : Str} (h : n ∉ l) : lastIdx l n = none := by
  cases hr : lastIdx l n with
  | none => rfl
  | some j => exact absurd (List.mem_of_getElem? (lastIdx_lt hr).2) h

theorem lastIdx_append_right (xs : List Str) {ys : List Str} {n : Str} (h : n ∈ ys) :
    lastIdx (xs ++ ys) n = (lastIdx ys n).map (· + xs.length) := by
  obtain ⟨j, hj⟩ := lastIdx_of_mem h
  induction xs with
  | nil => simp [hj]
  | cons x xs ih =>
    rw [List.cons_append, lastIdx_cons, ih, hj]
    simp only [Option.map_some, List.length_cons, Option.some.injEq]
    omega

theorem lastIdx_append_left (xs : List Str) {ys : List Str} {n : Str} (h : n ∉ ys) :
    lastIdx (xs ++ ys) n = lastIdx xs n := by
  induction xs with
  | nil => simp only [List.nil_append]; rw [lastIdx_eq_none h]; rfl
  | cons x xs ih => rw [List.cons_append, lastIdx_cons, ih, lastIdx_cons]

/-- in a list without repetitions the map returns THE index of the name -/
theorem lastIdx_nodup : ∀ {l : List Str} {j : Nat} {n : Str}, l.Nodup → l[j]? = some n → lastIdx l n = some j := by
  intro l
  induction l with
  | nil => intro j n _ h; simp at h
  | cons x xs ih =>
    intro j n hnd h
    rw [List.nodup_cons] at hnd
    rw [lastIdx_cons]
    cases j with
    | zero =>
      simp only [List.getElem?_cons_zero, Option.some.injEq] at h
      subst h
      rw [lastIdx_eq_none hnd.1]
      simp
    | succ j' =>
      simp only [List.getElem?_cons_succ] at h
      rw [ih hnd.2 h]

end GrmVerif.YaccBuild

namespace GrmVerif.YaccBuild
open GrmVerif

/-! ### the constants and the names cfgrammar adds -/

/-- what the proofs need of `START_RULE`, `IMPLICIT_RULE`, `IMPLICIT_START_RULE` (`"^"`, `"~"`, `"^~"`):
the first two are non-empty, and each pair is told apart by a character that one unit has and the
other lacks — then the three generated names are pairwise distinct whatever the user's rules are called -/
def cfgOk (cfg : Cfg) : Bool :=
  !cfg.startRule.isEmpty && !cfg.implicitRule.isEmpty &&
  cfg.startRule.any (fun ch => !cfg.implicitRule.contains ch) &&
  cfg.implicitStartRule.any (fun ch => !cfg.startRule.contains ch) &&
  cfg.implicitStartRule.any (fun ch => !cfg.implicitRule.contains ch)

theorem fresh_ne (names : List Str) {u v : Str} (h : u.any (fun ch => !v.contains ch) = true) :
    fresh names u ≠ fresh names v := by
  simp only [List.any_eq_true, Bool.not_eq_true', List.contains_eq_mem, decide_eq_false_iff_not] at h
  obtain ⟨ch, hu, hv⟩ := h
  intro he
  obtain ⟨t, ht⟩ := fresh_prefix names u
  have h1 : ch ∈ fresh names u := by rw [ht]; exact List.mem_append_left _ hu
  rw [he] at h1
  exact hv (fresh_mem names v ch h1)

theorem any_ne_nil {u v : Str} (h : u.any (fun ch => !v.contains ch) = true) : u ≠ [] := by
  intro he; subst he; simp at h

/-- the user's rule names -/
def userNames (a : AST) : List Str := a.rules.map (·.name)

/-- what the main loop needs to know about its context: the rule map is the last-index map of the added
names `sp` followed by the user's names `U`, no added name is a user's name, and the three
distinguished names are among the added ones -/
structure CtxOk (c : Ctx) (sp U : List Str) : Prop where
  rmap : c.rmap = lastIdx (sp ++ U)
  disj : ∀ n ∈ sp, n ∉ U
  start : c.startName ∈ sp
  impl : ∀ n, c.implName = some n → n ∈ sp
  implStart : ∀ n, c.implStartName = some n → n ∈ sp

/-- the added names, in the order of `rule_names` -/
def specialNames (cfg : Cfg) (a : AST) (k : Kind) : List Str :=
  match k, a.implicitTokens with
  | .eco, some _ => [fresh (userNames a) cfg.startRule, fresh (userNames a) cfg.implicitRule,
                     fresh (userNames a) cfg.implicitStartRule]
  | _, _ => [fresh (userNames a) cfg.startRule]

theorem specialNames_length (cfg : Cfg) (a : AST) (k : Kind) : (specialNames cfg a k).length = addedRules a k := by
  unfold specialNames addedRules
  cases k <;> cases a.implicitTokens <;> rfl

theorem ruleNamesOf_names (cfg : Cfg) (a : AST) (k : Kind) :
    (ruleNamesOf cfg a k).map (·.1) = specialNames cfg a k ++ userNames a := by
  unfold ruleNamesOf addedNames specialNames userNames
  cases k <;> cases a.implicitTokens <;> simp [Function.comp_def]

theorem mkCtx_ast (cfg : Cfg) (a : AST) (k : Kind) (us : Str) : (mkCtx cfg a k us).ast = a := by
  unfold mkCtx; cases addedNames cfg a k with | mk s r => cases r with | mk i is => rfl

theorem mkCtx_userStart (cfg : Cfg) (a : AST) (k : Kind) (us : Str) : (mkCtx cfg a k us).userStart = us := by
  unfold mkCtx; cases addedNames cfg a k with | mk s r => cases r with | mk i is => rfl

theorem mkCtx_tmap (cfg : Cfg) (a : AST) (k : Kind) (us : Str) :
    (mkCtx cfg a k us).tmap = lastIdx (a.tokens.map (·.1)) := by
  unfold mkCtx; cases addedNames cfg a k with | mk s r => cases r with | mk i is => rfl

theorem mkCtx_rmap (cfg : Cfg) (a : AST) (k : Kind) (us : Str) :
    (mkCtx cfg a k us).rmap = lastIdx (specialNames cfg a k ++ userNames a) := by
  rw [← ruleNamesOf_names]
  unfold mkCtx; cases addedNames cfg a k with | mk s r => cases r with | mk i is => rfl

theorem mkCtx_startName (cfg : Cfg) (a : AST) (k : Kind) (us : Str) :
    (mkCtx cfg a k us).startName = fresh (userNames a) cfg.startRule := by
  unfold mkCtx addedNames userNames
  cases k <;> cases a.implicitTokens <;> rfl

/-- the two shapes of a context: no implicit rule, or (Eco with `%implicit_tokens`) both added rules -/
theorem mkCtx_shape (cfg : Cfg) (a : AST) (k : Kind) (us : Str) :
    ((mkCtx cfg a k us).implName = none ∧ (mkCtx cfg a k us).implStartName = none ∧
      specialNames cfg a k = [(mkCtx cfg a k us).startName]) ∨
    (∃ its, k = .eco ∧ a.implicitTokens = some its ∧
      (mkCtx cfg a k us).implName = some (fresh (userNames a) cfg.implicitRule) ∧
      (mkCtx cfg a k us).implStartName = some (fresh (userNames a) cfg.implicitStartRule) ∧
      specialNames cfg a k = [(mkCtx cfg a k us).startName, fresh (userNames a) cfg.implicitRule,
        fresh (userNames a) cfg.implicitStartRule]) := by
  unfold mkCtx addedNames specialNames userNames
  cases k <;> cases h : a.implicitTokens <;> simp

theorem mkCtx_ok {cfg : Cfg} (hc : cfgOk cfg = true) (a : AST) (k : Kind) (us : Str) :
    CtxOk (mkCtx cfg a k us) (specialNames cfg a k) (userNames a) := by
  simp only [cfgOk, Bool.and_eq_true, Bool.not_eq_true', List.isEmpty_eq_false_iff] at hc
  obtain ⟨⟨⟨⟨h1, h2⟩, _⟩, h4⟩, _⟩ := hc
  have h3 := any_ne_nil h4
  refine ⟨mkCtx_rmap cfg a k us, ?_, ?_, ?_, ?_⟩
  · intro n hn
    unfold specialNames at hn
    cases k <;> cases hi : a.implicitTokens <;> simp only [hi, List.mem_cons, List.not_mem_nil, or_false] at hn
    all_goals first
      | (subst hn; exact fresh_not_mem _ _ h1)
      | (rcases hn with rfl | rfl | rfl
         · exact fresh_not_mem _ _ h1
         · exact fresh_not_mem _ _ h2
         · exact fresh_not_mem _ _ h3)
  · rcases mkCtx_shape cfg a k us with ⟨_, _, h⟩ | ⟨_, _, _, _, _, h⟩ <;> rw [h] <;> simp
  · intro n hn
    rcases mkCtx_shape cfg a k us with ⟨h, _, _⟩ | ⟨_, _, _, h, _, hs⟩
    · rw [h] at hn; cases hn
    · rw [h] at hn; simp only [Option.some.injEq] at hn; subst hn; rw [hs]; simp
  · intro n hn
    rcases mkCtx_shape cfg a k us with ⟨_, h, _⟩ | ⟨_, _, _, _, h, hs⟩
    · rw [h] at hn; cases hn
    · rw [h] at hn; simp only [Option.some.injEq] at hn; subst hn; rw [hs]; simp

end GrmVerif.YaccBuild

namespace GrmVerif.YaccBuild
open GrmVerif

theorem specialNames_nodup {cfg : Cfg} (hc : cfgOk cfg = true) (a : AST) (k : Kind) :
    (specialNames cfg a k).Nodup := by
  simp only [cfgOk, Bool.and_eq_true] at hc
  obtain ⟨⟨⟨_, h3⟩, h4⟩, h5⟩ := hc
  have n1 := fresh_ne (userNames a) h3
  have n2 := fresh_ne (userNames a) h4
  have n3 := fresh_ne (userNames a) h5
  unfold specialNames
  cases k <;> cases a.implicitTokens <;> simp
  exact ⟨⟨n1, fun h => n2 h.symm⟩, fun h => n3 h.symm⟩

/-! ### the rule map on added and on user names -/

theorem rmap_special {c : Ctx} {sp U : List Str} (ok : CtxOk c sp U) (hnd : sp.Nodup) {j : Nat} {n : Str}
    (h : sp[j]? = some n) : c.rmap n = some j := by
  rw [ok.rmap, lastIdx_append_left _ (ok.disj n (List.mem_of_getElem? h))]
  exact lastIdx_nodup hnd h

theorem rmap_user {c : Ctx} {sp U : List Str} (ok : CtxOk c sp U) {n : Str} (h : n ∈ U) :
    ∃ j, lastIdx U n = some j ∧ c.rmap n = some (j + sp.length) := by
  obtain ⟨j, hj⟩ := lastIdx_of_mem h
  exact ⟨j, hj, by rw [ok.rmap, lastIdx_append_right _ h, hj]; rfl⟩

/-- an index below the number of added rules is only returned for that added rule's name -/
theorem rmap_lt_special {c : Ctx} {sp U : List Str} (ok : CtxOk c sp U) {n : Str} {j : Nat}
    (h : c.rmap n = some j) (hj : j < sp.length) : sp[j]? = some n := by
  rw [ok.rmap] at h
  have := (lastIdx_lt h).2
  rwa [List.getElem?_append_left hj] at this

theorem user_not_special {c : Ctx} {sp U : List Str} (ok : CtxOk c sp U) {n : Str} (h : n ∈ U) :
    n ≠ c.startName ∧ c.implStartName ≠ some n ∧ c.implName ≠ some n := by
  refine ⟨?_, ?_, ?_⟩
  · intro he; exact ok.disj _ ok.start (he ▸ h)
  · intro he; exact ok.disj _ (ok.implStart _ he) h
  · intro he; exact ok.disj _ (ok.impl _ he) h

theorem stepRule_user {c : Ctx} {sp U : List Str} (ok : CtxOk c sp U) {n : Str} (h : n ∈ U) (st : St) :
    ∃ j, lastIdx U n = some j ∧ stepRule c st n = stepUser c st n (j + sp.length) := by
  obtain ⟨j, hj, hr⟩ := rmap_user ok h
  obtain ⟨h1, h2, h3⟩ := user_not_special ok h
  refine ⟨j, hj, ?_⟩
  unfold stepRule
  simp only [hr]
  rw [if_neg h1, if_neg h2, if_neg h3]

end GrmVerif.YaccBuild
