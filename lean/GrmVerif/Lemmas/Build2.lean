import GrmVerif.Lemmas.Build
/-! Observation function and helper lemmas for the C18 property theorems. -/
namespace GrmVerif.Build

/-- kind of a parser status, forgetting the `regenerated` flag -/
def pKind : PStatus → Nat
  | .ok _ => 0
  | .err => 1
  | .notInvoked => 2

def lKind : LStatus → Nat
  | .ok _ => 0
  | .err => 1
  | .panic => 2
  | .notInvoked => 3

/-- What is observable after a build: outcome kind of each builder and, for each builder that was
invoked, whether its output exists and its text. -/
def obs (r : State × PStatus × LStatus) : Nat × Nat × Option Nat × Option Nat :=
  (pKind r.2.1, lKind r.2.2,
    if r.2.1 = .notInvoked then none else pContent r.1,
    if r.2.2 = .notInvoked then none else lContent r.1)

theorem inv_wipe {G : Gen} {st : State} (h : Inv G st) : Inv G (wipe st) :=
  ⟨h.1, by intro f hf; simp [wipe] at hf⟩

theorem pKind_buildParser (G : Gen) (st : State) :
    pKind (buildParser G st).2 = if pFailed (buildParser G st).2 then 1 else 0 := by
  unfold buildParser
  cases G.p st.world with
  | early => simp [pKind, pFailed]
  | late k => by_cases hu : upToDate st.pout st.gmt k = true <;> simp [hu, pKind, pFailed]
  | ok k out => by_cases hu : upToDate st.pout st.gmt k = true <;> simp [hu, pKind, pFailed]

theorem buildParser_invoked (G : Gen) (st : State) : (buildParser G st).2 ≠ .notInvoked := by
  unfold buildParser
  cases G.p st.world with
  | early => simp
  | late k => by_cases hu : upToDate st.pout st.gmt k = true <;> simp [hu]
  | ok k out => by_cases hu : upToDate st.pout st.gmt k = true <;> simp [hu]

theorem lKind_finishLexer (r : LRes) (st st' : State) :
    lKind (finishLexer r st).2 = lKind (finishLexer r st').2 ∧ (finishLexer r st).2 ≠ .notInvoked := by
  cases r with
  | pre => simp [finishLexer, lKind]
  | post => simp [finishLexer, lKind]
  | missing => simp [finishLexer, lKind]
  | ok out =>
    by_cases h1 : sameText st.lout out = true <;> by_cases h2 : sameText st'.lout out = true <;>
      simp [finishLexer, lKind, h1, h2]

/-- a successful parser build leaves an output that the up-to-date test accepts for the current key,
provided the build ran strictly later than the last grammar edit -/
theorem buildParser_ok_upToDate (G : Gen) (st : State) (b : Bool) (hs : st.gmt < st.clock)
    (h : (buildParser G st).2 = .ok b) :
    ∃ k, keyOf (G.p st.world) = some k ∧ upToDate (buildParser G st).1.pout st.gmt k = true := by
  simp only [buildParser] at *
  split at h
  · simp at h
  · rename_i k hp
    split at h
    · rename_i hu
      refine ⟨k, by simp [keyOf, hp], ?_⟩
      simp [hu]
    · simp at h
  · rename_i k out hp
    refine ⟨k, by simp [keyOf, hp], ?_⟩
    split
    · rename_i hu; exact hu
    · simp [writeP, upToDate, hs]

/-- when the parser builder was invoked and did not fail, the build script ran both builders -/
theorem buildAll_of_parser_ok (G : Gen) (st : State) (h : pKind (buildAll G st).2.1 = 0) :
    pFailed (buildParser G st).2 = false ∧
    buildAll G st = ((finishLexer (G.l st.world) (buildParser G st).1).1, (buildParser G st).2,
      (finishLexer (G.l st.world) (buildParser G st).1).2) := by
  unfold buildAll at h ⊢
  by_cases hn : G.nested st.s = true <;> by_cases hpre : isPre (G.l st.world) = true <;>
    by_cases hf : pFailed (buildParser G st).2 = true <;> simp [hn, hpre, hf, pKind] at h ⊢

theorem run_keeps_parser (G : Gen) (mid : List Op) (st : State)
    (hmid : ∀ op ∈ mid, isBuild op = false ∧ isEditGrammar op = false) :
    (run G st mid).pout = st.pout ∧ (run G st mid).gmt = st.gmt ∧ (run G st mid).g = st.g ∧
      (run G st mid).lout = st.lout := by
  induction mid generalizing st with
  | nil => simp [run]
  | cons op mid ih =>
    have h1 := step_keeps_parser G st op (hmid op (by simp)).1 (hmid op (by simp)).2
    have h2 := ih (step G st op) (fun o ho => hmid o (by simp [ho]))
    simp only [run, List.foldl_cons] at *
    rw [h2.1, h2.2.1, h2.2.2.1, h2.2.2.2]
    exact h1

theorem buildParser_skip (G : Gen) (st : State) (k : Nat) (hk : keyOf (G.p st.world) = some k)
    (hu : upToDate st.pout st.gmt k = true) : buildParser G st = (st, .ok false) := by
  simp only [buildParser]
  split
  · rename_i hp; simp [hp, keyOf] at hk
  · rename_i k' hp
    simp [hp, keyOf] at hk
    subst hk
    simp [hu]
  · rename_i k' out hp
    simp [hp, keyOf] at hk
    subst hk
    simp [hu]

/-- without a build the outputs stay and the grammar's mtime does not decrease -/
theorem run_nobuild (G : Gen) (mid : List Op) (st : State) (hi : Inv G st)
    (hmid : ∀ op ∈ mid, isBuild op = false) :
    (run G st mid).pout = st.pout ∧ (run G st mid).lout = st.lout ∧ st.gmt ≤ (run G st mid).gmt := by
  induction mid generalizing st with
  | nil => simp [run]
  | cons op mid ih =>
    have h1 := step_nobuild G st op (hmid op (by simp)) hi.1
    have h2 := ih (step G st op) (inv_step hi op) (fun o ho => hmid o (by simp [ho]))
    simp only [run, List.foldl_cons] at *
    rw [h2.1, h2.2.1]
    exact ⟨h1.1, h1.2.1, by omega⟩

end GrmVerif.Build
