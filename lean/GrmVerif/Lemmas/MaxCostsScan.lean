import GrmVerif.Lemmas.MinCostsImpl
/-! The model of `rule_max_costs` (`Impl.ruleMaxCosts`), part 1: what the scan of one production
(`mxSyms`) and of the productions of one rule (`mxProds`) return. -/
namespace GrmVerif.Impl
open GrmVerif Spec Ref

/-- `costs[q]` -/
def costF (costs : List Nat) : Nat → Nat := cget costs

/-- `costs[q] == u16::MAX` -/
def isMaxB (costs : List Nat) : Nat → Bool := fun q => cget costs q == U16MAX

/-- the sum of the costs of all symbols -/
def curSum (tc : Nat → Nat) (c : Nat → Nat) : List Sym → Nat
  | [] => 0
  | .tok t :: rest => tc t + curSum tc c rest
  | .rule q :: rest => c q + curSum tc c rest

/-- the sum of the costs of the symbols before the first rule at which the scan stops -/
def prefSum (tc : Nat → Nat) (c : Nat → Nat) (stop : Nat → Bool) : List Sym → Nat
  | [] => 0
  | .tok t :: rest => tc t + prefSum tc c stop rest
  | .rule q :: rest => if stop q then 0 else c q + prefSum tc c stop rest

/-- some rule of the sequence satisfies `stop` -/
def hasStop (stop : Nat → Bool) : List Sym → Bool
  | [] => false
  | .tok _ :: rest => hasStop stop rest
  | .rule q :: rest => stop q || hasStop stop rest

/-- every rule of the sequence is done -/
def allDoneSyms (done : List Bool) : List Sym → Bool
  | [] => true
  | .tok _ :: rest => allDoneSyms done rest
  | .rule q :: rest => vget done q && allDoneSyms done rest

theorem hasStop_iff (stop : Nat → Bool) (l : List Sym) :
    hasStop stop l = true ↔ ∃ q, Sym.rule q ∈ l ∧ stop q = true := by
  induction l with
  | nil => simp [hasStop]
  | cons s rest ih =>
    cases s with
    | tok t =>
      simp only [hasStop, ih, List.mem_cons]
      constructor
      · rintro ⟨q, hq, hs⟩; exact ⟨q, Or.inr hq, hs⟩
      · rintro ⟨q, hq | hq, hs⟩
        · cases hq
        · exact ⟨q, hq, hs⟩
    | rule q0 =>
      simp only [hasStop, Bool.or_eq_true, ih, List.mem_cons]
      constructor
      · rintro (h | ⟨q, hq, hs⟩)
        · exact ⟨q0, Or.inl rfl, h⟩
        · exact ⟨q, Or.inr hq, hs⟩
      · rintro ⟨q, hq | hq, hs⟩
        · cases hq; exact Or.inl hs
        · exact Or.inr ⟨q, hq, hs⟩

theorem allDoneSyms_iff (done : List Bool) (l : List Sym) :
    allDoneSyms done l = true ↔ ∀ q, Sym.rule q ∈ l → vget done q = true := by
  induction l with
  | nil => simp [allDoneSyms]
  | cons s rest ih =>
    cases s with
    | tok t =>
      simp only [allDoneSyms, ih, List.mem_cons]
      constructor
      · intro h q hq
        rcases hq with hq | hq
        · cases hq
        · exact h q hq
      · intro h q hq; exact h q (Or.inr hq)
    | rule q0 =>
      simp only [allDoneSyms, Bool.and_eq_true, ih, List.mem_cons]
      constructor
      · rintro ⟨h0, h⟩ q hq
        rcases hq with hq | hq
        · cases hq; exact h0
        · exact h q hq
      · intro h; exact ⟨h q0 (Or.inl rfl), fun q hq => h q (Or.inr hq)⟩

theorem prefSum_eq_curSum {tc c : Nat → Nat} {stop : Nat → Bool} :
    ∀ l : List Sym, hasStop stop l = false → prefSum tc c stop l = curSum tc c l := by
  intro l
  induction l with
  | nil => intro _; rfl
  | cons s rest ih =>
    intro h
    cases s with
    | tok t => simp only [hasStop] at h; simp [prefSum, curSum, ih h]
    | rule q =>
      simp only [hasStop, Bool.or_eq_false_iff] at h
      simp [prefSum, curSum, h.1, ih h.2]

/-- `prefSum` is monotone: larger costs and a scan that stops later give a larger sum -/
theorem prefSum_mono {tc c c' : Nat → Nat} {stop stop' : Nat → Bool}
    (hs : ∀ q, stop' q = true → stop q = true) (hc : ∀ q, stop q = false → c q ≤ c' q) :
    ∀ l : List Sym, prefSum tc c stop l ≤ prefSum tc c' stop' l := by
  intro l
  induction l with
  | nil => exact Nat.le_refl _
  | cons s rest ih =>
    cases s with
    | tok t => simp only [prefSum]; omega
    | rule q =>
      simp only [prefSum]
      cases h : stop q with
      | true => simp
      | false =>
        have : stop' q = false := by
          cases h' : stop' q with
          | false => rfl
          | true => rw [hs q h'] at h; cases h
        have hle := hc q h
        simp only [this, Bool.false_eq_true, if_false]
        omega

theorem curSum_mono {tc c c' : Nat → Nat} (hc : ∀ q, c q ≤ c' q) :
    ∀ l : List Sym, curSum tc c l ≤ curSum tc c' l := by
  intro l
  induction l with
  | nil => exact Nat.le_refl _
  | cons s rest ih =>
    cases s with
    | tok t => simp only [curSum]; omega
    | rule q => have := hc q; simp only [curSum]; omega

/-- `curSum` only depends on the costs of the rules that occur -/
theorem curSum_congr {tc c c' : Nat → Nat} :
    ∀ l : List Sym, (∀ q, Sym.rule q ∈ l → c q = c' q) → curSum tc c l = curSum tc c' l := by
  intro l
  induction l with
  | nil => intro _; rfl
  | cons s rest ih =>
    intro h
    have ih' := ih (fun q hq => h q (List.mem_cons_of_mem _ hq))
    cases s with
    | tok t => simp only [curSum, ih']
    | rule q => simp only [curSum, ih', h q (by simp)]

/-! ### one production -/

theorem mxSyms_spec (G : Grammar) (tc costs : List Nat) (done : List Bool) (htc : tc.length = G.ntoks) :
    ∀ (l : List Sym) (c : Nat) (cm : Bool), (∀ s ∈ l, G.symOk s = true) →
      c + prefSum (tcF tc) (costF costs) (isMaxB costs) l < U16MAX →
      mxSyms G tc costs done l c cm =
        some (bif hasStop (isMaxB costs) l then .hitMax
              else .ok (c + curSum (tcF tc) (costF costs) l) (cm && allDoneSyms done l)) := by
  intro l
  induction l with
  | nil => intro c cm _ _; simp [mxSyms, hasStop, curSum, allDoneSyms]
  | cons s rest ih =>
    intro c cm hok hfit
    have hok' : ∀ s ∈ rest, G.symOk s = true := fun x hx => hok x (List.mem_cons_of_mem _ hx)
    cases s with
    | tok t =>
      have ht : t < tc.length := by
        have := hok (.tok t) (by simp)
        simpa [Grammar.symOk, htc] using this
      simp only [prefSum] at hfit
      simp only [mxSyms, tc_get ht]
      rw [checkedAdd_some (by omega)]
      simp only []
      have hne : ¬ c + tcF tc t = U16MAX := by omega
      simp only [hne, if_false]
      rw [ih (c + tcF tc t) cm hok' (by omega)]
      simp only [hasStop, curSum, allDoneSyms, Nat.add_assoc]
    | rule q =>
      have hq : q < G.nrules := by
        have := hok (.rule q) (by simp)
        simpa [Grammar.symOk] using this
      simp only [mxSyms, hq, if_true]
      by_cases hm : cget costs q = U16MAX
      · simp [hm, hasStop, isMaxB]
      · have hmb : isMaxB costs q = false := by simp [isMaxB, hm]
        simp only [prefSum, hmb, Bool.false_eq_true, if_false, costF] at hfit
        simp only [hm, if_false]
        rw [checkedAdd_some (by omega)]
        simp only []
        have hne : ¬ c + cget costs q = U16MAX := by omega
        simp only [hne, if_false]
        rw [ih _ _ hok' (by simp only [costF]; omega)]
        simp only [hasStop, hmb, Bool.false_or, curSum, allDoneSyms, costF, Nat.add_assoc]
        cases vget done q <;> cases cm <;> simp

/-! ### the productions of one rule -/

/-- `b` is defined and at least `a`, if `a` is defined -/
def GeO (a b : Option Nat) : Prop := ∀ v, a = some v → ∃ v', b = some v' ∧ v ≤ v'

theorem GeO.refl (a : Option Nat) : GeO a a := fun v h => ⟨v, h, Nat.le_refl _⟩
theorem GeO.trans {a b c : Option Nat} (h1 : GeO a b) (h2 : GeO b c) : GeO a c := by
  intro v hv
  obtain ⟨v', hv', hle⟩ := h1 v hv
  obtain ⟨v'', hv'', hle'⟩ := h2 v' hv'
  exact ⟨v'', hv'', by omega⟩

/-- the scan of production `p` can be carried out without overflow -/
def ProdFits (G : Grammar) (tc costs : List Nat) (p : Nat) : Prop :=
  p < G.nprods ∧ prefSum (tcF tc) (costF costs) (isMaxB costs) (G.rhs p) < U16MAX

/-- what `mxProds` returns when no production contains a rule of cost `u16::MAX` -/
structure ProdsRes (G : Grammar) (tc costs : List Nat) (done : List Bool) (ps : List Nat)
    (hc0 hn0 hc hn : Option Nat) : Prop where
  geC : GeO hc0 hc
  geN : GeO hn0 hn
  coverC : ∀ p ∈ ps, allDoneSyms done (G.rhs p) = true →
    ∃ h, hc = some h ∧ curSum (tcF tc) (costF costs) (G.rhs p) ≤ h
  coverN : ∀ p ∈ ps, allDoneSyms done (G.rhs p) = false →
    ∃ x, hn = some x ∧ curSum (tcF tc) (costF costs) (G.rhs p) ≤ x
  fromC : ∀ h, hc = some h → hc0 = some h ∨
    ∃ p ∈ ps, allDoneSyms done (G.rhs p) = true ∧ curSum (tcF tc) (costF costs) (G.rhs p) = h
  fromN : ∀ x, hn = some x → hn0 = some x ∨
    ∃ p ∈ ps, allDoneSyms done (G.rhs p) = false ∧ curSum (tcF tc) (costF costs) (G.rhs p) = x

theorem gtO_false {c : Nat} {o : Option Nat} (h : gtO c o = false) : ∃ b, o = some b ∧ c ≤ b := by
  cases o with
  | none => simp [gtO] at h
  | some b => exact ⟨b, rfl, by simpa [gtO] using h⟩

theorem GeO_of_gtO {c : Nat} {o : Option Nat} (h : gtO c o = true) : GeO o (some c) := by
  intro v hv
  subst hv
  exact ⟨c, rfl, by simp [gtO] at h; omega⟩

theorem mxProds_spec (G : Grammar) (hwf : G.wf = true) (tc costs : List Nat) (done : List Bool)
    (htc : tc.length = G.ntoks) :
    ∀ (ps : List Nat) (hc0 hn0 : Option Nat),
      (∀ p ∈ ps, ProdFits G tc costs p ∧ hasStop (isMaxB costs) (G.rhs p) = false) →
      ∃ hc hn, mxProds G tc costs done ps hc0 hn0 = some (hc, hn) ∧
        ProdsRes G tc costs done ps hc0 hn0 hc hn := by
  intro ps
  induction ps with
  | nil =>
    intro hc0 hn0 _
    refine ⟨hc0, hn0, rfl, GeO.refl _, GeO.refl _, ?_, ?_, fun h hh => Or.inl hh, fun x hx => Or.inl hx⟩
    · intro p hp; cases hp
    · intro p hp; cases hp
  | cons p ps ih =>
    intro hc0 hn0 hall
    obtain ⟨⟨hp, hfit⟩, hns⟩ := hall p (by simp)
    have hrest : ∀ q ∈ ps, ProdFits G tc costs q ∧ hasStop (isMaxB costs) (G.rhs q) = false :=
      fun q hq => hall q (List.mem_cons_of_mem _ hq)
    have hscan := mxSyms_spec G tc costs done htc (G.rhs p) 0 true (fun s hs => wf_sym hwf hp hs) (by omega)
    simp only [hns, cond_false, Nat.zero_add, Bool.true_and] at hscan
    simp only [mxProds, hscan]
    generalize hcs : curSum (tcF tc) (costF costs) (G.rhs p) = c
    cases hcm : allDoneSyms done (G.rhs p) with
    | true =>
      simp only [Bool.true_and, Bool.not_true, Bool.false_and, Bool.false_eq_true, if_false]
      cases hgt : gtO c hc0 with
      | true =>
        simp only [if_true]
        obtain ⟨hc, hn, hr, res⟩ := ih (some c) hn0 hrest
        refine ⟨hc, hn, hr, (GeO_of_gtO hgt).trans res.geC, res.geN, ?_, ?_, ?_, ?_⟩
        · intro q hq hd
          rcases List.mem_cons.mp hq with rfl | hq
          · obtain ⟨v', hv', hle⟩ := res.geC c rfl
            exact ⟨v', hv', by omega⟩
          · exact res.coverC q hq hd
        · intro q hq hd
          rcases List.mem_cons.mp hq with rfl | hq
          · rw [hcm] at hd; cases hd
          · exact res.coverN q hq hd
        · intro h hh
          rcases res.fromC h hh with e | ⟨q, hq, hd, he⟩
          · simp only [Option.some.injEq] at e
            exact Or.inr ⟨p, by simp, hcm, by omega⟩
          · exact Or.inr ⟨q, List.mem_cons_of_mem _ hq, hd, he⟩
        · intro x hx
          rcases res.fromN x hx with e | ⟨q, hq, hd, he⟩
          · exact Or.inl e
          · exact Or.inr ⟨q, List.mem_cons_of_mem _ hq, hd, he⟩
      | false =>
        simp only [Bool.false_eq_true, if_false]
        obtain ⟨b, hb, hle⟩ := gtO_false hgt
        obtain ⟨hc, hn, hr, res⟩ := ih hc0 hn0 hrest
        refine ⟨hc, hn, hr, res.geC, res.geN, ?_, ?_, ?_, ?_⟩
        · intro q hq hd
          rcases List.mem_cons.mp hq with rfl | hq
          · obtain ⟨v', hv', hle'⟩ := res.geC b hb
            exact ⟨v', hv', by omega⟩
          · exact res.coverC q hq hd
        · intro q hq hd
          rcases List.mem_cons.mp hq with rfl | hq
          · rw [hcm] at hd; cases hd
          · exact res.coverN q hq hd
        · intro h hh
          rcases res.fromC h hh with e | ⟨q, hq, hd, he⟩
          · exact Or.inl e
          · exact Or.inr ⟨q, List.mem_cons_of_mem _ hq, hd, he⟩
        · intro x hx
          rcases res.fromN x hx with e | ⟨q, hq, hd, he⟩
          · exact Or.inl e
          · exact Or.inr ⟨q, List.mem_cons_of_mem _ hq, hd, he⟩
    | false =>
      simp only [Bool.false_and, Bool.false_eq_true, if_false, Bool.not_false, Bool.true_and]
      cases hgt : gtO c hn0 with
      | true =>
        simp only [if_true]
        obtain ⟨hc, hn, hr, res⟩ := ih hc0 (some c) hrest
        refine ⟨hc, hn, hr, res.geC, (GeO_of_gtO hgt).trans res.geN, ?_, ?_, ?_, ?_⟩
        · intro q hq hd
          rcases List.mem_cons.mp hq with rfl | hq
          · rw [hcm] at hd; cases hd
          · exact res.coverC q hq hd
        · intro q hq hd
          rcases List.mem_cons.mp hq with rfl | hq
          · obtain ⟨v', hv', hle⟩ := res.geN c rfl
            exact ⟨v', hv', by omega⟩
          · exact res.coverN q hq hd
        · intro h hh
          rcases res.fromC h hh with e | ⟨q, hq, hd, he⟩
          · exact Or.inl e
          · exact Or.inr ⟨q, List.mem_cons_of_mem _ hq, hd, he⟩
        · intro x hx
          rcases res.fromN x hx with e | ⟨q, hq, hd, he⟩
          · simp only [Option.some.injEq] at e
            exact Or.inr ⟨p, by simp, hcm, by omega⟩
          · exact Or.inr ⟨q, List.mem_cons_of_mem _ hq, hd, he⟩
      | false =>
        simp only [Bool.false_eq_true, if_false]
        obtain ⟨b, hb, hle⟩ := gtO_false hgt
        obtain ⟨hc, hn, hr, res⟩ := ih hc0 hn0 hrest
        refine ⟨hc, hn, hr, res.geC, res.geN, ?_, ?_, ?_, ?_⟩
        · intro q hq hd
          rcases List.mem_cons.mp hq with rfl | hq
          · rw [hcm] at hd; cases hd
          · exact res.coverC q hq hd
        · intro q hq hd
          rcases List.mem_cons.mp hq with rfl | hq
          · obtain ⟨v', hv', hle'⟩ := res.geN b hb
            exact ⟨v', hv', by omega⟩
          · exact res.coverN q hq hd
        · intro h hh
          rcases res.fromC h hh with e | ⟨q, hq, hd, he⟩
          · exact Or.inl e
          · exact Or.inr ⟨q, List.mem_cons_of_mem _ hq, hd, he⟩
        · intro x hx
          rcases res.fromN x hx with e | ⟨q, hq, hd, he⟩
          · exact Or.inl e
          · exact Or.inr ⟨q, List.mem_cons_of_mem _ hq, hd, he⟩

/-- … and when some production does: the scan stops there with `hs_cmplt = Some(u16::MAX)` -/
theorem mxProds_hit (G : Grammar) (hwf : G.wf = true) (tc costs : List Nat) (done : List Bool)
    (htc : tc.length = G.ntoks) :
    ∀ (ps : List Nat) (hc0 hn0 : Option Nat), (∀ p ∈ ps, ProdFits G tc costs p) →
      (∃ p ∈ ps, hasStop (isMaxB costs) (G.rhs p) = true) →
      ∃ hn, mxProds G tc costs done ps hc0 hn0 = some (some U16MAX, hn) := by
  intro ps
  induction ps with
  | nil => intro _ _ _ ⟨p, hp, _⟩; cases hp
  | cons p ps ih =>
    intro hc0 hn0 hall hex
    obtain ⟨hp, hfit⟩ := hall p (by simp)
    have hscan := mxSyms_spec G tc costs done htc (G.rhs p) 0 true (fun s hs => wf_sym hwf hp hs) (by omega)
    simp only [mxProds, hscan]
    cases hst : hasStop (isMaxB costs) (G.rhs p) with
    | true => exact ⟨hn0, by simp⟩
    | false =>
      simp only [cond_false]
      have hex' : ∃ q ∈ ps, hasStop (isMaxB costs) (G.rhs q) = true := by
        obtain ⟨q, hq, hs⟩ := hex
        rcases List.mem_cons.mp hq with rfl | hq
        · rw [hst] at hs; cases hs
        · exact ⟨q, hq, hs⟩
      have hrest : ∀ q ∈ ps, ProdFits G tc costs q := fun q hq => hall q (List.mem_cons_of_mem _ hq)
      split
      · exact ih _ _ hrest hex'
      · split
        · exact ih _ _ hrest hex'
        · exact ih _ _ hrest hex'

end GrmVerif.Impl
