import GrmVerif.Model.YaccParse
import GrmVerif.Lemmas.Header2
import GrmVerif.Lemmas.YaccLex
/-!
Helper lemmas for the yacc part of C12, part 1: slicing facts, the Hoare predicate `M.Sat` over the
state monad of `Model/YaccParse.lean`, well-formedness predicates (`ErrOK`, `AstOK`, `StOK`), and one
specification lemma per helper function (`parse_name`, `parse_token`, `parse_to_eol`, `parse_int`,
`parse_string`, `parse_ws`, `parse_to_single_colon`, `parse_action`, `add_duplicate_occurrence`).

Every specification has the same shape: from a sliceable position (`Valid src i`) the function
returns `ok` at a later sliceable position, or an error whose spans are well-formed; it never
returns `panic`, and never `fuelOut` when the loop is given more fuel than bytes remain.
-/
namespace GrmVerif.YaccParse
open GrmVerif.Header (Res Span byteLen dropBytes takeBytes slice sliceRange lookahead Valid SpanOK
  byteLen_append dropBytes_some dropBytes_append dropBytes_advance valid_advance sliceRange_ok
  slice_sat lookahead_sat byteLen_pos spanOK_refl valid_zero)

/-! ### slicing -/

theorem byteLen_eq (s : List Char) : YaccLex.byteLen s = byteLen s := by
  induction s with
  | nil => rfl
  | cons c cs ih => simp [YaccLex.byteLen, byteLen, ih]

theorem byteLen_eq_zero {s : List Char} (h : byteLen s = 0) : s = [] := by
  cases s with
  | nil => rfl
  | cons c cs => have := Char.utf8Size_pos c; simp [byteLen] at h; omega

/-- of two prefixes of a text, the one with fewer bytes is a prefix of the other -/
theorem prefix_of_byteLen_le {p1 p2 l : List Char} (h1 : p1 <+: l) (h2 : p2 <+: l)
    (h : byteLen p1 ≤ byteLen p2) : p1 <+: p2 := by
  rcases List.prefix_or_prefix_of_prefix h1 h2 with h' | ⟨x, hx⟩
  · exact h'
  · have : byteLen x = 0 := by rw [← hx, byteLen_append] at h; omega
    have := byteLen_eq_zero this
    subst this
    simp at hx; subst hx; exact List.prefix_refl _

/-- `&src[a..b]` with both bounds on boundaries and `a ≤ b` does not panic -/
theorem sliceRange_valid {ε : Type} {src : List Char} {a b : Nat} (ha : Valid src a) (hb : Valid src b)
    (hab : a ≤ b) : ∃ t, (sliceRange src a b : Res ε (List Char)) = .ok t := by
  obtain ⟨r1, h1⟩ := ha
  obtain ⟨r2, h2⟩ := hb
  obtain ⟨p1, e1, l1⟩ := dropBytes_some h1
  obtain ⟨p2, e2, l2⟩ := dropBytes_some h2
  have hp : p1 <+: p2 :=
    prefix_of_byteLen_le (l := src) ⟨r1, e1.symm⟩ ⟨r2, e2.symm⟩ (by omega)
  obtain ⟨t, ht⟩ := hp
  have hr1 : r1 = t ++ r2 := by
    have : p1 ++ r1 = p1 ++ (t ++ r2) := by rw [← e1, e2, ← ht, List.append_assoc]
    exact List.append_cancel_left this
  have hb' : b = a + byteLen t := by rw [← l1, ← l2, ← ht, byteLen_append]
  refine ⟨t, ?_⟩
  rw [hb']
  exact sliceRange_ok h1 ⟨r2, hr1.symm⟩

theorem sliceRange_sat {ε : Type} {src : List Char} {a b : Nat} {E : ε → Prop} (ha : Valid src a)
    (hb : Valid src b) (hab : a ≤ b) : (sliceRange src a b : Res ε _).Sat (fun _ => True) E := by
  obtain ⟨t, ht⟩ := sliceRange_valid (ε := ε) ha hb hab
  rw [ht]; trivial

theorem ascii_size (c : Char) (h : c.toNat ≤ 127) : c.utf8Size = 1 := by
  have h1 : c.val ≤ UInt32.ofNatLT 127 (by decide) := by
    rw [UInt32.le_iff_toNat_le]
    exact h
  simp only [Char.utf8Size]
  rw [if_pos h1]

theorem digit_size (c : Char) (h : Header.isDigit c = true) : c.utf8Size = 1 := by
  simp only [Header.isDigit, Bool.and_eq_true, decide_eq_true_eq] at h
  exact ascii_size c (by omega)

/-- the text at a boundary strictly inside the text is not empty -/
theorem dropBytes_lt {src : List Char} {j : Nat} {rest : List Char} (h : dropBytes src j = some rest)
    (hj : j < byteLen src) : rest ≠ [] := by
  obtain ⟨pre, e, l⟩ := dropBytes_some h
  intro hr
  subst hr
  rw [e, byteLen_append] at hj
  simp [byteLen] at hj
  omega

/-- stepping over the first character of the rest stays on a boundary -/
theorem valid_step {src : List Char} {j : Nat} {c : Char} {rest : List Char}
    (h : dropBytes src j = some (c :: rest)) : dropBytes src (j + c.utf8Size) = some rest := by
  have := dropBytes_advance h (pre := [c]) (by simp)
  simpa [byteLen] using this

theorem step_le {src : List Char} {j : Nat} {c : Char} {rest : List Char}
    (h : dropBytes src j = some (c :: rest)) : j + c.utf8Size ≤ byteLen src :=
  Valid.le ⟨rest, valid_step h⟩

theorem nextChar_sat {ε : Type} {src : List Char} {j : Nat} {E : ε → Prop} (hv : Valid src j)
    (hj : j < byteLen src) :
    (nextChar src j : Res ε Char).Sat (fun c => ∃ rest, dropBytes src j = some (c :: rest)) E := by
  obtain ⟨rest, hr⟩ := hv
  have hne := dropBytes_lt hr hj
  cases rest with
  | nil => exact absurd rfl hne
  | cons c cs =>
    simp only [nextChar, slice, hr]
    exact ⟨cs, rfl⟩

/-! ### well-formedness -/

/-- an error carries at least one span and all its spans are well-formed -/
def ErrOK (src : List Char) (e : YErr) : Prop := e.spans ≠ [] ∧ ∀ sp ∈ e.spans, SpanOK src sp

/-- every span stored in the AST is well-formed, field by field -/
structure AstOK (src : List Char) (a : Ast) : Prop where
  start : ∀ x, a.start = some x → SpanOK src x.2
  rules : ∀ x ∈ a.rules, SpanOK src x.2
  prods : ∀ p ∈ a.prods, SpanOK src p.span ∧ ∀ s ∈ p.syms, SpanOK src s.span
  tokens : ∀ x ∈ a.tokens, SpanOK src x.2
  precs : ∀ x ∈ a.precs, SpanOK src x.2.2.2
  avoid : ∀ x ∈ a.avoidInsert.getD [], SpanOK src x.2
  implicit : ∀ x ∈ a.implicitTokens.getD [], SpanOK src x.2
  epp : ∀ x ∈ a.epp, SpanOK src x.2.1 ∧ SpanOK src x.2.2.2
  expect : ∀ x, a.expect = some x → SpanOK src x.2
  expectrr : ∀ x, a.expectrr = some x → SpanOK src x.2
  unused : ∀ s ∈ a.expectUnused, SpanOK src s.span

/-- `AstOK` covers every span `Ast.spans` lists -/
theorem AstOK.spans {src : List Char} {a : Ast} (h : AstOK src a) : ∀ sp ∈ a.spans, SpanOK src sp := by
  intro sp hsp
  simp only [Ast.spans, List.mem_append, List.mem_map, List.mem_flatMap, Option.mem_toList] at hsp
  rcases hsp with ((((((((((⟨x, hx, rfl⟩ | ⟨x, hx, rfl⟩) | ⟨p, hp, hsp⟩) | ⟨x, hx, rfl⟩) | ⟨x, hx, rfl⟩) |
    ⟨x, hx, rfl⟩) | ⟨x, hx, rfl⟩) | ⟨x, hx, hsp⟩) | ⟨x, hx, rfl⟩) | ⟨x, hx, rfl⟩) | ⟨x, hx, rfl⟩)
  · exact h.start x hx
  · exact h.rules x hx
  · simp only [List.mem_cons, List.mem_map] at hsp
    rcases hsp with rfl | ⟨s, hs, rfl⟩
    · exact (h.prods p hp).1
    · exact (h.prods p hp).2 s hs
  · exact h.tokens x hx
  · exact h.precs x hx
  · exact h.avoid x hx
  · exact h.implicit x hx
  · simp only [List.mem_cons, List.not_mem_nil, or_false] at hsp
    rcases hsp with rfl | rfl
    · exact (h.epp x hx).1
    · exact (h.epp x hx).2
  · exact h.expect x hx
  · exact h.expectrr x hx
  · exact h.unused x hx

/-- every span stored anywhere in the state is well-formed -/
def StOK (src : List Char) (st : St) : Prop :=
  AstOK src st.ast ∧ (∀ sp, st.actiontype = some sp → SpanOK src sp) ∧ ∀ e ∈ st.errs, ErrOK src e

theorem mkError_ok {src : List Char} {k : EK} {i : Nat} (h : Valid src i) : ErrOK src (mkError k i) := by
  refine ⟨by simp [mkError], ?_⟩
  intro sp hsp
  simp [mkError] at hsp
  subst hsp
  exact spanOK_refl h

theorem errAt_sat {α : Type} {src : List Char} {k : EK} {i : Nat} {P : α → Prop} (h : Valid src i) :
    (errAt k i : Res YErr α).Sat P (ErrOK src) := mkError_ok h

theorem mkSpan_sat {ε : Type} {src : List Char} {a b : Nat} {E : ε → Prop} (ha : Valid src a)
    (hb : Valid src b) (hab : a ≤ b) :
    (mkSpan a b : Res ε Span).Sat (fun sp => sp = (a, b) ∧ SpanOK src sp) E := by
  unfold mkSpan
  rw [if_neg (by omega)]
  exact ⟨rfl, hab, ha, hb⟩

theorem stOK_init (src : List Char) : StOK src {} := by
  refine ⟨?_, ?_, ?_⟩
  · constructor <;> intros <;> simp_all
  · intro sp hsp; simp at hsp
  · intro e he; simp at he

/-! ### the regular expressions -/

theorem reName_some {rest m : List Char} (h : reName rest = some m) : m <+: rest ∧ m ≠ [] := by
  cases rest with
  | nil => simp [reName] at h
  | cons c cs =>
    simp only [reName] at h
    split at h
    · simp at h; subst h
      exact ⟨by simpa using (List.takeWhile_prefix _), by simp⟩
    · simp at h

theorem quotedTail_some {q : Char} {rest m : List Char} (h : quotedTail q rest = some m) :
    ∃ body, m = body ++ [q] ∧ m <+: rest := by
  induction rest generalizing m with
  | nil => simp [quotedTail] at h
  | cons c cs ih =>
    simp only [quotedTail] at h
    split at h
    · next hc => simp at h; subst h; subst hc; exact ⟨[], by simp, by simp⟩
    · split at h
      · simp at h
      · simp only [Option.map_eq_some_iff] at h
        obtain ⟨m', hm', rfl⟩ := h
        obtain ⟨body, rfl, hp⟩ := ih hm'
        exact ⟨c :: body, by simp, by simpa using hp⟩

theorem quotedBody_some {q : Char} {rest m : List Char} (h : quotedBody q rest = some m) :
    ∃ body, m = body ++ [q] ∧ m <+: rest := by
  cases rest with
  | nil => simp [quotedBody] at h
  | cons c cs =>
    simp only [quotedBody] at h
    split at h
    · simp at h
    · simp only [Option.map_eq_some_iff] at h
      obtain ⟨m', hm', rfl⟩ := h
      obtain ⟨body, rfl, hp⟩ := quotedTail_some hm'
      exact ⟨c :: body, by simp, by simpa using hp⟩

/-! ### `&self` helpers -/

theorem parseName_sat {src : List Char} {i : Nat} (h : Valid src i) :
    (parseName src i).Sat (fun p => i < p.1 ∧ Valid src p.1) (ErrOK src) := by
  unfold parseName
  refine Header.Sat.bind (slice_sat h) ?_
  intro rest hr
  split
  · next m hm =>
    obtain ⟨hp, hne⟩ := reName_some hm
    have := byteLen_pos hne
    have hv := valid_advance hr hp
    refine Header.Sat.bind (sliceRange_sat h hv (by omega)) ?_
    intro name _
    exact Header.Sat.pure ⟨by simp; omega, hv⟩
  · exact errAt_sat h

theorem quote_size {c : Char} (h : c = '"' ∨ c = '\'') : c.utf8Size = 1 := by
  rcases h with rfl | rfl <;> decide

theorem parseToken_sat {src : List Char} {i : Nat} (h : Valid src i) :
    (parseToken src i).Sat (fun p => i < p.1 ∧ Valid src p.1 ∧ SpanOK src p.2.2.1) (ErrOK src) := by
  unfold parseToken
  refine Header.Sat.bind (slice_sat h) ?_
  intro rest hr
  split
  · next m hm =>
    cases rest with
    | nil => simp [reToken] at hm
    | cons c cs =>
      have hnc : (nextChar src i : Res YErr Char) = .ok c := by simp only [nextChar, slice, hr]; rfl
      simp only [reToken] at hm
      split at hm
      · next hq =>
        -- a quoted token
        simp only [Option.map_eq_some_iff] at hm
        obtain ⟨b, hb, rfl⟩ := hm
        obtain ⟨body, rfl, hp⟩ := quotedBody_some hb
        have hc1 := quote_size hq
        have hq1 : byteLen [c] = 1 := by simp [byteLen, hc1]
        have hlen : byteLen (c :: (body ++ [c])) = 1 + byteLen body + 1 := by
          simp [byteLen, byteLen_append, hc1]; omega
        have hcs : dropBytes src (i + 1) = some cs := by
          have := valid_step hr; rwa [hc1] at this
        have hbody : body <+: cs := (List.prefix_append body [c]).trans hp
        have hvend : Valid src (i + byteLen (c :: (body ++ [c]))) :=
          valid_advance hr (by simpa using hp)
        have hvb : Valid src (i + 1 + byteLen body) := valid_advance hcs hbody
        have e : i + byteLen (c :: (body ++ [c])) - 1 = i + 1 + byteLen body := by omega
        rw [if_neg (by simp)]
        rw [hnc]
        refine Header.Sat.bind (P := fun c' => c' = c) rfl ?_
        intro c' hc'
        subst hc'
        rw [if_pos hq]
        dsimp only
        rw [e]
        refine Header.Sat.bind (sliceRange_sat ⟨cs, hcs⟩ hvb (by omega)) ?_
        intro name _
        refine Header.Sat.bind (mkSpan_sat ⟨cs, hcs⟩ hvb (by omega)) ?_
        intro sp ⟨_, hsp⟩
        exact Header.Sat.pure ⟨by simp; omega, hvend, hsp⟩
      · next hq =>
        split at hm
        · simp only [Option.some.injEq] at hm
          subst hm
          have hp : (c :: cs.takeWhile isNameCont) <+: (c :: cs) := by
            simpa using (List.takeWhile_prefix _)
          have hpos := byteLen_pos (m := c :: cs.takeWhile isNameCont) (by simp)
          have hv := valid_advance hr hp
          rw [if_neg (by simp)]
          rw [hnc]
          refine Header.Sat.bind (P := fun c' => c' = c) rfl ?_
          intro c' hc'
          subst hc'
          rw [if_neg hq]
          refine Header.Sat.bind (sliceRange_sat h hv (by omega)) ?_
          intro name _
          refine Header.Sat.bind (mkSpan_sat h hv (by omega)) ?_
          intro sp ⟨_, hsp⟩
          exact Header.Sat.pure ⟨by simp; omega, hv, hsp⟩
        · simp at hm
  · exact errAt_sat h

theorem toEolLoop_sat {src : List Char} (f : Nat) : ∀ j, Valid src j → byteLen src - j < f →
    (toEolLoop src f j).Sat (fun j' => j ≤ j' ∧ Valid src j') (ErrOK src) := by
  induction f with
  | zero => intro j _ hf; omega
  | succ f ih =>
    intro j hv hf
    unfold toEolLoop
    split
    · next hlt =>
      refine Header.Sat.bind (nextChar_sat hv hlt) ?_
      intro c ⟨rest, hr⟩
      have := Char.utf8Size_pos c
      have hle := step_le hr
      split
      · exact Header.Sat.pure ⟨Nat.le_refl _, hv⟩
      · refine Header.Sat.mono (ih _ ⟨rest, valid_step hr⟩ (by omega)) ?_ (fun _ h => h)
        intro j' ⟨h1, h2⟩
        exact ⟨by omega, h2⟩
    · exact Header.Sat.pure ⟨Nat.le_refl _, hv⟩

theorem parseToEol_sat {src : List Char} {fuel i : Nat} (h : Valid src i) (hf : byteLen src < fuel) :
    (parseToEol src fuel i).Sat (fun p => i ≤ p.1 ∧ Valid src p.1) (ErrOK src) := by
  unfold parseToEol
  refine Header.Sat.bind (toEolLoop_sat fuel i h (by omega)) ?_
  intro j ⟨hij, hj⟩
  refine Header.Sat.bind (sliceRange_sat h hj hij) ?_
  intro s _
  exact Header.Sat.pure ⟨hij, hj⟩

theorem intLoop_sat {src : List Char} (f : Nat) : ∀ j, Valid src j → byteLen src - j < f →
    (intLoop src f j).Sat (fun j' => j ≤ j' ∧ Valid src j') (ErrOK src) := by
  induction f with
  | zero => intro j _ hf; omega
  | succ f ih =>
    intro j hv hf
    unfold intLoop
    split
    · next hlt =>
      refine Header.Sat.bind (nextChar_sat hv hlt) ?_
      intro c ⟨rest, hr⟩
      have hle := step_le hr
      split
      · next hd =>
        have hs := digit_size c hd
        rw [hs] at hle
        have hv' : Valid src (j + 1) := ⟨rest, by have := valid_step hr; rwa [hs] at this⟩
        refine Header.Sat.mono (ih _ hv' (by omega)) ?_ (fun _ h => h)
        intro j' ⟨h1, h2⟩
        exact ⟨by omega, h2⟩
      · exact Header.Sat.pure ⟨Nat.le_refl _, hv⟩
    · exact Header.Sat.pure ⟨Nat.le_refl _, hv⟩

theorem parseInt_sat {src : List Char} {fuel i : Nat} (h : Valid src i) (hf : byteLen src < fuel) :
    (parseInt src fuel i).Sat (fun p => i ≤ p.1 ∧ Valid src p.1) (ErrOK src) := by
  unfold parseInt
  refine Header.Sat.bind (intLoop_sat fuel i h (by omega)) ?_
  intro j ⟨hij, hj⟩
  refine Header.Sat.bind (sliceRange_sat h hj hij) ?_
  intro s _
  split
  · exact Header.Sat.pure ⟨hij, hj⟩
  · exact errAt_sat h

theorem strLoop_sat {src : List Char} {qc : Char} (hq : qc = '\'' ∨ qc = '"') (f : Nat) :
    ∀ i j s, Valid src i → Valid src j → i ≤ j → byteLen src - j < f →
    (strLoop src qc f i j s).Sat (fun p => j < p.1 ∧ Valid src p.1) (ErrOK src) := by
  induction f with
  | zero => intro i j s _ _ _ hf; omega
  | succ f ih =>
    intro i j s hi hj hij hf
    unfold strLoop
    split
    · next hlt =>
      refine Header.Sat.bind (nextChar_sat hj hlt) ?_
      intro c ⟨rest, hr⟩
      have hpos := Char.utf8Size_pos c
      have hle := step_le hr
      split
      · exact errAt_sat hj
      · split
        · next hc =>
          have hs : c.utf8Size = 1 := by
            subst hc; rcases hq with rfl | rfl <;> decide
          have hv' : Valid src (j + 1) := ⟨rest, by have := valid_step hr; rwa [hs] at this⟩
          refine Header.Sat.bind (sliceRange_sat hi hj hij) ?_
          intro chunk _
          exact Header.Sat.pure ⟨by simp, hv'⟩
        · split
          · next hc =>
            have hs : c.utf8Size = 1 := by subst hc; decide
            have hr1 : dropBytes src (j + 1) = some rest := by
              have := valid_step hr; rwa [hs] at this
            refine Header.Sat.bind (P := fun r => rest = r) (by simp [slice, hr1, Res.Sat]) ?_
            intro rest' hr'
            subst hr'
            split
            · next d ds =>
              split
              · next hd =>
                have hds : d.utf8Size = 1 := by rcases hd with rfl | rfl <;> decide
                have hr2 : dropBytes src (j + 2) = some ds := by
                  have := valid_step hr1; rw [hds] at this; exact this
                have hle2 := Valid.le ⟨ds, hr2⟩
                refine Header.Sat.bind (sliceRange_sat hi hj hij) ?_
                intro chunk _
                refine Header.Sat.mono (ih _ _ _ ⟨_, hr1⟩ ⟨ds, hr2⟩ (by omega) (by omega)) ?_
                  (fun _ h => h)
                intro p ⟨h1, h2⟩
                exact ⟨by omega, h2⟩
              · exact errAt_sat hj
            · exact errAt_sat hj
          · refine Header.Sat.mono (ih _ _ _ hi ⟨rest, valid_step hr⟩ (by omega) (by omega)) ?_
              (fun _ h => h)
            intro p ⟨h1, h2⟩
            exact ⟨by omega, h2⟩
    · exact errAt_sat hj

theorem parseString_sat {src : List Char} {fuel i : Nat} (h : Valid src i) (hf : byteLen src < fuel) :
    (parseString src fuel i).Sat (fun p => i < p.1 ∧ Valid src p.1) (ErrOK src) := by
  unfold parseString
  refine Header.Sat.bind (lookahead_sat _ h) ?_
  intro o ho
  split
  · next j =>
    obtain ⟨hj, hvj⟩ := ho j rfl
    have h1 : byteLen ['\''] = 1 := by decide
    rw [h1] at hj; subst hj
    have := hvj.le
    refine Header.Sat.mono (strLoop_sat (Or.inl rfl) fuel _ _ _ hvj hvj (Nat.le_refl _) (by omega)) ?_
      (fun _ h => h)
    intro p ⟨h1, h2⟩
    exact ⟨by omega, h2⟩
  · refine Header.Sat.bind (lookahead_sat _ h) ?_
    intro o2 ho2
    split
    · next j =>
      obtain ⟨hj, hvj⟩ := ho2 j rfl
      have h1 : byteLen ['"'] = 1 := by decide
      rw [h1] at hj; subst hj
      have := hvj.le
      refine Header.Sat.mono (strLoop_sat (Or.inr rfl) fuel _ _ _ hvj hvj (Nat.le_refl _) (by omega)) ?_
        (fun _ h => h)
      intro p ⟨h1, h2⟩
      exact ⟨by omega, h2⟩
    · exact errAt_sat h

end GrmVerif.YaccParse
