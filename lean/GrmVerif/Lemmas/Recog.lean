import GrmVerif.Model.Recog
import GrmVerif.Lemmas.Costs2
/-! Soundness of the bounded recogniser and of the maximal-cost witnesses. -/
namespace GrmVerif.Spec
open GrmVerif Ref

mutual
theorem recogSym_sound (G : Grammar) (allow : Nat → Bool) :
    ∀ (fuel : Nat) (s : Sym) (w : List Nat), recogSym G allow fuel s w = true → Derives G s w
  | _, .tok t, w, h => by
    have : w = [t] := by
      cases w with
      | nil => simp [recogSym] at h
      | cons a as => simpa [recogSym] using h
    subst this; exact .tok t
  | 0, .rule _, _, h => by simp [recogSym] at h
  | fuel + 1, .rule r, w, h => by
    simp only [recogSym, List.any_eq_true, Bool.and_eq_true] at h
    obtain ⟨p, hp, _, hseq⟩ := h
    obtain ⟨hp1, hp2⟩ := mem_prodsOf.mp hp
    rw [← hp2]
    exact .rule p w hp1 (recogSeq_sound G allow fuel (G.rhs p) w hseq)
theorem recogSeq_sound (G : Grammar) (allow : Nat → Bool) :
    ∀ (fuel : Nat) (l : List Sym) (w : List Nat), recogSeq G allow fuel l w = true → DerivesSeq G l w
  | _, [], w, h => by
    have : w = [] := by cases w <;> simp_all [recogSeq]
    subst this; exact .nil
  | 0, _ :: _, _, h => by simp [recogSeq] at h
  | fuel + 1, .tok t :: rest, w, h => by
    cases w with
    | nil => simp [recogSeq] at h
    | cons a w' =>
      simp only [recogSeq, Bool.and_eq_true, beq_iff_eq] at h
      obtain ⟨rfl, h2⟩ := h
      exact DerivesSeq.cons (.tok a) rest [a] w' (.tok a) (recogSeq_sound G allow fuel rest w' h2)
  | fuel + 1, .rule r :: rest, w, h => by
    simp only [recogSeq, List.any_eq_true, List.mem_range, Bool.and_eq_true] at h
    obtain ⟨k, _, h1, h2⟩ := h
    have := DerivesSeq.cons (.rule r) rest (w.take k) (w.drop k) (recogSym_sound G allow fuel _ _ h2)
      (recogSeq_sound G allow fuel rest _ h1)
    simpa using this
end

end GrmVerif.Spec
