import GrmVerif.Model.Header
/-!
Specification side of C12: what it means for a span to be renderable in a text, and the executable
checker (`spanWFb`, `resultWFb`) the driver evaluates on the *implementation's* spans. The checker is
proved equivalent to the declarative definition in `Lemmas/Header.lean` (`spanWFb_iff`).
-/
namespace GrmVerif.Header

/-- `b` is a character boundary of `src` (including 0 and the end) -/
def IsBoundary (src : List Char) (b : Nat) : Prop :=
  ∃ pre post, src = pre ++ post ∧ byteLen pre = b

/-- the property's span condition: start ≤ end ≤ length of the text, both on character boundaries -/
def SpanWF (src : List Char) (sp : Span) : Prop :=
  sp.1 ≤ sp.2 ∧ sp.2 ≤ byteLen src ∧ IsBoundary src sp.1 ∧ IsBoundary src sp.2

def isBoundaryB (src : List Char) (b : Nat) : Bool := (dropBytes src b).isSome

def spanWFb (src : List Char) (sp : Span) : Bool :=
  decide (sp.1 ≤ sp.2) && decide (sp.2 ≤ byteLen src) && isBoundaryB src sp.1 && isBoundaryB src sp.2

/-- what a specification parser may return, as the harness dumps it: a value (with its end position,
and every span it or the warnings carry) or a list of errors (each a list of spans); `crashed` = the
call did not return (panic or hang) -/
inductive Outcome where
  | crashed
  | value (pos : Nat) (spans : List Span)
  | errors (errs : List (List Span))

/-- the property for one outcome -/
def OutcomeOK (src : List Char) : Outcome → Prop
  | .crashed => False
  | .value pos spans => IsBoundary src pos ∧ ∀ sp ∈ spans, SpanWF src sp
  | .errors errs => errs ≠ [] ∧ ∀ e ∈ errs, ∀ sp ∈ e, SpanWF src sp

def outcomeOKb (src : List Char) : Outcome → Bool
  | .crashed => false
  | .value pos spans => isBoundaryB src pos && spans.all (spanWFb src)
  | .errors errs => !errs.isEmpty && errs.all (fun e => e.all (spanWFb src))

def outcomesOKb (src : List Char) (os : List Outcome) : Bool := os.all (outcomeOKb src)

end GrmVerif.Header
