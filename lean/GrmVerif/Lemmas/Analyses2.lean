import GrmVerif.Lemmas.Analyses
/-! FIRST, FOLLOW and reachability: the reference computations are exact. -/
namespace GrmVerif.Spec
open GrmVerif Ref Fix

/-! ### FIRST -/

/-- what `firstSeq` finds, as a decomposition of the sequence -/
theorem firstSeq_sound {G : Grammar} {N : Nat → Bool} {F : Nat × Nat → Bool}
    (hN : ∀ r, N r = true → NullableR G r) (t : Nat) :
    ∀ l : List Sym, firstSeq N F l t = true →
      ∃ α X β, l = α ++ X :: β ∧ NullableSeq G α ∧ (X = .tok t ∨ ∃ q, X = .rule q ∧ F (q, t) = true) := by
  intro l
  induction l with
  | nil => intro h; simp [firstSeq] at h
  | cons s rest ih =>
    intro h
    cases s with
    | tok a =>
      simp only [firstSeq, beq_iff_eq] at h
      subst h
      exact ⟨[], .tok a, rest, rfl, .nil, Or.inl rfl⟩
    | rule q =>
      simp only [firstSeq, Bool.or_eq_true, Bool.and_eq_true] at h
      rcases h with h | ⟨hq, h⟩
      · exact ⟨[], .rule q, rest, rfl, .nil, Or.inr ⟨q, rfl, h⟩⟩
      · obtain ⟨α, X, β, h1, h2, h3⟩ := ih h
        exact ⟨.rule q :: α, X, β, by simp [h1], .cons q α (hN q hq) h2, h3⟩

theorem nullableSeq_head {G : Grammar} {s : Sym} {rest : List Sym} (h : NullableSeq G (s :: rest)) :
    (∃ q, s = .rule q ∧ NullableR G q) ∧ NullableSeq G rest := by
  cases h with
  | cons r _ hr hrest => exact ⟨⟨r, rfl, hr⟩, hrest⟩

theorem firstSeq_complete {G : Grammar} {N : Nat → Bool} {F : Nat × Nat → Bool}
    (hN : ∀ r, NullableR G r → N r = true) (t : Nat) :
    ∀ (α : List Sym) (X : Sym) (β : List Sym), NullableSeq G α →
      (X = .tok t ∨ ∃ q, X = .rule q ∧ F (q, t) = true) → firstSeq N F (α ++ X :: β) t = true := by
  intro α
  induction α with
  | nil =>
    intro X β _ hX
    rcases hX with rfl | ⟨q, rfl, hq⟩
    · simp [firstSeq]
    · simp [firstSeq, hq]
  | cons s rest ih =>
    intro X β hα hX
    obtain ⟨⟨q, rfl, hq⟩, hrest⟩ := nullableSeq_head hα
    simp only [List.cons_append, firstSeq, Bool.or_eq_true, Bool.and_eq_true]
    right
    exact ⟨hN q hq, ih X β hrest hX⟩

theorem firsts_exact (G : Grammar) (hwf : G.wf = true) (N : Nat → Bool)
    (hN : ∀ r, N r = true ↔ NullableR G r) (F : List (Nat × Nat)) (h : firsts G N = some F) :
    ∀ r t, (r, t) ∈ F ↔ FirstP G r t := by
  intro r t
  constructor
  · intro hr
    have := lfp_sound (pairs G.nrules G.ntoks) (firstDerive G N) (fun x => FirstP G x.1 x.2) ?_ _ [] F
      (by simp) h (r, t) hr
    · exact this
    · intro S hS x _ hd
      simp only [firstDerive, List.any_eq_true] at hd
      obtain ⟨p, hp, hseq⟩ := hd
      obtain ⟨hp1, hp2⟩ := mem_prodsOf.mp hp
      obtain ⟨α, X, β, h1, h2, h3⟩ := firstSeq_sound (fun r hr => (hN r).mp hr) x.2 _ hseq
      rw [← hp2]
      rcases h3 with rfl | ⟨q, rfl, hq⟩
      · exact .tok p α x.2 β hp1 h1 h2
      · exact .rule p α q β x.2 hp1 h1 h2 (hS (q, x.2) (by simpa using hq))
  · intro hr
    have hcl := lfp_closed (pairs G.nrules G.ntoks) (firstDerive G N) _ [] F h
    have hsub := lfp_subset (pairs G.nrules G.ntoks) (firstDerive G N) _ [] F (by simp) h
    induction hr with
    | tok p α t β hp hrhs hα =>
      have ht : t < G.ntoks := by
        have := wf_sym hwf hp (s := .tok t) (by rw [hrhs]; simp)
        simpa [Grammar.symOk] using this
      apply hcl (G.lhs p, t) (mem_pairs.mpr ⟨wf_lhs hwf hp, ht⟩)
      simp only [firstDerive, List.any_eq_true]
      refine ⟨p, mem_prodsOf.mpr ⟨hp, rfl⟩, ?_⟩
      rw [hrhs]
      exact firstSeq_complete (fun r hr => (hN r).mpr hr) t α (.tok t) β hα (Or.inl rfl)
    | rule p α q β t hp hrhs hα _ ih =>
      have ht : t < G.ntoks := (mem_pairs.mp (hsub _ ih)).2
      apply hcl (G.lhs p, t) (mem_pairs.mpr ⟨wf_lhs hwf hp, ht⟩)
      simp only [firstDerive, List.any_eq_true]
      refine ⟨p, mem_prodsOf.mpr ⟨hp, rfl⟩, ?_⟩
      rw [hrhs]
      exact firstSeq_complete (fun r hr => (hN r).mpr hr) t α (.rule q) β hα
        (Or.inr ⟨q, rfl, by simpa using ih⟩)

/-- `firstSeq` with exact `N` and `F` decides `FirstSeqP` -/
theorem firstSeq_iff {G : Grammar} {N : Nat → Bool} {F : Nat × Nat → Bool}
    (hN : ∀ r, N r = true ↔ NullableR G r) (hF : ∀ r t, F (r, t) = true ↔ FirstP G r t)
    (l : List Sym) (t : Nat) : firstSeq N F l t = true ↔ FirstSeqP G l t := by
  constructor
  · intro h
    obtain ⟨α, X, β, h1, h2, h3⟩ := firstSeq_sound (fun r hr => (hN r).mp hr) t l h
    refine ⟨α, X, β, h1, h2, ?_⟩
    rcases h3 with h3 | ⟨q, hq, hf⟩
    · exact Or.inl h3
    · exact Or.inr ⟨q, hq, (hF q t).mp hf⟩
  · rintro ⟨α, X, β, h1, h2, h3⟩
    rw [h1]
    apply firstSeq_complete (fun r hr => (hN r).mpr hr) t α X β h2
    rcases h3 with h3 | ⟨q, hq, hf⟩
    · exact Or.inl h3
    · exact Or.inr ⟨q, hq, (hF q t).mpr hf⟩

theorem seqNullable_iff {G : Grammar} {N : Nat → Bool} (hN : ∀ r, N r = true ↔ NullableR G r)
    (l : List Sym) : seqNullable N l = true ↔ NullableSeq G l := by
  constructor
  · exact seqNullable_sound (fun r hr => (hN r).mp hr) l
  · intro h
    induction l with
    | nil => simp [seqNullable]
    | cons s rest ih =>
      obtain ⟨⟨q, rfl, hq⟩, hrest⟩ := nullableSeq_head h
      have := ih hrest
      simp only [seqNullable] at this ⊢
      simp [symNullable, (hN q).mpr hq, this]

/-! ### FOLLOW -/

theorem followOcc_iff (N : Nat → Bool) (F : Nat × Nat → Bool) (S : Nat × Nat → Bool) (B A t : Nat) :
    ∀ l : List Sym, followOcc N F S B A t l = true ↔
      ∃ α β, l = α ++ .rule A :: β ∧ (firstSeq N F β t = true ∨ (seqNullable N β = true ∧ S (B, t) = true)) := by
  intro l
  induction l with
  | nil => simp [followOcc]
  | cons s rest ih =>
    cases s with
    | tok a =>
      simp only [followOcc, ih]
      constructor
      · rintro ⟨α, β, h1, h2⟩; exact ⟨.tok a :: α, β, by simp [h1], h2⟩
      · rintro ⟨α, β, h1, h2⟩
        cases α with
        | nil => simp at h1
        | cons x xs =>
          simp only [List.cons_append, List.cons.injEq] at h1
          exact ⟨xs, β, h1.2, h2⟩
    | rule q =>
      simp only [followOcc, Bool.or_eq_true, Bool.and_eq_true, beq_iff_eq, ih]
      constructor
      · rintro (⟨rfl, h⟩ | ⟨α, β, h1, h2⟩)
        · exact ⟨[], rest, rfl, h⟩
        · exact ⟨.rule q :: α, β, by simp [h1], h2⟩
      · rintro ⟨α, β, h1, h2⟩
        cases α with
        | nil =>
          simp only [List.nil_append, List.cons.injEq, Sym.rule.injEq] at h1
          obtain ⟨rfl, rfl⟩ := h1
          exact Or.inl ⟨rfl, h2⟩
        | cons x xs =>
          simp only [List.cons_append, List.cons.injEq] at h1
          exact Or.inr ⟨xs, β, h1.2, h2⟩

theorem follows_exact (G : Grammar) (hwf : G.wf = true) (N : Nat → Bool) (F : Nat × Nat → Bool)
    (hN : ∀ r, N r = true ↔ NullableR G r) (hF : ∀ r t, F (r, t) = true ↔ FirstP G r t)
    (W : List (Nat × Nat)) (h : follows G N F = some W) :
    ∀ A t, (A, t) ∈ W ↔ FollowP G A t := by
  intro A t
  constructor
  · intro hr
    have := lfp_sound (pairs G.nrules G.ntoks) (followDerive G N F) (fun x => FollowP G x.1 x.2) ?_ _ [] W
      (by simp) h (A, t) hr
    · exact this
    · intro S hS x _ hd
      simp only [followDerive, Bool.or_eq_true, Bool.and_eq_true, beq_iff_eq, List.any_eq_true,
        List.mem_range] at hd
      rcases hd with ⟨h1, h2⟩ | ⟨p, hp, hocc⟩
      · obtain ⟨a, b⟩ := x; simp only at h1 h2; subst h1; subst h2; exact .start
      · obtain ⟨α, β, h1, h2⟩ := (followOcc_iff N F _ _ _ _ _).mp hocc
        rcases h2 with h2 | ⟨h2, h3⟩
        · exact .first p α x.1 β x.2 hp h1 ((firstSeq_iff hN hF β x.2).mp h2)
        · exact .inherit p α x.1 β x.2 hp h1 ((seqNullable_iff hN β).mp h2)
            (hS (G.lhs p, x.2) (by simpa using h3))
  · intro hr
    have hcl := lfp_closed (pairs G.nrules G.ntoks) (followDerive G N F) _ [] W h
    have hsub := lfp_subset (pairs G.nrules G.ntoks) (followDerive G N F) _ [] W (by simp) h
    have hfirst_tok : ∀ (l : List Sym) (p : Nat) (γ δ : List Sym) (t : Nat), p < G.nprods →
        G.rhs p = γ ++ δ → δ = l → FirstSeqP G l t → t < G.ntoks := by
      intro l p γ δ t hp hrhs hδ hfs
      obtain ⟨α, X, β, h1, _, h3⟩ := hfs
      rcases h3 with rfl | ⟨q, rfl, hq⟩
      · have := wf_sym hwf hp (s := .tok t) (by rw [hrhs, hδ, h1]; simp)
        simpa [Grammar.symOk] using this
      · -- FIRST tokens are tokens of the grammar
        have : ∀ r t, FirstP G r t → t < G.ntoks := by
          intro r t hft
          induction hft with
          | tok p α t β hp hrhs _ =>
            have := wf_sym hwf hp (s := .tok t) (by rw [hrhs]; simp)
            simpa [Grammar.symOk] using this
          | rule _ _ _ _ _ _ _ _ _ ih => exact ih
        exact this q t hq
    induction hr with
    | start =>
      apply hcl (G.startRule, G.eof) (mem_pairs.mpr ⟨wf_startRule hwf, wf_eof hwf⟩)
      simp [followDerive]
    | first p α A β t hp hrhs hfs =>
      have hA : A < G.nrules := by
        have := wf_sym hwf hp (s := .rule A) (by rw [hrhs]; simp)
        simpa [Grammar.symOk] using this
      have ht : t < G.ntoks :=
        hfirst_tok β p (α ++ [.rule A]) β t hp (by rw [hrhs]; simp) rfl hfs
      apply hcl (A, t) (mem_pairs.mpr ⟨hA, ht⟩)
      simp only [followDerive, Bool.or_eq_true, List.any_eq_true, List.mem_range]
      right
      refine ⟨p, hp, (followOcc_iff N F _ _ _ _ _).mpr ⟨α, β, hrhs, Or.inl ?_⟩⟩
      exact (firstSeq_iff hN hF β t).mpr hfs
    | inherit p α A β t hp hrhs hβ _ ih =>
      have hA : A < G.nrules := by
        have := wf_sym hwf hp (s := .rule A) (by rw [hrhs]; simp)
        simpa [Grammar.symOk] using this
      have ht : t < G.ntoks := (mem_pairs.mp (hsub _ ih)).2
      apply hcl (A, t) (mem_pairs.mpr ⟨hA, ht⟩)
      simp only [followDerive, Bool.or_eq_true, List.any_eq_true, List.mem_range]
      right
      refine ⟨p, hp, (followOcc_iff N F _ _ _ _ _).mpr ⟨α, β, hrhs, Or.inr ⟨?_, by simpa using ih⟩⟩⟩
      exact (seqNullable_iff hN β).mpr hβ

/-! ### reachability -/

theorem occursIn_iff (G : Grammar) (C B : Nat) :
    occursIn G C B = true ↔ ∃ p, p < G.nprods ∧ G.lhs p = C ∧ Sym.rule B ∈ G.rhs p := by
  simp only [occursIn, List.any_eq_true, List.contains_eq_mem, decide_eq_true_eq]
  constructor
  · rintro ⟨p, hp, hm⟩; obtain ⟨h1, h2⟩ := mem_prodsOf.mp hp; exact ⟨p, h1, h2, by simpa using hm⟩
  · rintro ⟨p, h1, h2, hm⟩; exact ⟨p, mem_prodsOf.mpr ⟨h1, h2⟩, by simpa using hm⟩

theorem reach_exact (G : Grammar) (hwf : G.wf = true) (A : Nat) (R : List Nat) (h : reach G A = some R) :
    ∀ B, B ∈ R ↔ Reach G A B := by
  intro B
  constructor
  · intro hr
    refine lfp_sound (List.range G.nrules) (reachDerive G A) (Reach G A) ?_ _ [] R (by simp) h B hr
    intro S hS x _ hd
    simp only [reachDerive, Bool.or_eq_true, List.any_eq_true, List.mem_range, Bool.and_eq_true] at hd
    rcases hd with hd | ⟨C, _, hC, hd⟩
    · obtain ⟨p, h1, h2, hm⟩ := (occursIn_iff G A x).mp hd
      rw [← h2]; exact .edge p x h1 hm
    · obtain ⟨p, h1, h2, hm⟩ := (occursIn_iff G C x).mp hd
      have hCm : Reach G A C := hS C (by simpa using hC)
      rw [← h2] at hCm
      exact .step A p x hCm h1 hm
  · intro hr
    have hcl := lfp_closed (List.range G.nrules) (reachDerive G A) _ [] R h
    induction hr with
    | edge p B hp hm =>
      have hB : B < G.nrules := by simpa [Grammar.symOk] using wf_sym hwf hp hm
      apply hcl B (by simpa using hB)
      simp only [reachDerive, Bool.or_eq_true]
      left; exact (occursIn_iff G _ B).mpr ⟨p, hp, rfl, hm⟩
    | step A' p B _ hp hm ih =>
      have hB : B < G.nrules := by simpa [Grammar.symOk] using wf_sym hwf hp hm
      apply hcl B (by simpa using hB)
      simp only [reachDerive, Bool.or_eq_true, List.any_eq_true, List.mem_range, Bool.and_eq_true]
      right
      exact ⟨G.lhs p, wf_lhs hwf hp, by simpa using ih h hcl, (occursIn_iff G _ B).mpr ⟨p, hp, rfl, hm⟩⟩

end GrmVerif.Spec
