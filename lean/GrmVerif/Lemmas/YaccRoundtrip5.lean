import GrmVerif.Lemmas.YaccRoundtrip4
/-!
C10, text → AST stage, part 5: the fuel the parser hands to its loops (`|src| + 1`) suffices for a
rendered rules section; `wfRules` gives the side conditions of part 4.
-/
namespace GrmVerif.YaccRender
open GrmVerif.YaccParse
open GrmVerif.Header (Res Span byteLen byteLen_append)

theorem length_le_byteLen (s : List Char) : s.length ≤ byteLen s := by
  induction s with
  | nil => simp [byteLen]
  | cons c cs ih => have := Char.utf8Size_pos c; simp only [List.length_cons, byteLen]; omega

theorem len_syms (ss : List RTok) : ss.length ≤ (renderSyms ss).length := by
  induction ss with
  | nil => simp [renderSyms]
  | cons s ss ih => simp only [renderSyms, List.length_cons, List.length_append]; omega

theorem len_empty (e : Bool) : bfuel e ≤ (renderEmpty e).length := by cases e <;> simp [bfuel, renderEmpty]

theorem len_prec (o : Option RTok) : bfuel o.isSome ≤ (renderPrec o).length := by
  cases o <;> simp [bfuel, renderPrec]

theorem len_action (o : Option (List Char)) : bfuel o.isSome ≤ (renderAction o).length := by
  cases o <;> simp [bfuel, renderAction]

theorem len_action' {o : Option (List Char)} {a : List Char} (h : o = some a) :
    a.length + 2 ≤ (renderAction o).length := by
  subst h; simp [renderAction]

theorem len_prod (pr : RProd) : prodFuel pr ≤ (renderProd pr).length := by
  have := len_empty pr.empty; have := len_syms pr.syms; have := len_prec pr.prec
  have := len_action pr.action
  simp only [prodFuel, renderProd, List.length_append]; omega

theorem len_prod_action {pr : RProd} {a : List Char} (h : pr.action = some a) :
    a.length + 2 ≤ (renderProd pr).length := by
  have := len_action' h
  simp only [renderProd, List.length_append]; omega

theorem len_prods : ∀ (more : List RProd) (pr : RProd),
    prodsFuel pr more ≤ (renderProds pr more).length ∧
      ∀ q ∈ pr :: more, (renderProd q).length ≤ (renderProds pr more).length := by
  intro more
  induction more with
  | nil =>
    intro pr
    have := len_prod pr
    refine ⟨by simp only [prodsFuel, renderProds, List.length_append, List.length_cons]; omega, ?_⟩
    intro q hq
    simp only [List.mem_cons, List.not_mem_nil, or_false] at hq
    subst hq; simp [renderProds]
  | cons q qs ih =>
    intro pr
    have := len_prod pr
    obtain ⟨h1, h2⟩ := ih q
    refine ⟨by simp only [prodsFuel, renderProds, List.length_append, List.length_cons]; omega, ?_⟩
    intro q' hq'
    rcases List.mem_cons.1 hq' with rfl | hq'
    · simp [renderProds]
    · have := h2 q' hq'
      simp only [renderProds, List.length_append, List.length_cons]; omega

theorem len_rules (g : Bool) : ∀ (rs : List RRule), rs.length ≤ (renderRules g rs).length ∧
    ∀ r ∈ rs, (renderRule g r).length ≤ (renderRules g rs).length := by
  intro rs
  induction rs with
  | nil => simp [renderRules]
  | cons r rs ih =>
    obtain ⟨h1, h2⟩ := ih
    have hr : 1 ≤ (renderRule g r).length := by simp [renderRule]; omega
    refine ⟨by simp only [renderRules, List.length_append, List.length_cons]; omega, ?_⟩
    intro r' hr'
    rcases List.mem_cons.1 hr' with rfl | hr'
    · simp [renderRules]
    · have := h2 r' hr'
      simp only [renderRules, List.length_append]; omega

theorem ruleOK_of_wf {g : Bool} {fuel : Nat} {rs : List RRule} (hw : wfRules g rs = true)
    (hf : (renderRules g rs).length < fuel) : ∀ r ∈ rs, ruleOK g fuel r := by
  intro r hr
  simp only [wfRules, List.all_eq_true] at hw
  have hwr := hw r hr
  simp only [wfRule, Bool.and_eq_true, List.all_eq_true, RRule.prods, Bool.or_eq_true,
    Bool.not_eq_true'] at hwr
  have hlen := (len_rules g rs).2 r hr
  obtain ⟨hp1, hp2⟩ := len_prods r.more r.first
  have hrl : (renderProds r.first r.more).length + (renderHead g r).length ≤ (renderRule g r).length := by
    simp [renderRule]; omega
  refine ⟨hwr.1.1, by omega, ?_, ?_⟩
  · intro q hq
    refine ⟨hwr.1.2 q hq, ?_⟩
    intro a ha
    have := len_prod_action ha
    have := hp2 q hq
    omega
  · intro hg
    subst hg
    rcases hwr.2 with h | h
    · cases h
    · refine ⟨h, ?_⟩
      have : r.ty.length ≤ (renderHead true r).length := by simp [renderHead]; omega
      omega

theorem runRules_pos (g : Bool) : ∀ (rs : List RRule) (i : Nat) (st : St),
    (runRules g i rs st).1 = i + byteLen (renderRules g rs) := by
  intro rs
  induction rs with
  | nil => intro i st; simp [runRules, renderRules, byteLen]
  | cons r rs ih => intro i st; rw [runRules, ih, runRule_pos, renderRules, byteLen_append]; omega

end GrmVerif.YaccRender
