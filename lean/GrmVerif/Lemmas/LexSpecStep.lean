import GrmVerif.Lemmas.LexSpecLines
/-!
One line of a specification: the model's steps (`ruleLineStep`, `declLineStep`) against the
specification's (`ruleStepSpec`), and how they relate to the line-level models `parseRuleLine` and
`parseDeclLine`.
-/
namespace GrmVerif.LexSpecParse
open GrmVerif.LexUnescape GrmVerif.LexParse

/-! ### Rule lines -/

theorem pushRule_eq (env : Env) (hb : env.cfg.BOk) (i : Nat) (before : List Char)
    (name : Option (List Char)) (span : Nat × Nat) (tgt : Option (Nat × Nat)) (st : PState) :
    pushRule env i before name span tgt st = some (pushRuleSpec env i before name span tgt st) := by
  unfold pushRule pushRuleSpec
  rw [parseStartStates_eq env.cfg hb, Option.map_some]

/-- the model of `parse_rule` on one line (reverse scans, offsets by subtraction, a byte slice)
does not panic and is the specification's step -/
theorem ruleLineStep_eq (env : Env) (hb : env.cfg.BOk) (i : Nat) (raw : List Char) (st : PState) :
    ruleLineStep env i raw st = some (ruleStepSpec env i raw st) := by
  unfold ruleLineStep ruleStepSpec
  simp only [trimEnd_eq_dropTrailing, splitLast_eq_lastSplit]
  cases hl : lastSplit isSpaceSep (dropTrailing isPWS raw) with
  | none => rfl
  | some t =>
    obtain ⟨pre, s, post⟩ := t
    obtain ⟨hline, hs⟩ := lastSplit_some isSpaceSep _ pre post s hl
    have hs1 : s.utf8Size = 1 := by
      simp only [isSpaceSep, Bool.or_eq_true, beq_iff_eq] at hs
      rcases hs with rfl | rfl <;> decide
    have hdrop : dropB (dropTrailing isPWS raw) (byteLen pre + 1) = some post := by
      have := dropB_append (pre ++ [s]) post
      rw [byteLen_append, byteLen_cons, hs1] at this
      simp only [byteLen, Nat.add_zero] at this
      rw [hline]; simpa using this
    simp only [hdrop, Option.bind_some, hs1]
    have htgt := targetOf_eq post
    cases hts : targetSpec post with
    | none => simp [htgt, hts, Nat.add_comm]
    | some t2 =>
      obtain ⟨target, tlen, orig⟩ := t2
      obtain ⟨tp, hpost, htl⟩ := targetSpec_some post target tlen orig hts
      simp only [htgt, hts, Option.map_some]
      cases hrt : resolveTarget st.states target with
      | none => rfl
      | some tgt =>
        simp only
        by_cases hskip : isSkipName orig = true
        · simp only [hskip, if_true]
          exact pushRule_eq env hb _ _ _ _ _ _
        · simp only [hskip, Bool.false_eq_true, if_false]
          by_cases hq : quotedOk orig = true
          · simp only [hq, Bool.not_true, Bool.false_eq_true, if_false]
            obtain ⟨q, q', ho, hq1, hq2⟩ := quotedOk_shape orig hq
            have hlen : byteLen (dropTrailing isPWS raw) = byteLen pre + 1 + tlen + byteLen orig := by
              rw [hline, hpost]
              simp only [byteLen_append, byteLen_cons, hs1, htl]; omega
            have hbo : byteLen orig = byteLen ((orig.drop 1).dropLast) + 2 := by
              conv => lhs; rw [ho]
              simp only [byteLen_append, byteLen, hq1, hq2]; omega
            have e1 : i + byteLen (dropTrailing isPWS raw) - byteLen orig + 1
                = i + byteLen pre + 1 + tlen + 1 := by omega
            have e2 : i + byteLen (dropTrailing isPWS raw) - byteLen orig + byteLen orig - 1
                = i + byteLen pre + 1 + tlen + 1 + byteLen ((orig.drop 1).dropLast) := by omega
            rw [e1, e2]
            cases findRule st.rules ((orig.drop 1).dropLast) with
            | some r => rfl
            | none => exact pushRule_eq env hb _ _ _ _ _ _
          · simp [hq]

/-! ### Declaration lines -/


/-- `parseDeclLine` is `declLineParts` followed by the validation of the names -/
theorem parseDeclLine_parts (ws : Char → Bool) (raw : List Char) :
    parseDeclLine ws raw =
      match declLineParts ws raw with
      | none => .error (.unknownDeclaration, 0)
      | some (excl, names) =>
        match firstInvalid names with
        | some a => .error (.invalidStartStateName, a)
        | none => .ok (excl, names) := by
  unfold parseDeclLine declLineParts
  simp only
  cases declKind ((trimEnd ws raw).takeWhile fun c => !ws c) with
  | none => rfl
  | some excl =>
    simp only
    split
    · rfl
    · simp only
      split
      · next a h => rw [h]
      · next h => rw [h]

theorem lastEnd_append (xs ys : List (List Char × Nat × Nat)) :
    lastEnd (xs ++ ys) = if ys = [] then lastEnd xs else lastEnd ys := by
  unfold lastEnd
  cases ys with
  | nil => simp
  | cons y ys' =>
    simp only [List.getLast?_append, reduceCtorEq, if_false]
    cases h : (y :: ys').getLast? with
    | none => simp at h
    | some v => simp

/-- the last name of `RE_WS.split` over a text that ends in a non-blank ends where the text ends -/
theorem lastEnd_spansOf (p : Char → Bool) (s : List Char) : ∀ off, s ≠ [] →
    (∀ c, s.getLast? = some c → p c = false) →
    lastEnd (spansOf (splitWsAt p s off)) = off + byteLen s := by
  induction s with
  | nil => intro off h; exact absurd rfl h
  | cons c cs ih =>
    intro off _ hlast
    cases cs with
    | nil =>
      have hc : p c = false := hlast c rfl
      simp [splitWsAt, hc, spansOf, lastEnd, byteLen]
    | cons d ds =>
      have hl' : ∀ x, (d :: ds).getLast? = some x → p x = false := by
        intro x hx; apply hlast x; rw [List.getLast?_cons_cons]; exact hx
      have ih' := ih (off + c.utf8Size) (by simp) hl'
      obtain ⟨t, rest, hh⟩ := splitWsAt_head p (d :: ds) (off + c.utf8Size)
      rw [hh, spansOf_cons] at ih'
      have e : off + byteLen (c :: d :: ds) = off + c.utf8Size + byteLen (d :: ds) := by
        rw [byteLen_cons c]; omega
      rw [e]
      by_cases hc : p c = true
      · have hh2 : splitWsAt p (c :: d :: ds) off = ([], off) :: (t, off + c.utf8Size) :: rest := by
          rw [splitWsAt]; simp only [hc, if_true, hh]
        rw [hh2, spansOf_cons, spansOf_cons]
        simpa [wordOf] using ih'
      · simp only [Bool.not_eq_true] at hc
        have hh2 : splitWsAt p (c :: d :: ds) off = (c :: t, off) :: rest := by
          rw [splitWsAt]; simp only [hc, Bool.false_eq_true, if_false, hh]
        rw [hh2, spansOf_cons]
        rw [lastEnd_append] at ih' ⊢
        by_cases hr : spansOf rest = []
        · simp only [hr, if_true] at ih' ⊢
          by_cases ht : t = []
          · subst ht
            simp only [wordOf, List.isEmpty_nil, if_true, lastEnd, List.getLast?_nil] at ih'
            have := Char.utf8Size_pos c; omega
          · have hte : t.isEmpty = false := by cases t <;> simp_all
            simp only [wordOf, hte, Bool.false_eq_true, if_false, lastEnd, List.getLast?_singleton,
              List.isEmpty_cons, byteLen_cons c] at ih' ⊢
            omega
        · simp only [hr, if_false] at ih' ⊢
          exact ih'



theorem trimEnd_last (p : Char → Bool) (s : List Char) (c : Char)
    (h : (trimEnd p s).getLast? = some c) : p c = false := by
  unfold trimEnd at h
  rw [List.getLast?_reverse] at h
  cases hd : s.reverse.dropWhile p with
  | nil => rw [hd] at h; simp at h
  | cons x xs =>
    rw [hd] at h
    simp only [List.head?_cons, Option.some.injEq] at h
    subst h
    exact dropWhile_head p s.reverse x xs hd

/-- where `declare_start_states` leaves `i`: at the end of the line less its trailing white space -/
theorem declLineParts_end (ws : Char → Bool) (raw : List Char) (excl : Bool)
    (names : List (List Char × Nat × Nat)) (h : declLineParts ws raw = some (excl, names)) :
    lastEnd names = byteLen (trimEnd ws raw) ∧ 0 < byteLen (trimEnd ws raw) := by
  unfold declLineParts at h
  simp only at h
  have hlast := trimEnd_last ws raw
  generalize trimEnd ws raw = line at *
  have hL := takeWhile_append_drop (fun c => !ws c) line
  generalize line.takeWhile (fun c => !ws c) = D at *
  generalize line.drop D.length = R at *
  have hR := List.takeWhile_append_dropWhile (p := ws) (l := R)
  generalize R.takeWhile ws = lead at *
  generalize hP : R.dropWhile ws = params at *
  cases hk : declKind D with
  | none => simp [hk] at h
  | some ex =>
    simp only [hk] at h
    cases hpe : params with
    | nil => simp [hpe] at h
    | cons x xs =>
      rw [hpe] at h
      simp only [List.isEmpty_cons, Bool.false_eq_true, if_false, Option.some.injEq, Prod.mk.injEq] at h
      obtain ⟨_, hn⟩ := h
      have hline : line = (D ++ lead) ++ (x :: xs) := by rw [← hL, ← hR, hpe]; simp
      have hpl : ∀ c, (x :: xs).getLast? = some c → ws c = false := by
        intro c hc; apply hlast c; rw [hline, List.getLast?_append]; simp [hc]
      have := lastEnd_spansOf ws (x :: xs) (byteLen D + byteLen lead) (by simp) hpl
      unfold spansOf at this
      rw [hn] at this
      rw [this, hline]
      simp only [byteLen_append]
      have := Char.utf8Size_pos x
      have e : byteLen (x :: xs) = x.utf8Size + byteLen xs := rfl
      exact ⟨trivial, by omega⟩

end GrmVerif.LexSpecParse
